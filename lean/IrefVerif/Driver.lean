import IrefVerif.Oracle
import IrefVerif.Model.Ops
import IrefVerif.Findings
import IrefVerif.Model.Extra
import IrefVerif.Model.RelClass

/-!
# Line-protocol driver

One request per line: `<operation line>\t<what the implementation printed>`.
One answer per line: `<what the model prints for the operation>\t<oracle verdict>` where
the verdict is `ok`, `skip` (nothing to judge: e.g. invalid argument, correctly reported),
or `FAIL <reason>`.
-/

namespace IrefVerif.Driver
open IrefVerif IrefVerif.Spec IrefVerif.Oracle

def hexDigit? (c : Char) : Option Nat :=
  if '0' ≤ c ∧ c ≤ '9' then some (c.toNat - '0'.toNat)
  else if 'a' ≤ c ∧ c ≤ 'f' then some (c.toNat - 'a'.toNat + 10)
  else none

def unhexChars : List Char → Option Text
  | [] => some []
  | [_] => none
  | a :: b :: r => do
    let x ← hexDigit? a
    let y ← hexDigit? b
    let t ← unhexChars r
    pure ((16 * x + y) :: t)

/-- `x<hex>` -/
def unhex (s : String) : Option Text :=
  match s.toList with
  | 'x' :: r => unhexChars r
  | _ => none

/-- `-` or `x<hex>` -/
def unohex (s : String) : Option (Option Text) :=
  if s == "-" then some none else (unhex s).map some

def hexChar (n : Nat) : Char :=
  if n < 10 then Char.ofNat (48 + n) else Char.ofNat (87 + n)

def hex (t : Text) : String :=
  String.ofList ('x' :: t.flatMap fun b => [hexChar (b / 16 % 16), hexChar (b % 16)])

def ohex : Option Text → String
  | none => "-"
  | some t => hex t

def b01 (b : Bool) : String := if b then "1" else "0"

def verdict : Option String → String
  | none => "ok"
  | some r => "FAIL " ++ r

def splitOn1 (s : String) (sep : String) : List String := s.splitOn sep

/-- parse `a b c d e` (five optional texts) -/
def parseFive (ts : List String) : Option Parts :=
  match ts with
  | [s, a, p, q, f] => do
    pure { scheme := ← unohex s, authority := ← unohex a, path := ← unhex p,
           query := ← unohex q, fragment := ← unohex f }
  | _ => none

def showFive (p : Parts) : String :=
  s!"{ohex p.scheme} {ohex p.authority} {hex p.path} {ohex p.query} {ohex p.fragment}"

def parseThree (ts : List String) : Option AuthParts :=
  match ts with
  | [u, h, p] => do
    pure { userinfo := ← unohex u, host := ← unhex h, port := ← unohex p }
  | _ => none

def showThree (p : AuthParts) : String := s!"{ohex p.userinfo} {hex p.host} {ohex p.port}"

/-- split `A | B` into the two token groups -/
def twoGroups (out : String) : Option (List String × List String) :=
  match out.splitOn " | " with
  | [a, b] => some (a.splitOn " ", b.splitOn " ")
  | _ => none

/-! ## ctor -/

def opCtor (k : Kind) (x : Text) (out : String) : String × String :=
  (b01 (accepts k x), verdict (Oracle.ctor k x out))

/-! ## parts -/

def opParts (f : Fam) (full : Bool) (x : Text) (out : String) : String × String :=
  let c := if full then "full" else "ref"
  let kind := (f.kind c).get!
  let m := if accepts kind x then Model.partsLine full x else "invalid"
  let o :=
    if !valid f c x then
      (if out == "invalid" then "skip" else "FAIL accepted an input outside the RFC production")
    else match twoGroups out with
      | some (a, b) =>
        match parseFive a, parseFive b with
        | some pa, some pb => verdict (Oracle.parts f full x pa pb)
        | _, _ => "FAIL unparsable output: " ++ out
      | none => "FAIL " ++ out
  (m, o)

def opAuth (f : Fam) (x : Text) (out : String) : String × String :=
  let kind := (f.kind "authority").get!
  let m := if accepts kind x then Model.authLine x else "invalid"
  let o :=
    if !valid f "authority" x then
      (if out == "invalid" then "skip" else "FAIL accepted an input outside the RFC production")
    else match twoGroups out with
      | some (a, b) =>
        match parseThree a, parseThree b with
        | some pa, some pb => verdict (Oracle.auth f x pa pb)
        | _, _ => "FAIL unparsable output: " ++ out
      | none => "FAIL " ++ out
  (m, o)


/-! ## histories -/

def parsePmOp (t : String) : Option PmOp :=
  if t == "pop" then some .pop
  else if t == "clear" then some .clear
  else if t == "norm" then some .norm
  else if t.startsWith "push:" then (unhex (t.drop 5).toString).map .push
  else if t.startsWith "spush:" then (unhex (t.drop 6).toString).map .spush
  else if t.startsWith "sapp:" then (unhex (t.drop 5).toString).map .sapp
  else none

def parseAmOp (t : String) : Option AmOp :=
  if t.startsWith "ui:" then (unohex (t.drop 3).toString).map .ui
  else if t.startsWith "host:" then (unhex (t.drop 5).toString).map .host
  else if t.startsWith "port:" then (unohex (t.drop 5).toString).map .port
  else none

def parseGroup {α} (body : String) (p : String → Option α) : Option (List α) :=
  (body.splitOn ";").filter (· != "") |>.mapM p

def parseHOp (t : String) : Option Model.HOp :=
  if t.startsWith "ss:" then (unohex (t.drop 3).toString).map .ss
  else if t.startsWith "sa:" then (unohex (t.drop 3).toString).map .sa
  else if t.startsWith "sp:" then (unhex (t.drop 3).toString).map .sp
  else if t.startsWith "sq:" then (unohex (t.drop 3).toString).map .sq
  else if t.startsWith "sf:" then (unohex (t.drop 3).toString).map .sf
  else if t.startsWith "res:" then (unhex (t.drop 4).toString).map .res
  else if t.startsWith "pm[" && t.endsWith "]" then
    (parseGroup ((t.drop 3).toString.dropEnd 1).toString parsePmOp).map .pm
  else if t.startsWith "am[" && t.endsWith "]" then
    (parseGroup ((t.drop 3).toString.dropEnd 1).toString parseAmOp).map .am
  else (parsePmOp t).map .pathop

/-- output token of one history step -/
inductive HTok
  | text (t : Text)
  | pm (views : List Text) (buf : Text)
  | am (views : List Text) (buf : Text)
  | noauth
  | invalid
  | other (s : String)

def parseViews (s : String) : Option (List Text) :=
  if s.isEmpty then some [] else (s.splitOn ",").mapM unhex

def parseHTok (t : String) : HTok :=
  if t == "noauth" then .noauth
  else if t.endsWith "invalid" then .invalid
  else if (t.startsWith "pm(" || t.startsWith "am(") && t.endsWith ")" then
    let body := ((t.drop 3).toString.dropEnd 1).toString
    match body.splitOn ";" with
    | [vs, b] =>
      match parseViews vs, unhex b with
      | some views, some buf => if t.startsWith "pm(" then .pm views buf else .am views buf
      | _, _ => .other t
    | _ => .other t
  else match unhex t with
    | some x => .text x
    | none => .other t

def hopArgOk (f : Fam) (full : Bool) : Model.HOp → Bool
  | .ss none => !full
  | .ss (some s) => valid f "scheme" s
  | .sa v => validO f "authority" v
  | .sp v => valid f "path" v
  | .sq v => validO f "query" v
  | .sf v => validO f "fragment" v
  | .res b => !full && valid f "full" b
  | .pm ops => ops.all fun
    | .push s => valid f "segment" s
    | .spush s => valid f "segment" s
    | .sapp p => valid f "path" p
    | _ => true
  | .am ops => ops.all fun
    | .ui v => validO f "userinfo" v
    | .host v => valid f "host" v
    | .port v => validO f "port" v
  | .pathop op => match op with
    | .push s => valid f "segment" s
    | .spush s => valid f "segment" s
    | .sapp p => valid f "path" p
    | _ => true

def pmViews (hasAuth : Bool) : Text → List PmOp → List Text → Option String
  | _, [], [] => none
  | pre, op :: ops, v :: vs =>
    match Oracle.pmStep hasAuth pre v op with
    | some e => some e
    | none => pmViews hasAuth v ops vs
  | _, _, _ => some "number of handle views differs from the number of edits"

def amViews : Text → List AmOp → List Text → Option String
  | _, [], [] => none
  | pre, op :: ops, v :: vs =>
    match Oracle.amStep pre v op with
    | some e => some e
    | none => amViews v ops vs
  | _, _, _ => some "number of handle views differs from the number of edits"

/-- the oracle for one step of a history on a reference / full buffer -/
def histStep (f : Fam) (kind : String) (pre : Text) (op : Model.HOp) (tok : HTok) :
    Option String × Option Text :=
  let p := split pre
  let validPost (post : Text) := check (valid f kind post)
    "text after the call is not a valid value of the buffer's type (or not UTF-8)"
  match op, tok with
  | .ss v, .text post =>
    (firstFail [validPost post, Oracle.frame post { p with scheme := v }], some post)
  | .sa v, .text post =>
    (firstFail [validPost post, Oracle.frame post { p with authority := v }], some post)
  | .sp v, .text post =>
    (firstFail [validPost post, Oracle.frame post { p with path := v }], some post)
  | .sq v, .text post =>
    (firstFail [validPost post, Oracle.frame post { p with query := v }], some post)
  | .sf v, .text post =>
    (firstFail [validPost post, Oracle.frame post { p with fragment := v }], some post)
  | .res base, .text post =>
    -- the RFC target of an in-place resolution is C06's concern: a mismatch is reported to C06
    -- only (C04 asks for a valid buffer, which `validPost` checks)
    let e := firstFail [validPost post, (Oracle.resolve f base pre post).map ("[only:C06] " ++ ·)]
    let e := match e with
      | some msg => if valid f kind post && Findings.f15 base pre then some (msg ++ " [KF:F15]") else some msg
      | none => none
    (e, some post)
  | .pm ops, .pm views buf =>
    let q := split buf
    (firstFail [
      validPost buf,
      pmViews p.authority.isSome p.path ops views,
      check (q.scheme == p.scheme && q.authority == p.authority && q.query == p.query &&
        q.fragment == p.fragment) "path editing changed another component",
      check (views.getLast? == none || views.getLast? == some q.path)
        "the handle does not view the buffer's path after the edits"], some buf)
  | .am _, .noauth => (check p.authority.isNone "authority_mut() returned None although an authority is present", some pre)
  | .am ops, .am views buf =>
    let q := split buf
    match p.authority with
    | none => (some "authority_mut() returned a handle although no authority is present", some buf)
    | some a0 =>
      (firstFail [
        validPost buf,
        amViews a0 ops views,
        check (q.scheme == p.scheme && q.path == p.path && q.query == p.query &&
          q.fragment == p.fragment) "authority editing changed another component",
        check (views.getLast? == none || q.authority == views.getLast?)
          "the handle does not view the buffer's authority after the edits"], some buf)
  | _, .invalid => (some "a valid argument was rejected", none)
  | _, _ => (some "unexpected output shape", none)

def histPathStep (f : Fam) (pre : Text) (op : Model.HOp) (tok : HTok) : Option String × Option Text :=
  let validPost (post : Text) := check (valid f "path" post)
    "text after the call is not a valid path (or not UTF-8)"
  match op, tok with
  | .pathop o, .text post => (firstFail [validPost post, Oracle.pmStep false pre post o], some post)
  | .pm ops, .pm views buf =>
    (firstFail [validPost buf, pmViews false pre ops views,
      check (views.getLast? == none || views.getLast? == some buf)
        "the handle does not view the buffer after the edits"], some buf)
  | _, .invalid => (some "a valid argument was rejected", none)
  | _, _ => (some "unexpected output shape", none)

def histOracleGo (f : Fam) (kind : String) : Text → List Model.HOp → List HTok → Nat → Option String
  | _, [], [], _ => none
  | pre, op :: ops, tok :: toks, k =>
    if !hopArgOk f (kind == "full") op then
      (match tok, op with
       | .invalid, _ => none
       -- no authority: `authority_mut()` gave no handle, nothing was called with the argument
       | .noauth, .am _ =>
         if (split pre).authority.isNone then histOracleGo f kind pre ops toks (k + 1)
         else some s!"step {k}: authority_mut() returned None although an authority is present"
       | _, _ => some s!"step {k}: an invalid argument was accepted")
    else
      let r := if kind == "path" then histPathStep f pre op tok else histStep f kind pre op tok
      match r with
      | (some e, _) => some s!"step {k}: {e}"
      | (none, some post) => histOracleGo f kind post ops toks (k + 1)
      | (none, none) => none
  | _, _, _, k => some s!"step {k}: number of outputs differs from the number of operations"

def opHist (f : Fam) (kind : String) (b : Text) (ops : List Model.HOp) (out : String) : String × String :=
  let m := Model.histLine f kind b ops
  let k := match kind with | "path" => "path" | "full" => "full" | _ => "ref"
  let o :=
    if !valid f k b then
      (if out == "invalid" then "skip" else "FAIL accepted an initial buffer outside the RFC production")
    else if out == "PANIC" then "FAIL a safe mutating call panicked"
    else if out == "invalid" then
      (match ops with
       | op :: _ => if !hopArgOk f (k == "full") op then "skip" else "FAIL rejected a valid initial buffer or argument"
       | [] => "FAIL rejected a valid initial buffer")
    else verdict (histOracleGo f k b ops ((out.splitOn " ").map parseHTok) 0)
  (m, o)

/-! ## resolution -/

def opResolve (f : Fam) (base r : Text) (out : String) : String × String :=
  let m := Model.resolveLine f base r
  let o :=
    if !valid f "full" base || !valid f "ref" r then
      (if out == "invalid" then "skip" else "FAIL accepted an argument outside the RFC production")
    else match unhex out with
      | some t =>
        let v := verdict (firstFail [
          check (valid f "full" t) "result is not a valid URI/IRI",
          -- the RFC target is C06's statement; other properties that run resolution (C13: both
          -- families agree) only need validity and agreement with the model
          (Oracle.resolve f base r t).map ("[only:C06] " ++ ·)])
        -- the theorem of C06 that speaks about this pair, for the evidence
        let cls := " [cls:" ++ Model.resolveClass base r ++ "]"
        (if v != "ok" && valid f "full" t && Findings.f15 base r then v ++ " [KF:F15]" else v) ++ cls
      | none => "FAIL " ++ out
  (m, o)

/-! ## relativisation -/

def opRelto (f : Fam) (a b : Text) (out : String) : String × String :=
  let m := Model.reltoLine f a b
  let o :=
    if !valid f "full" a || !valid f "full" b then
      (if out == "invalid" then "skip" else "FAIL accepted an argument outside the RFC production")
    else match (out.splitOn " ") with
      | [r, back, e] =>
        match unhex r, unhex back with
        | some r, some back =>
          let v1 := check (valid f "ref" r) "the relative reference is not a valid reference"
          let v2 := firstFail [
            check (e == "1") "resolving the relative reference against b does not give a value equal to a (library equality)",
            check (key back == key a) "resolving the relative reference against b does not give a value equivalent to a"]
          -- the theorem of C15 that speaks about this pair, for the evidence
          let cls := " [cls:" ++ Model.relClass a b ++ "]"
          match v1, v2 with
          | some m, _ => "FAIL " ++ m ++ cls
          | none, some m => if Findings.f12 a b then "FAIL " ++ m ++ " [KF:F12]" ++ cls else "FAIL " ++ m ++ cls
          | none, none => "ok" ++ cls
        | _, _ => "FAIL " ++ out
      | _ => "FAIL " ++ out
  (m, o)

def opReltoRef (f : Fam) (a b : Text) (out : String) : String × String :=
  let m := Model.reltoRefLine f a b
  let o :=
    if !valid f "ref" a || !valid f "ref" b then
      (if out == "invalid" then "skip" else "FAIL accepted an argument outside the RFC production")
    else match unhex out with
      | some r => verdict (check (valid f "ref" r) "the relative reference is not a valid reference")
      | none => "FAIL " ++ out
  (m, o)

/-! ## suffix, base -/

def suffixOracle (want : Option (List Text)) (s : Option Text) : Option String :=
  match want, s with
  | none, none => none
  | some e, some t => check (Oracle.realisesEither t e)
      "suffix path is not the remaining normalized segments"
  | none, some _ => some "a suffix was returned although the prefix condition does not hold"
  | some _, none => some "no suffix although the prefix condition holds"

def opPSuffix (f : Fam) (a p : Text) (out : String) : String × String :=
  let m := Model.psuffixLine f a p
  let o :=
    if !valid f "path" a || !valid f "path" p then
      (if out == "invalid" then "skip" else "FAIL accepted an argument outside the RFC production")
    else if out == "PANIC" then "FAIL panicked"
    else
      let s := if out == "none" then some none else (unhex out).map some
      match s with
      | some s => verdict (firstFail [
          suffixOracle (Oracle.pathSuffixSpec a p) s,
          check (match s with | some t => valid f "path" t | none => true) "suffix is not a valid path"])
      | none => "FAIL " ++ out
  (m, o)

def opSuffix (f : Fam) (full : Bool) (a p : Text) (out : String) : String × String :=
  let k := if full then "full" else "ref"
  let m := Model.suffixLine f full a p
  let o :=
    if !valid f k a || !valid f k p then
      (if out == "invalid" then "skip" else "FAIL accepted an argument outside the RFC production")
    else if out == "PANIC" then "FAIL panicked"
    else
      let pa := split a
      let pp := split p
      let cond := pa.scheme == pp.scheme && pa.authority.map authKey == pp.authority.map authKey
      let want := if cond then Oracle.pathSuffixSpec pa.path pp.path else none
      if out == "none" then verdict (suffixOracle want none)
      else match out.splitOn " " with
        | [s, q, fr] =>
          match unhex s, unohex q, unohex fr with
          | some s, some q, some fr => verdict (firstFail [
              suffixOracle want (some s),
              check (q == pa.query && fr == pa.fragment) "suffix does not carry the value's own query and fragment"])
          | _, _, _ => "FAIL " ++ out
        | _ => "FAIL " ++ out
  (m, o)

def opBase (f : Fam) (full : Bool) (a : Text) (out : String) : String × String :=
  let k := if full then "full" else "ref"
  let m := Model.baseLine f full a
  let o :=
    if !valid f k a then
      (if out == "invalid" then "skip" else "FAIL accepted an argument outside the RFC production")
    else match unhex out with
      | some t => verdict (firstFail [
          check (t == Oracle.baseSpec a) "base is not the text up to the last '/' of the path",
          check (valid f k t) "base is not a valid value of the same kind",
          check ((split t).query.isNone && (split t).fragment.isNone) "base has a query or fragment"])
      | none => "FAIL " ++ out
  (m, o)

/-! ## path queries -/

def field (kvs : List (String × String)) (k : String) : String :=
  match kvs.find? (·.1 == k) with
  | some (_, v) => v
  | none => "?"

def parseList (s : String) : Option (List Text) :=
  let inner := ((s.drop 1).toString.dropEnd 1).toString
  if inner.isEmpty then some [] else (inner.splitOn ",").mapM unhex

def opPathq (f : Fam) (p : Text) (out : String) : String × String :=
  let m := Model.pathqLine f p
  let o :=
    if !valid f "path" p then
      (if out == "invalid" then "skip" else "FAIL accepted an argument outside the RFC production")
    else
      let kvs := (out.splitOn " ").filterMap fun t =>
        match t.splitOn "=" with
        | [k, v] => some (k, v)
        | _ => none
      let g := field kvs
      let s := segs p
      let ns := nsegs p
      verdict (firstFail [
        check (g "e" == b01 s.isEmpty) "is_empty",
        check (g "a" == b01 (isAbs p)) "is_absolute",
        check (g "n" == toString s.length) "segment_count",
        check (g "first" == ohex s.head?) "first",
        check (g "last" == ohex s.getLast?) "last",
        check (g "fn" == ohex (Oracle.fileName p)) "file_name",
        check (g "dir" == hex (upToLastSlash p)) "directory",
        check (g "par" == ohex (Oracle.parentSpec p)) "parent",
        check (g "poe" == hex (Oracle.parentOrEmpty p)) "parent_or_empty",
        check (g "nlen" == toString ns.length) "normalized_segments().len()",
        check (parseList (g "segs") == some s) "forward iteration is not the '/'-split",
        check (parseList (g "rsegs") == some s.reverse) "backward iteration is not the reversed '/'-split",
        check (parseList (g "nsegs") == some ns) "normalized segments are not the RFC 3986 5.2.4 / Errata 4547 walk",
        (match unhex (g "norm") with
         | some n => firstFail [
            check (valid f "path" n) "normalized copy is not a valid path",
            check (isAbs n == isAbs p) "normalized copy changed absoluteness",
            check (realises n (normTarget p)) "normalized copy does not render the normalized sequence",
            check (g "norm2" == g "norm") "normalized copy is not idempotent"]
         | none => some "normalized() panicked")])
  (m, o)

def opSegs (f : Fam) (p : Text) (sched : String) (out : String) : String × String :=
  let m := Model.segsLine f p sched
  let o :=
    if !valid f "path" p then
      (if out == "invalid" then "skip" else "FAIL accepted an argument outside the RFC production")
    else
      let cs := sched.toList
      let term := cs.getLast?.filter fun c => c == 'c' || c == 'l' || c == 'z'
      let body := if term.isSome then cs.dropLast else cs
      -- `N` = `nth(1)`, `B` = `nth_back(1)`: two steps, the first result is dropped
      let steps : List (Bool × Bool) := body.flatMap fun c =>
        if c == 'N' then [(true, false), (true, true)]
        else if c == 'B' then [(false, false), (false, true)]
        else [(c == 'f', true)]
      let sr0 := Oracle.scheduleRem (segs p) (steps.map (·.1))
      let kept := (sr0.1.zip (steps.map (·.2))).filterMap fun (o, k) => if k then some o else none
      let sr : List (Option Text) × List Text := (kept, sr0.2)
      let tail : List String := match term with
        | some 'c' => [s!"rest={sr.2.length}"]
        | some 'l' => [s!"last={ohex sr.2.getLast?}"]
        | some _ => [s!"hint=ok rest={sr.2.length}"]
        | none => []
      let want := ",".intercalate (sr.1.map ohex ++ tail)
      verdict (check (out == want) "interleaved iteration does not yield the '/'-split pieces once each, in order (or count/last/size_hint of the rest disagree)")
  (m, o)

/-! ## comparison -/

def opCmp (f : Fam) (kind : String) (a b : Text) (out : String) : String × String :=
  let m := Model.cmpLine f kind a b
  let ka := if kind == "fullref" then "full" else kind
  let kb := if kind == "fullref" then "ref" else kind
  let o :=
    if !valid f ka a || !valid f kb b then
      (if out == "invalid" then "skip" else "FAIL accepted an argument outside the RFC production")
    else if out == "PANIC" then "FAIL comparison panicked"
    else if out.startsWith "ALIAS-DIFFERS" then
      "FAIL the outcome of a comparison depends on where the operands are stored (the same texts as views into one buffer compare differently)"
    else
      let want := Oracle.specEq kind a b
      match out.splitOn " " with
      | [e, c, h] => verdict (firstFail [
          check (e == b01 want) "equality differs from the documented equivalence",
          check ((c == "=") == (e == "1")) "ordering's 'equal' outcome does not coincide with equality",
          check (e != "1" || h == "1") "equal values hash differently"])
      | [e1, c1, e2, c2] => verdict (firstFail [
          check (e1 == b01 want && e2 == b01 want) "cross-type equality differs from the documented equivalence",
          check ((c1 == "=") == (e1 == "1") && (c2 == "=") == (e2 == "1")) "cross-type ordering disagrees with equality",
          check ((c1 == "<") == (c2 == ">") && (c1 == ">") == (c2 == "<")) "cross-type ordering is not antisymmetric"])
      | _ => "FAIL " ++ out
  (m, o)

/-- every provided cross-type comparison agrees with the documented equivalence / the order -/
def opCross (f : Fam) (a b : Text) (out : String) : String × String :=
  let m := Model.crossLine f a b
  let o :=
    if !valid f "ref" a || !valid f "ref" b then
      (if out == "invalid" then "skip" else "FAIL accepted an argument outside the RFC production")
    else if out == "PANIC" then "FAIL comparison panicked"
    else
      let want := Oracle.specEq "ref" a b
      match out.splitOn " " with
      | [e, c, x] => verdict (firstFail [
          check (e == "eq=" ++ b01 want) "equality differs from the documented equivalence",
          check ((c == "cmp=0") == (e == "eq=1")) "ordering's 'equal' outcome does not coincide with equality",
          check (x == "cross=ok") ("a cross-type comparison impl disagrees with the same-type result: " ++ x)])
      | _ => "FAIL " ++ out
  (m, o)

/-- comparing a value with plain text is plain text comparison -/
def opStrEq (kind : String) (v : Text) (out : String) : String × String :=
  let m := Model.streqLine kind v
  let o := match Kind.ofString? kind with
    | none => "FAIL malformed request"
    | some k =>
      if !acceptsSpec k v then (if out == "invalid" then "skip" else "FAIL accepted an argument outside the RFC production")
      else if out == "ok" then "ok"
      else "FAIL comparison of a value with plain text is not plain text comparison: " ++ out
  (m, o)

def opHash (f : Fam) (kind : String) (a : Text) (out : String) : String × String :=
  let m := Model.hashLine f kind a
  let o := if out.startsWith "OWNED-DIFFERS" then "FAIL owned and borrowed values hash differently"
    else if out == "PANIC" then (if valid f kind a then "FAIL hashing panicked" else "skip") else "ok"
  (m, o)

/-! ## conversions (C13) -/

def opConvert (kind : String) (x : Text) (out : String) : String × String :=
  let m := Model.convertLine kind x
  let k : Option Kind := match kind with
    | "uri" => some .uri | "uriref" => some .uriRef | "iri" => some .iri | "iriref" => some .iriRef
    | _ => none
  match k with
  | none => bad'
  | some k =>
    if !acceptsSpec k x then
      (m, if out == "invalid" then "skip" else "FAIL accepted an argument outside the RFC production")
    else
      let hasScheme := (split x).scheme.isSome
      let u := acceptsSpec .uri x
      let ur := acceptsSpec .uriRef x
      let toks := (out.splitOn " ").filterMap fun t =>
        match t.splitOn "=" with
        | [n, v] => some (n, v)
        | _ => none
      -- what each conversion must do, by its name
      let want (n : String) : Option Bool :=
        if ["as_uri_ref", "as_iri", "as_iri_ref", "asref_uri_ref", "borrow_iri", "into_uri_ref", "into_iri",
            "into_iri_ref", "from_buf", "from_iri_ref", "from_buf_iri_ref", "iri_accepts", "iri_ref_accepts"].contains n then
          (match k, n with
           | .uriRef, "as_iri" => some hasScheme
           | .iri, "as_uri_ref" => some ur
           | .iriRef, "as_uri_ref" => some ur
           | .iriRef, "as_iri" => some hasScheme
           | _, _ => some true)
        else if ["as_uri", "try_from_uri", "try_into_uri", "tryfrom_buf_uri"].contains n then
          (match k with
           | .uriRef => some hasScheme
           | _ => some u)
        else if ["try_from_iri", "try_into_iri", "tryfrom_buf_iri"].contains n then some hasScheme
        else if ["try_from_uri_ref", "try_into_uri_ref", "tryfrom_buf_uri_ref"].contains n then some ur
        else none
      let bads := toks.filterMap fun (n, v) =>
        match want n with
        | some true => if v == "ok" then none else some s!"{n} should succeed with the text unchanged, got {v}"
        | some false => if v == "none" || v == "err" then none else some s!"{n} should fail and hand the value back, got {v}"
        | none => some s!"unknown conversion {n}"
      (m, if toks.isEmpty then "FAIL " ++ out else verdict bads.head?)
where bad' : String × String := ("bad-op", "FAIL malformed request")

/-! ## routes out (C14), views (C08) -/

def opRoutes (k : Kind) (x : Text) (out : String) : String × String :=
  let m := Model.routesLine k x
  let o := if !(acceptsSpec k x && (utf8Decode? x).isSome) then
      (if out == "invalid" then "skip" else "FAIL accepted an argument outside the RFC production")
    else verdict (check (out == "1") ("a textual route does not reproduce the text: " ++ out))
  (m, o)

def opViews (f : Fam) (x : Text) (out : String) : String × String :=
  let m := Model.viewsLine f x
  let o := if !valid f "full" x then
      (if out == "invalid" then "skip" else "FAIL accepted an argument outside the RFC production")
    else verdict (check (out == m) ("views of one value hash/compare/look up differently: " ++ out))
  (m, o)

/-! ## data URLs (C18) -/

def opDataUrl (x : Text) (out : String) : String × String :=
  let m := Model.dataurlLine x
  let o :=
    if out == "0" then "skip"
    else if out.startsWith "ACCEPT-DIFF" then "FAIL borrowed and owned constructors disagree"
    else if out.startsWith "VIEWS-DIFF" then "FAIL borrowed and owned views disagree"
    else if out.startsWith "ROUTES-DIFF" then "FAIL a route in or out of a data URL disagrees with the constructors: " ++ out
    else if out.startsWith "ERRCHANGED" then "FAIL the error does not hand the input back"
    else match out.splitOn " " with
      | [mt, b64, data, dec] =>
        match unohex mt, unhex data with
        | some mt, some data =>
          let b := b64 == "1"
          let mtT := mt.getD []
          let re := Model.DataUrl.dataPrefix ++ mtT ++ (if b then [0x3B, 0x62, 0x61, 0x73, 0x65, 0x36, 0x34] else []) ++ [0x2C] ++ data
          let wantDec := match Model.DataUrl.decoded b data with
            | some t => hex t
            | none => "b64err"
          verdict (firstFail [
            check (acceptsSpec .uri x) "accepted a text that is not a valid URI",
            check (re == x) "media type, base64 flag and data do not reassemble the original text",
            check (mt != some []) "empty media type reported as present",
            check (mtT.all Model.DataUrl.isMediaTypeChar) "media type contains a delimiter",
            check (dec == wantDec) "decoded data is not the (base64) decoding of the data part"])
        | _, _ => "FAIL " ++ out
      | _ => "FAIL " ++ out
  (m, o)

/-! ## percent-decoded views (C19) -/

def opPct (f : Fam) (kind : String) (x : Text) (out : String) : String × String :=
  let m := Model.pctLine f kind x
  let o :=
    if !valid f kind x then
      (if out == "invalid" then "skip" else "FAIL accepted an argument outside the RFC production")
    else
      let kvs := (out.splitOn " ").filterMap fun t =>
        match t.splitOn "=" with
        | [k, v] => some (k, v)
        | _ => none
      let g := field kvs
      let octets := pctDecode x
      let v := match utf8Decode? octets with
        | some cs => firstFail [
            check (g "bytes" == hex octets) "decoded octets are not the component's bytes with each %XX replaced",
            check (g "chars" == "[" ++ ".".intercalate (cs.map Model.hexNum) ++ "]") "chars() is not the UTF-8 text of the decoded octets",
            check (g "len" == toString cs.length) "len() is not the number of characters",
            check (g "decode" == hex octets) "decode() is not the UTF-8 text of the decoded octets",
            check (g "eqdecoded" == "1") "comparison with the decoded plain text is false",
            check (g "text" == "1") "the view is not the component's text"]
        | none => firstFail [
            check (g "bytes" == hex octets) "decoded octets are not the component's bytes with each %XX replaced",
            check (!(out.splitOn "PANIC").length > 1) "a percent-decoded view panicked on octets that are not UTF-8",
            some "ill-formed or overlong octets were read as well-formed text"]
      match v with
      | none => "ok"
      | some msg =>
        -- F13 is about the character views; the octet view (and obtaining the view at all) must be
        -- right for every valid component, inside the class too
        if Findings.f13 x && g "bytes" == hex octets then "FAIL " ++ msg ++ " [KF:F13]" else "FAIL " ++ msg
  (m, o)

/-- `pctref`: every component reached from a whole reference has exactly the decoded octets of
the corresponding RFC component -/
def opPctRef (f : Fam) (x : Text) (out : String) : String × String :=
  let m := Model.pctrefLine f x
  let o :=
    if !valid f "ref" x then
      (if out == "invalid" then "skip" else "FAIL accepted an argument outside the RFC production")
    else
      let p := split x
      let oct (t : Text) : String := hex (pctDecode t)
      let ooct (t : Option Text) : String := match t with | some t => oct t | none => "-"
      let ap := p.authority.map splitAuth
      let want := s!"ui={ooct (ap.bind (·.userinfo))} host={ooct (ap.map (·.host))} segs=[{",".intercalate ((segs p.path).map oct)}] rev=1 query={ooct p.query} fragment={ooct p.fragment}"
      verdict (check (out == want)
        "the octet view of a component reached from the whole reference is not that component's bytes with each %XX replaced")
  (m, o)

/-! ## provenance and allocation (C20) -/

/-- `a+b` → range, `const:x..` → constant, `-` → absent -/
inductive Loc
  | range (s e : Nat)
  | const (t : Text)
  | absent
  | bad
  deriving DecidableEq

def parseLoc (s : String) : Loc :=
  if s == "-" then .absent
  else if s.startsWith "const:" then
    match unhex (s.drop 6).toString with
    | some t => .const t
    | none => .bad
  else match s.splitOn "+" with
    | [a, b] =>
      match a.toNat?, b.toNat? with
      | some a, some b => .range a (a + b)
      | _, _ => .bad
    | _ => .bad

def sliceT (x : Text) (s e : Nat) : Text := (x.take e).drop s

def opPtr (f : Fam) (full : Bool) (x : Text) (out : String) : String × String :=
  let k := if full then "full" else "ref"
  let m := Model.ptrLine f full x
  let o :=
    if !valid f k x then
      (if out == "invalid" then "skip" else "FAIL accepted an argument outside the RFC production")
    else
      let kvs := (out.splitOn " ").filterMap fun t =>
        match t.splitOn "=" with
        | [k, v] => some (k, v)
        | _ => none
      let g := fun k => parseLoc (field kvs k)
      let p := split x
      -- expected offsets from the Appendix-B decomposition
      let o0 := 0
      let (sR, o1) := match p.scheme with
        | some s => (Loc.range o0 (o0 + s.length), o0 + s.length + 1)
        | none => (Loc.absent, o0)
      let (aR, o2) := match p.authority with
        | some a => (Loc.range (o1 + 2) (o1 + 2 + a.length), o1 + 2 + a.length)
        | none => (Loc.absent, o1)
      let pR := Loc.range o2 (o2 + p.path.length)
      let o3 := o2 + p.path.length
      let (qR, o4) := match p.query with
        | some q => (Loc.range (o3 + 1) (o3 + 1 + q.length), o3 + 1 + q.length)
        | none => (Loc.absent, o3)
      let fR := match p.fragment with
        | some fr => Loc.range (o4 + 1) (o4 + 1 + fr.length)
        | none => Loc.absent
      let inPathPrefix (l : Loc) (allowed : List Text) (want : Text) : Bool :=
        match l with
        | .range s e => s == o2 && e ≤ o3 && sliceT x s e == want
        | .const t => allowed.contains t && t == want
        | _ => false
      let segLoc (l : Loc) (want : Option Text) : Bool :=
        match l, want with
        | .absent, none => true
        | .range s e, some w => o2 ≤ s && e ≤ o3 && sliceT x s e == w
        | _, _ => false
      let sg := segs p.path
      let ap := p.authority.map splitAuth
      let subLoc (l : Loc) (want : Option Text) : Bool :=
        match l, want with
        | .absent, none => true
        | .range s e, some w => o1 + 2 ≤ s && e ≤ o2 && sliceT x s e == w
        | _, _ => false
      verdict (firstFail [
        check (g "whole" == .range 0 x.length) "the parsed value does not occupy exactly the caller's input",
        check (g "scheme" == sR && g "authority" == aR && g "path" == pR && g "query" == qR && g "fragment" == fR)
          "components are not the in-order, non-overlapping sub-slices of the input given by RFC 3986",
        check (g "ascheme" == sR && g "aauthority" == aR && g "apath" == pR && g "aquery" == qR && g "afragment" == fR)
          "the stand-alone accessors do not return the in-order, non-overlapping sub-slices of the input given by RFC 3986",
        check (subLoc (g "userinfo") (ap.bind (·.userinfo)) && subLoc (g "host") (ap.map (·.host)) &&
          subLoc (g "port") (ap.bind (·.port))) "authority sub-components are not sub-slices of the authority",
        check (g "auserinfo" == g "userinfo" && g "ahost" == g "host" && g "aport" == g "port")
          "the stand-alone authority accessors do not return the same sub-slices as parts()",
        check (segLoc (g "first") sg.head? && segLoc (g "last") sg.getLast? && segLoc (g "fn") (Oracle.fileName p.path))
          "first/last/file name are not sub-slices of the path",
        check (inPathPrefix (g "dir") [[]] (upToLastSlash p.path)) "directory is not a prefix of the path (or the empty constant)",
        check (match Oracle.parentSpec p.path with
          | some w => inPathPrefix (g "par") [[cSlash], [cSlash, cDot, cSlash]] w
          | none => g "par" == .absent) "parent is not a prefix of the path (or a fixed constant)",
        check (inPathPrefix (g "poe") [[], [cSlash], [cSlash, cDot, cSlash]] (Oracle.parentOrEmpty p.path))
          "parent_or_empty is not a prefix of the path (or a fixed constant)",
        check (g "base" == .range 0 (Oracle.baseSpec x).length) "base is not a prefix of the input",
        check (field kvs "segs_inside" == "1") "a segment yielded by the iterators lies outside the input",
        check (field kvs "nseg" == toString sg.length) "segment count",
        check (field kvs "allocs" == "0") ("borrowed parsing/accessors allocated: " ++ field kvs "allocs")])
  (m, o)

/-! ## dispatch -/

def bad : String × String := ("bad-op", "FAIL malformed request")

/-- C20 for the borrowed data-URL type: the views are sub-slices at the offsets of the scanner's
model, and nothing was allocated (acceptance itself is C18's) -/
def opPtrData (x : Text) (out : String) : String × String :=
  if Model.dataurlLine x == "0" || out.startsWith "invalid" then ("invalid", "skip")
  else match Model.DataUrl.parse x with
    | none => ("invalid", "skip")
    | some d =>
      let mt := Model.DataUrl.ownedMediaType d x
      let data := Model.DataUrl.ownedData d x
      let n := x.length
      let kvs := (out.splitOn " ").filterMap fun t =>
        match t.splitOn "=" with
        | [k, v] => some (k, v)
        | _ => none
      let g := fun k => parseLoc (field kvs k)
      let mtR := match mt with
        | some t => Loc.range 5 (5 + t.length)
        | none => Loc.absent
      let dR := Loc.range (n - data.length) n
      let showL := fun (l : Loc) => match l with
        | .range a b => s!"{a}+{b - a}"
        | .absent => "-"
        | _ => "?"
      let m := s!"whole=0+{n} media_type={showL mtR} data={showL dR} parts_media_type={showL mtR} parts_data={showL dR} uri=0+{n} allocs=0"
      let o := verdict (firstFail [
        check (g "whole" == .range 0 n && g "uri" == .range 0 n) "the parsed data URL does not occupy exactly the caller's input",
        check (g "media_type" == mtR && g "parts_media_type" == mtR) "the media type is not the sub-slice of the input behind `data:`",
        check (g "data" == dR && g "parts_data" == dR) "the data is not the tail sub-slice of the input",
        check (field kvs "allocs" == "0") ("borrowed data-URL parsing/accessors allocated: " ++ out)])
      (m, o)

def dispatch (opLine out : String) : String × String :=
  let t := opLine.splitOn " "
  match t with
  | ["ctor", k, x] =>
    match Kind.ofString? k, unhex x with
    | some k, some x => opCtor k x out
    | _, _ => bad
  | ["parts", f, c, x] =>
    match Fam.ofString? f, unhex x with
    | some f, some x => opParts f (c == "full") x out
    | _, _ => bad
  | ["auth", f, x] =>
    match Fam.ofString? f, unhex x with
    | some f, some x => opAuth f x out
    | _, _ => bad
  | "hist" :: f :: kind :: b :: ops =>
    match Fam.ofString? f, unhex b, ops.mapM parseHOp with
    | some f, some b, some ops => opHist f kind b ops out
    | _, _, _ => bad
  | ["resolve", f, b, r] =>
    match Fam.ofString? f, unhex b, unhex r with
    | some f, some b, some r => opResolve f b r out
    | _, _, _ => bad
  | ["relto", f, a, b] =>
    match Fam.ofString? f, unhex a, unhex b with
    | some f, some a, some b => opRelto f a b out
    | _, _, _ => bad
  | ["reltoref", f, a, b] =>
    match Fam.ofString? f, unhex a, unhex b with
    | some f, some a, some b => opReltoRef f a b out
    | _, _, _ => bad
  | ["suffix", f, c, a, p] =>
    match Fam.ofString? f, unhex a, unhex p with
    | some f, some a, some p => opSuffix f (c == "full") a p out
    | _, _, _ => bad
  | ["psuffix", f, a, p] =>
    match Fam.ofString? f, unhex a, unhex p with
    | some f, some a, some p => opPSuffix f a p out
    | _, _, _ => bad
  | ["base", f, c, a] =>
    match Fam.ofString? f, unhex a with
    | some f, some a => opBase f (c == "full") a out
    | _, _ => bad
  | ["pathq", f, p] =>
    match Fam.ofString? f, unhex p with
    | some f, some p => opPathq f p out
    | _, _ => bad
  | ["segs", f, p, sched] =>
    match Fam.ofString? f, unhex p with
    | some f, some p => opSegs f p sched out
    | _, _ => bad
  | ["cmp", f, kind, a, b] =>
    match Fam.ofString? f, unhex a, unhex b with
    | some f, some a, some b => opCmp f kind a b out
    | _, _, _ => bad
  | ["convert", kind, x] =>
    match unhex x with
    | some x => opConvert kind x out
    | none => bad
  | ["routes", k, x] =>
    match Kind.ofString? k, unhex x with
    | some k, some x => opRoutes k x out
    | _, _ => bad
  | ["views", f, x] =>
    match Fam.ofString? f, unhex x with
    | some f, some x => opViews f x out
    | _, _ => bad
  | ["dataurl", x] =>
    match unhex x with
    | some x => opDataUrl x out
    | none => bad
  | ["pct", f, kind, x] =>
    match Fam.ofString? f, unhex x with
    | some f, some x => opPct f kind x out
    | _, _ => bad
  | ["cross", f, a, b] =>
    match Fam.ofString? f, unhex a, unhex b with
    | some f, some a, some b => opCross f a b out
    | _, _, _ => bad
  | ["streq", kind, v, _] =>
    match unhex v with
    | some v => opStrEq kind v out
    | none => bad
  | ["pctref", f, x] =>
    match Fam.ofString? f, unhex x with
    | some f, some x => opPctRef f x out
    | _, _ => bad
  | ["ptrbig", _, _, x] =>
    -- summary line for inputs far larger than any inline buffer; the argument is not decoded
    let len := (x.length - 1) / 2
    let m := s!"len={len} whole=0+{len} segs_inside=1 allocs=0"
    let toks := out.splitOn " "
    let o := verdict (firstFail [
      check (toks.contains s!"whole=0+{len}") "the parsed value does not occupy exactly the caller's input",
      check (toks.contains "segs_inside=1") "a segment yielded by the iterators lies outside the input",
      check (toks.contains "allocs=0") ("borrowed parsing/accessors allocated: " ++ out)])
    (m, o)
  | ["ptr", f, c, x] =>
    match Fam.ofString? f, unhex x with
    | some f, some x => opPtr f (c == "full") x out
    | _, _ => bad
  | ["ptrdata", x] =>
    match unhex x with
    | some x => opPtrData x out
    | none => bad
  | ["hash", f, kind, a] =>
    match Fam.ofString? f, unhex a with
    | some f, some a => opHash f kind a out
    | _, _ => bad
  | _ => bad

/-- one request line (`op\timpl`) to one answer line (`model\tverdict`) -/
def answer (line : String) : String :=
  match line.splitOn "\t" with
  | [op, out] => let r := dispatch op out; r.1 ++ "\t" ++ r.2
  | [op] => let r := dispatch op ""; r.1 ++ "\t" ++ r.2
  | _ => "bad-op\tFAIL malformed request"

end IrefVerif.Driver
