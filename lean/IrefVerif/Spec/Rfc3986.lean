import IrefVerif.Spec.Regex

/-!
# RFC 3986 Appendix A, transcribed production by production

Symbols are octets.  Literal strings in ABNF are case-insensitive (RFC 5234 §2.3),
which matters for `"v"` in `IPvFuture` and for `HEXDIG` (`A`–`F` given in upper case).
Code points are written numerically so that the kernel can evaluate these terms.
This file is part of the trusted base: read it against the RFC.
-/

namespace IrefVerif.Rfc3986
open RE

def ALPHA : RE := cls [(0x41, 0x5A), (0x61, 0x7A)]
def DIGIT : RE := cls [(0x30, 0x39)]
/-- `HEXDIG = DIGIT / "A" / … / "F"`, case-insensitive -/
def HEXDIG : RE := cls [(0x30, 0x39), (0x41, 0x46), (0x61, 0x66)]

/-- `unreserved = ALPHA / DIGIT / "-" / "." / "_" / "~"` -/
def unreserved : RE := alts [ALPHA, DIGIT, ch 0x2D, ch 0x2E, ch 0x5F, ch 0x7E]
/-- `pct-encoded = "%" HEXDIG HEXDIG` -/
def pctEncoded : RE := seqs [ch 0x25, HEXDIG, HEXDIG]
/-- `sub-delims = "!" / "$" / "&" / "'" / "(" / ")" / "*" / "+" / "," / ";" / "="` -/
def subDelims : RE :=
  alts [ch 0x21, ch 0x24, ch 0x26, ch 0x27, ch 0x28, ch 0x29, ch 0x2A, ch 0x2B, ch 0x2C, ch 0x3B, ch 0x3D]
/-- `pchar = unreserved / pct-encoded / sub-delims / ":" / "@"` -/
def pchar : RE := alts [unreserved, pctEncoded, subDelims, ch 0x3A, ch 0x40]

/-- `scheme = ALPHA *( ALPHA / DIGIT / "+" / "-" / "." )` -/
def scheme : RE := seq ALPHA (star (alts [ALPHA, DIGIT, ch 0x2B, ch 0x2D, ch 0x2E]))

/-- `userinfo = *( unreserved / pct-encoded / sub-delims / ":" )` -/
def userinfo : RE := star (alts [unreserved, pctEncoded, subDelims, ch 0x3A])

/-- `dec-octet` -/
def decOctet : RE := alts [
  DIGIT,
  seq (cls [(0x31, 0x39)]) DIGIT,
  seqs [ch 0x31, DIGIT, DIGIT],
  seqs [ch 0x32, cls [(0x30, 0x34)], DIGIT],
  seqs [ch 0x32, ch 0x35, cls [(0x30, 0x35)]]]

/-- `IPv4address = dec-octet "." dec-octet "." dec-octet "." dec-octet` -/
def IPv4address : RE := seqs [decOctet, ch 0x2E, decOctet, ch 0x2E, decOctet, ch 0x2E, decOctet]

/-- `h16 = 1*4HEXDIG` -/
def h16 : RE := rep HEXDIG 1 4
/-- `ls32 = ( h16 ":" h16 ) / IPv4address` -/
def ls32 : RE := alt (seqs [h16, ch 0x3A, h16]) IPv4address
/-- `h16 ":"` -/
def h16c : RE := seq h16 (ch 0x3A)
/-- `[ *n( h16 ":" ) h16 ]` -/
def pre (n : Nat) : RE := opt (seq (rep h16c 0 n) h16)
/-- `"::"` -/
def dcolon : RE := lit [0x3A, 0x3A]

/-- `IPv6address`, the nine alternatives in RFC order -/
def IPv6address : RE := alts [
  seq (rep h16c 6 6) ls32,
  seqs [dcolon, rep h16c 5 5, ls32],
  seqs [opt h16, dcolon, rep h16c 4 4, ls32],
  seqs [pre 1, dcolon, rep h16c 3 3, ls32],
  seqs [pre 2, dcolon, rep h16c 2 2, ls32],
  seqs [pre 3, dcolon, h16c, ls32],
  seqs [pre 4, dcolon, ls32],
  seqs [pre 5, dcolon, h16],
  seqs [pre 6, dcolon]]

/-- `IPvFuture = "v" 1*HEXDIG "." 1*( unreserved / sub-delims / ":" )` (`"v"` case-insensitive) -/
def IPvFuture : RE :=
  seqs [cls [(0x56, 0x56), (0x76, 0x76)], plus HEXDIG, ch 0x2E, plus (alts [unreserved, subDelims, ch 0x3A])]

/-- `IP-literal = "[" ( IPv6address / IPvFuture ) "]"` -/
def IPliteral : RE := seqs [ch 0x5B, alt IPv6address IPvFuture, ch 0x5D]

/-- `reg-name = *( unreserved / pct-encoded / sub-delims )` -/
def regName : RE := star (alts [unreserved, pctEncoded, subDelims])

/-- `host = IP-literal / IPv4address / reg-name` -/
def host : RE := alts [IPliteral, IPv4address, regName]

/-- `port = *DIGIT` -/
def port : RE := star DIGIT

/-- `authority = [ userinfo "@" ] host [ ":" port ]` -/
def authority : RE := seqs [opt (seq userinfo (ch 0x40)), host, opt (seq (ch 0x3A) port)]

def segment : RE := star pchar
def segmentNz : RE := plus pchar
/-- `segment-nz-nc = 1*( unreserved / pct-encoded / sub-delims / "@" )` -/
def segmentNzNc : RE := plus (alts [unreserved, pctEncoded, subDelims, ch 0x40])

/-- `path-abempty = *( "/" segment )` -/
def pathAbempty : RE := star (seq (ch 0x2F) segment)
/-- `path-absolute = "/" [ segment-nz *( "/" segment ) ]` -/
def pathAbsolute : RE := seq (ch 0x2F) (opt (seq segmentNz pathAbempty))
/-- `path-noscheme = segment-nz-nc *( "/" segment )` -/
def pathNoscheme : RE := seq segmentNzNc pathAbempty
/-- `path-rootless = segment-nz *( "/" segment )` -/
def pathRootless : RE := seq segmentNz pathAbempty
/-- `path-empty = 0<pchar>` -/
def pathEmpty : RE := eps

/-- `path = path-abempty / path-absolute / path-noscheme / path-rootless / path-empty` -/
def path : RE := alts [pathAbempty, pathAbsolute, pathNoscheme, pathRootless, pathEmpty]

/-- `query = *( pchar / "/" / "?" )` -/
def query : RE := star (alts [pchar, ch 0x2F, ch 0x3F])
/-- `fragment = *( pchar / "/" / "?" )` -/
def fragment : RE := star (alts [pchar, ch 0x2F, ch 0x3F])

/-- `"//" authority path-abempty` -/
def authPath : RE := seqs [lit [0x2F, 0x2F], authority, pathAbempty]

/-- `hier-part = "//" authority path-abempty / path-absolute / path-rootless / path-empty` -/
def hierPart : RE := alts [authPath, pathAbsolute, pathRootless, pathEmpty]

/-- `[ "?" query ] [ "#" fragment ]` -/
def queryFragment : RE := seq (opt (seq (ch 0x3F) query)) (opt (seq (ch 0x23) fragment))

/-- `URI = scheme ":" hier-part [ "?" query ] [ "#" fragment ]` -/
def URI : RE := seqs [scheme, ch 0x3A, hierPart, queryFragment]

/-- `relative-part = "//" authority path-abempty / path-absolute / path-noscheme / path-empty` -/
def relativePart : RE := alts [authPath, pathAbsolute, pathNoscheme, pathEmpty]

/-- `relative-ref = relative-part [ "?" query ] [ "#" fragment ]` -/
def relativeRef : RE := seq relativePart queryFragment

/-- `URI-reference = URI / relative-ref` -/
def URIreference : RE := alt URI relativeRef

end IrefVerif.Rfc3986
