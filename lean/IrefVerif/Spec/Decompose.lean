/-!
# RFC 3986 §3 / Appendix B decomposition, §5.3 recomposition, §3.2 authority

Text is a list of symbols (`Nat`): octets everywhere in this file — the delimiters
`: / ? # @ [ ]` are ASCII, so the same functions serve the IRI family on its UTF-8
bytes.  Part of the trusted base (it *is* the statement of C02/C03/C05): compare
`split` with the Appendix-B regular expression
`^(([^:/?#]+):)?(//([^/?#]*))?([^?#]*)(\?([^#]*))?(#(.*))?`.
-/

namespace IrefVerif.Spec

abbrev Text := List Nat

def cColon : Nat := 0x3A
def cSlash : Nat := 0x2F
def cQuest : Nat := 0x3F
def cHash : Nat := 0x23
def cAt : Nat := 0x40
def cLBr : Nat := 0x5B
def cRBr : Nat := 0x5D
def cDot : Nat := 0x2E
def cPct : Nat := 0x25

structure Parts where
  scheme : Option Text
  authority : Option Text
  path : Text
  query : Option Text
  fragment : Option Text
  deriving DecidableEq, Repr, Inhabited

/-- longest prefix whose symbols all satisfy `p`, and the rest -/
def spanP (p : Nat → Bool) : Text → Text × Text
  | [] => ([], [])
  | c :: l => if p c then ((spanP p l).1.cons c, (spanP p l).2) else ([], c :: l)

theorem spanP_append (p : Nat → Bool) (l : Text) : (spanP p l).1 ++ (spanP p l).2 = l := by
  induction l with
  | nil => rfl
  | cons c l ih =>
    simp only [spanP]; split
    · simp [ih]
    · rfl

def notIn (cs : List Nat) (c : Nat) : Bool := !cs.contains c

/-- `(([^:/?#]+):)?` -/
def splitScheme (w : Text) : Option Text × Text :=
  let (s, rest) := spanP (notIn [cColon, cSlash, cQuest, cHash]) w
  match s, rest with
  | _ :: _, c :: rest' => if c == cColon then (some s, rest') else (none, w)
  | _, _ => (none, w)

/-- `(//([^/?#]*))?` -/
def splitAuthority (w : Text) : Option Text × Text :=
  match w with
  | a :: b :: rest =>
    if a == cSlash && b == cSlash then
      let (au, rest') := spanP (notIn [cSlash, cQuest, cHash]) rest
      (some au, rest')
    else (none, w)
  | _ => (none, w)

/-- `(\?([^#]*))?` -/
def splitQuery (w : Text) : Option Text × Text :=
  match w with
  | c :: rest =>
    if c == cQuest then
      let (q, rest') := spanP (notIn [cHash]) rest
      (some q, rest')
    else (none, w)
  | [] => (none, w)

/-- `(#(.*))?` -/
def splitFragment (w : Text) : Option Text :=
  match w with
  | c :: rest => if c == cHash then some rest else none
  | [] => none

/-- Appendix B. -/
def split (w : Text) : Parts :=
  let (s, r1) := splitScheme w
  let (a, r2) := splitAuthority r1
  let (p, r3) := spanP (notIn [cQuest, cHash]) r2
  let (q, r4) := splitQuery r3
  { scheme := s, authority := a, path := p, query := q, fragment := splitFragment r4 }

/-- RFC 3986 §5.3. -/
def recompose (p : Parts) : Text :=
  (match p.scheme with | some s => s ++ [cColon] | none => []) ++
  (match p.authority with | some a => [cSlash, cSlash] ++ a | none => []) ++
  p.path ++
  (match p.query with | some q => cQuest :: q | none => []) ++
  (match p.fragment with | some f => cHash :: f | none => [])

/-! ## Authority, RFC 3986 §3.2: `[ userinfo "@" ] host [ ":" port ]` -/

structure AuthParts where
  userinfo : Option Text
  host : Text
  port : Option Text
  deriving DecidableEq, Repr, Inhabited

/-- host and port of the text after the optional `userinfo "@"`:
an IP-literal runs to its closing bracket (and may contain `:`); any other host runs to the first `:`. -/
def splitHostPort (w : Text) : Text × Option Text :=
  match w with
  | c :: _ =>
    if c == cLBr then
      let (inner, rest) := spanP (notIn [cRBr]) w
      match rest with
      | r :: rest' =>
        -- r is `]`
        let host := inner ++ [r]
        match rest' with
        | d :: port => if d == cColon then (host, some port) else (w, none)
        | [] => (host, none)
      | [] => (w, none)
    else
      let (host, rest) := spanP (notIn [cColon]) w
      match rest with
      | _ :: port => (host, some port)
      | [] => (host, none)
  | [] => ([], none)

def splitAuth (a : Text) : AuthParts :=
  let (u, rest) := spanP (notIn [cAt]) a
  match rest with
  | _ :: hp =>
    let (h, p) := splitHostPort hp
    { userinfo := some u, host := h, port := p }
  | [] =>
    let (h, p) := splitHostPort a
    { userinfo := none, host := h, port := p }

def recomposeAuth (p : AuthParts) : Text :=
  (match p.userinfo with | some u => u ++ [cAt] | none => []) ++ p.host ++
  (match p.port with | some q => cColon :: q | none => [])

end IrefVerif.Spec
