import IrefVerif.Spec.Path
import IrefVerif.Spec.Pct

/-!
# The documented equivalence (C07) as a normal-form key

Scheme and port compare literally; user info, host, segments, query, fragment after
percent-decoding; paths by absoluteness and by their dot-free segment sequence, where `.`
and `..` are recognised *before* decoding (`%2E` is an ordinary octet).
-/

namespace IrefVerif.Spec

structure AuthKey where
  userinfo : Option Text
  host : Text
  port : Option Text
  deriving DecidableEq, Repr

def authKey (a : Text) : AuthKey :=
  let p := splitAuth a
  { userinfo := p.userinfo.map pctDecode, host := pctDecode p.host, port := p.port }

structure PathKey where
  abs : Bool
  segs : List Text
  deriving DecidableEq, Repr

def pathKey (p : Text) : PathKey := { abs := isAbs p, segs := (nsegs p).map pctDecode }

structure Key where
  scheme : Option Text
  authority : Option AuthKey
  path : PathKey
  query : Option Text
  fragment : Option Text
  deriving DecidableEq, Repr

def key (w : Text) : Key :=
  let p := split w
  { scheme := p.scheme, authority := p.authority.map authKey, path := pathKey p.path,
    query := p.query.map pctDecode, fragment := p.fragment.map pctDecode }

end IrefVerif.Spec
