import IrefVerif.Spec.Rfc3986

/-!
# RFC 3987 §2.2, transcribed production by production

Symbols are Unicode scalar values.  `scheme`, `port`, `IP-literal`, `IPv4address`,
`pct-encoded`, `sub-delims` are shared with RFC 3986 (the RFC says so).
Part of the trusted base: read it against the RFC.
-/

namespace IrefVerif.Rfc3987
open RE
open IrefVerif.Rfc3986 (ALPHA DIGIT pctEncoded subDelims scheme port IPliteral IPv4address)

/-- `ucschar` -/
def ucschar : RE := cls [
  (0xA0, 0xD7FF), (0xF900, 0xFDCF), (0xFDF0, 0xFFEF),
  (0x10000, 0x1FFFD), (0x20000, 0x2FFFD), (0x30000, 0x3FFFD),
  (0x40000, 0x4FFFD), (0x50000, 0x5FFFD), (0x60000, 0x6FFFD),
  (0x70000, 0x7FFFD), (0x80000, 0x8FFFD), (0x90000, 0x9FFFD),
  (0xA0000, 0xAFFFD), (0xB0000, 0xBFFFD), (0xC0000, 0xCFFFD),
  (0xD0000, 0xDFFFD), (0xE1000, 0xEFFFD)]

/-- `iprivate = %xE000-F8FF / %xF0000-FFFFD / %x100000-10FFFD` -/
def iprivate : RE := cls [(0xE000, 0xF8FF), (0xF0000, 0xFFFFD), (0x100000, 0x10FFFD)]

/-- `iunreserved = ALPHA / DIGIT / "-" / "." / "_" / "~" / ucschar` -/
def iunreserved : RE := alts [ALPHA, DIGIT, ch 0x2D, ch 0x2E, ch 0x5F, ch 0x7E, ucschar]
/-- `ipchar = iunreserved / pct-encoded / sub-delims / ":" / "@"` -/
def ipchar : RE := alts [iunreserved, pctEncoded, subDelims, ch 0x3A, ch 0x40]

def iuserinfo : RE := star (alts [iunreserved, pctEncoded, subDelims, ch 0x3A])
def iregName : RE := star (alts [iunreserved, pctEncoded, subDelims])
/-- `ihost = IP-literal / IPv4address / ireg-name` -/
def ihost : RE := alts [IPliteral, IPv4address, iregName]
/-- `iauthority = [ iuserinfo "@" ] ihost [ ":" port ]` -/
def iauthority : RE := seqs [opt (seq iuserinfo (ch 0x40)), ihost, opt (seq (ch 0x3A) port)]

def isegment : RE := star ipchar
def isegmentNz : RE := plus ipchar
def isegmentNzNc : RE := plus (alts [iunreserved, pctEncoded, subDelims, ch 0x40])

def ipathAbempty : RE := star (seq (ch 0x2F) isegment)
def ipathAbsolute : RE := seq (ch 0x2F) (opt (seq isegmentNz ipathAbempty))
def ipathNoscheme : RE := seq isegmentNzNc ipathAbempty
def ipathRootless : RE := seq isegmentNz ipathAbempty
def ipathEmpty : RE := eps
/-- `ipath = ipath-abempty / ipath-absolute / ipath-noscheme / ipath-rootless / ipath-empty` -/
def ipath : RE := alts [ipathAbempty, ipathAbsolute, ipathNoscheme, ipathRootless, ipathEmpty]

/-- `iquery = *( ipchar / iprivate / "/" / "?" )` -/
def iquery : RE := star (alts [ipchar, iprivate, ch 0x2F, ch 0x3F])
/-- `ifragment = *( ipchar / "/" / "?" )` -/
def ifragment : RE := star (alts [ipchar, ch 0x2F, ch 0x3F])

def iauthPath : RE := seqs [lit [0x2F, 0x2F], iauthority, ipathAbempty]
def ihierPart : RE := alts [iauthPath, ipathAbsolute, ipathRootless, ipathEmpty]
def iqueryFragment : RE := seq (opt (seq (ch 0x3F) iquery)) (opt (seq (ch 0x23) ifragment))
/-- `IRI = scheme ":" ihier-part [ "?" iquery ] [ "#" ifragment ]` -/
def IRI : RE := seqs [scheme, ch 0x3A, ihierPart, iqueryFragment]
def irelativePart : RE := alts [iauthPath, ipathAbsolute, ipathNoscheme, ipathEmpty]
def irelativeRef : RE := seq irelativePart iqueryFragment
/-- `IRI-reference = IRI / irelative-ref` -/
def IRIreference : RE := alt IRI irelativeRef

end IrefVerif.Rfc3987
