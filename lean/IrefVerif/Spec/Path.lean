import IrefVerif.Spec.Decompose

/-!
# Paths as segment lists; dot-segment removal (RFC 3986 §5.2.4 with Errata 4547)

Readings fixed in DESIGN.md §7.0:
* `isAbs p` ⇔ `p` starts with `/`.
* `segs p` = `[]` for `` and `/`, otherwise the `/`-split of `p` without its leading `/`.
* `nsegs`: left-to-right stack walk — `.` dropped; `..` pops unless the stack is empty or its
  top is a kept `..`, in which case it is kept for a relative path and dropped for an absolute one.
-/

namespace IrefVerif.Spec

def isAbs (p : Text) : Bool :=
  match p with
  | c :: _ => c == cSlash
  | [] => false

/-- split at every `/` (always at least one piece) -/
def splitSlash : Text → List Text
  | [] => [[]]
  | c :: l =>
    if c == cSlash then [] :: splitSlash l
    else match splitSlash l with
      | s :: ss => (c :: s) :: ss
      | [] => [[c]]

/-- join pieces with `/` -/
def joinSlash : List Text → Text
  | [] => []
  | [s] => s
  | s :: ss => s ++ cSlash :: joinSlash ss

theorem splitSlash_ne_nil (l : Text) : splitSlash l ≠ [] := by
  cases l with
  | nil => simp [splitSlash]
  | cons c l =>
    simp only [splitSlash]
    split
    · simp
    · split <;> simp

theorem joinSlash_cons_cons (s : Text) (t : Text) (ss : List Text) :
    joinSlash (s :: t :: ss) = s ++ cSlash :: joinSlash (t :: ss) := rfl

theorem joinSlash_splitSlash (l : Text) : joinSlash (splitSlash l) = l := by
  induction l with
  | nil => rfl
  | cons c l ih =>
    simp only [splitSlash]
    split
    · rename_i h
      have hc : c = cSlash := by simpa using h
      cases hs : splitSlash l with
      | nil => exact absurd hs (splitSlash_ne_nil l)
      | cons s ss => rw [joinSlash_cons_cons, ← hs, ih, hc]; rfl
    · cases hs : splitSlash l with
      | nil => exact absurd hs (splitSlash_ne_nil l)
      | cons s ss =>
        rw [hs] at ih
        cases ss with
        | nil => simp only [joinSlash] at ih ⊢; rw [ih]
        | cons s2 ss2 =>
          rw [joinSlash_cons_cons] at ih ⊢
          rw [← ih]; rfl

/-- the text after the optional leading `/` -/
def stripRoot (p : Text) : Text :=
  match p with
  | c :: l => if c == cSlash then l else p
  | [] => []

/-- the segment sequence of a path -/
def segs (p : Text) : List Text :=
  match stripRoot p with
  | [] => []
  | r => splitSlash r

/-- rendering of a segment list (not injective: see DESIGN §7.0) -/
def render (abs : Bool) (s : List Text) : Text :=
  (if abs then [cSlash] else []) ++ joinSlash s

def segDot : Text := [cDot]
def segDotDot : Text := [cDot, cDot]

/-- one step of the stack walk; the stack is kept reversed (top first) -/
def nstep (abs : Bool) (stack : List Text) (s : Text) : List Text :=
  if s = segDot then stack
  else if s = segDotDot then
    match stack with
    | [] => if abs then [] else [s]
    | t :: rest => if t = segDotDot then (if abs then stack else s :: stack) else rest
  else s :: stack

/-- normalised segment sequence of a segment list -/
def nsegsOf (abs : Bool) (ss : List Text) : List Text :=
  (ss.foldl (nstep abs) []).reverse

def nsegs (p : Text) : List Text := nsegsOf (isAbs p) (segs p)

/-- the last raw segment is `.` or `..` -/
def dotEnd (p : Text) : Bool :=
  match (segs p).getLast? with
  | some s => s = segDot || s = segDotDot
  | none => false

/-- the segment list that the *normalized copy* must realise:
`nsegs` plus the trailing empty segment left by a final dot segment -/
def normTarget (p : Text) : List Text :=
  nsegs p ++ (if dotEnd p && !(nsegs p).isEmpty then [[]] else [])

/-- RFC 3986 §5.2.4 `remove_dot_segments`, Errata 4547 for relative input -/
def removeDots (p : Text) : Text := render (isAbs p) (normTarget p)

def containsColon (s : Text) : Bool := s.contains cColon

/-- A segment list that cannot be written down directly in the given context and therefore
may carry one leading `.` shield: first segment empty, or first segment containing `:`. -/
def needsShieldHead (e : List Text) : Bool :=
  match e with
  | s :: _ => s.isEmpty || containsColon s
  | [] => false

/-- `q` realises the segment list `e` (exactly, or behind one legitimate `.` shield) -/
def realises (q : Text) (e : List Text) : Bool :=
  segs q = e || (needsShieldHead e && segs q = segDot :: e)

/-- abstract view: a leading `.` in front of an empty or colon-bearing segment is a shield -/
def alist (p : Text) : List Text :=
  match segs p with
  | d :: e => if d = segDot && needsShieldHead e then e else d :: e
  | [] => []

end IrefVerif.Spec
