import IrefVerif.Spec.Decompose

/-!
# Percent-decoding and UTF-8

`pctDecode` replaces each `%XX` by its octet (total on every input: a `%` not followed by
two hex digits is kept literally, which never happens inside a valid component).
`utf8Decode?` is the strict RFC 3629 decoder (no overlong forms, no surrogates, ≤ U+10FFFF);
`utf8Encode` its inverse on scalar values.
-/

namespace IrefVerif.Spec

def hexVal (c : Nat) : Option Nat :=
  if 0x30 ≤ c && c ≤ 0x39 then some (c - 0x30)
  else if 0x41 ≤ c && c ≤ 0x46 then some (c - 0x37)
  else if 0x61 ≤ c && c ≤ 0x66 then some (c - 0x57)
  else none

/-- decoded octets -/
def pctDecode : Text → Text
  | [] => []
  | [c] => [c]
  | [c, a] => c :: pctDecode [a]
  | c :: a :: b :: rest =>
    if c == cPct then
      match hexVal a, hexVal b with
      | some x, some y => (16 * x + y) :: pctDecode rest
      | _, _ => c :: pctDecode (a :: b :: rest)
    else c :: pctDecode (a :: b :: rest)

def isCont (b : Nat) : Bool := 0x80 ≤ b && b ≤ 0xBF

/-- strict UTF-8 decoding of an octet list to scalar values -/
def utf8Decode? : Text → Option (List Nat)
  | [] => some []
  | b0 :: rest =>
    if b0 < 0x80 then (utf8Decode? rest).map (b0 :: ·)
    else if 0xC2 ≤ b0 && b0 ≤ 0xDF then
      match rest with
      | b1 :: rest' =>
        if isCont b1 then (utf8Decode? rest').map (((b0 - 0xC0) * 64 + (b1 - 0x80)) :: ·) else none
      | _ => none
    else if 0xE0 ≤ b0 && b0 ≤ 0xEF then
      match rest with
      | b1 :: b2 :: rest' =>
        let cp := (b0 - 0xE0) * 4096 + (b1 - 0x80) * 64 + (b2 - 0x80)
        if isCont b1 && isCont b2 && 0x800 ≤ cp && !(0xD800 ≤ cp && cp ≤ 0xDFFF) then
          (utf8Decode? rest').map (cp :: ·) else none
      | _ => none
    else if 0xF0 ≤ b0 && b0 ≤ 0xF4 then
      match rest with
      | b1 :: b2 :: b3 :: rest' =>
        let cp := (b0 - 0xF0) * 262144 + (b1 - 0x80) * 4096 + (b2 - 0x80) * 64 + (b3 - 0x80)
        if isCont b1 && isCont b2 && isCont b3 && 0x10000 ≤ cp && cp ≤ 0x10FFFF then
          (utf8Decode? rest').map (cp :: ·) else none
      | _ => none
    else none

def utf8EncodeOne (c : Nat) : Text :=
  if c < 0x80 then [c]
  else if c < 0x800 then [0xC0 + c / 64, 0x80 + c % 64]
  else if c < 0x10000 then [0xE0 + c / 4096, 0x80 + (c / 64) % 64, 0x80 + c % 64]
  else [0xF0 + c / 262144, 0x80 + (c / 4096) % 64, 0x80 + (c / 64) % 64, 0x80 + c % 64]

def utf8Encode (cs : List Nat) : Text := cs.flatMap utf8EncodeOne

end IrefVerif.Spec
