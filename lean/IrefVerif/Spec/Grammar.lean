import IrefVerif.Spec.Rfc3986
import IrefVerif.Spec.Rfc3987

/-!
# The generic-syntax skeleton shared by RFC 3986 and RFC 3987

Both grammars have the same shape and differ only in the leaf character classes.  `Grammar`
names the productions the structure lemmas need; `uriG` and `iriG` instantiate it, and the
top-level productions built from a `Grammar` are *definitionally* the transcriptions of
`Spec/Rfc3986.lean` and `Spec/Rfc3987.lean` (`rfl` lemmas below).
-/

namespace IrefVerif
open RE

structure Grammar where
  userinfo : RE
  host : RE
  segment : RE
  segmentNz : RE
  segmentNzNc : RE
  query : RE
  fragment : RE

namespace Grammar
open IrefVerif.Rfc3986 (scheme port)

variable (G : Grammar)

def authority : RE := seqs [opt (seq G.userinfo (ch 0x40)), G.host, opt (seq (ch 0x3A) port)]
def pathAbempty : RE := star (seq (ch 0x2F) G.segment)
def pathAbsolute : RE := seq (ch 0x2F) (opt (seq G.segmentNz G.pathAbempty))
def pathNoscheme : RE := seq G.segmentNzNc G.pathAbempty
def pathRootless : RE := seq G.segmentNz G.pathAbempty
def pathEmpty (_G : Grammar) : RE := eps
def path : RE := alts [G.pathAbempty, G.pathAbsolute, G.pathNoscheme, G.pathRootless, G.pathEmpty]
def authPath : RE := seqs [lit [0x2F, 0x2F], G.authority, G.pathAbempty]
def hierPart : RE := alts [G.authPath, G.pathAbsolute, G.pathRootless, G.pathEmpty]
def queryFragment : RE := seq (opt (seq (ch 0x3F) G.query)) (opt (seq (ch 0x23) G.fragment))
def full : RE := seqs [scheme, ch 0x3A, G.hierPart, G.queryFragment]
def relativePart : RE := alts [G.authPath, G.pathAbsolute, G.pathNoscheme, G.pathEmpty]
def relativeRef : RE := seq G.relativePart G.queryFragment
def reference : RE := alt G.full G.relativeRef

end Grammar

def uriG : Grammar :=
  { userinfo := Rfc3986.userinfo, host := Rfc3986.host, segment := Rfc3986.segment,
    segmentNz := Rfc3986.segmentNz, segmentNzNc := Rfc3986.segmentNzNc,
    query := Rfc3986.query, fragment := Rfc3986.fragment }

def iriG : Grammar :=
  { userinfo := Rfc3987.iuserinfo, host := Rfc3987.ihost, segment := Rfc3987.isegment,
    segmentNz := Rfc3987.isegmentNz, segmentNzNc := Rfc3987.isegmentNzNc,
    query := Rfc3987.iquery, fragment := Rfc3987.ifragment }

theorem uriG_reference : uriG.reference = Rfc3986.URIreference := rfl
theorem uriG_full : uriG.full = Rfc3986.URI := rfl
theorem uriG_authority : uriG.authority = Rfc3986.authority := rfl
theorem uriG_path : uriG.path = Rfc3986.path := rfl
theorem iriG_reference : iriG.reference = Rfc3987.IRIreference := rfl
theorem iriG_full : iriG.full = Rfc3987.IRI := rfl
theorem iriG_authority : iriG.authority = Rfc3987.iauthority := rfl
theorem iriG_path : iriG.path = Rfc3987.ipath := rfl

end IrefVerif
