/-!
# Regular expressions over `Nat` symbols, with Brzozowski derivatives

Symbols are natural numbers: bytes for the URI family, Unicode code points for
the IRI family.  Everything in this file that the kernel has to *evaluate*
(`deriv`, `nullable`, `beq`, the smart constructors) is structurally recursive
and uses only `Nat.ble`/`Nat.beq`, so that `decide +kernel` can run it.

`Matches` is the declarative semantics; `matches_nil_iff` and
`matches_cons_iff` connect it to `nullable`/`deriv`.
-/

namespace IrefVerif

/-- A character class: a list of inclusive ranges. -/
abbrev Ranges := List (Nat × Nat)

inductive RE where
  | empty : RE
  | eps : RE
  | cls : Ranges → RE
  | seq : RE → RE → RE
  | alt : RE → RE → RE
  | star : RE → RE
  deriving Repr, Inhabited

namespace RE

/-- `c` lies in one of the ranges. -/
def inCls : Ranges → Nat → Bool
  | [], _ => false
  | p :: rs, c => (Nat.ble p.1 c && Nat.ble c p.2) || inCls rs c

/-! ## Structural Boolean equality and an (arbitrary) total order -/

def beqR : Ranges → Ranges → Bool
  | [], [] => true
  | p :: r, q :: s => Nat.beq p.1 q.1 && Nat.beq p.2 q.2 && beqR r s
  | _, _ => false

def beq : RE → RE → Bool
  | empty, empty => true
  | eps, eps => true
  | cls r, cls s => beqR r s
  | seq a b, seq c d => beq a c && beq b d
  | alt a b, alt c d => beq a c && beq b d
  | star a, star b => beq a b
  | _, _ => false

theorem beqR_iff {r s : Ranges} : beqR r s = true ↔ r = s := by
  induction r generalizing s with
  | nil => cases s <;> simp [beqR]
  | cons p r ih =>
    cases s with
    | nil => simp [beqR]
    | cons q s =>
      obtain ⟨p1, p2⟩ := p; obtain ⟨q1, q2⟩ := q
      simp [beqR, ih, and_assoc]

theorem beq_iff {a b : RE} : beq a b = true ↔ a = b := by
  induction a generalizing b with
  | empty => cases b <;> simp [beq]
  | eps => cases b <;> simp [beq]
  | cls r => cases b <;> simp [beq, beqR_iff]
  | seq a1 a2 ih1 ih2 => cases b <;> simp [beq, ih1, ih2]
  | alt a1 a2 ih1 ih2 => cases b <;> simp [beq, ih1, ih2]
  | star a ih => cases b <;> simp [beq, ih]

def ltR : Ranges → Ranges → Bool
  | [], [] => false
  | [], _ => true
  | _, [] => false
  | p :: r, q :: s =>
    if Nat.blt p.1 q.1 then true else if Nat.blt q.1 p.1 then false
    else if Nat.blt p.2 q.2 then true else if Nat.blt q.2 p.2 then false
    else ltR r s

def tag : RE → Nat
  | empty => 0 | eps => 1 | cls _ => 2 | seq _ _ => 3 | alt _ _ => 4 | star _ => 5

/-- A strict order used only to keep alternatives sorted (ACI normal form).
Soundness of the smart constructors does not depend on any property of it. -/
def lt : RE → RE → Bool
  | cls r, cls s => ltR r s
  | seq a b, seq c d => if beq a c then lt b d else lt a c
  | alt a b, alt c d => if beq a c then lt b d else lt a c
  | star a, star b => lt a b
  | x, y => Nat.blt x.tag y.tag

/-! ## Nullability, smart constructors, derivative -/

def nullable : RE → Bool
  | empty => false
  | eps => true
  | cls _ => false
  | seq a b => a.nullable && b.nullable
  | alt a b => a.nullable || b.nullable
  | star _ => true

/-- Sequence with unit/zero laws and one level of right re-association. -/
def mkSeq : RE → RE → RE
  | empty, _ => empty
  | _, empty => empty
  | eps, b => b
  | a, eps => a
  | seq a b, c => seq a (mkSeq b c)
  | a, b => seq a b

/-- Insert `x` into a right-nested, sorted, duplicate-free chain of alternatives. -/
def altInsert (x : RE) : RE → RE
  | alt a rest =>
    if beq x a then alt a rest
    else if lt x a then alt x (alt a rest)
    else alt a (altInsert x rest)
  | y =>
    if beq x y then y
    else if lt x y then alt x y
    else alt y x

def mkAlt : RE → RE → RE
  | empty, b => b
  | a, empty => a
  | alt a r, b => mkAlt r (altInsert a b)
  | a, b => altInsert a b

def deriv (c : Nat) : RE → RE
  | empty => empty
  | eps => empty
  | cls rs => if inCls rs c then eps else empty
  | seq a b =>
    if a.nullable then mkAlt (mkSeq (deriv c a) b) (deriv c b)
    else mkSeq (deriv c a) b
  | alt a b => mkAlt (deriv c a) (deriv c b)
  | star a => mkSeq (deriv c a) (star a)

def derivs (r : RE) : List Nat → RE
  | [] => r
  | c :: w => derivs (deriv c r) w

/-- Executable matcher (verified below): `w ∈ L(r)`. -/
def matchesB (r : RE) (w : List Nat) : Bool := (derivs r w).nullable

/-! ## Declarative semantics -/

inductive Matches : RE → List Nat → Prop
  | eps : Matches eps []
  | cls {rs c} : inCls rs c = true → Matches (cls rs) [c]
  | seq {a b u v} : Matches a u → Matches b v → Matches (seq a b) (u ++ v)
  | altL {a b w} : Matches a w → Matches (alt a b) w
  | altR {a b w} : Matches b w → Matches (alt a b) w
  | starNil {a} : Matches (star a) []
  | starCons {a u v} : Matches a u → Matches (star a) v → Matches (star a) (u ++ v)

theorem matches_empty {w} : ¬ Matches empty w := by
  intro h; cases h

theorem matches_eps {w} : Matches eps w ↔ w = [] := by
  constructor
  · intro h; cases h; rfl
  · rintro rfl; exact .eps

theorem matches_cls {rs w} : Matches (cls rs) w ↔ ∃ c, w = [c] ∧ inCls rs c = true := by
  constructor
  · intro h; cases h with | cls h => exact ⟨_, rfl, h⟩
  · rintro ⟨c, rfl, h⟩; exact .cls h

theorem matches_seq {a b w} :
    Matches (seq a b) w ↔ ∃ u v, w = u ++ v ∧ Matches a u ∧ Matches b v := by
  constructor
  · intro h; cases h with | seq h1 h2 => exact ⟨_, _, rfl, h1, h2⟩
  · rintro ⟨u, v, rfl, h1, h2⟩; exact .seq h1 h2

theorem matches_alt {a b w} : Matches (alt a b) w ↔ Matches a w ∨ Matches b w := by
  constructor
  · intro h; cases h with
    | altL h => exact .inl h
    | altR h => exact .inr h
  · rintro (h | h)
    · exact .altL h
    · exact .altR h

/-- A non-empty word in `a*` starts with a non-empty word of `a`. -/
theorem matches_star_cons {a c w} :
    Matches (star a) (c :: w) ↔ ∃ u v, w = u ++ v ∧ Matches a (c :: u) ∧ Matches (star a) v := by
  constructor
  · intro h
    generalize hr : star a = r at h
    generalize hx : c :: w = x at h
    induction h generalizing w with
    | eps => cases hr
    | cls _ => cases hr
    | seq _ _ => cases hr
    | altL _ => cases hr
    | altR _ => cases hr
    | starNil => cases hx
    | @starCons a' u v h1 h2 _ ih2 =>
      cases hr
      cases u with
      | nil => exact ih2 rfl (by simpa using hx)
      | cons d u =>
        simp at hx
        obtain ⟨rfl, rfl⟩ := hx
        exact ⟨u, v, rfl, h1, h2⟩
  · rintro ⟨u, v, rfl, h1, h2⟩
    exact .starCons (u := c :: u) h1 h2

theorem matches_star_nil {a} : Matches (star a) [] := .starNil

/-! ## Smart constructors are semantically transparent -/

theorem matches_mkSeq {a b w} : Matches (mkSeq a b) w ↔ Matches (seq a b) w := by
  fun_induction mkSeq a b generalizing w with
  | case1 b => simp [matches_seq, matches_empty]
  | case2 a _ => simp [matches_seq, matches_empty]
  | case3 b _ =>
    simp only [matches_seq, matches_eps]
    constructor
    · intro h; exact ⟨[], w, rfl, rfl, h⟩
    · rintro ⟨u, v, rfl, rfl, h⟩; simpa using h
  | case4 a _ _ =>
    simp only [matches_seq, matches_eps]
    constructor
    · intro h; exact ⟨w, [], by simp, h, rfl⟩
    · rintro ⟨u, v, rfl, h, rfl⟩; simpa using h
  | case5 a b c _ _ ih =>
    simp only [matches_seq, ih]
    constructor
    · rintro ⟨u, v, rfl, h1, v1, v2, rfl, h2, h3⟩
      exact ⟨u ++ v1, v2, by simp, ⟨u, v1, rfl, h1, h2⟩, h3⟩
    · rintro ⟨u, v, rfl, ⟨u1, u2, rfl, h1, h2⟩, h3⟩
      exact ⟨u1, u2 ++ v, by simp, h1, u2, v, rfl, h2, h3⟩
  | case6 a b _ _ _ _ _ => exact Iff.rfl

theorem matches_altInsert {x y w} : Matches (altInsert x y) w ↔ Matches x w ∨ Matches y w := by
  fun_induction altInsert x y with
  | case1 a rest h =>
    have := beq_iff.mp h; subst this
    simp only [matches_alt]; constructor
    · intro h; exact .inr h
    · rintro (h | h)
      · exact .inl h
      · exact h
  | case2 a rest _ _ => simp only [matches_alt]
  | case3 a rest _ _ ih =>
    simp only [matches_alt, ih]
    constructor
    · rintro (h | h | h)
      · exact .inr (.inl h)
      · exact .inl h
      · exact .inr (.inr h)
    · rintro (h | h | h)
      · exact .inr (.inl h)
      · exact .inl h
      · exact .inr (.inr h)
  | case4 y _ h =>
    have := beq_iff.mp h; subst this
    simp
  | case5 y _ _ _ => simp only [matches_alt]
  | case6 y _ _ _ => simp only [matches_alt, or_comm]

theorem matches_mkAlt {a b w} : Matches (mkAlt a b) w ↔ Matches a w ∨ Matches b w := by
  fun_induction mkAlt a b with
  | case1 b => simp [matches_empty]
  | case2 a _ => simp [matches_empty]
  | case3 a r b _ ih =>
    simp only [ih, matches_altInsert, matches_alt]
    constructor
    · rintro (h | h | h)
      · exact .inl (.inr h)
      · exact .inl (.inl h)
      · exact .inr h
    · rintro ((h | h) | h)
      · exact .inr (.inl h)
      · exact .inl h
      · exact .inr (.inr h)
  | case4 a b _ _ _ => exact matches_altInsert

/-! ## Derivative correctness -/

theorem matches_nil_iff {r : RE} : Matches r [] ↔ r.nullable = true := by
  induction r with
  | empty => simp [matches_empty, nullable]
  | eps => simp [matches_eps, nullable]
  | cls rs => simp [matches_cls, nullable]
  | seq a b iha ihb =>
    simp only [matches_seq, nullable, Bool.and_eq_true, ← iha, ← ihb]
    constructor
    · rintro ⟨u, v, h, h1, h2⟩
      have : u = [] ∧ v = [] := by simpa using h.symm
      obtain ⟨rfl, rfl⟩ := this
      exact ⟨h1, h2⟩
    · rintro ⟨h1, h2⟩; exact ⟨[], [], rfl, h1, h2⟩
  | alt a b iha ihb => simp [matches_alt, nullable, iha, ihb]
  | star a _ => simp [nullable, matches_star_nil]

theorem matches_cons_iff {r : RE} {c : Nat} {w : List Nat} :
    Matches r (c :: w) ↔ Matches (deriv c r) w := by
  induction r generalizing w with
  | empty => simp [deriv, matches_empty]
  | eps => simp [deriv, matches_empty, matches_eps]
  | cls rs =>
    simp only [deriv, matches_cls]
    by_cases h : inCls rs c = true
    · simp only [h, if_true, matches_eps]
      constructor
      · rintro ⟨d, hd, _⟩; simp at hd; exact hd.2
      · rintro rfl; exact ⟨c, rfl, h⟩
    · have h' : inCls rs c = false := by simpa using h
      simp only [h', Bool.false_eq_true, if_false, matches_empty, iff_false]
      rintro ⟨d, hd, hd'⟩; simp at hd; obtain ⟨rfl, _⟩ := hd; exact h hd'
  | seq a b iha ihb =>
    have key : Matches (seq a b) (c :: w) ↔
        Matches (seq (deriv c a) b) w ∨ (a.nullable = true ∧ Matches (deriv c b) w) := by
      simp only [matches_seq]
      constructor
      · rintro ⟨u, v, h, h1, h2⟩
        cases u with
        | nil =>
          simp at h; subst h
          exact .inr ⟨matches_nil_iff.mp h1, ihb.mp h2⟩
        | cons d u =>
          simp at h; obtain ⟨rfl, rfl⟩ := h
          exact .inl ⟨u, v, rfl, iha.mp h1, h2⟩
      · rintro (⟨u, v, rfl, h1, h2⟩ | ⟨hn, h2⟩)
        · exact ⟨c :: u, v, rfl, iha.mpr h1, h2⟩
        · exact ⟨[], c :: w, rfl, matches_nil_iff.mpr hn, ihb.mpr h2⟩
    rw [key]
    by_cases hn : a.nullable = true
    · simp [deriv, hn, matches_mkAlt, matches_mkSeq]
    · simp [deriv, hn, matches_mkSeq]
  | alt a b iha ihb => simp [deriv, matches_alt, matches_mkAlt, iha, ihb]
  | star a ih =>
    simp only [deriv, matches_mkSeq, matches_seq, matches_star_cons]
    constructor
    · rintro ⟨u, v, rfl, h1, h2⟩; exact ⟨u, v, rfl, ih.mp h1, h2⟩
    · rintro ⟨u, v, rfl, h1, h2⟩; exact ⟨u, v, rfl, ih.mpr h1, h2⟩

theorem matches_iff_derivs {r : RE} {w : List Nat} : Matches r w ↔ (derivs r w).nullable = true := by
  induction w generalizing r with
  | nil => exact matches_nil_iff
  | cons c w ih => rw [matches_cons_iff, ih]; rfl

theorem matchesB_iff {r : RE} {w : List Nat} : matchesB r w = true ↔ Matches r w :=
  matches_iff_derivs.symm

instance {r : RE} {w : List Nat} : Decidable (Matches r w) :=
  decidable_of_iff _ matchesB_iff

/-! ## Alphabet: every symbol of a matched word lies in some class of the expression -/

def inAlphabet : RE → Nat → Bool
  | empty, _ => false
  | eps, _ => false
  | cls rs, c => inCls rs c
  | seq a b, c => inAlphabet a c || inAlphabet b c
  | alt a b, c => inAlphabet a c || inAlphabet b c
  | star a, c => inAlphabet a c

theorem matches_alphabet {r : RE} {w : List Nat} (h : Matches r w) :
    ∀ c ∈ w, inAlphabet r c = true := by
  induction h with
  | eps => simp
  | cls h => simpa [inAlphabet] using h
  | seq _ _ ih1 ih2 =>
    intro c hc
    rcases List.mem_append.mp hc with hc | hc
    · simp [inAlphabet, ih1 c hc]
    · simp [inAlphabet, ih2 c hc]
  | altL _ ih => intro c hc; simp [inAlphabet, ih c hc]
  | altR _ ih => intro c hc; simp [inAlphabet, ih c hc]
  | starNil => simp
  | starCons _ _ ih1 ih2 =>
    intro c hc
    rcases List.mem_append.mp hc with hc | hc
    · simpa [inAlphabet] using ih1 c hc
    · simpa [inAlphabet] using ih2 c hc

/-- If `c` is not in the alphabet of `r`, no matched word contains it. -/
theorem not_mem_of_matches {r : RE} {w : List Nat} {c : Nat}
    (h : Matches r w) (hc : inAlphabet r c = false) : c ∉ w := by
  intro hm
  have := matches_alphabet h c hm
  simp [hc] at this

/-! ## Derived combinators (used by the grammar transcriptions) -/

def ch (c : Nat) : RE := cls [(c, c)]
def opt (r : RE) : RE := alt eps r
def plus (r : RE) : RE := seq r (star r)

def alts : List RE → RE
  | [] => empty
  | [r] => r
  | r :: rs => alt r (alts rs)

def seqs : List RE → RE
  | [] => eps
  | [r] => r
  | r :: rs => seq r (seqs rs)

/-- the literal string given by its code points -/
def lit : List Nat → RE
  | [] => eps
  | [c] => ch c
  | c :: cs => seq (ch c) (lit cs)

/-- between 0 and `n` repetitions -/
def repOpt (r : RE) : Nat → RE
  | 0 => eps
  | n + 1 => opt (seq r (repOpt r n))

/-- exactly `n` repetitions followed by `tail` -/
def repExact (r : RE) (tail : RE) : Nat → RE
  | 0 => tail
  | n + 1 => seq r (repExact r tail n)

/-- between `lo` and `hi` repetitions (`lo ≤ hi`) -/
def rep (r : RE) (lo hi : Nat) : RE := repExact r (repOpt r (hi - lo)) lo

theorem matches_ch {c w} : Matches (ch c) w ↔ w = [c] := by
  simp only [ch, matches_cls, inCls, Bool.or_false, Bool.and_eq_true, Nat.ble_eq]
  constructor
  · rintro ⟨d, rfl, h1, h2⟩; congr; omega
  · rintro rfl; exact ⟨c, rfl, Nat.le_refl _, Nat.le_refl _⟩

theorem matches_opt {r w} : Matches (opt r) w ↔ w = [] ∨ Matches r w := by
  simp [opt, matches_alt, matches_eps]

end RE
end IrefVerif
