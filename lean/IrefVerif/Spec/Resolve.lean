import IrefVerif.Spec.Path

/-!
# RFC 3986 §5.2 reference resolution (strict), on decomposed parts

`transform` is the §5.2.2 table, `merge` is §5.2.3, `removeDots` is §5.2.4 with Errata 4547
(`Spec/Path.lean`), and the result is recomposed by §5.3 (`recompose`).
-/

namespace IrefVerif.Spec

/-- everything up to and including the last `/` (empty when there is none) -/
def upToLastSlash (p : Text) : Text :=
  match (splitSlash p).reverse with
  | _ :: revInit => match revInit.reverse with
    | [] => []
    | ss => joinSlash ss ++ [cSlash]
  | [] => []

/-- §5.2.3 -/
def merge (baseHasAuthority : Bool) (basePath refPath : Text) : Text :=
  if baseHasAuthority && basePath.isEmpty then cSlash :: refPath
  else upToLastSlash basePath ++ refPath

/-- §5.2.2 (strict parser: a reference scheme equal to the base scheme is still a scheme) -/
def transform (b r : Parts) : Parts :=
  match r.scheme with
  | some s =>
    { scheme := some s, authority := r.authority, path := removeDots r.path,
      query := r.query, fragment := r.fragment }
  | none =>
    match r.authority with
    | some a =>
      { scheme := b.scheme, authority := some a, path := removeDots r.path,
        query := r.query, fragment := r.fragment }
    | none =>
      if r.path.isEmpty then
        { scheme := b.scheme, authority := b.authority, path := b.path,
          query := (match r.query with | some q => some q | none => b.query),
          fragment := r.fragment }
      else if isAbs r.path then
        { scheme := b.scheme, authority := b.authority, path := removeDots r.path,
          query := r.query, fragment := r.fragment }
      else
        { scheme := b.scheme, authority := b.authority,
          path := removeDots (merge b.authority.isSome b.path r.path),
          query := r.query, fragment := r.fragment }

/-- the RFC target is *ambiguous* when, recomposed, its path would be read differently:
no authority and a path beginning with `//` -/
def ambiguousTarget (t : Parts) : Bool :=
  t.authority.isNone && (match t.path with | a :: b :: _ => a == cSlash && b == cSlash | _ => false)

def resolveSpec (base ref : Text) : Parts := transform (split base) (split ref)

end IrefVerif.Spec
