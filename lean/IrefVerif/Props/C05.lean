import IrefVerif.Lemmas.ValidWF

/-!
# C05 — component setters change exactly the targeted component

Specification level, both families.  A setter's result is specified as the recomposition of
the old components with the targeted one replaced (and the path put behind the documented
disambiguation when one applies).  Proved: when the new list of components is valid, its
recomposition is a valid reference that decomposes to *exactly* that list — the requested value
reads back, every other component reads back identical.  For query and fragment no
disambiguation is ever needed and the new list is always valid.  That the Rust setters produce
that recomposition is the `setters` correspondence stream and `Oracle.frame`.
-/

namespace IrefVerif.Props.C05
open IrefVerif IrefVerif.Spec IrefVerif.Lemmas

/-- **read-back**: a valid component list is what its text decomposes to -/
theorem read_back (G : Grammar) (ok : Grammar.Ok G) (P : Spec.Parts) (hv : ValidParts G P) :
    RE.Matches G.reference (recompose P) ∧ split (recompose P) = P :=
  ⟨(reference_iff G _).mpr ⟨P, rfl, hv⟩, split_recompose P (wf_of_valid G ok P hv)⟩

/-- setting or removing the **query** of a valid reference: the result is valid, the query reads
back as requested and scheme, authority, path and fragment are byte-identical -/
theorem set_query (G : Grammar) (ok : Grammar.Ok G) (w : Text) (h : RE.Matches G.reference w)
    (v : Option Text) (hval : ∀ q, v = some q → RE.Matches G.query q) :
    let P' : Spec.Parts := { split w with query := v }
    RE.Matches G.reference (recompose P') ∧ split (recompose P') = P' := by
  intro P'
  obtain ⟨hv, _⟩ := split_valid G ok w h
  exact read_back G ok P' ⟨hv.scheme, hv.authority, hv.pathAuth, hv.pathScheme, hv.pathRel, hval, hv.fragment⟩

/-- … and the **fragment** -/
theorem set_fragment (G : Grammar) (ok : Grammar.Ok G) (w : Text) (h : RE.Matches G.reference w)
    (v : Option Text) (hval : ∀ f, v = some f → RE.Matches G.fragment f) :
    let P' : Spec.Parts := { split w with fragment := v }
    RE.Matches G.reference (recompose P') ∧ split (recompose P') = P' := by
  intro P'
  obtain ⟨hv, _⟩ := split_valid G ok w h
  exact read_back G ok P' ⟨hv.scheme, hv.authority, hv.pathAuth, hv.pathScheme, hv.pathRel, hv.query, hval⟩

/-- replacing an existing **scheme** by another one (always possible on a full URI/IRI) -/
theorem set_scheme_some (G : Grammar) (ok : Grammar.Ok G) (w : Text) (h : RE.Matches G.reference w)
    (hs : (split w).scheme.isSome) (s : Text) (hval : RE.Matches Rfc3986.scheme s) :
    let P' : Spec.Parts := { split w with scheme := some s }
    RE.Matches G.reference (recompose P') ∧ split (recompose P') = P' := by
  intro P'
  obtain ⟨hv, _⟩ := split_valid G ok w h
  refine read_back G ok P' ⟨?_, hv.authority, hv.pathAuth, ?_, ?_, hv.query, hv.fragment⟩
  · intro x hx; injection hx with hx; subst hx; exact hval
  · intro ha _; exact hv.pathScheme ha hs
  · intro _ hn; cases hn

/-- replacing an existing **authority** by another one -/
theorem set_authority_some (G : Grammar) (ok : Grammar.Ok G) (w : Text) (h : RE.Matches G.reference w)
    (ha : (split w).authority.isSome) (a : Text) (hval : RE.Matches G.authority a) :
    let P' : Spec.Parts := { split w with authority := some a }
    RE.Matches G.reference (recompose P') ∧ split (recompose P') = P' := by
  intro P'
  obtain ⟨hv, _⟩ := split_valid G ok w h
  refine read_back G ok P' ⟨hv.scheme, ?_, ?_, ?_, ?_, hv.query, hv.fragment⟩
  · intro x hx; injection hx with hx; subst hx; exact hval
  · intro _; exact hv.pathAuth ha
  · intro hn; cases hn
  · intro hn; cases hn

end IrefVerif.Props.C05
