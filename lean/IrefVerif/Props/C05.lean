import IrefVerif.Lemmas.ValidWF
import IrefVerif.Lemmas.SetterEqs
import IrefVerif.Lemmas.ResolveEmpty

/-!
# C05 — component setters change exactly the targeted component

Specification level, both families.  A setter's result is specified as the recomposition of
the old components with the targeted one replaced (and the path put behind the documented
disambiguation when one applies).  Proved: when the new list of components is valid, its
recomposition is a valid reference that decomposes to *exactly* that list — the requested value
reads back, every other component reads back identical.  For query and fragment no
disambiguation is ever needed and the new list is always valid.
Model level (`model_set_*`): the *model of each Rust setter* (`Model/Reference.lean`: the
`find_*` scan and the `Vec` splice, including every disambiguation branch), run on any valid
reference, returns exactly that recomposition — with the path behind `./` when removing the
scheme exposes a first segment containing `:`, behind `/` when an authority is put in front of a
relative non-empty path, behind `/.` when removing the authority exposes a leading `//`, and the
same three rules for `set_path`.  That the Rust setters behave like the model is the `setters`
correspondence stream; `Oracle.frame` judges the implementation against the specification.
-/

namespace IrefVerif.Props.C05
open IrefVerif IrefVerif.Spec IrefVerif.Lemmas IrefVerif.Model

/-- **read-back**: a valid component list is what its text decomposes to -/
theorem read_back (G : Grammar) (ok : Grammar.Ok G) (P : Spec.Parts) (hv : ValidParts G P) :
    RE.Matches G.reference (recompose P) ∧ split (recompose P) = P :=
  ⟨(reference_iff G _).mpr ⟨P, rfl, hv⟩, split_recompose P (wf_of_valid G ok P hv)⟩

/-- setting or removing the **query** of a valid reference: the result is valid, the query reads
back as requested and scheme, authority, path and fragment are byte-identical -/
theorem set_query (G : Grammar) (ok : Grammar.Ok G) (w : Text) (h : RE.Matches G.reference w)
    (v : Option Text) (hval : ∀ q, v = some q → RE.Matches G.query q) :
    let P' : Spec.Parts := { split w with query := v }
    RE.Matches G.reference (recompose P') ∧ split (recompose P') = P' := by
  intro P'
  obtain ⟨hv, _⟩ := split_valid G ok w h
  exact read_back G ok P' ⟨hv.scheme, hv.authority, hv.pathAuth, hv.pathScheme, hv.pathRel, hval, hv.fragment⟩

/-- … and the **fragment** -/
theorem set_fragment (G : Grammar) (ok : Grammar.Ok G) (w : Text) (h : RE.Matches G.reference w)
    (v : Option Text) (hval : ∀ f, v = some f → RE.Matches G.fragment f) :
    let P' : Spec.Parts := { split w with fragment := v }
    RE.Matches G.reference (recompose P') ∧ split (recompose P') = P' := by
  intro P'
  obtain ⟨hv, _⟩ := split_valid G ok w h
  exact read_back G ok P' ⟨hv.scheme, hv.authority, hv.pathAuth, hv.pathScheme, hv.pathRel, hv.query, hval⟩

/-- replacing an existing **scheme** by another one (always possible on a full URI/IRI) -/
theorem set_scheme_some (G : Grammar) (ok : Grammar.Ok G) (w : Text) (h : RE.Matches G.reference w)
    (hs : (split w).scheme.isSome) (s : Text) (hval : RE.Matches Rfc3986.scheme s) :
    let P' : Spec.Parts := { split w with scheme := some s }
    RE.Matches G.reference (recompose P') ∧ split (recompose P') = P' := by
  intro P'
  obtain ⟨hv, _⟩ := split_valid G ok w h
  refine read_back G ok P' ⟨?_, hv.authority, hv.pathAuth, ?_, ?_, hv.query, hv.fragment⟩
  · intro x hx; injection hx with hx; subst hx; exact hval
  · intro ha _; exact hv.pathScheme ha hs
  · intro _ hn; cases hn

/-- replacing an existing **authority** by another one -/
theorem set_authority_some (G : Grammar) (ok : Grammar.Ok G) (w : Text) (h : RE.Matches G.reference w)
    (ha : (split w).authority.isSome) (a : Text) (hval : RE.Matches G.authority a) :
    let P' : Spec.Parts := { split w with authority := some a }
    RE.Matches G.reference (recompose P') ∧ split (recompose P') = P' := by
  intro P'
  obtain ⟨hv, _⟩ := split_valid G ok w h
  refine read_back G ok P' ⟨hv.scheme, ?_, ?_, ?_, ?_, hv.query, hv.fragment⟩
  · intro x hx; injection hx with hx; subst hx; exact hval
  · intro _; exact hv.pathAuth ha
  · intro hn; cases hn
  · intro hn; cases hn

/-! ## the model of the setters computes the specification -/

section Model
variable (G : Grammar) (ok : Grammar.Ok G) (w : Text) (h : RE.Matches G.reference w)
include ok h

theorem model_set_query (v : Option Text) :
    Ref.set_query w v = some (recompose { split w with query := v }) := by
  have := set_query_recompose (split w) (split_valid G ok w h).2 v
  rwa [Lemmas.recompose_split] at this

theorem model_set_fragment (v : Option Text) :
    Ref.set_fragment w v = some (recompose { split w with fragment := v }) := by
  have := set_fragment_recompose (split w) (split_valid G ok w h).2 v
  rwa [Lemmas.recompose_split] at this

theorem model_set_scheme_some (s : Text) :
    Ref.set_scheme w (some s) = some (recompose { split w with scheme := some s }) := by
  have := set_scheme_some_recompose (split w) (split_valid G ok w h).2 s
  rwa [Lemmas.recompose_split] at this

/-- `UriBuf::set_scheme` / `IriBuf::set_scheme` (the scheme is mandatory there) -/
theorem model_set_scheme_full (s0 : Text) (hs0 : (split w).scheme = some s0) (s : Text) :
    Ref.set_scheme_full w s = some (recompose { split w with scheme := some s }) := by
  have := set_scheme_full_recompose (split w) (split_valid G ok w h).2 s0 hs0 s
  rwa [Lemmas.recompose_split] at this

theorem model_set_scheme_none :
    Ref.set_scheme w none = some (recompose { split w with scheme := none, path := pathNoScheme (split w) }) := by
  have := set_scheme_none_recompose (split w) (split_valid G ok w h).2
  rwa [Lemmas.recompose_split] at this

theorem model_set_authority_some (a : Text) :
    Ref.set_authority w (some a) =
      some (recompose { split w with authority := some a, path := pathWithAuth (split w) }) := by
  have := set_authority_some_recompose (split w) (split_valid G ok w h).2 a
  rwa [Lemmas.recompose_split] at this

theorem model_set_authority_none :
    Ref.set_authority w none =
      some (recompose { split w with authority := none, path := pathNoAuth (split w) }) := by
  have := set_authority_none_recompose (split w) (split_valid G ok w h).2
  rwa [Lemmas.recompose_split] at this

theorem model_set_path (p : Text) :
    Ref.set_path w p = some (recompose { split w with path := setPathSpec (split w) p }) := by
  have := set_path_recompose (split w) (split_valid G ok w h).2 p
  rwa [Lemmas.recompose_split] at this

end Model

/-- non-vacuity and the three shields, computed by the model -/
example : Ref.set_scheme [0x73, 0x3A, 0x61, 0x3A, 0x62] none = some [0x2E, 0x2F, 0x61, 0x3A, 0x62] := by decide
example : Ref.set_authority [0x73, 0x3A, 0x61] (some [0x68]) = some [0x73, 0x3A, 0x2F, 0x2F, 0x68, 0x2F, 0x61] := by decide
example : Ref.set_authority [0x2F, 0x2F, 0x68, 0x2F, 0x2F, 0x61] none = some [0x2F, 0x2E, 0x2F, 0x2F, 0x61] := by decide

end IrefVerif.Props.C05
