import IrefVerif.Lemmas.SplitModel
import IrefVerif.Lemmas.Accessors
import IrefVerif.Lemmas.ValidWF

/-!
# C20 — borrowed parsing and component access are zero-copy and allocation-free

The logic part: every accessor of the model returns a *range* of the input
(`Model/Parse.lean`), and the five ranges of the one-pass decomposition lie inside the input, in
order, without overlap — scheme, authority, path, query, fragment — with exactly the delimiters
between them.  Proved here for every input text (valid or not).  For valid references the
offsets are given explicitly (`valid_offsets`), and the re-scanning accessors land on them too.
That the real accessors return sub-slices at exactly these offsets (or the fixed constants ``,
`/`, `/./`) and perform no heap allocation is observed by the `ptr` stream with a counting
global allocator; allocation is runtime behaviour that the model does not exhibit.
-/

set_option linter.unusedSimpArgs false

namespace IrefVerif.Props.C20
open IrefVerif IrefVerif.Spec IrefVerif.Model.Parse IrefVerif.Lemmas

/-- the ranges are consecutive: each component starts where the previous one (plus its
delimiter) ends -/
structure Ordered (len : Nat) (r : ReferenceParts) : Prop where
  scheme : ∀ s, r.scheme = some s → s.1 = 0 ∧ s.1 ≤ s.2
  authority : ∀ a, r.authority = some a →
    (∀ s, r.scheme = some s → a.1 = s.2 + 3) ∧ (r.scheme = none → a.1 = 2) ∧ a.1 ≤ a.2 ∧ a.2 = r.path.1
  pathStart : r.authority = none →
    (∀ s, r.scheme = some s → r.path.1 = s.2 + 1) ∧ (r.scheme = none → r.path.1 = 0)
  path : r.path.1 ≤ r.path.2
  query : ∀ q, r.query = some q → q.1 = r.path.2 + 1 ∧ q.1 ≤ q.2
  fragment : ∀ f, r.fragment = some f →
    f.2 = len ∧ (∀ q, r.query = some q → f.1 = q.2 + 1) ∧ (r.query = none → f.1 = r.path.2 + 1)

theorem query_ge (w : Text) (i : Nat) : (Model.Parse.query w i).1 = true → i + 1 ≤ (Model.Parse.query w i).2 := by
  unfold Model.Parse.query
  split
  · split
    · simp
    · simp
  · simp

theorem query_false (w : Text) (i : Nat) : (Model.Parse.query w i).1 = false → (Model.Parse.query w i).2 = i := by
  unfold Model.Parse.query
  split
  · split <;> simp
  · simp

theorem fragment_snd (w : Text) (i : Nat) : (Model.Parse.fragment w i).2 = w.length := by
  unfold Model.Parse.fragment
  split
  · split <;> rfl
  · rfl

/-- query and fragment ranges, from the end `pe` of the path -/
theorem tail_ordered (w : Text) (ps pe : Nat) (hp : ps ≤ pe) (s a : Option Range)
    (hs : ∀ x, s = some x → x.1 = 0 ∧ x.1 ≤ x.2)
    (ha : ∀ x, a = some x → (∀ y, s = some y → x.1 = y.2 + 3) ∧ (s = none → x.1 = 2) ∧ x.1 ≤ x.2 ∧ x.2 = ps)
    (hps : a = none → (∀ y, s = some y → ps = y.2 + 1) ∧ (s = none → ps = 0)) :
    Ordered w.length
      { scheme := s, authority := a, path := (ps, pe),
        query := if (Model.Parse.query w pe).1 = true then some (pe + 1, (Model.Parse.query w pe).2) else none,
        fragment := if (Model.Parse.fragment w (Model.Parse.query w pe).2).1 = true
          then some ((Model.Parse.query w pe).2 + 1, (Model.Parse.fragment w (Model.Parse.query w pe).2).2)
          else none } := by
  refine ⟨hs, ha, hps, hp, ?_, ?_⟩
  · intro q hq
    simp only at hq
    split at hq
    · rename_i hb
      injection hq with hq; subst hq
      exact ⟨rfl, query_ge w pe hb⟩
    · cases hq
  · intro f hf
    simp only at hf
    split at hf
    · injection hf with hf; subst hf
      refine ⟨fragment_snd w _, ?_, ?_⟩
      · intro q hq
        simp only at hq
        split at hq
        · injection hq with hq; subst hq; rfl
        · cases hq
      · intro hq
        simp only at hq
        split at hq
        · cases hq
        · rename_i hb
          have hb' : (Model.Parse.query w pe).1 = false := by simpa using hb
          simp only [query_false w pe hb']
    · cases hf

/-- **in order and without overlap**, for every input -/
theorem ranges_ordered (w : Text) : Ordered w.length (reference_parts w 0) := by
  unfold reference_parts
  rw [sap_eq, sapGo_start]
  by_cases h1 : fdc w = true
  · simp only [h1, if_true, ap_eq, apGo_start]
    by_cases h2 : startsSS (w.drop (spanLen nCSQH w + 1)) = true
    · simp only [h2, if_true]
      apply tail_ordered
      · simp [Model.Parse.path]
      · intro x hx; injection hx with hx; subst hx; simp
      · intro x hx; injection hx with hx; subst hx
        refine ⟨?_, ?_, ?_, rfl⟩
        · intro y hy; injection hy with hy; subst hy; rfl
        · intro hn; cases hn
        · simp; omega
      · intro hn; cases hn
    · have h2' : startsSS (w.drop (spanLen nCSQH w + 1)) = false := by simpa using h2
      simp only [h2', Bool.false_eq_true, if_false]
      apply tail_ordered
      · simp
      · intro x hx; injection hx with hx; subst hx; simp
      · intro x hx; cases hx
      · intro _
        refine ⟨?_, ?_⟩
        · intro y hy; injection hy with hy; subst hy; rfl
        · intro hn; cases hn
  · have h1' : fdc w = false := by simpa using h1
    simp only [h1', Bool.false_eq_true, if_false]
    by_cases h2 : startsSS w = true
    · simp only [h2, if_true]
      apply tail_ordered
      · simp [Model.Parse.path]
      · intro x hx; cases hx
      · intro x hx; injection hx with hx; subst hx
        refine ⟨?_, ?_, ?_, rfl⟩
        · intro y hy; cases hy
        · intro _; rfl
        · simp
      · intro hn; cases hn
    · have h2' : startsSS w = false := by simpa using h2
      simp only [h2', Bool.false_eq_true, if_false]
      apply tail_ordered
      · simp
      · intro x hx; cases hx
      · intro x hx; cases hx
      · intro _
        refine ⟨?_, ?_⟩
        · intro y hy; cases hy
        · intro _; rfl

/-- **for every valid reference the five ranges are exactly the consecutive Appendix-B offsets**,
and the stand-alone accessors (which re-scan the text) return the same ranges -/
theorem valid_offsets (G : Grammar) (ok : Lemmas.Grammar.Ok G) (w : Text) (h : RE.Matches G.reference w) :
    reference_parts w 0 = Lemmas.rangesOf (split w) ∧
    find_scheme w 0 = (Lemmas.rangesOf (split w)).scheme ∧
    (find_authority w 0).toOption = (Lemmas.rangesOf (split w)).authority ∧
    find_path w 0 = (Lemmas.rangesOf (split w)).path ∧
    (find_query w 0).toOption = (Lemmas.rangesOf (split w)).query ∧
    (find_fragment w 0).toOption = (Lemmas.rangesOf (split w)).fragment := by
  obtain ⟨_, wf⟩ := Lemmas.split_valid G ok w h
  have hw := Lemmas.recompose_split w
  have h1 := Lemmas.reference_parts_recompose (split w) wf
  have h2 := Lemmas.find_scheme_recompose (split w) wf
  have h3 := Lemmas.find_authority_recompose (split w) wf
  have h4 := Lemmas.find_path_recompose (split w) wf
  have h5 := Lemmas.find_query_recompose (split w) wf
  have h6 := Lemmas.find_fragment_recompose (split w) wf
  rw [hw] at h1 h2 h3 h4 h5 h6
  exact ⟨h1, h2, h3, h4, h5, h6⟩

example : reference_parts [0x73, 0x3A, 0x2F, 0x2F, 0x68, 0x2F, 0x70, 0x3F, 0x71, 0x23, 0x66] 0 =
    { scheme := some (0, 1), authority := some (4, 5), path := (5, 7), query := some (8, 9),
      fragment := some (10, 11) } := by decide

end IrefVerif.Props.C20
