import IrefVerif.Lemmas.Nsegs
import IrefVerif.Lemmas.NormList

/-!
# C09 — dot-segment normalisation (RFC 3986 §5.2.4, Errata 4547)

The model of `NormalizedSegmentsImpl::new` is `Model.Path.normalized_segments`: a fold of
`normalizedStep` over the segment iterator.  Proved here: that fold is the specification walk
(`.` dropped; `..` pops, or is kept on an empty/`..`-topped stack of a relative path, or is
dropped at the root of an absolute one); the walk is idempotent; its result contains no `.`
and, for an absolute path, no `..`.
Rendering, on the models of `PathMutImpl::normalize` and `PathImpl::normalized`
(`Lemmas/NormList.lean`): in-place normalisation rewrites the path — and nothing else in the
buffer (`C10.path_handle_step`) — to a text that realises the normalised sequence, behind a `.`
shield exactly when the first normalised segment could be misread, keeps the path absolute or
relative (`inplace_realises`) and is idempotent (`inplace_idempotent`); the normalized copy is
RFC 3986 §5.2.4 with Errata 4547, trailing `/` of a final dot segment included, whenever no shield
is needed (`copy_is_rfc`).  The shielded copies and idempotence of the copy are checked on the
implementation by the `paths`/`pathmut` oracles.
-/

namespace IrefVerif.Props.C09
open IrefVerif IrefVerif.Spec IrefVerif.Model IrefVerif.Lemmas

/-- **the implementation's stack walk is the specification's** (for every segment list, hence for
every path of both families) -/
theorem normalized_stack_eq_spec (relative : Bool) (ss : List Text) :
    ss.foldl (Path.normalizedStep relative) [] = nsegsOf (!relative) ss :=
  normalized_stack_eq_nsegsOf relative ss

/-- `normalized_segments()` of the model, as the specification walk over the iterator's output -/
theorem normalized_segments_eq (p : Text) :
    Path.normalized_segments p = nsegsOf (!Path.is_relative p) (Path.segmentList p) := by
  unfold Path.normalized_segments
  exact normalized_stack_eq_nsegsOf _ _

/-- **idempotence**: normalising a normalised sequence changes nothing -/
theorem nsegs_idempotent (abs : Bool) (ss : List Text) :
    nsegsOf abs (nsegsOf abs ss) = nsegsOf abs ss := nsegsOf_idem abs ss

/-- no `.` survives -/
theorem nsegs_no_dot (abs : Bool) (ss : List Text) : segDot ∉ nsegsOf abs ss := nsegsOf_noDot abs ss

/-- RFC 3986 §5.2.4: in an absolute path no `..` survives (it is dropped at the root) -/
theorem nsegs_abs_no_dotdot (ss : List Text) : segDotDot ∉ nsegsOf true ss := nsegsOf_abs_noDotDot ss

/-- Errata 4547: in a relative path a `..` with nothing left to remove is kept -/
example : nsegsOf false [[0x61], segDotDot, segDotDot, [0x62]] = [segDotDot, [0x62]] := by decide
example : nsegsOf true [[0x61], segDotDot, segDotDot, [0x62]] = [[0x62]] := by decide
example : nsegsOf false [[0x61], segDot, [0x62], segDotDot, []] = [[0x61], []] := by decide

/-! ## rendering: the models of `normalize` (in place) and `normalized` (copy) -/

/-- **in-place normalisation writes the normalised sequence** (literally, or behind the one `.`
shield it needs) and keeps the path absolute or relative; `C10.path_handle_step` shows that the
model of `normalize` writes exactly `normView` and touches nothing else -/
theorem inplace_realises (fa atStart : Bool) (p : Text) (hp : PathText p) :
    realises (normView fa atStart p) (nsegs p) = true ∧ isAbs (normView fa atStart p) = isAbs p :=
  normView_realises fa atStart p hp

/-- the model of `normalize` on a handle: the window becomes `normView`, everything else stays -/
theorem inplace_model (h : PathMut) (pre v post : Text) (inv : PInv h pre v post) :
    ∃ h', h.normalize = some h' ∧ PInv h' pre (normView h.follows_authority (pre.length == 0) v) post :=
  let ⟨h', e, i, _, _⟩ := normalize_view h pre v post inv
  ⟨h', e, i⟩

/-- **idempotent**: normalising a normalised path changes nothing -/
theorem inplace_idempotent (fa atStart : Bool) (p : Text) (hp : PathText p) :
    normView fa atStart (normView fa atStart p) = normView fa atStart p :=
  normView_idem fa atStart p hp

/-- the model of the normalized copy -/
theorem copy_model (p : Text) (hp : PathText p) : Path.normalized p = some (nrmCopy p) :=
  normalized_view p hp

/-- **the normalized copy is the RFC 3986 §5.2.4 rendering** (Errata 4547 for relative paths; the
trailing `/` of a final dot segment included), whenever the result needs no shield -/
theorem copy_is_rfc (p : Text) (hp : PathText p) (hns : needsShield true true p = false) :
    Path.normalized p = some (removeDots p) := by
  rw [normalized_view p hp, nrmCopy_no_shield p hp hns]

example : Path.normalized [0x2F,0x61,0x2F,0x2E,0x2F,0x62,0x2F,0x2E,0x2E,0x2F,0x2E] = some [0x2F,0x61,0x2F] := by decide
example : needsShield true true [0x2F,0x61,0x2F,0x2E,0x2F,0x62,0x2F,0x2E,0x2E,0x2F,0x2E] = false := by decide
/-- a copy that needs its shield: `a/..//b` is `.//b`, not `//b` -/
example : Path.normalized [0x61,0x2F,0x2E,0x2E,0x2F,0x2F,0x62] = some [0x2E,0x2F,0x2F,0x62] := by decide

end IrefVerif.Props.C09
