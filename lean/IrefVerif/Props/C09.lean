import IrefVerif.Lemmas.Nsegs

/-!
# C09 — dot-segment normalisation (RFC 3986 §5.2.4, Errata 4547)

The model of `NormalizedSegmentsImpl::new` is `Model.Path.normalized_segments`: a fold of
`normalizedStep` over the segment iterator.  Proved here: that fold is the specification walk
(`.` dropped; `..` pops, or is kept on an empty/`..`-topped stack of a relative path, or is
dropped at the root of an absolute one); the walk is idempotent; its result contains no `.`
and, for an absolute path, no `..`.  The rendering claims (normalized copy, in-place rewrite,
shield) are checked on the implementation by the `paths`/`pathmut` oracles.
-/

namespace IrefVerif.Props.C09
open IrefVerif IrefVerif.Spec IrefVerif.Model IrefVerif.Lemmas

/-- **the implementation's stack walk is the specification's** (for every segment list, hence for
every path of both families) -/
theorem normalized_stack_eq_spec (relative : Bool) (ss : List Text) :
    ss.foldl (Path.normalizedStep relative) [] = nsegsOf (!relative) ss :=
  normalized_stack_eq_nsegsOf relative ss

/-- `normalized_segments()` of the model, as the specification walk over the iterator's output -/
theorem normalized_segments_eq (p : Text) :
    Path.normalized_segments p = nsegsOf (!Path.is_relative p) (Path.segmentList p) := by
  unfold Path.normalized_segments
  exact normalized_stack_eq_nsegsOf _ _

/-- **idempotence**: normalising a normalised sequence changes nothing -/
theorem nsegs_idempotent (abs : Bool) (ss : List Text) :
    nsegsOf abs (nsegsOf abs ss) = nsegsOf abs ss := nsegsOf_idem abs ss

/-- no `.` survives -/
theorem nsegs_no_dot (abs : Bool) (ss : List Text) : segDot ∉ nsegsOf abs ss := nsegsOf_noDot abs ss

/-- RFC 3986 §5.2.4: in an absolute path no `..` survives (it is dropped at the root) -/
theorem nsegs_abs_no_dotdot (ss : List Text) : segDotDot ∉ nsegsOf true ss := nsegsOf_abs_noDotDot ss

/-- Errata 4547: in a relative path a `..` with nothing left to remove is kept -/
example : nsegsOf false [[0x61], segDotDot, segDotDot, [0x62]] = [segDotDot, [0x62]] := by decide
example : nsegsOf true [[0x61], segDotDot, segDotDot, [0x62]] = [[0x62]] := by decide
example : nsegsOf false [[0x61], segDot, [0x62], segDotDot, []] = [[0x61], []] := by decide

end IrefVerif.Props.C09
