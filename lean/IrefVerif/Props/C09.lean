import IrefVerif.Lemmas.Nsegs
import IrefVerif.Lemmas.NormList
import IrefVerif.Lemmas.CopyNorm
import IrefVerif.Lemmas.PathHandleValid

/-!
# C09 — dot-segment normalisation (RFC 3986 §5.2.4, Errata 4547)

The model of `NormalizedSegmentsImpl::new` is `Model.Path.normalized_segments`: a fold of
`normalizedStep` over the segment iterator.  Proved here: that fold is the specification walk
(`.` dropped; `..` pops, or is kept on an empty/`..`-topped stack of a relative path, or is
dropped at the root of an absolute one); the walk is idempotent; its result contains no `.`
and, for an absolute path, no `..`.
Rendering, on the models of `PathMutImpl::normalize` and `PathImpl::normalized`
(`Lemmas/NormList.lean`): in-place normalisation rewrites the path — and nothing else in the
buffer (`C10.path_handle_step`) — to a text that realises the normalised sequence, behind a `.`
shield exactly when the first normalised segment could be misread, keeps the path absolute or
relative (`inplace_realises`) and is idempotent (`inplace_idempotent`); the normalized copy is
RFC 3986 §5.2.4 with Errata 4547, trailing `/` of a final dot segment included, whenever no shield
is needed (`copy_is_rfc`); in every case, shielded or not, it realises the §5.2.4 target — the
normalised sequence plus the trailing empty segment of a final dot segment — literally or behind
the one legitimate `.` shield, keeps the path absolute or relative (`copy_realises`), and is
idempotent (`copy_idempotent`).  Inside a URI/IRI (`normalize_in_reference`): the buffer stays a
valid reference, scheme, authority, query and fragment are untouched and the path is the
normalised one.
-/

namespace IrefVerif.Props.C09
open IrefVerif IrefVerif.Spec IrefVerif.Model IrefVerif.Lemmas

/-- **the implementation's stack walk is the specification's** (for every segment list, hence for
every path of both families) -/
theorem normalized_stack_eq_spec (relative : Bool) (ss : List Text) :
    ss.foldl (Path.normalizedStep relative) [] = nsegsOf (!relative) ss :=
  normalized_stack_eq_nsegsOf relative ss

/-- `normalized_segments()` of the model, as the specification walk over the iterator's output -/
theorem normalized_segments_eq (p : Text) :
    Path.normalized_segments p = nsegsOf (!Path.is_relative p) (Path.segmentList p) := by
  unfold Path.normalized_segments
  exact normalized_stack_eq_nsegsOf _ _

/-- **idempotence**: normalising a normalised sequence changes nothing -/
theorem nsegs_idempotent (abs : Bool) (ss : List Text) :
    nsegsOf abs (nsegsOf abs ss) = nsegsOf abs ss := nsegsOf_idem abs ss

/-- no `.` survives -/
theorem nsegs_no_dot (abs : Bool) (ss : List Text) : segDot ∉ nsegsOf abs ss := nsegsOf_noDot abs ss

/-- RFC 3986 §5.2.4: in an absolute path no `..` survives (it is dropped at the root) -/
theorem nsegs_abs_no_dotdot (ss : List Text) : segDotDot ∉ nsegsOf true ss := nsegsOf_abs_noDotDot ss

/-- Errata 4547: in a relative path a `..` with nothing left to remove is kept -/
example : nsegsOf false [[0x61], segDotDot, segDotDot, [0x62]] = [segDotDot, [0x62]] := by decide
example : nsegsOf true [[0x61], segDotDot, segDotDot, [0x62]] = [[0x62]] := by decide
example : nsegsOf false [[0x61], segDot, [0x62], segDotDot, []] = [[0x61], []] := by decide

/-! ## rendering: the models of `normalize` (in place) and `normalized` (copy) -/

/-- **in-place normalisation writes the normalised sequence** (literally, or behind the one `.`
shield it needs) and keeps the path absolute or relative; `C10.path_handle_step` shows that the
model of `normalize` writes exactly `normView` and touches nothing else -/
theorem inplace_realises (fa atStart : Bool) (p : Text) (hp : PathText p) :
    realises (normView fa atStart p) (nsegs p) = true ∧ isAbs (normView fa atStart p) = isAbs p :=
  normView_realises fa atStart p hp

/-- the model of `normalize` on a handle: the window becomes `normView`, everything else stays -/
theorem inplace_model (h : PathMut) (pre v post : Text) (inv : PInv h pre v post) :
    ∃ h', h.normalize = some h' ∧ PInv h' pre (normView h.follows_authority (pre.length == 0) v) post :=
  let ⟨h', e, i, _, _⟩ := normalize_view h pre v post inv
  ⟨h', e, i⟩

/-- **idempotent**: normalising a normalised path changes nothing -/
theorem inplace_idempotent (fa atStart : Bool) (p : Text) (hp : PathText p) :
    normView fa atStart (normView fa atStart p) = normView fa atStart p :=
  normView_idem fa atStart p hp

/-- the model of the normalized copy -/
theorem copy_model (p : Text) (hp : PathText p) : Path.normalized p = some (nrmCopy p) :=
  normalized_view p hp

/-- **the normalized copy is the RFC 3986 §5.2.4 rendering** (Errata 4547 for relative paths; the
trailing `/` of a final dot segment included), whenever the result needs no shield -/
theorem copy_is_rfc (p : Text) (hp : PathText p) (hns : needsShield true true p = false) :
    Path.normalized p = some (removeDots p) := by
  rw [normalized_view p hp, nrmCopy_no_shield p hp hns]

/-- **the normalized copy realises the §5.2.4 target in every case** (a single leading `.` only as
the shield of a first segment that is empty or contains `:`), and stays absolute or relative -/
theorem copy_realises (p : Text) (hp : PathText p) :
    ∃ q, Path.normalized p = some q ∧ realises q (normTarget p) = true ∧ isAbs q = isAbs p :=
  ⟨nrmCopy p, normalized_view p hp, nrmCopy_realises p hp⟩

/-- **the normalized copy is idempotent** -/
theorem copy_idempotent (p : Text) (hp : PathText p) :
    ∃ q, Path.normalized p = some q ∧ Path.normalized q = some q := by
  refine ⟨nrmCopy p, normalized_view p hp, ?_⟩
  rw [normalized_view _ (pathText_nrmCopy p hp), nrmCopy_idempotent p hp]

/-- **normalising the path of a URI/IRI in place**: no panic, the buffer is a valid reference
again, scheme, authority, query and fragment are untouched, and the path is the normalised text -/
theorem normalize_in_reference (G : Grammar) (ok : Grammar.Ok G) (okp : Grammar.OkPath G) (w : Text)
    (h : RE.Matches G.reference w) :
    ∃ h', (Ref.path_mut w).normalize = some h' ∧ RE.Matches G.reference h'.buffer ∧
      split h'.buffer = { split w with path := h'.view } ∧
      realises h'.view (nsegs (split w).path) = true := by
  obtain ⟨h', e, hv, hs, _⟩ := path_session_valid G ok okp w h [.norm] (by intro op hop; simp at hop; subst hop; trivial)
  have en : (Ref.path_mut w).normalize = some h' := by
    simp only [Props.C10.pathRun, Props.C10.pathStep] at e
    cases hp : (Ref.path_mut w).normalize with
    | none => rw [hp] at e; cases e
    | some x => rw [hp] at e; simp at e; rw [e]
  refine ⟨h', en, hv, hs, ?_⟩
  obtain ⟨_, wf⟩ := split_valid G ok w h
  have inv := path_handle_of_reference G ok w h
  obtain ⟨h2, e2, i2, _, _⟩ := normalize_view _ _ _ _ inv
  rw [en] at e2
  simp only [Option.some.injEq] at e2
  subst e2
  rw [i2.view]
  exact (normView_realises _ _ _ (pathText_of_wf _ wf)).1

example : Path.normalized [0x2F,0x61,0x2F,0x2E,0x2F,0x62,0x2F,0x2E,0x2E,0x2F,0x2E] = some [0x2F,0x61,0x2F] := by decide
example : needsShield true true [0x2F,0x61,0x2F,0x2E,0x2F,0x62,0x2F,0x2E,0x2E,0x2F,0x2E] = false := by decide
/-- a copy that needs its shield: `a/..//b` is `.//b`, not `//b` -/
example : Path.normalized [0x61,0x2F,0x2E,0x2E,0x2F,0x2F,0x62] = some [0x2E,0x2F,0x2F,0x62] := by decide

end IrefVerif.Props.C09
