import IrefVerif.Lemmas.Segs
import IrefVerif.Lemmas.Nsegs
import IrefVerif.Oracle

/-!
# C10 — path editing has list semantics and touches nothing but the path

Text-level facts, for all paths and segments: appending `/`+segment to a non-empty path
appends exactly that segment to its `/`-split and keeps the path absolute/relative; writing a
segment after the (optional) root of an empty path yields the one-segment path.  These are the
two shapes `PathMutImpl::push` produces when no shield is involved; the shield cases, `pop`,
`clear`, the symbolic operations and the frame (scheme, authority, query, fragment untouched)
are judged on the implementation by the `pathmut` oracle (`Oracle.pmStep`, stated on
`Oracle.listOp`), and the handle model `Model.PathMut` is compared with the real handle after
every step of every history.
-/

namespace IrefVerif.Props.C10
open IrefVerif IrefVerif.Spec IrefVerif.Lemmas IrefVerif.Oracle

/-- push on a non-empty path -/
theorem push_nonempty (p s : Text) (hp : stripRoot p ≠ []) (hs : cSlash ∉ s) :
    segs (p ++ cSlash :: s) = segs p ++ [s] ∧ isAbs (p ++ cSlash :: s) = isAbs p :=
  segs_push p s hp hs

/-- push on an empty path (`` or `/`) -/
theorem push_empty (abs : Bool) (s : Text) (hs : cSlash ∉ s) (hne : s ≠ []) :
    segs ((if abs then [cSlash] else []) ++ s) = [s] :=
  segs_push_empty abs s hs hne

/-- the list semantics used by the oracle: push appends, clear empties -/
theorem listOp_push (abs : Bool) (e : List Text) (s : Text) : listOp abs e (.push s) = e ++ [s] := rfl
theorem listOp_clear (abs : Bool) (e : List Text) : listOp abs e .clear = [] := rfl

/-- pop removes the last segment, except on an empty relative path or after `..` -/
theorem listOp_pop (abs : Bool) (e : List Text) (s : Text) (hs : s ≠ segDotDot) :
    listOp abs (e ++ [s]) .pop = e := by
  simp only [listOp, listPop]
  have h1 : (e ++ [s]).isEmpty = false := by simp
  have h2 : ((e ++ [s]).getLast? == some segDotDot) = false := by
    simp only [List.getLast?_append, List.getLast?_singleton, Option.some_or]
    simpa using hs
  simp [h1, hs]

/-- in-place normalisation has the list semantics of C09 and is idempotent -/
theorem listOp_norm_idem (abs : Bool) (e : List Text) :
    listOp abs (listOp abs e .norm) .norm = listOp abs e .norm := nsegsOf_idem abs e

example : segs [0x61, 0x2F, 0x2F] = [[0x61], [], []] := by decide
example : listOp false [] .pop = [segDotDot] := by decide
example : listOp true [] .pop = [] := by decide

end IrefVerif.Props.C10
