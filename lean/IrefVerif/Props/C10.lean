import IrefVerif.Lemmas.Segs
import IrefVerif.Lemmas.Nsegs
import IrefVerif.Oracle
import IrefVerif.Lemmas.PushList
import IrefVerif.Lemmas.PopList
import IrefVerif.Lemmas.ValidWF
import IrefVerif.Lemmas.PathHandleRef
import IrefVerif.Lemmas.SymAppend
import IrefVerif.Lemmas.SymRel

/-!
# C10 — path editing has list semantics and touches nothing but the path

Text-level facts, for all paths and segments: appending `/`+segment to a non-empty path
appends exactly that segment to its `/`-split and keeps the path absolute/relative; writing a
segment after the (optional) root of an empty path yields the one-segment path.  These are the
two shapes `PathMutImpl::push` produces when no shield is involved.
Model level (`Lemmas/PathMutView.lean`): on the *model of the Rust handle* (`Model/PathMut.lean`:
window offsets, `Vec` splices, `end` bookkeeping, the `anchored`/`follows_authority` flags), for
**every finite sequence** of `push` / `pop` / `clear` / `symbolic_push` / `symbolic_append` /
`normalize` with arbitrary arguments, started from the handle of any valid reference
(`handle_of_reference`) or any stand-alone path (`handle_of_path`): no call panics, the octets
before and after the window — scheme, authority, query, fragment — are never touched, the window
is exactly the new path, and the new path is an explicit function of the old one
(`path_handle_step`, `path_handle_history`).  List semantics of `push` in every context,
shields included: `push_list` (`Lemmas/PushList.lean`); of `pop`: `pop_list`
(`Lemmas/ScanBack.lean`: the backward scan finds the last `/`; `Lemmas/PopList.lean`: the three
shapes of a path seen from the back, `last()` is the last element of the segment list, the view
after `pop` realises `Oracle.listPop`); of `clear`: `clear_list`.  The list semantics of the
symbolic operations and of `normalize` are judged on the implementation by the `pathmut` oracle
(`Oracle.pmStep`, stated on `Oracle.listOp`), and the handle model is compared with the real
handle after every step of every history.
-/

namespace IrefVerif.Props.C10
open IrefVerif IrefVerif.Spec IrefVerif.Lemmas IrefVerif.Oracle IrefVerif.Model

/-- push on a non-empty path -/
theorem push_nonempty (p s : Text) (hp : stripRoot p ≠ []) (hs : cSlash ∉ s) :
    segs (p ++ cSlash :: s) = segs p ++ [s] ∧ isAbs (p ++ cSlash :: s) = isAbs p :=
  segs_push p s hp hs

/-- push on an empty path (`` or `/`) -/
theorem push_empty (abs : Bool) (s : Text) (hs : cSlash ∉ s) (hne : s ≠ []) :
    segs ((if abs then [cSlash] else []) ++ s) = [s] :=
  segs_push_empty abs s hs hne

/-- the list semantics used by the oracle: push appends, clear empties -/
theorem listOp_push (abs : Bool) (e : List Text) (s : Text) : listOp abs e (.push s) = e ++ [s] := rfl
theorem listOp_clear (abs : Bool) (e : List Text) : listOp abs e .clear = [] := rfl

/-- pop removes the last segment, except on an empty relative path or after `..` -/
theorem listOp_pop (abs : Bool) (e : List Text) (s : Text) (hs : s ≠ segDotDot) :
    listOp abs (e ++ [s]) .pop = e := by
  simp only [listOp, listPop]
  have h1 : (e ++ [s]).isEmpty = false := by simp
  have h2 : ((e ++ [s]).getLast? == some segDotDot) = false := by
    simp only [List.getLast?_append, List.getLast?_singleton, Option.some_or]
    simpa using hs
  simp [h1, hs]

/-- in-place normalisation has the list semantics of C09 and is idempotent -/
theorem listOp_norm_idem (abs : Bool) (e : List Text) :
    listOp abs (listOp abs e .norm) .norm = listOp abs e .norm := nsegsOf_idem abs e

example : segs [0x61, 0x2F, 0x2F] = [[0x61], [], []] := by decide
example : listOp false [] .pop = [segDotDot] := by decide
example : listOp true [] .pop = [] := by decide

/-! ## the model of the handle: frame and totality for every sequence of edits -/

inductive PathOp
  | push (s : Text) | pop | clear | spush (s : Text) | sapp (p : Text) | norm

/-- the model of one call (`none` = panic) -/
def pathStep (h : PathMut) : PathOp → Option PathMut
  | .push s => h.push s
  | .pop => h.pop
  | .clear => h.clear
  | .spush s => h.symbolic_push_pub s
  | .sapp p => h.symbolic_append (Path.segmentList p)
  | .norm => h.normalize

/-- the path after one call, as a function of the path before it and the handle's context -/
def opView (anch fa atStart : Bool) (v : Text) : PathOp → Text
  | .push s => pushView anch fa atStart v s
  | .pop => popView anch fa atStart v
  | .clear => clearView v
  | .spush s => symPushPubView anch fa atStart v s
  | .sapp p => symAppendView anch fa atStart v (Path.segmentList p)
  | .norm => normView fa atStart v

def pathRun : PathMut → List PathOp → Option PathMut
  | h, [] => some h
  | h, op :: ops => match pathStep h op with
    | some h' => pathRun h' ops
    | none => none

/-- **one edit**: no panic; the window is the new path; `pre` and `post` are untouched; the
context flags are unchanged -/
theorem path_handle_step (h : PathMut) (pre v post : Text) (inv : PInv h pre v post) (op : PathOp) :
    ∃ h', pathStep h op = some h' ∧
      PInv h' pre (opView h.anchored h.follows_authority (pre.length == 0) v op) post ∧
      h'.follows_authority = h.follows_authority ∧ h'.anchored = h.anchored := by
  cases op with
  | push s => exact push_view h pre v post inv s
  | pop => exact pop_view h pre v post inv
  | clear => exact clear_view h pre v post inv
  | spush s => exact symbolic_push_pub_view h pre v post inv s
  | sapp p => exact symbolic_append_view h pre v post inv (Path.segmentList p)
  | norm => exact normalize_view h pre v post inv

/-- **every finite sequence of edits through one handle** -/
theorem path_handle_history (ops : List PathOp) (h : PathMut) (pre v post : Text) (inv : PInv h pre v post) :
    ∃ h', pathRun h ops = some h' ∧
      PInv h' pre (ops.foldl (opView h.anchored h.follows_authority (pre.length == 0)) v) post := by
  induction ops generalizing h v with
  | nil => exact ⟨h, rfl, inv⟩
  | cons op ops ih =>
    obtain ⟨h1, e1, i1, f1, a1⟩ := path_handle_step h pre v post inv op
    obtain ⟨h2, e2, i2⟩ := ih h1 _ i1
    rw [f1, a1] at i2
    exact ⟨h2, by simp only [pathRun, e1, e2], i2⟩

/-- a stand-alone path buffer -/
theorem handle_of_path (p : Text) : PInv (PathMut.from_path p) [] p [] :=
  ⟨by simp [PathMut.from_path], rfl, by simp [PathMut.from_path]⟩

/-- the handle of a valid reference: the window found by `path_mut()` is the path, between
`scheme:` `//authority` and `?query` `#fragment` -/
theorem handle_of_reference (G : Grammar) (ok : Grammar.Ok G) (w : Text) (h : RE.Matches G.reference w) :
    PInv (Ref.path_mut w) (schemeText (split w).scheme ++ authText (split w).authority) (split w).path
      (queryText (split w).query ++ fragText (split w).fragment) :=
  path_handle_of_reference G ok w h

/-- **frame, end to end**: after any sequence of path edits on a valid reference the buffer is
`scheme: //authority` ++ *new path* ++ `?query #fragment` with the original scheme, authority,
query and fragment texts -/
theorem path_edits_frame (G : Grammar) (ok : Grammar.Ok G) (w : Text) (h : RE.Matches G.reference w)
    (ops : List PathOp) :
    ∃ h' v', pathRun (Ref.path_mut w) ops = some h' ∧ h'.view = v' ∧
      h'.buffer = schemeText (split w).scheme ++ authText (split w).authority ++ v' ++
        (queryText (split w).query ++ fragText (split w).fragment) := by
  obtain ⟨h', e, i⟩ := path_handle_history ops _ _ _ _ (handle_of_reference G ok w h)
  exact ⟨h', _, e, i.view, i.data⟩

/-- **`push` appends exactly that segment**, in every context, shields included -/
theorem push_list (anch fa atStart : Bool) (v s : Text) (hs : cSlash ∉ s) :
    realises (pushView anch fa atStart v s) (segs v ++ [s]) = true ∨
    realises (pushView anch fa atStart v s) (alist v ++ [s]) = true :=
  pushView_realises anch fa atStart v s hs

/-- **`pop` removes exactly the last segment** — or appends `..` on an empty relative path and
after a `..`; an empty absolute path is left alone; the kept empty first segment goes behind
`/./` — in every context -/
theorem pop_list (anch fa atStart : Bool) (v : Text) (hp : PathText v) :
    realises (popView anch fa atStart v) (Oracle.listPop (isAbs v || anch) (segs v)) = true ∨
    realises (popView anch fa atStart v) (Oracle.listPop (isAbs v || anch) (alist v)) = true :=
  popView_realises anch fa atStart v hp

/-- **`clear` removes all segments and keeps the path absolute or relative** -/
theorem clear_list (v : Text) : segs (clearView v) = [] ∧ isAbs (clearView v) = isAbs v := by
  unfold clearView
  cases h : isAbs v <;> simp [segs, stripRoot, isAbs]

/-- `last()` of the model is the last element of the segment list (used by `pop` and by
`remove_dot_segments`) -/
theorem last_is_getLast (v : Text) (hp : PathText v) : Path.last v = (segs v).getLast? :=
  last_eq_getLast v hp

/-! ## symbolic operations on an absolute path: directory meaning of `.` and `..` -/

/-- **`symbolic_push` on an absolute path** whose literal segments are `.` shields followed by the
dot-free list `e` (every state a handle reaches from a normalised absolute path): `.` changes
nothing, `..` removes the last of `e` (nothing at the root), any other segment is appended — unless
it is an empty segment pushed onto an empty path, which the code skips (the class of F15) -/
theorem symbolic_push_abs (anch fa : Bool) (v s : Text) (e : List Text) (inv : AInv v e)
    (hs : cSlash ∉ s) (hpt : PathText s)
    (hskip : (s != segDot && s != segDotDot && s.isEmpty && e.isEmpty) = false) :
    AInv (symPushView anch fa false v s).1 (Oracle.listSymPush true e s).1 ∧
      (symPushView anch fa false v s).2 = (s == segDot || s == segDotDot) :=
  ainv_step anch fa v s e inv hs hpt hskip

/-- **`symbolic_append` on an absolute path**: the normalised sequence of the result is the walk of
the appended segments from `e`, closed by one empty segment when the last appended segment was a
dot segment (and the path is not empty) -/
theorem symbolic_append_abs (anch fa : Bool) (v : Text) (e ss : List Text) (inv : AInv v e)
    (hall : ∀ s ∈ ss, cSlash ∉ s ∧ PathText s) (hsk : Findings.symSkipsGo true e ss = false) :
    ∃ c, nsegs (symAppendView anch fa false v ss) = walk e ss ++ c ∧ (c = [] ∨ c = [[]]) ∧
      (walk e ss ≠ [] → c = if lastDot ss then [[]] else []) ∧
      isAbs (symAppendView anch fa false v ss) = true := by
  obtain ⟨i1, f1⟩ := ainv_loop anch fa ss v false e inv hall hsk
  have ho : (symAppendGoView anch fa false v false ss).2 = lastDot ss := by
    rw [f1]
    split
    · rename_i h; subst h; rfl
    · rfl
  unfold symAppendView closeView
  rw [ho]
  by_cases hc : (lastDot ss && !Path.is_empty (symAppendGoView anch fa false v false ss).1) = true
  · simp only [hc, if_true]
    have i2 := ainv_push anch fa _ [] _ i1 (by simp) (by intro c hc; cases hc) (by decide) (by decide)
    simp only [Bool.and_eq_true] at hc
    exact ⟨[[]], ainv_nsegs i2, .inr rfl, fun _ => by simp [hc.1], i2.abs⟩
  · have hc' : (lastDot ss && !Path.is_empty (symAppendGoView anch fa false v false ss).1) = false := by
      simpa using hc
    simp only [hc', Bool.false_eq_true, if_false]
    refine ⟨[], by rw [List.append_nil]; exact ainv_nsegs i1, .inl rfl, fun hne => ?_, i1.abs⟩
    by_cases hl : lastDot ss = true
    · rw [hl] at hc'
      have hem : Path.is_empty (symAppendGoView anch fa false v false ss).1 = true := by simpa using hc'
      obtain ⟨k, hk⟩ := i1.shape
      rw [is_empty_segs hem] at hk
      have : walk e ss = [] := by
        have := congrArg List.length hk
        simp at this
        exact List.eq_nil_of_length_eq_zero (by omega)
      exact absurd this hne
    · simp [hl]

/-- a normalised absolute path is such a state -/
theorem normalized_abs_state (fa : Bool) (p : Text) (hp : PathText p) (habs : isAbs p = true) :
    AInv (normView fa false p) (nsegs p) := by
  obtain ⟨hr, ha⟩ := normView_realises fa false p hp
  refine ⟨by rw [ha]; exact habs, pathText_normView _ _ _ hp, ?_, ?_⟩
  · unfold nsegs; rw [habs]; exact ⟨nsegsOf_noDot _ _, nsegsOf_abs_noDotDot _⟩
  · rcases realises_cases hr with h | h
    · exact ⟨0, by rw [h]; rfl⟩
    · exact ⟨1, by rw [h]; rfl⟩

/-! ## symbolic operations on a relative path

A relative path that does not follow an authority.  Its literal segments are `L` — the `..`s that
could not be resolved, then a dot-free list: what a normalised relative path is — possibly behind
one `.`: the shield of a first segment that is empty or contains `:`, or the lone `.` such a
shield becomes when the segment behind it is popped (since the repair of F19, `..` takes the lone
`.` for the empty path). -/

/-- **`symbolic_push` on a relative path**: `.` changes nothing; `..` removes the last segment of
`L`, and is appended when `L` is empty or ends in `..`; any other segment is appended — unless it
is an empty segment pushed onto an empty list, which the code skips (the class of F15) -/
theorem symbolic_push_rel (fa atStart : Bool) (v s : Text) (L : List Text) (inv : RInv v L)
    (hs : cSlash ∉ s) (hpt : PathText s)
    (hskip : (s != segDot && s != segDotDot && s.isEmpty && L.isEmpty) = false) :
    RInv (symPushView false fa atStart v s).1 (Oracle.listSymPush false L s).1 ∧
      (symPushView false fa atStart v s).2 = (s == segDot || s == segDotDot) :=
  rinv_step fa atStart v s L inv hs hpt hskip

/-- **`symbolic_append` on a relative path**: the normalised sequence of the result is the walk of
the appended segments from `L` (climbing above the start leaves `..`s), closed by one empty segment
when the last appended segment was a dot segment and the path is not empty -/
theorem symbolic_append_rel (fa atStart : Bool) (v : Text) (L ss : List Text) (inv : RInv v L)
    (hall : ∀ s ∈ ss, cSlash ∉ s ∧ PathText s) (hsk : Findings.symSkipsGo false L ss = false) :
    ∃ c, nsegs (symAppendView false fa atStart v ss) = walkR L ss ++ c ∧ (c = [] ∨ c = [[]]) ∧
      (walkR L ss ≠ [] → c = if lastDot ss then [[]] else []) ∧
      isAbs (symAppendView false fa atStart v ss) = false := by
  obtain ⟨i1, f1⟩ := rinv_loop fa atStart ss v false L inv hall hsk
  have ho : (symAppendGoView false fa atStart v false ss).2 = lastDot ss := by
    rw [f1]
    split
    · rename_i h; subst h; rfl
    · rfl
  unfold symAppendView closeView
  rw [ho]
  by_cases hc : (lastDot ss && !Path.is_empty (symAppendGoView false fa atStart v false ss).1) = true
  · simp only [hc, if_true]
    have i2 := rinv_push fa atStart _ [] _ i1 (by simp) (by intro c hc; cases hc) (by decide) (by decide)
    simp only [Bool.and_eq_true] at hc
    exact ⟨[[]], rinv_nsegs i2, .inr rfl, fun _ => by simp [hc.1], i2.rel⟩
  · have hc' : (lastDot ss && !Path.is_empty (symAppendGoView false fa atStart v false ss).1) = false := by
      simpa using hc
    simp only [hc', Bool.false_eq_true, if_false]
    refine ⟨[], by rw [List.append_nil]; exact rinv_nsegs i1, .inl rfl, fun hne => ?_, i1.rel⟩
    by_cases hl : lastDot ss = true
    · rw [hl] at hc'
      have hem : Path.is_empty (symAppendGoView false fa atStart v false ss).1 = true := by simpa using hc'
      rw [is_empty_rel i1.rel] at hem
      have hv : (symAppendGoView false fa atStart v false ss).1 = [] := by simpa using hem
      rw [hv] at i1
      exact absurd (rinv_nil i1) hne
    · simp [hl]

/-- a normalised relative path is such a state -/
theorem normalized_rel_state (fa atStart : Bool) (p : Text) (hp : PathText p) (hrel : isAbs p = false) :
    RInv (normView fa atStart p) (nsegs p) := by
  obtain ⟨hr, ha⟩ := normView_realises fa atStart p hp
  refine ⟨by rw [ha]; exact hrel, pathText_normView _ _ _ hp, ?_, realises_cases hr⟩
  unfold nsegs; rw [hrel]; exact semiNormal_nsegsOf _

/-- non-vacuity and the witness of F19: `./a:b` is such a state with `L = ["a:b"]`; two `..` walk to
`[".."]`, and the model of the repaired `symbolic_append` writes `../` -/
example : walkR [[0x61, 0x3A, 0x62]] [segDotDot, segDotDot] = [segDotDot] ∧
    Findings.symSkipsGo false [[0x61, 0x3A, 0x62]] [segDotDot, segDotDot] = false ∧
    symAppendView false false true [0x2E, 0x2F, 0x61, 0x3A, 0x62] [segDotDot, segDotDot] = [0x2E, 0x2E, 0x2F] := by decide

/-- non-vacuity: a history through one handle inside a URI, computed by the model -/
example : (pathRun (Ref.path_mut [0x73, 0x3A, 0x2F, 0x2F, 0x68, 0x3F, 0x71])
    [.push [0x61], .push [], .pop, .spush [0x2E, 0x2E], .push [0x62]]).map (·.buffer)
    = some [0x73, 0x3A, 0x2F, 0x2F, 0x68, 0x2F, 0x62, 0x3F, 0x71] := by decide

end IrefVerif.Props.C10
