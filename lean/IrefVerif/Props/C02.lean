import IrefVerif.Lemmas.ValidWF
import IrefVerif.Model.Reference
import IrefVerif.Lemmas.Accessors

/-!
# C02 — component accessors return the RFC 3986 generic-syntax decomposition

The model here is `Model/Parse.lean` (a transliteration of `common/parse.rs`) and the accessor
layer of `Model/Reference.lean`; borrowed and owned views are the same function in the model
(in Rust the owned types deref to the borrowed ones), and both families share it.
All statements hold for every text that does not begin with `:`, hence for every valid
URI/IRI reference (a scheme begins with a letter, a `path-noscheme` has no colon in its first
segment, every other alternative begins with `/`, `?`, `#` or is empty).
-/

namespace IrefVerif.Props.C02
open IrefVerif IrefVerif.Spec IrefVerif.Model IrefVerif.Model.Parse IrefVerif.Lemmas

/-- **all-at-once decomposition = Appendix B.**  `UriRef::parts`/`IriRef::parts`
(`parse::reference_parts`) return exactly the five components of RFC 3986 Appendix B, with
absent (`none`) and empty-but-present (`some []`) kept apart. -/
theorem reference_parts_eq_split (w : Text) (hw : w.head? ≠ some cColon) :
    modelRefParts w = split w :=
  modelRefParts_eq_split w hw

/-- **recomposition** (RFC 3986 §5.3) of the decomposition reproduces the text, for every text. -/
theorem recompose_split (w : Text) : recompose (split w) = w := Lemmas.recompose_split w

/-- hence recomposing what `parts()` returns reproduces the original text -/
theorem recompose_reference_parts (w : Text) (hw : w.head? ≠ some cColon) :
    recompose (modelRefParts w) = w := by
  rw [reference_parts_eq_split w hw, recompose_split]

/-- **uniqueness**: a well-formed list of components is what its recomposition decomposes to;
so two valid references with the same text have the same components, and components can be
reasoned about one at a time (used by C04, C05, C06). -/
theorem split_recompose (P : Spec.Parts) (wf : WF P) : split (recompose P) = P :=
  Lemmas.split_recompose P wf

/-! ## the individual accessors agree with the all-at-once decomposition -/

theorem findSchemeGo_eq (w : Text) :
    findSchemeGo w = if fdc w then some (spanLen nCSQH w) else none := Lemmas.findSchemeGo_eq w

/-- `scheme()` (through `find_scheme`) is the scheme of the decomposition -/
theorem scheme_accessor (w : Text) (hw : w.head? ≠ some cColon) :
    Ref.scheme_opt w = (split w).scheme := by
  unfold Ref.scheme_opt find_scheme
  rw [List.drop_zero, findSchemeGo_eq, split_eq_tail]
  simp only
  by_cases h : fdc w = true
  · rw [splitScheme_of_fdc_true hw h]
    simp [h, slice]
  · have h' : fdc w = false := by simpa using h
    rw [splitScheme_of_fdc_false h']
    simp [h']

/-! ## valid references: the components are the RFC's, and are valid values of their types -/

/-- **every valid reference is the recomposition of valid components, and vice versa**
(both families: `G` is `uriG` or `iriG`, whose `reference`/`full` are the RFC productions) -/
theorem reference_iff_components (G : Grammar) (w : Text) :
    RE.Matches G.reference w ↔ ∃ P : Spec.Parts, recompose P = w ∧ ValidParts G P :=
  reference_iff G w

/-- **each returned component is itself a valid value of its component type** (with the path
production that RFC 3986 §3 prescribes for the context), for URI references … -/
theorem components_valid_uri (w : Text) (h : RE.Matches Rfc3986.URIreference w) :
    ValidParts uriG (split w) :=
  (split_valid uriG uriG_ok w (uriG_reference ▸ h)).1

/-- … and for IRI references (over Unicode scalar values) -/
theorem components_valid_iri (w : Text) (h : RE.Matches Rfc3987.IRIreference w) :
    ValidParts iriG (split w) :=
  (split_valid iriG iriG_ok w (iriG_reference ▸ h)).1

/-- for a valid URI reference the all-at-once decomposition of the model is the RFC's -/
theorem parts_of_valid_uri (w : Text) (h : RE.Matches Rfc3986.URIreference w) :
    modelRefParts w = split w :=
  reference_parts_eq_split w (valid_head uriG uriG_ok w (uriG_reference ▸ h))

theorem parts_of_valid_iri (w : Text) (h : RE.Matches Rfc3987.IRIreference w) :
    modelRefParts w = split w :=
  reference_parts_eq_split w (valid_head iriG iriG_ok w (iriG_reference ▸ h))

/-- a full URI (resp. IRI) is a reference with a scheme -/
theorem full_iff_scheme (G : Grammar) (ok : Grammar.Ok G) (w : Text) :
    RE.Matches G.full w ↔ RE.Matches G.reference w ∧ (split w).scheme.isSome := by
  constructor
  · intro h
    have href : RE.Matches G.reference w := RE.Matches.altL h
    refine ⟨href, ?_⟩
    obtain ⟨P, hs, hP, hv⟩ := (full_iff G w).mp h
    have hwf := wf_of_valid G ok P hv
    have : split w = P := by rw [← hP]; exact Lemmas.split_recompose P hwf
    rw [this]; exact hs
  · rintro ⟨h, hs⟩
    obtain ⟨hv, _⟩ := split_valid G ok w h
    exact (full_iff G w).mpr ⟨split w, hs, Lemmas.recompose_split w, hv⟩

/-! ## offsets: `parts()` and the ten stand-alone accessors land on the same ranges -/

/-- **for every valid reference (either family), the model of `reference_parts` and of each
re-scanning accessor returns the explicit offsets of the Appendix-B components**: scheme at 0,
authority two octets after the scheme's `:`, path right after, query and fragment one octet
after their delimiters — consecutive, ordered, non-overlapping (C20 uses this too). -/
theorem accessor_offsets (G : Grammar) (ok : Grammar.Ok G) (w : Text) (h : RE.Matches G.reference w) :
    reference_parts w 0 = rangesOf (split w) ∧
    find_scheme w 0 = (rangesOf (split w)).scheme ∧
    (find_authority w 0).toOption = (rangesOf (split w)).authority ∧
    find_path w 0 = (rangesOf (split w)).path ∧
    (find_query w 0).toOption = (rangesOf (split w)).query ∧
    (find_fragment w 0).toOption = (rangesOf (split w)).fragment := by
  obtain ⟨_, wf⟩ := split_valid G ok w h
  have hw := Lemmas.recompose_split w
  have h1 := reference_parts_recompose (split w) wf
  have h2 := find_scheme_recompose (split w) wf
  have h3 := find_authority_recompose (split w) wf
  have h4 := find_path_recompose (split w) wf
  have h5 := find_query_recompose (split w) wf
  have h6 := find_fragment_recompose (split w) wf
  rw [hw] at h1 h2 h3 h4 h5 h6
  exact ⟨h1, h2, h3, h4, h5, h6⟩

/-- non-vacuity: a reference with every component present, and one with empty-but-present ones -/
example : modelRefParts [0x73, 0x3A, 0x2F, 0x2F, 0x68, 0x2F, 0x70, 0x3F, 0x71, 0x23, 0x66]
    = (⟨some [0x73], some [0x68], [0x2F, 0x70], some [0x71], some [0x66]⟩ : Spec.Parts) := by decide
example : modelRefParts [0x3F, 0x23] = (⟨none, none, [], some [], some []⟩ : Spec.Parts) := by decide

end IrefVerif.Props.C02
