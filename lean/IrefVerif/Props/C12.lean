import IrefVerif.Lemmas.Deque
import IrefVerif.Spec.Path

/-!
# C12 — segment iteration and path queries agree with the `/`-split of the text

Specification side, proved for all lists and all schedules: a double-ended iterator replayed
under *any* interleaving of front and back steps yields every segment exactly once and in
order; joining the `/`-split reproduces the text.  The implementation's two-offset iterator
(`Model.Path.Segments`, transliterated from `SegmentsImpl`) is compared with this specification
by the `paths` correspondence stream, exhaustively over all short paths and all schedules.
-/

namespace IrefVerif.Props.C12
open IrefVerif IrefVerif.Spec IrefVerif.Oracle IrefVerif.Lemmas

/-- **any interleaving**: front outputs, then what has not been yielded yet, then the back
outputs in reverse, are exactly the segment list -/
theorem interleaving (l : List Text) (σ : List Bool) :
    fronts σ (scheduleRem l σ).1 ++ (scheduleRem l σ).2 ++ (backs σ (scheduleRem l σ).1).reverse = l :=
  schedule_partition l σ

/-- after exhaustion every further step yields `none` -/
theorem exhausted_stays_exhausted (σ : List Bool) : ∀ o ∈ (scheduleRem [] σ).1, o = none :=
  schedule_exhausted σ

/-- the forward iteration alone yields the list in order -/
theorem forward (l : List Text) : (scheduleRem l (List.replicate l.length true)).1 = l.map some :=
  schedule_all_front l

/-- **joining the pieces reproduces the text** -/
theorem join_split (p : Text) : joinSlash (splitSlash p) = p := joinSlash_splitSlash p

/-- the segment sequence determines the path text up to the documented collapses: rendering the
segments of a non-empty path gives the text back -/
theorem render_segs (p : Text) (h : stripRoot p ≠ []) : render (isAbs p) (segs p) = p := by
  unfold render segs
  cases p with
  | nil => simp [stripRoot] at h
  | cons c l =>
    by_cases hc : (c == cSlash) = true
    · have hcs : c = cSlash := by simpa using hc
      subst hcs
      have hl : l ≠ [] := by simpa [stripRoot] using h
      cases l with
      | nil => exact absurd rfl hl
      | cons d l' =>
        simp only [isAbs, stripRoot, beq_self_eq_true, if_true, joinSlash_splitSlash]
        rfl
    · have hc' : (c == cSlash) = false := by simpa using hc
      simp only [isAbs, hc', stripRoot, Bool.false_eq_true, if_false, joinSlash_splitSlash]
      rfl

example : scheduleRem [[0x61], [], [0x62]] [true, false, false, true] =
    ([some [0x61], some [0x62], some [], none], []) := by decide

end IrefVerif.Props.C12
