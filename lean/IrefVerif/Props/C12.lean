import IrefVerif.Oracle
import IrefVerif.Lemmas.ParentSegs
import IrefVerif.Lemmas.BaseModel
import IrefVerif.Lemmas.RemoveDots
import IrefVerif.Lemmas.PopList
import IrefVerif.Lemmas.Deque
import IrefVerif.Spec.Path
import IrefVerif.Lemmas.SegSched

/-!
# C12 — segment iteration and path queries agree with the `/`-split of the text

Specification side, proved for all lists and all schedules: a double-ended iterator replayed
under *any* interleaving of front and back steps yields every segment exactly once and in
order; joining the `/`-split reproduces the text.
Model side (`iterator_any_schedule`): the *model of the two-offset iterator* `SegmentsImpl`
(`Model.Path.Segments`: `next` scans forward with `segment_at`, `next_back` scans backward with
`previous_segment_from`), started on any path text and driven by **any** finite schedule of
`next` / `next_back` calls, yields exactly what the specification yields on the `/`-split of the
path: every segment once, in order from both ends, and `none` for ever once the two offsets meet
(`Lemmas/SegPos.lean`: segment positions, the forward and the backward move;
`Lemmas/SegSched.lean`: induction over the schedule).  Forward-only and backward-only iteration
are the special cases `forward_model` and `backward_model`.  The model is compared with the real
iterator by the `paths` correspondence stream, exhaustively over all short paths and schedules.
-/

namespace IrefVerif.Props.C12
open IrefVerif IrefVerif.Spec IrefVerif.Oracle IrefVerif.Lemmas IrefVerif.Model

/-- **any interleaving**: front outputs, then what has not been yielded yet, then the back
outputs in reverse, are exactly the segment list -/
theorem interleaving (l : List Text) (σ : List Bool) :
    fronts σ (scheduleRem l σ).1 ++ (scheduleRem l σ).2 ++ (backs σ (scheduleRem l σ).1).reverse = l :=
  schedule_partition l σ

/-- after exhaustion every further step yields `none` -/
theorem exhausted_stays_exhausted (σ : List Bool) : ∀ o ∈ (scheduleRem [] σ).1, o = none :=
  schedule_exhausted σ

/-- the forward iteration alone yields the list in order -/
theorem forward (l : List Text) : (scheduleRem l (List.replicate l.length true)).1 = l.map some :=
  schedule_all_front l

/-- **joining the pieces reproduces the text** -/
theorem join_split (p : Text) : joinSlash (splitSlash p) = p := joinSlash_splitSlash p

/-- the segment sequence determines the path text up to the documented collapses: rendering the
segments of a non-empty path gives the text back -/
theorem render_segs (p : Text) (h : stripRoot p ≠ []) : render (isAbs p) (segs p) = p := by
  unfold render segs
  cases p with
  | nil => simp [stripRoot] at h
  | cons c l =>
    by_cases hc : (c == cSlash) = true
    · have hcs : c = cSlash := by simpa using hc
      subst hcs
      have hl : l ≠ [] := by simpa [stripRoot] using h
      cases l with
      | nil => exact absurd rfl hl
      | cons d l' =>
        simp only [isAbs, stripRoot, beq_self_eq_true, if_true, joinSlash_splitSlash]
        rfl
    · have hc' : (c == cSlash) = false := by simpa using hc
      simp only [isAbs, hc', stripRoot, Bool.false_eq_true, if_false, joinSlash_splitSlash]
      rfl

/-! ## the model of the iterator -/

/-- **any schedule of `next` / `next_back` on the model of the iterator** -/
theorem iterator_any_schedule (p : Text) (hp : PathText p) (σ : List Bool) :
    runSched p (Path.segments p) σ = (scheduleRem (segs p) σ).1 :=
  iterator_schedule p hp σ

/-- with `interleaving`: whatever the schedule, the segments yielded from the front, then those not
yet yielded, then those yielded from the back in reverse, are the `/`-split of the path -/
theorem iterator_partition (p : Text) (hp : PathText p) (σ : List Bool) :
    fronts σ (runSched p (Path.segments p) σ) ++ (scheduleRem (segs p) σ).2
      ++ (backs σ (runSched p (Path.segments p) σ)).reverse = segs p := by
  rw [iterator_any_schedule p hp σ]
  exact interleaving (segs p) σ

/-- forward iteration of the model yields the segments in order -/
theorem forward_model (p : Text) (hp : PathText p) : Path.segmentList p = segs p :=
  segmentList_eq_segs p hp

theorem schedule_all_back (l : List Text) :
    ∀ n, l.length = n → (scheduleRem l (List.replicate n false)).1 = l.reverse.map some := by
  intro n
  induction n generalizing l with
  | zero => intro h; have : l = [] := by cases l <;> simp_all
            subst this; rfl
  | succ n ih =>
    intro h
    have hne : l ≠ [] := by intro e; subst e; simp at h
    rw [List.replicate_succ, scheduleRem_back l hne]
    have hd : l.dropLast.length = n := by simp [h]
    rw [ih l.dropLast hd]
    have hl : l = l.dropLast ++ [l.getLast hne] := (List.dropLast_concat_getLast hne).symm
    conv => rhs; rw [hl]
    simp only [List.reverse_append, List.reverse_cons, List.reverse_nil, List.nil_append, List.cons_append,
      List.map_cons]
    rw [List.getLast?_eq_some_getLast hne]

/-- backward iteration of the model yields the segments in reverse order -/
theorem backward_model (p : Text) (hp : PathText p) :
    runSched p (Path.segments p) (List.replicate (segs p).length false) = (segs p).reverse.map some := by
  rw [iterator_any_schedule p hp, schedule_all_back _ _ rfl]

example : runSched [0x2F, 0x61, 0x2F, 0x2F, 0x62] (Path.segments [0x2F, 0x61, 0x2F, 0x2F, 0x62])
    [false, true, false, true, true] = [some [0x62], some [0x61], some [], none, none] := by decide

example : scheduleRem [[0x61], [], [0x62]] [true, false, false, true] =
    ([some [0x61], some [0x62], some [], none], []) := by decide

/-! ## the path queries, from the split -/

/-- `segment_count()` is the length of the `/`-split -/
theorem segment_count_model (p : Text) (hp : PathText p) : (Path.segmentList p).length = (segs p).length := by
  rw [segmentList_eq_segs p hp]

/-- `file_name()` is the last piece unless it is empty -/
theorem file_name_model (p : Text) (hp : PathText p) : Path.file_name p = Oracle.fileName p := by
  unfold Path.file_name Oracle.fileName
  rw [next_back_last, last_eq_getLast p hp]
  cases (segs p).getLast? <;> rfl

/-- `first()` is the first piece -/
theorem first_model (p : Text) (hp : PathText p) : Path.first p = (segs p).head? := by
  rw [← segmentList_eq_segs p hp]
  unfold Path.first Path.segmentList Path.segments
  by_cases hem : Path.is_empty p = true
  · simp [hem, Path.Segments.collect, Path.Segments.next]
  · have hem' : Path.is_empty p = false := by simpa using hem
    simp only [hem', Bool.false_eq_true, if_false]
    have hlt : Path.first_segment_offset p < p.length + 1 := by
      unfold Path.first_segment_offset
      split
      · cases p with
        | nil => simp [Path.is_empty] at hem'
        | cons c r => simp
      · omega
    have hle : Path.first_segment_offset p ≤ p.length := by omega
    simp [Path.Segments.collect, Path.Segments.next, hlt, Path.next_segment_from, hle]

/-- `last()` is the last piece -/
theorem last_model (p : Text) (hp : PathText p) : Path.last p = (segs p).getLast? :=
  Lemmas.last_eq_getLast p hp

/-- `is_absolute()` is "begins with `/`" -/
theorem is_absolute_model (p : Text) : Path.is_absolute p = isAbs p := by
  cases p <;> rfl

/-- `is_empty()` holds exactly when there is no piece (the texts `` and `/`) -/
theorem is_empty_model (p : Text) : Path.is_empty p = (segs p).isEmpty := by
  cases p with
  | nil => rfl
  | cons c l =>
    by_cases hc : (c == cSlash) = true
    · have hc' : c = cSlash := by simpa using hc
      subst hc'
      cases l with
      | nil => simp [Path.is_empty, segs, stripRoot]
      | cons d r =>
        have hne : splitSlash (d :: r) ≠ [] := splitSlash_ne_nil _
        have : segs (cSlash :: d :: r) = splitSlash (d :: r) := by simp [segs, stripRoot]
        rw [this]
        cases hs : splitSlash (d :: r) with
        | nil => exact absurd hs hne
        | cons a b => simp [Path.is_empty]
    · have hc' : (c == cSlash) = false := by simpa using hc
      have hne : splitSlash (c :: l) ≠ [] := splitSlash_ne_nil _
      have : segs (c :: l) = splitSlash (c :: l) := by simp [segs, stripRoot, hc']
      rw [this]
      cases hs : splitSlash (c :: l) with
      | nil => exact absurd hs hne
      | cons a b =>
        have : c ≠ cSlash := by simpa using hc'
        simp [Path.is_empty, this]

/-- the three answers agree: no segment is counted exactly when `is_empty()`, and then `first()`,
`last()` and `file_name()` are all `None` -/
theorem empty_consistent (p : Text) (hp : PathText p) :
    ((Path.segmentList p).length = 0 ↔ Path.is_empty p = true) ∧
      (Path.is_empty p = true → Path.first p = none ∧ Path.last p = none ∧ Path.file_name p = none) := by
  rw [segment_count_model p hp, is_empty_model p]
  refine ⟨by cases segs p <;> simp, ?_⟩
  intro he
  rw [first_model p hp, last_model p hp, file_name_model p hp]
  cases hs : segs p with
  | nil => simp [Oracle.fileName, hs]
  | cons a b => rw [hs] at he; simp at he

/-- a path with segments has a first and a last one, and they are the ends of the iteration -/
theorem ends_consistent (p : Text) (hp : PathText p) (hne : Path.is_empty p = false) :
    ∃ f l, Path.first p = some f ∧ Path.last p = some l ∧
      (Path.segmentList p).head? = some f ∧ (Path.segmentList p).getLast? = some l := by
  rw [is_empty_model p] at hne
  rw [first_model p hp, last_model p hp, forward_model p hp]
  cases hs : segs p with
  | nil => rw [hs] at hne; simp at hne
  | cons a b => exact ⟨a, (a :: b).getLast (by simp), rfl, List.getLast?_eq_some_getLast (by simp), rfl, List.getLast?_eq_some_getLast (by simp)⟩

/-- `directory()` is the text up to and including the last `/` -/
theorem directory_model (p : Text) : Path.directory p = upToLastSlash p := Lemmas.directory_eq p

/-- `parent_or_empty()` of an absolute path: its literal segments are the path's without the last,
behind at most one `.` shield (`//a` → `/./`), and it is absolute -/
theorem parent_or_empty_model (q : Text) :
    (∃ k, segs (Path.parent_or_empty (cSlash :: q)) = List.replicate k segDot ++ (segs (cSlash :: q)).dropLast) ∧
      isAbs (Path.parent_or_empty (cSlash :: q)) = true :=
  ⟨(Lemmas.parent_segs q).1, (Lemmas.parent_segs q).2.1⟩

end IrefVerif.Props.C12
