import IrefVerif.Lemmas.Order
import IrefVerif.Lemmas.PctBytes
import IrefVerif.Lemmas.IriBytes
import IrefVerif.Props.Valid

/-!
# C08 — `Eq`, `Ord` and `Hash` agree with each other

For the percent-encoded component types the model compares, orders and hashes the decoded
octets (`Model/Cmp.lean`).  Proved: the order is total, antisymmetric and transitive, its
`equal` outcome is exactly equality, and the hash trace is a function of the decoded octets, so
equal values hash identically.  Owned values forward to borrowed ones (the same model function);
a URI/IRI hashes as the same text seen as a reference by definition of `fullHash`.
Struct level: for every pair of valid references (either family, octet level) the model of `cmp`
is `keyC (key a) (key b)` for a *lawful* total order `keyC` on normal-form keys
(`Lex.LawfulCmp`: `equal` ⇔ identical keys, antisymmetric, transitive), the model of `hash` is
`keyH (key a)`, and `==` is `key a = key b` (C07).  Hence: total order, `equal` ⇔ `==`, equal
values hash identically; and a URI/IRI compares, orders and hashes exactly like the same text
seen as a reference (`full_as_ref`), which is what the `Borrow` impls need.
Agreement of the model with the real crate, and the `Borrow`-based lookups in real collections,
are checked by the `cmp`/`views` streams.
-/

namespace IrefVerif.Props.C08
open IrefVerif IrefVerif.Spec IrefVerif.Model.Cmp IrefVerif.Lemmas IrefVerif.Lex

/-- `equal` outcome of the ordering ⇔ equality -/
theorem cmp_eq_iff_eq (a b : Text) (ha : wellEscaped a = true) (hb : wellEscaped b = true) :
    pctCmp a b = some .eq ↔ pctEq a b = some true := by
  rw [pctCmp_eq a b ha hb, pctEq_eq a b ha hb]
  simp [bytesCmp_eq_iff]

/-- the ordering is antisymmetric: swapping the operands swaps the outcome -/
theorem cmp_swap (a b : Text) (ha : wellEscaped a = true) (hb : wellEscaped b = true) :
    pctCmp b a = (pctCmp a b).map Ordering.swap := by
  rw [pctCmp_eq a b ha hb, pctCmp_eq b a hb ha, bytesCmp_swap (pctDecode a) (pctDecode b)]
  rfl

/-- … and transitive -/
theorem cmp_trans (a b c : Text) (ha : wellEscaped a = true) (hb : wellEscaped b = true)
    (hc : wellEscaped c = true) (h1 : pctCmp a b = some .lt) (h2 : pctCmp b c = some .lt) :
    pctCmp a c = some .lt := by
  rw [pctCmp_eq _ _ ha hb] at h1
  rw [pctCmp_eq _ _ hb hc] at h2
  rw [pctCmp_eq _ _ ha hc]
  injection h1 with h1; injection h2 with h2
  rw [bytesCmp_lt_trans _ _ _ h1 h2]

/-- comparison never panics on well-escaped (in particular: valid) components -/
theorem cmp_total (a b : Text) (ha : wellEscaped a = true) (hb : wellEscaped b = true) :
    (pctCmp a b).isSome ∧ (pctEq a b).isSome := by
  rw [pctCmp_eq a b ha hb, pctEq_eq a b ha hb]; simp

/-- **equal values hash identically** -/
theorem eq_hash (a b : Text) (ha : wellEscaped a = true) (hb : wellEscaped b = true)
    (h : pctEq a b = some true) : pctHash a = pctHash b := by
  rw [pctEq_eq a b ha hb] at h
  have : pctDecode a = pctDecode b := by simpa using h
  rw [pctHash_eq a ha, pctHash_eq b hb, this]

/-- a URI/IRI and the same text seen as a reference hash identically (lawful `Borrow`) -/
theorem full_hash_eq_ref_hash (w : Text) : fullHash w = refHash w := rfl

/-- literal types (`Scheme`, `Port`): the byte order is total with `equal` ⇔ identical -/
theorem bytes_cmp_eq_iff (a b : Text) : bytesCmp a b = .eq ↔ a = b := bytesCmp_eq_iff a b

/-! ## whole references and full URIs/IRIs -/

/-- the order on keys is a total order -/
theorem key_order_lawful : LawfulCmp keyC := lawful_keyC

/-- **`cmp` on references is that order on their keys; it never panics** -/
theorem ref_cmp (G : Grammar) (ok : Grammar.Ok G) (oka : Grammar.OkAuth G) (we : Grammar.OkWE G)
    (a b : Text) (ha : RE.Matches G.reference a) (hb : RE.Matches G.reference b) :
    refCmp a b = some (keyC (key a) (key b)) := refCmp_eq_key G ok oka we a b ha hb

/-- **`equal` outcome of the ordering ⇔ `==`** -/
theorem ref_cmp_eq_iff_eq (G : Grammar) (ok : Grammar.Ok G) (oka : Grammar.OkAuth G) (we : Grammar.OkWE G)
    (a b : Text) (ha : RE.Matches G.reference a) (hb : RE.Matches G.reference b) :
    refCmp a b = some .eq ↔ refEq a b = some true := by
  rw [ref_cmp G ok oka we a b ha hb, refEq_eq_key G ok oka we a b ha hb]
  simp [lawful_keyC.eq_iff]

/-- antisymmetry -/
theorem ref_cmp_swap (G : Grammar) (ok : Grammar.Ok G) (oka : Grammar.OkAuth G) (we : Grammar.OkWE G)
    (a b : Text) (ha : RE.Matches G.reference a) (hb : RE.Matches G.reference b) :
    refCmp b a = (refCmp a b).map Ordering.swap := by
  rw [ref_cmp G ok oka we a b ha hb, ref_cmp G ok oka we b a hb ha, lawful_keyC.swap]
  rfl

/-- transitivity -/
theorem ref_cmp_trans (G : Grammar) (ok : Grammar.Ok G) (oka : Grammar.OkAuth G) (we : Grammar.OkWE G)
    (a b c : Text) (ha : RE.Matches G.reference a) (hb : RE.Matches G.reference b)
    (hc : RE.Matches G.reference c) (h1 : refCmp a b = some .lt) (h2 : refCmp b c = some .lt) :
    refCmp a c = some .lt := by
  rw [ref_cmp G ok oka we a b ha hb] at h1
  rw [ref_cmp G ok oka we b c hb hc] at h2
  rw [ref_cmp G ok oka we a c ha hc]
  injection h1 with h1; injection h2 with h2
  rw [lawful_keyC.lt_trans _ _ _ h1 h2]

/-- **equal values hash identically** -/
theorem ref_eq_hash (G : Grammar) (ok : Grammar.Ok G) (oka : Grammar.OkAuth G) (we : Grammar.OkWE G)
    (a b : Text) (ha : RE.Matches G.reference a) (hb : RE.Matches G.reference b)
    (h : refEq a b = some true) : refHash a = refHash b := by
  rw [refEq_eq_key G ok oka we a b ha hb] at h
  have e : key a = key b := by simpa using h
  rw [refHash_eq_key G ok oka we a ha, refHash_eq_key G ok oka we b hb, e]

/-- hashing never panics -/
theorem ref_hash_total (G : Grammar) (ok : Grammar.Ok G) (oka : Grammar.OkAuth G) (we : Grammar.OkWE G)
    (a : Text) (ha : RE.Matches G.reference a) : (refHash a).isSome := by
  rw [refHash_eq_key G ok oka we a ha]; rfl

/-- **a URI/IRI compares, orders and hashes exactly like the same text seen as a reference** -/
theorem full_as_ref (G : Grammar) (ok : Grammar.Ok G) (a b : Text)
    (ha : RE.Matches G.full a) (hb : RE.Matches G.full b) :
    fullEq a b = refEq a b ∧ fullCmp a b = refCmp a b ∧ fullHash a = refHash a := by
  unfold fullEq fullCmp refEq refCmp
  rw [fullParts_eq_refParts a (fdc_of_full G ok a ha), fullParts_eq_refParts b (fdc_of_full G ok b hb)]
  exact ⟨rfl, rfl, rfl⟩

/-- end to end, for the values the constructors accept (URI family; octets) -/
theorem uriRef_ord_hash (a b : Text) (ha8 : ∀ c ∈ a, c < 256) (hb8 : ∀ c ∈ b, c < 256)
    (ha : accepts .uriRef a = true) (hb : accepts .uriRef b = true) :
    refCmp a b = some (keyC (key a) (key b)) ∧ refHash a = some (keyH (key a)) ∧
    (refCmp a b = some .eq ↔ refEq a b = some true) :=
  have va := Valid.uriRef_octets a ha8 ha
  have vb := Valid.uriRef_octets b hb8 hb
  ⟨ref_cmp uriG uriG_ok uriG_okAuth uriG_okWE a b va vb,
   refHash_eq_key uriG uriG_ok uriG_okAuth uriG_okWE a va,
   ref_cmp_eq_iff_eq uriG uriG_ok uriG_okAuth uriG_okWE a b va vb⟩

/-- … IRI family: octets whose UTF-8 decoding is a word of RFC 3987 -/
theorem iriRef_ord_hash (a b : Text) (ha8 : ∀ c ∈ a, c < 256) (hb8 : ∀ c ∈ b, c < 256)
    (ha : accepts .iriRef a = true) (hb : accepts .iriRef b = true) :
    refCmp a b = some (keyC (key a) (key b)) ∧ refHash a = some (keyH (key a)) ∧
    (refCmp a b = some .eq ↔ refEq a b = some true) :=
  have va := Valid.iriRef_octets a ha8 ha
  have vb := Valid.iriRef_octets b hb8 hb
  ⟨ref_cmp iriGB iriGB_ok iriGB_okAuth iriGB_okWE a b va vb,
   refHash_eq_key iriGB iriGB_ok iriGB_okAuth iriGB_okWE a va,
   ref_cmp_eq_iff_eq iriGB iriGB_ok iriGB_okAuth iriGB_okWE a b va vb⟩

example : refCmp [0x61, 0x2F, 0x62] [0x61, 0x2F, 0x25, 0x36, 0x32] = some .eq := by decide
example : pctEq [0x25, 0x34, 0x31] [0x41] = some true := by decide
example : pctCmp [0x25, 0x46, 0x46] [0x25, 0x46, 0x46] = some .eq := by decide
example : wellEscaped [0x25, 0x46, 0x46] = true := by decide

end IrefVerif.Props.C08
