import IrefVerif.Lemmas.Order
import IrefVerif.Lemmas.PctBytes

/-!
# C08 — `Eq`, `Ord` and `Hash` agree with each other

For the percent-encoded component types the model compares, orders and hashes the decoded
octets (`Model/Cmp.lean`).  Proved: the order is total, antisymmetric and transitive, its
`equal` outcome is exactly equality, and the hash trace is a function of the decoded octets, so
equal values hash identically.  Owned values forward to borrowed ones (the same model function);
a URI/IRI hashes as the same text seen as a reference by definition of `fullHash`.
The derived struct impls (`…Parts`) are lexicographic combinations of these; their agreement
with the real crate, and the `Borrow`-based lookups, are checked by the `cmp`/`views` streams.
-/

namespace IrefVerif.Props.C08
open IrefVerif IrefVerif.Spec IrefVerif.Model.Cmp IrefVerif.Lemmas

/-- `equal` outcome of the ordering ⇔ equality -/
theorem cmp_eq_iff_eq (a b : Text) (ha : wellEscaped a = true) (hb : wellEscaped b = true) :
    pctCmp a b = some .eq ↔ pctEq a b = some true := by
  rw [pctCmp_eq a b ha hb, pctEq_eq a b ha hb]
  simp [bytesCmp_eq_iff]

/-- the ordering is antisymmetric: swapping the operands swaps the outcome -/
theorem cmp_swap (a b : Text) (ha : wellEscaped a = true) (hb : wellEscaped b = true) :
    pctCmp b a = (pctCmp a b).map Ordering.swap := by
  rw [pctCmp_eq a b ha hb, pctCmp_eq b a hb ha, bytesCmp_swap (pctDecode a) (pctDecode b)]
  rfl

/-- … and transitive -/
theorem cmp_trans (a b c : Text) (ha : wellEscaped a = true) (hb : wellEscaped b = true)
    (hc : wellEscaped c = true) (h1 : pctCmp a b = some .lt) (h2 : pctCmp b c = some .lt) :
    pctCmp a c = some .lt := by
  rw [pctCmp_eq _ _ ha hb] at h1
  rw [pctCmp_eq _ _ hb hc] at h2
  rw [pctCmp_eq _ _ ha hc]
  injection h1 with h1; injection h2 with h2
  rw [bytesCmp_lt_trans _ _ _ h1 h2]

/-- comparison never panics on well-escaped (in particular: valid) components -/
theorem cmp_total (a b : Text) (ha : wellEscaped a = true) (hb : wellEscaped b = true) :
    (pctCmp a b).isSome ∧ (pctEq a b).isSome := by
  rw [pctCmp_eq a b ha hb, pctEq_eq a b ha hb]; simp

/-- **equal values hash identically** -/
theorem eq_hash (a b : Text) (ha : wellEscaped a = true) (hb : wellEscaped b = true)
    (h : pctEq a b = some true) : pctHash a = pctHash b := by
  rw [pctEq_eq a b ha hb] at h
  have : pctDecode a = pctDecode b := by simpa using h
  rw [pctHash_eq a ha, pctHash_eq b hb, this]

/-- a URI/IRI and the same text seen as a reference hash identically (lawful `Borrow`) -/
theorem full_hash_eq_ref_hash (w : Text) : fullHash w = refHash w := rfl

/-- literal types (`Scheme`, `Port`): the byte order is total with `equal` ⇔ identical -/
theorem bytes_cmp_eq_iff (a b : Text) : bytesCmp a b = .eq ↔ a = b := bytesCmp_eq_iff a b

example : pctEq [0x25, 0x34, 0x31] [0x41] = some true := by decide
example : pctCmp [0x25, 0x46, 0x46] [0x25, 0x46, 0x46] = some .eq := by decide
example : wellEscaped [0x25, 0x46, 0x46] = true := by decide

end IrefVerif.Props.C08
