import IrefVerif.Lemmas.DataUrl
import IrefVerif.Model.Ctor

/-!
# C18 — data URL views are coherent and reassemble the original

Model: `Model/DataUrl.lean` (`DataUrlDelimiters::parse`, the offset-based accessors of
`DataUrlBuf`, the re-scanning accessors of `DataUrl`, RFC 4648 decoding).  Both constructors
run the checked URI constructor and then the same `parse` (so they accept the same texts, and
only valid URIs).  Proved for every accepted text: media type, base64 flag and data reassemble
the original; the borrowed accessors — whose Rust `loop {}` has no exit other than finding the
delimiter — terminate and return exactly what the offsets give (the termination argument *is*
the theorem: `parse` has shown the delimiter exists).  `base64::STANDARD` is specified by
`b64Decode`; that the crate agrees with it is the `dataurl` stream.
-/

namespace IrefVerif.Props.C18
open IrefVerif IrefVerif.Spec IrefVerif.Model.DataUrl IrefVerif.Lemmas

/-- the model of both constructors: a valid URI that `parse` accepts -/
def accept (url : Text) : Option Delimiters := if accepts .uri url then parse url else none

/-- accepted only if a valid URI -/
theorem accept_is_uri (url : Text) (d : Delimiters) (h : accept url = some d) : accepts .uri url = true := by
  unfold accept at h; split at h
  · assumption
  · cases h

/-- accepted only if it starts with `data:` -/
theorem accept_prefix (url : Text) (d : Delimiters) (h : accept url = some d) :
    ∃ suffix, url = dataPrefix ++ suffix := by
  unfold accept at h; split at h
  · obtain ⟨s, hs, _⟩ := parse_shape url d h; exact ⟨s, hs⟩
  · cases h

/-- **reassembly** -/
theorem reassembles (url : Text) (d : Delimiters) (h : parse url = some d) :
    dataPrefix ++ (url.take d.media_type_end).drop 5 ++ (if d.base_64 then semiBase64 else []) ++
      cComma :: ownedData d url = url := reassemble url d h

/-- **borrowed = owned**, and the borrowed scans terminate -/
theorem views_agree (url : Text) (d : Delimiters) (h : parse url = some d) :
    borrowedMediaType url = some (ownedMediaType d url) ∧
    borrowedIsBase64 url = some d.base_64 ∧
    borrowedData url = some (ownedData d url) := borrowed_eq_owned url d h

/-- the media type contains no delimiter -/
theorem media_type_chars (url : Text) (d : Delimiters) (h : parse url = some d) :
    ∀ c ∈ (url.take d.media_type_end).drop 5, isMediaTypeChar c = true := by
  obtain ⟨suffix, hurl, sh⟩ := parse_shape url d h
  have : (url.take d.media_type_end).drop 5 = suffix.take (d.media_type_end - 5) := by
    rw [hurl, List.drop_take, drop5_prefix]
  rw [this]; exact sh.mtChars

/-- decoded data: the data bytes themselves unless flagged base64 -/
theorem decoded_plain (data : Text) : decoded false data = some data := rfl
theorem decoded_b64 (data : Text) : decoded true data = b64Decode data := rfl

/-- `data:text/plain;base64,SGk=` -/
example : parse [0x64,0x61,0x74,0x61,0x3A,0x61,0x3B,0x62,0x61,0x73,0x65,0x36,0x34,0x2C,0x53,0x47,0x6B,0x3D]
    = some { media_type_end := 6, base_64 := true, data_start := 14 } := by decide
example : b64Decode [0x53, 0x47, 0x6B, 0x3D] = some [0x48, 0x69] := by decide
example : b64Decode [0x53, 0x47, 0x6C, 0x3D] = none := by decide   -- non-zero trailing bits

end IrefVerif.Props.C18
