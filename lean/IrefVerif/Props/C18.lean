import IrefVerif.Lemmas.DataUrl
import IrefVerif.Lemmas.DataUrlComplete
import IrefVerif.Model.Ctor

/-!
# C18 — data URL views are coherent and reassemble the original

Model: `Model/DataUrl.lean` (`DataUrlDelimiters::parse`, the offset-based accessors of
`DataUrlBuf`, the re-scanning accessors of `DataUrl`, RFC 4648 decoding).  Both constructors
run the checked URI constructor and then the same `parse` (so they accept the same texts, and
only valid URIs).  Proved for every accepted text: media type, base64 flag and data reassemble
the original; the borrowed accessors — whose Rust `loop {}` has no exit other than finding the
delimiter — terminate and return exactly what the offsets give (the termination argument *is*
the theorem: `parse` has shown the delimiter exists).  `base64::STANDARD` is specified by
`b64Decode`; that the crate agrees with it is the `dataurl` stream.
Both directions of "accepted iff a valid URI of the shape": `accept_iff_shape` (the scanner rejects
no text of the shape — `parse_complete` — and accepts nothing else), with the offsets determined by
the shape (`accept_offsets`).  The decoder specification is a left inverse of RFC 4648 encoding on
every octet string (`decoded_encoded`): it rejects no canonical encoding and every octet string
is the decoded data of some data part.
-/

namespace IrefVerif.Props.C18
open IrefVerif IrefVerif.Spec IrefVerif.Model.DataUrl IrefVerif.Lemmas

/-- the model of both constructors: a valid URI that `parse` accepts -/
def accept (url : Text) : Option Delimiters := if accepts .uri url then parse url else none

/-- accepted only if a valid URI -/
theorem accept_is_uri (url : Text) (d : Delimiters) (h : accept url = some d) : accepts .uri url = true := by
  unfold accept at h; split at h
  · assumption
  · cases h

/-- accepted only if it starts with `data:` -/
theorem accept_prefix (url : Text) (d : Delimiters) (h : accept url = some d) :
    ∃ suffix, url = dataPrefix ++ suffix := by
  unfold accept at h; split at h
  · obtain ⟨s, hs, _⟩ := parse_shape url d h; exact ⟨s, hs⟩
  · cases h

/-- **reassembly** -/
theorem reassembles (url : Text) (d : Delimiters) (h : parse url = some d) :
    dataPrefix ++ (url.take d.media_type_end).drop 5 ++ (if d.base_64 then semiBase64 else []) ++
      cComma :: ownedData d url = url := reassemble url d h

/-- **borrowed = owned**, and the borrowed scans terminate -/
theorem views_agree (url : Text) (d : Delimiters) (h : parse url = some d) :
    borrowedMediaType url = some (ownedMediaType d url) ∧
    borrowedIsBase64 url = some d.base_64 ∧
    borrowedData url = some (ownedData d url) := borrowed_eq_owned url d h

/-- the media type contains no delimiter -/
theorem media_type_chars (url : Text) (d : Delimiters) (h : parse url = some d) :
    ∀ c ∈ (url.take d.media_type_end).drop 5, isMediaTypeChar c = true := by
  obtain ⟨suffix, hurl, sh⟩ := parse_shape url d h
  have : (url.take d.media_type_end).drop 5 = suffix.take (d.media_type_end - 5) := by
    rw [hurl, List.drop_take, drop5_prefix]
  rw [this]; exact sh.mtChars

/-- decoded data: the data bytes themselves unless flagged base64 -/
theorem decoded_plain (data : Text) : decoded false data = some data := rfl
theorem decoded_b64 (data : Text) : decoded true data = b64Decode data := rfl

/-- **completeness of acceptance, with the offsets of the shape**: a valid URI of the shape
`data:` media-type [`;base64`] `,` data is accepted, the cached offsets are the ends of the media
type and of the delimiter -/
theorem accept_offsets (mt data : Text) (b : Bool) (hmt : ∀ c ∈ mt, isMediaTypeChar c = true)
    (hu : accepts .uri (dataPrefix ++ mt ++ (if b then semiBase64 else []) ++ cComma :: data) = true) :
    accept (dataPrefix ++ mt ++ (if b then semiBase64 else []) ++ cComma :: data) =
      some { media_type_end := 5 + mt.length, base_64 := b,
             data_start := 5 + mt.length + (if b then 7 else 0) + 1 } := by
  unfold accept
  rw [if_pos hu]
  exact parse_complete mt data b hmt

/-- **accepted iff a valid URI of the data-URL shape** -/
theorem accept_iff_shape (url : Text) :
    (accept url).isSome = true ↔
      accepts .uri url = true ∧ ∃ (mt data : Text) (b : Bool), (∀ c ∈ mt, isMediaTypeChar c = true) ∧
        url = dataPrefix ++ mt ++ (if b then semiBase64 else []) ++ cComma :: data := by
  constructor
  · intro h
    obtain ⟨d, hd⟩ := Option.isSome_iff_exists.mp h
    have hu := accept_is_uri url d hd
    have hp : parse url = some d := by
      unfold accept at hd; rw [if_pos hu] at hd; exact hd
    exact ⟨hu, (url.take d.media_type_end).drop 5, ownedData d url, d.base_64,
      media_type_chars url d hp, (reassembles url d hp).symm⟩
  · rintro ⟨hu, mt, data, b, hmt, rfl⟩
    rw [accept_offsets mt data b hmt hu]; rfl

/-- **the views of an accepted text of the shape are its parts**: media type, flag and data read
through the cached offsets are the `mt`, `b`, `data` the text was written from -/
theorem views_of_shape (mt data : Text) (b : Bool) (hmt : ∀ c ∈ mt, isMediaTypeChar c = true) :
    ∃ d, parse (dataPrefix ++ mt ++ (if b then semiBase64 else []) ++ cComma :: data) = some d ∧
      d.base_64 = b ∧
      ownedMediaType d (dataPrefix ++ mt ++ (if b then semiBase64 else []) ++ cComma :: data) = nonEmpty mt ∧
      ownedData d (dataPrefix ++ mt ++ (if b then semiBase64 else []) ++ cComma :: data) = data := by
  refine ⟨_, parse_complete mt data b hmt, rfl, ?_, ?_⟩
  · unfold ownedMediaType
    congr 1
    have : ((dataPrefix ++ mt) ++ ((if b then semiBase64 else []) ++ cComma :: data)).take (5 + mt.length) =
        dataPrefix ++ mt := List.take_left' (by simp [dataPrefix]; omega)
    simp only [List.append_assoc] at this ⊢
    rw [this]
    simp [dataPrefix]
  · unfold ownedData
    cases b with
    | false =>
      have : ((dataPrefix ++ mt ++ [cComma]) ++ data).drop (5 + mt.length + 0 + 1) = data :=
        List.drop_left' (by simp [dataPrefix]; omega)
      simpa using this
    | true =>
      have : ((dataPrefix ++ mt ++ semiBase64 ++ [cComma]) ++ data).drop (5 + mt.length + 7 + 1) = data :=
        List.drop_left' (by simp [dataPrefix, semiBase64]; omega)
      simpa using this

/-- **decoding inverts RFC 4648 encoding** on every octet string -/
theorem decoded_encoded (l : List Nat) (h : ∀ b ∈ l, b < 256) : decoded true (b64Encode l) = some l :=
  b64Decode_encode l h

/-- `data:text/plain;base64,SGk=` -/
example : parse [0x64,0x61,0x74,0x61,0x3A,0x61,0x3B,0x62,0x61,0x73,0x65,0x36,0x34,0x2C,0x53,0x47,0x6B,0x3D]
    = some { media_type_end := 6, base_64 := true, data_start := 14 } := by decide
example : b64Decode [0x53, 0x47, 0x6B, 0x3D] = some [0x48, 0x69] := by decide
example : b64Encode [0x48, 0x69] = [0x53, 0x47, 0x6B, 0x3D] := by decide
example : b64Decode [0x53, 0x47, 0x6C, 0x3D] = none := by decide   -- non-zero trailing bits

end IrefVerif.Props.C18
