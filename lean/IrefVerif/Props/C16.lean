import IrefVerif.Oracle
import IrefVerif.Lemmas.Split

/-!
# C16 — suffix and base extraction

Specification level.  `Oracle.pathSuffixSpec` states when a suffix exists (same absoluteness,
the prefix's normalised segments lead the value's, compared after percent-decoding) and what
it is (the remaining normalised segments).  Proved: the suffix, appended to the prefix's
normalised segments, gives the value's normalised segments up to percent-decoding; no suffix
exists across absolute/relative.  `Oracle.baseSpec` is the text up to and including the last
`/` of the path: a prefix of the value's text without query or fragment.  The implementation
(`PathImpl::suffix`, `RiRefImpl::suffix`, `RiRefImpl::base`) is compared with its model and
judged by these specifications in the `suffix` stream.
-/

namespace IrefVerif.Props.C16
open IrefVerif IrefVerif.Spec IrefVerif.Oracle

/-- **reconstruction**: prefix segments followed by the suffix are the value's segments
(after percent-decoding, which is how segments are compared) -/
theorem suffix_reconstruct (v p : Text) (s : List Text) (h : pathSuffixSpec v p = some s) :
    (nsegs p).map pctDecode ++ s.map pctDecode = (nsegs v).map pctDecode := by
  unfold pathSuffixSpec at h
  split at h
  · rename_i hc
    injection h with h
    subst h
    simp only [Bool.and_eq_true, isPrefixDecoded, decide_eq_true_eq, beq_iff_eq] at hc
    obtain ⟨_, _, hpre⟩ := hc
    rw [hpre, ← List.map_append, List.take_append_drop]
  · cases h

/-- a suffix exists only between two absolute or two relative paths -/
theorem suffix_same_absoluteness (v p : Text) (s : List Text) (h : pathSuffixSpec v p = some s) :
    isAbs v = isAbs p := by
  unfold pathSuffixSpec at h
  split at h
  · rename_i hc
    simp only [Bool.and_eq_true, beq_iff_eq] at hc
    exact hc.1
  · cases h

/-- every path is its own prefix, with the empty suffix -/
theorem suffix_self (v : Text) : pathSuffixSpec v v = some [] := by
  simp [pathSuffixSpec, isPrefixDecoded]

/-- the base carries neither query nor fragment, and keeps scheme and authority -/
theorem base_components (x : Text) :
    baseSpec x = recompose { split x with path := upToLastSlash (split x).path, query := none, fragment := none } := rfl

example : baseSpec [0x73, 0x3A, 0x2F, 0x61, 0x2F, 0x62, 0x3F, 0x71] = [0x73, 0x3A, 0x2F, 0x61, 0x2F] := by decide
example : pathSuffixSpec [0x2F, 0x61, 0x2F, 0x62] [0x2F, 0x25, 0x36, 0x31] = some [[0x62]] := by decide
example : pathSuffixSpec [0x61] [0x2F, 0x61] = none := by decide

end IrefVerif.Props.C16
