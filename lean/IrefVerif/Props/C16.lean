import IrefVerif.Oracle
import IrefVerif.Lemmas.Split
import IrefVerif.Lemmas.RefSuffix
import IrefVerif.Lemmas.BaseModel
import IrefVerif.Lemmas.IriBytes
import IrefVerif.Props.Valid

/-!
# C16 — suffix and base extraction

Specification level.  `Oracle.pathSuffixSpec` states when a suffix exists (same absoluteness,
the prefix's normalised segments lead the value's, compared after percent-decoding) and what
it is (the remaining normalised segments).  Proved: the suffix, appended to the prefix's
normalised segments, gives the value's normalised segments up to percent-decoding; no suffix
exists across absolute/relative; conversely a suffix always exists for a decoded prefix of equal
absoluteness (`suffix_complete`, `suffix_isSome_iff`); the relation is reflexive, transitive with
concatenated suffixes and antisymmetric up to decoding.  `Oracle.baseSpec` is the text up to and including the last
`/` of the path: a prefix of the value's text without query or fragment.
Model level: the models of `PathImpl::suffix` and `RiRefImpl::suffix` never panic on valid
values and answer exactly what the specification says — no suffix when absoluteness, scheme or
authority (user info and host compared after percent-decoding, port literally) differ or the
prefix's normalised segments do not lead the value's; otherwise the remaining segments pushed
onto an empty path, with the value's own query and fragment (`path_suffix_model`,
`ref_suffix_model`, end to end `uri_suffix` / `iri_suffix`).  `base` is compared with its model
and judged by `baseSpec` in the `suffix` stream.
-/

namespace IrefVerif.Props.C16
open IrefVerif IrefVerif.Spec IrefVerif.Oracle IrefVerif.Lemmas IrefVerif.Model

/-- **reconstruction**: prefix segments followed by the suffix are the value's segments
(after percent-decoding, which is how segments are compared) -/
theorem suffix_reconstruct (v p : Text) (s : List Text) (h : pathSuffixSpec v p = some s) :
    (nsegs p).map pctDecode ++ s.map pctDecode = (nsegs v).map pctDecode := by
  unfold pathSuffixSpec at h
  split at h
  · rename_i hc
    injection h with h
    subst h
    simp only [Bool.and_eq_true, isPrefixDecoded, decide_eq_true_eq, beq_iff_eq] at hc
    obtain ⟨_, _, hpre⟩ := hc
    rw [hpre, ← List.map_append, List.take_append_drop]
  · cases h

/-- a suffix exists only between two absolute or two relative paths -/
theorem suffix_same_absoluteness (v p : Text) (s : List Text) (h : pathSuffixSpec v p = some s) :
    isAbs v = isAbs p := by
  unfold pathSuffixSpec at h
  split at h
  · rename_i hc
    simp only [Bool.and_eq_true, beq_iff_eq] at hc
    exact hc.1
  · cases h

/-- every path is its own prefix, with the empty suffix -/
theorem suffix_self (v : Text) : pathSuffixSpec v v = some [] := by
  simp [pathSuffixSpec, isPrefixDecoded]

/-- **completeness** (the converse of `suffix_reconstruct`): whenever absoluteness agrees and the
value's decoded normalised segments begin with the prefix's, a suffix exists — `none` is never
answered for a genuine prefix -/
theorem suffix_complete (v p : Text) (r : List Text) (ha : isAbs v = isAbs p)
    (h : (nsegs p).map pctDecode ++ r = (nsegs v).map pctDecode) :
    (pathSuffixSpec v p).isSome = true := by
  have hl : (nsegs p).length ≤ (nsegs v).length := by
    have := congrArg List.length h
    simp only [List.length_append, List.length_map] at this
    omega
  have ht : ((nsegs v).take (nsegs p).length).map pctDecode = (nsegs p).map pctDecode := by
    rw [List.map_take, ← h, List.take_left' (by simp)]
  simp [pathSuffixSpec, isPrefixDecoded, ha, hl, ht]

/-- **a suffix exists exactly for decoded prefixes of equal absoluteness** -/
theorem suffix_isSome_iff (v p : Text) :
    (pathSuffixSpec v p).isSome = true ↔
      isAbs v = isAbs p ∧ ∃ r, (nsegs p).map pctDecode ++ r = (nsegs v).map pctDecode := by
  constructor
  · intro h
    obtain ⟨s, hs⟩ := Option.isSome_iff_exists.mp h
    exact ⟨suffix_same_absoluteness v p s hs, s.map pctDecode, suffix_reconstruct v p s hs⟩
  · rintro ⟨ha, r, hr⟩
    exact suffix_complete v p r ha hr

/-- **transitivity**: the suffix over a prefix of a prefix exists and is, up to percent-decoding,
the two suffixes one after the other -/
theorem suffix_trans (v p q : Text) (s t : List Text)
    (h1 : pathSuffixSpec v p = some s) (h2 : pathSuffixSpec p q = some t) :
    ∃ u, pathSuffixSpec v q = some u ∧ u.map pctDecode = t.map pctDecode ++ s.map pctDecode := by
  have r1 := suffix_reconstruct v p s h1
  have r2 := suffix_reconstruct p q t h2
  have a1 := suffix_same_absoluteness v p s h1
  have a2 := suffix_same_absoluteness p q t h2
  have hc := suffix_complete v q (t.map pctDecode ++ s.map pctDecode) (a1.trans a2)
    (by rw [← List.append_assoc, r2, r1])
  obtain ⟨u, hu⟩ := Option.isSome_iff_exists.mp hc
  refine ⟨u, hu, ?_⟩
  have r3 := suffix_reconstruct v q u hu
  rw [← r1, ← r2, List.append_assoc] at r3
  exact List.append_cancel_left r3

/-- **antisymmetry**: two paths that are prefixes of each other have the same decoded normalised
segments, and both suffixes are empty -/
theorem suffix_antisymm (v p : Text) (s t : List Text)
    (h1 : pathSuffixSpec v p = some s) (h2 : pathSuffixSpec p v = some t) :
    s = [] ∧ t = [] ∧ (nsegs v).map pctDecode = (nsegs p).map pctDecode := by
  have r1 := suffix_reconstruct v p s h1
  have r2 := suffix_reconstruct p v t h2
  have l1 := congrArg List.length r1
  have l2 := congrArg List.length r2
  simp only [List.length_append, List.length_map] at l1 l2
  have hs : s = [] := List.eq_nil_of_length_eq_zero (by omega)
  have ht : t = [] := List.eq_nil_of_length_eq_zero (by omega)
  subst hs
  refine ⟨rfl, ht, ?_⟩
  simpa using r1.symm

/-- the base carries neither query nor fragment, and keeps scheme and authority -/
theorem base_components (x : Text) :
    baseSpec x = recompose { split x with path := upToLastSlash (split x).path, query := none, fragment := none } := rfl

/-! ## the models of `suffix` -/

/-- **`Path::suffix` on the model = the specification** -/
theorem path_suffix_model (a p : Text) (ha : PathText a) (hp : PathText p)
    (wa : wellEscaped a = true) (wp : wellEscaped p = true) :
    Cmp.pathSuffix a p = some ((pathSuffixSpec a p).map (pushAllText [])) :=
  pathSuffix_spec a p ha hp wa wp

/-- **`Path::suffix` answers `Some` exactly for decoded prefixes of equal absoluteness**
(model level, every pair of valid paths) -/
theorem path_suffix_some_iff (a p : Text) (ha : PathText a) (hp : PathText p)
    (wa : wellEscaped a = true) (wp : wellEscaped p = true) :
    (∃ x, Cmp.pathSuffix a p = some (some x)) ↔
      isAbs a = isAbs p ∧ ∃ r, (nsegs p).map pctDecode ++ r = (nsegs a).map pctDecode := by
  rw [path_suffix_model a p ha hp wa wp, ← suffix_isSome_iff]
  cases pathSuffixSpec a p <;> simp

/-- **`suffix` of references on the model = the specification** (`refSuffixSpec`: identical
schemes, authorities equal up to percent-decoding, then the path suffix with the value's own query
and fragment) -/
theorem ref_suffix_model (G : Grammar) (ok : Grammar.Ok G) (oka : Grammar.OkAuth G) (we : Grammar.OkWE G)
    (a p : Text) (ha : RE.Matches G.reference a) (hp : RE.Matches G.reference p) :
    Ref.suffix a p = some (refSuffixSpec a p) :=
  ref_suffix_spec G ok oka we a p ha hp

theorem uri_suffix (a p : Text) (ha8 : ∀ c ∈ a, c < 256) (hp8 : ∀ c ∈ p, c < 256)
    (ha : accepts .uriRef a = true) (hp : accepts .uriRef p = true) :
    Ref.suffix a p = some (refSuffixSpec a p) :=
  ref_suffix_model uriG uriG_ok uriG_okAuth uriG_okWE a p (Valid.uriRef_octets a ha8 ha) (Valid.uriRef_octets p hp8 hp)

theorem iri_suffix (a p : Text) (ha8 : ∀ c ∈ a, c < 256) (hp8 : ∀ c ∈ p, c < 256)
    (ha : accepts .iriRef a = true) (hp : accepts .iriRef p = true) :
    Ref.suffix a p = some (refSuffixSpec a p) :=
  ref_suffix_model iriGB iriGB_ok iriGB_okAuth iriGB_okWE a p (Valid.iriRef_octets a ha8 ha) (Valid.iriRef_octets p hp8 hp)

/-! ## the model of `base` -/

/-- **`base` on the model = the specification**: for every reference of the grammar, the modelled
`base` (the text up to the end of `Path.directory`, found by scanning back to the last `/`) is
`baseSpec` — the reference's own scheme and authority, its path cut after the last `/` (empty
when there is none), no query, no fragment. -/
theorem base_model (G : Grammar) (ok : Grammar.Ok G) (x : Text) (hx : RE.Matches G.reference x) :
    Ref.base x = baseSpec x := by
  obtain ⟨_, wf⟩ := Lemmas.split_valid G ok x hx
  have h := Lemmas.base_recompose (split x) wf
  rw [Lemmas.recompose_split] at h
  exact h

/-- the directory scan is "up to and including the last `/`" for every text -/
theorem directory_model (p : Text) : Path.directory p = upToLastSlash p := Lemmas.directory_eq p

theorem uri_base (x : Text) (h8 : ∀ c ∈ x, c < 256) (hx : accepts .uriRef x = true) : Ref.base x = baseSpec x :=
  base_model uriG uriG_ok x (Valid.uriRef_octets x h8 hx)

theorem iri_base (x : Text) (h8 : ∀ c ∈ x, c < 256) (hx : accepts .iriRef x = true) : Ref.base x = baseSpec x :=
  base_model iriGB iriGB_ok x (Valid.iriRef_octets x h8 hx)

/-- the suffix exists exactly when the specification says so, and pushing nothing gives the empty path -/
example : pushAllText [] [] = [] := rfl
example : Cmp.pathSuffix [0x2F, 0x61, 0x2F, 0x62] [0x2F, 0x25, 0x36, 0x31] = some (some [0x62]) := by decide

example : baseSpec [0x73, 0x3A, 0x2F, 0x61, 0x2F, 0x62, 0x3F, 0x71] = [0x73, 0x3A, 0x2F, 0x61, 0x2F] := by decide
example : pathSuffixSpec [0x2F, 0x61, 0x2F, 0x62] [0x2F, 0x25, 0x36, 0x31] = some [[0x62]] := by decide
example : pathSuffixSpec [0x61] [0x2F, 0x61] = none := by decide
-- the hypotheses of `suffix_trans` are met by /a/b/c over /a/b over /%61
example : pathSuffixSpec [0x2F, 0x61, 0x2F, 0x62, 0x2F, 0x63] [0x2F, 0x61, 0x2F, 0x62] = some [[0x63]]
    ∧ pathSuffixSpec [0x2F, 0x61, 0x2F, 0x62] [0x2F, 0x25, 0x36, 0x31] = some [[0x62]] := by decide

end IrefVerif.Props.C16
