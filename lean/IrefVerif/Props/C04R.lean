import IrefVerif.Props.C04
import IrefVerif.Lemmas.ResolveTotal

/-!
# C04, continued — in-place resolution inside edit histories

`C04.edit_history` covers setters and the two handles.  The fourth way to mutate a buffer is
`resolve(&mut self, base)`.  With `Lemmas.resolve_total` (the model of `RiRefBufImpl::resolve`
never panics and leaves a valid full URI/IRI, in every branch) every finite interleaving of all
four keeps the buffer a valid reference — and, end to end, something the crate's own checked
constructor accepts again.
-/

namespace IrefVerif.Props.C04R
open IrefVerif IrefVerif.Spec IrefVerif.Lemmas

/-- an edit of C04, or an in-place resolution against a base -/
inductive EditR
  | edit (e : C04.Edit)
  | resolve (base : Text)

def EditR.Valid (G : Grammar) : EditR → Prop
  | .edit e => e.Valid G
  | .resolve base => RE.Matches G.full base

def stepR (w : Text) : EditR → Option Text
  | .edit e => C04.editStep w e
  | .resolve base => Model.Ref.resolve w base

def runR : Text → List EditR → Option Text
  | w, [] => some w
  | w, e :: es => match stepR w e with
    | some w' => runR w' es
    | none => none

theorem editR_step (G : Grammar) (ok : Grammar.Ok G) (okp : Grammar.OkPath G) (oka : Grammar.OkAuth G) (w : Text)
    (h : RE.Matches G.reference w) (e : EditR) (he : e.Valid G) :
    ∃ w', stepR w e = some w' ∧ RE.Matches G.reference w' := by
  cases e with
  | edit e => exact C04.edit_step G ok okp oka w h e he
  | resolve base =>
    obtain ⟨t, e, hv⟩ := resolve_total G ok okp base w he h
    exact ⟨t, e, RE.Matches.altL hv⟩

/-- **every interleaving of setter calls, path-handle sessions, authority-handle sessions and
in-place resolutions**, started from any valid reference: no panic, a valid reference at the end -/
theorem editR_history (G : Grammar) (ok : Grammar.Ok G) (okp : Grammar.OkPath G) (oka : Grammar.OkAuth G)
    (es : List EditR) (w : Text) (h : RE.Matches G.reference w) (hes : ∀ e ∈ es, e.Valid G) :
    ∃ w', runR w es = some w' ∧ RE.Matches G.reference w' := by
  induction es generalizing w with
  | nil => exact ⟨w, rfl, h⟩
  | cons e es ih =>
    obtain ⟨w1, h1, hv1⟩ := editR_step G ok okp oka w h e (hes e List.mem_cons_self)
    obtain ⟨w2, h2, hv2⟩ := ih w1 hv1 (fun o ho => hes o (List.mem_cons_of_mem _ ho))
    exact ⟨w2, by simp only [runR, h1, h2], hv2⟩

/-- closed loop, URI family -/
theorem uriRefBuf_history_accepted (es : List EditR) (w : Text) (hb : ∀ c ∈ w, c < 256)
    (h : accepts .uriRef w = true) (hes : ∀ e ∈ es, e.Valid uriG) :
    ∃ w', runR w es = some w' ∧ accepts .uriRef w' = true := by
  obtain ⟨w', e, hv⟩ := editR_history uriG uriG_ok uriG_okPath uriG_okAuth es w (Valid.uriRef_octets w hb h) hes
  exact ⟨w', e, Valid.uriRef_of_octets w' hv⟩

/-- closed loop, IRI family (the result is well-formed UTF-8 and an RFC 3987 `IRI-reference`) -/
theorem iriRefBuf_history_accepted (es : List EditR) (w : Text) (hb : ∀ c ∈ w, c < 256)
    (h : accepts .iriRef w = true) (hes : ∀ e ∈ es, e.Valid iriGB) :
    ∃ w', runR w es = some w' ∧ accepts .iriRef w' = true := by
  obtain ⟨w', e, hv⟩ := editR_history iriGB iriGB_ok iriGB_okPath iriGB_okAuth es w (Valid.iriRef_octets w hb h) hes
  exact ⟨w', e, Valid.iriRef_of_octets w' hv⟩

/-- non-vacuity: a path edit, a resolution and a setter in one history, run by the model -/
example : runR [0x2E, 0x2E, 0x2F, 0x67]
    [.edit (.path [.push [0x78]]), .resolve [0x73, 0x3A, 0x2F, 0x2F, 0x68, 0x2F, 0x61, 0x2F, 0x62],
     .edit (.set (.query (some [0x71])))]
    = some [0x73, 0x3A, 0x2F, 0x2F, 0x68, 0x2F, 0x67, 0x2F, 0x78, 0x3F, 0x71] := by decide

end IrefVerif.Props.C04R
