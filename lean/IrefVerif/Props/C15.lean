import IrefVerif.Model.Reference
import IrefVerif.Findings
import IrefVerif.Lemmas.RelativeTotal
import IrefVerif.Lemmas.RelativeRoundTrip
import IrefVerif.Lemmas.IriBytes
import IrefVerif.Props.Valid

/-!
# C15 — relativisation round-trips through resolution   (PARTIAL — open finding F12)

Full statement (not proved, and false of the code):
  `∀ a b valid, key (resolve (relative_to a b) b) = key a`.
`RiRefImpl::relative_to` lacks the branches this needs (authority present on one side only,
a path that is a proper prefix of the base's directory, the base's query, absolute against
relative paths, …): on the generated pairs roughly 40 % do not round-trip.  The class of failing
pairs is `Findings.f12` — by definition the pairs on which the *modelled* algorithm does not
round-trip — so what is proved below is the part of the statement that does hold: (i) for
every pair of valid references of either family the model of `relative_to` never panics and
returns a valid reference of the same family (`relative_to_total_valid_partial`: the authority
comparison and the common-prefix loop are total on well-escaped components, every `push`/`clear`
through `path_mut()` keeps the buffer valid by `C04.path_session`, query and fragment are set by
the setters of C04), the inputs being unchanged because the model is a pure function; and (ii)
the scheme-mismatch branch returns `a` itself; and (iii) **the round trip itself on the class the
function was written for** (`roundtrip_on_class_partial`): same scheme, equal authorities, absolute
paths (the base's may also be empty), a non-empty remainder of `a`'s normalised segments after the
common prefix with the base's directory, which does not begin with an empty segment unless that
common prefix is itself non-empty (and, when `a` has a query or a
fragment, the relative path must not coincide with the base's last segment — the one special case
of the code).  There `a.relative_to(b)` is
`../` for every remaining segment of the base's directory followed by that remainder
(`relative_to_on_class`), and resolving it against `b` gives a URI/IRI equal to `a`
(`Lemmas/RelativeRoundTrip.lean`, through `C06.resolve_relative_authority`).  The check judges the implementation with the
round-trip oracle on every generated pair, reports F12 as KNOWN-FINDING, and raises a
violation for any failing pair outside `f12` or any difference between model and
implementation.
-/

namespace IrefVerif.Props.C15
open IrefVerif IrefVerif.Spec IrefVerif.Model

/-- different schemes: the result is `a` itself (an absolute reference) — partial -/
theorem relative_to_scheme_mismatch_partial (a b : Text) (sa sb : Text)
    (ha : Ref.scheme_opt a = some sa) (hb : Ref.scheme_opt b = some sb) (hne : (sa != sb) = true) :
    Ref.relative_to a b = some a := by
  unfold Ref.relative_to
  simp [ha, hb, hne]

/-- **never panics, valid result** (the round trip itself is F12) — partial -/
theorem relative_to_total_valid_partial (G : Grammar) (ok : Lemmas.Grammar.Ok G) (okp : Lemmas.Grammar.OkPath G)
    (oka : Lemmas.Grammar.OkAuth G) (we : Lemmas.Grammar.OkWE G) (a b : Text)
    (ha : RE.Matches G.reference a) (hb : RE.Matches G.reference b) :
    ∃ r, Ref.relative_to a b = some r ∧ RE.Matches G.reference r :=
  Lemmas.relative_to_total G ok okp oka we a b ha hb

/-- end to end, URI family -/
theorem uri_relative_to_total_partial (a b : Text) (ha8 : ∀ c ∈ a, c < 256) (hb8 : ∀ c ∈ b, c < 256)
    (ha : accepts .uriRef a = true) (hb : accepts .uriRef b = true) :
    ∃ r, Ref.relative_to a b = some r ∧ RE.Matches uriG.reference r :=
  relative_to_total_valid_partial uriG Lemmas.uriG_ok Lemmas.uriG_okPath Lemmas.uriG_okAuth Lemmas.uriG_okWE a b
    (Valid.uriRef_octets a ha8 ha) (Valid.uriRef_octets b hb8 hb)

/-- … IRI family (octets) -/
theorem iri_relative_to_total_partial (a b : Text) (ha8 : ∀ c ∈ a, c < 256) (hb8 : ∀ c ∈ b, c < 256)
    (ha : accepts .iriRef a = true) (hb : accepts .iriRef b = true) :
    ∃ r, Ref.relative_to a b = some r ∧ RE.Matches Lemmas.iriGB.reference r :=
  relative_to_total_valid_partial Lemmas.iriGB Lemmas.iriGB_ok Lemmas.iriGB_okPath Lemmas.iriGB_okAuth Lemmas.iriGB_okWE a b
    (Valid.iriRef_octets a ha8 ha) (Valid.iriRef_octets b hb8 hb)

/-- … and the result is something the constructors of the same family accept -/
theorem uri_relative_to_accepted_partial (a b : Text) (ha8 : ∀ c ∈ a, c < 256) (hb8 : ∀ c ∈ b, c < 256)
    (ha : accepts .uriRef a = true) (hb : accepts .uriRef b = true) :
    ∃ r, Ref.relative_to a b = some r ∧ accepts .uriRef r = true := by
  obtain ⟨r, e, hv⟩ := uri_relative_to_total_partial a b ha8 hb8 ha hb
  exact ⟨r, e, Valid.uriRef_of_octets r hv⟩

theorem iri_relative_to_accepted_partial (a b : Text) (ha8 : ∀ c ∈ a, c < 256) (hb8 : ∀ c ∈ b, c < 256)
    (ha : accepts .iriRef a = true) (hb : accepts .iriRef b = true) :
    ∃ r, Ref.relative_to a b = some r ∧ accepts .iriRef r = true := by
  obtain ⟨r, e, hv⟩ := iri_relative_to_total_partial a b ha8 hb8 ha hb
  exact ⟨r, e, Valid.iriRef_of_octets r hv⟩

/-- **the round trip holds on the class** — partial (outside it: F12) -/
theorem roundtrip_on_class_partial (G : Grammar) (ok : Lemmas.Grammar.Ok G) (okp : Lemmas.Grammar.OkPath G)
    (oka : Lemmas.Grammar.OkAuth G) (we : Lemmas.Grammar.OkWE G) (a b aa ab : Text)
    (ha : RE.Matches G.full a) (hb : RE.Matches G.full b)
    (hsch : (split a).scheme = (split b).scheme)
    (haa : (split a).authority = some aa) (hab : (split b).authority = some ab) (hauth : authKey aa = authKey ab)
    (hpa : isAbs (split a).path = true) (hpb : isAbs (split b).path = true ∨ (split b).path = [])
    (hnsp : (((split a).query.isSome || (split a).fragment.isSome) &&
      some (Lemmas.renderRel
        (((Ref.dropCommon (nsegs (split a).path) (nsegs (Path.parent_or_empty (split b).path))).2.map fun _ => segDotDot) ++
          (Ref.dropCommon (nsegs (split a).path) (nsegs (Path.parent_or_empty (split b).path))).1))
        == Path.last (split b).path) = false)
    (hrem : (Ref.dropCommon (nsegs (split a).path) (nsegs (Path.parent_or_empty (split b).path))).1 ≠ [] ∧
      ((Ref.dropCommon (nsegs (split a).path) (nsegs (Path.parent_or_empty (split b).path))).2.length
          < (nsegs (Path.parent_or_empty (split b).path)).length ∨
        (Ref.dropCommon (nsegs (split a).path) (nsegs (Path.parent_or_empty (split b).path))).1.head? ≠ some [])) :
    ∃ r t, Ref.relative_to a b = some r ∧ Ref.resolve r b = some t ∧ key t = key a :=
  Lemmas.relative_roundtrip G ok okp oka we a b aa ab ha hb hsch haa hab hauth hpa hpb hnsp hrem

/-- … so the class is disjoint from the class recorded for the open finding F12 -/
theorem class_outside_f12 (G : Grammar) (ok : Lemmas.Grammar.Ok G) (okp : Lemmas.Grammar.OkPath G)
    (oka : Lemmas.Grammar.OkAuth G) (we : Lemmas.Grammar.OkWE G) (a b aa ab : Text)
    (ha : RE.Matches G.full a) (hb : RE.Matches G.full b)
    (hsch : (split a).scheme = (split b).scheme)
    (haa : (split a).authority = some aa) (hab : (split b).authority = some ab) (hauth : authKey aa = authKey ab)
    (hpa : isAbs (split a).path = true) (hpb : isAbs (split b).path = true ∨ (split b).path = [])
    (hnsp : (((split a).query.isSome || (split a).fragment.isSome) &&
      some (Lemmas.renderRel
        (((Ref.dropCommon (nsegs (split a).path) (nsegs (Path.parent_or_empty (split b).path))).2.map fun _ => segDotDot) ++
          (Ref.dropCommon (nsegs (split a).path) (nsegs (Path.parent_or_empty (split b).path))).1))
        == Path.last (split b).path) = false)
    (hrem : (Ref.dropCommon (nsegs (split a).path) (nsegs (Path.parent_or_empty (split b).path))).1 ≠ [] ∧
      ((Ref.dropCommon (nsegs (split a).path) (nsegs (Path.parent_or_empty (split b).path))).2.length
          < (nsegs (Path.parent_or_empty (split b).path)).length ∨
        (Ref.dropCommon (nsegs (split a).path) (nsegs (Path.parent_or_empty (split b).path))).1.head? ≠ some [])) :
    Findings.f12 a b = false := by
  obtain ⟨r, t, e1, e2, hk⟩ := roundtrip_on_class_partial G ok okp oka we a b aa ab ha hb hsch haa hab hauth hpa hpb hnsp hrem
  unfold Findings.f12
  simp [e1, e2, hk]

/-- what `relative_to` returns there -/
theorem relative_to_on_class (G : Grammar) (ok : Lemmas.Grammar.Ok G) (okp : Lemmas.Grammar.OkPath G)
    (oka : Lemmas.Grammar.OkAuth G) (we : Lemmas.Grammar.OkWE G) (a b aa ab : Text)
    (ha : RE.Matches G.reference a) (hb : RE.Matches G.reference b)
    (hsch : (split a).scheme = (split b).scheme)
    (haa : (split a).authority = some aa) (hab : (split b).authority = some ab) (hauth : authKey aa = authKey ab)
    (hpa : isAbs (split a).path = true) (hpb : isAbs (split b).path = true ∨ (split b).path = [])
    (hnsp : (((split a).query.isSome || (split a).fragment.isSome) &&
      some (Lemmas.renderRel
        (((Ref.dropCommon (nsegs (split a).path) (nsegs (Path.parent_or_empty (split b).path))).2.map fun _ => segDotDot) ++
          (Ref.dropCommon (nsegs (split a).path) (nsegs (Path.parent_or_empty (split b).path))).1))
        == Path.last (split b).path) = false) :
    Ref.relative_to a b = some (recompose (Lemmas.pathQF (Lemmas.renderRel
      (((Ref.dropCommon (nsegs (split a).path) (nsegs (Path.parent_or_empty (split b).path))).2.map fun _ => segDotDot) ++
        (Ref.dropCommon (nsegs (split a).path) (nsegs (Path.parent_or_empty (split b).path))).1))
      (split a).query (split a).fragment)) :=
  Lemmas.relative_to_explicit G ok okp oka we a b aa ab ha hb hsch haa hab hauth hpa hpb hnsp

/-- end to end, URI family: accepted `Uri`s in the class -/
theorem uri_roundtrip_on_class_partial (a b aa ab : Text) (ha8 : ∀ c ∈ a, c < 256) (hb8 : ∀ c ∈ b, c < 256)
    (ha : accepts .uri a = true) (hb : accepts .uri b = true)
    (hsch : (split a).scheme = (split b).scheme)
    (haa : (split a).authority = some aa) (hab : (split b).authority = some ab) (hauth : authKey aa = authKey ab)
    (hpa : isAbs (split a).path = true) (hpb : isAbs (split b).path = true ∨ (split b).path = [])
    (hnsp : (((split a).query.isSome || (split a).fragment.isSome) &&
      some (Lemmas.renderRel
        (((Ref.dropCommon (nsegs (split a).path) (nsegs (Path.parent_or_empty (split b).path))).2.map fun _ => segDotDot) ++
          (Ref.dropCommon (nsegs (split a).path) (nsegs (Path.parent_or_empty (split b).path))).1))
        == Path.last (split b).path) = false)
    (hrem : (Ref.dropCommon (nsegs (split a).path) (nsegs (Path.parent_or_empty (split b).path))).1 ≠ [] ∧
      ((Ref.dropCommon (nsegs (split a).path) (nsegs (Path.parent_or_empty (split b).path))).2.length
          < (nsegs (Path.parent_or_empty (split b).path)).length ∨
        (Ref.dropCommon (nsegs (split a).path) (nsegs (Path.parent_or_empty (split b).path))).1.head? ≠ some [])) :
    ∃ r t, Ref.relative_to a b = some r ∧ Ref.resolve r b = some t ∧ key t = key a :=
  roundtrip_on_class_partial uriG Lemmas.uriG_ok Lemmas.uriG_okPath Lemmas.uriG_okAuth Lemmas.uriG_okWE a b aa ab
    (Valid.uri_octets a ha8 ha) (Valid.uri_octets b hb8 hb) hsch haa hab hauth hpa hpb hnsp hrem

/-- … IRI family (octets) -/
theorem iri_roundtrip_on_class_partial (a b aa ab : Text) (ha8 : ∀ c ∈ a, c < 256) (hb8 : ∀ c ∈ b, c < 256)
    (ha : accepts .iri a = true) (hb : accepts .iri b = true)
    (hsch : (split a).scheme = (split b).scheme)
    (haa : (split a).authority = some aa) (hab : (split b).authority = some ab) (hauth : authKey aa = authKey ab)
    (hpa : isAbs (split a).path = true) (hpb : isAbs (split b).path = true ∨ (split b).path = [])
    (hnsp : (((split a).query.isSome || (split a).fragment.isSome) &&
      some (Lemmas.renderRel
        (((Ref.dropCommon (nsegs (split a).path) (nsegs (Path.parent_or_empty (split b).path))).2.map fun _ => segDotDot) ++
          (Ref.dropCommon (nsegs (split a).path) (nsegs (Path.parent_or_empty (split b).path))).1))
        == Path.last (split b).path) = false)
    (hrem : (Ref.dropCommon (nsegs (split a).path) (nsegs (Path.parent_or_empty (split b).path))).1 ≠ [] ∧
      ((Ref.dropCommon (nsegs (split a).path) (nsegs (Path.parent_or_empty (split b).path))).2.length
          < (nsegs (Path.parent_or_empty (split b).path)).length ∨
        (Ref.dropCommon (nsegs (split a).path) (nsegs (Path.parent_or_empty (split b).path))).1.head? ≠ some [])) :
    ∃ r t, Ref.relative_to a b = some r ∧ Ref.resolve r b = some t ∧ key t = key a :=
  roundtrip_on_class_partial Lemmas.iriGB Lemmas.iriGB_ok Lemmas.iriGB_okPath Lemmas.iriGB_okAuth Lemmas.iriGB_okWE
    a b aa ab (Valid.iri_octets a ha8 ha) (Valid.iri_octets b hb8 hb) hsch haa hab hauth hpa hpb hnsp hrem

/-- the hypotheses are satisfiable: `s://h/a/b/c#f` relative to `s://h/a/d/e` -/
example :
    let a : Text := [0x73,0x3A,0x2F,0x2F,0x68,0x2F,0x61,0x2F,0x62,0x2F,0x63,0x23,0x66]
    let b : Text := [0x73,0x3A,0x2F,0x2F,0x68,0x2F,0x61,0x2F,0x64,0x2F,0x65]
    (split a).scheme = (split b).scheme ∧ (split a).authority = some [0x68] ∧ (split b).authority = some [0x68] ∧
    isAbs (split a).path = true ∧ isAbs (split b).path = true ∧ (split a).fragment = some [0x66] ∧
    (Ref.dropCommon (nsegs (split a).path) (nsegs (Path.parent_or_empty (split b).path))).1 = [[0x62], [0x63]] ∧
    Ref.relative_to a b = some [0x2E,0x2E,0x2F,0x62,0x2F,0x63,0x23,0x66] := by decide

/-- the class contains a directory relative to a file in it: `s://h/a/` relative to `s://h/a/b` is `./` -/
example : Ref.relative_to [0x73,0x3A,0x2F,0x2F,0x68,0x2F,0x61,0x2F] [0x73,0x3A,0x2F,0x2F,0x68,0x2F,0x61,0x2F,0x62]
    = some [0x2E,0x2F] := by decide

/-- the class contains bases with an empty path: `s://h/a/b` relative to `s://h` is `a/b` -/
example : Ref.relative_to [0x73,0x3A,0x2F,0x2F,0x68,0x2F,0x61,0x2F,0x62] [0x73,0x3A,0x2F,0x2F,0x68]
    = some [0x61,0x2F,0x62] := by decide

/-- negative witnesses of F12 on the model (and, by correspondence, on the code) -/
example : Findings.f12 [0x73, 0x3A] [0x73, 0x3A, 0x2F, 0x2F, 0x68, 0x2F, 0x61] = true := by decide
example : Findings.f12 [0x73, 0x3A, 0x2F] [0x73, 0x3A, 0x2F, 0x61] = true := by decide
/-- and pairs of the documented examples that do round-trip -/
example : Findings.f12 [0x73, 0x3A, 0x2F, 0x2F, 0x68, 0x2F, 0x61, 0x2F, 0x62]
    [0x73, 0x3A, 0x2F, 0x2F, 0x68, 0x2F, 0x61, 0x2F, 0x63] = false := by decide

end IrefVerif.Props.C15
