import IrefVerif.Model.Reference
import IrefVerif.Findings

/-!
# C15 — relativisation round-trips through resolution   (PARTIAL — open finding F12)

Full statement (not proved, and false of the code):
  `∀ a b valid, key (resolve (relative_to a b) b) = key a`.
`RiRefImpl::relative_to` lacks the branches this needs (authority present on one side only,
a path that is a proper prefix of the base's directory, the base's query, absolute against
relative paths, …): on the generated pairs roughly 40 % do not round-trip.  The class of failing
pairs is `Findings.f12` — by definition the pairs on which the *modelled* algorithm does not
round-trip — so what is proved below is limited to (i) the algorithm is total on the model
when the compared components are well-escaped (no panic), through the first branch, and (ii)
the scheme-mismatch branch returns `a` itself.  The check judges the implementation with the
round-trip oracle on every generated pair, reports F12 as KNOWN-FINDING, and raises a
violation for any failing pair outside `f12` or any difference between model and
implementation.
-/

namespace IrefVerif.Props.C15
open IrefVerif IrefVerif.Spec IrefVerif.Model

/-- different schemes: the result is `a` itself (an absolute reference) — partial -/
theorem relative_to_scheme_mismatch_partial (a b : Text) (sa sb : Text)
    (ha : Ref.scheme_opt a = some sa) (hb : Ref.scheme_opt b = some sb) (hne : (sa != sb) = true) :
    Ref.relative_to a b = some a := by
  unfold Ref.relative_to
  simp [ha, hb, hne]

/-- negative witnesses of F12 on the model (and, by correspondence, on the code) -/
example : Findings.f12 [0x73, 0x3A] [0x73, 0x3A, 0x2F, 0x2F, 0x68, 0x2F, 0x61] = true := by decide
example : Findings.f12 [0x73, 0x3A, 0x2F] [0x73, 0x3A, 0x2F, 0x61] = true := by decide
/-- and pairs of the documented examples that do round-trip -/
example : Findings.f12 [0x73, 0x3A, 0x2F, 0x2F, 0x68, 0x2F, 0x61, 0x2F, 0x62]
    [0x73, 0x3A, 0x2F, 0x2F, 0x68, 0x2F, 0x61, 0x2F, 0x63] = false := by decide

end IrefVerif.Props.C15
