import IrefVerif.Model.Reference
import IrefVerif.Findings
import IrefVerif.Lemmas.RelativeTotal
import IrefVerif.Lemmas.RelativeRoundTrip
import IrefVerif.Lemmas.WholeRoundTrip
import IrefVerif.Lemmas.RelativeSameDoc
import IrefVerif.Lemmas.RelativeRootless
import IrefVerif.Lemmas.IriBytes
import IrefVerif.Props.Valid

/-!
# C15 — relativisation round-trips through resolution   (PARTIAL — what is left of F12)

Full statement: `∀ a b valid, key (resolve (relative_to a b) b) = key a`.
`RiRefImpl::relative_to` as found did not round-trip on roughly 40 % of the generated pairs (F12:
an authority on one side only, a target above the base, the base's query inherited, absolute
against relative paths, …).  It was repaired in /repo (the common prefix is taken over directories
only, the last segment of the target is always written, the root is written as `./` or `..`,
mismatching authorities / absoluteness / climbing relative paths / an empty segment that resolution
would drop (F15) give back the whole of `a`, normalised in place).  What is left of F12 is a class
that depends on `a` alone and that no implementation can serve, because `==` reads such an `a`
differently from every path resolution can produce (`Findings.f12`).

Proved on the model of the repaired function: (i) for every pair of valid references of either
family it never panics and returns a valid reference of the same family, one the checked
constructor accepts (`relative_to_total_valid`, `uri_/iri_relative_to_accepted`): every fallback is
the in-place normalisation of a valid reference (C04), every `push`/`clear` through `path_mut()`
keeps the buffer valid, query and fragment are set by the setters of C04; the inputs are unchanged
because the model is a pure function; (ii) with different schemes the result is the whole of `a`
normalised in place (`relative_to_scheme_mismatch`); (iii) **the round trip itself**
(`roundtrip_on_class_partial`) for same scheme, equal authorities, absolute paths (the base's may
also be empty), a target that is not the root, the "same document" shortcut not taken, and a
remainder that does not begin with an empty segment unless a common directory precedes it — and
for a target that is the root with the base below it (`roundtrip_root_partial`); the same without
authority on either side, both paths absolute (`roundtrip_on_class_noauth_partial`, through
`C06.resolve_relative_noauthority`); and when the "same document" shortcut *is* taken
(`roundtrip_same_document_partial`).  There
`a.relative_to(b)` is `../` for every remaining segment of the base's directory followed by the
remainder of `a` (`relative_to_on_class`), and resolving it against `b` gives a URI/IRI equal to `a`
(`Lemmas/RelativeRoundTrip.lean`, through `C06.resolve_relative_authority`); the class is disjoint
from `f12` (`class_outside_f12`).  (iv) **every whole-target fallback** of a target with an
authority outside `f12` round-trips against every base (`roundtrip_whole_fallback_partial`; taken
e.g. when only the target has an authority, `relative_to_authority_one_sided`).  PARTIAL: outside that class (relative paths without authority, the root
seen from its own level, rootless pairs through the shortcut or with an empty target path) the round trip is judged on the implementation by the oracle on every
generated pair: a failing pair outside `f12`, or any difference between model and implementation,
is a violation.
-/

namespace IrefVerif.Props.C15
open IrefVerif IrefVerif.Spec IrefVerif.Model

/-- different schemes: the result is the whole of `a`, its path normalised in place -/
theorem relative_to_scheme_mismatch (a b : Text) (sa sb : Text)
    (ha : Ref.scheme_opt a = some sa) (hb : Ref.scheme_opt b = some sb) (hne : (sa != sb) = true) :
    Ref.relative_to a b = Ref.whole a := by
  unfold Ref.relative_to
  simp [ha, hb, hne]

/-- **never panics, valid result**, every pair -/
theorem relative_to_total_valid_partial (G : Grammar) (ok : Lemmas.Grammar.Ok G) (okp : Lemmas.Grammar.OkPath G)
    (oka : Lemmas.Grammar.OkAuth G) (we : Lemmas.Grammar.OkWE G) (a b : Text)
    (ha : RE.Matches G.reference a) (hb : RE.Matches G.reference b) :
    ∃ r, Ref.relative_to a b = some r ∧ RE.Matches G.reference r :=
  Lemmas.relative_to_total G ok okp oka we a b ha hb

/-- end to end, URI family -/
theorem uri_relative_to_total_partial (a b : Text) (ha8 : ∀ c ∈ a, c < 256) (hb8 : ∀ c ∈ b, c < 256)
    (ha : accepts .uriRef a = true) (hb : accepts .uriRef b = true) :
    ∃ r, Ref.relative_to a b = some r ∧ RE.Matches uriG.reference r :=
  relative_to_total_valid_partial uriG Lemmas.uriG_ok Lemmas.uriG_okPath Lemmas.uriG_okAuth Lemmas.uriG_okWE a b
    (Valid.uriRef_octets a ha8 ha) (Valid.uriRef_octets b hb8 hb)

/-- … IRI family (octets) -/
theorem iri_relative_to_total_partial (a b : Text) (ha8 : ∀ c ∈ a, c < 256) (hb8 : ∀ c ∈ b, c < 256)
    (ha : accepts .iriRef a = true) (hb : accepts .iriRef b = true) :
    ∃ r, Ref.relative_to a b = some r ∧ RE.Matches Lemmas.iriGB.reference r :=
  relative_to_total_valid_partial Lemmas.iriGB Lemmas.iriGB_ok Lemmas.iriGB_okPath Lemmas.iriGB_okAuth Lemmas.iriGB_okWE a b
    (Valid.iriRef_octets a ha8 ha) (Valid.iriRef_octets b hb8 hb)

/-- … and the result is something the constructors of the same family accept -/
theorem uri_relative_to_accepted_partial (a b : Text) (ha8 : ∀ c ∈ a, c < 256) (hb8 : ∀ c ∈ b, c < 256)
    (ha : accepts .uriRef a = true) (hb : accepts .uriRef b = true) :
    ∃ r, Ref.relative_to a b = some r ∧ accepts .uriRef r = true := by
  obtain ⟨r, e, hv⟩ := uri_relative_to_total_partial a b ha8 hb8 ha hb
  exact ⟨r, e, Valid.uriRef_of_octets r hv⟩

theorem iri_relative_to_accepted_partial (a b : Text) (ha8 : ∀ c ∈ a, c < 256) (hb8 : ∀ c ∈ b, c < 256)
    (ha : accepts .iriRef a = true) (hb : accepts .iriRef b = true) :
    ∃ r, Ref.relative_to a b = some r ∧ accepts .iriRef r = true := by
  obtain ⟨r, e, hv⟩ := iri_relative_to_total_partial a b ha8 hb8 ha hb
  exact ⟨r, e, Valid.iriRef_of_octets r hv⟩

/-- **the round trip holds on the class** — partial (the statement for every pair outside `f12` is
judged on the implementation) -/
theorem roundtrip_on_class_partial (G : Grammar) (ok : Lemmas.Grammar.Ok G) (okp : Lemmas.Grammar.OkPath G)
    (oka : Lemmas.Grammar.OkAuth G) (we : Lemmas.Grammar.OkWE G) (a b aa ab : Text)
    (ha : RE.Matches G.full a) (hb : RE.Matches G.full b)
    (hsch : (split a).scheme = (split b).scheme)
    (haa : (split a).authority = some aa) (hab : (split b).authority = some ab) (hauth : authKey aa = authKey ab)
    (hpa : isAbs (split a).path = true) (hpb : isAbs (split b).path = true ∨ (split b).path = [])
    (hne : nsegs (split a).path ≠ [])
    (hcls : (!(Lemmas.remainder a b).2.2 && (Lemmas.remainder a b).1.head? == some []) = false)
    (hnsp : (((split a).query.isSome || (split a).fragment.isSome) &&
      ((split a).query.isSome || (split b).query.isNone) &&
      some (Lemmas.renderRel (Lemmas.relSegs a b)) == Path.last (split b).path) = false) :
    ∃ r t, Ref.relative_to a b = some r ∧ Ref.resolve r b = some t ∧ key t = key a :=
  Lemmas.relative_roundtrip G ok okp oka we a b aa ab ha hb hsch haa hab hauth hpa hpb hne hcls hnsp

/-- **the round trip on the class, no authority on either side** (`file:/a/b/c` relative to
`file:/a/d/e`): same scheme, both paths absolute, a target that is not the root, and neither
normalised path beginning with an empty segment (`s:/.//a` — no text without authority can spell
such a target path, the residue of F12) -/
theorem roundtrip_on_class_noauth_partial (G : Grammar) (ok : Lemmas.Grammar.Ok G) (okp : Lemmas.Grammar.OkPath G)
    (oka : Lemmas.Grammar.OkAuth G) (we : Lemmas.Grammar.OkWE G) (a b : Text)
    (ha : RE.Matches G.full a) (hb : RE.Matches G.full b)
    (hsch : (split a).scheme = (split b).scheme)
    (haa : (split a).authority = none) (hab : (split b).authority = none)
    (hpa : isAbs (split a).path = true) (hpb : isAbs (split b).path = true)
    (hne : nsegs (split a).path ≠ [])
    (hha : (nsegs (split a).path).head? ≠ some [])
    (hhb : (nsegs (Path.parent_or_empty (split b).path)).head? ≠ some [])
    (hcls : (!(Lemmas.remainder a b).2.2 && (Lemmas.remainder a b).1.head? == some []) = false)
    (hnsp : (((split a).query.isSome || (split a).fragment.isSome) &&
      ((split a).query.isSome || (split b).query.isNone) &&
      some (Lemmas.renderRel (Lemmas.relSegs a b)) == Path.last (split b).path) = false) :
    ∃ r t, Ref.relative_to a b = some r ∧ Ref.resolve r b = some t ∧ key t = key a :=
  Lemmas.relative_roundtrip_noauth G ok okp oka we a b ha hb hsch haa hab hpa hpb hne hha hhb hcls hnsp

/-- the hypotheses are satisfiable: `s:/a/b/c?q` relative to `s:/a/d/e` is `../b/c?q` -/
example :
    let a : Text := [0x73,0x3A,0x2F,0x61,0x2F,0x62,0x2F,0x63,0x3F,0x71]
    let b : Text := [0x73,0x3A,0x2F,0x61,0x2F,0x64,0x2F,0x65]
    (split a).scheme = (split b).scheme ∧ (split a).authority = none ∧ (split b).authority = none ∧
    isAbs (split a).path = true ∧ isAbs (split b).path = true ∧
    (nsegs (split a).path).head? = some [0x61] ∧
    (nsegs (Path.parent_or_empty (split b).path)).head? = some [0x61] ∧
    Lemmas.remainder a b = ([[0x62], [0x63]], [[0x64]], true) ∧
    Ref.relative_to a b = some [0x2E,0x2E,0x2F,0x62,0x2F,0x63,0x3F,0x71] ∧
    Ref.resolve [0x2E,0x2E,0x2F,0x62,0x2F,0x63,0x3F,0x71] b = some a := by decide

/-- end to end, URI family, without authority -/
theorem uri_roundtrip_on_class_noauth_partial (a b : Text) (ha8 : ∀ c ∈ a, c < 256) (hb8 : ∀ c ∈ b, c < 256)
    (ha : accepts .uri a = true) (hb : accepts .uri b = true)
    (hsch : (split a).scheme = (split b).scheme)
    (haa : (split a).authority = none) (hab : (split b).authority = none)
    (hpa : isAbs (split a).path = true) (hpb : isAbs (split b).path = true)
    (hne : nsegs (split a).path ≠ [])
    (hha : (nsegs (split a).path).head? ≠ some [])
    (hhb : (nsegs (Path.parent_or_empty (split b).path)).head? ≠ some [])
    (hcls : (!(Lemmas.remainder a b).2.2 && (Lemmas.remainder a b).1.head? == some []) = false)
    (hnsp : (((split a).query.isSome || (split a).fragment.isSome) &&
      ((split a).query.isSome || (split b).query.isNone) &&
      some (Lemmas.renderRel (Lemmas.relSegs a b)) == Path.last (split b).path) = false) :
    ∃ r t, Ref.relative_to a b = some r ∧ Ref.resolve r b = some t ∧ key t = key a :=
  roundtrip_on_class_noauth_partial uriG Lemmas.uriG_ok Lemmas.uriG_okPath Lemmas.uriG_okAuth Lemmas.uriG_okWE a b
    (Valid.uri_octets a ha8 ha) (Valid.uri_octets b hb8 hb) hsch haa hab hpa hpb hne hha hhb hcls hnsp

/-- … IRI family (octets) -/
theorem iri_roundtrip_on_class_noauth_partial (a b : Text) (ha8 : ∀ c ∈ a, c < 256) (hb8 : ∀ c ∈ b, c < 256)
    (ha : accepts .iri a = true) (hb : accepts .iri b = true)
    (hsch : (split a).scheme = (split b).scheme)
    (haa : (split a).authority = none) (hab : (split b).authority = none)
    (hpa : isAbs (split a).path = true) (hpb : isAbs (split b).path = true)
    (hne : nsegs (split a).path ≠ [])
    (hha : (nsegs (split a).path).head? ≠ some [])
    (hhb : (nsegs (Path.parent_or_empty (split b).path)).head? ≠ some [])
    (hcls : (!(Lemmas.remainder a b).2.2 && (Lemmas.remainder a b).1.head? == some []) = false)
    (hnsp : (((split a).query.isSome || (split a).fragment.isSome) &&
      ((split a).query.isSome || (split b).query.isNone) &&
      some (Lemmas.renderRel (Lemmas.relSegs a b)) == Path.last (split b).path) = false) :
    ∃ r t, Ref.relative_to a b = some r ∧ Ref.resolve r b = some t ∧ key t = key a :=
  roundtrip_on_class_noauth_partial Lemmas.iriGB Lemmas.iriGB_ok Lemmas.iriGB_okPath Lemmas.iriGB_okAuth Lemmas.iriGB_okWE
    a b (Valid.iri_octets a ha8 ha) (Valid.iri_octets b hb8 hb) hsch haa hab hpa hpb hne hha hhb hcls hnsp

/-- **the round trip between two rootless paths** (`urn:a/b/c` relative to `urn:a/d/e`): same
scheme, no authority, both paths relative, neither normalised list beginning with an unresolved
`..` (those take the whole-target fallback) nor with an empty segment, the shortcut not taken -/
theorem roundtrip_on_class_rootless_partial (G : Grammar) (ok : Lemmas.Grammar.Ok G) (okp : Lemmas.Grammar.OkPath G)
    (oka : Lemmas.Grammar.OkAuth G) (we : Lemmas.Grammar.OkWE G) (a b : Text)
    (ha : RE.Matches G.full a) (hb : RE.Matches G.full b)
    (hsch : (split a).scheme = (split b).scheme)
    (haa : (split a).authority = none) (hab : (split b).authority = none)
    (hpa : isAbs (split a).path = false) (hpb : isAbs (split b).path = false)
    (hhA : ((nsegs (split a).path).head? == some [cDot, cDot]) = false)
    (hhB : ((nsegs (Path.parent_or_empty (split b).path)).head? == some [cDot, cDot]) = false)
    (hne : nsegs (split a).path ≠ [])
    (hcls : (!(Lemmas.remainder a b).2.2 && (Lemmas.remainder a b).1.head? == some []) = false)
    (hhd : (nsegs (split a).path).head? ≠ some [] ∧
      (nsegs (Path.parent_or_empty (split b).path)).head? ≠ some [])
    (hnsp : Lemmas.sdCond a b = false) :
    ∃ r t, Ref.relative_to a b = some r ∧ Ref.resolve r b = some t ∧ key t = key a :=
  Lemmas.relative_roundtrip_rootless G ok okp oka we a b ha hb hsch haa hab hpa hpb hhA hhB hne hcls hhd hnsp

/-- non-vacuity: `s:a/b/c` relative to `s:a/d/e` is `../b/c`, which resolves back -/
example :
    let a : Text := [0x73,0x3A,0x61,0x2F,0x62,0x2F,0x63]
    let b : Text := [0x73,0x3A,0x61,0x2F,0x64,0x2F,0x65]
    (split a).authority = none ∧ isAbs (split a).path = false ∧ isAbs (split b).path = false ∧
    Lemmas.remainder a b = ([[0x62], [0x63]], [[0x64]], true) ∧ Lemmas.sdCond a b = false ∧
    Ref.relative_to a b = some [0x2E,0x2E,0x2F,0x62,0x2F,0x63] ∧
    Ref.resolve [0x2E,0x2E,0x2F,0x62,0x2F,0x63] b = some a := by decide

/-- … and through the shortcut (`s:a/b#f` relative to `s:a/./b` is `#f`) -/
theorem roundtrip_same_document_rootless_partial (G : Grammar) (ok : Lemmas.Grammar.Ok G) (okp : Lemmas.Grammar.OkPath G)
    (oka : Lemmas.Grammar.OkAuth G) (we : Lemmas.Grammar.OkWE G) (a b : Text)
    (ha : RE.Matches G.full a) (hb : RE.Matches G.full b)
    (hsch : (split a).scheme = (split b).scheme)
    (haa : (split a).authority = none) (hab : (split b).authority = none)
    (hpa : isAbs (split a).path = false) (hpb : isAbs (split b).path = false)
    (hhA : ((nsegs (split a).path).head? == some [cDot, cDot]) = false)
    (hhB : ((nsegs (Path.parent_or_empty (split b).path)).head? == some [cDot, cDot]) = false)
    (hne : nsegs (split a).path ≠ [])
    (hcls : (!(Lemmas.remainder a b).2.2 && (Lemmas.remainder a b).1.head? == some []) = false)
    (hsd : Lemmas.sdCond a b = true) :
    ∃ r t, Ref.relative_to a b = some r ∧ Ref.resolve r b = some t ∧ key t = key a :=
  Lemmas.relative_roundtrip_samedoc_rootless G ok okp oka we a b ha hb hsch haa hab hpa hpb hhA hhB hne hcls hsd

/-- … and when the target's path is empty (`s:?q` relative to `s:a/b` is `..?q`) -/
theorem roundtrip_empty_rootless_partial (G : Grammar) (ok : Lemmas.Grammar.Ok G) (okp : Lemmas.Grammar.OkPath G)
    (oka : Lemmas.Grammar.OkAuth G) (we : Lemmas.Grammar.OkWE G) (a b : Text)
    (ha : RE.Matches G.full a) (hb : RE.Matches G.full b)
    (hsch : (split a).scheme = (split b).scheme)
    (haa : (split a).authority = none) (hab : (split b).authority = none)
    (hpa : isAbs (split a).path = false) (hpb : isAbs (split b).path = false)
    (hhB : ((nsegs (Path.parent_or_empty (split b).path)).head? == some [cDot, cDot]) = false)
    (hroot : nsegs (split a).path = [])
    (hbelow : nsegs (Path.parent_or_empty (split b).path) ≠ [])
    (hnsp : Lemmas.sdCond a b = false) :
    ∃ r t, Ref.relative_to a b = some r ∧ Ref.resolve r b = some t ∧ key t = key a :=
  Lemmas.relative_roundtrip_empty_rootless G ok okp oka we a b ha hb hsch haa hab hpa hpb hhB hroot hbelow hnsp

/-- non-vacuity: `s:?q` relative to `s:a/b` is `..?q`, which resolves to `s:?q` -/
example : Ref.relative_to [0x73,0x3A,0x3F,0x71] [0x73,0x3A,0x61,0x2F,0x62] = some [0x2E,0x2E,0x3F,0x71] ∧
    Ref.resolve [0x2E,0x2E,0x3F,0x71] [0x73,0x3A,0x61,0x2F,0x62] = some [0x73,0x3A,0x3F,0x71] ∧
    Model.relCls [0x73,0x3A,0x3F,0x71] [0x73,0x3A,0x61,0x2F,0x62] = .root := by decide

/-- **the round trip when the target is the root** and the base lies below it (`https://crates.io/`
relative to `https://crates.io/crates/iref` is `..`): the reference is `..` repeated -/
theorem roundtrip_root_partial (G : Grammar) (ok : Lemmas.Grammar.Ok G) (okp : Lemmas.Grammar.OkPath G)
    (oka : Lemmas.Grammar.OkAuth G) (we : Lemmas.Grammar.OkWE G) (a b aa ab : Text)
    (ha : RE.Matches G.full a) (hb : RE.Matches G.full b)
    (hsch : (split a).scheme = (split b).scheme)
    (haa : (split a).authority = some aa) (hab : (split b).authority = some ab) (hauth : authKey aa = authKey ab)
    (hpa : isAbs (split a).path = true) (hpb : isAbs (split b).path = true ∨ (split b).path = [])
    (hroot : nsegs (split a).path = [])
    (hbelow : nsegs (Path.parent_or_empty (split b).path) ≠ [])
    (hnsp : (((split a).query.isSome || (split a).fragment.isSome) &&
      ((split a).query.isSome || (split b).query.isNone) &&
      some (Lemmas.renderRel (Lemmas.relSegs a b)) == Path.last (split b).path) = false) :
    ∃ r t, Ref.relative_to a b = some r ∧ Ref.resolve r b = some t ∧ key t = key a :=
  Lemmas.relative_roundtrip_root G ok okp oka we a b aa ab ha hb hsch haa hab hauth hpa hpb hroot hbelow hnsp

/-- … and without authority on either side (`s:/` relative to `s:/a/b` is `..`) -/
theorem roundtrip_root_noauth_partial (G : Grammar) (ok : Lemmas.Grammar.Ok G) (okp : Lemmas.Grammar.OkPath G)
    (oka : Lemmas.Grammar.OkAuth G) (we : Lemmas.Grammar.OkWE G) (a b : Text)
    (ha : RE.Matches G.full a) (hb : RE.Matches G.full b)
    (hsch : (split a).scheme = (split b).scheme)
    (haa : (split a).authority = none) (hab : (split b).authority = none)
    (hpa : isAbs (split a).path = true) (hpb : isAbs (split b).path = true)
    (hroot : nsegs (split a).path = [])
    (hbelow : nsegs (Path.parent_or_empty (split b).path) ≠ [])
    (hnsp : (((split a).query.isSome || (split a).fragment.isSome) &&
      ((split a).query.isSome || (split b).query.isNone) &&
      some (Lemmas.renderRel (Lemmas.relSegs a b)) == Path.last (split b).path) = false) :
    ∃ r t, Ref.relative_to a b = some r ∧ Ref.resolve r b = some t ∧ key t = key a :=
  Lemmas.relative_roundtrip_root_noauth G ok okp oka we a b ha hb hsch haa hab hpa hpb hroot hbelow hnsp

/-- non-vacuity: `s:/` relative to `s:/a/b` is `..`, and resolves back to `s:/` -/
example : Ref.relative_to [0x73,0x3A,0x2F] [0x73,0x3A,0x2F,0x61,0x2F,0x62] = some [0x2E,0x2E] ∧
    Ref.resolve [0x2E,0x2E] [0x73,0x3A,0x2F,0x61,0x2F,0x62] = some [0x73,0x3A,0x2F] ∧
    nsegs (split [0x73,0x3A,0x2F]).path = [] ∧
    nsegs (Path.parent_or_empty (split [0x73,0x3A,0x2F,0x61,0x2F,0x62]).path) ≠ [] := by decide

/-- the documented example: `s://h/` relative to `s://h/c/i` is `..` -/
example : Ref.relative_to [0x73,0x3A,0x2F,0x2F,0x68,0x2F] [0x73,0x3A,0x2F,0x2F,0x68,0x2F,0x63,0x2F,0x69]
    = some [0x2E,0x2E] ∧
    nsegs (split [0x73,0x3A,0x2F,0x2F,0x68,0x2F]).path = [] ∧
    nsegs (Path.parent_or_empty (split [0x73,0x3A,0x2F,0x2F,0x68,0x2F,0x63,0x2F,0x69]).path) ≠ [] := by decide

/-- **the round trip through the "same document" shortcut** (`s://h/a/b#f` relative to `s://h/a/b`
is `#f`): the target has a query or a fragment, its query would not be lost behind the base's, and
the relative path is exactly the base's last segment (`Lemmas.sdCond`); then `relative_to` writes
the query and the fragment alone, resolution copies the base's path as it is, and the result is
equal to the target.  Authorities equal as keys or absent on both sides. -/
theorem roundtrip_same_document_partial (G : Grammar) (ok : Lemmas.Grammar.Ok G) (okp : Lemmas.Grammar.OkPath G)
    (oka : Lemmas.Grammar.OkAuth G) (we : Lemmas.Grammar.OkWE G) (a b : Text)
    (ha : RE.Matches G.full a) (hb : RE.Matches G.full b)
    (hsch : (split a).scheme = (split b).scheme)
    (hkey : (split a).authority.map authKey = (split b).authority.map authKey)
    (hpa : isAbs (split a).path = true)
    (hpb : isAbs (split b).path = true ∨ ((split b).path = [] ∧ (split b).authority.isSome = true))
    (hne : nsegs (split a).path ≠ [])
    (hcls : (!(Lemmas.remainder a b).2.2 && (Lemmas.remainder a b).1.head? == some []) = false)
    (hsd : Lemmas.sdCond a b = true) :
    ∃ r t, Ref.relative_to a b = some r ∧ Ref.resolve r b = some t ∧ key t = key a :=
  Lemmas.relative_roundtrip_samedoc G ok okp oka we a b ha hb hsch hkey hpa hpb hne hcls hsd

/-- non-vacuity: `s://h/a/b#f` relative to `s://h/a/./b` is `#f`, and resolving gives `s://h/a/./b#f`
(equal to the target, not identical) -/
example :
    let a : Text := [0x73,0x3A,0x2F,0x2F,0x68,0x2F,0x61,0x2F,0x62,0x23,0x66]
    let b : Text := [0x73,0x3A,0x2F,0x2F,0x68,0x2F,0x61,0x2F,0x2E,0x2F,0x62]
    Lemmas.sdCond a b = true ∧ nsegs (split a).path ≠ [] ∧
    (!(Lemmas.remainder a b).2.2 && (Lemmas.remainder a b).1.head? == some []) = false ∧
    Ref.relative_to a b = some [0x23,0x66] ∧
    Ref.resolve [0x23,0x66] b = some (b ++ [0x23,0x66]) ∧ key (b ++ [0x23,0x66]) = key a := by decide

/-- **every whole-target fallback round-trips**: whenever `relative_to` gives back the whole target
(normalised in place) — different schemes, different authorities, an authority on one side only,
an absolute against a relative path, an empty segment that resolution would drop — resolving it
against the base, whatever the base, gives a URI/IRI equal to the target; for every target with
an authority outside `f12` -/
theorem roundtrip_whole_fallback_partial (G : Grammar) (ok : Lemmas.Grammar.Ok G) (okp : Lemmas.Grammar.OkPath G)
    (a b aa : Text) (ha : RE.Matches G.full a) (hb : RE.Matches G.full b)
    (haa : (split a).authority = some aa) (hl : nsegs (split a).path ≠ [[]])
    (hw : Ref.relative_to a b = Ref.whole a) :
    ∃ r t, Ref.relative_to a b = some r ∧ Ref.resolve r b = some t ∧ key t = key a := by
  obtain ⟨w, t, e1, e2, hk⟩ := Lemmas.whole_roundtrip_authority G ok okp a b aa ha hb haa hl
  exact ⟨w, t, by rw [hw, e1], e2, hk⟩

/-- … and for every target without authority whose path is absolute and whose first normalised
segment is not empty (`s:/a/b` relative to `s://h/c`, to `s:x/y`, to `t:/a` …) -/
theorem roundtrip_whole_fallback_noauth_partial (G : Grammar) (ok : Lemmas.Grammar.Ok G) (okp : Lemmas.Grammar.OkPath G)
    (a b : Text) (ha : RE.Matches G.full a)
    (haa : (split a).authority = none) (hpa : isAbs (split a).path = true)
    (hhd : (nsegs (split a).path).head? ≠ some [])
    (hw : Ref.relative_to a b = Ref.whole a) :
    ∃ r t, Ref.relative_to a b = some r ∧ Ref.resolve r b = some t ∧ key t = key a := by
  obtain ⟨w, t, e1, e2, hk⟩ := Lemmas.whole_roundtrip_noauth_abs G ok okp a b ha haa hpa hhd
  exact ⟨w, t, by rw [hw, e1], e2, hk⟩

/-- … and for every target without authority whose path is relative or empty (`urn:a/b`, `s:a/../b`,
`s:../x`, `s:`), whose first normalised segment is not empty and whose normalised segments do not
end in an unresolved `..` (that is `f12`) -/
theorem roundtrip_whole_fallback_rootless_partial (G : Grammar) (ok : Lemmas.Grammar.Ok G) (okp : Lemmas.Grammar.OkPath G)
    (a b : Text) (ha : RE.Matches G.full a)
    (haa : (split a).authority = none) (hpa : isAbs (split a).path = false)
    (hhd : (nsegs (split a).path).head? ≠ some [])
    (hlast : (nsegs (split a).path).getLast? ≠ some segDotDot)
    (hw : Ref.relative_to a b = Ref.whole a) :
    ∃ r t, Ref.relative_to a b = some r ∧ Ref.resolve r b = some t ∧ key t = key a := by
  obtain ⟨w, t, e1, e2, hk⟩ := Lemmas.whole_roundtrip_noauth_rel G ok okp a b ha haa hpa hhd hlast
  exact ⟨w, t, by rw [hw, e1], e2, hk⟩

/-- non-vacuity: `s:x/../../a` relative to `t://h/p` is the whole target normalised, `s:../a`, and
resolving it (the reference has a scheme) gives it back -/
example :
    let a : Text := [0x73,0x3A,0x78,0x2F,0x2E,0x2E,0x2F,0x2E,0x2E,0x2F,0x61]
    let b : Text := [0x74,0x3A,0x2F,0x2F,0x68,0x2F,0x70]
    (split a).authority = none ∧ isAbs (split a).path = false ∧
    nsegs (split a).path = [[0x2E,0x2E],[0x61]] ∧
    Ref.relative_to a b = Ref.whole a ∧ Ref.whole a = some [0x73,0x3A,0x2E,0x2E,0x2F,0x61] ∧
    Ref.resolve [0x73,0x3A,0x2E,0x2E,0x2F,0x61] b = some [0x73,0x3A,0x2E,0x2E,0x2F,0x61] := by decide

/-- an authority on the target's side only: the fallback is taken -/
theorem relative_to_authority_one_sided (G : Grammar) (ok : Lemmas.Grammar.Ok G) (a b aa : Text)
    (ha : RE.Matches G.reference a) (hb : RE.Matches G.reference b)
    (haa : (split a).authority = some aa) (hab : (split b).authority = none) :
    Ref.relative_to a b = Ref.whole a := by
  obtain ⟨_, wA⟩ := Lemmas.split_valid G ok a ha
  obtain ⟨_, wB⟩ := Lemmas.split_valid G ok b hb
  have hau := Lemmas.ref_authority_recompose (split a) wA
  have hbu := Lemmas.ref_authority_recompose (split b) wB
  rw [Lemmas.recompose_split] at hau hbu
  unfold Ref.relative_to
  simp only [hau, hbu, haa, hab]
  split <;> simp

/-- … so `s://h/p` relative to `s:/q` (the witness of the first class of the old F12, mirrored)
round-trips: the whole target comes back -/
example : Ref.relative_to [0x73,0x3A,0x2F,0x2F,0x68,0x2F,0x70] [0x73,0x3A,0x2F,0x71]
    = some [0x73,0x3A,0x2F,0x2F,0x68,0x2F,0x70] := by decide

/-- … and the class is disjoint from what is left of F12 -/
theorem class_outside_f12 (a b : Text) (hpa : isAbs (split a).path = true)
    (hcls : (!(Lemmas.remainder a b).2.2 && (Lemmas.remainder a b).1.head? == some []) = false) :
    Findings.f12 a b = false := by
  unfold Findings.f12
  simp only [hpa, Bool.not_true, Bool.false_and, Bool.or_false]
  by_cases h : nsegs (split a).path = [[]]
  · exfalso
    unfold Lemmas.remainder at hcls
    rw [h] at hcls
    have : Ref.dropCommon [[]] (nsegs (Path.parent_or_empty (split b).path)) =
        ([[]], nsegs (Path.parent_or_empty (split b).path), false) := by
      cases nsegs (Path.parent_or_empty (split b).path) <;> rfl
    rw [this] at hcls
    simp at hcls
  · simpa using h

/-- what `relative_to` returns there -/
theorem relative_to_on_class (G : Grammar) (ok : Lemmas.Grammar.Ok G) (okp : Lemmas.Grammar.OkPath G)
    (oka : Lemmas.Grammar.OkAuth G) (we : Lemmas.Grammar.OkWE G) (a b aa ab : Text)
    (ha : RE.Matches G.reference a) (hb : RE.Matches G.reference b)
    (hsch : (split a).scheme = (split b).scheme)
    (haa : (split a).authority = some aa) (hab : (split b).authority = some ab) (hauth : authKey aa = authKey ab)
    (hpa : isAbs (split a).path = true) (hpb : isAbs (split b).path = true ∨ (split b).path = [])
    (hLne : Lemmas.relSegs a b ≠ [])
    (hcls : (!(Lemmas.remainder a b).2.2 && (Lemmas.remainder a b).1.head? == some []) = false)
    (hnsp : (((split a).query.isSome || (split a).fragment.isSome) &&
      ((split a).query.isSome || (split b).query.isNone) &&
      some (Lemmas.renderRel (Lemmas.relSegs a b)) == Path.last (split b).path) = false) :
    Ref.relative_to a b = some (recompose (Lemmas.pathQF (Lemmas.renderRel (Lemmas.relSegs a b))
      (split a).query (split a).fragment)) :=
  Lemmas.relative_to_explicit G ok okp oka we a b aa ab ha hb hsch haa hab hauth hpa hpb hLne hcls hnsp

/-- end to end, URI family: accepted `Uri`s in the class -/
theorem uri_roundtrip_on_class_partial (a b aa ab : Text) (ha8 : ∀ c ∈ a, c < 256) (hb8 : ∀ c ∈ b, c < 256)
    (ha : accepts .uri a = true) (hb : accepts .uri b = true)
    (hsch : (split a).scheme = (split b).scheme)
    (haa : (split a).authority = some aa) (hab : (split b).authority = some ab) (hauth : authKey aa = authKey ab)
    (hpa : isAbs (split a).path = true) (hpb : isAbs (split b).path = true ∨ (split b).path = [])
    (hne : nsegs (split a).path ≠ [])
    (hcls : (!(Lemmas.remainder a b).2.2 && (Lemmas.remainder a b).1.head? == some []) = false)
    (hnsp : (((split a).query.isSome || (split a).fragment.isSome) &&
      ((split a).query.isSome || (split b).query.isNone) &&
      some (Lemmas.renderRel (Lemmas.relSegs a b)) == Path.last (split b).path) = false) :
    ∃ r t, Ref.relative_to a b = some r ∧ Ref.resolve r b = some t ∧ key t = key a :=
  roundtrip_on_class_partial uriG Lemmas.uriG_ok Lemmas.uriG_okPath Lemmas.uriG_okAuth Lemmas.uriG_okWE a b aa ab
    (Valid.uri_octets a ha8 ha) (Valid.uri_octets b hb8 hb) hsch haa hab hauth hpa hpb hne hcls hnsp

/-- … IRI family (octets) -/
theorem iri_roundtrip_on_class_partial (a b aa ab : Text) (ha8 : ∀ c ∈ a, c < 256) (hb8 : ∀ c ∈ b, c < 256)
    (ha : accepts .iri a = true) (hb : accepts .iri b = true)
    (hsch : (split a).scheme = (split b).scheme)
    (haa : (split a).authority = some aa) (hab : (split b).authority = some ab) (hauth : authKey aa = authKey ab)
    (hpa : isAbs (split a).path = true) (hpb : isAbs (split b).path = true ∨ (split b).path = [])
    (hne : nsegs (split a).path ≠ [])
    (hcls : (!(Lemmas.remainder a b).2.2 && (Lemmas.remainder a b).1.head? == some []) = false)
    (hnsp : (((split a).query.isSome || (split a).fragment.isSome) &&
      ((split a).query.isSome || (split b).query.isNone) &&
      some (Lemmas.renderRel (Lemmas.relSegs a b)) == Path.last (split b).path) = false) :
    ∃ r t, Ref.relative_to a b = some r ∧ Ref.resolve r b = some t ∧ key t = key a :=
  roundtrip_on_class_partial Lemmas.iriGB Lemmas.iriGB_ok Lemmas.iriGB_okPath Lemmas.iriGB_okAuth Lemmas.iriGB_okWE
    a b aa ab (Valid.iri_octets a ha8 ha) (Valid.iri_octets b hb8 hb) hsch haa hab hauth hpa hpb hne hcls hnsp

/-- the hypotheses are satisfiable: `s://h/a/b/c#f` relative to `s://h/a/d/e` -/
example :
    let a : Text := [0x73,0x3A,0x2F,0x2F,0x68,0x2F,0x61,0x2F,0x62,0x2F,0x63,0x23,0x66]
    let b : Text := [0x73,0x3A,0x2F,0x2F,0x68,0x2F,0x61,0x2F,0x64,0x2F,0x65]
    (split a).scheme = (split b).scheme ∧ (split a).authority = some [0x68] ∧ (split b).authority = some [0x68] ∧
    isAbs (split a).path = true ∧ isAbs (split b).path = true ∧ (split a).fragment = some [0x66] ∧
    Lemmas.remainder a b = ([[0x62], [0x63]], [[0x64]], true) ∧
    Ref.relative_to a b = some [0x2E,0x2E,0x2F,0x62,0x2F,0x63,0x23,0x66] := by decide

/-- the class contains a directory relative to a file in it: `s://h/a/` relative to `s://h/a/b` is `./` -/
example : Ref.relative_to [0x73,0x3A,0x2F,0x2F,0x68,0x2F,0x61,0x2F] [0x73,0x3A,0x2F,0x2F,0x68,0x2F,0x61,0x2F,0x62]
    = some [0x2E,0x2F] := by decide

/-- the class contains bases with an empty path: `s://h/a/b` relative to `s://h` is `a/b` -/
example : Ref.relative_to [0x73,0x3A,0x2F,0x2F,0x68,0x2F,0x61,0x2F,0x62] [0x73,0x3A,0x2F,0x2F,0x68]
    = some [0x61,0x2F,0x62] := by decide

/-- the witnesses of the repaired part of F12, on the model of the repaired code: an authority on
one side only (`s:` relative to `s://h/a` is `s:`), a target above the base (`s:/` relative to
`s:/a` is `./`), the base's query (`s:` relative to `s:?q` is `./`) -/
example : Ref.relative_to [0x73, 0x3A] [0x73, 0x3A, 0x2F, 0x2F, 0x68, 0x2F, 0x61] = some [0x73, 0x3A] ∧
    Ref.relative_to [0x73, 0x3A, 0x2F] [0x73, 0x3A, 0x2F, 0x61] = some [0x2E, 0x2F] ∧
    Ref.relative_to [0x73, 0x3A] [0x73, 0x3A, 0x3F, 0x71] = some [0x2E, 0x2F] := by decide

/-- witnesses of what is left of F12: `s://h//.` and `s:./..` are in the class, `s://h/a/.` is not -/
example : Findings.f12 [0x73,0x3A,0x2F,0x2F,0x68,0x2F,0x2F,0x2E] [] = true ∧
    Findings.f12 [0x73,0x3A,0x2E,0x2F,0x2E,0x2E] [] = true ∧
    Findings.f12 [0x73,0x3A,0x2F,0x2F,0x68,0x2F,0x61,0x2F,0x2E] [] = false := by decide

/-- **every case the evidence counts under a theorem**: whenever the classifier the driver runs on
each generated pair (`Model.relCls`) names a covered case, relativisation round-trips through
resolution -/
theorem roundtrip_classified (G : Grammar) (ok : Lemmas.Grammar.Ok G) (okp : Lemmas.Grammar.OkPath G)
    (oka : Lemmas.Grammar.OkAuth G) (we : Lemmas.Grammar.OkWE G) (a b : Text)
    (ha : RE.Matches G.full a) (hb : RE.Matches G.full b)
    (hc : (Model.relCls a b).covered = true) :
    ∃ r t, Ref.relative_to a b = some r ∧ Ref.resolve r b = some t ∧ key t = key a := by
  unfold Model.relCls at hc
  by_cases h12 : Findings.f12 a b = true
  · simp [h12, Model.RelCls.covered] at hc
  have h12' := Bool.eq_false_iff.mpr h12
  simp only [h12', Bool.false_eq_true, if_false] at hc
  by_cases hw : (Ref.relative_to a b == Ref.whole a) = true
  · -- the whole-target fallbacks
    have hweq : Ref.relative_to a b = Ref.whole a := by simpa using hw
    simp only [hw, if_true] at hc
    cases hAa : (split a).authority with
    | some aa =>
      simp only [hAa, Option.isSome_some, if_true] at hc
      by_cases hl : (nsegs (split a).path == [[]]) = true
      · simp [hl, Model.RelCls.covered] at hc
      · exact roundtrip_whole_fallback_partial G ok okp a b aa ha hb hAa (by simpa using hl) hweq
    | none =>
      simp only [hAa, Option.isSome_none, Bool.false_eq_true, if_false] at hc
      by_cases hh : ((nsegs (split a).path).head? == some []) = true
      · simp [hh, Model.RelCls.covered] at hc
      · have hh' : (nsegs (split a).path).head? ≠ some [] := by simpa using hh
        simp only [Bool.eq_false_iff.mpr hh, Bool.false_eq_true, if_false] at hc
        by_cases hpa : isAbs (split a).path = true
        · exact roundtrip_whole_fallback_noauth_partial G ok okp a b ha hAa hpa hh' hweq
        · have hpa' : isAbs (split a).path = false := by simpa using hpa
          simp only [hpa', Bool.false_eq_true, if_false] at hc
          by_cases hlast : ((nsegs (split a).path).getLast? == some segDotDot) = true
          · simp [hlast, Model.RelCls.covered] at hc
          · exact roundtrip_whole_fallback_rootless_partial G ok okp a b ha hAa hpa' hh' (by simpa using hlast) hweq
  · simp only [Bool.eq_false_iff.mpr hw, Bool.false_eq_true, if_false] at hc
    by_cases hs : ((split a).scheme != (split b).scheme) = true
    · simp [hs, Model.RelCls.covered] at hc
    have hsch : (split a).scheme = (split b).scheme := by simpa using hs
    simp only [Bool.eq_false_iff.mpr hs, Bool.false_eq_true, if_false] at hc
    by_cases hR : ((split a).authority.isNone && (split b).authority.isNone && !isAbs (split a).path
        && !isAbs (split b).path) = true
    · -- two rootless paths
      simp only [hR, if_true] at hc
      simp only [Bool.and_eq_true, Option.isNone_iff_eq_none, Bool.not_eq_true'] at hR
      obtain ⟨⟨⟨haa, hab⟩, hpa⟩, hpb⟩ := hR
      by_cases hbad : ((nsegs (split a).path).head? == some [cDot, cDot]
          || (nsegs (Path.parent_or_empty (split b).path)).head? == some [cDot, cDot]) = true
      · rw [if_pos hbad] at hc; exact absurd hc (by decide)
      rw [if_neg hbad] at hc
      have hbad' := Bool.eq_false_iff.mpr hbad
      simp only [Bool.or_eq_false_iff] at hbad'
      obtain ⟨h1, h2⟩ := hbad'
      by_cases hroot : (nsegs (split a).path == []) = true
      · -- the target's path is empty
        have hroot' : nsegs (split a).path = [] := by simpa using hroot
        simp only [hroot, if_true] at hc
        by_cases hb2 : (nsegs (Path.parent_or_empty (split b).path) == [] || Lemmas.sdCond a b) = true
        · rw [if_pos hb2] at hc; exact absurd hc (by decide)
        · have hb2' := Bool.eq_false_iff.mpr hb2
          simp only [Bool.or_eq_false_iff] at hb2'
          exact roundtrip_empty_rootless_partial G ok okp oka we a b ha hb hsch haa hab hpa hpb h2 hroot'
            (by simpa using hb2'.1) hb2'.2
      have h3 := Bool.eq_false_iff.mpr hroot
      simp only [h3, Bool.false_eq_true, if_false] at hc
      by_cases hsk : Model.skipEmpty a b = true
      · simp [hsk, Model.RelCls.covered] at hc
      · have h4 : Model.skipEmpty a b = false := Bool.eq_false_iff.mpr hsk
        simp only [h4, Bool.false_eq_true, if_false] at hc
        by_cases hsd : Lemmas.sdCond a b = true
        · exact roundtrip_same_document_rootless_partial G ok okp oka we a b ha hb hsch haa hab hpa hpb h1 h2
            (by simpa using h3) h4 hsd
        · have h7 : Lemmas.sdCond a b = false := Bool.eq_false_iff.mpr hsd
          simp only [h7, Bool.false_eq_true, if_false] at hc
          by_cases hhd : ((nsegs (split a).path).head? == some []
              || (nsegs (Path.parent_or_empty (split b).path)).head? == some []) = true
          · rw [if_pos hhd] at hc; exact absurd hc (by decide)
          · have hhd' := Bool.eq_false_iff.mpr hhd
            simp only [Bool.or_eq_false_iff] at hhd'
            exact roundtrip_on_class_rootless_partial G ok okp oka we a b ha hb hsch haa hab hpa hpb h1 h2
              (by simpa using h3) h4 ⟨by simpa using hhd'.1, by simpa using hhd'.2⟩ h7
    · simp only [Bool.eq_false_iff.mpr hR, Bool.false_eq_true, if_false] at hc
      by_cases hO : ((split a).authority.map authKey != (split b).authority.map authKey || !isAbs (split a).path
          || !(isAbs (split b).path || ((split b).path.isEmpty && (split b).authority.isSome))) = true
      · rw [if_pos hO] at hc; exact absurd hc (by decide)
      rw [if_neg hO] at hc
      have hO' := Bool.eq_false_iff.mpr hO
      simp only [Bool.or_eq_false_iff, bne_eq_false_iff_eq, Bool.not_eq_false'] at hO'
      obtain ⟨⟨hkey, hpa⟩, hpbB⟩ := hO'
      have hpb : isAbs (split b).path = true ∨ ((split b).path = [] ∧ (split b).authority.isSome = true) := by
        rcases Bool.or_eq_true _ _ |>.mp hpbB with h | h
        · exact .inl h
        · simp only [Bool.and_eq_true, List.isEmpty_iff] at h
          exact .inr h
      by_cases hroot : (nsegs (split a).path == []) = true
      · -- the target is the root
        have hroot' : nsegs (split a).path = [] := by simpa using hroot
        simp only [hroot, if_true] at hc
        by_cases hbad : (nsegs (Path.parent_or_empty (split b).path) == [] || Lemmas.sdCond a b) = true
        · rw [if_pos hbad] at hc; exact absurd hc (by decide)
        · have hbad' := Bool.eq_false_iff.mpr hbad
          simp only [Bool.or_eq_false_iff] at hbad'
          obtain ⟨hbelow, hnsp⟩ := hbad'
          have hbelow' : nsegs (Path.parent_or_empty (split b).path) ≠ [] := by simpa using hbelow
          cases hBa : (split b).authority with
          | some ab =>
            cases hAa : (split a).authority with
            | none => rw [hAa, hBa] at hkey; simp at hkey
            | some aa =>
              rw [hAa, hBa] at hkey
              have hauth : authKey aa = authKey ab := by simpa using hkey
              exact roundtrip_root_partial G ok okp oka we a b aa ab ha hb hsch hAa hBa hauth hpa
                (hpb.elim .inl (fun h => .inr h.1)) hroot' hbelow' hnsp
          | none =>
            cases hAa : (split a).authority with
            | some aa => rw [hAa, hBa] at hkey; simp at hkey
            | none =>
              have hpb' : isAbs (split b).path = true := by
                rcases hpb with h | ⟨_, h⟩
                · exact h
                · rw [hBa] at h; simp at h
              exact roundtrip_root_noauth_partial G ok okp oka we a b ha hb hsch hAa hBa hpa hpb' hroot' hbelow' hnsp
      · have hne : nsegs (split a).path ≠ [] := by simpa using hroot
        simp only [Bool.eq_false_iff.mpr hroot, Bool.false_eq_true, if_false] at hc
        by_cases hsk : Model.skipEmpty a b = true
        · simp [hsk, Model.RelCls.covered] at hc
        have hcls : (!(Lemmas.remainder a b).2.2 && (Lemmas.remainder a b).1.head? == some []) = false :=
          Bool.eq_false_iff.mpr hsk
        simp only [Bool.eq_false_iff.mpr hsk, Bool.false_eq_true, if_false] at hc
        by_cases hsd : Lemmas.sdCond a b = true
        · exact roundtrip_same_document_partial G ok okp oka we a b ha hb hsch hkey hpa hpb hne hcls hsd
        · have hnsp : Lemmas.sdCond a b = false := Bool.eq_false_iff.mpr hsd
          simp only [hnsp, Bool.false_eq_true, if_false] at hc
          cases hBa : (split b).authority with
          | some ab =>
            cases hAa : (split a).authority with
            | none => rw [hAa, hBa] at hkey; simp at hkey
            | some aa =>
              rw [hAa, hBa] at hkey
              have hauth : authKey aa = authKey ab := by simpa using hkey
              exact roundtrip_on_class_partial G ok okp oka we a b aa ab ha hb hsch hAa hBa hauth hpa
                (hpb.elim .inl (fun h => .inr h.1)) hne hcls hnsp
          | none =>
            cases hAa : (split a).authority with
            | some aa => rw [hAa, hBa] at hkey; simp at hkey
            | none =>
              simp only [hBa, Option.isSome_none, Bool.false_eq_true, if_false] at hc
              have hpb' : isAbs (split b).path = true := by
                rcases hpb with h | ⟨_, h⟩
                · exact h
                · rw [hBa] at h; simp at h
              by_cases hhd : ((nsegs (split a).path).head? == some []
                  || (nsegs (Path.parent_or_empty (split b).path)).head? == some []) = true
              · simp [hhd, Model.RelCls.covered] at hc
              · have hhd' := Bool.eq_false_iff.mpr hhd
                simp only [Bool.or_eq_false_iff] at hhd'
                exact roundtrip_on_class_noauth_partial G ok okp oka we a b ha hb hsch hAa hBa hpa hpb' hne
                  (by simpa using hhd'.1) (by simpa using hhd'.2) hcls hnsp

/-- end to end, URI family: accepted `Uri`s on a covered case -/
theorem uri_roundtrip_classified (a b : Text) (ha8 : ∀ c ∈ a, c < 256) (hb8 : ∀ c ∈ b, c < 256)
    (ha : accepts .uri a = true) (hb : accepts .uri b = true) (hc : (Model.relCls a b).covered = true) :
    ∃ r t, Ref.relative_to a b = some r ∧ Ref.resolve r b = some t ∧ key t = key a :=
  roundtrip_classified uriG Lemmas.uriG_ok Lemmas.uriG_okPath Lemmas.uriG_okAuth Lemmas.uriG_okWE a b
    (Valid.uri_octets a ha8 ha) (Valid.uri_octets b hb8 hb) hc

/-- … IRI family (octets) -/
theorem iri_roundtrip_classified (a b : Text) (ha8 : ∀ c ∈ a, c < 256) (hb8 : ∀ c ∈ b, c < 256)
    (ha : accepts .iri a = true) (hb : accepts .iri b = true) (hc : (Model.relCls a b).covered = true) :
    ∃ r t, Ref.relative_to a b = some r ∧ Ref.resolve r b = some t ∧ key t = key a :=
  roundtrip_classified Lemmas.iriGB Lemmas.iriGB_ok Lemmas.iriGB_okPath Lemmas.iriGB_okAuth Lemmas.iriGB_okWE a b
    (Valid.iri_octets a ha8 ha) (Valid.iri_octets b hb8 hb) hc

/-- non-vacuity: one pair per covered case -/
example :
    Model.relCls [0x73,0x3A,0x2F,0x2F,0x68,0x2F,0x61,0x2F,0x62] [0x73,0x3A,0x2F,0x2F,0x68,0x2F,0x61,0x2F,0x63] = .classAuthority ∧
    Model.relCls [0x73,0x3A,0x2F,0x61,0x2F,0x62] [0x73,0x3A,0x2F,0x61,0x2F,0x63] = .classNoauth ∧
    Model.relCls [0x73,0x3A,0x61,0x2F,0x62] [0x73,0x3A,0x61,0x2F,0x63,0x2F,0x64] = .classRootless ∧
    Model.relCls [0x73,0x3A,0x2F,0x2F,0x68,0x2F] [0x73,0x3A,0x2F,0x2F,0x68,0x2F,0x63,0x2F,0x69] = .root ∧
    Model.relCls [0x73,0x3A,0x2F,0x2F,0x68,0x2F,0x61,0x23,0x66] [0x73,0x3A,0x2F,0x2F,0x68,0x2F,0x61] = .sameDocument ∧
    Model.relCls [0x73,0x3A,0x2F,0x2F,0x68,0x2F,0x70] [0x74,0x3A,0x2F,0x71] = .wholeAuthority ∧
    Model.relCls [0x73,0x3A,0x2F,0x70] [0x74,0x3A,0x2F,0x71] = .wholeNoauthAbsolute ∧
    Model.relCls [0x73,0x3A,0x70] [0x74,0x3A,0x2F,0x71] = .wholeNoauthRootless := by decide

end IrefVerif.Props.C15
