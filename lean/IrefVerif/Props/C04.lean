import IrefVerif.Props.C05
import IrefVerif.Props.C02
import IrefVerif.Props.C11
import IrefVerif.Lemmas.SetterValid
import IrefVerif.Lemmas.IriBytes
import IrefVerif.Props.Valid
import IrefVerif.Lemmas.PathHandleValid

/-!
# C04 — safe mutation never breaks well-formedness

The invariant is `Matches G.reference b.text` (for the IRI family over scalar values, so
well-formed UTF-8 is part of it).  Proved at specification level, both families: every valid
list of components recomposes to a valid reference (assembly), so each setter preserves the
invariant whenever its specified result is a valid list; this is discharged here for the
setters that never need disambiguation (query, fragment, replacing a scheme or an authority,
and the three authority-handle edits).
Model level (`setter_history`): for **every finite sequence** of the component setters —
`set_scheme`, `set_authority`, `set_path`, `set_query`, `set_fragment`, each setting or removing,
with any valid arguments — started from any valid reference of either family (octet level), the
model of the Rust code (`Model/Reference.lean`: scans, `Vec` splices and every disambiguation
branch) never panics (`some`) and leaves a valid reference.  By induction over the operation
list from `setter_step`, which combines `C05.model_set_*` (the model computes the specified
recomposition) with `Lemmas/SetterValid.lean` (the specified component list is valid: the
shields `./`, `/`, `/.` always move the path into a production the new context allows).
`uriRefBuf_setters`, `iriRefBuf_setters`: end to end from the generated automata.
Path handle (`path_session`): for every valid reference and **every finite sequence** of `push`,
`pop`, `clear`, `symbolic_push`, `symbolic_append`, `normalize` with valid arguments the model of
`path_mut.rs` does not panic and leaves a valid reference whose other components are untouched
(`Lemmas/GoodPath.lean`: a path is valid in its context iff every `/`-separated piece is a
`segment` and three context rules hold; `Lemmas/GoodOps.lean`: each operation preserves that,
through every shield it writes; `Lemmas/PathHandleValid.lean`).
All three together (`edit_history`): any interleaving of setter calls, sessions on the path
handle and sessions on the authority handle keeps the buffer a valid reference.
For in-place resolution the invariant is checked on the implementation after *every* step of
every generated history by the `history` oracle (re-parse with the specification matcher, UTF-8
check, no panic), and the model is compared with the implementation after every step.
-/

namespace IrefVerif.Props.C04
open IrefVerif IrefVerif.Spec IrefVerif.Lemmas

/-- **assembly**: valid components (in their context) always recompose to a valid reference -/
theorem assemble (G : Grammar) (P : Spec.Parts) (hv : ValidParts G P) : RE.Matches G.reference (recompose P) :=
  (reference_iff G _).mpr ⟨P, rfl, hv⟩

/-- the invariant is preserved by `set_query` and `set_fragment` with any valid argument, and
by their removal -/
theorem set_query_inv (G : Grammar) (ok : Grammar.Ok G) (w : Text) (h : RE.Matches G.reference w)
    (v : Option Text) (hval : ∀ q, v = some q → RE.Matches G.query q) :
    RE.Matches G.reference (recompose { split w with query := v }) :=
  (C05.set_query G ok w h v hval).1

theorem set_fragment_inv (G : Grammar) (ok : Grammar.Ok G) (w : Text) (h : RE.Matches G.reference w)
    (v : Option Text) (hval : ∀ f, v = some f → RE.Matches G.fragment f) :
    RE.Matches G.reference (recompose { split w with fragment := v }) :=
  (C05.set_fragment G ok w h v hval).1

/-- any finite sequence of query/fragment edits preserves the invariant (induction over the
operation list) -/
inductive QfOp
  | setQuery (v : Option Text)
  | setFragment (v : Option Text)

def QfOp.Valid (G : Grammar) : QfOp → Prop
  | .setQuery v => ∀ q, v = some q → RE.Matches G.query q
  | .setFragment v => ∀ f, v = some f → RE.Matches G.fragment f

def qfStep (w : Text) : QfOp → Text
  | .setQuery v => recompose { split w with query := v }
  | .setFragment v => recompose { split w with fragment := v }

theorem qf_history_inv (G : Grammar) (ok : Grammar.Ok G) (ops : List QfOp) (w : Text)
    (h : RE.Matches G.reference w) (hops : ∀ op ∈ ops, op.Valid G) :
    RE.Matches G.reference (ops.foldl qfStep w) := by
  induction ops generalizing w with
  | nil => exact h
  | cons op ops ih =>
    apply ih
    · cases op with
      | setQuery v => exact set_query_inv G ok w h v (hops _ List.mem_cons_self)
      | setFragment v => exact set_fragment_inv G ok w h v (hops _ List.mem_cons_self)
    · exact fun o ho => hops o (List.mem_cons_of_mem _ ho)

/-- editing the authority through its handle keeps the enclosing reference valid: the new
authority is valid (C11) and takes the old one's place in a valid component list -/
theorem authority_edit_inv (G : Grammar) (ok : Grammar.Ok G) (w : Text) (h : RE.Matches G.reference w)
    (ha : (split w).authority.isSome) (a' : Text) (hval : RE.Matches G.authority a') :
    RE.Matches G.reference (recompose { split w with authority := some a' }) :=
  (C05.set_authority_some G ok w h ha a' hval).1

/-! ## every finite sequence of component setters, on the model of the code -/

open IrefVerif.Model in
/-- one call of a component setter of `UriRefBuf` / `IriRefBuf` -/
inductive SetOp
  | scheme (v : Option Text)
  | authority (v : Option Text)
  | path (p : Text)
  | query (v : Option Text)
  | fragment (v : Option Text)

/-- the argument is a valid value of its component type -/
def SetOp.Valid (G : Grammar) : SetOp → Prop
  | .scheme v => ∀ s, v = some s → RE.Matches Rfc3986.scheme s
  | .authority v => ∀ a, v = some a → RE.Matches G.authority a
  | .path p => RE.Matches G.path p
  | .query v => ∀ q, v = some q → RE.Matches G.query q
  | .fragment v => ∀ f, v = some f → RE.Matches G.fragment f

/-- the model of the call (`none` = panic) -/
def setStep (w : Text) : SetOp → Option Text
  | .scheme v => Model.Ref.set_scheme w v
  | .authority v => Model.Ref.set_authority w v
  | .path p => Model.Ref.set_path w p
  | .query v => Model.Ref.set_query w v
  | .fragment v => Model.Ref.set_fragment w v

def runOps : Text → List SetOp → Option Text
  | w, [] => some w
  | w, op :: ops => match setStep w op with
    | some w' => runOps w' ops
    | none => none

/-- **one setter call keeps the buffer a valid reference and does not panic** -/
theorem setter_step (G : Grammar) (ok : Grammar.Ok G) (okp : Grammar.OkPath G) (w : Text)
    (h : RE.Matches G.reference w) (op : SetOp) (hop : op.Valid G) :
    ∃ w', setStep w op = some w' ∧ RE.Matches G.reference w' := by
  obtain ⟨hv, _⟩ := split_valid G ok w h
  cases op with
  | scheme v =>
    cases v with
    | some s =>
      exact ⟨_, C05.model_set_scheme_some G ok w h s,
        assemble G _ (valid_set_scheme_some G ok okp (split w) hv s (hop s rfl))⟩
    | none =>
      exact ⟨_, C05.model_set_scheme_none G ok w h, assemble G _ (valid_set_scheme_none G ok okp (split w) hv)⟩
  | authority v =>
    cases v with
    | some a =>
      exact ⟨_, C05.model_set_authority_some G ok w h a,
        assemble G _ (valid_set_authority_some G ok okp (split w) hv a (hop a rfl))⟩
    | none =>
      exact ⟨_, C05.model_set_authority_none G ok w h,
        assemble G _ (valid_set_authority_none G ok okp (split w) hv)⟩
  | path p =>
    exact ⟨_, C05.model_set_path G ok w h p, assemble G _ (valid_set_path G ok okp (split w) hv p hop)⟩
  | query v =>
    exact ⟨_, C05.model_set_query G ok w h v, set_query_inv G ok w h v hop⟩
  | fragment v =>
    exact ⟨_, C05.model_set_fragment G ok w h v, set_fragment_inv G ok w h v hop⟩

/-- **every finite sequence of setter calls** (induction over the operation list) -/
theorem setter_history (G : Grammar) (ok : Grammar.Ok G) (okp : Grammar.OkPath G) (ops : List SetOp)
    (w : Text) (h : RE.Matches G.reference w) (hops : ∀ op ∈ ops, op.Valid G) :
    ∃ w', runOps w ops = some w' ∧ RE.Matches G.reference w' := by
  induction ops generalizing w with
  | nil => exact ⟨w, rfl, h⟩
  | cons op ops ih =>
    obtain ⟨w1, h1, hv1⟩ := setter_step G ok okp w h op (hops op List.mem_cons_self)
    obtain ⟨w2, h2, hv2⟩ := ih w1 hv1 (fun o ho => hops o (List.mem_cons_of_mem _ ho))
    exact ⟨w2, by simp only [runOps, h1, h2], hv2⟩

/-! ## the full types (`UriBuf`, `IriBuf`): the scheme is mandatory -/

/-- a call of a setter of `UriBuf` / `IriBuf`: `set_scheme` takes a scheme, not an option -/
def SetOp.keepsScheme : SetOp → Bool
  | .scheme none => false
  | _ => true

/-- the decomposition after one setter call, as specified -/
def applyOp (P : Spec.Parts) : SetOp → Spec.Parts
  | .scheme (some s) => { P with scheme := some s }
  | .scheme none => { P with scheme := none, path := pathNoScheme P }
  | .authority (some a) => { P with authority := some a, path := pathWithAuth P }
  | .authority none => { P with authority := none, path := pathNoAuth P }
  | .path p => { P with path := setPathSpec P p }
  | .query v => { P with query := v }
  | .fragment v => { P with fragment := v }

/-- one setter call: the model returns the recomposition of the specified decomposition, which is
valid and is what the new text decomposes to -/
theorem setter_step_spec (G : Grammar) (ok : Grammar.Ok G) (okp : Grammar.OkPath G) (w : Text)
    (h : RE.Matches G.reference w) (op : SetOp) (hop : op.Valid G) :
    setStep w op = some (recompose (applyOp (split w) op)) ∧
    ValidParts G (applyOp (split w) op) ∧ split (recompose (applyOp (split w) op)) = applyOp (split w) op := by
  obtain ⟨hv, _⟩ := split_valid G ok w h
  have fin : ∀ P', ValidParts G P' → ValidParts G P' ∧ split (recompose P') = P' :=
    fun P' v => ⟨v, Lemmas.split_recompose P' (wf_of_valid G ok P' v)⟩
  cases op with
  | scheme v =>
    cases v with
    | some s => exact ⟨C05.model_set_scheme_some G ok w h s, fin _ (valid_set_scheme_some G ok okp (split w) hv s (hop s rfl))⟩
    | none => exact ⟨C05.model_set_scheme_none G ok w h, fin _ (valid_set_scheme_none G ok okp (split w) hv)⟩
  | authority v =>
    cases v with
    | some a => exact ⟨C05.model_set_authority_some G ok w h a, fin _ (valid_set_authority_some G ok okp (split w) hv a (hop a rfl))⟩
    | none => exact ⟨C05.model_set_authority_none G ok w h, fin _ (valid_set_authority_none G ok okp (split w) hv)⟩
  | path p => exact ⟨C05.model_set_path G ok w h p, fin _ (valid_set_path G ok okp (split w) hv p hop)⟩
  | query v =>
    exact ⟨C05.model_set_query G ok w h v, fin _ ⟨hv.scheme, hv.authority, hv.pathAuth, hv.pathScheme, hv.pathRel, hop, hv.fragment⟩⟩
  | fragment v =>
    exact ⟨C05.model_set_fragment G ok w h v, fin _ ⟨hv.scheme, hv.authority, hv.pathAuth, hv.pathScheme, hv.pathRel, hv.query, hop⟩⟩

/-- **`UriBuf` / `IriBuf`**: any finite sequence of setter calls that never removes the scheme
keeps the buffer a valid *full* URI/IRI -/
theorem setter_history_full (G : Grammar) (ok : Grammar.Ok G) (okp : Grammar.OkPath G) (ops : List SetOp)
    (w : Text) (h : RE.Matches G.full w) (hops : ∀ op ∈ ops, op.Valid G ∧ op.keepsScheme = true) :
    ∃ w', runOps w ops = some w' ∧ RE.Matches G.full w' := by
  induction ops generalizing w with
  | nil => exact ⟨w, rfl, h⟩
  | cons op ops ih =>
    have href : RE.Matches G.reference w := RE.Matches.altL h
    have hsch : (split w).scheme.isSome := ((C02.full_iff_scheme G ok w).mp h).2
    obtain ⟨e1, v1, s1⟩ := setter_step_spec G ok okp w href op (hops op List.mem_cons_self).1
    have hkeep := (hops op List.mem_cons_self).2
    have hs1 : (applyOp (split w) op).scheme.isSome := by
      cases op with
      | scheme v =>
        cases v with
        | some s => rfl
        | none => simp [SetOp.keepsScheme] at hkeep
      | authority v => cases v <;> exact hsch
      | path p => exact hsch
      | query v => exact hsch
      | fragment v => exact hsch
    have hfull : RE.Matches G.full (recompose (applyOp (split w) op)) :=
      (C02.full_iff_scheme G ok _).mpr ⟨(reference_iff G _).mpr ⟨_, rfl, v1⟩, by rw [s1]; exact hs1⟩
    obtain ⟨w2, e2, hv2⟩ := ih _ hfull (fun o ho => hops o (List.mem_cons_of_mem _ ho))
    exact ⟨w2, by simp only [runOps, e1, e2], hv2⟩

/-- end to end: any `UriRefBuf` the constructor accepts, any sequence of setters with valid
URI components -/
theorem uriRefBuf_setters (ops : List SetOp) (w : Text) (hb : ∀ c ∈ w, c < 256)
    (h : accepts .uriRef w = true) (hops : ∀ op ∈ ops, op.Valid uriG) :
    ∃ w', runOps w ops = some w' ∧ RE.Matches uriG.reference w' :=
  setter_history uriG uriG_ok uriG_okPath ops w (Valid.uriRef_octets w hb h) hops

/-- … any `IriRefBuf` (octets; arguments valid at octet level) -/
theorem iriRefBuf_setters (ops : List SetOp) (w : Text) (hb : ∀ c ∈ w, c < 256)
    (h : accepts .iriRef w = true) (hops : ∀ op ∈ ops, op.Valid iriGB) :
    ∃ w', runOps w ops = some w' ∧ RE.Matches iriGB.reference w' :=
  setter_history iriGB iriGB_ok iriGB_okPath ops w (Valid.iriRef_octets w hb h) hops

/-! ## the path handle, and every interleaving of the three ways to edit -/

open IrefVerif.Props.C10 in
/-- **a session on the path handle** keeps the reference valid, never panics, and changes nothing
but the path -/
theorem path_session (G : Grammar) (ok : Grammar.Ok G) (okp : Grammar.OkPath G) (w : Text)
    (h : RE.Matches G.reference w) (ops : List C10.PathOp) (hops : ∀ op ∈ ops, Lemmas.PathOp.Valid G op) :
    ∃ h', C10.pathRun (Model.Ref.path_mut w) ops = some h' ∧ RE.Matches G.reference h'.buffer ∧
      split h'.buffer = { split w with path := h'.view } := by
  obtain ⟨h', e, hv, hs, _⟩ := Lemmas.path_session_valid G ok okp w h ops hops
  exact ⟨h', e, hv, hs⟩

/-- a session on the authority handle keeps the reference valid -/
theorem authority_session (G : Grammar) (ok : Grammar.Ok G) (okp : Grammar.OkPath G) (oka : Grammar.OkAuth G)
    (w a : Text) (h : RE.Matches G.reference w) (ha : (split w).authority = some a) (ops : List C11.AmOp)
    (hops : ∀ op ∈ ops, op.Valid G) :
    ∃ hd hd', Model.Ref.authority_mut w = some hd ∧ C11.amRun hd ops = some hd' ∧
      RE.Matches G.reference hd'.data := by
  obtain ⟨hd, hd', e0, e1, hdata, _, hauth⟩ := C11.handle_in_reference G ok oka w a h ha ops hops
  refine ⟨hd, hd', e0, e1, ?_⟩
  obtain ⟨hv, _⟩ := split_valid G ok w h
  have hv' := valid_set_authority_some G ok okp (split w) hv _ hauth
  have hpw : Lemmas.pathWithAuth (split w) = (split w).path := by simp [Lemmas.pathWithAuth, ha]
  rw [hpw] at hv'
  rw [hdata]
  exact assemble G _ hv'

/-- one way of editing a buffer: a setter call, a session on `path_mut()`, a session on
`authority_mut()` (which returns `None`, so nothing happens, when there is no authority) -/
inductive Edit
  | set (op : SetOp)
  | path (ops : List C10.PathOp)
  | auth (ops : List C11.AmOp)

def Edit.Valid (G : Grammar) : Edit → Prop
  | .set op => op.Valid G
  | .path ops => ∀ op ∈ ops, Lemmas.PathOp.Valid G op
  | .auth ops => ∀ op ∈ ops, op.Valid G

def editStep (w : Text) : Edit → Option Text
  | .set op => setStep w op
  | .path ops => (C10.pathRun (Model.Ref.path_mut w) ops).map (·.buffer)
  | .auth ops =>
    match Model.Ref.authority_mut w with
    | some hd => (C11.amRun hd ops).map (·.data)
    | none => some w

def runEdits : Text → List Edit → Option Text
  | w, [] => some w
  | w, e :: es => match editStep w e with
    | some w' => runEdits w' es
    | none => none

theorem edit_step (G : Grammar) (ok : Grammar.Ok G) (okp : Grammar.OkPath G) (oka : Grammar.OkAuth G) (w : Text)
    (h : RE.Matches G.reference w) (e : Edit) (he : e.Valid G) :
    ∃ w', editStep w e = some w' ∧ RE.Matches G.reference w' := by
  cases e with
  | set op => exact setter_step G ok okp w h op he
  | path ops =>
    obtain ⟨h', e1, hv, _⟩ := path_session G ok okp w h ops he
    exact ⟨h'.buffer, by simp [editStep, e1], hv⟩
  | auth ops =>
    cases ha : (split w).authority with
    | some a =>
      obtain ⟨hd, hd', e0, e1, hv⟩ := authority_session G ok okp oka w a h ha ops he
      exact ⟨hd'.data, by simp [editStep, e0, e1], hv⟩
    | none =>
      obtain ⟨_, wf⟩ := split_valid G ok w h
      have hnone : Model.Ref.authority_mut w = none := by
        have := Lemmas.ref_authority_recompose (split w) wf
        rw [Lemmas.recompose_split, ha] at this
        unfold Model.Ref.authority at this
        unfold Model.Ref.authority_mut
        cases hf : (Model.Parse.find_authority w 0).toOption with
        | none => rfl
        | some r => rw [hf] at this; simp at this
      exact ⟨w, by simp [editStep, hnone], h⟩

/-- **every interleaving of setter calls, path-handle sessions and authority-handle sessions**
started from any valid reference: no panic, and a valid reference at the end -/
theorem edit_history (G : Grammar) (ok : Grammar.Ok G) (okp : Grammar.OkPath G) (oka : Grammar.OkAuth G)
    (es : List Edit) (w : Text) (h : RE.Matches G.reference w) (hes : ∀ e ∈ es, e.Valid G) :
    ∃ w', runEdits w es = some w' ∧ RE.Matches G.reference w' := by
  induction es generalizing w with
  | nil => exact ⟨w, rfl, h⟩
  | cons e es ih =>
    obtain ⟨w1, h1, hv1⟩ := edit_step G ok okp oka w h e (hes e List.mem_cons_self)
    obtain ⟨w2, h2, hv2⟩ := ih w1 hv1 (fun o ho => hes o (List.mem_cons_of_mem _ ho))
    exact ⟨w2, by simp only [runEdits, h1, h2], hv2⟩

/-- end to end: any `UriRefBuf` the constructor accepts -/
theorem uriRefBuf_edits (es : List Edit) (w : Text) (hb : ∀ c ∈ w, c < 256)
    (h : accepts .uriRef w = true) (hes : ∀ e ∈ es, e.Valid uriG) :
    ∃ w', runEdits w es = some w' ∧ RE.Matches uriG.reference w' :=
  edit_history uriG uriG_ok uriG_okPath uriG_okAuth es w (Valid.uriRef_octets w hb h) hes

/-- … any `IriRefBuf` (octets; arguments valid at octet level, so the result is well-formed
UTF-8 too) -/
theorem iriRefBuf_edits (es : List Edit) (w : Text) (hb : ∀ c ∈ w, c < 256)
    (h : accepts .iriRef w = true) (hes : ∀ e ∈ es, e.Valid iriGB) :
    ∃ w', runEdits w es = some w' ∧ RE.Matches iriGB.reference w' :=
  edit_history iriGB iriGB_ok iriGB_okPath iriGB_okAuth es w (Valid.iriRef_octets w hb h) hes

/-- **closed loop, URI family**: whatever `UriRefBuf::new` accepted, after any interleaving of
edits with valid arguments the buffer is again something `UriRef::new` accepts -/
theorem uriRefBuf_edits_accepted (es : List Edit) (w : Text) (hb : ∀ c ∈ w, c < 256)
    (h : accepts .uriRef w = true) (hes : ∀ e ∈ es, e.Valid uriG) :
    ∃ w', runEdits w es = some w' ∧ accepts .uriRef w' = true := by
  obtain ⟨w', e, hv⟩ := uriRefBuf_edits es w hb h hes
  exact ⟨w', e, Valid.uriRef_of_octets w' hv⟩

/-- **closed loop, IRI family**: the buffer stays well-formed UTF-8 whose scalar values form an
RFC 3987 `IRI-reference` — it is again something `IriRef::new` accepts (`Valid.iriRef_of_octets`:
the octet-level grammar `iriGB` is exact) -/
theorem iriRefBuf_edits_accepted (es : List Edit) (w : Text) (hb : ∀ c ∈ w, c < 256)
    (h : accepts .iriRef w = true) (hes : ∀ e ∈ es, e.Valid iriGB) :
    ∃ w', runEdits w es = some w' ∧ accepts .iriRef w' = true := by
  obtain ⟨w', e, hv⟩ := iriRefBuf_edits es w hb h hes
  exact ⟨w', e, Valid.iriRef_of_octets w' hv⟩

/-- non-vacuity: setters and both handles in one history, run by the model -/
example : runEdits [0x73, 0x3A, 0x2F, 0x2F, 0x68, 0x2F, 0x61]
    [.path [.push [], .pop, .pop, .push [0x62]], .auth [.port (some [0x38])], .set (.authority none),
     .path [.spush [0x2E, 0x2E], .push [], .push [0x63], .norm]]
    = some [0x73, 0x3A, 0x2F, 0x2E, 0x2F, 0x2F, 0x63] := by decide

/-- non-vacuity: a history that needs all three shields, run by the model -/
example : runOps [0x73, 0x3A, 0x61, 0x3A, 0x62]
    [.scheme none, .authority (some [0x68]), .path [0x2F, 0x2F, 0x78], .authority none, .query (some [0x71])]
    = some [0x2F, 0x2E, 0x2F, 0x2F, 0x78, 0x3F, 0x71] := by decide

end IrefVerif.Props.C04
