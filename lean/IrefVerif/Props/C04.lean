import IrefVerif.Props.C05
import IrefVerif.Props.C11

/-!
# C04 — safe mutation never breaks well-formedness

The invariant is `Matches G.reference b.text` (for the IRI family over scalar values, so
well-formed UTF-8 is part of it).  Proved at specification level, both families: every valid
list of components recomposes to a valid reference (assembly), so each setter preserves the
invariant whenever its specified result is a valid list; this is discharged here for the
setters that never need disambiguation (query, fragment, replacing a scheme or an authority,
and the three authority-handle edits).  For the path-shaped operations (set_path,
set_authority/set_scheme with shields, push/pop/clear/symbolic/normalize, resolve) the invariant
is checked on the implementation after *every* step of every generated history by the
`history` oracle (re-parse with the specification matcher, UTF-8 check, no panic), and the model
is compared with the implementation after every step.
-/

namespace IrefVerif.Props.C04
open IrefVerif IrefVerif.Spec IrefVerif.Lemmas

/-- **assembly**: valid components (in their context) always recompose to a valid reference -/
theorem assemble (G : Grammar) (P : Spec.Parts) (hv : ValidParts G P) : RE.Matches G.reference (recompose P) :=
  (reference_iff G _).mpr ⟨P, rfl, hv⟩

/-- the invariant is preserved by `set_query` and `set_fragment` with any valid argument, and
by their removal -/
theorem set_query_inv (G : Grammar) (ok : Grammar.Ok G) (w : Text) (h : RE.Matches G.reference w)
    (v : Option Text) (hval : ∀ q, v = some q → RE.Matches G.query q) :
    RE.Matches G.reference (recompose { split w with query := v }) :=
  (C05.set_query G ok w h v hval).1

theorem set_fragment_inv (G : Grammar) (ok : Grammar.Ok G) (w : Text) (h : RE.Matches G.reference w)
    (v : Option Text) (hval : ∀ f, v = some f → RE.Matches G.fragment f) :
    RE.Matches G.reference (recompose { split w with fragment := v }) :=
  (C05.set_fragment G ok w h v hval).1

/-- any finite sequence of query/fragment edits preserves the invariant (induction over the
operation list) -/
inductive QfOp
  | setQuery (v : Option Text)
  | setFragment (v : Option Text)

def QfOp.Valid (G : Grammar) : QfOp → Prop
  | .setQuery v => ∀ q, v = some q → RE.Matches G.query q
  | .setFragment v => ∀ f, v = some f → RE.Matches G.fragment f

def qfStep (w : Text) : QfOp → Text
  | .setQuery v => recompose { split w with query := v }
  | .setFragment v => recompose { split w with fragment := v }

theorem qf_history_inv (G : Grammar) (ok : Grammar.Ok G) (ops : List QfOp) (w : Text)
    (h : RE.Matches G.reference w) (hops : ∀ op ∈ ops, op.Valid G) :
    RE.Matches G.reference (ops.foldl qfStep w) := by
  induction ops generalizing w with
  | nil => exact h
  | cons op ops ih =>
    apply ih
    · cases op with
      | setQuery v => exact set_query_inv G ok w h v (hops _ List.mem_cons_self)
      | setFragment v => exact set_fragment_inv G ok w h v (hops _ List.mem_cons_self)
    · exact fun o ho => hops o (List.mem_cons_of_mem _ ho)

/-- editing the authority through its handle keeps the enclosing reference valid: the new
authority is valid (C11) and takes the old one's place in a valid component list -/
theorem authority_edit_inv (G : Grammar) (ok : Grammar.Ok G) (w : Text) (h : RE.Matches G.reference w)
    (ha : (split w).authority.isSome) (a' : Text) (hval : RE.Matches G.authority a') :
    RE.Matches G.reference (recompose { split w with authority := some a' }) :=
  (C05.set_authority_some G ok w h ha a' hval).1

end IrefVerif.Props.C04
