import IrefVerif.Lemmas.AuthValid

/-!
# C03 — authority accessors return user info, host and port per RFC 3986 §3.2

`splitAuth` is the specification (`[ userinfo "@" ] host [ ":" port ]`, an IP-literal running to
its closing bracket, any other host to the first `:`).  The model is `Model.Authority.parts`
(a transliteration of `AuthorityImpl::parts` over `parse::user_info_or_host`, `host`, `port`).
-/

namespace IrefVerif.Props.C03
open IrefVerif IrefVerif.Spec IrefVerif.Lemmas

/-- **reassembly**, for every text: `[userinfo '@'] host [':' port]` reproduces the authority -/
theorem reassemble (a : Text) : recomposeAuth (splitAuth a) = a := recomposeAuth_splitAuth a

/-- **uniqueness**: well-formed sub-components are what their reassembly splits into -/
theorem split_reassemble (A : AuthParts) (wf : WFA A) : splitAuth (recomposeAuth A) = A :=
  splitAuth_recompose A wf

/-- a valid authority is the reassembly of valid sub-components, and conversely (both families) -/
theorem authority_iff_parts (G : Grammar) (a : Text) :
    RE.Matches G.authority a ↔ ∃ A : AuthParts, recomposeAuth A = a ∧ ValidAuth G A :=
  authority_iff G a

/-- **URI family**: for every valid authority the all-at-once decomposition of the model is the
RFC's, every part is a valid value of its own type, and the parts reassemble the text -/
theorem uri_authority_parts (a : Text) (h : RE.Matches Rfc3986.authority a) :
    modelAuthParts a = splitAuth a ∧ ValidAuth uriG (splitAuth a) ∧ recomposeAuth (splitAuth a) = a :=
  authority_parts uriG uriG_okAuth a (uriG_authority ▸ h)

/-- **IRI family** (over Unicode scalar values) -/
theorem iri_authority_parts (a : Text) (h : RE.Matches Rfc3987.iauthority a) :
    modelAuthParts a = splitAuth a ∧ ValidAuth iriG (splitAuth a) ∧ recomposeAuth (splitAuth a) = a :=
  authority_parts iriG iriG_okAuth a (iriG_authority ▸ h)

/-- a host is an IP-literal (bracketed, may contain `:`) or contains neither `:` nor `[` nor `@` -/
theorem uri_host_shape (h : Text) (hm : RE.Matches Rfc3986.host h) :
    (∃ inner, h = cLBr :: inner ++ [cRBr] ∧ cRBr ∉ inner ∧ cAt ∉ inner) ∨ (cLBr ∉ h ∧ cColon ∉ h ∧ cAt ∉ h) :=
  uriG_okAuth.hostShape h hm

/-- non-vacuity: IP-literal host with user info and port; empty host with empty port -/
example : modelAuthParts [0x75, 0x40, 0x5B, 0x3A, 0x3A, 0x31, 0x5D, 0x3A, 0x38, 0x30]
    = (⟨some [0x75], [0x5B, 0x3A, 0x3A, 0x31, 0x5D], some [0x38, 0x30]⟩ : AuthParts) := by decide
example : splitAuth [0x3A] = (⟨none, [], some []⟩ : AuthParts) := by decide
example : RE.Matches Rfc3986.authority [0x75, 0x40, 0x5B, 0x3A, 0x3A, 0x31, 0x5D, 0x3A, 0x38, 0x30] := by decide

end IrefVerif.Props.C03
