import IrefVerif.Props.C01

/-!
# C14 — text is preserved through every route in and out, including serde

In the model every route *in* (`new`, owned `new`, `TryFrom`, `FromStr`, `from_vec`, serde
string/bytes visitors, borrowed and owned) is `construct`: a UTF-8 check for the `str`-backed
types followed by the generated `validate`; every route *out* is the identity on the stored
text, and parsing/comparing/hashing are functions *of* the text that never rewrite it.  So the
content of C14 on the model side is C01 restated for the routes; the glue itself
(`derive`-generated impls, serde's runtime, `Display`/`Debug`) is Rust that a Lean model cannot
exhibit — it is exercised route by route on generated valid and ill-formed inputs by the
`ctor` and `routes` streams (partial: sampled, not proved).
-/

namespace IrefVerif.Props.C14
open IrefVerif

/-- a route in accepts exactly what the validating constructor's specification accepts -/
theorem route_in_accepts (k : Kind) (bytes : List Nat) (hb : ∀ c ∈ bytes, c < 256) :
    accepts k bytes = acceptsSpec k bytes := C01.accepts_eq_spec k bytes hb

/-- an ill-formed value cannot be obtained: whatever is constructed is in the RFC language -/
theorem constructed_is_valid (k : Kind) (bytes t : List Nat) (hb : ∀ c ∈ bytes, c < 256)
    (h : construct k bytes = .ok t) : acceptsSpec k t = true := by
  have ht := C01.construct_ok_text k bytes t h
  subst ht
  rw [← C01.accepts_eq_spec k t hb]
  unfold construct at h
  split at h
  · assumption
  · cases h

/-- ill-formed UTF-8 is rejected by every `str`-backed type, with the input handed back -/
theorem bad_utf8_rejected (k : Kind) (bytes : List Nat) (hk : k.isChar = true)
    (hbad : Spec.utf8Decode? bytes = none) : construct k bytes = .err bytes := by
  unfold construct accepts symbols
  simp [hk, hbad]

example : construct .iriRef [0x61, 0xC3] = .err [0x61, 0xC3] := by decide +kernel
example : construct .iriRef [0x61, 0xC3, 0xA9] = .ok [0x61, 0xC3, 0xA9] := by decide +kernel

end IrefVerif.Props.C14
