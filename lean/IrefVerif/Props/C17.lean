import IrefVerif.Props.C01

/-!
# C17 — compile-time macros accept and produce exactly what the run-time parser does

Model of `crates/macros/src/lib.rs`: `uri!(lit)` calls `UriBuf::new(lit.value().into_bytes())`
(resp. `IriBuf::new(lit.value())`, …) — the *same* checked constructor as at run time — and
expands to `Type::new_unchecked(<those bytes>)` on success and to `compile_error!` on failure.
The theorems are therefore C01's, restated for the expansion.  What the Rust compiler does with
the proc macro (`syn::LitStr::value`, `quote!`, const evaluation, error reporting) is compiler
behaviour that the model cannot exhibit: it is observed on generated crates by the `macros`
check (partial: sampled programs).
-/

namespace IrefVerif.Props.C17
open IrefVerif

inductive Expansion
  | value (text : List Nat)   -- `unsafe { T::new_unchecked(<text>) }`
  | compileError
  deriving DecidableEq, Repr

/-- which validated type each macro builds -/
inductive Macro | uri | uriRef | iri | iriRef

def Macro.kind : Macro → Kind
  | .uri => .uri | .uriRef => .uriRef | .iri => .iri | .iriRef => .iriRef

/-- the expansion, as a function of the UTF-8 bytes of the literal's value -/
def expand (m : Macro) (lit : List Nat) : Expansion :=
  match construct m.kind lit with
  | .ok t => .value t
  | .err _ => .compileError

/-- a literal is accepted at compile time exactly when the run-time parser accepts it -/
theorem expand_ok_iff (m : Macro) (lit : List Nat) :
    (∃ t, expand m lit = .value t) ↔ (∃ t, construct m.kind lit = .ok t) := by
  unfold expand
  cases construct m.kind lit <;> simp

/-- … i.e. exactly when it is in the RFC language -/
theorem expand_ok_iff_spec (m : Macro) (lit : List Nat) (hb : ∀ c ∈ lit, c < 256) :
    (∃ t, expand m lit = .value t) ↔ acceptsSpec m.kind lit = true := by
  rw [expand_ok_iff]
  unfold construct
  rw [C01.accepts_eq_spec m.kind lit hb]
  by_cases h : acceptsSpec m.kind lit = true <;> simp [h]

/-- the produced value has exactly the literal's text -/
theorem expand_value (m : Macro) (lit t : List Nat) (h : expand m lit = .value t) : t = lit := by
  unfold expand at h
  cases hc : construct m.kind lit with
  | ok t' => rw [hc] at h; injection h with h; subst h; exact C01.construct_ok_text _ _ _ hc
  | err p => rw [hc] at h; cases h

/-- a rejected literal is a compile error (never a run-time failure) -/
theorem expand_err (m : Macro) (lit : List Nat) (h : accepts m.kind lit = false) : expand m lit = .compileError := by
  unfold expand construct; simp [h]

example : expand .uriRef [0x61, 0x20, 0x62] = .compileError := by decide +kernel
example : expand .iriRef [0xC3, 0xA9] = .value [0xC3, 0xA9] := by decide +kernel

end IrefVerif.Props.C17
