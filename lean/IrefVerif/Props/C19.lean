import IrefVerif.Lemmas.PctBytes
import IrefVerif.Lemmas.PctAlgebra
import IrefVerif.Lemmas.PctChars
import IrefVerif.Lemmas.Utf8Enc
import IrefVerif.Findings

/-!
# C19 — percent-decoded views of components

Total part, proved: for every component in which each `%` is followed by two hex digits (every
valid component), the octet view is total and equals the component's bytes with each `%XX`
replaced (`pctBytes = pctDecode`).
Open finding F13 (not repairable inside iref: the behaviour is `pct_str::PctStr`'s, and
`as_pct_str()` returns that type): `chars`, `len`, `decode` and `== str` unwrap a lenient
UTF-8 decoder.  The negative facts are proved on concrete witnesses below; the class predicate
`Findings.f13` ("the decoded octets are not strict UTF-8") is exactly the excluded hypothesis.
The positive statement for `chars` is proved for the model on the complement of that class
(`chars_faithful`): wherever the decoded octets are well-formed UTF-8, iterating the characters to
the end does not panic and yields exactly the scalar values of the strict decoding — overlong and
ill-formed sequences are never in that class, so they are never equated with well-formed text by
this theorem's reading.
-/

namespace IrefVerif.Props.C19
open IrefVerif IrefVerif.Spec IrefVerif.Model.Cmp IrefVerif.Lemmas

/-- **octets**: total and faithful -/
theorem bytes_spec (x : Text) (hw : wellEscaped x = true) : pctBytes x = some (pctDecode x) :=
  pctBytes_eq_decode x hw

/-- the octet view of a text without `%` is the text itself -/
theorem bytes_plain (x : Text) (h : cPct ∉ x) : pctDecode x = x := by
  fun_induction pctDecode x with
  | case1 => rfl
  | case2 c => rfl
  | case3 c a ih =>
    have := ih (fun e => h (List.mem_cons_of_mem _ e))
    simp [this]
  | case4 c a b rest hc x y hx hy ih =>
    exfalso
    have : c = cPct := by simpa using hc
    exact h (this ▸ List.mem_cons_self)
  | case5 c a b rest hc hxy ih =>
    have := ih (fun e => h (List.mem_cons_of_mem _ e))
    simp [this]
  | case6 c a b rest hc ih =>
    have := ih (fun e => h (List.mem_cons_of_mem _ e))
    simp [this]

/-- **characters**: outside the F13 class (decoded octets well-formed UTF-8) the model of
`PctStr::chars()` is total and yields the UTF-8 text of the decoded octets -/
theorem chars_faithful (x : Text) (hw : wellEscaped x = true) (hf : Findings.f13 x = false) :
    charsAll x = utf8Decode? (pctDecode x) := by
  unfold Findings.f13 at hf
  cases hd : utf8Decode? (pctDecode x) with
  | none => rw [hd] at hf; simp at hf
  | some w => exact charsAll_spec x w hw hd

/-- … `decode()` (the string of those characters) is the decoded octets, and `len()` their number
of characters -/
theorem decode_faithful (x : Text) (w : List Nat) (hw : wellEscaped x = true)
    (hd : utf8Decode? (pctDecode x) = some w) :
    charsAll x = some w ∧ utf8Encode w = pctDecode x :=
  ⟨charsAll_spec x w hw hd, utf8Encode_decode _ w hd⟩

theorem eqLoop_refl_ch (w : List Nat) : eqLoop (w.map Item.ch) (w.map Item.ch) = some true := by
  induction w with
  | nil => rfl
  | cons c w ih => simp [eqLoop, ih]

/-- … and comparing the view with its own decoded text (`PctStr == str`) is `true`, without panic -/
theorem eq_decoded_text (x : Text) (w : List Nat) (hw : wellEscaped x = true)
    (hd : utf8Decode? (pctDecode x) = some w) :
    eqLoop (chars x) (w.map Item.ch) = some true := by
  unfold chars
  rw [charsFuel_spec _ x w (Nat.lt_succ_self _) hw hd]
  exact eqLoop_refl_ch w

/-! ## "each %XX replaced by that octet", as equations -/

/-- an escape decodes to its octet, whatever follows -/
theorem octets_escape (a b x y : Nat) (t : Text) (ha : hexVal a = some x) (hb : hexVal b = some y) :
    pctDecode (cPct :: a :: b :: t) = (16 * x + y) :: pctDecode t := pctDecode_escape a b x y t ha hb

/-- any other character is kept -/
theorem octets_plain (c : Nat) (t : Text) (h : (c == cPct) = false) :
    pctDecode (c :: t) = c :: pctDecode t := pctDecode_plain c t h

/-- **the octet view of a component does not depend on what follows it**: decoding distributes
over concatenation behind a well-escaped text, and the implementation's `bytes()` of the
concatenation of two well-escaped texts is the concatenation of their octets -/
theorem octets_append (a b : Text) (ha : wellEscaped a = true) :
    pctDecode (a ++ b) = pctDecode a ++ pctDecode b := pctDecode_append a b ha

/-- the octets are never more than the text's characters -/
theorem octets_length_le (x : Text) : (pctDecode x).length ≤ x.length := pctDecode_length_le x

/-- **every octet string is the view of some component text**: the decoded view is onto, so no
octet value (NUL, delimiters, ill-formed UTF-8 included) is unreachable by `bytes()` -/
theorem octets_onto (l : List Nat) (h : ∀ b ∈ l, b < 256) :
    ∃ x, wellEscaped x = true ∧ pctBytes x = some l := by
  obtain ⟨w, d⟩ := pctDecode_encodeAll l h
  exact ⟨pctEncodeAll l, w, by rw [bytes_spec _ w, d]⟩

example : pctEncodeAll [0x00, 0x2F, 0xFF] = [0x25, 0x30, 0x30, 0x25, 0x32, 0x46, 0x25, 0x46, 0x46] := by decide

/-- F13, witnesses: `%FF`.chars() panics; the overlong `%C0%AF` reads as `/`; an encoded
surrogate panics — and all three are in the finding's class -/
example : charsAll [0x25, 0x46, 0x46] = none := by decide
example : charsAll [0x25, 0x43, 0x30, 0x25, 0x41, 0x46] = some [0x2F] := by decide
example : charsAll [0x25, 0x45, 0x44, 0x25, 0x41, 0x30, 0x25, 0x38, 0x30] = none := by decide
example : Findings.f13 [0x25, 0x46, 0x46] = true := by decide
example : Findings.f13 [0x25, 0x43, 0x30, 0x25, 0x41, 0x46] = true := by decide
/-- well-formed multi-byte UTF-8 split over several escapes, mixed with literal text -/
example : charsAll [0x61, 0x25, 0x43, 0x33, 0x25, 0x41, 0x39, 0xC3, 0xA9] = some [0x61, 0xE9, 0xE9] := by decide
example : Findings.f13 [0x61, 0x25, 0x43, 0x33, 0x25, 0x41, 0x39, 0xC3, 0xA9] = false := by decide

end IrefVerif.Props.C19
