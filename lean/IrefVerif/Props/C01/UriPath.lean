import IrefVerif.Gen.Automata
import IrefVerif.Gen.Certs
import IrefVerif.Spec.Rfc3986
import IrefVerif.Spec.Rfc3987

/-! C01, one automaton: the `validate` table generated for this type (regenerated from /repo on
every run) accepts exactly the language of the RFC production.  The hypothesis of
`verify*_sound` is a closed Boolean term evaluated by the kernel (`decide +kernel`). -/

namespace IrefVerif.Props.C01
open IrefVerif

set_option maxRecDepth 1000000 in
theorem uriPath_language (w : List Nat) (hw : ∀ c ∈ w, IsByte c) :
    Gen.uriPath.run w = true ↔ RE.Matches Rfc3986.path w :=
  verifyBytes_sound (d := Gen.uriPath) (r0 := Rfc3986.path) (parts := Gen.Certs.uriPath_parts)
    (cert := Gen.Certs.uriPath_cert) (by decide +kernel) w hw

end IrefVerif.Props.C01
