import IrefVerif.Gen.Automata
import IrefVerif.Gen.Certs
import IrefVerif.Spec.Rfc3986
import IrefVerif.Spec.Rfc3987

/-! C01, one automaton: the `validate` table generated for this type (regenerated from /repo on
every run) accepts exactly the language of the RFC production.  The hypothesis of
`verify*_sound` is a closed Boolean term evaluated by the kernel (`decide +kernel`). -/

namespace IrefVerif.Props.C01
open IrefVerif

set_option maxRecDepth 1000000 in
theorem iri_language (w : List Nat) (hw : ∀ c ∈ w, IsScalar c) :
    Gen.iri.run w = true ↔ RE.Matches Rfc3987.IRI w :=
  verifyScalars_sound (d := Gen.iri) (r0 := Rfc3987.IRI) (p1 := Gen.Certs.iri_parts1)
    (p2 := Gen.Certs.iri_parts2) (cert := Gen.Certs.iri_cert) (by decide +kernel) w hw

end IrefVerif.Props.C01
