import IrefVerif.Gen.Automata
import IrefVerif.Gen.Certs
import IrefVerif.Spec.Rfc3986
import IrefVerif.Spec.Rfc3987

/-! C01, one automaton: the `validate` table generated for this type (regenerated from /repo on
every run) accepts exactly the language of the RFC production.  The hypothesis of
`verify*_sound` is a closed Boolean term evaluated by the kernel (`decide +kernel`). -/

namespace IrefVerif.Props.C01
open IrefVerif

set_option maxRecDepth 1000000 in
theorem uriFragment_language (w : List Nat) (hw : ∀ c ∈ w, IsByte c) :
    Gen.uriFragment.run w = true ↔ RE.Matches Rfc3986.fragment w :=
  verifyBytes_sound (d := Gen.uriFragment) (r0 := Rfc3986.fragment) (parts := Gen.Certs.uriFragment_parts)
    (cert := Gen.Certs.uriFragment_cert) (by decide +kernel) w hw

end IrefVerif.Props.C01
