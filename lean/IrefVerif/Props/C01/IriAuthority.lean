import IrefVerif.Gen.Automata
import IrefVerif.Gen.Certs
import IrefVerif.Spec.Rfc3986
import IrefVerif.Spec.Rfc3987

/-! C01, one automaton: the `validate` table generated for this type (regenerated from /repo on
every run) accepts exactly the language of the RFC production.  The hypothesis of
`verify*_sound` is a closed Boolean term evaluated by the kernel (`decide +kernel`). -/

namespace IrefVerif.Props.C01
open IrefVerif

set_option maxRecDepth 1000000 in
theorem iriAuthority_language (w : List Nat) (hw : ∀ c ∈ w, IsScalar c) :
    Gen.iriAuthority.run w = true ↔ RE.Matches Rfc3987.iauthority w :=
  verifyScalars_sound (d := Gen.iriAuthority) (r0 := Rfc3987.iauthority) (p1 := Gen.Certs.iriAuthority_parts1)
    (p2 := Gen.Certs.iriAuthority_parts2) (cert := Gen.Certs.iriAuthority_cert) (by decide +kernel) w hw

end IrefVerif.Props.C01
