import IrefVerif.Lemmas.AuthValid
import IrefVerif.Lemmas.AuthMutModel
import IrefVerif.Lemmas.ValidWF

/-!
# C11 — authority editing changes one sub-component

Specification level, for both families: replacing the user info, host or port of a valid
authority by a valid value (or removing it) gives a valid authority whose decomposition is the
old one with exactly that field replaced — the other two sub-components read back identical.
Model level (`handle_step`, `handle_history`, `handle_in_reference`): on the *model of the Rust
handle* (`Model.AuthorityMut`, with its `start`/`end` window, the scans `find_user_info` /
`find_host` / `find_port` inside the enclosing buffer and the checked `usize` subtractions), for
**every finite sequence** of `set_userinfo` / `set_host` / `set_port` calls with valid arguments,
starting from the handle of any valid reference that has an authority: no call panics, after
every call the window is exactly the new authority text, the octets before and after the
window — scheme, path, query, fragment — are untouched, and the sub-components are the old ones
with exactly the edited fields replaced (so further edits through the same handle behave as on
a fresh one: the invariant is the same).  The model is compared with the real handle after every
step of every edit sequence by the `authmut` stream; `Oracle.amStep` judges the implementation's
views with `splitAuth`.
-/

namespace IrefVerif.Props.C11
open IrefVerif IrefVerif.Spec IrefVerif.Lemmas IrefVerif.Model

/-- replacing one field of valid sub-components by a valid value keeps them valid -/
theorem valid_set_userinfo (G : Grammar) (A : AuthParts) (hv : ValidAuth G A) (v : Option Text)
    (hval : ∀ u, v = some u → RE.Matches G.userinfo u) : ValidAuth G { A with userinfo := v } :=
  ⟨hval, hv.host, hv.port⟩

theorem valid_set_host (G : Grammar) (A : AuthParts) (hv : ValidAuth G A) (v : Text)
    (hval : RE.Matches G.host v) : ValidAuth G { A with host := v } :=
  ⟨hv.userinfo, hval, hv.port⟩

theorem valid_set_port (G : Grammar) (A : AuthParts) (hv : ValidAuth G A) (v : Option Text)
    (hval : ∀ p, v = some p → RE.Matches Rfc3986.port p) : ValidAuth G { A with port := v } :=
  ⟨hv.userinfo, hv.host, hval⟩

/-- **the edited authority reads back with exactly that sub-component changed**: the text of
the new authority is valid and splits into the new user info and the *old* host and port -/
theorem set_userinfo_reads_back (G : Grammar) (ok : Grammar.OkAuth G) (a : Text)
    (h : RE.Matches G.authority a) (v : Option Text) (hval : ∀ u, v = some u → RE.Matches G.userinfo u) :
    let A' : AuthParts := { splitAuth a with userinfo := v }
    RE.Matches G.authority (recomposeAuth A') ∧ splitAuth (recomposeAuth A') = A' := by
  intro A'
  obtain ⟨_, hv, _⟩ := authority_parts G ok a h
  have hv' := valid_set_userinfo G (splitAuth a) hv v hval
  exact ⟨(authority_iff G _).mpr ⟨A', rfl, hv'⟩,
    splitAuth_recompose A' (wfa_of_valid G ok A' hv').toWFA⟩

theorem set_host_reads_back (G : Grammar) (ok : Grammar.OkAuth G) (a : Text)
    (h : RE.Matches G.authority a) (v : Text) (hval : RE.Matches G.host v) :
    let A' : AuthParts := { splitAuth a with host := v }
    RE.Matches G.authority (recomposeAuth A') ∧ splitAuth (recomposeAuth A') = A' := by
  intro A'
  obtain ⟨_, hv, _⟩ := authority_parts G ok a h
  have hv' := valid_set_host G (splitAuth a) hv v hval
  exact ⟨(authority_iff G _).mpr ⟨A', rfl, hv'⟩,
    splitAuth_recompose A' (wfa_of_valid G ok A' hv').toWFA⟩

theorem set_port_reads_back (G : Grammar) (ok : Grammar.OkAuth G) (a : Text)
    (h : RE.Matches G.authority a) (v : Option Text) (hval : ∀ p, v = some p → RE.Matches Rfc3986.port p) :
    let A' : AuthParts := { splitAuth a with port := v }
    RE.Matches G.authority (recomposeAuth A') ∧ splitAuth (recomposeAuth A') = A' := by
  intro A'
  obtain ⟨_, hv, _⟩ := authority_parts G ok a h
  have hv' := valid_set_port G (splitAuth a) hv v hval
  exact ⟨(authority_iff G _).mpr ⟨A', rfl, hv'⟩,
    splitAuth_recompose A' (wfa_of_valid G ok A' hv').toWFA⟩

/-! ## the model of the handle, for every sequence of edits -/

inductive AmOp
  | ui (v : Option Text)
  | host (v : Text)
  | port (v : Option Text)

def AmOp.Valid (G : Grammar) : AmOp → Prop
  | .ui v => ∀ u, v = some u → RE.Matches G.userinfo u
  | .host v => RE.Matches G.host v
  | .port v => ∀ p, v = some p → RE.Matches Rfc3986.port p

/-- the model of one call (`none` = panic) -/
def amStep (h : AuthorityMut) : AmOp → Option AuthorityMut
  | .ui v => h.set_userinfo v
  | .host v => h.set_host v
  | .port v => h.set_port v

/-- the specified effect on the sub-components -/
def amApply (A : AuthParts) : AmOp → AuthParts
  | .ui v => { A with userinfo := v }
  | .host v => { A with host := v }
  | .port v => { A with port := v }

def amRun : AuthorityMut → List AmOp → Option AuthorityMut
  | h, [] => some h
  | h, op :: ops => match amStep h op with
    | some h' => amRun h' ops
    | none => none

/-- **one edit**: no panic; the window is the new authority; everything around it is untouched;
the sub-components are valid again -/
theorem handle_step (G : Grammar) (ok : Grammar.OkAuth G) (h : AuthorityMut) (pre post : Text) (A : AuthParts)
    (inv : HInv h pre A post) (hv : ValidAuth G A) (op : AmOp) (hop : op.Valid G) :
    ∃ h', amStep h op = some h' ∧ HInv h' pre (amApply A op) post ∧ ValidAuth G (amApply A op) := by
  have wf := wfa_of_valid G ok A hv
  cases op with
  | ui v =>
    obtain ⟨h', e, i'⟩ := set_userinfo_inv h pre A post inv wf v
    exact ⟨h', e, i', valid_set_userinfo G A hv v hop⟩
  | host v =>
    obtain ⟨h', e, i'⟩ := set_host_inv h pre A post inv wf v
    exact ⟨h', e, i', valid_set_host G A hv v hop⟩
  | port v =>
    obtain ⟨h', e, i'⟩ := set_port_inv h pre A post inv wf v
    exact ⟨h', e, i', valid_set_port G A hv v hop⟩

/-- **every finite sequence of edits through one handle** -/
theorem handle_history (G : Grammar) (ok : Grammar.OkAuth G) (ops : List AmOp) (h : AuthorityMut)
    (pre post : Text) (A : AuthParts) (inv : HInv h pre A post) (hv : ValidAuth G A)
    (hops : ∀ op ∈ ops, op.Valid G) :
    ∃ h', amRun h ops = some h' ∧ HInv h' pre (ops.foldl amApply A) post ∧
      ValidAuth G (ops.foldl amApply A) := by
  induction ops generalizing h A with
  | nil => exact ⟨h, rfl, inv, hv⟩
  | cons op ops ih =>
    obtain ⟨h1, e1, i1, v1⟩ := handle_step G ok h pre post A inv hv op (hops op List.mem_cons_self)
    obtain ⟨h2, e2, i2, v2⟩ := ih h1 (amApply A op) i1 v1 (fun o ho => hops o (List.mem_cons_of_mem _ ho))
    exact ⟨h2, by simp only [amRun, e1, e2], i2, v2⟩

/-- the handle of a valid reference satisfies the invariant: the window found by
`authority_mut()` is the authority, between the scheme and the path -/
theorem handle_of_reference (G : Grammar) (ok : Grammar.Ok G) (oka : Grammar.OkAuth G) (w a : Text)
    (h : RE.Matches G.reference w) (ha : (split w).authority = some a) :
    ∃ hd, Ref.authority_mut w = some hd ∧
      HInv hd (schemeText (split w).scheme ++ [cSlash, cSlash]) (splitAuth a)
        ((split w).path ++ queryText (split w).query ++ fragText (split w).fragment) ∧
      ValidAuth G (splitAuth a) := by
  obtain ⟨hv, wf⟩ := split_valid G ok w h
  obtain ⟨_, hva, hra⟩ := authority_parts G oka a (hv.authority a ha)
  have hfull := find_authority_recompose_full (split w) wf
  rw [Lemmas.recompose_split] at hfull
  simp only [ha] at hfull
  refine ⟨{ data := w, start := (schemeText (split w).scheme).length + 2,
            «end» := (schemeText (split w).scheme).length + 2 + a.length }, ?_, ?_, hva⟩
  · simp only [Ref.authority_mut, hfull, Parse.Found.toOption, Option.map_some]
  refine ⟨?_, by simp, by simp [hra]⟩
  have := (Lemmas.recompose_split w).symm
  rw [recompose_eq, ha] at this
  rw [hra]
  simpa [authText, List.append_assoc] using this

/-- **end to end**: any sequence of valid handle edits on a valid reference leaves exactly
`recompose` of the old components with the authority replaced by the edited one -/
theorem handle_in_reference (G : Grammar) (ok : Grammar.Ok G) (oka : Grammar.OkAuth G) (w a : Text)
    (h : RE.Matches G.reference w) (ha : (split w).authority = some a) (ops : List AmOp)
    (hops : ∀ op ∈ ops, op.Valid G) :
    ∃ hd hd', Ref.authority_mut w = some hd ∧ amRun hd ops = some hd' ∧
      hd'.data = recompose { split w with authority := some (recomposeAuth (ops.foldl amApply (splitAuth a))) } ∧
      hd'.as_authority = recomposeAuth (ops.foldl amApply (splitAuth a)) ∧
      RE.Matches G.authority (recomposeAuth (ops.foldl amApply (splitAuth a))) := by
  obtain ⟨hd, e0, i0, v0⟩ := handle_of_reference G ok oka w a h ha
  obtain ⟨hd', e1, i1, v1⟩ := handle_history G oka ops hd _ _ _ i0 v0 hops
  refine ⟨hd, hd', e0, e1, ?_, i1.view, (authority_iff G _).mpr ⟨_, rfl, v1⟩⟩
  rw [i1.data, recompose_eq]
  simp [authText, List.append_assoc]

/-- the model handle on the design's witness: replacing a shorter user info by a longer one and
then setting the port edits the right places (this was finding F5) -/
example :
    ((Model.AuthorityMut.mk [0x73, 0x3A, 0x2F, 0x2F, 0x75, 0x40, 0x68, 0x3A, 0x31, 0x2F, 0x70] 4 9).set_userinfo
        (some [0x6C, 0x6F, 0x6E, 0x67])).bind (fun h => h.set_port (some [0x38, 0x30]))
      = some (Model.AuthorityMut.mk
          [0x73, 0x3A, 0x2F, 0x2F, 0x6C, 0x6F, 0x6E, 0x67, 0x40, 0x68, 0x3A, 0x38, 0x30, 0x2F, 0x70] 4 13) := by
  decide

end IrefVerif.Props.C11
