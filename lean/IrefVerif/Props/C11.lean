import IrefVerif.Lemmas.AuthValid

/-!
# C11 — authority editing changes one sub-component

Specification level, for both families: replacing the user info, host or port of a valid
authority by a valid value (or removing it) gives a valid authority whose decomposition is the
old one with exactly that field replaced — the other two sub-components read back identical.
The handle model (`Model.AuthorityMut`, with its `start`/`end` window and checked `usize`
subtractions) is compared with the real handle after every step of every edit sequence by the
`authmut` stream; `Oracle.amStep` judges the implementation's views with `splitAuth`.
-/

namespace IrefVerif.Props.C11
open IrefVerif IrefVerif.Spec IrefVerif.Lemmas

/-- replacing one field of valid sub-components by a valid value keeps them valid -/
theorem valid_set_userinfo (G : Grammar) (A : AuthParts) (hv : ValidAuth G A) (v : Option Text)
    (hval : ∀ u, v = some u → RE.Matches G.userinfo u) : ValidAuth G { A with userinfo := v } :=
  ⟨hval, hv.host, hv.port⟩

theorem valid_set_host (G : Grammar) (A : AuthParts) (hv : ValidAuth G A) (v : Text)
    (hval : RE.Matches G.host v) : ValidAuth G { A with host := v } :=
  ⟨hv.userinfo, hval, hv.port⟩

theorem valid_set_port (G : Grammar) (A : AuthParts) (hv : ValidAuth G A) (v : Option Text)
    (hval : ∀ p, v = some p → RE.Matches Rfc3986.port p) : ValidAuth G { A with port := v } :=
  ⟨hv.userinfo, hv.host, hval⟩

/-- **the edited authority reads back with exactly that sub-component changed**: the text of
the new authority is valid and splits into the new user info and the *old* host and port -/
theorem set_userinfo_reads_back (G : Grammar) (ok : Grammar.OkAuth G) (a : Text)
    (h : RE.Matches G.authority a) (v : Option Text) (hval : ∀ u, v = some u → RE.Matches G.userinfo u) :
    let A' : AuthParts := { splitAuth a with userinfo := v }
    RE.Matches G.authority (recomposeAuth A') ∧ splitAuth (recomposeAuth A') = A' := by
  intro A'
  obtain ⟨_, hv, _⟩ := authority_parts G ok a h
  have hv' := valid_set_userinfo G (splitAuth a) hv v hval
  exact ⟨(authority_iff G _).mpr ⟨A', rfl, hv'⟩,
    splitAuth_recompose A' (wfa_of_valid G ok A' hv').toWFA⟩

theorem set_host_reads_back (G : Grammar) (ok : Grammar.OkAuth G) (a : Text)
    (h : RE.Matches G.authority a) (v : Text) (hval : RE.Matches G.host v) :
    let A' : AuthParts := { splitAuth a with host := v }
    RE.Matches G.authority (recomposeAuth A') ∧ splitAuth (recomposeAuth A') = A' := by
  intro A'
  obtain ⟨_, hv, _⟩ := authority_parts G ok a h
  have hv' := valid_set_host G (splitAuth a) hv v hval
  exact ⟨(authority_iff G _).mpr ⟨A', rfl, hv'⟩,
    splitAuth_recompose A' (wfa_of_valid G ok A' hv').toWFA⟩

theorem set_port_reads_back (G : Grammar) (ok : Grammar.OkAuth G) (a : Text)
    (h : RE.Matches G.authority a) (v : Option Text) (hval : ∀ p, v = some p → RE.Matches Rfc3986.port p) :
    let A' : AuthParts := { splitAuth a with port := v }
    RE.Matches G.authority (recomposeAuth A') ∧ splitAuth (recomposeAuth A') = A' := by
  intro A'
  obtain ⟨_, hv, _⟩ := authority_parts G ok a h
  have hv' := valid_set_port G (splitAuth a) hv v hval
  exact ⟨(authority_iff G _).mpr ⟨A', rfl, hv'⟩,
    splitAuth_recompose A' (wfa_of_valid G ok A' hv').toWFA⟩

/-- the model handle on the design's witness: replacing a shorter user info by a longer one and
then setting the port edits the right places (this was finding F5) -/
example :
    ((Model.AuthorityMut.mk [0x73, 0x3A, 0x2F, 0x2F, 0x75, 0x40, 0x68, 0x3A, 0x31, 0x2F, 0x70] 4 9).set_userinfo
        (some [0x6C, 0x6F, 0x6E, 0x67])).bind (fun h => h.set_port (some [0x38, 0x30]))
      = some (Model.AuthorityMut.mk
          [0x73, 0x3A, 0x2F, 0x2F, 0x6C, 0x6F, 0x6E, 0x67, 0x40, 0x68, 0x3A, 0x38, 0x30, 0x2F, 0x70] 4 13) := by
  decide

end IrefVerif.Props.C11
