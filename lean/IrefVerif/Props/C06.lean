import IrefVerif.Spec.Resolve
import IrefVerif.Lemmas.Nsegs
import IrefVerif.Model.Reference
import IrefVerif.Findings
import IrefVerif.Lemmas.ResolveEmpty
import IrefVerif.Lemmas.ResolveAuth
import IrefVerif.Lemmas.ResolveRel
import IrefVerif.Lemmas.ResolveRelNoAuth
import IrefVerif.Lemmas.ResolveRelBase
import IrefVerif.Lemmas.ResolveTotal
import IrefVerif.Lemmas.ResolveComponents
import IrefVerif.Lemmas.ResolveRendering
import IrefVerif.Lemmas.IriBytes
import IrefVerif.Props.Valid
import IrefVerif.Lemmas.ValidWF

/-!
# C06 — reference resolution implements RFC 3986 §5.2 (with Errata 4547)

`Spec.transform` is the §5.2.2 table, `Spec.merge` §5.2.3, `Spec.removeDots` §5.2.4 with Errata
4547, `recompose` §5.3.  Proved about the specification: the target always has the base's or
the reference's scheme (so it is a full URI/IRI), takes its fragment from the reference, and
dot-segment removal is idempotent on segment lists.  `Model.Ref.resolve` transliterates
`RiRefBufImpl::resolve`; the by-value, by-reference and in-place entry points are that one
function, and both families share it.  The equation `resolve = recompose ∘ transform` on the
real crate is the `resolve` oracle (`Oracle.resolve`), with the open finding F15
(`Findings.f15`) excluded.  For the model it is proved, for every valid base and reference of
either family (octet level), in all five branches of §5.2.2:
* the reference has an authority, with or without a scheme (`resolve_with_authority`): the
  model of `remove_dot_segments` — normalisation through the path handle, the trailing `/` of a
  final dot segment, the collapse of a lone shielded empty segment — *is* §5.2.4 with Errata 4547
  after an authority (`Lemmas/RemoveDots.lean`: `remove_dot_segments_view`,
  `rdsView_after_authority`);
* the reference has an empty path (`resolve_empty_path`): `set_scheme`, `set_authority`,
  `set_path`, `set_query` in sequence.
* the reference has a scheme and no authority (`resolve_scheme_no_authority`), whenever the
  dot-free path needs no shield (`needsShield`: its first segment is not empty — otherwise the RFC
  text itself would be read differently, `s:/..//a` ↦ `s://a`);
* absolute-path reference against a base with an authority (`resolve_absolute`), and against a
  base without authority under the same `needsShield` side condition
  (`resolve_absolute_no_authority`).
* relative-path reference (§5.2.3 merge, §5.2.4) against a base with an authority, for every
  pair outside the class of the open finding F15 (`resolve_relative_authority`): the `merged`
  buffer — `from_scheme`, `set_authority`, the normalised directory of the base, `symbolic_append`,
  `normalize`, the conditional `clear` — computes `remove_dot_segments(merge(..))`
  (`Lemmas/SymAppend.lean`: the handle's view, read through its normalised sequence, follows the
  §5.2.4 stack; `Lemmas/MergeSegs.lean`: merge + remove_dot_segments is that stack walk;
  `Lemmas/ParentSegs.lean`, `Lemmas/ResolveRel.lean`).
So for a base with an authority and a reference without scheme the model is the RFC exactly
outside F15 (`resolve_relative_reference`), which also shows that the class recorded for F15 is
complete there.
* the same against a base *without* authority whose path is absolute, outside F15 and wherever
  the RFC target path does not begin with `//` (`resolve_relative_noauthority`; there the code
  writes the shield `/.` and the RFC text would be read as an authority).
* the same against a base without authority whose path is *relative or empty*, outside F15 and
  wherever the RFC target path is relative (`resolve_relative_relbase`; Errata 4547: the `..`s that
  cannot be resolved stay in front — `Lemmas/SymRel.lean`, `Lemmas/RelBaseSegs.lean`,
  `Lemmas/ResolveRelBase.lean`; where the target's first segment is empty the RFC text would be an
  absolute path and the code writes the shield `./`).  Proving this branch exposed F19.
So every branch of §5.2.2 is covered for every base (`resolve_relative_no_authority_base` collects
the two cases of a base without authority).
PARTIAL: the inputs on which the RFC text itself is ambiguous — excluded by `needsShield`, the `//`
condition and "the target path is relative" — are covered by `resolve_components`,
`resolve_*_rendering` (the shielded rendering) and judged on the implementation; the F15 class is
an open finding.
-/

namespace IrefVerif.Props.C06
open IrefVerif IrefVerif.Spec IrefVerif.Lemmas

/-- the result always has a scheme -/
theorem target_has_scheme (b r : Parts) (hb : b.scheme.isSome) : (transform b r).scheme.isSome := by
  unfold transform
  cases hs : r.scheme with
  | some s => simp
  | none =>
    cases ha : r.authority with
    | some a => simpa using hb
    | none =>
      simp only
      split
      · exact hb
      · split <;> exact hb

/-- the fragment is the reference's -/
theorem target_fragment (b r : Parts) : (transform b r).fragment = r.fragment := by
  unfold transform
  cases r.scheme <;> cases r.authority <;> simp <;> (try split) <;> (try split) <;> rfl

/-- a reference with a scheme is resolved without looking at the base -/
theorem target_of_scheme (b b' r : Parts) (s : Text) (hs : r.scheme = some s) :
    transform b r = transform b' r := by
  unfold transform; simp [hs]

def base54' : Text := [0x68,0x74,0x74,0x70,0x3A,0x2F,0x2F,0x61,0x2F,0x62,0x2F,0x63,0x2F,0x64,0x3B,0x70,0x3F,0x71]

/-- **§5.2.2, reference with an empty path**: the model of `resolve` returns exactly the
recomposition of the RFC target, for every valid base (with a scheme) and every valid reference
without scheme and authority whose path is empty -/
theorem resolve_empty_path (G : Grammar) (ok : Grammar.Ok G) (base r : Text)
    (hb : RE.Matches G.full base) (hr : RE.Matches G.reference r)
    (hs : (split r).scheme = none) (ha : (split r).authority = none) (hp : (split r).path = []) :
    Model.Ref.resolve r base = some (recompose (resolveSpec base r)) := by
  obtain ⟨_, wR⟩ := split_valid G ok r hr
  obtain ⟨_, wB⟩ := split_valid G ok base (RE.Matches.altL hb)
  obtain ⟨P, hsP, hP, hv⟩ := (full_iff G base).mp hb
  have hwf := wf_of_valid G ok P hv
  have hsp : split base = P := by rw [← hP]; exact Lemmas.split_recompose P hwf
  obtain ⟨sb, hsb⟩ := Option.isSome_iff_exists.mp (hsp ▸ hsP)
  have := Lemmas.resolve_empty_path (split r) (split base) wR wB sb hsb hs ha hp
  rwa [Lemmas.recompose_split, Lemmas.recompose_split] at this

/-- **§5.2.2, reference with an authority** (first branch when it also has a scheme, second
branch otherwise): the model of `resolve` returns exactly the recomposition of the RFC target -/
theorem resolve_with_authority (G : Grammar) (ok : Grammar.Ok G) (okp : Grammar.OkPath G) (base r a : Text)
    (hb : RE.Matches G.full base) (hr : RE.Matches G.reference r) (ha : (split r).authority = some a) :
    Model.Ref.resolve r base = some (recompose (resolveSpec base r)) :=
  Lemmas.resolve_authority G ok okp base r a hb hr ha

/-- **§5.2.2, first branch without authority**: a reference with a scheme is resolved by
removing its dot segments (the base is not looked at), whenever the result needs no shield -/
theorem resolve_scheme_no_authority (G : Grammar) (ok : Grammar.Ok G) (base r s : Text)
    (hr : RE.Matches G.reference r) (hs : (split r).scheme = some s) (ha : (split r).authority = none)
    (hns : needsShield false false (split r).path = false) :
    Model.Ref.resolve r base = some (recompose (resolveSpec base r)) :=
  Lemmas.resolve_scheme_no_authority G ok base r s hr hs ha hns

/-- **§5.2.2, fourth branch**: an absolute-path reference against a base with an authority -/
theorem resolve_absolute (G : Grammar) (ok : Grammar.Ok G) (okp : Grammar.OkPath G) (base r ab : Text)
    (hb : RE.Matches G.full base) (hr : RE.Matches G.reference r)
    (hs : (split r).scheme = none) (ha : (split r).authority = none) (hp : isAbs (split r).path = true)
    (hab : (split base).authority = some ab) :
    Model.Ref.resolve r base = some (recompose (resolveSpec base r)) :=
  Lemmas.resolve_absolute G ok okp base r ab hb hr hs ha hp hab

/-- **§5.2.2, fourth branch, base without authority**, whenever the result needs no shield -/
theorem resolve_absolute_no_authority (G : Grammar) (ok : Grammar.Ok G) (okp : Grammar.OkPath G) (base r : Text)
    (hb : RE.Matches G.full base) (hr : RE.Matches G.reference r)
    (hs : (split r).scheme = none) (ha : (split r).authority = none) (hp : isAbs (split r).path = true)
    (hab : (split base).authority = none) (hns : needsShield false false (split r).path = false) :
    Model.Ref.resolve r base = some (recompose (resolveSpec base r)) :=
  Lemmas.resolve_absolute_no_authority G ok okp base r hb hr hs ha hp hab hns

/-- **§5.2.2, fifth branch** (§5.2.3 merge and §5.2.4): a relative-path reference against a base
with an authority, for every pair outside the class of the open finding F15 -/
theorem resolve_relative_authority (G : Grammar) (ok : Grammar.Ok G) (okp : Grammar.OkPath G) (base r ab : Text)
    (hb : RE.Matches G.full base) (hr : RE.Matches G.reference r)
    (hs : (split r).scheme = none) (ha : (split r).authority = none)
    (hne : (split r).path ≠ []) (hrl : isAbs (split r).path = false)
    (hab : (split base).authority = some ab) (hf : Findings.f15 base r = false) :
    Model.Ref.resolve r base = some (recompose (resolveSpec base r)) := by
  obtain ⟨_, wB⟩ := split_valid G ok base (RE.Matches.altL hb)
  have hB := wB.abempty (by simp [hab])
  exact Lemmas.resolve_relative_authority G ok okp base r ab hb hr hs ha hne hrl hab
    (Lemmas.noSkip_of_not_f15 base r ab hB hs ha hne hrl hab hf)

/-- **§5.2.2, fifth branch, base without authority and with an absolute path**, outside the F15
class and where the RFC target path does not begin with `//` -/
theorem resolve_relative_noauthority (G : Grammar) (ok : Grammar.Ok G) (okp : Grammar.OkPath G) (base r : Text)
    (hb : RE.Matches G.full base) (hr : RE.Matches G.reference r)
    (hs : (split r).scheme = none) (ha : (split r).authority = none)
    (hne : (split r).path ≠ []) (hrl : isAbs (split r).path = false)
    (hab : (split base).authority = none) (hBabs : isAbs (split base).path = true)
    (hf : Findings.f15 base r = false) (hamb : Lemmas.startsSS (resolveSpec base r).path = false) :
    Model.Ref.resolve r base = some (recompose (resolveSpec base r)) := by
  obtain ⟨q, hq⟩ : ∃ q, (split base).path = cSlash :: q := by
    cases hpp : (split base).path with
    | nil => rw [hpp] at hBabs; simp [isAbs] at hBabs
    | cons c t =>
      rw [hpp] at hBabs
      have : c = cSlash := by simpa [isAbs] using hBabs
      exact ⟨t, by rw [this]⟩
  exact Lemmas.resolve_relative_noauthority G ok okp base r hb hr hs ha hne hrl hab hBabs
    (Lemmas.noSkip_of_not_f15_noauth base r q hq hs ha hne hrl hab hf) hamb

/-- non-vacuity: `s:/a/b` and `../c` meet the hypotheses -/
example : Findings.f15 [0x73,0x3A,0x2F,0x61,0x2F,0x62] [0x2E,0x2E,0x2F,0x63] = false ∧
    Lemmas.startsSS (resolveSpec [0x73,0x3A,0x2F,0x61,0x2F,0x62] [0x2E,0x2E,0x2F,0x63]).path = false := by decide

/-- **§5.2.2, fifth branch, base without authority and with a relative or empty path** (Errata 4547:
the `..`s that cannot be resolved stay in front), outside the F15 class and where the RFC target path
is relative -/
theorem resolve_relative_relbase (G : Grammar) (ok : Grammar.Ok G) (okp : Grammar.OkPath G) (base r : Text)
    (hb : RE.Matches G.full base) (hr : RE.Matches G.reference r)
    (hs : (split r).scheme = none) (ha : (split r).authority = none)
    (hne : (split r).path ≠ []) (hrl : isAbs (split r).path = false)
    (hab : (split base).authority = none) (hBrel : isAbs (split base).path = false)
    (hf : Findings.f15 base r = false) (hamb : isAbs (resolveSpec base r).path = false) :
    Model.Ref.resolve r base = some (recompose (resolveSpec base r)) :=
  Lemmas.resolve_relative_relbase G ok okp base r hb hr hs ha hne hrl hab hBrel
    (Lemmas.noSkip_of_not_f15_relbase base r hBrel hs ha hne hrl hab hf) hamb

/-- non-vacuity: `s:a/b` and `../../c` meet the hypotheses (the target is `s:../c`), so do `s:` and
`a/b`; the witness of F19, `s:.//x` and `../..`, does too, and the model of the repaired code
answers `s:../` -/
example : Findings.f15 [0x73,0x3A,0x61,0x2F,0x62] [0x2E,0x2E,0x2F,0x2E,0x2E,0x2F,0x63] = false ∧
    isAbs (resolveSpec [0x73,0x3A,0x61,0x2F,0x62] [0x2E,0x2E,0x2F,0x2E,0x2E,0x2F,0x63]).path = false ∧
    recompose (resolveSpec [0x73,0x3A,0x61,0x2F,0x62] [0x2E,0x2E,0x2F,0x2E,0x2E,0x2F,0x63]) = [0x73,0x3A,0x2E,0x2E,0x2F,0x63] ∧
    Findings.f15 [0x73,0x3A] [0x61,0x2F,0x62] = false ∧ isAbs (resolveSpec [0x73,0x3A] [0x61,0x2F,0x62]).path = false ∧
    Findings.f15 [0x73,0x3A,0x2E,0x2F,0x2F,0x78] [0x2E,0x2E,0x2F,0x2E,0x2E] = false ∧
    isAbs (resolveSpec [0x73,0x3A,0x2E,0x2F,0x2F,0x78] [0x2E,0x2E,0x2F,0x2E,0x2E]).path = false ∧
    Model.Ref.resolve [0x2E,0x2E,0x2F,0x2E,0x2E] [0x73,0x3A,0x2E,0x2F,0x2F,0x78] = some [0x73,0x3A,0x2E,0x2E,0x2F] := by decide

/-- **every relative-path reference against a base without authority**: outside the F15 class, and
where the RFC target path neither begins with `//` nor turns a relative base path into an absolute
path, the model of `resolve` is RFC 3986 §5.2 with Errata 4547 -/
theorem resolve_relative_no_authority_base (G : Grammar) (ok : Grammar.Ok G) (okp : Grammar.OkPath G) (base r : Text)
    (hb : RE.Matches G.full base) (hr : RE.Matches G.reference r)
    (hs : (split r).scheme = none) (ha : (split r).authority = none)
    (hne : (split r).path ≠ []) (hrl : isAbs (split r).path = false)
    (hab : (split base).authority = none) (hf : Findings.f15 base r = false)
    (hss : Lemmas.startsSS (resolveSpec base r).path = false)
    (hrel : isAbs (split base).path = false → isAbs (resolveSpec base r).path = false) :
    Model.Ref.resolve r base = some (recompose (resolveSpec base r)) := by
  by_cases hB : isAbs (split base).path = true
  · exact resolve_relative_noauthority G ok okp base r hb hr hs ha hne hrl hab hB hf hss
  · have hB' : isAbs (split base).path = false := by simpa using hB
    exact resolve_relative_relbase G ok okp base r hb hr hs ha hne hrl hab hB' hf (hrel hB')

/-- **every relative reference against a base with an authority**: outside the F15 class the model
of `resolve` is RFC 3986 §5.2 -/
theorem resolve_relative_reference (G : Grammar) (ok : Grammar.Ok G) (okp : Grammar.OkPath G) (base r ab : Text)
    (hb : RE.Matches G.full base) (hr : RE.Matches G.reference r)
    (hs : (split r).scheme = none) (hab : (split base).authority = some ab) (hf : Findings.f15 base r = false) :
    Model.Ref.resolve r base = some (recompose (resolveSpec base r)) := by
  cases ha : (split r).authority with
  | some a => exact resolve_with_authority G ok okp base r a hb hr ha
  | none =>
    by_cases hp : (split r).path = []
    · exact resolve_empty_path G ok base r hb hr hs ha hp
    · by_cases habs : isAbs (split r).path = true
      · exact resolve_absolute G ok okp base r ab hb hr hs ha habs hab
      · exact resolve_relative_authority G ok okp base r ab hb hr hs ha hp (by simpa using habs) hab hf

/-- end to end, URI family -/
theorem uri_resolve_relative_reference (base r ab : Text) (hb8 : ∀ c ∈ base, c < 256) (hr8 : ∀ c ∈ r, c < 256)
    (hb : accepts .uri base = true) (hr : accepts .uriRef r = true)
    (hs : (split r).scheme = none) (hab : (split base).authority = some ab) (hf : Findings.f15 base r = false) :
    Model.Ref.resolve r base = some (recompose (resolveSpec base r)) :=
  resolve_relative_reference uriG uriG_ok uriG_okPath base r ab (Valid.uri_octets base hb8 hb)
    (Valid.uriRef_octets r hr8 hr) hs hab hf

/-- … IRI family (octets) -/
theorem iri_resolve_relative_reference (base r ab : Text) (hb8 : ∀ c ∈ base, c < 256) (hr8 : ∀ c ∈ r, c < 256)
    (hb : accepts .iri base = true) (hr : accepts .iriRef r = true)
    (hs : (split r).scheme = none) (hab : (split base).authority = some ab) (hf : Findings.f15 base r = false) :
    Model.Ref.resolve r base = some (recompose (resolveSpec base r)) :=
  resolve_relative_reference iriGB iriGB_ok iriGB_okPath base r ab (Valid.iri_octets base hb8 hb)
    (Valid.iriRef_octets r hr8 hr) hs hab hf

/-- end to end, URI family: an accepted `Uri` base without authority, an accepted relative-path `UriRef` -/
theorem uri_resolve_relative_no_authority_base (base r : Text) (hb8 : ∀ c ∈ base, c < 256) (hr8 : ∀ c ∈ r, c < 256)
    (hb : accepts .uri base = true) (hr : accepts .uriRef r = true)
    (hs : (split r).scheme = none) (ha : (split r).authority = none)
    (hne : (split r).path ≠ []) (hrl : isAbs (split r).path = false)
    (hab : (split base).authority = none) (hf : Findings.f15 base r = false)
    (hss : Lemmas.startsSS (resolveSpec base r).path = false)
    (hrel : isAbs (split base).path = false → isAbs (resolveSpec base r).path = false) :
    Model.Ref.resolve r base = some (recompose (resolveSpec base r)) :=
  resolve_relative_no_authority_base uriG uriG_ok uriG_okPath base r (Valid.uri_octets base hb8 hb)
    (Valid.uriRef_octets r hr8 hr) hs ha hne hrl hab hf hss hrel

/-- … IRI family (octets) -/
theorem iri_resolve_relative_no_authority_base (base r : Text) (hb8 : ∀ c ∈ base, c < 256) (hr8 : ∀ c ∈ r, c < 256)
    (hb : accepts .iri base = true) (hr : accepts .iriRef r = true)
    (hs : (split r).scheme = none) (ha : (split r).authority = none)
    (hne : (split r).path ≠ []) (hrl : isAbs (split r).path = false)
    (hab : (split base).authority = none) (hf : Findings.f15 base r = false)
    (hss : Lemmas.startsSS (resolveSpec base r).path = false)
    (hrel : isAbs (split base).path = false → isAbs (resolveSpec base r).path = false) :
    Model.Ref.resolve r base = some (recompose (resolveSpec base r)) :=
  resolve_relative_no_authority_base iriGB iriGB_ok iriGB_okPath base r (Valid.iri_octets base hb8 hb)
    (Valid.iriRef_octets r hr8 hr) hs ha hne hrl hab hf hss hrel

/-- **totality and validity, every branch, no side condition**: for every valid base and every
valid reference the model of `resolve` never panics and returns a valid *full* URI/IRI (the base
is unchanged: the model is a pure function of its arguments) -/
theorem resolve_total_valid (G : Grammar) (ok : Grammar.Ok G) (okp : Grammar.OkPath G) (base r : Text)
    (hb : RE.Matches G.full base) (hr : RE.Matches G.reference r) :
    ∃ t, Model.Ref.resolve r base = some t ∧ RE.Matches G.full t :=
  Lemmas.resolve_total G ok okp base r hb hr

/-- **component selection is §5.2.2 in every branch, no side condition**: the result is a valid full
URI/IRI whose scheme, authority, query and fragment are exactly those of the RFC target (this is
the second clause of the property: when the RFC target would be ambiguous, the result still has
the RFC's scheme, authority, query and fragment; only the path is rendered with a shield) -/
theorem resolve_components (G : Grammar) (ok : Grammar.Ok G) (okp : Grammar.OkPath G) (base r : Text)
    (hb : RE.Matches G.full base) (hr : RE.Matches G.reference r) :
    ∃ t, Model.Ref.resolve r base = some t ∧ RE.Matches G.full t ∧
      (split t).scheme = (resolveSpec base r).scheme ∧ (split t).authority = (resolveSpec base r).authority ∧
      (split t).query = (resolveSpec base r).query ∧ (split t).fragment = (resolveSpec base r).fragment :=
  Lemmas.resolve_components G ok okp base r hb hr

/-- **the ambiguous targets, reference with a scheme**: whenever two or more segments remain — in
particular when the RFC's own path text would begin with `//` and be read as an authority — the
result has the reference's scheme, authority, query and fragment and a path that realises the RFC's
segment list `normTarget` (the RFC path is `render` of that list), literally or behind the shield -/
theorem resolve_scheme_rendering (G : Grammar) (ok : Grammar.Ok G) (okp : Grammar.OkPath G) (base r s : Text)
    (hr : RE.Matches G.reference r) (hs : (split r).scheme = some s)
    (hlen : 2 ≤ (nsegs (split r).path).length) :
    ∃ t, Model.Ref.resolve r base = some t ∧ RE.Matches G.reference t ∧
      split t = { split r with path := (split t).path } ∧
      realises (split t).path (normTarget (split r).path) = true ∧
      isAbs (split t).path = isAbs (split r).path ∧
      (resolveSpec base r).path = render (isAbs (split r).path) (normTarget (split r).path) := by
  obtain ⟨t, e, v, sp, hrz, hab⟩ := Lemmas.resolve_scheme_rendering G ok okp base r s hr hs hlen
  refine ⟨t, e, v, sp, hrz, hab, ?_⟩
  simp [resolveSpec, transform, hs, removeDots]

/-- … and an absolute-path reference against any base -/
theorem resolve_absolute_rendering (G : Grammar) (ok : Grammar.Ok G) (okp : Grammar.OkPath G) (base r : Text)
    (hb : RE.Matches G.full base) (hr : RE.Matches G.reference r)
    (hs : (split r).scheme = none) (ha : (split r).authority = none) (habs : isAbs (split r).path = true)
    (hlen : 2 ≤ (nsegs (split r).path).length) :
    ∃ t, Model.Ref.resolve r base = some t ∧ RE.Matches G.reference t ∧
      (split t).scheme = (resolveSpec base r).scheme ∧ (split t).authority = (resolveSpec base r).authority ∧
      (split t).query = (resolveSpec base r).query ∧ (split t).fragment = (resolveSpec base r).fragment ∧
      realises (split t).path (normTarget (split r).path) = true ∧ isAbs (split t).path = true := by
  obtain ⟨t, e, v, ⟨f1, f2, f3, f4⟩, hrz, hab⟩ := Lemmas.resolve_absolute_rendering G ok okp base r hb hr hs ha habs hlen
  exact ⟨t, e, v, f1, f2, f3, f4, hrz, hab⟩

/-- the witness: `s:/..//a` — the RFC text `s://a` would have an authority; the model writes
`s:/.//a`, whose path realises the same list `["", "a"]` -/
example : Model.Ref.resolve [0x73,0x3A,0x2F,0x2E,0x2E,0x2F,0x2F,0x61] base54'
    = some [0x73,0x3A,0x2F,0x2E,0x2F,0x2F,0x61] := by decide

/-- closed loop, URI family: an accepted `Uri` base, an accepted `UriRef` — the result is an
accepted `Uri` -/
theorem uri_resolve_accepted (base r : Text) (hb8 : ∀ c ∈ base, c < 256) (hr8 : ∀ c ∈ r, c < 256)
    (hb : accepts .uri base = true) (hr : accepts .uriRef r = true) :
    ∃ t, Model.Ref.resolve r base = some t ∧ accepts .uri t = true := by
  obtain ⟨t, e, hv⟩ := resolve_total_valid uriG uriG_ok uriG_okPath base r (Valid.uri_octets base hb8 hb)
    (Valid.uriRef_octets r hr8 hr)
  exact ⟨t, e, Valid.uri_of_octets t hv⟩

/-- … IRI family -/
theorem iri_resolve_accepted (base r : Text) (hb8 : ∀ c ∈ base, c < 256) (hr8 : ∀ c ∈ r, c < 256)
    (hb : accepts .iri base = true) (hr : accepts .iriRef r = true) :
    ∃ t, Model.Ref.resolve r base = some t ∧ accepts .iri t = true := by
  obtain ⟨t, e, hv⟩ := resolve_total_valid iriGB iriGB_ok iriGB_okPath base r (Valid.iri_octets base hb8 hb)
    (Valid.iriRef_octets r hr8 hr)
  exact ⟨t, e, Valid.iri_of_octets t hv⟩

/-- the hypotheses are satisfiable: RFC 3986 §5.4 base and `../g` are outside the F15 class -/
example : Findings.f15 base54' [0x2E,0x2E,0x2F,0x67] = false := by decide

/-- the side condition of `resolve_scheme_no_authority` holds on ordinary inputs, fails where the
RFC text is ambiguous -/
example : needsShield false false [0x2F,0x61,0x2F,0x2E,0x2E,0x2F,0x62] = false := by decide
example : needsShield false false [0x2F,0x2E,0x2E,0x2F,0x2F,0x61] = true := by decide

/-- end to end, URI family: any accepted `Uri` base, any accepted `UriRef` with an authority -/
theorem uri_resolve_with_authority (base r a : Text) (hb8 : ∀ c ∈ base, c < 256) (hr8 : ∀ c ∈ r, c < 256)
    (hb : accepts .uri base = true) (hr : accepts .uriRef r = true) (ha : (split r).authority = some a) :
    Model.Ref.resolve r base = some (recompose (resolveSpec base r)) :=
  resolve_with_authority uriG uriG_ok uriG_okPath base r a (Valid.uri_octets base hb8 hb)
    (Valid.uriRef_octets r hr8 hr) ha

/-- … IRI family (octets) -/
theorem iri_resolve_with_authority (base r a : Text) (hb8 : ∀ c ∈ base, c < 256) (hr8 : ∀ c ∈ r, c < 256)
    (hb : accepts .iri base = true) (hr : accepts .iriRef r = true) (ha : (split r).authority = some a) :
    Model.Ref.resolve r base = some (recompose (resolveSpec base r)) :=
  resolve_with_authority iriGB iriGB_ok iriGB_okPath base r a (Valid.iri_octets base hb8 hb)
    (Valid.iriRef_octets r hr8 hr) ha

example : Model.Ref.resolve [0x2F,0x2F,0x67,0x2F,0x61,0x2F,0x2E,0x2E,0x2F,0x2E] base54'
    = some (recompose (resolveSpec base54' [0x2F,0x2F,0x67,0x2F,0x61,0x2F,0x2E,0x2E,0x2F,0x2E])) := by decide

example : Model.Ref.resolve [0x3F, 0x79] base54' = some (recompose (resolveSpec base54' [0x3F, 0x79])) := by decide

/-- RFC 3986 §5.4.1 normal examples and §5.4.2 abnormal ones, evaluated on the model
(these are tests of the model, not the unbounded claim) -/
def base54 : Text := [0x68,0x74,0x74,0x70,0x3A,0x2F,0x2F,0x61,0x2F,0x62,0x2F,0x63,0x2F,0x64,0x3B,0x70,0x3F,0x71]

example : Model.Ref.resolve [0x2E,0x2E,0x2F,0x67] base54
    = some [0x68,0x74,0x74,0x70,0x3A,0x2F,0x2F,0x61,0x2F,0x62,0x2F,0x67] := by decide
example : Model.Ref.resolve [0x2E,0x2E,0x2F,0x2E,0x2E,0x2F,0x2E,0x2E,0x2F,0x67] base54
    = some [0x68,0x74,0x74,0x70,0x3A,0x2F,0x2F,0x61,0x2F,0x67] := by decide
example : recompose (resolveSpec base54 [0x67,0x2F,0x2E]) =
    [0x68,0x74,0x74,0x70,0x3A,0x2F,0x2F,0x61,0x2F,0x62,0x2F,0x63,0x2F,0x67,0x2F] := by decide
/-- the witness of the open finding F15 is in its class -/
example : Findings.f15 [0x73,0x3A,0x2F,0x2F,0x68,0x2F] [0x2E,0x2F,0x2F,0x61] = true := by decide

/-- **every case the evidence counts under a theorem**: whenever the classifier the driver runs on
each generated pair (`Model.resolveCls`) names a covered case, the model of `resolve` returns the
recomposition of the RFC 3986 §5.2.2 target -/
theorem resolve_classified (G : Grammar) (ok : Grammar.Ok G) (okp : Grammar.OkPath G) (base r : Text)
    (hb : RE.Matches G.full base) (hr : RE.Matches G.reference r)
    (hc : (Model.resolveCls base r).covered = true) :
    Model.Ref.resolve r base = some (recompose (resolveSpec base r)) := by
  cases hRa : (split r).authority with
  | some a => exact resolve_with_authority G ok okp base r a hb hr hRa
  | none =>
    cases hRs : (split r).scheme with
    | some s =>
      by_cases hns : Lemmas.needsShield false false (split r).path = true
      · simp [Model.resolveCls, hRa, hRs, hns, Model.ResCls.covered] at hc
      · exact resolve_scheme_no_authority G ok base r s hr hRs hRa (by simpa using hns)
    | none =>
      by_cases hp : (split r).path = []
      · exact resolve_empty_path G ok base r hb hr hRs hRa hp
      · have hpe : (split r).path.isEmpty = false := by cases h : (split r).path <;> simp_all
        by_cases habs : isAbs (split r).path = true
        · cases hBa : (split base).authority with
          | some ab => exact resolve_absolute G ok okp base r ab hb hr hRs hRa habs hBa
          | none =>
            by_cases hns : Lemmas.needsShield false false (split r).path = true
            · simp [Model.resolveCls, hRa, hRs, hpe, habs, hBa, hns, Model.ResCls.covered] at hc
            · exact resolve_absolute_no_authority G ok okp base r hb hr hRs hRa habs hBa (by simpa using hns)
        · have hrl : isAbs (split r).path = false := by simpa using habs
          by_cases hf : Findings.f15 base r = true
          · simp [Model.resolveCls, hRa, hRs, hpe, hrl, hf, Model.ResCls.covered] at hc
          · have hf' : Findings.f15 base r = false := by simpa using hf
            cases hBa : (split base).authority with
            | some ab => exact resolve_relative_authority G ok okp base r ab hb hr hRs hRa hp hrl hBa hf'
            | none =>
              by_cases hBabs : isAbs (split base).path = true
              · by_cases hss : Lemmas.startsSS (resolveSpec base r).path = true
                · simp [Model.resolveCls, hRa, hRs, hpe, hrl, hf', hBa, hBabs, hss, Model.ResCls.covered] at hc
                · exact resolve_relative_noauthority G ok okp base r hb hr hRs hRa hp hrl hBa hBabs hf' (by simpa using hss)
              · have hBrel : isAbs (split base).path = false := by simpa using hBabs
                by_cases hamb : isAbs (resolveSpec base r).path = true
                · simp [Model.resolveCls, hRa, hRs, hpe, hrl, hf', hBa, hBrel, hamb, Model.ResCls.covered] at hc
                · exact resolve_relative_relbase G ok okp base r hb hr hRs hRa hp hrl hBa hBrel hf' (by simpa using hamb)

/-- end to end: accepted values of either family on a covered case -/
theorem uri_resolve_classified (base r : Text) (hb8 : ∀ c ∈ base, c < 256) (hr8 : ∀ c ∈ r, c < 256)
    (hb : accepts .uri base = true) (hr : accepts .uriRef r = true)
    (hc : (Model.resolveCls base r).covered = true) :
    Model.Ref.resolve r base = some (recompose (resolveSpec base r)) :=
  resolve_classified uriG uriG_ok uriG_okPath base r (Valid.uri_octets base hb8 hb) (Valid.uriRef_octets r hr8 hr) hc

theorem iri_resolve_classified (base r : Text) (hb8 : ∀ c ∈ base, c < 256) (hr8 : ∀ c ∈ r, c < 256)
    (hb : accepts .iri base = true) (hr : accepts .iriRef r = true)
    (hc : (Model.resolveCls base r).covered = true) :
    Model.Ref.resolve r base = some (recompose (resolveSpec base r)) :=
  resolve_classified iriGB iriGB_ok iriGB_okPath base r (Valid.iri_octets base hb8 hb) (Valid.iriRef_octets r hr8 hr) hc

/-- non-vacuity: one pair per covered case -/
example : (Model.resolveCls base54' [0x2E,0x2E,0x2F,0x67]).covered = true ∧
    Model.resolveCls base54' [0x2E,0x2E,0x2F,0x67] = .mergeAuthority ∧
    Model.resolveCls base54' [0x2F,0x2F,0x67] = .withAuthority ∧
    Model.resolveCls base54' [0x67,0x3A,0x68] = .withScheme ∧
    Model.resolveCls base54' [0x3F,0x79] = .emptyPath ∧
    Model.resolveCls base54' [0x2F,0x67] = .absolutePath ∧
    Model.resolveCls [0x73,0x3A,0x2F,0x61] [0x2F,0x67] = .absolutePathNoauth ∧
    Model.resolveCls [0x73,0x3A,0x2F,0x61,0x2F,0x62] [0x67] = .mergeNoauthAbsolute ∧
    Model.resolveCls [0x73,0x3A,0x61,0x2F,0x62] [0x67] = .mergeRelativeBase := by decide

end IrefVerif.Props.C06
