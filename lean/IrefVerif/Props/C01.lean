import IrefVerif.Props.C01.Uri
import IrefVerif.Props.C01.UriRef
import IrefVerif.Props.C01.Scheme
import IrefVerif.Props.C01.UriAuthority
import IrefVerif.Props.C01.UriUserInfo
import IrefVerif.Props.C01.UriHost
import IrefVerif.Props.C01.Port
import IrefVerif.Props.C01.UriPath
import IrefVerif.Props.C01.UriSegment
import IrefVerif.Props.C01.UriQuery
import IrefVerif.Props.C01.UriFragment
import IrefVerif.Props.C01.Iri
import IrefVerif.Props.C01.IriRef
import IrefVerif.Props.C01.IriAuthority
import IrefVerif.Props.C01.IriUserInfo
import IrefVerif.Props.C01.IriHost
import IrefVerif.Props.C01.IriPath
import IrefVerif.Props.C01.IriSegment
import IrefVerif.Props.C01.IriQuery
import IrefVerif.Props.C01.IriFragment
import IrefVerif.Model.Ctor
import IrefVerif.Lemmas.Utf8

/-!
# C01 — parsing accepts exactly the RFC 3986 / RFC 3987 language, for all 20 validated types

`language k` packages the twenty kernel-checked automaton/regex equivalences
(`Props/C01/*.lean`, re-checked against the automata regenerated from /repo on every run).
The constructor theorems then say: a checked constructor succeeds iff the input is (the UTF-8
encoding of) a word of the RFC production; success keeps the text, failure hands it back.
-/

namespace IrefVerif.Props.C01
open IrefVerif

/-- the alphabet over which a type's theorem is stated -/
def InDomain (k : Kind) (c : Nat) : Prop := if k.isChar then IsScalar c else IsByte c

/-- **C01, language**: for each of the 20 types, the generated `validate` accepts exactly the
RFC production, over all finite words of bytes (URI family) / Unicode scalar values (IRI family). -/
theorem language (k : Kind) (w : List Nat) (hw : ∀ c ∈ w, InDomain k c) :
    k.dfa.run w = true ↔ RE.Matches k.spec w := by
  cases k <;> simp only [InDomain, Kind.isChar, Bool.false_eq_true, if_false, if_true] at hw
  · exact uri_language w hw
  · exact uriRef_language w hw
  · exact scheme_language w hw
  · exact uriAuthority_language w hw
  · exact uriUserInfo_language w hw
  · exact uriHost_language w hw
  · exact port_language w hw
  · exact uriPath_language w hw
  · exact uriSegment_language w hw
  · exact uriQuery_language w hw
  · exact uriFragment_language w hw
  · exact iri_language w hw
  · exact iriRef_language w hw
  · exact iriAuthority_language w hw
  · exact iriUserInfo_language w hw
  · exact iriHost_language w hw
  · exact iriPath_language w hw
  · exact iriSegment_language w hw
  · exact iriQuery_language w hw
  · exact iriFragment_language w hw

/-- the symbols a constructor feeds to `validate` lie in the theorem's alphabet -/
theorem symbols_inDomain (k : Kind) (bytes w : List Nat) (hb : ∀ c ∈ bytes, c < 256)
    (h : symbols k bytes = some w) : ∀ c ∈ w, InDomain k c := by
  unfold symbols at h
  unfold InDomain
  cases hk : k.isChar
  · simp only [hk, Bool.false_eq_true, if_false, Option.some.injEq] at h ⊢
    subst h; exact hb
  · simp only [hk, if_true] at h ⊢
    exact Lemmas.utf8Decode_scalars bytes w h

/-- **C01, constructors**: the model of every checked constructor accepts exactly what the
specification accepts (for every byte string, well-formed UTF-8 or not). -/
theorem accepts_eq_spec (k : Kind) (bytes : List Nat) (hb : ∀ c ∈ bytes, c < 256) :
    accepts k bytes = acceptsSpec k bytes := by
  unfold accepts acceptsSpec
  cases h : symbols k bytes with
  | none => rfl
  | some w =>
    simp only
    have hd := symbols_inDomain k bytes w hb h
    have := language k w hd
    rw [Bool.eq_iff_iff, this, RE.matchesB_iff]

/-- success: iff the input is (the UTF-8 encoding of) a word of the RFC production -/
theorem construct_ok_iff (k : Kind) (bytes : List Nat) (hb : ∀ c ∈ bytes, c < 256) :
    (∃ t, construct k bytes = .ok t) ↔ ∃ w, symbols k bytes = some w ∧ RE.Matches k.spec w := by
  unfold construct
  rw [accepts_eq_spec k bytes hb]
  unfold acceptsSpec
  cases h : symbols k bytes with
  | none => simp
  | some w =>
    simp only [Option.some.injEq, exists_eq_left']
    by_cases hm : RE.matchesB k.spec w = true
    · simp [hm, RE.matchesB_iff.mp hm]
    · simp only [hm, Bool.false_eq_true, if_false, reduceCtorEq, exists_false, false_iff]
      exact fun h' => hm (RE.matchesB_iff.mpr h')

/-- a successful parse keeps the text byte-for-byte -/
theorem construct_ok_text (k : Kind) (bytes t : List Nat) (h : construct k bytes = .ok t) :
    t = bytes := by
  unfold construct at h; split at h
  · injection h with h; exact h.symm
  · cases h

/-- a failed parse hands the untouched input back inside the error -/
theorem construct_err_payload (k : Kind) (bytes p : List Nat) (h : construct k bytes = .err p) :
    p = bytes := by
  unfold construct at h; split at h
  · cases h
  · injection h with h; exact h.symm

/-- non-vacuity: a concrete accepted and a concrete rejected input -/
example : construct .scheme [0x68, 0x74, 0x74, 0x70] = .ok [0x68, 0x74, 0x74, 0x70] := by decide
example : construct .scheme [0x31] = .err [0x31] := by decide
example : construct .iriSegment [0xFF] = .err [0xFF] := by decide

end IrefVerif.Props.C01
