import IrefVerif.Props.C01
import IrefVerif.Lemmas.Utf8Enc

/-!
# What the constructors accept, at the octet level

Bridge from C01 (the generated automata accept exactly the RFC productions) to the structure
theorems, which are stated for octet strings matching a `Grammar`: an accepted `UriRef`/`Uri`
matches `uriG`, an accepted `IriRef`/`Iri` (octets that decode as UTF-8 to a word of the RFC 3987
production) matches the octet-level grammar `iriGB`.  Everything proved for
`Matches G.reference w` with `G ∈ {uriG, iriGB}` therefore holds for every value the crate's
checked constructors can return.
-/

namespace IrefVerif.Props.Valid
open IrefVerif IrefVerif.RE IrefVerif.Spec IrefVerif.Lemmas

theorem spec_of_accepts (k : Kind) (b : Text) (hb : ∀ c ∈ b, c < 256) (h : accepts k b = true) :
    ∃ w, symbols k b = some w ∧ Matches k.spec w := by
  have := (C01.construct_ok_iff k b hb).mp ⟨b, by simp [construct, h]⟩
  exact this

theorem uriRef_octets (b : Text) (hb : ∀ c ∈ b, c < 256) (h : accepts .uriRef b = true) :
    Matches uriG.reference b := by
  obtain ⟨w, hs, hm⟩ := spec_of_accepts .uriRef b hb h
  simp only [symbols, Kind.isChar, Bool.false_eq_true, if_false, Option.some.injEq] at hs
  subst hs; exact hm

theorem uri_octets (b : Text) (hb : ∀ c ∈ b, c < 256) (h : accepts .uri b = true) :
    Matches uriG.full b := by
  obtain ⟨w, hs, hm⟩ := spec_of_accepts .uri b hb h
  simp only [symbols, Kind.isChar, Bool.false_eq_true, if_false, Option.some.injEq] at hs
  subst hs; exact hm

theorem iriRef_octets (b : Text) (hb : ∀ c ∈ b, c < 256) (h : accepts .iriRef b = true) :
    Matches iriGB.reference b := by
  obtain ⟨w, hs, hm⟩ := spec_of_accepts .iriRef b hb h
  simp only [symbols, Kind.isChar, if_true] at hs
  exact iri_octets_valid b w hs hm

theorem iri_octets (b : Text) (hb : ∀ c ∈ b, c < 256) (h : accepts .iri b = true) :
    Matches iriGB.full b := by
  obtain ⟨w, hs, hm⟩ := spec_of_accepts .iri b hb h
  simp only [symbols, Kind.isChar, if_true] at hs
  exact iri_octets_valid_full b w hs hm

/-! ## component values (arguments of setters) -/

/-- an accepted value of an IRI-family type, seen as octets, matches the transported production -/
theorem iri_kind_octets (k : Kind) (hk : k.isChar = true) (b : Text) (hb : ∀ c ∈ b, c < 256)
    (h : accepts k b = true) : Matches (encRE k.spec) b := by
  obtain ⟨w, hs, hm⟩ := spec_of_accepts k b hb h
  simp only [symbols, hk, if_true] at hs
  have hsc := utf8Decode_scalars b w hs
  have := matches_enc hm (fun c hc => by have := hsc c hc; unfold IsScalar at this; omega)
  rwa [utf8Encode_decode b w hs] at this

theorem iriGB_query : iriGB.query = encRE Rfc3987.iquery := rfl
theorem iriGB_fragment : iriGB.fragment = encRE Rfc3987.ifragment := rfl

theorem iriGB_authority : iriGB.authority = encRE Rfc3987.iauthority := by
  have hp : encRE Rfc3986.port = Rfc3986.port := encRE_ascii _ (by decide)
  simp only [Grammar.authority, iriGB, encG, iriG, Rfc3987.iauthority, seqs, opt, encRE, hp]
  rfl

theorem iriGB_path : iriGB.path = encRE Rfc3987.ipath := by
  simp only [Grammar.path, Grammar.pathAbempty, Grammar.pathAbsolute, Grammar.pathNoscheme,
    Grammar.pathRootless, Grammar.pathEmpty, iriGB, encG, iriG, Rfc3987.ipath, Rfc3987.ipathAbempty,
    Rfc3987.ipathAbsolute, Rfc3987.ipathNoscheme, Rfc3987.ipathRootless, Rfc3987.ipathEmpty, alts, opt, encRE]
  rfl

theorem iriQuery_octets (b : Text) (hb : ∀ c ∈ b, c < 256) (h : accepts .iriQuery b = true) :
    Matches iriGB.query b := iriGB_query ▸ iri_kind_octets .iriQuery rfl b hb h

theorem iriFragment_octets (b : Text) (hb : ∀ c ∈ b, c < 256) (h : accepts .iriFragment b = true) :
    Matches iriGB.fragment b := iriGB_fragment ▸ iri_kind_octets .iriFragment rfl b hb h

theorem iriAuthority_octets (b : Text) (hb : ∀ c ∈ b, c < 256) (h : accepts .iriAuthority b = true) :
    Matches iriGB.authority b := iriGB_authority ▸ iri_kind_octets .iriAuthority rfl b hb h

theorem iriPath_octets (b : Text) (hb : ∀ c ∈ b, c < 256) (h : accepts .iriPath b = true) :
    Matches iriGB.path b := iriGB_path ▸ iri_kind_octets .iriPath rfl b hb h

/-! ## the converse: what matches the octet grammar is what the constructors accept -/

theorem accepts_of_spec (k : Kind) (b : Text) (hb : ∀ c ∈ b, c < 256)
    (h : ∃ w, symbols k b = some w ∧ Matches k.spec w) : accepts k b = true := by
  obtain ⟨t, ht⟩ := (C01.construct_ok_iff k b hb).mpr h
  unfold construct at ht
  cases ha : accepts k b with
  | true => rfl
  | false => simp [ha] at ht

/-- **an octet string matching the URI grammar is accepted by `UriRef::new`** -/
theorem uriRef_of_octets (b : Text) (h : Matches uriG.reference b) : accepts .uriRef b = true := by
  have hb : ∀ c ∈ b, c < 256 := fun c hc => by
    have := matches_le_maxSym h c hc
    have hm : maxSym uriG.reference < 256 := by decide
    omega
  exact accepts_of_spec .uriRef b hb ⟨b, by simp [symbols, Kind.isChar], h⟩

theorem uri_of_octets (b : Text) (h : Matches uriG.full b) : accepts .uri b = true := by
  have hb : ∀ c ∈ b, c < 256 := fun c hc => by
    have := matches_le_maxSym h c hc
    have hm : maxSym uriG.full < 256 := by decide
    omega
  exact accepts_of_spec .uri b hb ⟨b, by simp [symbols, Kind.isChar], h⟩

/-- **an octet string matching the octet-level IRI grammar is accepted by `IriRef::new`**: it is
well-formed UTF-8 and its scalar values form an RFC 3987 `IRI-reference` -/
theorem iriRef_of_octets (b : Text) (h : Matches iriGB.reference b) : accepts .iriRef b = true := by
  obtain ⟨w, hd, hm⟩ := (iri_octets_exact b).mp h
  have hb : ∀ c ∈ b, c < 256 := by
    rw [← utf8Encode_decode b w hd]
    exact utf8Encode_bytes w (fun c hc => by
      have := utf8Decode_scalars b w hd c hc; unfold IsScalar at this; omega)
  exact accepts_of_spec .iriRef b hb ⟨w, by simp [symbols, Kind.isChar, hd], hm⟩

theorem iri_of_octets (b : Text) (h : Matches iriGB.full b) : accepts .iri b = true := by
  obtain ⟨w, hd, hm⟩ := (iri_octets_exact_full b).mp h
  have hb : ∀ c ∈ b, c < 256 := by
    rw [← utf8Encode_decode b w hd]
    exact utf8Encode_bytes w (fun c hc => by
      have := utf8Decode_scalars b w hd c hc; unfold IsScalar at this; omega)
  exact accepts_of_spec .iri b hb ⟨w, by simp [symbols, Kind.isChar, hd], hm⟩

/-- the two views agree: accepted by the generated automaton iff matching the octet grammar -/
theorem uriRef_iff (b : Text) (hb : ∀ c ∈ b, c < 256) : accepts .uriRef b = true ↔ Matches uriG.reference b :=
  ⟨uriRef_octets b hb, uriRef_of_octets b⟩

theorem iriRef_iff (b : Text) (hb : ∀ c ∈ b, c < 256) : accepts .iriRef b = true ↔ Matches iriGB.reference b :=
  ⟨iriRef_octets b hb, iriRef_of_octets b⟩

end IrefVerif.Props.Valid
