import IrefVerif.Props.C01
import IrefVerif.Lemmas.Utf8Enc

/-!
# What the constructors accept, at the octet level

Bridge from C01 (the generated automata accept exactly the RFC productions) to the structure
theorems, which are stated for octet strings matching a `Grammar`: an accepted `UriRef`/`Uri`
matches `uriG`, an accepted `IriRef`/`Iri` (octets that decode as UTF-8 to a word of the RFC 3987
production) matches the octet-level grammar `iriGB`.  Everything proved for
`Matches G.reference w` with `G ∈ {uriG, iriGB}` therefore holds for every value the crate's
checked constructors can return.
-/

namespace IrefVerif.Props.Valid
open IrefVerif IrefVerif.RE IrefVerif.Spec IrefVerif.Lemmas

theorem spec_of_accepts (k : Kind) (b : Text) (hb : ∀ c ∈ b, c < 256) (h : accepts k b = true) :
    ∃ w, symbols k b = some w ∧ Matches k.spec w := by
  have := (C01.construct_ok_iff k b hb).mp ⟨b, by simp [construct, h]⟩
  exact this

theorem uriRef_octets (b : Text) (hb : ∀ c ∈ b, c < 256) (h : accepts .uriRef b = true) :
    Matches uriG.reference b := by
  obtain ⟨w, hs, hm⟩ := spec_of_accepts .uriRef b hb h
  simp only [symbols, Kind.isChar, Bool.false_eq_true, if_false, Option.some.injEq] at hs
  subst hs; exact hm

theorem uri_octets (b : Text) (hb : ∀ c ∈ b, c < 256) (h : accepts .uri b = true) :
    Matches uriG.full b := by
  obtain ⟨w, hs, hm⟩ := spec_of_accepts .uri b hb h
  simp only [symbols, Kind.isChar, Bool.false_eq_true, if_false, Option.some.injEq] at hs
  subst hs; exact hm

theorem iriRef_octets (b : Text) (hb : ∀ c ∈ b, c < 256) (h : accepts .iriRef b = true) :
    Matches iriGB.reference b := by
  obtain ⟨w, hs, hm⟩ := spec_of_accepts .iriRef b hb h
  simp only [symbols, Kind.isChar, if_true] at hs
  exact iri_octets_valid b w hs hm

theorem iri_octets (b : Text) (hb : ∀ c ∈ b, c < 256) (h : accepts .iri b = true) :
    Matches iriGB.full b := by
  obtain ⟨w, hs, hm⟩ := spec_of_accepts .iri b hb h
  simp only [symbols, Kind.isChar, if_true] at hs
  exact iri_octets_valid_full b w hs hm

end IrefVerif.Props.Valid
