import IrefVerif.Lemmas.Sub
import IrefVerif.Lemmas.Restrict
import IrefVerif.Props.C01
import IrefVerif.Props.C02
import IrefVerif.Props.Valid
import IrefVerif.Model.Extra

/-!
# C13 — URIs embed into IRIs; conversions between the four kinds are exact

1. **Language inclusion** `L(X) ⊆ L(iX)` for the nine URI/IRI production pairs, by a verified
   structural inclusion test evaluated by `decide` on the RFC transcriptions.  (A URI is ASCII,
   so its octets *are* its scalar values.)  Every unchecked up-cast (`as_iri`, `into_iri_ref`,
   `From`, `AsRef`, `Borrow`) is therefore justified for all inputs.
2. **Down-casts** call the URI automaton on the text, so by C01 they succeed exactly when the URI
   grammar accepts it; **reference → full** conversions succeed exactly when a scheme is present
   (`C02.full_iff_scheme`).  All conversions are the identity on the text in the model; that the
   Rust ones are too, and that failures hand the value back, is the `convert` stream.
3. "Identical components / comparison / hashing / resolution / editing in both families": the
   model is a single function of the text for both families; the correspondence streams run each
   ASCII operation in both and compare both with that one model.
-/

namespace IrefVerif.Props.C13
open IrefVerif IrefVerif.RE IrefVerif.Spec IrefVerif.Lemmas

theorem uri_sub_iri (w : Text) (h : Matches Rfc3986.URI w) : Matches Rfc3987.IRI w :=
  sub_sound (by decide) h

theorem uriRef_sub_iriRef (w : Text) (h : Matches Rfc3986.URIreference w) : Matches Rfc3987.IRIreference w :=
  sub_sound (by decide) h

theorem authority_sub (w : Text) (h : Matches Rfc3986.authority w) : Matches Rfc3987.iauthority w :=
  sub_sound (by decide) h

theorem userinfo_sub (w : Text) (h : Matches Rfc3986.userinfo w) : Matches Rfc3987.iuserinfo w :=
  sub_sound (by decide) h

theorem host_sub (w : Text) (h : Matches Rfc3986.host w) : Matches Rfc3987.ihost w :=
  sub_sound (by decide) h

theorem path_sub (w : Text) (h : Matches Rfc3986.path w) : Matches Rfc3987.ipath w :=
  sub_sound (by decide) h

theorem segment_sub (w : Text) (h : Matches Rfc3986.segment w) : Matches Rfc3987.isegment w :=
  sub_sound (by decide) h

theorem query_sub (w : Text) (h : Matches Rfc3986.query w) : Matches Rfc3987.iquery w :=
  sub_sound (by decide) h

theorem fragment_sub (w : Text) (h : Matches Rfc3986.fragment w) : Matches Rfc3987.ifragment w :=
  sub_sound (by decide) h

/-- every symbol of a URI-family word is ASCII, so the word read as octets and read as scalar
values is the same list, and its UTF-8 encoding is itself -/
theorem uriRef_ascii (w : Text) (h : Matches Rfc3986.URIreference w) : ∀ c ∈ w, c < 0x80 := by
  intro c hc
  have := matches_le_maxSym h c hc
  have hm : maxSym Rfc3986.URIreference = 0x7E := by decide
  omega

/-- a reference converts to a full URI/IRI exactly when it has a scheme -/
theorem ref_to_full (G : Grammar) (ok : Grammar.Ok G) (w : Text) (h : Matches G.reference w) :
    Matches G.full w ↔ (split w).scheme.isSome := by
  rw [C02.full_iff_scheme G ok w]
  exact ⟨fun hh => hh.2, fun hh => ⟨h, hh⟩⟩

/-- an IRI (reference) converts to a URI (reference) exactly when the URI grammar accepts its
text: the model of the down-cast is the checked URI constructor (C01) -/
theorem down_cast (x : Text) (hb : ∀ c ∈ x, c < 256) :
    accepts .uri x = acceptsSpec .uri x ∧ accepts .uriRef x = acceptsSpec .uriRef x :=
  ⟨C01.accepts_eq_spec .uri x hb, C01.accepts_eq_spec .uriRef x hb⟩

/-- ASCII octets decode to themselves -/
theorem utf8Decode_ascii (b : Text) (h : ∀ c ∈ b, c < 0x80) : utf8Decode? b = some b := by
  induction b with
  | nil => rfl
  | cons c b ih =>
    have hc := h c List.mem_cons_self
    unfold utf8Decode?
    simp only [hc, if_true, ih (fun x hx => h x (List.mem_cons_of_mem _ hx)), Option.map_some]

/-- **the up-cast**: whatever `UriRef::new` accepts, `IriRef::new` accepts, with the same text — so
the unchecked casts `as_iri_ref`, `into_iri_ref` produce values the IRI constructors would have
produced -/
theorem uriRef_embeds (b : Text) (hb : ∀ c ∈ b, c < 256) (h : accepts .uriRef b = true) :
    accepts .iriRef b = true := by
  obtain ⟨w, hs, hm⟩ := Valid.spec_of_accepts .uriRef b hb h
  simp only [symbols, Kind.isChar, Bool.false_eq_true, if_false, Option.some.injEq] at hs
  subst hs
  have hascii := uriRef_ascii b hm
  exact Valid.accepts_of_spec .iriRef b hb
    ⟨b, by simp [symbols, Kind.isChar, utf8Decode_ascii b hascii], uriRef_sub_iriRef b hm⟩

/-- … and `Uri::new` ⊆ `Iri::new` -/
theorem uri_embeds (b : Text) (hb : ∀ c ∈ b, c < 256) (h : accepts .uri b = true) :
    accepts .iri b = true := by
  obtain ⟨w, hs, hm⟩ := Valid.spec_of_accepts .uri b hb h
  simp only [symbols, Kind.isChar, Bool.false_eq_true, if_false, Option.some.injEq] at hs
  subst hs
  have hm' : Matches Rfc3986.URI b := hm
  have hascii : ∀ c ∈ b, c < 0x80 := by
    intro c hc
    have := matches_le_maxSym hm' c hc
    have hmx : maxSym Rfc3986.URI = 0x7E := by decide
    omega
  exact Valid.accepts_of_spec .iri b hb
    ⟨b, by simp [symbols, Kind.isChar, utf8Decode_ascii b hascii], uri_sub_iri b hm⟩

/-- conversely an accepted IRI reference whose octets are all ASCII and which the URI grammar
matches is an accepted URI reference: the down-cast succeeds exactly on those -/
theorem iriRef_down (b : Text) (hb : ∀ c ∈ b, c < 256) :
    accepts .uriRef b = true ↔ Matches Rfc3986.URIreference b := by
  constructor
  · intro h
    obtain ⟨w, hs, hm⟩ := Valid.spec_of_accepts .uriRef b hb h
    simp only [symbols, Kind.isChar, Bool.false_eq_true, if_false, Option.some.injEq] at hs
    subst hs; exact hm
  · intro h
    exact Valid.accepts_of_spec .uriRef b hb ⟨b, by simp [symbols, Kind.isChar], h⟩

/-! ## the converse inclusion on ASCII, and the exact domain of the down-casts -/

/-- **an IRI reference written with ASCII characters only is a URI reference** (the IRI production
with every character class clipped to ASCII is included in the URI production) -/
theorem iriRef_ascii_is_uriRef (w : Text) (h : Matches Rfc3987.IRIreference w) (ha : ∀ c ∈ w, c < 0x80) :
    Matches Rfc3986.URIreference w := iriRef_ascii_uriRef w h ha

theorem iri_ascii_is_uri (w : Text) (h : Matches Rfc3987.IRI w) (ha : ∀ c ∈ w, c < 0x80) :
    Matches Rfc3986.URI w := iri_ascii_uri w h ha

/-- **`IriRef → UriRef` succeeds exactly on ASCII**: for every accepted IRI reference the URI
constructor the down-cast runs accepts the text iff all its octets are ASCII -/
theorem iriRef_down_iff_ascii (b : Text) (hb : ∀ c ∈ b, c < 256) (h : accepts .iriRef b = true) :
    accepts .uriRef b = true ↔ ∀ c ∈ b, c < 0x80 := by
  constructor
  · intro hu
    exact uriRef_ascii b ((iriRef_down b hb).mp hu)
  · intro ha
    obtain ⟨w, hs, hm⟩ := Valid.spec_of_accepts .iriRef b hb h
    simp only [symbols, Kind.isChar, if_true, utf8Decode_ascii b ha, Option.some.injEq] at hs
    subst hs
    exact (iriRef_down b hb).mpr (iriRef_ascii_is_uriRef b hm ha)

/-- … and `Iri → Uri` -/
theorem iri_down_iff_ascii (b : Text) (hb : ∀ c ∈ b, c < 256) (h : accepts .iri b = true) :
    accepts .uri b = true ↔ ∀ c ∈ b, c < 0x80 := by
  constructor
  · intro hu
    obtain ⟨w, hs, hm⟩ := Valid.spec_of_accepts .uri b hb hu
    simp only [symbols, Kind.isChar, Bool.false_eq_true, if_false, Option.some.injEq] at hs
    subst hs
    have hm' : Matches Rfc3986.URI b := hm
    intro c hc
    have := matches_le_maxSym hm' c hc
    have hmx : maxSym Rfc3986.URI = 0x7E := by decide
    omega
  · intro ha
    obtain ⟨w, hs, hm⟩ := Valid.spec_of_accepts .iri b hb h
    simp only [symbols, Kind.isChar, if_true, utf8Decode_ascii b ha, Option.some.injEq] at hs
    subst hs
    exact Valid.accepts_of_spec .uri b hb ⟨b, by simp [symbols, Kind.isChar], iri_ascii_is_uri b hm ha⟩

/-- `http://é` is an IRI and no URI; `http://e` is both -/
example : accepts .iriRef [0x68, 0x3A, 0xC3, 0xA9] = true ∧ accepts .uriRef [0x68, 0x3A, 0xC3, 0xA9] = false := by decide +kernel

end IrefVerif.Props.C13
