import IrefVerif.Lemmas.PctBytes
import IrefVerif.Lemmas.Nsegs
import IrefVerif.Spec.Equiv
import IrefVerif.Lemmas.IriBytes
import IrefVerif.Props.Valid

/-!
# C07 — equality is the documented normalising equivalence, and is total

Component level (user info, host, segment, query, fragment — both families): the model's
equality is equality of the percent-decoded octets and never panics (`none` is impossible),
for every well-escaped text, in particular for octets that are not UTF-8.  The documented
equivalence `Spec.key` is an equality of normal forms, hence reflexive, symmetric, transitive.
Path level: the dot-free segment sequence compared by the model is the specification's
`nsegs` (C09).
Struct level (`ref_eq`, `full_eq`, and their end-to-end forms `uriRef_eq`, `uri_eq`, `iriRef_eq`,
`iri_eq`): for every pair of values the checked constructors accept — octet strings, the IRI
family through its UTF-8 decoding — the model of `==` (the derived `PartialEq` of the parts
struct: a short-circuit `&&` over scheme, authority, path, query, fragment) returns
`some (decide (key a = key b))`: it never panics and decides exactly the documented equivalence.
Reflexivity, symmetry and transitivity of `==` follow.  Stand-alone authorities and paths:
`authority_eq`, `path_eq`.  The agreement of the model with the real crate is the `cmp` stream.
-/

namespace IrefVerif.Props.C07
open IrefVerif IrefVerif.Spec IrefVerif.Model IrefVerif.Model.Cmp IrefVerif.Lemmas

/-- **component equality = equality of decoded octets; total** -/
theorem component_eq (a b : Text) (ha : wellEscaped a = true) (hb : wellEscaped b = true) :
    pctEq a b = some (pctDecode a == pctDecode b) := pctEq_eq a b ha hb

/-- the documented equivalence is an equivalence relation (it is equality of keys) -/
theorem key_refl (w : Text) : key w = key w := rfl
theorem key_symm {a b : Text} (h : key a = key b) : key b = key a := h.symm
theorem key_trans {a b c : Text} (h1 : key a = key b) (h2 : key b = key c) : key a = key c := h1.trans h2

/-- component equality is reflexive, symmetric and transitive -/
theorem component_eq_refl (a : Text) (ha : wellEscaped a = true) : pctEq a a = some true := by
  rw [pctEq_eq a a ha ha]; simp

theorem component_eq_symm (a b : Text) (ha : wellEscaped a = true) (hb : wellEscaped b = true) :
    pctEq a b = pctEq b a := by
  rw [pctEq_eq a b ha hb, pctEq_eq b a hb ha]
  congr 1
  by_cases h : pctDecode a = pctDecode b
  · rw [h]
  · have h' : ¬ pctDecode b = pctDecode a := fun e => h e.symm
    have e1 : (pctDecode a == pctDecode b) = false := by simpa using h
    have e2 : (pctDecode b == pctDecode a) = false := by simpa using h'
    rw [e1, e2]

theorem component_eq_trans (a b c : Text) (ha : wellEscaped a = true) (hb : wellEscaped b = true)
    (hc : wellEscaped c = true) (h1 : pctEq a b = some true) (h2 : pctEq b c = some true) :
    pctEq a c = some true := by
  rw [pctEq_eq _ _ ha hb] at h1
  rw [pctEq_eq _ _ hb hc] at h2
  rw [pctEq_eq _ _ ha hc]
  have e1 : pctDecode a = pctDecode b := by simpa using h1
  have e2 : pctDecode b = pctDecode c := by simpa using h2
  simp [e1, e2]

/-- literal comparison of scheme and port: the model compares the bytes -/
theorem scheme_literal (a b : Text) : optEq (fun x y => some (x == y)) (some a) (some b) = some (a == b) := rfl

/-! ## whole references and full URIs/IRIs -/

/-- **`==` on references decides equality of keys** (any grammar with the side conditions) -/
theorem ref_eq (G : Grammar) (ok : Grammar.Ok G) (oka : Grammar.OkAuth G) (we : Grammar.OkWE G)
    (a b : Text) (ha : RE.Matches G.reference a) (hb : RE.Matches G.reference b) :
    refEq a b = some (decide (key a = key b)) := refEq_eq_key G ok oka we a b ha hb

theorem full_eq (G : Grammar) (ok : Grammar.Ok G) (oka : Grammar.OkAuth G) (we : Grammar.OkWE G)
    (a b : Text) (ha : RE.Matches G.full a) (hb : RE.Matches G.full b) :
    fullEq a b = some (decide (key a = key b)) := fullEq_eq_key G ok oka we a b ha hb

/-- end to end: every pair of `UriRef` values the constructor accepts -/
theorem uriRef_eq (a b : Text) (ha8 : ∀ c ∈ a, c < 256) (hb8 : ∀ c ∈ b, c < 256)
    (ha : accepts .uriRef a = true) (hb : accepts .uriRef b = true) :
    refEq a b = some (decide (key a = key b)) :=
  ref_eq uriG uriG_ok uriG_okAuth uriG_okWE a b (Valid.uriRef_octets a ha8 ha) (Valid.uriRef_octets b hb8 hb)

theorem uri_eq (a b : Text) (ha8 : ∀ c ∈ a, c < 256) (hb8 : ∀ c ∈ b, c < 256)
    (ha : accepts .uri a = true) (hb : accepts .uri b = true) :
    fullEq a b = some (decide (key a = key b)) :=
  full_eq uriG uriG_ok uriG_okAuth uriG_okWE a b (Valid.uri_octets a ha8 ha) (Valid.uri_octets b hb8 hb)

/-- … of `IriRef` values: octets whose UTF-8 decoding is a word of RFC 3987 -/
theorem iriRef_eq (a b : Text) (ha8 : ∀ c ∈ a, c < 256) (hb8 : ∀ c ∈ b, c < 256)
    (ha : accepts .iriRef a = true) (hb : accepts .iriRef b = true) :
    refEq a b = some (decide (key a = key b)) :=
  ref_eq iriGB iriGB_ok iriGB_okAuth iriGB_okWE a b (Valid.iriRef_octets a ha8 ha) (Valid.iriRef_octets b hb8 hb)

theorem iri_eq (a b : Text) (ha8 : ∀ c ∈ a, c < 256) (hb8 : ∀ c ∈ b, c < 256)
    (ha : accepts .iri a = true) (hb : accepts .iri b = true) :
    fullEq a b = some (decide (key a = key b)) :=
  full_eq iriGB iriGB_ok iriGB_okAuth iriGB_okWE a b (Valid.iri_octets a ha8 ha) (Valid.iri_octets b hb8 hb)

/-- reflexive, symmetric, transitive — and total (`some _`) — on valid references -/
theorem ref_eq_refl (G : Grammar) (ok : Grammar.Ok G) (oka : Grammar.OkAuth G) (we : Grammar.OkWE G)
    (a : Text) (ha : RE.Matches G.reference a) : refEq a a = some true := by
  rw [ref_eq G ok oka we a a ha ha]; simp

theorem ref_eq_symm (G : Grammar) (ok : Grammar.Ok G) (oka : Grammar.OkAuth G) (we : Grammar.OkWE G)
    (a b : Text) (ha : RE.Matches G.reference a) (hb : RE.Matches G.reference b) : refEq a b = refEq b a := by
  rw [ref_eq G ok oka we a b ha hb, ref_eq G ok oka we b a hb ha]
  congr 1
  by_cases h : key a = key b
  · simp [h]
  · have h' : ¬ key b = key a := fun e => h e.symm
    simp [h, h']

theorem ref_eq_trans (G : Grammar) (ok : Grammar.Ok G) (oka : Grammar.OkAuth G) (we : Grammar.OkWE G)
    (a b c : Text) (ha : RE.Matches G.reference a) (hb : RE.Matches G.reference b)
    (hc : RE.Matches G.reference c) (h1 : refEq a b = some true) (h2 : refEq b c = some true) :
    refEq a c = some true := by
  rw [ref_eq G ok oka we a b ha hb] at h1
  rw [ref_eq G ok oka we b c hb hc] at h2
  rw [ref_eq G ok oka we a c ha hc]
  have e1 : key a = key b := by simpa using h1
  have e2 : key b = key c := by simpa using h2
  simp [e1, e2]

/-- stand-alone authorities and paths obey the same rules -/
theorem authority_eq (G : Grammar) (oka : Grammar.OkAuth G) (we : Grammar.OkWE G) (a b : Text)
    (ha : RE.Matches G.authority a) (hb : RE.Matches G.authority b) :
    authorityEq a b = some (decide (authKey a = authKey b)) := authorityEq_key G oka we a b ha hb

theorem path_eq (p q : Text) (hp : PathText p) (hq : PathText q)
    (wp : wellEscaped p = true) (wq : wellEscaped q = true) :
    pathEq p q = some (decide (pathKey p = pathKey q)) := pathEq_key p q hp hq wp wq

/-- the hypotheses of `path_eq` hold for every valid stand-alone path of either family -/
theorem uri_path_ok (p : Text) (h : RE.Matches Rfc3986.path p) : PathText p ∧ wellEscaped p = true := by
  refine ⟨?_, wellEscaped_of_sub (by decide) h⟩
  intro c hc
  have := matches_excl (r := Rfc3986.path) (ds := [0x3F, 0x23]) (by decide) h c hc
  simp only [List.mem_cons, List.not_mem_nil, or_false, not_or] at this
  exact this

/-- non-vacuity: the hypotheses are satisfiable and the verdict is computed -/
example : refEq [0x61, 0x2F, 0x2E, 0x2F, 0x62] [0x61, 0x2F, 0x25, 0x36, 0x32] = some true := by decide
example : RE.Matches uriG.reference [0x61, 0x2F, 0x62] := RE.matchesB_iff.mp (by decide)

/-- octets that are not UTF-8 compare without panicking, and an overlong form is not equated
with the well-formed character it would lenient-decode to -/
example : pctEq [0x25, 0x46, 0x46] [0x25, 0x46, 0x46] = some true := by decide
example : pctEq [0x25, 0x43, 0x30, 0x25, 0x41, 0x46] [0x25, 0x32, 0x46] = some false := by decide

end IrefVerif.Props.C07
