import IrefVerif.Lemmas.PctBytes
import IrefVerif.Lemmas.Nsegs
import IrefVerif.Spec.Equiv

/-!
# C07 — equality is the documented normalising equivalence, and is total

Component level (user info, host, segment, query, fragment — both families): the model's
equality is equality of the percent-decoded octets and never panics (`none` is impossible),
for every well-escaped text, in particular for octets that are not UTF-8.  The documented
equivalence `Spec.key` is an equality of normal forms, hence reflexive, symmetric, transitive.
Path level: the dot-free segment sequence compared by the model is the specification's
`nsegs` (C09).  The struct-level impls are `&&`-chains of these; their agreement with
`Spec.key` on the real crate is the `cmp` oracle.
-/

namespace IrefVerif.Props.C07
open IrefVerif IrefVerif.Spec IrefVerif.Model IrefVerif.Model.Cmp IrefVerif.Lemmas

/-- **component equality = equality of decoded octets; total** -/
theorem component_eq (a b : Text) (ha : wellEscaped a = true) (hb : wellEscaped b = true) :
    pctEq a b = some (pctDecode a == pctDecode b) := pctEq_eq a b ha hb

/-- the documented equivalence is an equivalence relation (it is equality of keys) -/
theorem key_refl (w : Text) : key w = key w := rfl
theorem key_symm {a b : Text} (h : key a = key b) : key b = key a := h.symm
theorem key_trans {a b c : Text} (h1 : key a = key b) (h2 : key b = key c) : key a = key c := h1.trans h2

/-- component equality is reflexive, symmetric and transitive -/
theorem component_eq_refl (a : Text) (ha : wellEscaped a = true) : pctEq a a = some true := by
  rw [pctEq_eq a a ha ha]; simp

theorem component_eq_symm (a b : Text) (ha : wellEscaped a = true) (hb : wellEscaped b = true) :
    pctEq a b = pctEq b a := by
  rw [pctEq_eq a b ha hb, pctEq_eq b a hb ha]
  congr 1
  by_cases h : pctDecode a = pctDecode b
  · rw [h]
  · have h' : ¬ pctDecode b = pctDecode a := fun e => h e.symm
    have e1 : (pctDecode a == pctDecode b) = false := by simpa using h
    have e2 : (pctDecode b == pctDecode a) = false := by simpa using h'
    rw [e1, e2]

theorem component_eq_trans (a b c : Text) (ha : wellEscaped a = true) (hb : wellEscaped b = true)
    (hc : wellEscaped c = true) (h1 : pctEq a b = some true) (h2 : pctEq b c = some true) :
    pctEq a c = some true := by
  rw [pctEq_eq _ _ ha hb] at h1
  rw [pctEq_eq _ _ hb hc] at h2
  rw [pctEq_eq _ _ ha hc]
  have e1 : pctDecode a = pctDecode b := by simpa using h1
  have e2 : pctDecode b = pctDecode c := by simpa using h2
  simp [e1, e2]

/-- literal comparison of scheme and port: the model compares the bytes -/
theorem scheme_literal (a b : Text) : optEq (fun x y => some (x == y)) (some a) (some b) = some (a == b) := rfl

/-- octets that are not UTF-8 compare without panicking, and an overlong form is not equated
with the well-formed character it would lenient-decode to -/
example : pctEq [0x25, 0x46, 0x46] [0x25, 0x46, 0x46] = some true := by decide
example : pctEq [0x25, 0x43, 0x30, 0x25, 0x41, 0x46] [0x25, 0x32, 0x46] = some false := by decide

end IrefVerif.Props.C07
