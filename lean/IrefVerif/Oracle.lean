import IrefVerif.Model.Ctor
import IrefVerif.Spec.Decompose
import IrefVerif.Spec.Path
import IrefVerif.Spec.Resolve
import IrefVerif.Spec.Equiv

/-!
# Property oracles

The property statements of `/verif/properties.jsonl` made executable over `Spec.*`.
Each oracle receives the arguments of one harness operation together with what the
*implementation* printed for it and answers `none` (the property holds on this case) or
`some reason`.  The same definitions are what the property theorems in `Props/` talk about,
so a PASS of the proofs and a PASS of the oracle mean the same thing.
-/

namespace IrefVerif.Oracle
open IrefVerif IrefVerif.Spec

inductive Fam | u | i
  deriving DecidableEq, Repr

def Fam.ofString? : String → Option Fam
  | "u" => some .u | "i" => some .i | _ => none

/-- the validated type of a component in a family -/
def Fam.kind (f : Fam) (c : String) : Option Kind :=
  match f, c with
  | _, "scheme" => some .scheme
  | _, "port" => some .port
  | .u, "full" => some .uri | .u, "ref" => some .uriRef
  | .u, "authority" => some .uriAuthority | .u, "userinfo" => some .uriUserInfo
  | .u, "host" => some .uriHost | .u, "path" => some .uriPath
  | .u, "segment" => some .uriSegment | .u, "query" => some .uriQuery
  | .u, "fragment" => some .uriFragment
  | .i, "full" => some .iri | .i, "ref" => some .iriRef
  | .i, "authority" => some .iriAuthority | .i, "userinfo" => some .iriUserInfo
  | .i, "host" => some .iriHost | .i, "path" => some .iriPath
  | .i, "segment" => some .iriSegment | .i, "query" => some .iriQuery
  | .i, "fragment" => some .iriFragment
  | _, _ => none

def valid (f : Fam) (c : String) (t : Text) : Bool :=
  match f.kind c with
  | some k => acceptsSpec k t
  | none => false

def validO (f : Fam) (c : String) (t : Option Text) : Bool :=
  match t with
  | some t => valid f c t
  | none => true

/-- all five components are values of their component types -/
def partsValid (f : Fam) (p : Parts) : Bool :=
  validO f "scheme" p.scheme && validO f "authority" p.authority && valid f "path" p.path &&
    validO f "query" p.query && validO f "fragment" p.fragment

def fail (s : String) : Option String := some s
def ok : Option String := none

def firstFail : List (Option String) → Option String
  | [] => none
  | some e :: _ => some e
  | none :: r => firstFail r

def check (b : Bool) (msg : String) : Option String := if b then none else some msg

/-! ## C01 / C14 (routes in) -/

/-- `out` is `"1"`, `"0"`, or a `ROUTES …` disagreement report -/
def ctor (k : Kind) (x : Text) (out : String) : Option String :=
  let want := if acceptsSpec k x then "1" else "0"
  check (out == want) s!"constructor verdict {out}, RFC production says {want}"

/-! ## C02 -/

def parts (f : Fam) (full : Bool) (x : Text) (all ind : Parts) : Option String :=
  let p := split x
  firstFail [
    check (all == p) "parts() differs from the Appendix-B decomposition",
    check (ind == p) "individual accessors differ from the Appendix-B decomposition",
    check (partsValid f all) "a component of parts() is not a valid value of its type",
    check (recompose all == x) "recomposition (RFC 3986 5.3) does not reproduce the text",
    check (!full || all.scheme.isSome) "full value without scheme"]

/-! ## C03 -/

def authValid (f : Fam) (p : AuthParts) : Bool :=
  validO f "userinfo" p.userinfo && valid f "host" p.host && validO f "port" p.port

def auth (f : Fam) (x : Text) (all ind : AuthParts) : Option String :=
  let p := splitAuth x
  firstFail [
    check (all == p) "parts() differs from [userinfo@]host[:port]",
    check (ind == p) "individual accessors differ from [userinfo@]host[:port]",
    check (authValid f all) "a sub-component is not a valid value of its type",
    check (recomposeAuth all == x) "reassembly does not reproduce the authority"]

/-! ## C05: setter frame -/

def startsWith2Slash (p : Text) : Bool :=
  match p with
  | a :: b :: _ => a == cSlash && b == cSlash
  | _ => false

def firstSegHasColon (p : Text) : Bool :=
  match splitSlash p with
  | s :: _ => containsColon s
  | [] => false

/-- The path texts a setter may leave behind for a requested path value `p` in a result whose
scheme / authority presence is `hasScheme` / `hasAuth`: `p` itself, or `p` behind exactly the
documented disambiguation that applies. -/
def allowedPaths (hasScheme hasAuth : Bool) (p : Text) : List Text :=
  [p] ++
  (if hasAuth && !isAbs p then [cSlash :: p] else []) ++
  (if !hasAuth && startsWith2Slash p then [cSlash :: cDot :: p] else []) ++
  (if !hasScheme && !hasAuth && firstSegHasColon p then [cDot :: cSlash :: p] else [])

/-- expected decomposition after a setter, up to the permitted path forms -/
def frame (post : Text) (want : Parts) : Option String :=
  let q := split post
  firstFail [
    check (q.scheme == want.scheme) "scheme differs from the expected value",
    check (q.authority == want.authority) "authority differs from the expected value",
    check (q.query == want.query) "query differs from the expected value",
    check (q.fragment == want.fragment) "fragment differs from the expected value",
    check ((allowedPaths want.scheme.isSome want.authority.isSome want.path).contains q.path)
      "path differs from the expected value (beyond the documented disambiguations)",
    check (recompose q == post) "result does not recompose"]

/-! ## C09 / C10: path editing on segment lists -/

inductive PmOp
  | push (s : Text) | pop | clear | spush (s : Text) | sapp (p : Text) | norm
  deriving Repr

def listPop (abs : Bool) (e : List Text) : List Text :=
  if (e.isEmpty && !abs) || e.getLast? == some segDotDot then e ++ [segDotDot]
  else e.dropLast

/-- inner symbolic push: new list and the `open` flag -/
def listSymPush (abs : Bool) (e : List Text) (s : Text) : List Text × Bool :=
  if s == segDot then (e, true)
  else if s == segDotDot then (listPop abs (if e == [segDot] then [] else e), true)
  else if s.isEmpty && e.isEmpty then (e, false)
  else (e ++ [s], false)

def listSymAppend (abs : Bool) (e : List Text) (ss : List Text) : List Text :=
  let r := ss.foldl (fun (st : List Text × Bool) s => listSymPush abs st.1 s) (e, false)
  if r.2 && !r.1.isEmpty then r.1 ++ [[]] else r.1

/-- the list semantics of one edit (C10; `norm` is C09's in-place normalisation) -/
def listOp (abs : Bool) (e : List Text) : PmOp → List Text
  | .push s => e ++ [s]
  | .pop => listPop abs e
  | .clear => []
  | .spush s =>
    let r := listSymPush abs e s
    if r.2 && !r.1.isEmpty then r.1 ++ [[]] else r.1
  | .sapp p => listSymAppend abs e (segs p)
  | .norm => nsegsOf abs e

/-- the readings of a segment list: literally, or with a leading `.` taken as the shield of what
follows it (the text `/./` after an authority is both the list `[".", ""]` and the shielded `[""]`) -/
def readings (e : List Text) : List (List Text) :=
  (match e with
   | d :: r => if d = segDot && needsShieldHead r then [e, r] else [e]
   | [] => [e]) ++
  -- the text written for `e` may carry a shield, which the next inner step reads literally
  (if needsShieldHead e then [segDot :: e] else [])

/-- symbolic append is a sequence of symbolic pushes; each push may read the text left by the
previous one either way, so the acceptable results are those of every consistent re-reading -/
def listSymAppendCands (abs : Bool) (e : List Text) (ss : List Text) : List (List Text) :=
  let step (cands : List (List Text × Bool)) (s : Text) : List (List Text × Bool) :=
    (cands.flatMap fun st => (readings st.1).map fun l => listSymPush abs l s).eraseDups
  let rs := ss.foldl step [(e, false)]
  rs.map fun r => if r.2 && !r.1.isEmpty then r.1 ++ [[]] else r.1

def listOpCands (abs : Bool) (e : List Text) : PmOp → List (List Text)
  | .sapp p => listSymAppendCands abs e (segs p)
  | op => [listOp abs e op]

/-- `post` realises list `e` literally, behind a shield, or read through `alist` -/
def realisesEither (post : Text) (e : List Text) : Bool :=
  realises post e || alist post == e

/-- one edit from view `pre` to view `post`; `hasAuth`: the path follows an authority -/
def pmStep (hasAuth : Bool) (pre post : Text) (op : PmOp) : Option String :=
  let abs := isAbs pre || (hasAuth && true)
  let absPre := isAbs pre
  let lit := listOpCands (absPre || hasAuth) (segs pre) op
  let abst := listOpCands (absPre || hasAuth) (alist pre) op
  let _ := abs
  firstFail [
    check (if hasAuth then (post.isEmpty || isAbs post) else (isAbs post == absPre))
      "path changed between absolute and relative",
    check ((lit ++ abst).any (realisesEither post))
      "segment sequence after the edit is not the expected one"]

/-! ## C11 -/

inductive AmOp
  | ui (v : Option Text) | host (v : Text) | port (v : Option Text)
  deriving Repr

def amStep (pre post : Text) (op : AmOp) : Option String :=
  let a := splitAuth pre
  let want : AuthParts := match op with
    | .ui v => { a with userinfo := v }
    | .host v => { a with host := v }
    | .port v => { a with port := v }
  firstFail [
    check (splitAuth post == want) "authority sub-components after the edit are not the expected ones",
    check (recomposeAuth want == post) "handle view is not the reassembled authority"]

/-! ## C06 -/

/-- the dot-free segment list that the target path of `transform` stands for, and its
absoluteness: the argument of `remove_dot_segments` in the branch taken -/
def targetList (b r : Parts) : Option (Bool × List Text) :=
  let of (x : Text) := some (isAbs x, normTarget x)
  match r.scheme with
  | some _ => of r.path
  | none =>
    match r.authority with
    | some _ => of r.path
    | none =>
      if r.path.isEmpty then none
      else if isAbs r.path then of r.path
      else of (merge b.authority.isSome b.path r.path)

/-- a segment list whose plain rendering reads back differently (`[""]`, or a relative list
starting with an empty segment) -/
def unfaithful (abs : Bool) (e : List Text) : Bool :=
  segs (render abs e) != e || isAbs (render abs e) != abs

def resolve (f : Fam) (base ref out : Text) : Option String :=
  let t := resolveSpec base ref
  let o := split out
  let exact := split (recompose t) == t && out == recompose t
  if exact then none
  else
    -- the RFC text is ambiguous (`//` without authority) or its rendering loses a segment:
    -- the result must still carry the RFC components and an unambiguous rendering of the path
    let lossy := match targetList (split base) (split ref) with
      | some (a, e) => unfaithful a e
      | none => false
    if split (recompose t) == t && !lossy then
      fail "result differs from the RFC 3986 5.2 target"
    else
      let (a, e) := match targetList (split base) (split ref) with
        | some p => p
        | none => (isAbs t.path, segs t.path)
      firstFail [
        check (valid f "full" out) "result is not a valid URI/IRI",
        check (o.scheme == t.scheme && o.authority == t.authority && o.query == t.query &&
          o.fragment == t.fragment) "scheme/authority/query/fragment differ from the RFC target",
        check ((isAbs o.path == a || (t.authority.isSome && o.path.isEmpty)) && realises o.path e)
          "path is not an unambiguous rendering of the RFC path"]

/-! ## C07 / C08 -/

def specEq (kind : String) (a b : Text) : Bool :=
  match kind with
  | "full" | "ref" | "fullref" => key a == key b
  | "authority" => authKey a == authKey b
  | "path" => pathKey a == pathKey b
  | _ => pctDecode a == pctDecode b

/-! ## C12 -/

/-- replay a schedule (`true` = `next`, `false` = `next_back`) on the segment list as a
double-ended iterator must: outputs, and the unconsumed middle -/
def scheduleRem : List Text → List Bool → List (Option Text) × List Text
  | l, [] => ([], l)
  | [], _ :: σ => let x := scheduleRem [] σ; (none :: x.1, x.2)
  | s :: r, true :: σ => let x := scheduleRem r σ; (some s :: x.1, x.2)
  | s :: r, false :: σ =>
    let x := scheduleRem (s :: r).dropLast σ
    ((s :: r).getLast? :: x.1, x.2)

def schedule (l : List Text) (σ : List Char) : List (Option Text) :=
  (scheduleRem l (σ.map (· == 'f'))).1

def parentSpec (p : Text) : Option Text :=
  let s := segs p
  if s.isEmpty then none
  else if !isAbs p && s.length == 1 then none
  else
    let r := render (isAbs p) s.dropLast
    -- `//foo`: the remaining single empty segment needs its shield
    if isAbs p && s.dropLast == [[]] then some [cSlash, cDot, cSlash] else some r

def parentOrEmpty (p : Text) : Text :=
  match parentSpec p with
  | some r => r
  | none => if isAbs p then [cSlash] else []

def fileName (p : Text) : Option Text :=
  match (segs p).getLast? with
  | some s => if s.isEmpty then none else some s
  | none => none

/-! ## C16 -/

def isPrefixDecoded (a b : List Text) : Bool :=
  a.length ≤ b.length && (a.map pctDecode == (b.take a.length).map pctDecode)

def pathSuffixSpec (v p : Text) : Option (List Text) :=
  if isAbs v == isAbs p && isPrefixDecoded (nsegs p) (nsegs v) then
    some ((nsegs v).drop (nsegs p).length)
  else none

def baseSpec (x : Text) : Text :=
  let p := split x
  recompose { p with path := upToLastSlash p.path, query := none, fragment := none }

end IrefVerif.Oracle
