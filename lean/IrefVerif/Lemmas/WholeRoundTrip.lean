import IrefVerif.Lemmas.RelativeRoundTrip
import IrefVerif.Lemmas.ResolveRelBase

/-!
# The whole-target fallback of `relative_to` round-trips

Where no relative path exists (an authority on one side only, an absolute against a relative
path, different authorities or schemes, a relative path climbing above its start, an empty segment
that resolution would drop) the repaired `relative_to` returns the whole target with its path
normalised in place.  Resolving that against any base removes its dot segments (it has a scheme);
here: for a target with an authority whose normalised segments are not the lone empty segment, the
result is `==` to the target — whatever the base.
-/

set_option linter.unusedSimpArgs false

namespace IrefVerif.Lemmas
open IrefVerif IrefVerif.RE IrefVerif.Spec IrefVerif.Model IrefVerif.Oracle IrefVerif.Findings IrefVerif.Props

section
variable (G : Grammar) (ok : Grammar.Ok G) (okp : Grammar.OkPath G)
include ok okp

omit ok okp in
/-- §5.2.4 on an absolute path that is already normalised (dots removed, shield possibly in front):
the normalised sequence written out -/
theorem removeDots_of_realises (v : Text) (L : List Text) (habs : isAbs v = true) (df : DotFree L)
    (hr : realises v L = true) : removeDots v = cSlash :: joinSlash L := by
  have hsg := realises_cases hr
  have hn : nsegs v = L := by
    unfold nsegs
    rw [habs]
    rcases hsg with h | h
    · rw [h, nsegsOf_dotFree _ _ df]
    · rw [h, nsegsOf_cons_dot, nsegsOf_dotFree _ _ df]
  have hde : dotEnd v = false := by
    unfold dotEnd
    rcases hsg with h | h
    · rw [h]
      cases hl : L.getLast? with
      | none => rfl
      | some s =>
        have hm : s ∈ L := List.mem_of_getLast? hl
        have h1 : s ≠ segDot := fun e => df.1 (e ▸ hm)
        have h2 : s ≠ segDotDot := fun e => df.2 (e ▸ hm)
        simp [h1, h2]
    · rw [h]
      -- the shield is only written in front of a non-empty list
      have hLne : L ≠ [] := by
        intro e
        subst e
        simp only [realises, Bool.or_eq_true, decide_eq_true_eq, Bool.and_eq_true] at hr
        rcases hr with hr | ⟨hns, _⟩
        · rw [hr] at h; cases h
        · simp [needsShieldHead] at hns
      have hl2 : (segDot :: L).getLast? = L.getLast? := getLast?_shield hLne
      rw [hl2]
      cases hl : L.getLast? with
      | none => rfl
      | some s =>
        have hm : s ∈ L := List.mem_of_getLast? hl
        have h1 : s ≠ segDot := fun e => df.1 (e ▸ hm)
        have h2 : s ≠ segDotDot := fun e => df.2 (e ▸ hm)
        simp [h1, h2]
  unfold removeDots normTarget render
  rw [hn, hde, habs]
  simp

/-- **the whole target, normalised in place, resolves to something equal to the target** —
target with an authority, its normalised segments not the lone empty segment -/
theorem whole_roundtrip_authority (a b aa : Text) (ha : Matches G.full a) (hb : Matches G.full b)
    (haa : (split a).authority = some aa) (hl : nsegs (split a).path ≠ [[]]) :
    ∃ w t, Ref.whole a = some w ∧ Ref.resolve w b = some t ∧ key t = key a := by
  have haR : Matches G.reference a := Matches.altL ha
  obtain ⟨vA, wA⟩ := split_valid G ok a haR
  obtain ⟨sa, hsa⟩ : ∃ sa, (split a).scheme = some sa := by
    have := ((C02.full_iff_scheme G ok a).mp ha).2
    exact Option.isSome_iff_exists.mp this
  have hptA : PathText (split a).path := pathText_of_wf _ wA
  -- the fallback
  obtain ⟨h', e, hv, hsp, hview⟩ := path_session_valid G ok okp a haR [.norm]
    (by intro op hop; simp at hop; subst hop; trivial)
  have e' : (Ref.path_mut a).normalize = some h' := by
    simp only [C10.pathRun, C10.pathStep] at e
    cases hp : (Ref.path_mut a).normalize with
    | none => rw [hp] at e; cases e
    | some x => rw [hp] at e; simp at e; rw [e]
  have hw : Ref.whole a = some h'.buffer := by simp [Ref.whole, e']
  simp only [List.foldl_cons, List.foldl_nil, C10.opView, haa, Option.isSome_some] at hview
  obtain ⟨v, hvdef⟩ : ∃ v, v = normView true false (split a).path := ⟨_, rfl⟩
  have hview' : h'.view = v := by rw [hvdef, hview]; simp [hsa]
  rw [hview'] at hsp
  -- it has the target's scheme, authority, query and fragment
  have hspw : split h'.buffer = { split a with path := v } := hsp
  have hauw : (split h'.buffer).authority = some aa := by rw [hspw]; exact haa
  have hres := Lemmas.resolve_authority G ok okp b h'.buffer aa hb hv hauw
  refine ⟨h'.buffer, _, hw, hres, ?_⟩
  -- the target of the resolution
  have hT : resolveSpec b h'.buffer = { sap sa aa (removeDots v) with
      query := (split a).query, fragment := (split a).fragment } := by
    simp only [resolveSpec, transform, hspw, hsa, haa, sap]
  -- the path: absolute, or empty
  obtain ⟨hreal, habsv⟩ := normView_realises true false (split a).path hptA
  rw [← hvdef] at hreal habsv
  have hBab := wA.abempty (by simp [haa])
  have hP : removeDots v = (if (split a).path = [] then [] else cSlash :: joinSlash (nsegs (split a).path)) ∧
      isAbs (removeDots v) = isAbs (split a).path ∧ nsegs (removeDots v) = nsegs (split a).path ∧
      PathText (removeDots v) ∧ (removeDots v = [] ∨ ∃ r, removeDots v = cSlash :: r) := by
    rcases hBab with he | ⟨q, hq⟩
    · -- empty path
      have hv0 : v = [] := by rw [hvdef, he]; decide
      rw [hv0, he]
      refine ⟨by decide, by decide, by decide, (fun c hc => by cases hc), .inl (by decide)⟩
    · have habs : isAbs (split a).path = true := by rw [hq]; rfl
      have hdf : DotFree (nsegs (split a).path) := by
        unfold nsegs; rw [habs]; exact nsegsOf_abs_dotFree _
      have hrd := removeDots_of_realises v (nsegs (split a).path) (by rw [habsv, habs]) hdf hreal
      have hne : (split a).path ≠ [] := by rw [hq]; simp
      have hns : ∀ s ∈ nsegs (split a).path, cSlash ∉ s :=
        fun s hs => segs_no_slash _ s (nsegsOf_subset _ _ s hs)
      refine ⟨by rw [hrd]; simp [hne], by rw [hrd, habs]; rfl, ?_, ?_, .inr ⟨_, hrd⟩⟩
      · rw [hrd]
        by_cases hL : nsegs (split a).path = []
        · rw [hL]; decide
        · obtain ⟨hsg, hab2⟩ := segs_render true (nsegs (split a).path) hL hns (by simpa using hl)
          simp only [if_true, List.singleton_append] at hsg hab2
          unfold nsegs at hsg hab2 ⊢
          rw [habs] at hsg hab2 ⊢
          rw [hab2, hsg, nsegsOf_idem]
      · rw [hrd]
        intro c hc
        rcases List.mem_cons.mp hc with h | h
        · subst h; decide
        · have hall : ∀ x ∈ nsegs (split a).path, PathText x := by
            intro x hx
            have hm' := nsegsOf_subset _ _ x hx
            exact fun c hc => hptA c (mem_of_mem_splitSlash' _ x (segs_subset_splitSlash G ok okp _ x hm') c hc)
          have hj : ∀ (M : List Text), (∀ x ∈ M, PathText x) → ∀ c ∈ joinSlash M, c ≠ cQuest ∧ c ≠ cHash := by
            intro M
            induction M with
            | nil => intro _ c hc; cases hc
            | cons x xs ih =>
              intro hM c hc
              cases xs with
              | nil => exact hM x List.mem_cons_self c hc
              | cons y ys =>
                simp only [joinSlash] at hc
                rcases List.mem_append.mp hc with h3 | h3
                · exact hM x List.mem_cons_self c h3
                · rcases List.mem_cons.mp h3 with h3 | h3
                  · subst h3; decide
                  · exact ih (fun z hz => hM z (List.mem_cons_of_mem _ hz)) c h3
          exact hj _ hall c h
  obtain ⟨_, hPabs, hPn, hPpt, hPab⟩ := hP
  have hsaok : SAOk sa aa := ⟨wA.scheme sa hsa, wA.authority aa haa⟩
  have wfT0 := wf_sap sa aa (removeDots v) hsaok hPpt hPab
  have wfT : WF { sap sa aa (removeDots v) with
      query := (split a).query, fragment := (split a).fragment } :=
    { scheme := wfT0.scheme, authority := wfT0.authority, path := wfT0.path, query := wA.query,
      abempty := wfT0.abempty, noSS := wfT0.noSS, noColon := wfT0.noColon }
  have hsT := Lemmas.split_recompose _ wfT
  rw [hT]
  unfold key
  rw [hsT]
  simp only [sap, Option.map_some, haa, hsa]
  congr 1
  unfold pathKey
  rw [hPabs, hPn]

/-- … target without authority and with an absolute path whose first normalised segment is not
empty (otherwise the text needs the `/.` shield and RFC 3986 5.2.4 is itself ambiguous) -/
theorem whole_roundtrip_noauth_abs (a b : Text) (ha : Matches G.full a)
    (haa : (split a).authority = none) (hpa : isAbs (split a).path = true)
    (hhd : (nsegs (split a).path).head? ≠ some []) :
    ∃ w t, Ref.whole a = some w ∧ Ref.resolve w b = some t ∧ key t = key a := by
  have haR : Matches G.reference a := Matches.altL ha
  obtain ⟨vA, wA⟩ := split_valid G ok a haR
  obtain ⟨sa, hsa⟩ : ∃ sa, (split a).scheme = some sa := by
    have := ((C02.full_iff_scheme G ok a).mp ha).2
    exact Option.isSome_iff_exists.mp this
  have hptA : PathText (split a).path := pathText_of_wf _ wA
  obtain ⟨h', e, hv, hsp, hview⟩ := path_session_valid G ok okp a haR [.norm]
    (by intro op hop; simp at hop; subst hop; trivial)
  have e' : (Ref.path_mut a).normalize = some h' := by
    simp only [C10.pathRun, C10.pathStep] at e
    cases hp : (Ref.path_mut a).normalize with
    | none => rw [hp] at e; cases e
    | some x => rw [hp] at e; simp at e; rw [e]
  have hw : Ref.whole a = some h'.buffer := by simp [Ref.whole, e']
  simp only [List.foldl_cons, List.foldl_nil, C10.opView, haa, Option.isSome_none] at hview
  obtain ⟨v, hvdef⟩ : ∃ v, v = normView false false (split a).path := ⟨_, rfl⟩
  have hview' : h'.view = v := by rw [hvdef, hview]; simp [hsa]
  rw [hview'] at hsp
  have hspw : split h'.buffer = { split a with path := v } := hsp
  have hscw : (split h'.buffer).scheme = some sa := by rw [hspw]; exact hsa
  have hauw : (split h'.buffer).authority = none := by rw [hspw]; exact haa
  have hnv : nsegs v = nsegs (split a).path := by rw [hvdef]; exact nsegs_normView false false _ hptA
  obtain ⟨hreal, habsv⟩ := normView_realises false false (split a).path hptA
  rw [← hvdef] at hreal habsv
  -- no shield is needed: the first normalised segment is not empty
  have hns : needsShield false false (split h'.buffer).path = false := by
    rw [hspw]
    unfold needsShield
    rw [hnv]
    cases hL : nsegs (split a).path with
    | nil => rfl
    | cons first rest =>
      rw [hL] at hhd
      have hf : first ≠ [] := by
        intro e; subst e; exact hhd rfl
      have hfe : first.isEmpty = false := by cases first <;> simp_all
      have hrel : Path.is_relative v = false := by
        simp [Path.is_relative, is_absolute_eq, habsv, hpa]
      simp [hfe, hrel]
  have hres := resolve_scheme_no_authority G ok b h'.buffer sa hv hscw hauw hns
  refine ⟨h'.buffer, _, hw, hres, ?_⟩
  have hT : resolveSpec b h'.buffer = ({
      scheme := some sa, authority := none, path := removeDots v,
      query := (split a).query, fragment := (split a).fragment } : Spec.Parts) := by
    simp only [resolveSpec, transform, hspw, hsa, haa]
  have hdf : DotFree (nsegs (split a).path) := by
    unfold nsegs; rw [hpa]; exact nsegsOf_abs_dotFree _
  have hrd := removeDots_of_realises v (nsegs (split a).path) (by rw [habsv, hpa]) hdf hreal
  have hns' : ∀ s ∈ nsegs (split a).path, cSlash ∉ s :=
    fun s hs => segs_no_slash _ s (nsegsOf_subset _ _ s hs)
  have hl : nsegs (split a).path ≠ [[]] := by
    intro e; rw [e] at hhd; exact hhd rfl
  have hPn : nsegs (removeDots v) = nsegs (split a).path ∧ isAbs (removeDots v) = true := by
    rw [hrd]
    by_cases hL : nsegs (split a).path = []
    · rw [hL]; exact ⟨by decide, rfl⟩
    · obtain ⟨hsg, hab2⟩ := segs_render true (nsegs (split a).path) hL hns' (by simpa using hl)
      simp only [if_true, List.singleton_append] at hsg hab2
      refine ⟨?_, hab2⟩
      unfold nsegs at hsg hab2 ⊢
      rw [hpa] at hsg hab2 ⊢
      rw [hab2, hsg, nsegsOf_idem]
  -- the target is well formed: its path does not begin with `//`
  have hss : startsSS (removeDots v) = false := by
    rw [hrd]
    cases hL : nsegs (split a).path with
    | nil => rfl
    | cons first rest =>
      rw [hL] at hhd hns'
      cases first with
      | nil => exact absurd rfl hhd
      | cons c r =>
        have hc : c ≠ cSlash := fun e => hns' (c :: r) List.mem_cons_self (e ▸ List.mem_cons_self)
        obtain ⟨t, ht⟩ := joinSlash_head (c := c) (r := r) rest
        rw [ht]; simp [startsSS, hc]
  have hPpt : PathText (removeDots v) := by
    rw [hrd]
    intro c hc
    rcases List.mem_cons.mp hc with h | h
    · subst h; decide
    · have hall : ∀ x ∈ nsegs (split a).path, PathText x := by
        intro x hx
        have hm' := nsegsOf_subset _ _ x hx
        exact fun c hc => hptA c (mem_of_mem_splitSlash' _ x (segs_subset_splitSlash G ok okp _ x hm') c hc)
      have hj : ∀ (M : List Text), (∀ x ∈ M, PathText x) → ∀ c ∈ joinSlash M, c ≠ cQuest ∧ c ≠ cHash := by
        intro M
        induction M with
        | nil => intro _ c hc; cases hc
        | cons x xs ih =>
          intro hM c hc
          cases xs with
          | nil => exact hM x List.mem_cons_self c hc
          | cons y ys =>
            simp only [joinSlash] at hc
            rcases List.mem_append.mp hc with h3 | h3
            · exact hM x List.mem_cons_self c h3
            · rcases List.mem_cons.mp h3 with h3 | h3
              · subst h3; decide
              · exact ih (fun z hz => hM z (List.mem_cons_of_mem _ hz)) c h3
      exact hj _ hall c h
  have wfT0 := wf_snp sa (removeDots v) (wA.scheme sa hsa) hPpt hss
  have wfT : WF ({
      scheme := some sa, authority := none, path := removeDots v,
      query := (split a).query, fragment := (split a).fragment } : Spec.Parts) :=
    { scheme := wfT0.scheme, authority := wfT0.authority, path := wfT0.path, query := wA.query,
      abempty := wfT0.abempty, noSS := wfT0.noSS, noColon := wfT0.noColon }
  have hsT := Lemmas.split_recompose _ wfT
  rw [hT]
  unfold key
  rw [hsT]
  simp only [Option.map_none, haa, hsa]
  congr 1
  unfold pathKey
  rw [hPn.2, hPn.1, hpa]


omit ok okp in
/-- §5.2.4 (with Errata 4547) on a relative path that is already normalised: the normalised sequence
written out, unless it ends in an unresolved `..` (which §5.2.4 closes with an empty segment) -/
theorem removeDots_of_realises_rel (v p : Text) (hv : isAbs v = false) (hp : isAbs p = false)
    (hr : realises v (nsegs p) = true) (hlast : (nsegs p).getLast? ≠ some segDotDot) :
    removeDots v = joinSlash (nsegs p) := by
  have hsg := realises_cases hr
  have hidem : nsegsOf false (nsegs p) = nsegs p := by
    unfold nsegs; rw [hp]; exact nsegsOf_idem false _
  have hnd : segDot ∉ nsegs p := nsegsOf_noDot _ _
  have hn : nsegs v = nsegs p := by
    have : nsegsOf (isAbs v) (segs v) = nsegs p := by
      rw [hv]
      rcases hsg with h | h
      · rw [h, hidem]
      · rw [h, nsegsOf_cons_dot, hidem]
    exact this
  have hde : dotEnd v = false := by
    unfold dotEnd
    rcases hsg with h | h
    · rw [h]
      cases hl : (nsegs p).getLast? with
      | none => rfl
      | some s =>
        have hm : s ∈ nsegs p := List.mem_of_getLast? hl
        have h1 : s ≠ segDot := fun e => hnd (e ▸ hm)
        have h2 : s ≠ segDotDot := fun e => hlast (by rw [hl, e])
        simp [h1, h2]
    · rw [h]
      have hLne : nsegs p ≠ [] := by
        intro e
        rw [e] at hr h
        simp only [realises, Bool.or_eq_true, decide_eq_true_eq, Bool.and_eq_true] at hr
        rcases hr with hr | ⟨hns, _⟩
        · rw [hr] at h; cases h
        · simp [needsShieldHead] at hns
      have hl2 : (segDot :: nsegs p).getLast? = (nsegs p).getLast? := getLast?_shield hLne
      rw [hl2]
      cases hl : (nsegs p).getLast? with
      | none => rfl
      | some s =>
        have hm : s ∈ nsegs p := List.mem_of_getLast? hl
        have h1 : s ≠ segDot := fun e => hnd (e ▸ hm)
        have h2 : s ≠ segDotDot := fun e => hlast (by rw [hl, e])
        simp [h1, h2]
  unfold removeDots normTarget render
  rw [hn, hde, hv]
  simp

/-- … and for every target without authority whose path is relative (or empty), whose first
normalised segment is not empty and whose normalised segments do not end in an unresolved `..`
(`urn:a/b`, `s:a/../b`, `s:../x`, `s:` relative to anything that takes the fallback) -/
theorem whole_roundtrip_noauth_rel (a b : Text) (ha : Matches G.full a)
    (haa : (split a).authority = none) (hpa : isAbs (split a).path = false)
    (hhd : (nsegs (split a).path).head? ≠ some [])
    (hlast : (nsegs (split a).path).getLast? ≠ some segDotDot) :
    ∃ w t, Ref.whole a = some w ∧ Ref.resolve w b = some t ∧ key t = key a := by
  have haR : Matches G.reference a := Matches.altL ha
  obtain ⟨vA, wA⟩ := split_valid G ok a haR
  obtain ⟨sa, hsa⟩ : ∃ sa, (split a).scheme = some sa := by
    have := ((C02.full_iff_scheme G ok a).mp ha).2
    exact Option.isSome_iff_exists.mp this
  have hptA : PathText (split a).path := pathText_of_wf _ wA
  obtain ⟨h', e, hv, hsp, hview⟩ := path_session_valid G ok okp a haR [.norm]
    (by intro op hop; simp at hop; subst hop; trivial)
  have e' : (Ref.path_mut a).normalize = some h' := by
    simp only [C10.pathRun, C10.pathStep] at e
    cases hp : (Ref.path_mut a).normalize with
    | none => rw [hp] at e; cases e
    | some x => rw [hp] at e; simp at e; rw [e]
  have hw : Ref.whole a = some h'.buffer := by simp [Ref.whole, e']
  simp only [List.foldl_cons, List.foldl_nil, C10.opView, haa, Option.isSome_none] at hview
  obtain ⟨v, hvdef⟩ : ∃ v, v = normView false false (split a).path := ⟨_, rfl⟩
  have hview' : h'.view = v := by rw [hvdef, hview]; simp [hsa]
  rw [hview'] at hsp
  have hspw : split h'.buffer = { split a with path := v } := hsp
  have hscw : (split h'.buffer).scheme = some sa := by rw [hspw]; exact hsa
  have hauw : (split h'.buffer).authority = none := by rw [hspw]; exact haa
  have hnv : nsegs v = nsegs (split a).path := by rw [hvdef]; exact nsegs_normView false false _ hptA
  obtain ⟨hreal, habsv⟩ := normView_realises false false (split a).path hptA
  rw [← hvdef] at hreal habsv
  -- no shield is needed: the first normalised segment is not empty
  have hns : needsShield false false (split h'.buffer).path = false := by
    rw [hspw]
    unfold needsShield
    rw [hnv]
    cases hL : nsegs (split a).path with
    | nil => rfl
    | cons first rest =>
      rw [hL] at hhd
      have hf : first ≠ [] := by
        intro e; subst e; exact hhd rfl
      have hfe : first.isEmpty = false := by cases first <;> simp_all
      simp [hfe]
  have hres := resolve_scheme_no_authority G ok b h'.buffer sa hv hscw hauw hns
  refine ⟨h'.buffer, _, hw, hres, ?_⟩
  have hT : resolveSpec b h'.buffer = ({
      scheme := some sa, authority := none, path := removeDots v,
      query := (split a).query, fragment := (split a).fragment } : Spec.Parts) := by
    simp only [resolveSpec, transform, hspw, hsa, haa]
  have hrd := removeDots_of_realises_rel v (split a).path (by rw [habsv, hpa]) hpa hreal hlast
  have hns' : ∀ s ∈ nsegs (split a).path, cSlash ∉ s :=
    fun s hs => segs_no_slash _ s (nsegsOf_subset _ _ s hs)
  have hl : nsegs (split a).path ≠ [[]] := by
    intro e; rw [e] at hhd; exact hhd rfl
  have hPn : nsegs (removeDots v) = nsegs (split a).path ∧ isAbs (removeDots v) = false := by
    rw [hrd]
    by_cases hL : nsegs (split a).path = []
    · rw [hL]; exact ⟨by decide, rfl⟩
    · have hfaith : ∃ c r rest, nsegs (split a).path = (c :: r) :: rest := by
        cases hL2 : nsegs (split a).path with
        | nil => exact absurd hL2 hL
        | cons first rest =>
          cases first with
          | nil => rw [hL2] at hhd; exact absurd rfl hhd
          | cons c r => exact ⟨c, r, rest, rfl⟩
      obtain ⟨hsg, hab2⟩ := segs_render false (nsegs (split a).path) hL hns' (by simpa using hfaith)
      simp only [Bool.false_eq_true, if_false, List.nil_append] at hsg hab2
      refine ⟨?_, hab2⟩
      unfold nsegs at hsg hab2 ⊢
      rw [hpa] at hsg hab2 ⊢
      rw [hab2, hsg, nsegsOf_idem]
  -- the target is well formed: its path does not begin with `//`
  have hss : startsSS (removeDots v) = false := by
    rw [hrd]
    cases hL : nsegs (split a).path with
    | nil => rfl
    | cons first rest =>
      rw [hL] at hhd hns'
      cases first with
      | nil => exact absurd rfl hhd
      | cons c r =>
        have hc : c ≠ cSlash := fun e => hns' (c :: r) List.mem_cons_self (e ▸ List.mem_cons_self)
        obtain ⟨t, ht⟩ := joinSlash_head (c := c) (r := r) rest
        rw [ht]
        cases t <;> simp [startsSS, hc]
  have hPpt : PathText (removeDots v) := by
    rw [hrd]
    intro c h
    · have hall : ∀ x ∈ nsegs (split a).path, PathText x := by
        intro x hx
        have hm' := nsegsOf_subset _ _ x hx
        exact fun c hc => hptA c (mem_of_mem_splitSlash' _ x (segs_subset_splitSlash G ok okp _ x hm') c hc)
      have hj : ∀ (M : List Text), (∀ x ∈ M, PathText x) → ∀ c ∈ joinSlash M, c ≠ cQuest ∧ c ≠ cHash := by
        intro M
        induction M with
        | nil => intro _ c hc; cases hc
        | cons x xs ih =>
          intro hM c hc
          cases xs with
          | nil => exact hM x List.mem_cons_self c hc
          | cons y ys =>
            simp only [joinSlash] at hc
            rcases List.mem_append.mp hc with h3 | h3
            · exact hM x List.mem_cons_self c h3
            · rcases List.mem_cons.mp h3 with h3 | h3
              · subst h3; decide
              · exact ih (fun z hz => hM z (List.mem_cons_of_mem _ hz)) c h3
      exact hj _ hall c h
  have wfT0 := wf_snp sa (removeDots v) (wA.scheme sa hsa) hPpt hss
  have wfT : WF ({
      scheme := some sa, authority := none, path := removeDots v,
      query := (split a).query, fragment := (split a).fragment } : Spec.Parts) :=
    { scheme := wfT0.scheme, authority := wfT0.authority, path := wfT0.path, query := wA.query,
      abempty := wfT0.abempty, noSS := wfT0.noSS, noColon := wfT0.noColon }
  have hsT := Lemmas.split_recompose _ wfT
  rw [hT]
  unfold key
  rw [hsT]
  simp only [Option.map_none, haa, hsa]
  congr 1
  unfold pathKey
  rw [hPn.2, hPn.1, hpa]

end

end IrefVerif.Lemmas
