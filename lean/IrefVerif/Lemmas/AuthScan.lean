import IrefVerif.Lemmas.AuthModel

/-!
# The authority scanners at an offset

`find_user_info`, `find_host`, `find_port` run on `pre ++ recomposeAuth A` from offset
`pre.length` return the offsets of the sub-components of `A` (for well-formed `A`: `WFA'`).
These are the scans the authority handle (`AuthorityMutImpl`) performs inside the enclosing
URI/IRI buffer.
-/

set_option linter.unusedSimpArgs false

namespace IrefVerif.Lemmas
open IrefVerif.Spec IrefVerif.Model IrefVerif.Model.Parse

/-- in the `host` and `bracket` states the carried `start` is never used -/
theorem findPortGo_start_irrel (l : Text) : ∀ s1 s2 pos,
    findPortGo .host s1 pos l = findPortGo .host s2 pos l ∧
    findPortGo .bracket s1 pos l = findPortGo .bracket s2 pos l := by
  induction l with
  | nil => intro s1 s2 pos; exact ⟨rfl, rfl⟩
  | cons c l ih =>
    intro s1 s2 pos
    constructor
    · simp only [findPortGo]
      split
      · exact (ih s1 s2 (pos + 1)).2
      · split
        · rfl
        · exact (ih s1 s2 (pos + 1)).1
    · simp only [findPortGo]
      split
      · exact (ih s1 s2 (pos + 1)).1
      · exact (ih s1 s2 (pos + 1)).2

/-- a user info (no `@`, no `[`) and its `@` are skipped, ending in the `host` state -/
theorem findPortGo_skip_ui (u rest : Text) (h1 : cAt ∉ u) (h2 : cLBr ∉ u) : ∀ s pos,
    (findPortGo .host s pos (u ++ cAt :: rest) = findPortGo .host 0 (pos + u.length + 1) rest) ∧
    (findPortGo .colon s pos (u ++ cAt :: rest) = findPortGo .host 0 (pos + u.length + 1) rest) := by
  induction u with
  | nil =>
    intro s pos
    constructor
    · simp only [List.nil_append, findPortGo, List.length_nil, Nat.add_zero]
      have e1 : (cAt == cLBr) = false := by decide
      have e2 : (cAt == cColon) = false := by decide
      simp only [e1, e2, Bool.false_eq_true, if_false]
      exact (findPortGo_start_irrel rest s 0 (pos + 1)).1
    · simp only [List.nil_append, findPortGo, beq_self_eq_true, if_true, List.length_nil, Nat.add_zero]
      exact (findPortGo_start_irrel rest s 0 (pos + 1)).1
  | cons c u ih =>
    intro s pos
    have hb : (c == cLBr) = false := by
      have : c ≠ cLBr := fun e => h2 (e ▸ List.mem_cons_self)
      simpa using this
    have ha : (c == cAt) = false := by
      have : c ≠ cAt := fun e => h1 (e ▸ List.mem_cons_self)
      simpa using this
    have ih' := ih (fun e => h1 (List.mem_cons_of_mem _ e)) (fun e => h2 (List.mem_cons_of_mem _ e))
    have hl : pos + (c :: u).length + 1 = pos + 1 + u.length + 1 := by simp; omega
    constructor
    · simp only [List.cons_append, findPortGo, hb, Bool.false_eq_true, if_false]
      rw [hl]
      split
      · exact (ih' (pos + 1) (pos + 1)).2
      · exact (ih' s (pos + 1)).1
    · simp only [List.cons_append, findPortGo, ha, Bool.false_eq_true, if_false]
      rw [hl]
      exact (ih' s (pos + 1)).2

/-- inside brackets up to the closing one -/
theorem findPortGo_bracket (inner rest : Text) (h : cRBr ∉ inner) : ∀ s pos,
    findPortGo .bracket s pos (inner ++ cRBr :: rest) = findPortGo .host s (pos + inner.length + 1) rest := by
  induction inner with
  | nil => intro s pos; simp [findPortGo]
  | cons c inner ih =>
    intro s pos
    have hc : (c == cRBr) = false := by
      have : c ≠ cRBr := fun e => h (e ▸ List.mem_cons_self)
      simpa using this
    simp only [List.cons_append, findPortGo, hc, Bool.false_eq_true, if_false]
    rw [ih (fun e => h (List.mem_cons_of_mem _ e))]
    congr 1
    simp; omega

/-- a host text without `[` and `:` is skipped in the `host` state -/
theorem findPortGo_regname (h rest : Text) (h1 : cLBr ∉ h) (h2 : cColon ∉ h) : ∀ s pos,
    findPortGo .host s pos (h ++ rest) = findPortGo .host s (pos + h.length) rest := by
  induction h with
  | nil => intro s pos; simp
  | cons c h ih =>
    intro s pos
    have hb : (c == cLBr) = false := by
      have : c ≠ cLBr := fun e => h1 (e ▸ List.mem_cons_self)
      simpa using this
    have hc : (c == cColon) = false := by
      have : c ≠ cColon := fun e => h2 (e ▸ List.mem_cons_self)
      simpa using this
    simp only [List.cons_append, findPortGo, hb, hc, Bool.false_eq_true, if_false]
    rw [ih (fun e => h1 (List.mem_cons_of_mem _ e)) (fun e => h2 (List.mem_cons_of_mem _ e))]
    congr 1
    simp; omega

/-- the port digits after `:` -/
theorem findPortGo_colon (q : Text) (h : cAt ∉ q) : ∀ s pos,
    findPortGo .colon s pos q = some (s, pos + q.length) := by
  induction q with
  | nil => intro s pos; simp [findPortGo]
  | cons c q ih =>
    intro s pos
    have hc : (c == cAt) = false := by
      have : c ≠ cAt := fun e => h (e ▸ List.mem_cons_self)
      simpa using this
    simp only [findPortGo, hc, Bool.false_eq_true, if_false]
    rw [ih (fun e => h (List.mem_cons_of_mem _ e))]
    simp; omega

theorem findPortGo_port (p : Option Text) (hp : ∀ q, p = some q → cAt ∉ q) (s pos : Nat) :
    findPortGo .host s pos (portText p) = p.map fun q => (pos + 1, pos + 1 + q.length) := by
  cases p with
  | none => rfl
  | some q =>
    have e1 : (cColon == cLBr) = false := by decide
    simp only [portText_some, findPortGo, e1, Bool.false_eq_true, if_false, beq_self_eq_true, if_true,
      Option.map_some]
    exact findPortGo_colon q (hp q rfl) _ _

/-- the host text is skipped in the `host` state -/
theorem findPortGo_host (A : AuthParts) (wf : WFA' A) (rest : Text) (s pos : Nat) :
    findPortGo .host s pos (A.host ++ rest) = findPortGo .host s (pos + A.host.length) rest := by
  rcases wf.host with ⟨inner, hh, hin⟩ | ⟨hhd, hnc⟩
  · rw [hh]
    simp only [List.cons_append, List.append_assoc, findPortGo, beq_self_eq_true, if_true, List.nil_append]
    rw [findPortGo_bracket inner rest hin]
    congr 1
    simp; omega
  · exact findPortGo_regname _ _ (wf.hostBr hhd) hnc s pos

/-- **`find_port` inside a buffer** -/
theorem find_port_at (pre : Text) (A : AuthParts) (wf : WFA' A) :
    find_port (pre ++ recomposeAuth A) pre.length =
      A.port.map fun q =>
        (pre.length + (uiText A.userinfo).length + A.host.length + 1,
         pre.length + (uiText A.userinfo).length + A.host.length + 1 + q.length) := by
  unfold find_port
  rw [List.drop_left, recomposeAuth_eq, List.append_assoc]
  cases hu : A.userinfo with
  | some u =>
    have := (findPortGo_skip_ui u (A.host ++ portText A.port) (wf.userinfo u hu) (wf.uiBr u hu)
      pre.length pre.length).1
    simp only [uiText_some, List.append_assoc, List.singleton_append]
    rw [this, findPortGo_host A wf, findPortGo_port A.port wf.port]
    simp only [List.length_append, List.length_cons, List.length_nil]
    cases A.port <;> simp <;> omega
  | none =>
    simp only [uiText_none, List.nil_append, List.length_nil, Nat.add_zero]
    rw [findPortGo_host A wf, findPortGo_port A.port wf.port]

/-- **`find_user_info` inside a buffer** -/
theorem find_user_info_at (pre : Text) (A : AuthParts) (wf : WFA' A) :
    find_user_info (pre ++ recomposeAuth A) pre.length =
      A.userinfo.map fun u => (pre.length, pre.length + u.length) := by
  unfold find_user_info
  rw [List.drop_left, recomposeAuth_eq, List.append_assoc]
  cases hu : A.userinfo with
  | some u =>
    simp only [uiText_some, List.append_assoc, List.singleton_append]
    rw [findAt_append u _ (wf.userinfo u hu)]
    rfl
  | none =>
    simp only [uiText_none, List.nil_append]
    have h1 : cAt ∉ A.host ++ portText A.port := by
      intro hm
      rcases List.mem_append.mp hm with e | e
      · exact wf.hostAt e
      · cases hp : A.port with
        | none => rw [hp] at e; simp at e
        | some q =>
          rw [hp] at e
          simp only [portText_some, List.mem_cons] at e
          rcases e with e | e
          · simp [cAt, cColon] at e
          · exact wf.port q hp e
    rw [findAt_none _ h1]
    rfl

/-- `uhGo` on the text of well-formed sub-components -/
theorem uhGo_auth (A : AuthParts) (wf : WFA' A) :
    uhGo (recomposeAuth A) =
      match A.userinfo with
      | some u => (.userInfo, u.length)
      | none => (.host, A.host.length) := by
  obtain ⟨ui, h, p⟩ := A
  rw [recomposeAuth_eq]
  cases ui with
  | some u =>
    have := uhGo_userinfo u (h ++ portText p) (wf.userinfo u rfl) (wf.uiBr u rfl)
    simpa [List.append_assoc] using this
  | none =>
    simp only [uiText_none, List.nil_append]
    rcases wf.host with ⟨inner, rfl, hin⟩ | ⟨hhd, hnc⟩
    · have hk : spanLen (fun c => c != cRBr) (cLBr :: inner ++ [cRBr] ++ portText p) = 1 + inner.length := by
        have := spanLen_ne cRBr (cLBr :: inner) ([cRBr] ++ portText p)
          (by
            intro hm
            rcases List.mem_cons.mp hm with e | e
            · simp [cRBr, cLBr] at e
            · exact hin e)
          (.inr ⟨portText p, rfl⟩)
        simp only [List.cons_append, List.append_assoc, List.length_cons] at this ⊢
        rw [this]; omega
      simp only [List.cons_append] at hk ⊢
      simp only [uhGo, beq_self_eq_true, if_true, hk]
      simp only [List.length_append, List.length_cons, List.length_nil]
      congr 1
      omega
    · have h1 : cAt ∉ h ++ portText p := by
        intro hm
        rcases List.mem_append.mp hm with e | e
        · exact wf.hostAt e
        · cases p with
          | none => simp at e
          | some q =>
            simp only [portText_some, List.mem_cons] at e
            rcases e with e | e
            · simp [cAt, cColon] at e
            · exact wf.port q rfl e
      have h2 : cLBr ∉ h ++ portText p := by
        intro hm
        rcases List.mem_append.mp hm with e | e
        · exact wf.hostBr hhd e
        · cases p with
          | none => simp at e
          | some q =>
            simp only [portText_some, List.mem_cons] at e
            rcases e with e | e
            · simp [cLBr, cColon] at e
            · exact wf.portBr q rfl e
      rw [uhGo_regname _ h1 h2, spanLen_ne cColon h (portText p) hnc (portText_head p)]

/-- **`find_host` inside a buffer** -/
theorem find_host_at (pre : Text) (A : AuthParts) (wf : WFA' A) :
    find_host (pre ++ recomposeAuth A) pre.length =
      (pre.length + (uiText A.userinfo).length, pre.length + (uiText A.userinfo).length + A.host.length) := by
  unfold find_host user_info_or_host
  rw [List.drop_left, uhGo_auth A wf]
  cases hu : A.userinfo with
  | some u =>
    simp only
    have hw : pre ++ recomposeAuth A = (pre ++ u ++ [cAt]) ++ A.host ++ portText A.port := by
      rw [recomposeAuth_eq, hu]; simp [List.append_assoc]
    have := host_eq (pre ++ u ++ [cAt]) A.host A.port wf.host
    rw [hw]
    have hl : (pre ++ u ++ [cAt]).length = pre.length + u.length + 1 := by simp; omega
    rw [hl] at this
    simp only [this, uiText_some, List.length_append, List.length_cons, List.length_nil]
    simp; omega
  | none =>
    simp [uiText_none]

end IrefVerif.Lemmas
