import IrefVerif.Lemmas.RemoveDots

/-!
# Normalisation through the handle, as a statement about segment lists

`normView fa atStart p` — the path the model of `PathMutImpl::normalize` writes — realises the
normalised segment sequence `nsegs p` (literally, or behind the one `.` shield it needs), keeps
the path absolute or relative, and is a fixed point of normalisation.  The normalized *copy*
(`PathImpl::normalized`) is RFC 3986 §5.2.4 with Errata 4547 whenever no shield is needed.
-/

set_option linter.unusedSimpArgs false

namespace IrefVerif.Lemmas
open IrefVerif IrefVerif.Spec IrefVerif.Model IrefVerif.Model.Parse

theorem splitSlash_cons_left (s rest : Text) (hs : cSlash ∉ s) :
    splitSlash (s ++ cSlash :: rest) = s :: splitSlash rest := by
  induction s with
  | nil => simp [splitSlash]
  | cons c s ih =>
    have hc : (c == cSlash) = false := by
      have : c ≠ cSlash := fun e => hs (e ▸ List.mem_cons_self)
      simpa using this
    simp only [List.cons_append, splitSlash, hc, Bool.false_eq_true, if_false,
      ih (fun hm => hs (List.mem_cons_of_mem _ hm))]

/-- splitting a join of `/`-free pieces gives the pieces back -/
theorem splitSlash_joinSlash (l : List Text) (hne : l ≠ []) (hns : ∀ s ∈ l, cSlash ∉ s) :
    splitSlash (joinSlash l) = l := by
  induction l with
  | nil => exact absurd rfl hne
  | cons s ss ih =>
    cases ss with
    | nil => simp only [joinSlash]; exact splitSlash_noslash s (hns s List.mem_cons_self)
    | cons t ts =>
      have := ih (by simp) (fun x hx => hns x (List.mem_cons_of_mem _ hx))
      simp only [joinSlash]
      rw [splitSlash_cons_left s _ (hns s List.mem_cons_self), this]

theorem mem_of_mem_splitSlash' (t : Text) : ∀ s ∈ splitSlash t, ∀ c ∈ s, c ∈ t := by
  induction t with
  | nil => intro s hs c hc; simp [splitSlash] at hs; subst hs; cases hc
  | cons x t ih =>
    intro s hs c hc
    simp only [splitSlash] at hs
    by_cases hx : (x == cSlash) = true
    · simp only [hx, if_true, List.mem_cons] at hs
      rcases hs with rfl | hs
      · cases hc
      · exact List.mem_cons_of_mem _ (ih s hs c hc)
    · have hx' : (x == cSlash) = false := by simpa using hx
      simp only [hx', Bool.false_eq_true, if_false] at hs
      cases hsp : splitSlash t with
      | nil => exact absurd hsp (splitSlash_ne_nil t)
      | cons a as =>
        rw [hsp] at hs ih
        simp only [List.mem_cons] at hs
        rcases hs with rfl | hs
        · rcases List.mem_cons.mp hc with rfl | hc
          · exact List.mem_cons_self
          · exact List.mem_cons_of_mem _ (ih a List.mem_cons_self c hc)
        · exact List.mem_cons_of_mem _ (ih s (List.mem_cons_of_mem _ hs) c hc)

/-- the segment list of a rendered list, when the rendering is faithful -/
theorem segs_render (abs : Bool) (l : List Text) (hne : l ≠ []) (hns : ∀ s ∈ l, cSlash ∉ s)
    (hfaith : if abs then l ≠ [[]] else ∃ c r rest, l = (c :: r) :: rest) :
    segs ((if abs then [cSlash] else []) ++ joinSlash l) = l ∧
    isAbs ((if abs then [cSlash] else []) ++ joinSlash l) = abs := by
  cases abs with
  | true =>
    simp only [if_true, List.singleton_append, segs, stripRoot, beq_self_eq_true, isAbs, and_true]
    have hj : joinSlash l ≠ [] := by
      intro he
      cases l with
      | nil => exact absurd rfl hne
      | cons s ss =>
        cases ss with
        | nil =>
          simp only [joinSlash] at he
          subst he
          exact hfaith rfl
        | cons t ts => simp [joinSlash] at he
    cases hjj : joinSlash l with
    | nil => exact absurd hjj hj
    | cons a b =>
      simp only
      rw [← hjj]
      exact splitSlash_joinSlash l hne hns
  | false =>
    obtain ⟨c, r, rest, rfl⟩ := hfaith
    have hc : c ≠ cSlash := fun e => hns (c :: r) List.mem_cons_self (e ▸ List.mem_cons_self)
    have hc' : (c == cSlash) = false := by simpa using hc
    have hsj := splitSlash_joinSlash ((c :: r) :: rest) hne hns
    simp only [Bool.false_eq_true, if_false, List.nil_append]
    cases rest with
    | nil =>
      simp only [joinSlash] at hsj ⊢
      simp only [segs, stripRoot, hc', Bool.false_eq_true, if_false, isAbs]
      exact ⟨hsj, trivial⟩
    | cons t ts =>
      simp only [joinSlash, List.cons_append] at hsj ⊢
      simp only [segs, stripRoot, hc', Bool.false_eq_true, if_false, isAbs]
      exact ⟨hsj, trivial⟩

/-- **in-place normalisation writes the normalised sequence** (behind a `.` shield exactly when
the first normalised segment could be misread), and keeps the path absolute or relative -/
theorem normView_realises (fa atStart : Bool) (p : Text) (hp : PathText p) :
    realises (normView fa atStart p) (nsegs p) = true ∧ isAbs (normView fa atStart p) = isAbs p := by
  unfold normView
  simp only [normalized_segments_eq p hp, joinSegs_eq]
  have hns : ∀ s ∈ nsegs p, cSlash ∉ s := fun s hs => segs_no_slash _ s (nsegsOf_subset _ _ s hs)
  have hrel : Path.is_relative p = !isAbs p := by unfold Path.is_relative; rw [is_absolute_eq]
  rw [hrel]
  generalize hN : nsegs p = N at hns
  cases N with
  | nil =>
    cases hA : isAbs p <;> simp [realises, segs, stripRoot, joinSlash, isAbs]
  | cons first rest =>
    simp only
    by_cases hsh : ((first.isEmpty && ((!isAbs p) || !fa || (first :: rest).length == 1))
        || ((!isAbs p) && atStart && first_segment_contains_colon first)) = true
    · -- shielded: the text is `root ++ "./" ++ join`
      simp only [hsh, if_true]
      have hnsh : needsShieldHead (first :: rest) = true := by
        simp only [needsShieldHead]
        rcases Bool.or_eq_true _ _ |>.mp hsh with h | h
        · simp only [Bool.and_eq_true] at h; simp [h.1]
        · simp only [Bool.and_eq_true] at h
          have := fsc_contains first (by rw [← fsc_eq]; exact h.2)
          simp [this]
      have hl : ∀ s ∈ ([cDot] : Text) :: first :: rest, cSlash ∉ s := by
        intro s hs
        rcases List.mem_cons.mp hs with rfl | hs
        · simp [cDot, cSlash]
        · exact hns s hs
      have hjoin : [cDot, cSlash] ++ joinSlash (first :: rest) = joinSlash ([cDot] :: first :: rest) := by
        simp [joinSlash]
      rw [hjoin]
      have hfaith : (if isAbs p then ([cDot] :: first :: rest) ≠ [[]]
          else ∃ c r rest', ([cDot] :: first :: rest) = (c :: r) :: rest') := by
        cases isAbs p
        · simp only [Bool.false_eq_true, if_false]; exact ⟨cDot, [], first :: rest, rfl⟩
        · simp
      obtain ⟨h1, h2⟩ := segs_render (isAbs p) ([cDot] :: first :: rest) (by simp) hl hfaith
      refine ⟨?_, h2⟩
      simp only [realises, hnsh, Bool.true_and, h1, Bool.or_eq_true, decide_eq_true_eq]
      right; rfl
    · have hsh' : ((first.isEmpty && ((!isAbs p) || !fa || (first :: rest).length == 1))
          || ((!isAbs p) && atStart && first_segment_contains_colon first)) = false := by simpa using hsh
      simp only [hsh', Bool.false_eq_true, if_false, List.nil_append]
      have hfaith : (if isAbs p then (first :: rest) ≠ [[]] else ∃ c r rest', (first :: rest) = (c :: r) :: rest') := by
        simp only [Bool.or_eq_false_iff, Bool.and_eq_false_iff] at hsh'
        cases hA : isAbs p
        · simp only [Bool.false_eq_true, if_false]
          rcases hsh'.1 with h | h
          · cases first with
            | nil => simp at h
            | cons c r => exact ⟨c, r, rest, rfl⟩
          · simp [hA] at h
        · simp only [if_true]
          intro he
          injection he with h1 h2
          subst h1; subst h2
          rcases hsh'.1 with h | h
          · simp at h
          · simp at h
      obtain ⟨h1, h2⟩ := segs_render (isAbs p) (first :: rest) (by simp) hns hfaith
      refine ⟨?_, h2⟩
      simp [realises, h1]

/-! ## idempotence -/

theorem pathText_normView (fa atStart : Bool) (p : Text) (hp : PathText p) : PathText (normView fa atStart p) := by
  intro c hc
  unfold normView at hc
  simp only [normalized_segments_eq p hp, joinSegs_eq] at hc
  have hj : ∀ c ∈ joinSlash (nsegs p), c = cSlash ∨ c ∈ p := by
    intro c hc
    have hsub : ∀ s ∈ nsegs p, ∀ x ∈ s, x ∈ p := by
      intro s hs x hx
      have hs' := nsegsOf_subset _ _ s hs
      unfold segs at hs'
      split at hs'
      · cases hs'
      · have := mem_of_mem_splitSlash' _ s hs' x hx
        cases p with
        | nil => simp [stripRoot] at this
        | cons y l =>
          simp only [stripRoot] at this
          split at this
          · exact List.mem_cons_of_mem _ this
          · exact this
    generalize nsegs p = N at hc hsub
    induction N with
    | nil => cases hc
    | cons s ss ih =>
      cases ss with
      | nil => exact .inr (hsub s List.mem_cons_self c hc)
      | cons t ts =>
        simp only [joinSlash, List.mem_append, List.mem_cons] at hc
        rcases hc with hc | hc | hc
        · exact .inr (hsub s List.mem_cons_self c hc)
        · exact .inl hc
        · exact ih hc (fun s' hs' => hsub s' (List.mem_cons_of_mem _ hs'))
  have hgood : c = cSlash ∨ c = cDot ∨ c ∈ p := by
    rcases List.mem_append.mp hc with h | h
    · split at h
      · simp at h; exact .inl h
      · cases h
    · rcases List.mem_append.mp h with h | h
      · split at h
        · split at h
          · simp only [List.mem_cons, List.not_mem_nil, or_false] at h
            rcases h with h | h
            · exact .inr (.inl h)
            · exact .inl h
          · cases h
        · cases h
      · rcases hj c h with h | h
        · exact .inl h
        · exact .inr (.inr h)
  rcases hgood with rfl | rfl | h
  · exact ⟨by decide, by decide⟩
  · exact ⟨by decide, by decide⟩
  · exact hp c h

theorem nsegsOf_cons_dot (abs : Bool) (l : List Text) : nsegsOf abs (segDot :: l) = nsegsOf abs l := by
  simp [nsegsOf, nstep]

/-- the normalised sequence of the normalised path is the normalised sequence -/
theorem nsegs_normView (fa atStart : Bool) (p : Text) (hp : PathText p) :
    nsegs (normView fa atStart p) = nsegs p := by
  obtain ⟨hr, ha⟩ := normView_realises fa atStart p hp
  unfold nsegs
  rw [ha]
  simp only [realises, Bool.or_eq_true, decide_eq_true_eq, Bool.and_eq_true] at hr
  rcases hr with h | ⟨_, h⟩
  · rw [h]; exact nsegsOf_idem _ _
  · rw [h, nsegsOf_cons_dot]; exact nsegsOf_idem _ _

theorem normView_congr (fa atStart : Bool) (q p : Text)
    (h1 : Path.normalized_segments q = Path.normalized_segments p)
    (h2 : Path.is_relative q = Path.is_relative p) (h3 : isAbs q = isAbs p) :
    normView fa atStart q = normView fa atStart p := by
  unfold normView
  simp only [h1, h2, h3]

/-- **in-place normalisation is idempotent** -/
theorem normView_idem (fa atStart : Bool) (p : Text) (hp : PathText p) :
    normView fa atStart (normView fa atStart p) = normView fa atStart p := by
  have hpt := pathText_normView fa atStart p hp
  have hn := nsegs_normView fa atStart p hp
  have ha := (normView_realises fa atStart p hp).2
  have e1 : Path.normalized_segments (normView fa atStart p) = Path.normalized_segments p := by
    rw [normalized_segments_eq _ hpt, normalized_segments_eq _ hp, hn]
  have e2 : Path.is_relative (normView fa atStart p) = Path.is_relative p := by
    unfold Path.is_relative; rw [is_absolute_eq, is_absolute_eq, ha]
  exact normView_congr fa atStart _ p e1 e2 ha

/-! ## the normalized copy -/

/-- the text `PathImpl::normalized` returns -/
def nrmCopy (p : Text) : Text :=
  let v1 := normView true true p
  if dotEnd p && !Path.is_empty v1 then pushView false true true v1 [] else v1

theorem normalized_view (p : Text) (hp : PathText p) : Path.normalized p = some (nrmCopy p) := by
  have inv : PInv (PathMut.from_path p) [] p [] :=
    ⟨by simp [PathMut.from_path], rfl, by simp [PathMut.from_path]⟩
  obtain ⟨h1, e1, i1, f1, a1⟩ := normalize_view _ _ _ _ inv
  unfold Path.normalized nrmCopy
  simp only [next_back_last, last_eq_getLast _ hp, Option.bind_eq_bind, e1, Option.bind_some, i1.view]
  have hfa : (PathMut.from_path p).follows_authority = true := rfl
  have han : (PathMut.from_path p).anchored = false := rfl
  simp only [hfa, List.length_nil, beq_self_eq_true] at i1 ⊢
  generalize hv1 : normView true true p = v1 at i1
  have hbuf : ∀ (hx : PathMut) (vx : Text), PInv hx [] vx [] → hx.buffer = vx := by
    intro hx vx ix; rw [ix.data]; simp
  have key : ∀ o : Bool,
      (if (o && !Path.is_empty v1) = true then Option.map (fun x => x.buffer) (h1.push []) else some h1.buffer)
        = some (if (o && !Path.is_empty v1) = true then pushView false true true v1 [] else v1) := by
    intro o
    by_cases hc : (o && !Path.is_empty v1) = true
    · simp only [hc, if_true]
      obtain ⟨h2, e2, i2, _, _⟩ := push_view h1 _ _ _ i1 []
      rw [a1, f1, hfa, han] at i2
      simp only [List.length_nil, beq_self_eq_true] at i2
      rw [e2, Option.map_some, hbuf h2 _ i2]
    · have hc' : (o && !Path.is_empty v1) = false := by simpa using hc
      simp only [hc', Bool.false_eq_true, if_false]
      rw [hbuf h1 _ i1]
  cases hgl : (segs p).getLast? with
  | none =>
    have hde : dotEnd p = false := by unfold dotEnd; rw [hgl]
    simp only [hde]
    exact key false
  | some s =>
    have hde : dotEnd p = (s == [cDot] || s == [cDot, cDot]) := by
      unfold dotEnd; rw [hgl]
      simp only
      by_cases h1 : s = [cDot]
      · simp [h1, segDot, segDotDot]
      · by_cases h2 : s = [cDot, cDot]
        · simp [h2, segDot, segDotDot]
        · simp [h1, h2, segDot, segDotDot]
    simp only [hde]
    exact key _

/-- **the normalized copy is RFC 3986 §5.2.4 (Errata 4547)**, whenever no shield is needed -/
theorem nrmCopy_no_shield (p : Text) (hp : PathText p) (hns : needsShield true true p = false) :
    nrmCopy p = removeDots p := by
  rw [← rdsView_no_shield false true true p hp hns]
  unfold nrmCopy rdsView
  simp only []
  by_cases hc : (dotEnd p && !Path.is_empty (normView true true p)) = true
  · simp only [hc, if_true]
  · have hc' : (dotEnd p && !Path.is_empty (normView true true p)) = false := by simpa using hc
    simp only [hc', Bool.false_eq_true, if_false]
    -- without a shield the normalised text is dot-free, so the collapse rule does not fire
    have hnot : (normView true true p == [cSlash, cDot, cSlash] || normView true true p == [cDot, cSlash]) = false := by
      have hr := normView_realises true true p hp
      have hnd : segDot ∉ nsegs p := nsegsOf_noDot _ _
      unfold needsShield at hns
      unfold normView
      simp only [normalized_segments_eq p hp, joinSegs_eq]
      have hnsl : ∀ s ∈ nsegs p, cSlash ∉ s := fun s hs => segs_no_slash _ s (nsegsOf_subset _ _ s hs)
      generalize nsegs p = N at hns hnd hnsl
      cases N with
      | nil => cases isAbs p <;> simp [joinSlash, cSlash, cDot]
      | cons first rest =>
        simp only at hns
        simp only [hns, Bool.false_eq_true, if_false, List.nil_append]
        have hj := joinSlash_ne_dotSlash (first :: rest) hnsl hnd
        cases hA : isAbs p
        · simp only [Bool.false_eq_true, if_false, List.nil_append, Bool.or_eq_false_iff, beq_eq_false_iff_ne, ne_eq]
          refine ⟨?_, hj⟩
          intro he
          -- a relative result would begin with an empty first segment
          have hrel : Path.is_relative p = true := by simp [Path.is_relative, is_absolute_eq, hA]
          have hfe : first.isEmpty = false := by
            simp only [hrel, Bool.true_or, Bool.and_true, Bool.or_eq_false_iff] at hns
            exact hns.1
          cases first with
          | nil => simp at hfe
          | cons f fs =>
            have hfs : f ≠ cSlash := fun e => hnsl (f :: fs) List.mem_cons_self (e ▸ List.mem_cons_self)
            cases rest with
            | nil => simp only [joinSlash] at he; injection he with h1 _; exact hfs h1
            | cons x xs => simp only [joinSlash, List.cons_append] at he; injection he with h1 _; exact hfs h1
        · simp only [if_true, List.singleton_append, Bool.or_eq_false_iff, beq_eq_false_iff_ne, ne_eq,
            List.cons.injEq, true_and]
          exact ⟨hj, by simp [cSlash, cDot]⟩
    simp only [hnot, Bool.false_eq_true, if_false]

end IrefVerif.Lemmas
