import IrefVerif.Lemmas.SymAppend

/-!
# Symbolic push / append on a relative path

The counterpart of `SymAppend` for views that are relative (and do not follow an authority).  The
literal segments of such a view are at most one `.` shield, then the list `L` — some `..`s that
could not be resolved followed by a dot-free list, which is what a normalised relative path is.
The `.` may also stand alone: it is the shield left behind when the segment it shielded was
popped, and since the repair of F19 a following `..` takes it for the empty path.
-/

namespace IrefVerif.Lemmas
open IrefVerif IrefVerif.Spec IrefVerif.Model IrefVerif.Oracle IrefVerif.Findings

/-- `..`s, then a dot-free list -/
def SemiNormal (L : List Text) : Prop :=
  ∃ k e, L = List.replicate k segDotDot ++ e ∧ DotFree e

/-- the view is relative; its literal segments are `L`, possibly behind one `.` -/
structure RInv (v : Text) (L : List Text) : Prop where
  rel : isAbs v = false
  pt : PathText v
  sn : SemiNormal L
  shape : segs v = L ∨ segs v = segDot :: L

theorem semiNormal_noDot {L : List Text} (h : SemiNormal L) : segDot ∉ L := by
  obtain ⟨k, e, rfl, df⟩ := h
  intro hm
  rcases List.mem_append.mp hm with h | h
  · exact absurd (List.eq_of_mem_replicate h) (by decide)
  · exact df.1 h

theorem semiNormal_snoc {L : List Text} {s : Text} (h : SemiNormal L) (h1 : s ≠ segDot) (h2 : s ≠ segDotDot) :
    SemiNormal (L ++ [s]) := by
  obtain ⟨k, e, rfl, df⟩ := h
  refine ⟨k, e ++ [s], by rw [List.append_assoc], ?_, ?_⟩ <;> intro hm
  · rcases List.mem_append.mp hm with h | h
    · exact df.1 h
    · simp at h; exact h1 h.symm
  · rcases List.mem_append.mp hm with h | h
    · exact df.2 h
    · simp at h; exact h2 h.symm

theorem semiNormal_snoc_dd {L : List Text} (h : SemiNormal L) (hl : L = [] ∨ L.getLast? = some segDotDot) :
    SemiNormal (L ++ [segDotDot]) := by
  obtain ⟨k, e, rfl, df⟩ := h
  have he : e = [] := by
    rcases hl with h | h
    · exact (List.append_eq_nil_iff.mp h).2
    · rw [List.getLast?_append] at h
      cases hg : e.getLast? with
      | none => exact List.getLast?_eq_none_iff.mp hg
      | some x =>
        rw [hg] at h
        simp at h
        subst h
        exact absurd (List.mem_of_getLast? hg) df.2
  subst he
  refine ⟨k + 1, [], ?_, (fun h => by cases h), (fun h => by cases h)⟩
  simp only [List.append_nil]
  rw [← List.replicate_append_replicate (n := k) (m := 1)]
  rfl

theorem semiNormal_dropLast {L : List Text} (h : SemiNormal L) (hne : L ≠ [])
    (hl : L.getLast? ≠ some segDotDot) : SemiNormal L.dropLast := by
  obtain ⟨k, e, rfl, df⟩ := h
  have he : e ≠ [] := by
    intro he; subst he
    simp only [List.append_nil] at hne hl
    cases k with
    | zero => exact hne rfl
    | succ k =>
      apply hl
      rw [← List.replicate_append_replicate (n := k) (m := 1)]
      simp
  exact ⟨k, e.dropLast, List.dropLast_append_of_ne_nil he, dotFree_dropLast df⟩

/-! ## exact segment lists of `push` and `pop` on a relative view -/

theorem rel_cons {v : Text} (hrel : isAbs v = false) (hne : v ≠ []) : stripRoot v ≠ [] := by
  cases v with
  | nil => exact absurd rfl hne
  | cons c r =>
    have hc : (c == cSlash) = false := by simpa [isAbs] using hrel
    simp [stripRoot, hc]

theorem is_empty_rel {v : Text} (hrel : isAbs v = false) : Path.is_empty v = v.isEmpty := by
  cases v with
  | nil => rfl
  | cons c r =>
    have hc : c ≠ cSlash := by
      intro e; subst e; simp [isAbs] at hrel
    simp [Path.is_empty, hc]

/-- `push` on a relative view that does not follow an authority -/
theorem pushView_rel (fa atStart : Bool) (v s : Text) (hrel : isAbs v = false) (hs : cSlash ∉ s) :
    isAbs (pushView false fa atStart v s) = false ∧
    (v ≠ [] → segs (pushView false fa atStart v s) = segs v ++ [s]) ∧
    (v = [] → segs (pushView false fa atStart v s) = [s] ∨ segs (pushView false fa atStart v s) = [segDot, s]) := by
  unfold pushView
  simp only [Bool.false_and, Bool.false_eq_true, if_false]
  cases v with
  | nil =>
    have hem : Path.is_empty ([] : Text) = true := rfl
    simp only [hem, if_true, List.nil_append]
    by_cases hd : ((atStart && fsc s) || s.isEmpty) = true
    · simp only [hd, if_true]
      refine ⟨by simp [isAbs, cDot, cSlash], fun h => absurd rfl h, fun _ => ?_⟩
      right
      have := segs_shielded false s hs
      simpa using this
    · have hd' : ((atStart && fsc s) || s.isEmpty) = false := by simpa using hd
      simp only [hd', Bool.false_eq_true, if_false]
      have hne : s ≠ [] := by intro e; subst e; simp at hd'
      refine ⟨?_, fun h => absurd rfl h, fun _ => ?_⟩
      · cases s with
        | nil => exact absurd rfl hne
        | cons c r =>
          have hc : c ≠ cSlash := fun e => hs (e ▸ List.mem_cons_self)
          simp [isAbs, hc]
      · left
        have := segs_push_empty false s hs hne
        simpa using this
  | cons c r =>
    have hc : c ≠ cSlash := by
      intro e; subst e; simp [isAbs] at hrel
    have hem : Path.is_empty (c :: r) = false := by simp [Path.is_empty, hc]
    have h3 : (c :: r == [cSlash, cDot, cSlash]) = false := by
      simp [hc]
    simp only [hem, Bool.false_eq_true, if_false, h3, Bool.and_false]
    have := segs_push (c :: r) s (rel_cons hrel (by simp)) hs
    exact ⟨by rw [this.2]; exact hrel, fun _ => this.1, fun h => by cases h⟩

/-- `pop`'s truncation on a non-empty relative view -/
theorem popBody_rel (v : Text) (hrel : isAbs v = false) (hne : v ≠ []) :
    segs (popBody v) = (segs v).dropLast ∧ isAbs (popBody v) = false := by
  have hem : Path.is_empty v = false := by rw [is_empty_rel hrel]; cases v <;> simp_all
  have hf : fsoOf v = 0 := by simp [fsoOf, hrel]
  unfold popBody
  rcases segs_cases v hem with ⟨h1, h2, h3⟩ | ⟨_, h2, _⟩ | ⟨h1, h2, h3, h4⟩
  · have hk : (Path.scanBack v (fsoOf v) (v.length - 1) == fsoOf v) = false := by
      have : Path.scanBack v (fsoOf v) (v.length - 1) ≠ fsoOf v := by omega
      simpa using this
    simp only [hk, Bool.false_and, Bool.false_eq_true, if_false]
    refine ⟨?_, by rw [h3]; exact hrel⟩
    rw [h2]; simp
  · rw [hrel] at h2; cases h2
  · have hg : (v.getD (Path.scanBack v (fsoOf v) (v.length - 1)) 0 == cSlash) = false := by simpa using h2
    simp only [hg, Bool.and_false, Bool.false_eq_true, if_false]
    rw [h4, hrel]
    simp only [Bool.false_eq_true, if_false]
    rw [h3]
    exact ⟨rfl, rfl⟩

theorem segs_nil_rel {v : Text} (hrel : isAbs v = false) (h : segs v = []) : v = [] := by
  cases v with
  | nil => rfl
  | cons c r =>
    exfalso
    have hc : (c == cSlash) = false := by simpa [isAbs] using hrel
    unfold segs at h
    simp only [stripRoot, hc, Bool.false_eq_true, if_false] at h
    exact splitSlash_ne_nil _ h

theorem segs_single_rel {v x : Text} (hrel : isAbs v = false) (h : segs v = [x]) : v = x := by
  cases v with
  | nil => cases h
  | cons c r =>
    have hc : (c == cSlash) = false := by simpa [isAbs] using hrel
    unfold segs at h
    simp only [stripRoot, hc, Bool.false_eq_true, if_false] at h
    have := joinSlash_splitSlash (c :: r)
    rw [h] at this
    simpa [joinSlash] using this.symm

/-! ## the steps -/

theorem rinv_nil {L : List Text} (inv : RInv [] L) : L = [] := by
  rcases inv.shape with h | h
  · rw [segs_nil] at h; exact h.symm
  · rw [segs_nil] at h; cases h

theorem rinv_push (fa atStart : Bool) (v s : Text) (L : List Text) (inv : RInv v L)
    (hs : cSlash ∉ s) (hpt : PathText s) (hd : s ≠ segDot) (hdd : s ≠ segDotDot) :
    RInv (pushView false fa atStart v s) (L ++ [s]) := by
  obtain ⟨hrel', hne', hnil'⟩ := pushView_rel fa atStart v s inv.rel hs
  refine ⟨hrel', pathText_pushView _ _ _ _ _ inv.pt hpt, semiNormal_snoc inv.sn hd hdd, ?_⟩
  by_cases hv : v = []
  · have hL : L = [] := by subst hv; exact rinv_nil inv
    subst hL
    rcases hnil' hv with h | h
    · left; simpa using h
    · right; simpa using h
  · rcases inv.shape with h | h
    · left; rw [hne' hv, h]
    · right; rw [hne' hv, h]; rfl

theorem getLast?_shield {L : List Text} (hne : L ≠ []) : (segDot :: L).getLast? = L.getLast? := by
  cases L with
  | nil => exact absurd rfl hne
  | cons a l => simp [List.getLast?_cons_cons]

/-- `..` on a relative view -/
theorem rinv_pop (fa atStart : Bool) (v : Text) (L : List Text) (inv : RInv v L) :
    RInv (popView false fa atStart (if v == [cDot] then clearView v else v)) (listPop false L) := by
  have hnd := semiNormal_noDot inv.sn
  -- the view with no segment to remove: empty, or the lone shield
  by_cases hL : L = []
  · subst hL
    have hv0 : (if v == [cDot] then clearView v else v) = [] := by
      rcases inv.shape with h | h
      · have := segs_nil_rel inv.rel h
        subst this; rfl
      · have : v = [cDot] := by
          have := segs_single_rel inv.rel h
          simpa [segDot] using this
        subst this
        simp [clearView, isAbs, cDot, cSlash]
    rw [hv0]
    have hp : popView false fa atStart [] = [cDot, cDot] := by
      unfold popView pushView
      simp [Path.is_empty, Path.is_relative, Path.is_absolute, fsc, cDot, cColon, cSlash]
    rw [hp]
    refine ⟨by simp [isAbs, cDot, cSlash], pathText_dotdot, ?_, ?_⟩
    · exact semiNormal_snoc_dd inv.sn (.inl rfl)
    · left; decide
  · have hvne : v ≠ [] := by
      intro e; subst e
      exact hL (rinv_nil inv)
    have hvd : (v == [cDot]) = false := by
      have : v ≠ [cDot] := by
        intro e; subst e
        rcases inv.shape with h | h
        · exact hnd (by rw [← h]; decide)
        · have : L = [] := by
            have h' : segs [cDot] = [segDot] := by decide
            rw [h'] at h
            simpa using h.symm
          exact hL this
      simpa using this
    simp only [hvd, Bool.false_eq_true, if_false]
    have hem : Path.is_empty v = false := by rw [is_empty_rel inv.rel]; cases v <;> simp_all
    have hlast : Path.last v = L.getLast? := by
      rw [last_eq_getLast v inv.pt]
      rcases inv.shape with h | h
      · rw [h]
      · rw [h, getLast?_shield hL]
    by_cases hdd : L.getLast? = some segDotDot
    · -- one more `..`
      have hc : ((Path.is_empty v && Path.is_relative v && !false) || Path.last v == some [cDot, cDot]) = true := by
        rw [hlast, hdd]; simp [segDotDot]
      have hpv : popView false fa atStart v = pushView false fa atStart v [cDot, cDot] := by
        unfold popView; rw [hc]; rfl
      have hlp : listPop false L = L ++ [segDotDot] := by
        unfold listPop; simp [hdd]
      rw [hpv, hlp]
      obtain ⟨hrel', hne', _⟩ := pushView_rel fa atStart v [cDot, cDot] inv.rel (by simp [cDot, cSlash])
      refine ⟨hrel', pathText_pushView _ _ _ _ _ inv.pt pathText_dotdot, semiNormal_snoc_dd inv.sn (.inr hdd), ?_⟩
      rcases inv.shape with h | h
      · left; rw [hne' hvne, h]; rfl
      · right; rw [hne' hvne, h]; rfl
    · have hc : ((Path.is_empty v && Path.is_relative v && !false) || Path.last v == some [cDot, cDot]) = false := by
        rw [hlast, hem]
        have : (L.getLast? == some [cDot, cDot]) = false := by
          have : L.getLast? ≠ some [cDot, cDot] := hdd
          simpa using this
        simp [this]
      rw [popView_eq_popBody false fa atStart v hc hem]
      obtain ⟨hsg, hrel'⟩ := popBody_rel v inv.rel hvne
      have hlp : listPop false L = L.dropLast := by
        unfold listPop
        have h1 : (L.getLast? == some segDotDot) = false := by simpa using hdd
        have h2 : L.isEmpty = false := by cases L <;> simp_all
        simp [h1, h2]
      rw [hlp]
      have hpt' : PathText (popBody v) := by
        have := pathText_popView false fa atStart v inv.pt
        rwa [popView_eq_popBody false fa atStart v hc hem] at this
      refine ⟨hrel', hpt', semiNormal_dropLast inv.sn hL hdd, ?_⟩
      rcases inv.shape with h | h
      · left; rw [hsg, h]
      · right
        rw [hsg, h]
        cases L with
        | nil => exact absurd rfl hL
        | cons a l => rfl

/-- **one inner symbolic push on a relative path**: the literal segments follow `listSymPush`, unless
an empty segment is pushed onto a path without segments (the skip of the F15 class) -/
theorem rinv_step (fa atStart : Bool) (v s : Text) (L : List Text) (inv : RInv v L)
    (hs : cSlash ∉ s) (hpt : PathText s)
    (hskip : (s != segDot && s != segDotDot && s.isEmpty && L.isEmpty) = false) :
    RInv (symPushView false fa atStart v s).1 (listSymPush false L s).1 ∧
      (symPushView false fa atStart v s).2 = (s == segDot || s == segDotDot) := by
  unfold symPushView listSymPush
  by_cases h1 : s = segDot
  · subst h1
    simp only [segDot, beq_self_eq_true, if_true]
    exact ⟨inv, by simp⟩
  · have h1' : (s == [cDot]) = false := by simpa [segDot] using h1
    have h1'' : (s == segDot) = false := by simpa using h1
    simp only [h1', h1'', Bool.false_eq_true, if_false, Bool.false_or]
    by_cases h2 : s = segDotDot
    · subst h2
      simp only [segDotDot, beq_self_eq_true, if_true]
      refine ⟨?_, trivial⟩
      have hL : (L == [segDot]) = false := by
        have : L ≠ [segDot] := fun h => semiNormal_noDot inv.sn (h ▸ List.mem_cons_self)
        simpa using this
      simp only [hL, Bool.false_eq_true, if_false]
      exact rinv_pop fa atStart v L inv
    · have h2' : (s == [cDot, cDot]) = false := by simpa [segDotDot] using h2
      have h2'' : (s == segDotDot) = false := by simpa using h2
      simp only [h2', h2'', Bool.false_eq_true, if_false]
      have hsk : (s.isEmpty && L.isEmpty) = false := by
        simpa [h1, h2] using hskip
      simp only [hsk, Bool.false_eq_true, if_false]
      by_cases h3 : (!s.isEmpty || !Path.is_empty v) = true
      · simp only [h3, if_true]
        exact ⟨rinv_push fa atStart v s L inv hs hpt h1 h2, trivial⟩
      · exfalso
        have h3' : (!s.isEmpty || !Path.is_empty v) = false := by simpa using h3
        simp only [Bool.or_eq_false_iff, Bool.not_eq_false'] at h3'
        have hv : v = [] := by
          have := h3'.2
          rw [is_empty_rel inv.rel] at this
          simpa using this
        have hL : L = [] := by subst hv; exact rinv_nil inv
        rw [h3'.1, hL] at hsk
        simp at hsk

/-- the list the loop computes on a relative path -/
def walkR (L : List Text) (ss : List Text) : List Text :=
  ss.foldl (fun L s => (listSymPush false L s).1) L

theorem rinv_loop (fa atStart : Bool) (ss : List Text) : ∀ (v : Text) (o : Bool) (L : List Text), RInv v L →
    (∀ s ∈ ss, cSlash ∉ s ∧ PathText s) → symSkipsGo false L ss = false →
    RInv (symAppendGoView false fa atStart v o ss).1 (walkR L ss) ∧
      (symAppendGoView false fa atStart v o ss).2 = (if ss = [] then o else lastDot ss) := by
  induction ss with
  | nil => intro v o L inv _ _; exact ⟨inv, rfl⟩
  | cons s ss ih =>
    intro v o L inv hall hsk
    simp only [symSkipsGo] at hsk
    have hskip : (s != segDot && s != segDotDot && s.isEmpty && L.isEmpty) = false := by
      by_cases hc : (s != segDot && s != segDotDot && s.isEmpty && L.isEmpty) = true
      · rw [hc] at hsk; simp at hsk
      · simpa using hc
    rw [hskip] at hsk
    simp only [Bool.false_eq_true, if_false] at hsk
    obtain ⟨hs, hpt⟩ := hall s List.mem_cons_self
    obtain ⟨i1, f1⟩ := rinv_step fa atStart v s L inv hs hpt hskip
    obtain ⟨i2, f2⟩ := ih _ (symPushView false fa atStart v s).2 _ i1
      (fun t ht => hall t (List.mem_cons_of_mem _ ht)) hsk
    simp only [symAppendGoView, walkR, List.foldl_cons]
    refine ⟨i2, ?_⟩
    rw [f2, f1]
    cases ss with
    | nil => simp [lastDot]
    | cons t ts => simp [lastDot, List.getLast?_cons_cons]

/-! ## reading the view -/

theorem foldl_nstep_dd (k : Nat) : ∀ st : List Text, (∀ t ∈ st, t = segDotDot) →
    (List.replicate k segDotDot).foldl (nstep false) st = List.replicate k segDotDot ++ st := by
  induction k with
  | zero => intro st _; rfl
  | succ k ih =>
    intro st hst
    rw [List.replicate_succ, List.foldl_cons]
    have h1 : nstep false st segDotDot = segDotDot :: st := by
      unfold nstep
      simp only [show segDotDot ≠ segDot by decide, if_false, if_true]
      cases st with
      | nil => rfl
      | cons t rest =>
        have : t = segDotDot := hst t List.mem_cons_self
        simp [this]
    rw [h1, ih _ (by intro t ht; rcases List.mem_cons.mp ht with h | h; exact h; exact hst t h)]
    rw [show List.replicate k segDotDot ++ segDotDot :: st = (List.replicate k segDotDot ++ [segDotDot]) ++ st by simp,
      ← List.replicate_succ', List.replicate_succ]

theorem nsegsOf_semiNormal {L : List Text} (h : SemiNormal L) : nsegsOf false L = L := by
  obtain ⟨k, e, rfl, df⟩ := h
  unfold nsegsOf
  rw [List.foldl_append, foldl_nstep_dd k [] (by intro t ht; cases ht), foldl_nstep_dotFree false e df]
  simp

theorem rinv_nsegs {v : Text} {L : List Text} (inv : RInv v L) : nsegs v = L := by
  unfold nsegs
  rw [inv.rel]
  rcases inv.shape with h | h
  · rw [h, nsegsOf_semiNormal inv.sn]
  · rw [h, nsegsOf_cons_dot, nsegsOf_semiNormal inv.sn]

/-- what `normalized_segments` yields on a relative path is such a list -/
theorem semiNormal_nsegsOf (ss : List Text) : SemiNormal (nsegsOf false ss) := by
  unfold nsegsOf
  have key : ∀ (ss st : List Text), SemiNormal st.reverse → SemiNormal ((ss.foldl (nstep false) st).reverse) := by
    intro ss
    induction ss with
    | nil => intro st h; exact h
    | cons s ss ih =>
      intro st h
      rw [List.foldl_cons]
      apply ih
      unfold nstep
      by_cases h1 : s = segDot
      · simp only [h1, if_true]; exact h
      · simp only [h1, if_false]
        by_cases h2 : s = segDotDot
        · subst h2
          simp only [if_true, Bool.false_eq_true, if_false]
          cases st with
          | nil => exact ⟨1, [], rfl, (fun h => by cases h), (fun h => by cases h)⟩
          | cons t rest =>
            simp only
            by_cases ht : t = segDotDot
            · subst ht
              simp only [if_true]
              have : (segDotDot :: segDotDot :: rest).reverse = (segDotDot :: rest).reverse ++ [segDotDot] := by simp
              rw [this]
              exact semiNormal_snoc_dd h (.inr (by simp))
            · simp only [ht, if_false]
              have hr : (t :: rest).reverse = rest.reverse ++ [t] := by simp
              rw [hr] at h
              have := semiNormal_dropLast h (by simp) (by simpa using ht)
              simpa using this
        · simp only [h2, if_false]
          have : (s :: st).reverse = st.reverse ++ [s] := by simp
          rw [this]
          exact semiNormal_snoc h h1 h2
  exact key ss [] ⟨0, [], rfl, (fun h => by cases h), (fun h => by cases h)⟩

end IrefVerif.Lemmas
