import IrefVerif.Lemmas.Ranges
import IrefVerif.Lemmas.Setters
import IrefVerif.Lemmas.ValidWF
import IrefVerif.Model.Reference

/-!
# The stand-alone accessors re-find the same offsets

`find_scheme`, `find_authority`, `find_path` repeat the head of `reference_parts` (for every
text); `find_query` and `find_fragment` scan from the start and land on the same offsets for
every well-formed component list.  So all ten read accessors of a reference agree at the level
of *offsets*, not only of text (C02, C20).
-/

set_option linter.unusedSimpArgs false

namespace IrefVerif.Lemmas
open IrefVerif IrefVerif.Spec IrefVerif.Model IrefVerif.Model.Parse

theorem findSchemeGo_eq (w : Text) :
    findSchemeGo w = if fdc w then some (spanLen nCSQH w) else none := by
  induction w with
  | nil => rfl
  | cons c w ih =>
    by_cases hd : (c == cSlash || c == cQuest || c == cHash) = true
    · have hc : (c == cColon) = false := by
        rcases (by simpa using hd : (c = cSlash ∨ c = cQuest) ∨ c = cHash) with (rfl | rfl) | rfl <;> rfl
      simp [findSchemeGo, fdc, hd, hc]
    · have hd' : (c == cSlash || c == cQuest || c == cHash) = false := by simpa using hd
      by_cases hc : (c == cColon) = true
      · simp [findSchemeGo, fdc, hd', hc, spanLen, nCSQH]
      · have hc' : (c == cColon) = false := by simpa using hc
        have hn : nCSQH c = true := by
          simp only [Bool.or_eq_false_iff] at hd'
          simp [nCSQH, hc', hd'.1.1, hd'.1.2, hd'.2]
        simp only [findSchemeGo, fdc, hd', hc', Bool.false_eq_true, if_false, ih, spanLen, hn, if_true]
        split <;> simp


theorem find_path_eq (w : Text) : find_path w 0 = (reference_parts w 0).path := by
  unfold find_path reference_parts
  generalize scheme_authority_or_path w 0 = x
  obtain ⟨t, n⟩ := x
  cases t
  · simp only
    generalize authority_or_path w (n + 1) = y
    obtain ⟨t2, m⟩ := y
    cases t2 <;> rfl
  · rfl
  · rfl

theorem find_authority_eq (w : Text) : (find_authority w 0).toOption = (reference_parts w 0).authority := by
  unfold find_authority reference_parts
  generalize scheme_authority_or_path w 0 = x
  obtain ⟨t, n⟩ := x
  cases t
  · simp only
    generalize authority_or_path w (n + 1) = y
    obtain ⟨t2, m⟩ := y
    cases t2 <;> rfl
  · rfl
  · rfl

theorem find_scheme_eq (w : Text) : find_scheme w 0 = (reference_parts w 0).scheme := by
  unfold find_scheme reference_parts
  rw [List.drop_zero, findSchemeGo_eq, sap_eq, sapGo_start]
  by_cases h : fdc w = true
  · simp only [h, if_true, Option.map_some, Nat.zero_add]
    generalize authority_or_path w (spanLen nCSQH w + 1) = y
    obtain ⟨t2, m⟩ := y
    cases t2 <;> rfl
  · have h' : fdc w = false := by simpa using h
    simp only [h', Bool.false_eq_true, if_false, Option.map_none]
    by_cases h2 : startsSS w = true
    · simp only [h2, if_true]
    · have h2' : startsSS w = false := by simpa using h2
      simp only [h2', Bool.false_eq_true, if_false]

/-! ## on well-formed component lists: explicit offsets -/

theorem find_scheme_recompose (P : Spec.Parts) (wf : WF P) :
    find_scheme (recompose P) 0 = P.scheme.map fun s => (0, s.length) := by
  rw [find_scheme_eq, reference_parts_recompose P wf]; rfl

theorem find_authority_recompose (P : Spec.Parts) (wf : WF P) :
    (find_authority (recompose P) 0).toOption =
      P.authority.map fun a => ((schemeText P.scheme).length + 2, (schemeText P.scheme).length + 2 + a.length) := by
  rw [find_authority_eq, reference_parts_recompose P wf]; rfl

theorem find_path_recompose (P : Spec.Parts) (wf : WF P) :
    find_path (recompose P) 0 =
      ((schemeText P.scheme).length + (authText P.authority).length,
       (schemeText P.scheme).length + (authText P.authority).length + P.path.length) := by
  rw [find_path_eq, reference_parts_recompose P wf]; rfl

theorem preQ_length (P : Spec.Parts) :
    (preQ P).length = (schemeText P.scheme).length + (authText P.authority).length + P.path.length := by
  simp [preQ]; omega

theorem find_query_recompose (P : Spec.Parts) (wf : WF P) :
    (find_query (recompose P) 0).toOption = (rangesOf P).query := by
  have hpre := preQ_nQH P wf
  have hl := preQ_length P
  rw [recompose_preQ]
  simp only [rangesOf, ← hl]
  generalize preQ P = pre at hpre
  obtain hf := fragText_head P.fragment
  generalize fragText P.fragment = ft at hf
  cases hq : P.query with
  | some q =>
    have hqn : ∀ c ∈ q, (c != cHash) = true := by
      intro c hc
      have := wf.query q hq c hc
      simpa [nH, bne] using this
    unfold find_query
    simp only [List.drop_zero, queryText, List.append_assoc, List.cons_append]
    rw [findQueryGo_hit pre (q ++ ft) hpre]
    simp only [Nat.zero_add, Found.toOption, Option.map_some]
    have hd : (pre ++ cQuest :: (q ++ ft)).drop (pre.length + 1) = q ++ ft := by
      rw [show pre ++ cQuest :: (q ++ ft) = (pre ++ [cQuest]) ++ (q ++ ft) by simp]
      have : (pre ++ [cQuest]).length = pre.length + 1 := by simp
      rw [← this, List.drop_left]
    rw [hd]
    have hsp : spanLen (fun c => c != cHash) (q ++ ft) = q.length := by
      apply spanLen_append_of_all hqn
      intro c r hcr
      rcases hf with rfl | ⟨t, rfl⟩
      · cases hcr
      · injection hcr with h1 _; subst h1; simp
    rw [hsp]
  | none =>
    unfold find_query
    simp only [List.drop_zero, queryText, List.append_nil]
    rw [findQueryGo_miss pre ft hpre hf]
    simp [Found.toOption]

theorem find_fragment_recompose (P : Spec.Parts) (wf : WF P) :
    (find_fragment (recompose P) 0).toOption = (rangesOf P).fragment := by
  have hpre := preF_nH P wf
  have hl : (preF P).length = (schemeText P.scheme).length + (authText P.authority).length + P.path.length
      + (queryText P.query).length := by simp [preF, preQ]; omega
  have hlen : (recompose P).length = (preF P).length + (fragText P.fragment).length := by
    rw [recompose_preQ]; simp [preF]; omega
  rw [recompose_preQ]
  simp only [show preQ P ++ queryText P.query = preF P from rfl, rangesOf, ← hl]
  generalize preF P = pre at hpre
  cases hfr : P.fragment with
  | some f =>
    unfold find_fragment
    simp only [List.drop_zero, fragText]
    rw [findHashGo_hit pre f hpre]
    simp [Found.toOption]
    omega
  | none =>
    unfold find_fragment
    simp only [List.drop_zero, fragText, List.append_nil]
    rw [findHashGo_miss pre hpre]
    simp [Found.toOption]

end IrefVerif.Lemmas
