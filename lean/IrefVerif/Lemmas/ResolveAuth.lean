import IrefVerif.Lemmas.RemoveDots
import IrefVerif.Lemmas.ResolveEmpty
import IrefVerif.Lemmas.SetterValid

/-!
# Resolution of a reference that has an authority (RFC 3986 §5.2.2, first two branches)

With a scheme: `T = R` with dot segments removed.  Without: the base's scheme, the reference's
authority, path (dot segments removed) and query.  In both cases the *model of `resolve`* returns
exactly `recompose (transform (split base) (split r))`.
-/

set_option linter.unusedSimpArgs false

namespace IrefVerif.Lemmas
open IrefVerif IrefVerif.RE IrefVerif.Spec IrefVerif.Model IrefVerif.Model.Parse

/-- the path handle of a valid reference knows whether an authority precedes the path -/
theorem follows_authority_recompose (P : Spec.Parts) (wf : WF P) :
    (Ref.path_mut (recompose P)).follows_authority = P.authority.isSome := by
  have hp := find_path_recompose P wf
  -- the text in front of the path is itself a well-formed list (with an empty path)
  let P0 : Spec.Parts := { scheme := P.scheme, authority := P.authority, path := [],
                           query := none, fragment := none }
  have wf0 : WF P0 :=
    { scheme := wf.scheme, authority := wf.authority,
      path := (fun c hc => by simp [P0] at hc),
      query := (fun q hq => by simp [P0] at hq),
      abempty := (fun _ => .inl rfl),
      noSS := (fun _ => rfl),
      noColon := (fun _ _ => rfl) }
  have hpre : (recompose P).take ((schemeText P.scheme).length + (authText P.authority).length) = recompose P0 := by
    rw [recompose_eq, recompose_eq]
    have e1 : schemeText P.scheme ++ authText P.authority ++ P.path ++ queryText P.query ++ fragText P.fragment
        = (schemeText P.scheme ++ authText P.authority) ++ (P.path ++ queryText P.query ++ fragText P.fragment) := by
      simp [List.append_assoc]
    have e2 : (schemeText P.scheme).length + (authText P.authority).length
        = (schemeText P.scheme ++ authText P.authority).length := by simp
    rw [e1, e2, List.take_left]
    simp [P0, queryText, fragText]
  simp only [Ref.path_mut, PathMut.new, hp, hpre, find_authority_recompose_full P0 wf0]
  cases P.authority <;> rfl

/-- the path handle of a valid reference knows whether an authority precedes the path -/
theorem follows_authority_eq (G : Grammar) (ok : Grammar.Ok G) (w : Text) (h : Matches G.reference w) :
    (Ref.path_mut w).follows_authority = (split w).authority.isSome := by
  obtain ⟨_, wf⟩ := split_valid G ok w h
  have := follows_authority_recompose (split w) wf
  rwa [Lemmas.recompose_split] at this

/-- `remove_dot_segments` on a reference with an authority is RFC 3986 §5.2.4 -/
theorem rds_with_authority (G : Grammar) (ok : Grammar.Ok G) (w a : Text) (h : Matches G.reference w)
    (ha : (split w).authority = some a) :
    Ref.remove_dot_segments w = some (recompose { split w with path := removeDots (split w).path }) := by
  obtain ⟨_, wf⟩ := split_valid G ok w h
  obtain ⟨fa, e, hfa⟩ := remove_dot_segments_view G ok w h
  have hfa' : fa = true := by rw [hfa, follows_authority_eq G ok w h, ha]; rfl
  subst hfa'
  rw [e, rdsView_after_authority _ _ (pathText_of_wf _ wf) (wf.abempty (by simp [ha]))]

/-- **§5.2.2, reference with an authority** (with or without a scheme) -/
theorem resolve_authority (G : Grammar) (ok : Grammar.Ok G) (okp : Grammar.OkPath G) (base r a : Text)
    (hb : Matches G.full base) (hr : Matches G.reference r) (ha : (split r).authority = some a) :
    Ref.resolve r base = some (recompose (resolveSpec base r)) := by
  obtain ⟨vR, wR⟩ := split_valid G ok r hr
  obtain ⟨_, wB⟩ := split_valid G ok base (Matches.altL hb)
  obtain ⟨PB, hsP, hP, hvB⟩ := (full_iff G base).mp hb
  have hspB : split base = PB := by rw [← hP]; exact Lemmas.split_recompose PB (wf_of_valid G ok PB hvB)
  obtain ⟨sb, hsb⟩ := Option.isSome_iff_exists.mp (hspB ▸ hsP)
  unfold Ref.resolve resolveSpec transform
  have hrp := reference_parts_recompose (split r) wR
  rw [Lemmas.recompose_split] at hrp
  cases hs : (split r).scheme with
  | some s =>
    simp only [hrp, rangesOf, hs, Option.map_some, Option.isSome_some, if_true, ha]
    rw [rds_with_authority G ok r a hr ha]
    simp [hs, ha]
  | none =>
    simp only [hrp, rangesOf, hs, ha, Option.map_none, Option.map_some, Option.isSome_none, Option.isSome_some,
      Bool.false_eq_true, if_false, if_true]
    -- the base's scheme is written first
    have hsch : Ref.scheme base = sb := by
      have := ref_scheme_full (split base) wB sb hsb
      rwa [Lemmas.recompose_split] at this
    rw [hsch]
    have e1 := set_scheme_some_recompose (split r) wR sb
    rw [Lemmas.recompose_split] at e1
    simp only [Option.bind_eq_bind, e1, Option.bind_some]
    -- the intermediate text is a valid reference again
    have hsbv : Matches Rfc3986.scheme sb := by
      have := hvB.scheme sb (by rw [← hspB]; exact hsb)
      exact this
    have v1 := valid_set_scheme_some G ok okp (split r) vR sb hsbv
    have w1 := wf_of_valid G ok _ v1
    have hm1 : Matches G.reference (recompose { split r with scheme := some sb }) :=
      (reference_iff G _).mpr ⟨_, rfl, v1⟩
    have hsp1 : split (recompose { split r with scheme := some sb }) = { split r with scheme := some sb } :=
      Lemmas.split_recompose _ w1
    have := rds_with_authority G ok _ a hm1 (by rw [hsp1]; exact ha)
    rw [this, hsp1]
    simp [hs, ha, hsb]

/-- `remove_dot_segments` without an authority, when the normalised path needs no shield -/
theorem rds_no_authority (G : Grammar) (ok : Grammar.Ok G) (w : Text) (h : Matches G.reference w)
    (ha : (split w).authority = none)
    (hns : needsShield false ((schemeText (split w).scheme ++ authText (split w).authority).length == 0)
      (split w).path = false) :
    Ref.remove_dot_segments w = some (recompose { split w with path := removeDots (split w).path }) := by
  obtain ⟨_, wf⟩ := split_valid G ok w h
  obtain ⟨fa, e, hfa⟩ := remove_dot_segments_view G ok w h
  have hfa' : fa = false := by rw [hfa, follows_authority_eq G ok w h, ha]; rfl
  subst hfa'
  rw [e, rdsView_no_shield _ _ _ _ (pathText_of_wf _ wf) hns]

/-- **§5.2.2, reference with a scheme and no authority**, when the dot-free path needs no shield -/
theorem resolve_scheme_no_authority (G : Grammar) (ok : Grammar.Ok G) (base r s : Text)
    (hr : Matches G.reference r) (hs : (split r).scheme = some s) (ha : (split r).authority = none)
    (hns : needsShield false false (split r).path = false) :
    Ref.resolve r base = some (recompose (resolveSpec base r)) := by
  obtain ⟨_, wR⟩ := split_valid G ok r hr
  unfold Ref.resolve resolveSpec transform
  have hrp := reference_parts_recompose (split r) wR
  rw [Lemmas.recompose_split] at hrp
  simp only [hrp, rangesOf, hs, Option.map_some, Option.isSome_some, if_true]
  have hat : ((schemeText (split r).scheme ++ authText (split r).authority).length == 0) = false := by
    simp [hs, schemeText]
  rw [rds_no_authority G ok r hr ha (by rw [hat]; exact hns)]
  simp [hs, ha]

/-- **§5.2.2, absolute-path reference** against a base with an authority -/
theorem resolve_absolute (G : Grammar) (ok : Grammar.Ok G) (okp : Grammar.OkPath G) (base r ab : Text)
    (hb : Matches G.full base) (hr : Matches G.reference r)
    (hs : (split r).scheme = none) (ha : (split r).authority = none) (hp : isAbs (split r).path = true)
    (hab : (split base).authority = some ab) :
    Ref.resolve r base = some (recompose (resolveSpec base r)) := by
  obtain ⟨vR, wR⟩ := split_valid G ok r hr
  obtain ⟨vB, wB⟩ := split_valid G ok base (Matches.altL hb)
  obtain ⟨PB, hsP, hP, hvB⟩ := (full_iff G base).mp hb
  have hspB : split base = PB := by rw [← hP]; exact Lemmas.split_recompose PB (wf_of_valid G ok PB hvB)
  obtain ⟨sb, hsb⟩ := Option.isSome_iff_exists.mp (hspB ▸ hsP)
  unfold Ref.resolve resolveSpec transform
  have hrp := reference_parts_recompose (split r) wR
  rw [Lemmas.recompose_split] at hrp
  simp only [hrp, rangesOf, hs, ha, Option.map_none, Option.isSome_none, Bool.false_eq_true, if_false]
  have hsch : Ref.scheme base = sb := by
    have := ref_scheme_full (split base) wB sb hsb
    rwa [Lemmas.recompose_split] at this
  rw [hsch]
  have e1 := set_scheme_some_recompose (split r) wR sb
  rw [Lemmas.recompose_split] at e1
  simp only [Option.bind_eq_bind, e1, Option.bind_some]
  have hsbv : Matches Rfc3986.scheme sb := vB.scheme sb hsb
  have v1 := valid_set_scheme_some G ok okp (split r) vR sb hsbv
  have w1 := wf_of_valid G ok _ v1
  -- the path of the intermediate text is the reference's (absolute, not empty)
  have hpath1 : Ref.path (recompose { split r with scheme := some sb }) = (split r).path :=
    ref_path_recompose _ w1
  have hne : (split r).path ≠ [] := by intro e; rw [e] at hp; simp [isAbs] at hp
  have hrel : (Path.is_relative (split r).path && Path.is_empty (split r).path) = false := by
    simp [Path.is_relative, is_absolute_eq, hp]
  have habsM : Path.is_absolute (split r).path = true := by rw [is_absolute_eq]; exact hp
  simp only [hpath1, hrel, Bool.false_eq_true, if_false, habsM, if_true]
  -- the base's authority
  have hauthB : Ref.authority base = some ab := by
    have := ref_authority_recompose (split base) wB
    rw [Lemmas.recompose_split] at this
    rw [this, hab]
  rw [hauthB]
  have e2 := set_authority_some_recompose _ w1 ab
  have hpw : pathWithAuth { split r with scheme := some sb } = (split r).path := by
    simp [pathWithAuth, ha, hp]
  rw [hpw] at e2
  simp only [e2, Option.bind_some]
  have habv : Matches G.authority ab := vB.authority ab hab
  have v2 := valid_set_authority_some G ok okp _ v1 ab habv
  rw [hpw] at v2
  have w2 := wf_of_valid G ok _ v2
  have hm2 : Matches G.reference (recompose { split r with scheme := some sb, authority := some ab }) :=
    (reference_iff G _).mpr ⟨_, rfl, v2⟩
  have hsp2 : split (recompose { split r with scheme := some sb, authority := some ab })
      = { split r with scheme := some sb, authority := some ab } := Lemmas.split_recompose _ w2
  have := rds_with_authority G ok _ ab hm2 (by rw [hsp2])
  rw [this, hsp2]
  have hpe : (split r).path.isEmpty = false := by
    cases hpp : (split r).path with
    | nil => exact absurd hpp hne
    | cons c t => rfl
  simp [hs, ha, hsb, hab, hpe, hp]

/-- **§5.2.2, absolute-path reference** against a base *without* authority, when the dot-free
path needs no shield (its first segment is not empty) -/
theorem resolve_absolute_no_authority (G : Grammar) (ok : Grammar.Ok G) (okp : Grammar.OkPath G) (base r : Text)
    (hb : Matches G.full base) (hr : Matches G.reference r)
    (hs : (split r).scheme = none) (ha : (split r).authority = none) (hp : isAbs (split r).path = true)
    (hab : (split base).authority = none)
    (hns : needsShield false false (split r).path = false) :
    Ref.resolve r base = some (recompose (resolveSpec base r)) := by
  obtain ⟨vR, wR⟩ := split_valid G ok r hr
  obtain ⟨vB, wB⟩ := split_valid G ok base (Matches.altL hb)
  obtain ⟨PB, hsP, hP, hvB⟩ := (full_iff G base).mp hb
  have hspB : split base = PB := by rw [← hP]; exact Lemmas.split_recompose PB (wf_of_valid G ok PB hvB)
  obtain ⟨sb, hsb⟩ := Option.isSome_iff_exists.mp (hspB ▸ hsP)
  unfold Ref.resolve resolveSpec transform
  have hrp := reference_parts_recompose (split r) wR
  rw [Lemmas.recompose_split] at hrp
  simp only [hrp, rangesOf, hs, ha, Option.map_none, Option.isSome_none, Bool.false_eq_true, if_false]
  have hsch : Ref.scheme base = sb := by
    have := ref_scheme_full (split base) wB sb hsb
    rwa [Lemmas.recompose_split] at this
  rw [hsch]
  have e1 := set_scheme_some_recompose (split r) wR sb
  rw [Lemmas.recompose_split] at e1
  simp only [Option.bind_eq_bind, e1, Option.bind_some]
  have hsbv : Matches Rfc3986.scheme sb := vB.scheme sb hsb
  have v1 := valid_set_scheme_some G ok okp (split r) vR sb hsbv
  have w1 := wf_of_valid G ok _ v1
  have hpath1 : Ref.path (recompose { split r with scheme := some sb }) = (split r).path :=
    ref_path_recompose _ w1
  have hne : (split r).path ≠ [] := by intro e; rw [e] at hp; simp [isAbs] at hp
  have hrel : (Path.is_relative (split r).path && Path.is_empty (split r).path) = false := by
    simp [Path.is_relative, is_absolute_eq, hp]
  have habsM : Path.is_absolute (split r).path = true := by rw [is_absolute_eq]; exact hp
  simp only [hpath1, hrel, Bool.false_eq_true, if_false, habsM, if_true]
  have hauthB : Ref.authority base = none := by
    have := ref_authority_recompose (split base) wB
    rw [Lemmas.recompose_split] at this
    rw [this, hab]
  rw [hauthB]
  have e2 := set_authority_none_recompose _ w1
  have hpw : pathNoAuth { split r with scheme := some sb } = (split r).path := by
    simp [pathNoAuth, ha]
  rw [hpw] at e2
  have hsame : ({ split r with scheme := some sb, authority := none, path := (split r).path } : Spec.Parts)
      = { split r with scheme := some sb } := by
    cases hsr : split r with
    | mk sc au pa qu fr =>
      rw [hsr] at ha
      simp at ha
      simp [ha]
  simp only [e2, Option.bind_some]
  have hm2 : Matches G.reference (recompose { split r with scheme := some sb }) :=
    (reference_iff G _).mpr ⟨_, rfl, v1⟩
  have hsp2 : split (recompose { split r with scheme := some sb }) = { split r with scheme := some sb } :=
    Lemmas.split_recompose _ w1
  rw [show ({ split r with scheme := some sb, authority := none, path := (split r).path } : Spec.Parts)
      = { split r with scheme := some sb } from hsame]
  have hat : ((schemeText (some sb) ++ authText (split r).authority).length == 0) = false := by
    simp [schemeText]
  have := rds_no_authority G ok _ hm2 (by rw [hsp2]; exact ha) (by rw [hsp2]; simp only; rw [hat]; exact hns)
  rw [this, hsp2]
  have hpe : (split r).path.isEmpty = false := by
    cases hpp : (split r).path with
    | nil => exact absurd hpp hne
    | cons c t => rfl
  simp [hs, ha, hsb, hab, hpe, hp]

end IrefVerif.Lemmas
