import IrefVerif.Lemmas.SymAppend
import IrefVerif.Spec.Resolve

/-!
# RFC 3986 §5.2.3 `merge` followed by §5.2.4, as a walk over segment lists

For a base path that is empty (behind an authority) or absolute and a non-empty reference path,
the segments of the merged path are the base's segments without the last, followed by the
reference's; removing the dot segments is the stack walk from the normalised directory, which is
the list `walk` computes wherever `symbolic_append` does not skip (the F15 class).
-/

set_option linter.unusedSimpArgs false

namespace IrefVerif.Lemmas
open IrefVerif IrefVerif.Spec IrefVerif.Model IrefVerif.Oracle IrefVerif.Findings

theorem splitSlash_mid (a b : Text) : splitSlash (a ++ cSlash :: b) = splitSlash a ++ splitSlash b := by
  induction a with
  | nil => simp [splitSlash]
  | cons c a ih =>
    simp only [List.cons_append, splitSlash]
    by_cases hc : (c == cSlash) = true
    · simp [hc, ih]
    · have hc' : (c == cSlash) = false := by simpa using hc
      simp only [hc', Bool.false_eq_true, if_false, ih]
      cases hs : splitSlash a with
      | nil => exact absurd hs (splitSlash_ne_nil a)
      | cons s ss => simp

theorem last_slash_decomp (q : Text) : cSlash ∉ q ∨ ∃ x s, q = x ++ cSlash :: s ∧ cSlash ∉ s := by
  induction q with
  | nil => left; simp
  | cons c q ih =>
    rcases ih with h | ⟨x, s, hq, hs⟩
    · by_cases hc : c = cSlash
      · right; exact ⟨[], q, by simp [hc], h⟩
      · left; simp [h]; exact fun e => hc e.symm
    · right; exact ⟨c :: x, s, by simp [hq], hs⟩

theorem segs_abs (q : Text) : segs (cSlash :: q) = if q = [] then [] else splitSlash q := by
  unfold segs stripRoot
  simp only [beq_self_eq_true, if_true]
  cases q with
  | nil => rfl
  | cons c r => simp

theorem joinSlash_nil_cons (l : List Text) (hne : l ≠ []) : joinSlash ([] :: l) = cSlash :: joinSlash l := by
  cases l with
  | nil => exact absurd rfl hne
  | cons a b => simp [joinSlash]

theorem upToLastSlash_single (q : Text) (h : cSlash ∉ q) : upToLastSlash (cSlash :: q) = [cSlash] := by
  have hsp : splitSlash (cSlash :: q) = [] :: splitSlash q := by simp [splitSlash]
  unfold upToLastSlash
  rw [hsp, splitSlash_noslash q h]
  simp [joinSlash]

theorem upToLastSlash_multi (x s : Text) (hs : cSlash ∉ s) :
    upToLastSlash (cSlash :: (x ++ cSlash :: s)) = cSlash :: x ++ [cSlash] := by
  have hsp : splitSlash (cSlash :: (x ++ cSlash :: s)) = [] :: splitSlash (x ++ cSlash :: s) := by simp [splitSlash]
  unfold upToLastSlash
  rw [hsp, splitSlash_append x s hs]
  have hne : splitSlash x ≠ [] := splitSlash_ne_nil x
  have hrev : ([] :: (splitSlash x ++ [s])).reverse = s :: ([] :: splitSlash x).reverse := by simp
  rw [hrev]
  simp only [List.reverse_reverse]
  rw [joinSlash_nil_cons _ hne, joinSlash_splitSlash]

/-- the segments of the merged path (base path absolute) -/
theorem segs_merge_abs (q R : Text) (hR : R ≠ []) :
    segs (upToLastSlash (cSlash :: q) ++ R) = (segs (cSlash :: q)).dropLast ++ splitSlash R ∧
      isAbs (upToLastSlash (cSlash :: q) ++ R) = true := by
  have hsp : splitSlash (cSlash :: q) = [] :: splitSlash q := by simp [splitSlash]
  rcases last_slash_decomp q with h | ⟨x, s, hq, hs⟩
  · -- the base has a single segment
    have hup : upToLastSlash (cSlash :: q) = [cSlash] := by
      unfold upToLastSlash
      rw [hsp, splitSlash_noslash q h]
      simp [joinSlash]
    rw [hup, segs_abs q]
    constructor
    · simp only [List.singleton_append]
      rw [segs_abs R, if_neg hR]
      split
      · rfl
      · rw [splitSlash_noslash q h]; rfl
    · rfl
  · have hup : upToLastSlash (cSlash :: q) = cSlash :: x ++ [cSlash] := by
      unfold upToLastSlash
      rw [hsp, hq, splitSlash_append x s hs]
      have hne : splitSlash x ≠ [] := splitSlash_ne_nil x
      have hrev : ([] :: (splitSlash x ++ [s])).reverse = s :: ([] :: splitSlash x).reverse := by simp
      rw [hrev]
      simp only [List.reverse_reverse]
      rw [joinSlash_nil_cons _ hne, joinSlash_splitSlash]
    rw [hup]
    constructor
    · have e1 : cSlash :: x ++ [cSlash] ++ R = cSlash :: (x ++ cSlash :: R) := by simp
      rw [e1, segs_abs, segs_abs, if_neg (by simp), if_neg (by rw [hq]; simp), splitSlash_mid, hq,
        splitSlash_append x s hs, List.dropLast_concat]
    · rfl

/-- one step of §5.2.4's stack is one step of `listSymPush`, unless the latter skips -/
theorem nstep_listSymPush (e : List Text) (s : Text) (df : DotFree e)
    (hskip : (s != segDot && s != segDotDot && s.isEmpty && e.isEmpty) = false) :
    (nstep true e.reverse s).reverse = (listSymPush true e s).1 ∧ DotFree (listSymPush true e s).1 := by
  unfold nstep listSymPush
  by_cases h1 : s = segDot
  · subst h1; simp [df]
  · have h1' : (s == segDot) = false := by simpa using h1
    simp only [h1, h1', if_false, Bool.false_eq_true]
    by_cases h2 : s = segDotDot
    · subst h2
      simp only [if_true, beq_self_eq_true, ite_lone_dot df, listPop_dotFree df]
      refine ⟨?_, dotFree_dropLast df⟩
      cases hr : e.reverse with
      | nil =>
        have : e = [] := by simpa using hr
        subst this; rfl
      | cons t rest =>
        have he : e = rest.reverse ++ [t] := by
          have := congrArg List.reverse hr
          simpa using this
        have ht : t ≠ segDotDot := fun h => df.2 (by rw [he, h]; simp)
        simp only [ht, if_false, he, List.dropLast_concat]
    · have h2' : (s == segDotDot) = false := by simpa using h2
      have hsk : (s.isEmpty && e.isEmpty) = false := by simpa [h1, h2] using hskip
      simp only [h2, h2', if_false, Bool.false_eq_true, hsk, List.reverse_cons, List.reverse_reverse]
      refine ⟨trivial, ?_, ?_⟩ <;> intro hm
      · rcases List.mem_append.mp hm with h | h
        · exact df.1 h
        · simp at h; exact h1 h.symm
      · rcases List.mem_append.mp hm with h | h
        · exact df.2 h
        · simp at h; exact h2 h.symm

theorem foldl_nstep_walk (ss : List Text) : ∀ (e : List Text), DotFree e → symSkipsGo true e ss = false →
    (ss.foldl (nstep true) e.reverse).reverse = walk e ss := by
  induction ss with
  | nil => intro e _ _; simp [walk]
  | cons s ss ih =>
    intro e df hsk
    simp only [symSkipsGo] at hsk
    have hskip : (s != segDot && s != segDotDot && s.isEmpty && e.isEmpty) = false := by
      by_cases hc : (s != segDot && s != segDotDot && s.isEmpty && e.isEmpty) = true
      · rw [hc] at hsk; simp at hsk
      · simpa using hc
    rw [hskip] at hsk
    simp only [Bool.false_eq_true, if_false] at hsk
    obtain ⟨e1, d1⟩ := nstep_listSymPush e s df hskip
    simp only [List.foldl_cons, walk]
    have : nstep true e.reverse s = ((listSymPush true e s).1).reverse := by
      rw [← e1]; simp
    rw [this]
    exact ih _ d1 hsk

theorem nsegsOf_abs_dotFree (L : List Text) : DotFree (nsegsOf true L) :=
  ⟨nsegsOf_noDot true L, nsegsOf_abs_noDotDot L⟩

/-- the normalised sequence of `init ++ S` is the walk over `S` from the normalised `init` -/
theorem nsegsOf_append_walk (init S : List Text) (hsk : symSkipsGo true (nsegsOf true init) S = false) :
    nsegsOf true (init ++ S) = walk (nsegsOf true init) S := by
  have := foldl_nstep_walk S (nsegsOf true init) (nsegsOf_abs_dotFree init) hsk
  rw [← this]
  unfold nsegsOf
  simp [List.foldl_append]

theorem dotEnd_of_segs (M : Text) (init S : List Text) (h : segs M = init ++ S) (hS : S ≠ []) :
    dotEnd M = lastDot S := by
  unfold dotEnd lastDot
  rw [h, List.getLast?_append]
  cases hl : S.getLast? with
  | none => exact absurd (List.getLast?_eq_none_iff.mp hl) hS
  | some s =>
    show (decide (s = segDot) || decide (s = segDotDot)) = (s == segDot || s == segDotDot)
    by_cases h1 : s = segDot <;> by_cases h2 : s = segDotDot <;> simp [h1, h2]

/-- **§5.2.3 + §5.2.4 as a walk** -/
theorem removeDots_merge (B R : Text) (hB : B = [] ∨ ∃ q, B = cSlash :: q) (hR : R ≠ [])
    (hsk : symSkipsGo true (nsegsOf true (segs B).dropLast) (splitSlash R) = false) :
    removeDots (merge true B R) =
      cSlash :: joinSlash (walk (nsegsOf true (segs B).dropLast) (splitSlash R) ++
        (if lastDot (splitSlash R) && !(walk (nsegsOf true (segs B).dropLast) (splitSlash R)).isEmpty
          then [[]] else [])) := by
  have hM : segs (merge true B R) = (segs B).dropLast ++ splitSlash R ∧ isAbs (merge true B R) = true := by
    unfold merge
    rcases hB with rfl | ⟨q, rfl⟩
    · simp only [List.isEmpty_nil, Bool.and_self, if_true]
      refine ⟨?_, rfl⟩
      rw [segs_abs, if_neg hR]; rfl
    · simp only [List.isEmpty_cons, Bool.and_false, Bool.false_eq_true, if_false]
      exact segs_merge_abs q R hR
  unfold removeDots normTarget render nsegs
  rw [dotEnd_of_segs _ _ _ hM.1 (splitSlash_ne_nil R), hM.2, hM.1, nsegsOf_append_walk _ _ hsk]
  simp only [if_true, List.singleton_append]

end IrefVerif.Lemmas
