import IrefVerif.Lemmas.GoodPath
import IrefVerif.Lemmas.SymAppend

/-!
# The path-handle operations preserve `GoodPath`

`push`, `pop`, `clear`, `symbolic_push`, `symbolic_append` and `normalize`, as functions on the
handle's view (`pushView` … `normView`, tied to the model of `path_mut.rs` by `push_view` …),
keep the path valid in its context, for every view and every valid segment.
-/

set_option linter.unusedSimpArgs false

namespace IrefVerif.Lemmas
open IrefVerif IrefVerif.RE IrefVerif.Spec IrefVerif.Model

theorem fsc_snoc_slash (v t : Text) : fsc (v ++ cSlash :: t) = fsc v := by
  induction v with
  | nil => simp [fsc, cSlash, cColon]
  | cons c v ih => simp only [List.cons_append, fsc, ih]

theorem startsSS_noslash {s : Text} (h : cSlash ∉ s) : startsSS s = false := by
  cases s with
  | nil => rfl
  | cons a r =>
    cases r with
    | nil => rfl
    | cons b r' =>
      have : a ≠ cSlash := fun e => h (e ▸ List.mem_cons_self)
      simp [startsSS, this]

theorem startsSS_take {v : Text} {k : Nat} (h : startsSS (v.take k) = true) : startsSS v = true := by
  match v, k, h with
  | a :: b :: r, k + 2, h => simpa [startsSS] using h
  | [_], _ + 1, h => simp [startsSS] at h
  | [], _, h => simp [startsSS] at h
  | _ :: _, 0, h => simp [startsSS] at h
  | _ :: _ :: _, 1, h => simp [startsSS] at h

theorem fsc_take {v : Text} {k : Nat} (h : fsc (v.take k) = true) : fsc v = true := by
  induction v generalizing k with
  | nil => simp [fsc] at h
  | cons c v ih =>
    cases k with
    | zero => simp [fsc] at h
    | succ k =>
      simp only [List.take_succ_cons, fsc] at h ⊢
      by_cases h1 : (c == cColon) = true
      · simp [h1]
      · have h1' : (c == cColon) = false := by simpa using h1
        simp only [h1', Bool.false_eq_true, if_false] at h ⊢
        by_cases h2 : (c == cSlash) = true
        · simp [h2] at h
        · have h2' : (c == cSlash) = false := by simpa using h2
          simp only [h2', Bool.false_eq_true, if_false] at h ⊢
          exact ih h

section
variable (G : Grammar) (ok : Grammar.Ok G) (okp : Grammar.OkPath G)
include ok okp

theorem segOK_snoc {v s : Text} (hv : SegOK G v) (hs : Matches G.segment s) : SegOK G (v ++ cSlash :: s) := by
  intro x hx
  rw [splitSlash_append v s (seg_noSlash G ok okp hs)] at hx
  rcases List.mem_append.mp hx with h | h
  · exact hv x h
  · simp at h; subst h; exact hs

theorem segOK_single {s : Text} (hs : Matches G.segment s) : SegOK G s := by
  intro x hx
  rw [splitSlash_noslash s (seg_noSlash G ok okp hs)] at hx
  simp at hx; subst hx; exact hs

theorem segOK_root {q : Text} (h : SegOK G q) : SegOK G (cSlash :: q) := by
  intro x hx
  simp only [splitSlash, beq_self_eq_true, if_true] at hx
  rcases List.mem_cons.mp hx with e | e
  · subst e; exact okp.seg_nil
  · exact h x e

theorem good_root (A atStart : Bool) : GoodPath G A atStart [cSlash] :=
  ⟨segOK_root G ok okp (segOK_nil G ok okp), pathText_lit_slash, fun _ => .inr rfl, fun _ => rfl, fun _ => rfl⟩

theorem good_nil (A atStart : Bool) : GoodPath G A atStart [] :=
  ⟨segOK_nil G ok okp, (fun c hc => by cases hc), (fun _ => .inl rfl), fun _ => rfl, fun _ => rfl⟩

/-- **push** -/
theorem good_push (A atStart : Bool) (hctx : atStart = true → A = false) (v s : Text)
    (hg : GoodPath G A atStart v) (hs : Matches G.segment s) :
    GoodPath G A atStart (pushView A A atStart v s) := by
  have hsn := seg_noSlash G ok okp hs
  have hspt := seg_pathText G ok okp hs
  have hdot := seg_dot G ok okp
  -- the path after the anchoring step
  have g1 : GoodPath G A atStart (if A && v.isEmpty then [cSlash] else v) := by
    split
    · exact good_root G ok okp A atStart
    · exact hg
  have h1 : A = true → isAbs (if A && v.isEmpty then [cSlash] else v) = true := by
    intro hA
    by_cases hv : v = []
    · simp [hA, hv, isAbs]
    · have : v.isEmpty = false := by cases v <;> simp_all
      simp only [this, Bool.and_false, Bool.false_eq_true, if_false]
      rcases hg.auth hA with e | e
      · exact absurd e hv
      · exact e
  unfold pushView
  simp only []
  generalize (if A && v.isEmpty then [cSlash] else v) = v1 at g1 h1
  by_cases hem : Path.is_empty v1 = true
  · simp only [hem, if_true]
    rcases is_empty_cases hem with e | e
    · -- the empty relative path
      subst e
      have hA : A = false := by
        cases A with
        | false => rfl
        | true => have := h1 rfl; simp [isAbs] at this
      subst hA
      by_cases hc : ((atStart && fsc s) || s.isEmpty) = true
      · simp only [hc, if_true, List.nil_append]
        refine ⟨?_, pathText_append pathText_lit_dotslash hspt, (fun h => by cases h), fun _ => ?_, fun _ => ?_⟩
        · have := segOK_snoc G ok okp (segOK_single G ok okp hdot) hs
          simpa using this
        · simp [startsSS, cDot, cSlash]
        · simp [fsc, cDot, cSlash, cColon]
      · have hc' : ((atStart && fsc s) || s.isEmpty) = false := by simpa using hc
        simp only [hc', Bool.false_eq_true, if_false, List.nil_append]
        simp only [Bool.or_eq_false_iff, Bool.and_eq_false_iff] at hc'
        refine ⟨segOK_single G ok okp hs, hspt, (fun h => by cases h), fun _ => startsSS_noslash hsn, fun hst => ?_⟩
        rcases hc'.1 with h | h
        · rw [hst] at h; cases h
        · exact h
    · subst e
      by_cases hc : ((atStart && fsc s) || s.isEmpty) = true
      · simp only [hc, if_true]
        refine ⟨?_, pathText_append (pathText_append pathText_lit_slash pathText_lit_dotslash) hspt,
          fun _ => .inr rfl, fun _ => ?_, fun _ => ?_⟩
        · have := segOK_root G ok okp (segOK_snoc G ok okp (segOK_single G ok okp hdot) hs)
          simpa using this
        · simp [startsSS, cDot, cSlash]
        · simp [fsc, cDot, cSlash, cColon]
      · have hc' : ((atStart && fsc s) || s.isEmpty) = false := by simpa using hc
        simp only [hc', Bool.false_eq_true, if_false]
        simp only [Bool.or_eq_false_iff] at hc'
        have hsne : s ≠ [] := by
          intro e; rw [e] at hc'; simp at hc'
        refine ⟨?_, pathText_append pathText_lit_slash hspt, fun _ => .inr rfl, fun _ => ?_, fun _ => ?_⟩
        · have := segOK_root G ok okp (segOK_single G ok okp hs)
          simpa using this
        · cases s with
          | nil => exact absurd rfl hsne
          | cons c r =>
            have : c ≠ cSlash := fun e => hsn (e ▸ List.mem_cons_self)
            simp [startsSS, this]
        · simp [fsc, cSlash, cColon]
  · have hem' : Path.is_empty v1 = false := by simpa using hem
    simp only [hem', Bool.false_eq_true, if_false]
    by_cases hsh : (A && v1 == [cSlash, cDot, cSlash]) = true
    · simp only [hsh, if_true]
      simp only [Bool.and_eq_true] at hsh
      refine ⟨?_, pathText_append pathText_lit_ss hspt, fun _ => .inr rfl, fun h => ?_, fun h => ?_⟩
      · have := segOK_root G ok okp (segOK_root G ok okp (segOK_single G ok okp hs))
        simpa using this
      · rw [hsh.1] at h; cases h
      · have := hctx h; rw [hsh.1] at this; cases this
    · have hsh' : (A && v1 == [cSlash, cDot, cSlash]) = false := by simpa using hsh
      simp only [hsh', Bool.false_eq_true, if_false]
      refine ⟨segOK_snoc G ok okp g1.segs hs,
        pathText_append g1.pt (pathText_append (a := [cSlash]) pathText_lit_slash hspt), fun hA => ?_, fun hA => ?_, fun h => ?_⟩
      · right
        have := h1 hA
        cases v1 with
        | nil => simp [isAbs] at this
        | cons c r => simpa [isAbs] using this
      · have hss := g1.noSS hA
        match v1, hem', hss with
        | [], h, _ => simp [Path.is_empty] at h
        | [c], h, _ =>
          have : c ≠ cSlash := by
            intro e; subst e; simp [Path.is_empty] at h
          simp [startsSS, this]
        | a :: b :: r, _, hss => simpa [startsSS] using hss
      · rw [fsc_snoc_slash]; exact g1.noColon h

theorem isAbs_take (v : Text) (k : Nat) (hk : 1 ≤ k) : isAbs (v.take k) = isAbs v := by
  cases v with
  | nil => simp
  | cons c r =>
    cases k with
    | zero => omega
    | succ k => simp [isAbs]

/-- **pop** -/
theorem good_pop (A atStart : Bool) (hctx : atStart = true → A = false) (v : Text)
    (hg : GoodPath G A atStart v) : GoodPath G A atStart (popView A A atStart v) := by
  by_cases h1 : ((Path.is_empty v && Path.is_relative v && !A) || Path.last v == some [cDot, cDot]) = true
  · unfold popView
    simp only [h1, if_true]
    exact good_push G ok okp A atStart hctx v _ hg (seg_dotdot G ok okp)
  · have h1' : ((Path.is_empty v && Path.is_relative v && !A) || Path.last v == some [cDot, cDot]) = false := by
      simpa using h1
    by_cases hne : Path.is_empty v = true
    · unfold popView
      rw [h1']
      simp [hne, hg]
    · have hne' : Path.is_empty v = false := by simpa using hne
      rw [popView_eq_popBody A A atStart v h1' hne']
      unfold popBody
      simp only []
      have hvne : v ≠ [] := by intro e; subst e; simp [Path.is_empty] at hne'
      rcases pop_cases v hne' with ⟨c1, c2, c3, c4⟩ | ⟨c1, c2, c3, c4⟩ | ⟨c1, c2, c3⟩
      · -- a proper last segment
        have hk : (Path.scanBack v (fsoOf v) (v.length - 1) == fsoOf v) = false := by
          have : Path.scanBack v (fsoOf v) (v.length - 1) ≠ fsoOf v := by omega
          simpa using this
        simp only [hk, Bool.false_and, Bool.false_eq_true, if_false]
        generalize Path.scanBack v (fsoOf v) (v.length - 1) = k at c1 c2 c3 c4
        have hk1 : 1 ≤ k := by omega
        refine ⟨?_, pathText_take _ _ hg.pt, fun hA => ?_, fun hA => ?_, fun h => ?_⟩
        · intro x hx
          apply hg.segs
          rw [c2, splitSlash_append _ _ c3]
          exact List.mem_append_left _ hx
        · right
          rw [isAbs_take G ok okp v k hk1]
          rcases hg.auth hA with e | e
          · exact absurd e hvne
          · exact e
        · cases hss : startsSS (v.take k) with
          | false => rfl
          | true => have := startsSS_take hss; rw [hg.noSS hA] at this; cases this
        · cases hf : fsc (v.take k) with
          | false => rfl
          | true => have := fsc_take hf; rw [hg.noColon h] at this; cases this
      · -- `//s`: the empty first segment stays, behind `/./`
        have hA : A = true := by
          cases A with
          | true => rfl
          | false =>
            have := hg.noSS rfl
            rw [c3] at this
            simp [startsSS] at this
        have hfso : fsoOf v = 1 := by simp [fsoOf, c2]
        have hget : v.getD 1 0 = cSlash := by rw [c3]; simp
        rw [c1, hfso]
        simp only [beq_self_eq_true, hget, Bool.and_self, if_true]
        have ht : v.take 1 = [cSlash] := by rw [c3]; simp
        rw [ht]
        refine ⟨?_, ?_, fun _ => .inr rfl, fun h => ?_, fun h => ?_⟩
        · have := segOK_root G ok okp (segOK_snoc G ok okp (segOK_single G ok okp (seg_dot G ok okp)) okp.seg_nil)
          simpa using this
        · exact pathText_append pathText_lit_slash pathText_lit_dotslash
        · rw [hA] at h; cases h
        · have := hctx h; rw [hA] at this; cases this
      · -- a single segment: the path becomes empty
        have hc : (v.getD (fsoOf v) 0 == cSlash) = false := by simpa using c2
        rw [c1]
        simp only [hc, Bool.and_false, Bool.false_eq_true, if_false]
        unfold fsoOf
        by_cases habs : isAbs v = true
        · simp only [habs, if_true]
          have : v.take 1 = [cSlash] := by
            cases v with
            | nil => exact absurd rfl hvne
            | cons c r =>
              have : c = cSlash := by simpa [isAbs] using habs
              simp [this]
          rw [this]; exact good_root G ok okp A atStart
        · have habs' : isAbs v = false := by simpa using habs
          simp only [habs', Bool.false_eq_true, if_false, List.take_zero]
          exact good_nil G ok okp A atStart

/-- **clear** -/
theorem good_clear (A atStart : Bool) (v : Text) : GoodPath G A atStart (clearView v) := by
  unfold clearView
  split
  · exact good_root G ok okp A atStart
  · exact good_nil G ok okp A atStart

theorem segOK_joinSlash (N : List Text) (hne : N ≠ []) (h : ∀ x ∈ N, Matches G.segment x) :
    SegOK G (joinSlash N) := by
  intro x hx
  rw [splitSlash_joinSlash N hne (fun s hs => seg_noSlash G ok okp (h s hs))] at hx
  exact h x hx

theorem segOK_dotSlash {X : Text} (h : SegOK G X) : SegOK G ([cDot, cSlash] ++ X) := by
  intro x hx
  have e : [cDot, cSlash] ++ X = [cDot] ++ cSlash :: X := by simp
  rw [e, splitSlash_mid] at hx
  rcases List.mem_append.mp hx with h1 | h1
  · have : splitSlash [cDot] = [[cDot]] := by decide
    rw [this] at h1
    simp at h1; subst h1; exact seg_dot G ok okp
  · exact h x h1

theorem segs_subset_splitSlash (v : Text) : ∀ x ∈ segs v, x ∈ splitSlash v := by
  intro x hx
  unfold segs at hx
  cases v with
  | nil => simp [stripRoot] at hx
  | cons c r =>
    simp only [stripRoot] at hx
    by_cases hc : (c == cSlash) = true
    · simp only [hc, if_true] at hx
      have hc' : c = cSlash := by simpa using hc
      subst hc'
      simp only [splitSlash, beq_self_eq_true, if_true]
      cases r with
      | nil => simp at hx
      | cons d r' => exact List.mem_cons_of_mem _ hx
    · have hc' : (c == cSlash) = false := by simpa using hc
      simpa [hc'] using hx

theorem fsc_joinSlash_cons (first : Text) (rest : List Text) (hns : cSlash ∉ first) :
    fsc (joinSlash (first :: rest)) = fsc first := by
  cases rest with
  | nil => rfl
  | cons t ts => simp only [joinSlash]; exact fsc_snoc_slash first _

theorem startsSS_of_head_ne {c : Nat} {r : Text} (h : c ≠ cSlash) : startsSS (c :: r) = false := by
  cases r with
  | nil => rfl
  | cons b r' => simp [startsSS, h]

/-- **normalize** -/
theorem good_norm (A atStart : Bool) (hctx : atStart = true → A = false) (v : Text)
    (hg : GoodPath G A atStart v) : GoodPath G A atStart (normView A atStart v) := by
  have hpt := pathText_normView A atStart v hg.pt
  unfold normView at hpt ⊢
  simp only [normalized_segments_eq v hg.pt, joinSegs_eq, fsc_eq] at hpt ⊢
  have hN : ∀ x ∈ nsegs v, Matches G.segment x := fun x hx =>
    hg.segs x (segs_subset_splitSlash G ok okp v x (nsegsOf_subset _ _ x hx))
  have hrel : Path.is_relative v = !isAbs v := by unfold Path.is_relative; rw [is_absolute_eq]
  rw [hrel] at hpt ⊢
  cases hNv : nsegs v with
  | nil =>
    simp only [joinSlash, List.append_nil]
    split
    · exact good_root G ok okp A atStart
    · exact good_nil G ok okp A atStart
  | cons first rest =>
    rw [hNv] at hpt hN
    have hfs : cSlash ∉ first := seg_noSlash G ok okp (hN first List.mem_cons_self)
    have hJ : SegOK G (joinSlash (first :: rest)) := segOK_joinSlash G ok okp _ (by simp) hN
    have hvne : v ≠ [] := by
      intro e; subst e
      have : nsegs ([] : Text) = [] := by decide
      rw [this] at hNv; cases hNv
    simp only [] at hpt ⊢
    generalize hsh : (first.isEmpty && (!isAbs v || !A || (first :: rest).length == 1) ||
      !isAbs v && atStart && fsc first) = sh at hpt ⊢
    by_cases habs : isAbs v = true
    · -- absolute
      simp only [habs, if_true, Bool.not_true, Bool.false_or, Bool.false_and, Bool.or_false] at hsh hpt ⊢
      cases sh with
      | true =>
        simp only [if_true] at hpt ⊢
        refine ⟨?_, hpt, fun _ => .inr rfl, fun _ => ?_, fun _ => ?_⟩
        · have := segOK_root G ok okp (segOK_dotSlash G ok okp hJ)
          simpa using this
        · simp [startsSS, cDot, cSlash]
        · simp [fsc, cSlash, cColon]
      | false =>
        simp only [Bool.false_eq_true, if_false, List.nil_append] at hpt ⊢
        refine ⟨?_, hpt, fun _ => .inr rfl, fun hA => ?_, fun _ => ?_⟩
        · have := segOK_root G ok okp hJ
          simpa using this
        · -- no shield without authority means the first segment is not empty
          rw [hA] at hsh
          simp only [Bool.not_false, Bool.true_or, Bool.and_true] at hsh
          cases first with
          | nil => simp at hsh
          | cons c r =>
            have hc : c ≠ cSlash := fun e => hfs (e ▸ List.mem_cons_self)
            cases rest with
            | nil => simp [joinSlash, startsSS, hc]
            | cons t ts => simp [joinSlash, startsSS, hc]
        · simp [fsc, cSlash, cColon]
    · have habs' : isAbs v = false := by simpa using habs
      have hA : A = false := by
        cases A with
        | false => rfl
        | true =>
          rcases hg.auth rfl with e | e
          · exact absurd e hvne
          · rw [habs'] at e; cases e
      subst hA
      simp only [habs', Bool.false_eq_true, if_false, Bool.not_false, Bool.true_or, Bool.and_true, Bool.true_and,
        List.nil_append] at hsh hpt ⊢
      cases sh with
      | true =>
        simp only [if_true] at hpt ⊢
        refine ⟨segOK_dotSlash G ok okp hJ, hpt, (fun h => by cases h), fun _ => ?_, fun _ => ?_⟩
        · simp [startsSS, cDot, cSlash]
        · simp [fsc, cDot, cSlash, cColon]
      | false =>
        simp only [Bool.false_eq_true, if_false, List.nil_append] at hpt ⊢
        simp only [Bool.or_eq_false_iff] at hsh
        refine ⟨hJ, hpt, (fun h => by cases h), fun _ => ?_, fun hst => ?_⟩
        · cases first with
          | nil => simp at hsh
          | cons c r =>
            have hc : c ≠ cSlash := fun e => hfs (e ▸ List.mem_cons_self)
            cases rest with
            | nil => simp only [joinSlash]; exact startsSS_of_head_ne G ok okp hc
            | cons t ts => simp only [joinSlash, List.cons_append]; exact startsSS_of_head_ne G ok okp hc
        · rw [fsc_joinSlash_cons G ok okp first rest hfs]
          have := hsh.2
          rw [hst] at this
          simpa using this

/-- **symbolic_push** (inner) -/
theorem good_symPush (A atStart : Bool) (hctx : atStart = true → A = false) (v s : Text)
    (hg : GoodPath G A atStart v) (hs : Matches G.segment s) :
    GoodPath G A atStart (symPushView A A atStart v s).1 := by
  unfold symPushView
  split
  · exact hg
  · split
    · refine good_pop G ok okp A atStart hctx _ ?_
      split
      · exact good_clear G ok okp A atStart v
      · exact hg
    · split
      · exact good_push G ok okp A atStart hctx v s hg hs
      · exact hg

theorem good_symAppendGo (A atStart : Bool) (hctx : atStart = true → A = false) (ss : List Text) :
    ∀ (v : Text) (o : Bool), GoodPath G A atStart v → (∀ s ∈ ss, Matches G.segment s) →
      GoodPath G A atStart (symAppendGoView A A atStart v o ss).1 := by
  induction ss with
  | nil => intro v o hg _; exact hg
  | cons s ss ih =>
    intro v o hg hall
    simp only [symAppendGoView]
    exact ih _ _ (good_symPush G ok okp A atStart hctx v s hg (hall s List.mem_cons_self))
      (fun t ht => hall t (List.mem_cons_of_mem _ ht))

theorem good_close (A atStart : Bool) (hctx : atStart = true → A = false) (r : Text × Bool)
    (hg : GoodPath G A atStart r.1) : GoodPath G A atStart (closeView A A atStart r) := by
  unfold closeView
  split
  · exact good_push G ok okp A atStart hctx r.1 [] hg okp.seg_nil
  · exact hg

/-- **symbolic_append** -/
theorem good_symAppend (A atStart : Bool) (hctx : atStart = true → A = false) (v : Text) (ss : List Text)
    (hg : GoodPath G A atStart v) (hall : ∀ s ∈ ss, Matches G.segment s) :
    GoodPath G A atStart (symAppendView A A atStart v ss) :=
  good_close G ok okp A atStart hctx _ (good_symAppendGo G ok okp A atStart hctx ss v false hg hall)

/-- **symbolic_push** (public wrapper) -/
theorem good_symPushPub (A atStart : Bool) (hctx : atStart = true → A = false) (v s : Text)
    (hg : GoodPath G A atStart v) (hs : Matches G.segment s) :
    GoodPath G A atStart (symPushPubView A A atStart v s) :=
  good_close G ok okp A atStart hctx _ (good_symPush G ok okp A atStart hctx v s hg hs)

end

end IrefVerif.Lemmas
