import IrefVerif.Spec.Regex

/-!
# A decidable, sound language-inclusion test for expressions of the same shape

`sub r r'` holds when `r'` is `r` with some classes enlarged and some alternatives added.
That is exactly how RFC 3987 extends RFC 3986 (`iunreserved = unreserved / ucschar`,
`iquery = … / iprivate`).  `sub_sound : sub r r' = true → Matches r w → Matches r' w`.
-/

namespace IrefVerif.RE

/-- every range of `rs` lies inside some range of `rs'` -/
def rangesSub (rs rs' : Ranges) : Bool :=
  rs.all fun p => rs'.any fun q => Nat.ble q.1 p.1 && Nat.ble p.2 q.2

theorem inCls_of_rangesSub {rs rs' : Ranges} (h : rangesSub rs rs' = true) {c : Nat}
    (hc : inCls rs c = true) : inCls rs' c = true := by
  induction rs with
  | nil => simp [inCls] at hc
  | cons p rs ih =>
    simp only [rangesSub, List.all_cons, Bool.and_eq_true] at h
    simp only [inCls, Bool.or_eq_true, Bool.and_eq_true, Nat.ble_eq] at hc
    rcases hc with ⟨h1, h2⟩ | hc
    · obtain ⟨q, hq, hq2⟩ := List.any_eq_true.mp h.1
      simp only [Bool.and_eq_true, Nat.ble_eq] at hq2
      clear ih h
      induction rs' with
      | nil => cases hq
      | cons q' rs' ih' =>
        simp only [inCls, Bool.or_eq_true, Bool.and_eq_true, Nat.ble_eq]
        rcases List.mem_cons.mp hq with rfl | hq
        · left; omega
        · right; exact ih' hq
    · exact ih h.2 hc

/-- `r ≤ r'` structurally; `fuel` bounds the recursion depth (structural recursion on it, so that
the kernel can evaluate the test) -/
def subF : Nat → RE → RE → Bool
  | 0, _, _ => false
  | _ + 1, empty, _ => true
  | _ + 1, eps, eps => true
  | n + 1, eps, alt a b => subF n eps a || subF n eps b
  | _ + 1, eps, star _ => true
  | _ + 1, cls rs, cls rs' => rangesSub rs rs'
  | n + 1, cls rs, alt a b => subF n (cls rs) a || subF n (cls rs) b
  | n + 1, cls rs, star x => subF n (cls rs) x
  | n + 1, seq a b, seq a' b' => subF n a a' && subF n b b'
  | n + 1, seq a b, alt x y => subF n (seq a b) x || subF n (seq a b) y
  | n + 1, seq a b, star x => (subF n a (star x) && subF n b (star x)) || subF n (seq a b) x
  | n + 1, alt a b, r' => subF n a r' && subF n b r'
  | n + 1, star a, star a' => subF n a a' || subF n a (star a')
  | n + 1, star a, alt x y => subF n (star a) x || subF n (star a) y
  | _ + 1, _, _ => false

def sub (r r' : RE) : Bool := subF 400 r r'

theorem star_mono {a a' : RE} (h : ∀ {w}, Matches a w → Matches a' w) {w : List Nat}
    (hm : Matches (star a) w) : Matches (star a') w := by
  generalize hr : star a = r at hm
  induction hm with
  | eps => cases hr
  | cls _ => cases hr
  | seq _ _ => cases hr
  | altL _ => cases hr
  | altR _ => cases hr
  | starNil => exact .starNil
  | starCons h1 _ _ ih2 =>
    cases hr
    exact .starCons (h h1) (ih2 rfl)

theorem star_append {x : RE} {u v : List Nat} (hu : Matches (star x) u) (hv : Matches (star x) v) :
    Matches (star x) (u ++ v) := by
  generalize hr : star x = r at hu
  induction hu with
  | eps => cases hr
  | cls _ => cases hr
  | seq _ _ => cases hr
  | altL _ => cases hr
  | altR _ => cases hr
  | starNil => cases hr; simpa using hv
  | starCons h1 _ _ ih2 =>
    cases hr
    rw [List.append_assoc]
    exact .starCons h1 (ih2 rfl)

theorem star_star {a x : RE} (h : ∀ {w}, Matches a w → Matches (star x) w) {w : List Nat}
    (hm : Matches (star a) w) : Matches (star x) w := by
  generalize hr : star a = r at hm
  induction hm with
  | eps => cases hr
  | cls _ => cases hr
  | seq _ _ => cases hr
  | altL _ => cases hr
  | altR _ => cases hr
  | starNil => exact .starNil
  | starCons h1 _ _ ih2 =>
    cases hr
    exact star_append (h h1) (ih2 rfl)

theorem star_single {x : RE} {w : List Nat} (h : Matches x w) : Matches (star x) w := by
  have h2 : Matches (star x) (w ++ []) := .starCons h .starNil
  simpa using h2

theorem subF_sound {n : Nat} {r r' : RE} (h : subF n r r' = true) : ∀ {w}, Matches r w → Matches r' w := by
  fun_induction subF n r r' <;> intro w hm
  case case1 => cases h
  case case2 => exact absurd hm matches_empty
  case case3 => exact hm
  case case4 ih2 ih1 =>
    rcases Bool.or_eq_true _ _ |>.mp h with h | h
    · exact .altL (ih2 h hm)
    · exact .altR (ih1 h hm)
  case case5 => rw [matches_eps.mp hm]; exact .starNil
  case case6 =>
    obtain ⟨c, rfl, hc⟩ := matches_cls.mp hm
    exact .cls (inCls_of_rangesSub h hc)
  case case7 ih2 ih1 =>
    rcases Bool.or_eq_true _ _ |>.mp h with h | h
    · exact .altL (ih2 h hm)
    · exact .altR (ih1 h hm)
  case case8 ih1 =>
    have := ih1 h hm
    have h2 : Matches (star _) (w ++ []) := .starCons this .starNil
    simpa using h2
  case case9 ih2 ih1 =>
    obtain ⟨ha, hb⟩ := Bool.and_eq_true _ _ |>.mp h
    obtain ⟨u, v, rfl, hu, hv⟩ := matches_seq.mp hm
    exact .seq (ih2 ha hu) (ih1 hb hv)
  case case10 ih2 ih1 =>
    rcases Bool.or_eq_true _ _ |>.mp h with h | h
    · exact .altL (ih2 h hm)
    · exact .altR (ih1 h hm)
  case case11 ih3 ih2 ih1 =>
    rcases Bool.or_eq_true _ _ |>.mp h with h | h
    · obtain ⟨ha, hb⟩ := Bool.and_eq_true _ _ |>.mp h
      obtain ⟨u, v, rfl, hu, hv⟩ := matches_seq.mp hm
      exact star_append (ih3 ha hu) (ih2 hb hv)
    · exact star_single (ih1 h hm)
  case case12 ih2 ih1 =>
    obtain ⟨ha, hb⟩ := Bool.and_eq_true _ _ |>.mp h
    rcases matches_alt.mp hm with hm | hm
    · exact ih2 ha hm
    · exact ih1 hb hm
  case case13 ih2 ih1 =>
    rcases Bool.or_eq_true _ _ |>.mp h with h | h
    · exact star_mono (fun hx => ih2 h hx) hm
    · exact star_star (fun hx => ih1 h hx) hm
  case case14 ih2 ih1 =>
    rcases Bool.or_eq_true _ _ |>.mp h with h | h
    · exact .altL (ih2 h hm)
    · exact .altR (ih1 h hm)
  case case15 => cases h

theorem sub_sound {r r' : RE} (h : sub r r' = true) {w : List Nat} (hm : Matches r w) : Matches r' w :=
  subF_sound h hm

/-! ## an upper bound on the symbols of a language -/

def maxR : Ranges → Nat
  | [] => 0
  | p :: rs => max p.2 (maxR rs)

def maxSym : RE → Nat
  | cls rs => maxR rs
  | seq a b => max (maxSym a) (maxSym b)
  | alt a b => max (maxSym a) (maxSym b)
  | star a => maxSym a
  | _ => 0

theorem inCls_le_maxR {rs : Ranges} {c : Nat} (h : inCls rs c = true) : c ≤ maxR rs := by
  induction rs with
  | nil => simp [inCls] at h
  | cons p rs ih =>
    simp only [inCls, Bool.or_eq_true, Bool.and_eq_true, Nat.ble_eq] at h
    simp only [maxR]
    rcases h with ⟨_, h2⟩ | h
    · omega
    · have := ih h; omega

theorem inAlphabet_le_maxSym {r : RE} {c : Nat} (h : inAlphabet r c = true) : c ≤ maxSym r := by
  induction r with
  | empty => simp [inAlphabet] at h
  | eps => simp [inAlphabet] at h
  | cls rs => exact inCls_le_maxR h
  | seq a b iha ihb =>
    simp only [inAlphabet, Bool.or_eq_true] at h
    simp only [maxSym]
    rcases h with h | h
    · have := iha h; omega
    · have := ihb h; omega
  | alt a b iha ihb =>
    simp only [inAlphabet, Bool.or_eq_true] at h
    simp only [maxSym]
    rcases h with h | h
    · have := iha h; omega
    · have := ihb h; omega
  | star a ih => exact ih h

/-- every symbol of a matched word is at most `maxSym r` -/
theorem matches_le_maxSym {r : RE} {w : List Nat} (h : Matches r w) : ∀ c ∈ w, c ≤ maxSym r :=
  fun c hc => inAlphabet_le_maxSym (matches_alphabet h c hc)

end IrefVerif.RE
