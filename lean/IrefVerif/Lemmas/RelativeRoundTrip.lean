import IrefVerif.Lemmas.ResolveTotal
import IrefVerif.Lemmas.ResolveRel
import IrefVerif.Lemmas.ResolveRelNoAuth

/-!
# Where relativisation does round-trip

Proved here on the model of the repaired `relative_to`: same scheme, equal authorities, absolute
paths (the base's may be empty), a target that is not the root, the "same document" shortcut not
taken, and — the part of F15 that `relative_to` steers around — a remainder that does not begin
with an empty segment unless a common directory precedes it.  Then `a.relative_to(b)` is `../`…
for what is left of `b`'s directory followed by what is left of `a` (its last segment always), and
resolving it against `b` gives a URI/IRI equal to `a`.
-/

set_option linter.unusedSimpArgs false

namespace IrefVerif.Lemmas
open IrefVerif IrefVerif.RE IrefVerif.Spec IrefVerif.Model IrefVerif.Oracle IrefVerif.Findings IrefVerif.Props

/-! ## the common prefix -/

theorem dropCommon_spec : ∀ (A B : List Text), (∀ s ∈ A, wellEscaped s = true) → (∀ s ∈ B, wellEscaped s = true) →
    ∃ ca cb, A = ca ++ (Ref.dropCommon A B).1 ∧ B = cb ++ (Ref.dropCommon A B).2.1 ∧
      ca.map pctDecode = cb.map pctDecode ∧ ((Ref.dropCommon A B).2.2 = true ↔ cb ≠ []) ∧
      (A ≠ [] → (Ref.dropCommon A B).1 ≠ []) := by
  intro A
  induction A with
  | nil => intro B _ _; cases B <;> exact ⟨[], [], rfl, rfl, rfl, by simp [Ref.dropCommon], fun h => absurd rfl h⟩
  | cons a as ih =>
    intro B hA hB
    cases as with
    | nil =>
      cases B <;> exact ⟨[], [], rfl, rfl, rfl, by simp [Ref.dropCommon], fun _ => by simp [Ref.dropCommon]⟩
    | cons a2 as' =>
      cases B with
      | nil => exact ⟨[], [], rfl, rfl, rfl, by simp [Ref.dropCommon], fun _ => by simp [Ref.dropCommon]⟩
      | cons b bs =>
        simp only [Ref.dropCommon, pctEq_eq a b (hA a List.mem_cons_self) (hB b List.mem_cons_self)]
        by_cases hd : pctDecode a = pctDecode b
        · have : (some (pctDecode a == pctDecode b) == some true) = true := by simp [hd]
          simp only [this, if_true]
          obtain ⟨ca, cb, h1, h2, h3, _, h5⟩ := ih bs (fun s hs => hA s (List.mem_cons_of_mem _ hs))
            (fun s hs => hB s (List.mem_cons_of_mem _ hs))
          exact ⟨a :: ca, b :: cb, by rw [List.cons_append, ← h1], by rw [List.cons_append, ← h2], by simp [hd, h3],
            by simp, fun _ => h5 (by simp)⟩
        · have : (some (pctDecode a == pctDecode b) == some true) = false := by simp [hd]
          simp only [this, Bool.false_eq_true, if_false]
          exact ⟨[], [], rfl, rfl, rfl, by simp, fun _ => by simp⟩

/-! ## what `pushAll` writes onto an empty relative reference -/

def pathOnly (p : Text) : Spec.Parts := { scheme := none, authority := none, path := p, query := none, fragment := none }

theorem recompose_pathOnly (p : Text) : recompose (pathOnly p) = p := by
  rw [recompose_eq]; simp [pathOnly, schemeText, authText, queryText, fragText]

theorem fsc_noslash_append (s : Text) (t : Text) : fsc (s ++ cSlash :: t) = fsc s := fsc_snoc_slash s t

theorem renderRel_props (L : List Text) (hns : ∀ s ∈ L, cSlash ∉ s ∧ PathText s) :
    PathText (renderRel L) ∧ fsc (renderRel L) = false ∧ startsSS (renderRel L) = false ∧
      isAbs (renderRel L) = false := by
  cases L with
  | nil => exact ⟨(fun c hc => by cases hc), rfl, rfl, rfl⟩
  | cons s rest =>
    have hs := hns s List.mem_cons_self
    have hpj : PathText (joinSlash (s :: rest)) := by
      intro c hc
      have hmem : ∀ (M : List Text), (∀ x ∈ M, PathText x) → ∀ c ∈ joinSlash M, c ≠ cQuest ∧ c ≠ cHash := by
        intro M
        induction M with
        | nil => intro _ c hc; cases hc
        | cons x xs ih =>
          intro hM c hc
          cases xs with
          | nil => exact hM x List.mem_cons_self c hc
          | cons y ys =>
            simp only [joinSlash] at hc
            rcases List.mem_append.mp hc with h | h
            · exact hM x List.mem_cons_self c h
            · rcases List.mem_cons.mp h with h | h
              · subst h; decide
              · exact ih (fun z hz => hM z (List.mem_cons_of_mem _ hz)) c h
      exact hmem _ (fun x hx => (hns x hx).2) c hc
    unfold renderRel
    by_cases hsh : (fsc s || s.isEmpty) = true
    · simp only [hsh, if_true]
      refine ⟨pathText_append pathText_lit_dotslash hpj, ?_, ?_, ?_⟩ <;> simp [fsc, startsSS, isAbs, cDot, cSlash, cColon]
    · have hsh' : (fsc s || s.isEmpty) = false := by simpa using hsh
      simp only [hsh', Bool.false_eq_true, if_false, List.nil_append]
      simp only [Bool.or_eq_false_iff] at hsh'
      cases s with
      | nil => simp at hsh'
      | cons c r =>
        have hc : c ≠ cSlash := fun e => hs.1 (e ▸ List.mem_cons_self)
        refine ⟨hpj, ?_, ?_, ?_⟩
        · cases rest with
          | nil => exact hsh'.1
          | cons t ts => simp only [joinSlash]; rw [fsc_snoc_slash]; exact hsh'.1
        · cases rest with
          | nil => exact startsSS_noslash hs.1
          | cons t ts =>
            simp only [joinSlash, List.cons_append]
            cases r <;> simp [startsSS, hc]
        · cases rest <;> simp [joinSlash, isAbs, hc]

theorem wf_pathOnly (p : Text) (hpt : PathText p) (hf : fsc p = false) (hss : startsSS p = false) : WF (pathOnly p) :=
  { scheme := fun s h => by simp [pathOnly] at h
    authority := fun a h => by simp [pathOnly] at h
    path := fun c hc => by
      have := hpt c hc
      simp [nQH, this.1, this.2]
    query := fun q h => by simp [pathOnly] at h
    abempty := fun h => by simp [pathOnly] at h
    noSS := fun _ => hss
    noColon := fun _ _ => hf }

/-- a relative reference: a path, optionally a query and a fragment -/
def pathQF (p : Text) (q f : Option Text) : Spec.Parts :=
  { scheme := none, authority := none, path := p, query := q, fragment := f }

theorem wf_pathQF (p : Text) (q f : Option Text) (hpt : PathText p) (hf : fsc p = false) (hss : startsSS p = false)
    (hq : ∀ x, q = some x → ∀ c ∈ x, nH c = true) : WF (pathQF p q f) :=
  { scheme := fun s h => by simp [pathQF] at h
    authority := fun a h => by simp [pathQF] at h
    path := fun c hc => by
      have := hpt c hc
      simp [nQH, this.1, this.2]
    query := hq
    abempty := fun h => by simp [pathQF] at h
    noSS := fun _ => hss
    noColon := fun _ _ => hf }

theorem joinSlash_snoc (L : List Text) (hne : L ≠ []) (s : Text) :
    joinSlash (L ++ [s]) = joinSlash L ++ cSlash :: s := by
  induction L with
  | nil => exact absurd rfl hne
  | cons a rest ih =>
    cases rest with
    | nil => simp [joinSlash]
    | cons b bs =>
      have := ih (by simp)
      simp only [List.cons_append, joinSlash] at this ⊢
      rw [this]
      simp [List.append_assoc]

/-- one `push` through a fresh handle on a path-only relative reference -/
theorem push_renderRel (L : List Text) (s : Text) (hns : ∀ x ∈ L, cSlash ∉ x ∧ PathText x) :
    ∃ h', (Ref.path_mut (renderRel L)).push s = some h' ∧ h'.buffer = renderRel (L ++ [s]) := by
  obtain ⟨hpt, hf, hss, hab⟩ := renderRel_props L hns
  have wf := wf_pathOnly _ hpt hf hss
  have i := path_handle_of_wf _ wf
  have f := follows_authority_recompose _ wf
  rw [recompose_pathOnly] at i f
  simp only [pathOnly, schemeText, authText, queryText, fragText, List.append_nil] at i
  have han : (Ref.path_mut (renderRel L)).anchored = false := by
    have : (Ref.path_mut (renderRel L)).anchored = (Ref.path_mut (renderRel L)).follows_authority := by
      simp [Ref.path_mut, PathMut.new]
    rw [this, f]; rfl
  have hfa : (Ref.path_mut (renderRel L)).follows_authority = false := by rw [f]; rfl
  obtain ⟨h', e, i', _, _⟩ := push_view _ _ _ _ i s
  rw [han, hfa] at i'
  refine ⟨h', e, ?_⟩
  rw [i'.data]
  simp only [List.nil_append, List.append_nil, List.length_nil, beq_self_eq_true]
  unfold pushView
  simp only [Bool.false_and, Bool.false_eq_true, if_false, Bool.true_and]
  cases L with
  | nil =>
    simp only [renderRel, List.nil_append]
    have : Path.is_empty ([] : Text) = true := rfl
    simp only [this, if_true, joinSlash]
    split <;> rfl
  | cons a rest =>
    have hne : Path.is_empty (renderRel (a :: rest)) = false := by
      unfold renderRel
      simp only []
      split
      · simp [Path.is_empty, cDot, cSlash]
      · rename_i hsh
        have hsh' : (fsc a || a.isEmpty) = false := by simpa using hsh
        simp only [Bool.or_eq_false_iff] at hsh'
        cases a with
        | nil => simp at hsh'
        | cons c r =>
          have hc : c ≠ cSlash := fun e => (hns (c :: r) List.mem_cons_self).1 (e ▸ List.mem_cons_self)
          cases rest <;> simp [joinSlash, Path.is_empty, hc]
    simp only [hne, Bool.false_eq_true, if_false]
    unfold renderRel
    simp only [List.cons_append]
    rw [← List.cons_append, joinSlash_snoc _ (by simp)]
    simp [List.append_assoc]

theorem pushAll_renderRel (L2 : List Text) : ∀ (L1 : List Text), (∀ x ∈ L1 ++ L2, cSlash ∉ x ∧ PathText x) →
    Ref.pushAll (renderRel L1) L2 = some (renderRel (L1 ++ L2)) := by
  induction L2 with
  | nil => intro L1 _; simp [Ref.pushAll]
  | cons s rest ih =>
    intro L1 hns
    obtain ⟨h', e, hb⟩ := push_renderRel L1 s (fun x hx => hns x (List.mem_append_left _ hx))
    simp only [Ref.pushAll, Option.bind_eq_bind, e, Option.bind_some, hb]
    have := ih (L1 ++ [s]) (by simpa [List.append_assoc] using hns)
    simpa [List.append_assoc] using this

/-! ## the walk over `./`? `../`… remainder -/

theorem walk_cons (e : List Text) (s : Text) (L : List Text) :
    walk e (s :: L) = walk (listSymPush true e s).1 L := rfl

theorem walk_append (e : List Text) (L1 L2 : List Text) : walk e (L1 ++ L2) = walk (walk e L1) L2 := by
  unfold walk; rw [List.foldl_append]

theorem walk_dot (e : List Text) (L : List Text) : walk e (segDot :: L) = walk e L := by
  rw [walk_cons]; simp [listSymPush]

def Plain (ss : List Text) : Prop := ∀ s ∈ ss, s ≠ [] ∧ s ≠ segDot ∧ s ≠ segDotDot

theorem walk_plain (ss : List Text) : ∀ e, Plain ss → walk e ss = e ++ ss := by
  induction ss with
  | nil => intro e _; simp [walk]
  | cons s ss ih =>
    intro e hp
    obtain ⟨h1, h2, h3⟩ := hp s List.mem_cons_self
    rw [walk_cons]
    have : (listSymPush true e s).1 = e ++ [s] := by
      unfold listSymPush
      have e1 : (s == segDot) = false := by simpa using h2
      have e2 : (s == segDotDot) = false := by simpa using h3
      have e3 : s.isEmpty = false := by cases s <;> simp_all
      simp [e1, e2, e3]
    rw [this, ih _ (fun x hx => hp x (List.mem_cons_of_mem _ hx))]
    simp

theorem walk_ups_n : ∀ (n : Nat) (cb bs : List Text), bs.length = n → DotFree (cb ++ bs) →
    walk (cb ++ bs) (List.replicate n segDotDot) = cb := by
  intro n
  induction n with
  | zero =>
    intro cb bs hl _
    have : bs = [] := List.eq_nil_of_length_eq_zero hl
    subst this; simp [walk]
  | succ n ih =>
    intro cb bs hl df
    have hne : bs ≠ [] := by intro e; subst e; simp at hl
    rw [List.replicate_succ, walk_cons]
    have hpop : (listSymPush true (cb ++ bs) segDotDot).1 = cb ++ bs.dropLast := by
      unfold listSymPush
      simp only [show (segDotDot == segDot) = false by decide, Bool.false_eq_true, if_false,
        show (segDotDot == segDotDot) = true by decide, if_true]
      rw [ite_lone_dot df, listPop_dotFree df, List.dropLast_append_of_ne_nil hne]
    rw [hpop]
    apply ih cb bs.dropLast (by simp [hl])
    refine ⟨fun h => df.1 ?_, fun h => df.2 ?_⟩
    · rcases List.mem_append.mp h with h | h
      · exact List.mem_append_left _ h
      · exact List.mem_append_right _ ((List.dropLast_sublist bs).subset h)
    · rcases List.mem_append.mp h with h | h
      · exact List.mem_append_left _ h
      · exact List.mem_append_right _ ((List.dropLast_sublist bs).subset h)

theorem map_const_replicate (bs : List Text) (x : Text) : (bs.map fun _ => x) = List.replicate bs.length x := by
  induction bs with
  | nil => rfl
  | cons a l ih => simp [List.replicate_succ, ih]

theorem walk_ups (bs cb : List Text) (df : DotFree (cb ++ bs)) :
    walk (cb ++ bs) (bs.map fun _ => segDotDot) = cb := by
  rw [map_const_replicate]; exact walk_ups_n bs.length cb bs rfl df

theorem noSkip_nonempty (abs : Bool) (L : List Text) : ∀ e, (∀ s ∈ L, s ≠ []) → symSkipsGo abs e L = false := by
  induction L with
  | nil => intro e _; rfl
  | cons s L ih =>
    intro e h
    simp only [symSkipsGo]
    have : s.isEmpty = false := by
      have := h s List.mem_cons_self
      cases s <;> simp_all
    simp only [this, Bool.and_false, Bool.false_and, Bool.false_eq_true, if_false]
    exact ih _ (fun x hx => h x (List.mem_cons_of_mem _ hx))

theorem lastDot_plain (L ss : List Text) (hne : ss ≠ []) (hp : Plain ss) : lastDot (L ++ ss) = false := by
  unfold lastDot
  rw [List.getLast?_append]
  cases hl : ss.getLast? with
  | none => exact absurd (List.getLast?_eq_none_iff.mp hl) hne
  | some s =>
    obtain ⟨_, h2, h3⟩ := hp s (List.mem_of_getLast? hl)
    simp [h2, h3]

/-- no dot segments (empty segments allowed) -/
def NoDots (ss : List Text) : Prop := ∀ s ∈ ss, s ≠ segDot ∧ s ≠ segDotDot

theorem walk_nodots (ss : List Text) : ∀ e, NoDots ss → (e ≠ [] ∨ ss.head? ≠ some []) →
    walk e ss = e ++ ss ∧ symSkipsGo true e ss = false := by
  induction ss with
  | nil => intro e _ _; simp [walk, symSkipsGo]
  | cons s ss ih =>
    intro e hp hh
    obtain ⟨h2, h3⟩ := hp s List.mem_cons_self
    have hns : (s.isEmpty && e.isEmpty) = false := by
      rcases hh with h | h
      · have : e.isEmpty = false := by cases e <;> simp_all
        simp [this]
      · have : s ≠ [] := by simpa using h
        have : s.isEmpty = false := by cases s <;> simp_all
        simp [this]
    have e1 : (s == segDot) = false := by simpa using h2
    have e2 : (s == segDotDot) = false := by simpa using h3
    have hpush : (listSymPush true e s).1 = e ++ [s] := by
      unfold listSymPush
      simp [e1, e2, hns]
    obtain ⟨ihw, ihs⟩ := ih (e ++ [s]) (fun x hx => hp x (List.mem_cons_of_mem _ hx)) (.inl (by simp))
    constructor
    · rw [walk_cons, hpush, ihw]; simp
    · simp only [symSkipsGo]
      have : (s != segDot && s != segDotDot && s.isEmpty && e.isEmpty) = false := by
        rw [Bool.and_assoc]
        simp [hns]
      rw [this]
      simp only [Bool.false_eq_true, if_false, hpush]
      exact ihs

theorem symSkipsGo_append (L1 : List Text) : ∀ (e : List Text) (L2 : List Text),
    symSkipsGo true e L1 = false → symSkipsGo true (walk e L1) L2 = false →
    symSkipsGo true e (L1 ++ L2) = false := by
  induction L1 with
  | nil => intro e L2 _ h; simpa [walk] using h
  | cons s L1 ih =>
    intro e L2 h1 h2
    simp only [List.cons_append, symSkipsGo] at h1 ⊢
    by_cases hc : (s != segDot && s != segDotDot && s.isEmpty && e.isEmpty) = true
    · rw [hc] at h1; simp at h1
    · have hc' : (s != segDot && s != segDotDot && s.isEmpty && e.isEmpty) = false := by simpa using hc
      rw [hc'] at h1 ⊢
      simp only [Bool.false_eq_true, if_false] at h1 ⊢
      exact ih _ L2 h1 (by rw [walk_cons] at h2; exact h2)

theorem lastDot_nodots (L ss : List Text) (hne : ss ≠ []) (hp : NoDots ss) : lastDot (L ++ ss) = false := by
  unfold lastDot
  rw [List.getLast?_append]
  cases hl : ss.getLast? with
  | none => exact absurd (List.getLast?_eq_none_iff.mp hl) hne
  | some s =>
    obtain ⟨h2, h3⟩ := hp s (List.mem_of_getLast? hl)
    simp [h2, h3]

/-! ## the round trip -/

section
variable (G : Grammar) (ok : Grammar.Ok G) (okp : Grammar.OkPath G)
include ok okp

omit ok okp in
theorem head_not_dotdot {L : List Text} (df : DotFree L) : (L.head? == some [cDot, cDot]) = false := by
  cases L with
  | nil => rfl
  | cons x xs =>
    have : x ≠ segDotDot := fun e => df.2 (e ▸ List.mem_cons_self)
    simpa [segDotDot] using this

omit ok okp in
theorem renderRel_ne_nil (L : List Text) (hne : L ≠ []) (hns : ∀ s ∈ L, cSlash ∉ s) : renderRel L ≠ [] := by
  cases hLc : L with
  | nil => exact absurd hLc hne
  | cons x xs =>
    unfold renderRel
    simp only []
    split
    · simp
    · rename_i hsh
      have hsh' : (fsc x || x.isEmpty) = false := by simpa using hsh
      simp only [Bool.or_eq_false_iff] at hsh'
      cases x with
      | nil => simp at hsh'
      | cons c r => cases xs <;> simp [joinSlash]

omit ok okp in
/-- `clear` through a fresh handle on a path-only relative reference -/
theorem clear_renderRel (L : List Text) (hns : ∀ x ∈ L, cSlash ∉ x ∧ PathText x) :
    ∃ h', (Ref.path_mut (renderRel L)).clear = some h' ∧ h'.buffer = [] := by
  obtain ⟨hpt, hf, hss, hab⟩ := renderRel_props L hns
  have wf := wf_pathOnly _ hpt hf hss
  have i := path_handle_of_wf _ wf
  rw [recompose_pathOnly] at i
  simp only [pathOnly, schemeText, authText, queryText, fragText, List.append_nil] at i
  obtain ⟨h', e, i', _, _⟩ := clear_view _ _ _ _ i
  refine ⟨h', e, ?_⟩
  rw [i'.data]
  simp [clearView, hab]

/-- the path part of `relative_to` on two paths that count as absolute both or neither, neither
normalised list beginning with `..`: the relative path, or nothing when the shortcut fires -/
theorem relative_body_explicit_core (we : Grammar.OkWE G) (a b : Text)
    (ha : Matches G.reference a) (hb : Matches G.reference b)
    (habs : (Path.is_absolute (split a).path !=
        (Path.is_absolute (split b).path || ((split b).authority.isSome && Path.is_empty (split b).path))) = false)
    (hhA : ((nsegs (split a).path).head? == some [cDot, cDot]) = false)
    (hhB : ((nsegs (Path.parent_or_empty (split b).path)).head? == some [cDot, cDot]) = false)
    (hLne0 : relSegs a b ≠ [])
    (hcls : (!(remainder a b).2.2 && (remainder a b).1.head? == some []) = false) :
    Ref.relative_body a b = some (recompose (pathQF (if sdCond a b then [] else renderRel (relSegs a b))
      (split a).query (split a).fragment)) := by
  obtain ⟨vA, wA⟩ := split_valid G ok a ha
  obtain ⟨vO, wO⟩ := split_valid G ok b hb
  have hsa := ref_scheme_opt_recompose (split a) wA
  have hso := ref_scheme_opt_recompose (split b) wO
  have hau := ref_authority_recompose (split a) wA
  have hbu := ref_authority_recompose (split b) wO
  have hpA := ref_path_recompose (split a) wA
  have hpO := ref_path_recompose (split b) wO
  have hqa := ref_query_recompose (split a) wA
  have hqb := ref_query_recompose (split b) wO
  have hfa := ref_fragment_recompose (split a) wA
  rw [Lemmas.recompose_split] at hsa hso hau hbu hpA hpO hqa hqb hfa
  have hptA : PathText (split a).path := pathText_of_wf _ wA
  have hptO : PathText (split b).path := pathText_of_wf _ wO
  have hweA : wellEscaped (split a).path = true := path_we G we _ vA
  have hweO : wellEscaped (split b).path = true := path_we G we _ vO
  obtain ⟨hpw, hpp⟩ := parent_or_empty_props (split b).path
  have hws : ∀ s ∈ nsegs (split a).path, wellEscaped s = true := nsegs_we _ hweA
  have hwb : ∀ s ∈ nsegs (Path.parent_or_empty (split b).path), wellEscaped s = true := nsegs_we _ (hpw hweO)
  have hbody : Ref.relative_body a b = some (recompose (pathQF (if sdCond a b then [] else renderRel (relSegs a b))
      (split a).query (split a).fragment)) := by
    unfold Ref.relative_body
    simp only [hpA, hpO, hqa, hqb, hfa, hbu, normalized_segments_eq _ hptA, normalized_segments_eq _ (hpp hptO)]
    simp only [habs, Bool.false_eq_true, if_false, hhA, hhB, Bool.or_self]
    rw [dropCommonPanics_false _ _ hws hwb]
    simp only [Bool.false_eq_true, if_false]
    have hcls' := hcls
    unfold remainder at hcls'
    simp only [hcls', Bool.false_eq_true, if_false]
    unfold sdCond relSegs remainder at ⊢
    unfold relSegs remainder at hLne0
    obtain ⟨ca, cb, hA, hB, _, _, _⟩ := dropCommon_spec (nsegs (split a).path)
      (nsegs (Path.parent_or_empty (split b).path)) hws hwb
    generalize hd : Ref.dropCommon (nsegs (split a).path) (nsegs (Path.parent_or_empty (split b).path)) = d at hA hB hLne0
    obtain ⟨ss, bs, cm⟩ := d
    simp only [] at hA hB hLne0 ⊢
    -- every pushed segment is free of `/`, `?`, `#`
    have hsegA : ∀ s ∈ nsegs (split a).path, cSlash ∉ s ∧ PathText s := by
      intro s hs
      have hm : s ∈ segs (split a).path := nsegsOf_subset _ _ s hs
      refine ⟨segs_no_slash _ s hm, fun c hc => hptA c ?_⟩
      have := segs_subset_splitSlash G ok okp (split a).path s hm
      exact mem_of_mem_splitSlash' _ s this c hc
    have hss : ∀ s ∈ ss, cSlash ∉ s ∧ PathText s := by
      intro s hs
      exact hsegA s (by rw [hA]; exact List.mem_append_right _ hs)
    have hups : ∀ s ∈ (bs.map fun _ => segDotDot), cSlash ∉ s ∧ PathText s := by
      intro s hs
      simp only [List.mem_map] at hs
      obtain ⟨_, _, rfl⟩ := hs
      exact ⟨by decide, pathText_dotdot⟩
    have e1 := pushAll_renderRel (bs.map fun _ => segDotDot) [] (by simpa using hups)
    simp only [renderRel, List.nil_append] at e1
    have e1' : Ref.pushAll [] (List.map (fun _ => [cDot, cDot]) bs) = some (renderRel (bs.map fun _ => segDotDot)) := e1
    have hLall : ∀ x ∈ (bs.map fun _ => segDotDot) ++ ss, cSlash ∉ x ∧ PathText x := by
      intro x hx
      rcases List.mem_append.mp hx with h | h
      · exact hups x h
      · exact hss x h
    have e2 := pushAll_renderRel ss (bs.map fun _ => segDotDot) hLall
    simp only [Option.bind_eq_bind, e1', Option.bind_some, e2]
    obtain ⟨hpt, hfc, hsS, hrelp⟩ := renderRel_props ((bs.map fun _ => segDotDot) ++ ss) hLall
    have wf := wf_pathOnly _ hpt hfc hsS
    have hp2 : Ref.path (renderRel ((bs.map fun _ => segDotDot) ++ ss)) = renderRel ((bs.map fun _ => segDotDot) ++ ss) := by
      have := ref_path_recompose _ wf
      rwa [recompose_pathOnly] at this
    -- something was pushed: no closing empty segment
    have hLne : (bs.map fun _ => segDotDot) ++ ss ≠ [] := hLne0
    have hRne := renderRel_ne_nil _ hLne (fun s hs => (hLall s hs).1)
    have hnem : Path.is_empty (renderRel ((bs.map fun _ => segDotDot) ++ ss)) = false := by
      rw [is_empty_rel hrelp]
      cases hr : renderRel ((bs.map fun _ => segDotDot) ++ ss) with
      | nil => exact absurd hr hRne
      | cons c t => rfl
    simp only [hp2, hnem, Bool.false_eq_true, if_false, Option.bind_some]
    -- the special case clears the path or not; then the query and the fragment of `a` are set
    have htail : ∀ (P : Text), PathText P → fsc P = false → startsSS P = false →
        ((Ref.set_query P (split a).query).bind fun r4 => Ref.set_fragment r4 (split a).fragment) =
          some (recompose (pathQF P (split a).query (split a).fragment)) := by
      intro P hP hPf hPs
      have wfP := wf_pathOnly P hP hPf hPs
      have q1 := set_query_recompose _ wfP (split a).query
      rw [recompose_pathOnly] at q1
      have wf2 := wf_pathQF P (split a).query none hP hPf hPs wA.query
      have f1 := set_fragment_recompose _ wf2 (split a).fragment
      have hsame : ({ pathOnly P with query := (split a).query } : Spec.Parts) = pathQF P (split a).query none := rfl
      rw [hsame] at q1
      simp only [q1, Option.bind_some, f1]
      rfl
    cases hsd : (((split a).query.isSome || (split a).fragment.isSome) &&
        ((split a).query.isSome || (split b).query.isNone) &&
        some (renderRel ((bs.map fun _ => segDotDot) ++ ss)) == Path.last (split b).path) with
    | false =>
      simp only [Bool.false_eq_true, if_false, Option.bind_some]
      exact htail _ hpt hfc hsS
    | true =>
      obtain ⟨h', e, hb'⟩ := clear_renderRel _ hLall
      simp only [if_true, e, Option.map_some, hb', Option.bind_some]
      exact htail [] (fun c hc => by cases hc) rfl rfl
  exact hbody

/-- the path part of `relative_to` on two paths that both count as absolute (the base's may be
empty behind an authority): the relative path, or nothing when the shortcut fires -/
theorem relative_body_explicit_gen (we : Grammar.OkWE G) (a b : Text)
    (ha : Matches G.reference a) (hb : Matches G.reference b)
    (hpa : isAbs (split a).path = true)
    (hpb : isAbs (split b).path = true ∨ ((split b).path = [] ∧ (split b).authority.isSome = true))
    (hLne0 : relSegs a b ≠ [])
    (hcls : (!(remainder a b).2.2 && (remainder a b).1.head? == some []) = false) :
    Ref.relative_body a b = some (recompose (pathQF (if sdCond a b then [] else renderRel (relSegs a b))
      (split a).query (split a).fragment)) := by
  have hBab : (split b).path = [] ∨ ∃ q, (split b).path = cSlash :: q := by
    rcases hpb with hpb | hpb
    · right
      cases hpp' : (split b).path with
      | nil => rw [hpp'] at hpb; simp [isAbs] at hpb
      | cons c t =>
        rw [hpp'] at hpb
        have : c = cSlash := by simpa [isAbs] using hpb
        exact ⟨t, by rw [this]⟩
    · exact .inl hpb.1
  have he0 : nsegs (Path.parent_or_empty (split b).path) = nsegsOf true (segs (split b).path).dropLast := by
    rcases hBab with e | ⟨q, hqb'⟩
    · rw [e]; decide
    · rw [hqb']
      obtain ⟨⟨k, hk⟩, habs, _⟩ := parent_segs q
      unfold nsegs
      rw [habs, hk, nsegsOf_dots]
  have hdfA : DotFree (nsegs (split a).path) := by
    unfold nsegs; rw [hpa]; exact nsegsOf_abs_dotFree _
  have hdfB : DotFree (nsegs (Path.parent_or_empty (split b).path)) := by rw [he0]; exact nsegsOf_abs_dotFree _
  have habs : (Path.is_absolute (split a).path !=
      (Path.is_absolute (split b).path || ((split b).authority.isSome && Path.is_empty (split b).path))) = false := by
    rw [is_absolute_eq, is_absolute_eq, hpa]
    rcases hpb with h | ⟨h, h2⟩
    · rw [h]; rfl
    · rw [h, h2]; rfl
  exact relative_body_explicit_core G ok okp we a b ha hb habs (head_not_dotdot hdfA) (head_not_dotdot hdfB) hLne0 hcls

theorem relative_body_explicit (we : Grammar.OkWE G) (a b : Text)
    (ha : Matches G.reference a) (hb : Matches G.reference b)
    (hpa : isAbs (split a).path = true)
    (hpb : isAbs (split b).path = true ∨ ((split b).path = [] ∧ (split b).authority.isSome = true))
    (hLne0 : relSegs a b ≠ [])
    (hcls : (!(remainder a b).2.2 && (remainder a b).1.head? == some []) = false)
    (hnsp : (((split a).query.isSome || (split a).fragment.isSome) &&
      ((split a).query.isSome || (split b).query.isNone) &&
      some (renderRel (relSegs a b)) == Path.last (split b).path) = false) :
    Ref.relative_body a b = some (recompose (pathQF (renderRel (relSegs a b)) (split a).query (split a).fragment)) := by
  have h := relative_body_explicit_gen G ok okp we a b ha hb hpa hpb hLne0 hcls
  have hsd : sdCond a b = false := hnsp
  rw [hsd] at h
  simpa using h

/-- **what `relative_to` returns on the class**: `./`? `../` for every remaining segment of `b`'s
directory, then the remaining segments of `a` -/
theorem relative_to_explicit (oka : Grammar.OkAuth G) (we : Grammar.OkWE G) (a b aa ab : Text)
    (ha : Matches G.reference a) (hb : Matches G.reference b)
    (hsch : (split a).scheme = (split b).scheme)
    (haa : (split a).authority = some aa) (hab : (split b).authority = some ab) (hauth : authKey aa = authKey ab)
    (hpa : isAbs (split a).path = true) (hpb : isAbs (split b).path = true ∨ (split b).path = [])
    (hLne0 : relSegs a b ≠ [])
    (hcls : (!(remainder a b).2.2 && (remainder a b).1.head? == some []) = false)
    (hnsp : (((split a).query.isSome || (split a).fragment.isSome) &&
      ((split a).query.isSome || (split b).query.isNone) &&
      some (renderRel (relSegs a b)) == Path.last (split b).path) = false) :
    Ref.relative_to a b = some (recompose (pathQF (renderRel (relSegs a b)) (split a).query (split a).fragment)) := by
  obtain ⟨vA, wA⟩ := split_valid G ok a ha
  obtain ⟨vO, wO⟩ := split_valid G ok b hb
  have hsa := ref_scheme_opt_recompose (split a) wA
  have hso := ref_scheme_opt_recompose (split b) wO
  have hau := ref_authority_recompose (split a) wA
  have hbu := ref_authority_recompose (split b) wO
  rw [Lemmas.recompose_split] at hsa hso hau hbu
  have hbody := relative_body_explicit G ok okp we a b ha hb hpa
    (hpb.elim .inl (fun h => .inr ⟨h, by rw [hab]; rfl⟩)) hLne0 hcls hnsp
  unfold Ref.relative_to
  simp only [hsa, hso, hau, hbu, haa, hab, hsch,
    authorityEq_key G oka we aa ab (vA.authority aa haa) (vO.authority ab hab), hauth, decide_true]
  cases (split b).scheme <;> simp [hbody]

/-- the same without authorities, both paths absolute -/
theorem relative_to_explicit_noauth (we : Grammar.OkWE G) (a b : Text)
    (ha : Matches G.reference a) (hb : Matches G.reference b)
    (hsch : (split a).scheme = (split b).scheme)
    (haa : (split a).authority = none) (hab : (split b).authority = none)
    (hpa : isAbs (split a).path = true) (hpb : isAbs (split b).path = true)
    (hLne0 : relSegs a b ≠ [])
    (hcls : (!(remainder a b).2.2 && (remainder a b).1.head? == some []) = false)
    (hnsp : (((split a).query.isSome || (split a).fragment.isSome) &&
      ((split a).query.isSome || (split b).query.isNone) &&
      some (renderRel (relSegs a b)) == Path.last (split b).path) = false) :
    Ref.relative_to a b = some (recompose (pathQF (renderRel (relSegs a b)) (split a).query (split a).fragment)) := by
  obtain ⟨vA, wA⟩ := split_valid G ok a ha
  obtain ⟨vO, wO⟩ := split_valid G ok b hb
  have hsa := ref_scheme_opt_recompose (split a) wA
  have hso := ref_scheme_opt_recompose (split b) wO
  have hau := ref_authority_recompose (split a) wA
  have hbu := ref_authority_recompose (split b) wO
  rw [Lemmas.recompose_split] at hsa hso hau hbu
  have hbody := relative_body_explicit G ok okp we a b ha hb hpa (.inl hpb) hLne0 hcls hnsp
  unfold Ref.relative_to
  simp only [hsa, hso, hau, hbu, haa, hab, hsch]
  cases (split b).scheme <;> simp [hbody]

omit ok okp in
theorem splitSlash_renderRel (L : List Text) (hne : L ≠ []) (hns : ∀ s ∈ L, cSlash ∉ s) :
    splitSlash (renderRel L) = L ∨ splitSlash (renderRel L) = segDot :: L := by
  cases L with
  | nil => exact absurd rfl hne
  | cons s rest =>
    simp only [renderRel]
    by_cases hsh : (fsc s || s.isEmpty) = true
    · right
      simp only [hsh, if_true]
      have e : [cDot, cSlash] ++ joinSlash (s :: rest) = [cDot] ++ cSlash :: joinSlash (s :: rest) := by simp
      rw [e, splitSlash_mid, splitSlash_joinSlash _ (by simp) hns]
      rfl
    · left
      have hsh' : (fsc s || s.isEmpty) = false := by simpa using hsh
      simp only [hsh', Bool.false_eq_true, if_false, List.nil_append]
      rw [splitSlash_joinSlash _ (by simp) hns]

/-- the shape of the resolved target -/
def tgt (sb : Text) (ob : Option Text) (p : Text) (q f : Option Text) : Spec.Parts :=
  { scheme := some sb, authority := ob, path := p, query := q, fragment := f }

/-- something is always written when the target is not the root -/
theorem relSegs_ne_nil (we : Grammar.OkWE G) (a b : Text)
    (ha : Matches G.reference a) (hb : Matches G.reference b) (hne : nsegs (split a).path ≠ []) :
    relSegs a b ≠ [] := by
  obtain ⟨vA, _⟩ := split_valid G ok a ha
  obtain ⟨vB, _⟩ := split_valid G ok b hb
  have hweA0 : wellEscaped (split a).path = true := path_we G we _ vA
  have hweB0 : wellEscaped (split b).path = true := path_we G we _ vB
  obtain ⟨_, _, _, _, _, _, h7⟩ := dropCommon_spec (nsegs (split a).path) (nsegs (Path.parent_or_empty (split b).path))
    (nsegs_we _ hweA0) (nsegs_we _ ((parent_or_empty_props (split b).path).1 hweB0))
  unfold relSegs remainder
  intro e
  exact h7 hne (List.append_eq_nil_iff.mp e).2

omit ok okp in
theorem startsSS_slash_join (X : List Text) (hns : ∀ s ∈ X, cSlash ∉ s) (hh : X.head? ≠ some []) :
    startsSS (cSlash :: joinSlash X) = false := by
  cases X with
  | nil => rfl
  | cons x xs =>
    cases x with
    | nil => simp at hh
    | cons c r =>
      have hc : c ≠ cSlash := fun e => hns (c :: r) List.mem_cons_self (e ▸ List.mem_cons_self)
      cases xs <;> simp [joinSlash, startsSS, hc]

/-- **the round trip on the class**, with or without authority (the same on both sides): given
what `relative_to` returns there -/
theorem relative_roundtrip_core (oka : Grammar.OkAuth G) (we : Grammar.OkWE G) (a b : Text) (ob : Option Text)
    (ha : Matches G.full a) (hb : Matches G.full b)
    (hsch : (split a).scheme = (split b).scheme)
    (hab : (split b).authority = ob) (hkeyA : (split a).authority.map authKey = ob.map authKey)
    (hpa : isAbs (split a).path = true)
    (hpb : isAbs (split b).path = true ∨ ((split b).path = [] ∧ ob.isSome = true))
    (hne : nsegs (split a).path ≠ [])
    (hcls : (!(remainder a b).2.2 && (remainder a b).1.head? == some []) = false)
    (hhd : ob = none → (nsegs (split a).path).head? ≠ some [] ∧
      (nsegs (Path.parent_or_empty (split b).path)).head? ≠ some [])
    (hrel : Ref.relative_to a b =
      some (recompose (pathQF (renderRel (relSegs a b)) (split a).query (split a).fragment))) :
    ∃ r t, Ref.relative_to a b = some r ∧ Ref.resolve r b = some t ∧ key t = key a := by
  have haR : Matches G.reference a := Matches.altL ha
  have hbR : Matches G.reference b := Matches.altL hb
  obtain ⟨vA, wA⟩ := split_valid G ok a haR
  obtain ⟨vB, wB⟩ := split_valid G ok b hbR
  obtain ⟨r', er', vr'⟩ := relative_to_total G ok okp oka we a b haR hbR
  rw [hrel] at er'
  simp only [Option.some.injEq] at er'
  -- names
  have hptA : PathText (split a).path := pathText_of_wf _ wA
  have hptB : PathText (split b).path := pathText_of_wf _ wB
  have hweA : wellEscaped (split a).path = true := path_we G we _ vA
  have hweB : wellEscaped (split b).path = true := path_we G we _ vB
  obtain ⟨hpw, hpp⟩ := parent_or_empty_props (split b).path
  have hBab : (split b).path = [] ∨ ∃ q, (split b).path = cSlash :: q := by
    rcases hpb with hpb | hpb
    · right
      cases hpp' : (split b).path with
      | nil => rw [hpp'] at hpb; simp [isAbs] at hpb
      | cons c t =>
        rw [hpp'] at hpb
        have : c = cSlash := by simpa [isAbs] using hpb
        exact ⟨t, by rw [this]⟩
    · exact .inl hpb.1
  -- the normalised directory of the base is the start of the walk
  have he0 : nsegs (Path.parent_or_empty (split b).path) = nsegsOf true (segs (split b).path).dropLast := by
    rcases hBab with e | ⟨q, hqb⟩
    · rw [e]; decide
    · rw [hqb]
      obtain ⟨⟨k, hk⟩, habs, _⟩ := parent_segs q
      unfold nsegs
      rw [habs, hk, nsegsOf_dots]
  obtain ⟨ca, cb, hA, hB, hcab, hcm, hssne⟩ := dropCommon_spec (nsegs (split a).path) (nsegs (Path.parent_or_empty (split b).path))
    (nsegs_we _ hweA) (nsegs_we _ (hpw hweB))
  unfold relSegs remainder at hrel er'
  unfold remainder at hcls
  generalize hd : Ref.dropCommon (nsegs (split a).path) (nsegs (Path.parent_or_empty (split b).path)) = d at hrel er' hcls hA hB hcm hssne
  obtain ⟨ss, bs, cm⟩ := d
  simp only [] at hrel er' hcls hA hB hcm hssne
  have hrem1 : ss ≠ [] := hssne hne
  -- segments of `a` are dot-free and free of `/`
  have hdfA : DotFree (nsegs (split a).path) := by
    unfold nsegs; rw [hpa]; exact nsegsOf_abs_dotFree _
  have hdfB : DotFree (nsegs (Path.parent_or_empty (split b).path)) := by rw [he0]; exact nsegsOf_abs_dotFree _
  have hplain : NoDots ss := by
    intro s hs
    have hm : s ∈ nsegs (split a).path := by rw [hA]; exact List.mem_append_right _ hs
    exact ⟨fun e => hdfA.1 (e ▸ hm), fun e => hdfA.2 (e ▸ hm)⟩
  -- nothing is skipped: the common prefix is not empty, or the remainder does not begin with an
  -- empty segment
  have hstart : cb ≠ [] ∨ ss.head? ≠ some [] := by
    by_cases hc : cm = true
    · exact .inl (hcm.mp hc)
    · right
      have hc' : cm = false := by simpa using hc
      rw [hc'] at hcls
      simpa using hcls
  have hnsA : ∀ s ∈ nsegs (split a).path, cSlash ∉ s := fun s hs => segs_no_slash _ s (nsegsOf_subset _ _ s hs)
  have hnsB : ∀ s ∈ nsegs (Path.parent_or_empty (split b).path), cSlash ∉ s :=
    fun s hs => segs_no_slash _ s (nsegsOf_subset _ _ s hs)
  -- the relative reference
  obtain ⟨L, hL⟩ : ∃ L, L = (bs.map fun _ => segDotDot) ++ ss := ⟨_, rfl⟩
  rw [← hL] at hrel er'
  have hLne : L ≠ [] := by rw [hL]; intro e; exact hrem1 (List.append_eq_nil_iff.mp e).2
  have hLns : ∀ s ∈ L, cSlash ∉ s ∧ PathText s := by
    intro s hs
    rw [hL] at hs
    rcases List.mem_append.mp hs with h | h
    · simp only [List.mem_map] at h
      obtain ⟨_, _, rfl⟩ := h
      exact ⟨by decide, pathText_dotdot⟩
    · have hm : s ∈ nsegs (split a).path := by rw [hA]; exact List.mem_append_right _ h
      have hm' : s ∈ segs (split a).path := nsegsOf_subset _ _ s hm
      exact ⟨segs_no_slash _ s hm', fun c hc => hptA c
        (mem_of_mem_splitSlash' _ s (segs_subset_splitSlash G ok okp _ s hm') c hc)⟩
  obtain ⟨hpt, hfc, hsS, hrelp⟩ := renderRel_props L hLns
  have wfr := wf_pathQF (renderRel L) (split a).query (split a).fragment hpt hfc hsS wA.query
  obtain ⟨R, hRdef⟩ : ∃ R, R = recompose (pathQF (renderRel L) (split a).query (split a).fragment) := ⟨_, rfl⟩
  rw [← hRdef] at hrel er'
  have hsplit : split R = pathQF (renderRel L) (split a).query (split a).fragment := by
    rw [hRdef]; exact Lemmas.split_recompose _ wfr
  have hvr : Matches G.reference R := by rw [er']; exact vr'
  have hRne : renderRel L ≠ [] := renderRel_ne_nil L hLne (fun s hs => (hLns s hs).1)
  -- the segments of the reference path, and why nothing is skipped while they are appended
  have hS : splitSlash (renderRel L) = L ∨ splitSlash (renderRel L) = segDot :: L :=
    splitSlash_renderRel L hLne (fun s hs => (hLns s hs).1)
  have hdfe : DotFree (cb ++ bs) := by rw [← hB]; exact hdfB
  have hskL : symSkipsGo true (cb ++ bs) L = false := by
    rw [hL]
    apply symSkipsGo_append
    · exact noSkip_nonempty true _ _ (by
        intro s hs
        simp only [List.mem_map] at hs
        obtain ⟨_, _, rfl⟩ := hs; decide)
    · rw [walk_ups bs cb hdfe]
      exact (walk_nodots ss cb hplain hstart).2
  have hsk : symSkipsGo true (nsegsOf true (segs (split b).path).dropLast) (splitSlash (renderRel L)) = false := by
    rw [← he0, hB]
    rcases hS with e | e <;> rw [e]
    · exact hskL
    · simp only [symSkipsGo]
      have : (segDot != segDot && segDot != segDotDot && segDot.isEmpty && (cb ++ bs).isEmpty) = false := by simp
      rw [this]
      simp only [Bool.false_eq_true, if_false]
      have hp : (listSymPush true (cb ++ bs) segDot).1 = cb ++ bs := by simp [listSymPush]
      rw [hp]
      exact hskL
  -- the target
  have hmerge : merge ob.isSome (split b).path (renderRel L) = merge true (split b).path (renderRel L) := by
    rcases hpb with h | ⟨_, h2⟩
    · rcases hBab with e | ⟨q, hq⟩
      · rw [e] at h; simp [isAbs] at h
      · rw [hq]; simp [merge]
    · rw [h2]
  have hrd := removeDots_merge (split b).path (renderRel L) hBab hRne hsk
  rw [← hmerge] at hrd
  -- the walk
  have hwalk : walk (nsegsOf true (segs (split b).path).dropLast) (splitSlash (renderRel L)) = cb ++ ss := by
    rw [← he0, hB]
    have hdf : DotFree (cb ++ bs) := by rw [← hB]; exact hdfB
    rcases hS with e | e <;> rw [e]
    · rw [hL, walk_append, walk_ups bs cb hdf, (walk_nodots ss cb hplain hstart).1]
    · rw [walk_dot, hL, walk_append, walk_ups bs cb hdf, (walk_nodots ss cb hplain hstart).1]
  have hld : lastDot (splitSlash (renderRel L)) = false := by
    rcases hS with e | e <;> rw [e, hL]
    · exact lastDot_nodots _ ss hrem1 hplain
    · rw [← List.cons_append]; exact lastDot_nodots _ ss hrem1 hplain
  rw [hwalk, hld] at hrd
  simp only [Bool.false_and, Bool.false_eq_true, if_false, List.append_nil] at hrd
  -- the key of the result
  obtain ⟨sb, hsb⟩ : ∃ sb, (split b).scheme = some sb := by
    have := ((C02.full_iff_scheme G ok b).mp hb).2
    exact Option.isSome_iff_exists.mp this
  have hT : resolveSpec b R = tgt sb ob (cSlash :: joinSlash (cb ++ ss)) (split a).query (split a).fragment := by
    have hpe : (renderRel L).isEmpty = false := by cases h : renderRel L <;> simp_all
    simp only [resolveSpec, transform, hsplit, pathQF, hpe, Bool.false_eq_true, if_false, hrelp, hab,
      hrd, hsb, tgt]
  have hX : ∀ s ∈ cb ++ ss, cSlash ∉ s := by
    intro s hs
    rcases List.mem_append.mp hs with h | h
    · exact hnsB s (by rw [hB]; exact List.mem_append_left _ h)
    · exact hnsA s (by rw [hA]; exact List.mem_append_right _ h)
  have hXne : cb ++ ss ≠ [] := fun e => hrem1 (List.append_eq_nil_iff.mp e).2
  have hXl : cb ++ ss ≠ [[]] := by
    intro e
    cases hcb : cb with
    | nil =>
      rw [hcb, List.nil_append] at e
      rcases hstart with h | h
      · exact h hcb
      · rw [e] at h; simp at h
    | cons c cs =>
      rw [hcb] at e
      simp only [List.cons_append, List.cons.injEq] at e
      exact hrem1 (List.append_eq_nil_iff.mp e.2).2
  have hXdf : DotFree (cb ++ ss) := by
    refine ⟨fun h => ?_, fun h => ?_⟩
    · rcases List.mem_append.mp h with h | h
      · exact hdfB.1 (by rw [hB]; exact List.mem_append_left _ h)
      · exact hdfA.1 (by rw [hA]; exact List.mem_append_right _ h)
    · rcases List.mem_append.mp h with h | h
      · exact hdfB.2 (by rw [hB]; exact List.mem_append_left _ h)
      · exact hdfA.2 (by rw [hA]; exact List.mem_append_right _ h)
  obtain ⟨hsg, habsT⟩ := segs_render true (cb ++ ss) hXne hX (by simpa using hXl)
  simp only [if_true, List.singleton_append] at hsg habsT
  have hptT : PathText (cSlash :: joinSlash (cb ++ ss)) := by
    intro c hc
    rcases List.mem_cons.mp hc with h | h
    · subst h; decide
    · have hall : ∀ x ∈ cb ++ ss, PathText x := by
        intro x hx
        rcases List.mem_append.mp hx with h2 | h2
        · have hm : x ∈ nsegs (Path.parent_or_empty (split b).path) := by rw [hB]; exact List.mem_append_left _ h2
          have hm' := nsegsOf_subset _ _ x hm
          exact fun c hc => (hpp hptB) c (mem_of_mem_splitSlash' _ x (segs_subset_splitSlash G ok okp _ x hm') c hc)
        · exact (hLns x (by rw [hL]; exact List.mem_append_right _ h2)).2
      have hj : ∀ (M : List Text), (∀ x ∈ M, PathText x) → ∀ c ∈ joinSlash M, c ≠ cQuest ∧ c ≠ cHash := by
        intro M
        induction M with
        | nil => intro _ c hc; cases hc
        | cons x xs ih =>
          intro hM c hc
          cases xs with
          | nil => exact hM x List.mem_cons_self c hc
          | cons y ys =>
            simp only [joinSlash] at hc
            rcases List.mem_append.mp hc with h3 | h3
            · exact hM x List.mem_cons_self c h3
            · rcases List.mem_cons.mp h3 with h3 | h3
              · subst h3; decide
              · exact ih (fun z hz => hM z (List.mem_cons_of_mem _ hz)) c h3
      exact hj _ hall c h
  -- without authority the target must not begin with `//`
  have hss0 : ob = none → startsSS (cSlash :: joinSlash (cb ++ ss)) = false := by
    intro hn
    obtain ⟨h1, h2⟩ := hhd hn
    apply startsSS_slash_join _ hX
    cases hcb : cb with
    | nil =>
      have hca : ca = [] := by
        have := congrArg List.length hcab
        rw [hcb] at this
        simpa using this
      rw [hA, hca] at h1
      simpa using h1
    | cons c cs =>
      rw [hB, hcb] at h2
      simpa using h2
  have wfT : WF (tgt sb ob (cSlash :: joinSlash (cb ++ ss)) (split a).query (split a).fragment) :=
    { scheme := fun s hs => by simp only [tgt, Option.some.injEq] at hs; subst hs; exact wB.scheme sb hsb
      authority := fun x hx => wB.authority x (by rw [hab]; exact hx)
      path := fun c hc => by
        have := hptT c hc
        simp [nQH, this.1, this.2]
      query := wA.query
      abempty := fun _ => .inr ⟨_, rfl⟩
      noSS := fun hn => hss0 hn
      noColon := fun hn _ => by simp [tgt] at hn }
  -- resolution
  have hres : Ref.resolve R b = some (recompose (resolveSpec b R)) := by
    cases hob : ob with
    | some ab =>
      exact resolve_relative_authority G ok okp b R ab hb hvr (by rw [hsplit]; rfl) (by rw [hsplit]; rfl)
        (by rw [hsplit]; exact hRne) (by rw [hsplit]; exact hrelp) (by rw [hab, hob]) (by rw [hsplit]; exact hsk)
    | none =>
      have hBabs : isAbs (split b).path = true := by
        rcases hpb with h | ⟨_, h2⟩
        · exact h
        · rw [hob] at h2; simp at h2
      exact resolve_relative_noauthority G ok okp b R hb hvr (by rw [hsplit]; rfl) (by rw [hsplit]; rfl)
        (by rw [hsplit]; exact hRne) (by rw [hsplit]; exact hrelp) (by rw [hab, hob]) hBabs
        (by rw [hsplit]; exact hsk) (by rw [hT]; exact hss0 hob)
  refine ⟨R, _, hrel, hres, ?_⟩
  have hsT := Lemmas.split_recompose _ wfT
  rw [hT]
  unfold key
  rw [hsT]
  simp only [tgt, Option.map_some, hsch, hsb, hkeyA]
  congr 1
  unfold pathKey
  rw [hpa, habsT]
  congr 1
  unfold nsegs
  rw [habsT, hsg, nsegsOf_dotFree _ _ hXdf]
  have hAn : nsegsOf (isAbs (split a).path) (segs (split a).path) = ca ++ ss := hA
  rw [hAn, List.map_append, List.map_append, hcab]

/-- **the round trip on the class**, equal authorities -/
theorem relative_roundtrip (oka : Grammar.OkAuth G) (we : Grammar.OkWE G) (a b aa ab : Text)
    (ha : Matches G.full a) (hb : Matches G.full b)
    (hsch : (split a).scheme = (split b).scheme)
    (haa : (split a).authority = some aa) (hab : (split b).authority = some ab) (hauth : authKey aa = authKey ab)
    (hpa : isAbs (split a).path = true) (hpb : isAbs (split b).path = true ∨ (split b).path = [])
    (hne : nsegs (split a).path ≠ [])
    (hcls : (!(remainder a b).2.2 && (remainder a b).1.head? == some []) = false)
    (hnsp : (((split a).query.isSome || (split a).fragment.isSome) &&
      ((split a).query.isSome || (split b).query.isNone) &&
      some (renderRel (relSegs a b)) == Path.last (split b).path) = false) :
    ∃ r t, Ref.relative_to a b = some r ∧ Ref.resolve r b = some t ∧ key t = key a := by
  have haR : Matches G.reference a := Matches.altL ha
  have hbR : Matches G.reference b := Matches.altL hb
  have hLne0 := relSegs_ne_nil G ok okp we a b haR hbR hne
  have hrel := relative_to_explicit G ok okp oka we a b aa ab haR hbR hsch haa hab hauth hpa hpb hLne0 hcls hnsp
  exact relative_roundtrip_core G ok okp oka we a b (some ab) ha hb hsch hab (by rw [haa]; simp [hauth]) hpa
    (hpb.elim .inl (fun h => .inr ⟨h, rfl⟩)) hne hcls (fun h => by cases h) hrel

/-- **the round trip on the class**, no authority on either side, both paths absolute, neither
normalised path beginning with an empty segment (which no text without authority can spell) -/
theorem relative_roundtrip_noauth (oka : Grammar.OkAuth G) (we : Grammar.OkWE G) (a b : Text)
    (ha : Matches G.full a) (hb : Matches G.full b)
    (hsch : (split a).scheme = (split b).scheme)
    (haa : (split a).authority = none) (hab : (split b).authority = none)
    (hpa : isAbs (split a).path = true) (hpb : isAbs (split b).path = true)
    (hne : nsegs (split a).path ≠ [])
    (hha : (nsegs (split a).path).head? ≠ some [])
    (hhb : (nsegs (Path.parent_or_empty (split b).path)).head? ≠ some [])
    (hcls : (!(remainder a b).2.2 && (remainder a b).1.head? == some []) = false)
    (hnsp : (((split a).query.isSome || (split a).fragment.isSome) &&
      ((split a).query.isSome || (split b).query.isNone) &&
      some (renderRel (relSegs a b)) == Path.last (split b).path) = false) :
    ∃ r t, Ref.relative_to a b = some r ∧ Ref.resolve r b = some t ∧ key t = key a := by
  have haR : Matches G.reference a := Matches.altL ha
  have hbR : Matches G.reference b := Matches.altL hb
  have hLne0 := relSegs_ne_nil G ok okp we a b haR hbR hne
  have hrel := relative_to_explicit_noauth G ok okp we a b haR hbR hsch haa hab hpa hpb hLne0 hcls hnsp
  exact relative_roundtrip_core G ok okp oka we a b none ha hb hsch hab (by rw [haa]) hpa
    (.inl hpb) hne hcls (fun _ => ⟨hha, hhb⟩) hrel

omit ok okp in
/-- the root as target: nothing is compared, the remainder is the whole directory of the base -/
theorem root_remainder (a b : Text) (hroot : nsegs (split a).path = [])
    (hbelow : nsegs (Path.parent_or_empty (split b).path) ≠ []) :
    remainder a b = ([], nsegs (Path.parent_or_empty (split b).path), false) ∧
    relSegs a b = ((nsegs (Path.parent_or_empty (split b).path)).map fun _ => segDotDot) ∧
    relSegs a b ≠ [] ∧ (!(remainder a b).2.2 && (remainder a b).1.head? == some []) = false := by
  have hrem : remainder a b = ([], nsegs (Path.parent_or_empty (split b).path), false) := by
    unfold remainder
    rw [hroot]
    cases nsegs (Path.parent_or_empty (split b).path) <;> rfl
  have hLdef : relSegs a b = (nsegs (Path.parent_or_empty (split b).path)).map fun _ => segDotDot := by
    unfold relSegs; rw [hrem]; simp
  refine ⟨hrem, hLdef, ?_, by rw [hrem]; rfl⟩
  rw [hLdef]
  intro e
  exact hbelow (List.map_eq_nil_iff.mp e)

/-- **the round trip when the target is the root** of the same authority and the base lies below
it: the reference is `..` repeated, and resolving it climbs back to `/` -/
theorem relative_roundtrip_root_core (oka : Grammar.OkAuth G) (we : Grammar.OkWE G) (a b : Text) (ob : Option Text)
    (ha : Matches G.full a) (hb : Matches G.full b)
    (hsch : (split a).scheme = (split b).scheme)
    (hab : (split b).authority = ob) (hkeyA : (split a).authority.map authKey = ob.map authKey)
    (hpa : isAbs (split a).path = true)
    (hpb : isAbs (split b).path = true ∨ ((split b).path = [] ∧ ob.isSome = true))
    (hroot : nsegs (split a).path = [])
    (hbelow : nsegs (Path.parent_or_empty (split b).path) ≠ [])
    (hrel : Ref.relative_to a b =
      some (recompose (pathQF (renderRel (relSegs a b)) (split a).query (split a).fragment))) :
    ∃ r t, Ref.relative_to a b = some r ∧ Ref.resolve r b = some t ∧ key t = key a := by
  have haR : Matches G.reference a := Matches.altL ha
  have hbR : Matches G.reference b := Matches.altL hb
  obtain ⟨vA, wA⟩ := split_valid G ok a haR
  obtain ⟨vB, wB⟩ := split_valid G ok b hbR
  -- nothing is compared: the remainder is the whole directory of the base
  obtain ⟨hrem, hLdef, hLne0, hcls⟩ := root_remainder a b hroot hbelow
  obtain ⟨r', er', vr'⟩ := relative_to_total G ok okp oka we a b haR hbR
  rw [hrel] at er'
  simp only [Option.some.injEq] at er'
  have hptB : PathText (split b).path := pathText_of_wf _ wB
  have hBab : (split b).path = [] ∨ ∃ q, (split b).path = cSlash :: q := by
    rcases hpb with hpb | hpb
    · right
      cases hpp' : (split b).path with
      | nil => rw [hpp'] at hpb; simp [isAbs] at hpb
      | cons c t =>
        rw [hpp'] at hpb
        have : c = cSlash := by simpa [isAbs] using hpb
        exact ⟨t, by rw [this]⟩
    · exact .inl hpb.1
  have he0 : nsegs (Path.parent_or_empty (split b).path) = nsegsOf true (segs (split b).path).dropLast := by
    rcases hBab with e | ⟨q, hqb⟩
    · rw [e]; decide
    · rw [hqb]
      obtain ⟨⟨k, hk⟩, habs, _⟩ := parent_segs q
      unfold nsegs
      rw [habs, hk, nsegsOf_dots]
  have hdfB : DotFree (nsegs (Path.parent_or_empty (split b).path)) := by rw [he0]; exact nsegsOf_abs_dotFree _
  obtain ⟨bs, hbs⟩ : ∃ bs, bs = nsegs (Path.parent_or_empty (split b).path) := ⟨_, rfl⟩
  rw [← hbs] at hLdef hbelow hdfB
  obtain ⟨L, hL⟩ : ∃ L, L = bs.map fun _ => segDotDot := ⟨_, rfl⟩
  rw [hLdef, ← hL] at hrel er' hLne0
  have hLns : ∀ s ∈ L, cSlash ∉ s ∧ PathText s := by
    intro s hs
    rw [hL] at hs
    simp only [List.mem_map] at hs
    obtain ⟨_, _, rfl⟩ := hs
    exact ⟨by decide, pathText_dotdot⟩
  obtain ⟨hpt, hfc, hsS, hrelp⟩ := renderRel_props L hLns
  have wfr := wf_pathQF (renderRel L) (split a).query (split a).fragment hpt hfc hsS wA.query
  obtain ⟨R, hRdef⟩ : ∃ R, R = recompose (pathQF (renderRel L) (split a).query (split a).fragment) := ⟨_, rfl⟩
  rw [← hRdef] at hrel er'
  have hsplit : split R = pathQF (renderRel L) (split a).query (split a).fragment := by
    rw [hRdef]; exact Lemmas.split_recompose _ wfr
  have hvr : Matches G.reference R := by rw [er']; exact vr'
  have hRne : renderRel L ≠ [] := renderRel_ne_nil L hLne0 (fun s hs => (hLns s hs).1)
  have hS : splitSlash (renderRel L) = L ∨ splitSlash (renderRel L) = segDot :: L :=
    splitSlash_renderRel L hLne0 (fun s hs => (hLns s hs).1)
  have hskL : symSkipsGo true bs L = false := by
    rw [hL]
    exact noSkip_nonempty true _ _ (by
      intro s hs
      simp only [List.mem_map] at hs
      obtain ⟨_, _, rfl⟩ := hs; decide)
  have hsk : symSkipsGo true (nsegsOf true (segs (split b).path).dropLast) (splitSlash (renderRel L)) = false := by
    rw [← he0, ← hbs]
    rcases hS with e | e <;> rw [e]
    · exact hskL
    · simp only [symSkipsGo]
      have : (segDot != segDot && segDot != segDotDot && segDot.isEmpty && bs.isEmpty) = false := by simp
      rw [this]
      simp only [Bool.false_eq_true, if_false]
      have hp : (listSymPush true bs segDot).1 = bs := by simp [listSymPush]
      rw [hp]
      exact hskL
  have hmerge : merge ob.isSome (split b).path (renderRel L) = merge true (split b).path (renderRel L) := by
    rcases hpb with h | ⟨_, h2⟩
    · rcases hBab with e | ⟨q, hq⟩
      · rw [e] at h; simp [isAbs] at h
      · rw [hq]; simp [merge]
    · rw [h2]
  have hrd := removeDots_merge (split b).path (renderRel L) hBab hRne hsk
  rw [← hmerge] at hrd
  have hwalk : walk (nsegsOf true (segs (split b).path).dropLast) (splitSlash (renderRel L)) = [] := by
    rw [← he0, ← hbs]
    have hw : walk bs L = [] := by
      rw [hL]
      have := walk_ups bs [] (by simpa using hdfB)
      simpa using this
    rcases hS with e | e <;> rw [e]
    · exact hw
    · rw [walk_dot]; exact hw
  rw [hwalk] at hrd
  simp only [List.isEmpty_nil, Bool.not_true, Bool.and_false, Bool.false_eq_true, if_false, List.append_nil,
    joinSlash] at hrd
  obtain ⟨sb, hsb⟩ : ∃ sb, (split b).scheme = some sb := by
    have := ((C02.full_iff_scheme G ok b).mp hb).2
    exact Option.isSome_iff_exists.mp this
  have hT : resolveSpec b R = tgt sb ob [cSlash] (split a).query (split a).fragment := by
    have hpe : (renderRel L).isEmpty = false := by cases h : renderRel L <;> simp_all
    simp only [resolveSpec, transform, hsplit, pathQF, hpe, Bool.false_eq_true, if_false, hrelp, hab,
      hrd, hsb, tgt]
  have wfT : WF (tgt sb ob [cSlash] (split a).query (split a).fragment) :=
    { scheme := fun s hs => by simp only [tgt, Option.some.injEq] at hs; subst hs; exact wB.scheme sb hsb
      authority := fun x hx => wB.authority x (by rw [hab]; exact hx)
      path := fun c hc => by
        have := pathText_lit_slash c hc
        simp [nQH, this.1, this.2]
      query := wA.query
      abempty := fun _ => .inr ⟨_, rfl⟩
      noSS := fun _ => rfl
      noColon := fun hn _ => by simp [tgt] at hn }
  have hres : Ref.resolve R b = some (recompose (resolveSpec b R)) := by
    cases hob : ob with
    | some ab =>
      exact resolve_relative_authority G ok okp b R ab hb hvr (by rw [hsplit]; rfl) (by rw [hsplit]; rfl)
        (by rw [hsplit]; exact hRne) (by rw [hsplit]; exact hrelp) (by rw [hab, hob]) (by rw [hsplit]; exact hsk)
    | none =>
      have hBabs : isAbs (split b).path = true := by
        rcases hpb with h | ⟨_, h2⟩
        · exact h
        · rw [hob] at h2; simp at h2
      exact resolve_relative_noauthority G ok okp b R hb hvr (by rw [hsplit]; rfl) (by rw [hsplit]; rfl)
        (by rw [hsplit]; exact hRne) (by rw [hsplit]; exact hrelp) (by rw [hab, hob]) hBabs
        (by rw [hsplit]; exact hsk) (by rw [hT]; rfl)
  refine ⟨R, _, hrel, hres, ?_⟩
  have hsT := Lemmas.split_recompose _ wfT
  rw [hT]
  unfold key
  rw [hsT]
  simp only [tgt, Option.map_some, hsch, hsb, hkeyA]
  congr 1
  unfold pathKey
  rw [hpa]
  have h1 : isAbs [cSlash] = true := rfl
  have h2 : nsegs [cSlash] = [] := by decide
  rw [h1, h2, hroot]


/-- **the round trip when the target is the root** of the same authority and the base lies below
it: the reference is `..` repeated, and resolving it climbs back to `/` -/
theorem relative_roundtrip_root (oka : Grammar.OkAuth G) (we : Grammar.OkWE G) (a b aa ab : Text)
    (ha : Matches G.full a) (hb : Matches G.full b)
    (hsch : (split a).scheme = (split b).scheme)
    (haa : (split a).authority = some aa) (hab : (split b).authority = some ab) (hauth : authKey aa = authKey ab)
    (hpa : isAbs (split a).path = true) (hpb : isAbs (split b).path = true ∨ (split b).path = [])
    (hroot : nsegs (split a).path = [])
    (hbelow : nsegs (Path.parent_or_empty (split b).path) ≠ [])
    (hnsp : (((split a).query.isSome || (split a).fragment.isSome) &&
      ((split a).query.isSome || (split b).query.isNone) &&
      some (renderRel (relSegs a b)) == Path.last (split b).path) = false) :
    ∃ r t, Ref.relative_to a b = some r ∧ Ref.resolve r b = some t ∧ key t = key a := by
  have haR : Matches G.reference a := Matches.altL ha
  have hbR : Matches G.reference b := Matches.altL hb
  obtain ⟨_, _, hLne0, hcls⟩ := root_remainder a b hroot hbelow
  have hrel := relative_to_explicit G ok okp oka we a b aa ab haR hbR hsch haa hab hauth hpa hpb hLne0 hcls hnsp
  exact relative_roundtrip_root_core G ok okp oka we a b (some ab) ha hb hsch hab
    (by rw [haa]; simp only [Option.map_some, hauth]) hpa
    (hpb.elim .inl (fun h => .inr ⟨h, rfl⟩)) hroot hbelow hrel

/-- … and without authority on either side (`s:/` relative to `s:/a/b` is `..`) -/
theorem relative_roundtrip_root_noauth (oka : Grammar.OkAuth G) (we : Grammar.OkWE G) (a b : Text)
    (ha : Matches G.full a) (hb : Matches G.full b)
    (hsch : (split a).scheme = (split b).scheme)
    (haa : (split a).authority = none) (hab : (split b).authority = none)
    (hpa : isAbs (split a).path = true) (hpb : isAbs (split b).path = true)
    (hroot : nsegs (split a).path = [])
    (hbelow : nsegs (Path.parent_or_empty (split b).path) ≠ [])
    (hnsp : (((split a).query.isSome || (split a).fragment.isSome) &&
      ((split a).query.isSome || (split b).query.isNone) &&
      some (renderRel (relSegs a b)) == Path.last (split b).path) = false) :
    ∃ r t, Ref.relative_to a b = some r ∧ Ref.resolve r b = some t ∧ key t = key a := by
  have haR : Matches G.reference a := Matches.altL ha
  have hbR : Matches G.reference b := Matches.altL hb
  obtain ⟨_, _, hLne0, hcls⟩ := root_remainder a b hroot hbelow
  have hrel := relative_to_explicit_noauth G ok okp we a b haR hbR hsch haa hab hpa hpb hLne0 hcls hnsp
  exact relative_roundtrip_root_core G ok okp oka we a b none ha hb hsch hab (by rw [haa]) hpa
    (.inl hpb) hroot hbelow hrel

end

end IrefVerif.Lemmas
