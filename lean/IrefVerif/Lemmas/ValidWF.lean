import IrefVerif.Lemmas.Structure
import IrefVerif.Lemmas.WF

/-!
# Valid components are well-formed components

`ValidParts G P → WF P`, so that (with `split_recompose` and `reference_iff`) for every valid
reference `w`: `split w` is *the* list of valid components whose recomposition is `w`.
The facts about the leaf character classes that this needs are collected in `Grammar.Ok`;
they are closed Boolean statements, proved for both grammars by `decide`.
-/

set_option linter.unusedSimpArgs false

namespace IrefVerif.Lemmas
open IrefVerif IrefVerif.RE IrefVerif.Spec IrefVerif.Model.Parse

/-- what the structure lemmas need to know about the leaf classes of a grammar -/
structure Grammar.Ok (G : Grammar) : Prop where
  authority : ([0x2F, 0x3F, 0x23] : List Nat).all (fun d => !inAlphabet G.authority d) = true
  abempty : ([0x3F, 0x23] : List Nat).all (fun d => !inAlphabet G.pathAbempty d) = true
  segNz : ([0x2F, 0x3F, 0x23] : List Nat).all (fun d => !inAlphabet G.segmentNz d) = true
  segNzNc : ([0x2F, 0x3F, 0x23, 0x3A] : List Nat).all (fun d => !inAlphabet G.segmentNzNc d) = true
  segNz_ne : G.segmentNz.nullable = false
  segNzNc_ne : G.segmentNzNc.nullable = false
  query : inAlphabet G.query 0x23 = false

theorem uriG_ok : Grammar.Ok uriG := by
  constructor <;> decide

theorem iriG_ok : Grammar.Ok iriG := by
  constructor <;> decide

theorem scheme_alpha : ([0x3A, 0x2F, 0x3F, 0x23] : List Nat).all (fun d => !inAlphabet Rfc3986.scheme d) = true := by
  decide

theorem scheme_ne : Rfc3986.scheme.nullable = false := by decide

/-- every symbol of a matched word avoids the listed symbols -/
theorem matches_excl {r : RE} {w : Text} {ds : List Nat}
    (hd : ds.all (fun d => !inAlphabet r d) = true) (h : Matches r w) : ∀ c ∈ w, c ∉ ds := by
  intro c hc hcd
  have h1 := matches_alphabet h c hc
  have h2 := List.all_eq_true.mp hd c hcd
  simp [h1] at h2

theorem nCSQH_of_not_mem {c : Nat} (h : c ∉ ([0x3A, 0x2F, 0x3F, 0x23] : List Nat)) : nCSQH c = true := by
  simp only [List.mem_cons, List.mem_nil_iff, or_false, not_or] at h
  simp [nCSQH, cColon, cSlash, cQuest, cHash, h.1, h.2.1, h.2.2.1, h.2.2.2]

theorem nSQH_of_not_mem {c : Nat} (h : c ∉ ([0x2F, 0x3F, 0x23] : List Nat)) : nSQH c = true := by
  simp only [List.mem_cons, List.mem_nil_iff, or_false, not_or] at h
  simp [nSQH, cSlash, cQuest, cHash, h.1, h.2.1, h.2.2]

theorem nQH_of_not_mem {c : Nat} (h : c ∉ ([0x3F, 0x23] : List Nat)) : nQH c = true := by
  simp only [List.mem_cons, List.mem_nil_iff, or_false, not_or] at h
  simp [nQH, cQuest, cHash, h.1, h.2]

/-- `path-abempty` is empty or begins with `/` -/
theorem abempty_head (G : Grammar) {p : Text} (h : Matches G.pathAbempty p) :
    p = [] ∨ ∃ r, p = cSlash :: r := by
  cases p with
  | nil => exact .inl rfl
  | cons c w =>
    right
    obtain ⟨u, v, _, h1, _⟩ := matches_star_cons.mp h
    obtain ⟨a, b, hab, ha, _⟩ := matches_seq.mp h1
    have ha' := matches_ch.mp ha
    subst ha'
    simp at hab
    exact ⟨w, by rw [hab.1]; rfl⟩

/-- the alphabet of `path-abempty` within a grammar whose segments exclude `? #` -/
theorem abempty_nQH (G : Grammar) (ok : Grammar.Ok G) {p : Text} (h : Matches G.pathAbempty p) :
    ∀ c ∈ p, nQH c = true :=
  fun c hc => nQH_of_not_mem (matches_excl ok.abempty h c hc)

/-- a non-nullable expression matches only non-empty words whose head is in its alphabet -/
theorem matches_head {r : RE} {w : Text} (hne : r.nullable = false) (h : Matches r w) :
    ∃ c rest, w = c :: rest ∧ inAlphabet r c = true := by
  cases w with
  | nil => have := matches_nil_iff.mp h; rw [hne] at this; cases this
  | cons c rest => exact ⟨c, rest, rfl, matches_alphabet h c List.mem_cons_self⟩

theorem startsSS_cons_cons (a b : Nat) (r : Text) : startsSS (a :: b :: r) = (a == cSlash && b == cSlash) := rfl

/-- `path-absolute` does not begin with `//` and has no `? #` -/
theorem absolute_props (G : Grammar) (ok : Grammar.Ok G) {p : Text} (h : Matches G.pathAbsolute p) :
    (∃ r, p = cSlash :: r) ∧ startsSS p = false ∧ ∀ c ∈ p, nQH c = true := by
  obtain ⟨u, v, rfl, hu, hv⟩ := matches_seq.mp h
  have hu' := matches_ch.mp hu
  subst hu'
  refine ⟨⟨v, rfl⟩, ?_, ?_⟩
  · rcases matches_opt.mp hv with rfl | hv
    · rfl
    · obtain ⟨a, b, rfl, ha, hb⟩ := matches_seq.mp hv
      obtain ⟨c, rest, rfl, hc⟩ := matches_head ok.segNz_ne ha
      have : c ≠ 0x2F := by
        intro hcs; subst hcs
        have := List.all_eq_true.mp ok.segNz 0x2F (by simp)
        simp [hc] at this
      simp only [List.singleton_append, List.cons_append, List.nil_append]
      rw [startsSS_cons_cons]
      simp [cSlash, this]
  · intro c hc
    simp only [List.singleton_append, List.mem_cons] at hc
    rcases hc with rfl | hc
    · rfl
    · rcases matches_opt.mp hv with rfl | hv
      · simp at hc
      · obtain ⟨a, b, rfl, ha, hb⟩ := matches_seq.mp hv
        rcases List.mem_append.mp hc with hc | hc
        · apply nQH_of_not_mem
          have := matches_excl ok.segNz ha c hc
          intro hm; apply this
          simp only [List.mem_cons, List.mem_nil_iff, or_false] at hm ⊢
          rcases hm with rfl | rfl <;> simp
        · exact abempty_nQH G ok hb c hc

/-- `path-rootless` (and `path-noscheme`) do not begin with `/` -/
theorem rootlessLike_props (G : Grammar) (ok : Grammar.Ok G) (first : RE) (hne : first.nullable = false)
    (halpha : ([0x2F, 0x3F, 0x23] : List Nat).all (fun d => !inAlphabet first d) = true)
    {p : Text} (h : Matches (seq first G.pathAbempty) p) :
    startsSS p = false ∧ (∀ c ∈ p, nQH c = true) ∧ ∃ c r, p = c :: r ∧ c ≠ cSlash := by
  obtain ⟨a, b, rfl, ha, hb⟩ := matches_seq.mp h
  obtain ⟨c, rest, rfl, hc⟩ := matches_head hne ha
  have hcs : c ≠ cSlash := by
    intro hcs; subst hcs
    have := List.all_eq_true.mp halpha 0x2F (by simp)
    simp [cSlash] at hc
    simp [hc] at this
  refine ⟨?_, ?_, ⟨c, rest ++ b, rfl, hcs⟩⟩
  · cases h' : rest ++ b with
    | nil => simp [h', startsSS]
    | cons d r => simp [h', startsSS_cons_cons, hcs]
  · intro x hx
    rcases List.mem_append.mp hx with hx | hx
    · apply nQH_of_not_mem
      have := matches_excl halpha ha x hx
      intro hm; apply this
      simp only [List.mem_cons, List.mem_nil_iff, or_false] at hm ⊢
      rcases hm with rfl | rfl <;> simp
    · exact abempty_nQH G ok hb x hx

theorem fsc_append_slash (u v : Text) (hu : ∀ c ∈ u, c ≠ cColon) (hv : v = [] ∨ ∃ r, v = cSlash :: r) :
    fsc (u ++ v) = false := by
  induction u with
  | nil =>
    rcases hv with rfl | ⟨r, rfl⟩
    · rfl
    · simp [fsc, cSlash, cColon]
  | cons c u ih =>
    have hc := hu c List.mem_cons_self
    have hc' : (c == cColon) = false := by simpa using hc
    simp only [List.cons_append, fsc, hc', Bool.false_eq_true, if_false]
    split
    · rfl
    · exact ih (fun x hx => hu x (List.mem_cons_of_mem _ hx))

/-- **valid components are well-formed components** -/
theorem wf_of_valid (G : Grammar) (ok : Grammar.Ok G) (P : Spec.Parts) (hv : ValidParts G P) : WF P := by
  constructor
  · intro s hs
    have hm := hv.scheme s hs
    refine ⟨?_, fun c hc => nCSQH_of_not_mem (matches_excl scheme_alpha hm c hc)⟩
    intro hnil; subst hnil
    have := matches_nil_iff.mp hm
    rw [scheme_ne] at this; cases this
  · intro a ha c hc
    exact nSQH_of_not_mem (matches_excl ok.authority (hv.authority a ha) c hc)
  · intro c hc
    cases ha : P.authority with
    | some a => exact abempty_nQH G ok (hv.pathAuth (by simp [ha])) c hc
    | none =>
      cases hs : P.scheme with
      | some s =>
        rcases hv.pathScheme ha (by simp [hs]) with h | h | h
        · exact (absolute_props G ok h).2.2 c hc
        · exact (rootlessLike_props G ok G.segmentNz ok.segNz_ne ok.segNz h).2.1 c hc
        · rw [h] at hc; simp at hc
      | none =>
        rcases hv.pathRel ha hs with h | h | h
        · exact (absolute_props G ok h).2.2 c hc
        · have hal : ([0x2F, 0x3F, 0x23] : List Nat).all (fun d => !inAlphabet G.segmentNzNc d) = true := by
            have := ok.segNzNc
            simp only [List.all_cons, List.all_nil, Bool.and_true, Bool.and_eq_true] at this ⊢
            exact ⟨this.1, this.2.1, this.2.2.1⟩
          exact (rootlessLike_props G ok G.segmentNzNc ok.segNzNc_ne hal h).2.1 c hc
        · rw [h] at hc; simp at hc
  · intro q hq c hc
    have := matches_alphabet (hv.query q hq) c hc
    simp only [nH]
    have hne : c ≠ 0x23 := by intro h; subst h; rw [ok.query] at this; cases this
    simpa [cHash] using hne
  · intro ha
    exact abempty_head G (hv.pathAuth ha)
  · intro ha
    cases hs : P.scheme with
    | some s =>
      rcases hv.pathScheme ha (by simp [hs]) with h | h | h
      · exact (absolute_props G ok h).2.1
      · exact (rootlessLike_props G ok G.segmentNz ok.segNz_ne ok.segNz h).1
      · rw [h]; rfl
    | none =>
      rcases hv.pathRel ha hs with h | h | h
      · exact (absolute_props G ok h).2.1
      · have hal : ([0x2F, 0x3F, 0x23] : List Nat).all (fun d => !inAlphabet G.segmentNzNc d) = true := by
          have := ok.segNzNc
          simp only [List.all_cons, List.all_nil, Bool.and_true, Bool.and_eq_true] at this ⊢
          exact ⟨this.1, this.2.1, this.2.2.1⟩
        exact (rootlessLike_props G ok G.segmentNzNc ok.segNzNc_ne hal h).1
      · rw [h]; rfl
  · intro hs ha
    rcases hv.pathRel ha hs with h | h | h
    · obtain ⟨⟨r, hr⟩, _, _⟩ := absolute_props G ok h
      rw [hr]; simp [fsc, cSlash, cColon]
    · obtain ⟨u, v, huv, hu, hvv⟩ := matches_seq.mp h
      rw [huv]
      apply fsc_append_slash _ _ _ (abempty_head G hvv)
      intro c hc
      have := matches_excl ok.segNzNc hu c hc
      intro hcc; apply this; subst hcc; simp [cColon]
    · rw [h]; rfl

/-- **the components of a valid reference are valid, and are what `split` returns** -/
theorem split_valid (G : Grammar) (ok : Grammar.Ok G) (w : Text) (h : Matches G.reference w) :
    ValidParts G (split w) ∧ WF (split w) := by
  obtain ⟨P, hP, hv⟩ := (reference_iff G w).mp h
  have hwf := wf_of_valid G ok P hv
  have : split w = P := by rw [← hP]; exact split_recompose P hwf
  rw [this]; exact ⟨hv, hwf⟩

/-- a valid reference does not begin with `:` -/
theorem valid_head (G : Grammar) (ok : Grammar.Ok G) (w : Text) (h : Matches G.reference w) :
    w.head? ≠ some cColon := by
  obtain ⟨P, hP, hv⟩ := (reference_iff G w).mp h
  have hwf := wf_of_valid G ok P hv
  rw [← hP, recompose_eq]
  obtain ⟨sch, au, pa, qu, fr⟩ := P
  cases sch with
  | some s =>
    obtain ⟨hne, hs⟩ := hwf.scheme s rfl
    cases s with
    | nil => exact absurd rfl hne
    | cons c s =>
      have := hs c List.mem_cons_self
      simp only [schemeText, List.cons_append, List.append_assoc, List.head?_cons, ne_eq, Option.some.injEq]
      intro hc; subst hc; simp [nCSQH] at this
  | none =>
    cases au with
    | some a => simp [schemeText, authText, cSlash, cColon]
    | none =>
      have hfs := hwf.noColon rfl rfl
      simp only [schemeText, authText, List.nil_append]
      cases pa with
      | nil =>
        cases qu with
        | some q => simp [queryText, cQuest, cColon]
        | none =>
          cases fr with
          | some f => simp [queryText, fragText, cHash, cColon]
          | none => simp [queryText, fragText]
      | cons c pa =>
        simp only [List.cons_append, List.head?_cons, ne_eq, Option.some.injEq]
        intro hc; subst hc
        simp [fsc] at hfs

end IrefVerif.Lemmas
