import IrefVerif.Lemmas.Span

/-!
# Authority: `[ userinfo "@" ] host [ ":" port ]`

`recomposeAuth ∘ splitAuth = id` for every text, and `splitAuth ∘ recomposeAuth = id` on
well-formed sub-components (`WFA`): the text determines user info, host and port.
-/

set_option linter.unusedSimpArgs false

namespace IrefVerif.Lemmas
open IrefVerif.Spec

def uiText : Option Text → Text
  | some u => u ++ [cAt]
  | none => []

def portText : Option Text → Text
  | some q => cColon :: q
  | none => []

@[simp] theorem portText_some (q : Text) : portText (some q) = cColon :: q := rfl
@[simp] theorem portText_none : portText none = [] := rfl
@[simp] theorem uiText_some (u : Text) : uiText (some u) = u ++ [cAt] := rfl
@[simp] theorem uiText_none : uiText none = [] := rfl

theorem recomposeAuth_eq (A : AuthParts) : recomposeAuth A = uiText A.userinfo ++ A.host ++ portText A.port := by
  obtain ⟨u, h, p⟩ := A
  cases u <;> cases p <;> rfl

theorem notIn_single_true {d c : Nat} : notIn [d] c = true ↔ c ≠ d := by
  simp only [notIn, List.contains, List.elem]
  by_cases h : c = d
  · subst h; simp
  · have : (c == d) = false := by simpa using h
    simp [this, h]

theorem notIn_single_false {d c : Nat} (h : notIn [d] c = false) : c = d := by
  have : ¬ (c ≠ d) := fun hne => by
    have := notIn_single_true.mpr hne
    rw [this] at h; cases h
  exact Classical.not_not.mp this

theorem splitHostPort_recompose (w : Text) :
    (splitHostPort w).1 ++ portText (splitHostPort w).2 = w := by
  unfold splitHostPort
  cases w with
  | nil => rfl
  | cons c l =>
    simp only
    by_cases hb : (c == cLBr) = true
    · simp only [hb, if_true]
      have happ := spanP_append (notIn [cRBr]) (c :: l)
      generalize hsp : spanP (notIn [cRBr]) (c :: l) = sp at happ
      obtain ⟨inner, rest⟩ := sp
      simp only at happ ⊢
      cases rest with
      | nil => simp
      | cons r rest' =>
        cases rest' with
        | nil => simp [← happ]
        | cons d port =>
          simp only
          by_cases hd : (d == cColon) = true
          · have : d = cColon := by simpa using hd
            subst this
            simp [← happ]
          · simp [hd]
    · have hb' : (c == cLBr) = false := by simpa using hb
      simp only [hb', Bool.false_eq_true, if_false]
      have happ := spanP_append (notIn [cColon]) (c :: l)
      have hhead := spanP_snd_head (notIn [cColon]) (c :: l)
      generalize hsp : spanP (notIn [cColon]) (c :: l) = sp at happ hhead
      obtain ⟨host, rest⟩ := sp
      simp only at happ hhead ⊢
      cases rest with
      | nil => simpa using happ
      | cons d port =>
        have := notIn_single_false (hhead d port rfl)
        subst this
        simpa using happ

/-- reassembly, for every text -/
theorem recomposeAuth_splitAuth (a : Text) : recomposeAuth (splitAuth a) = a := by
  rw [recomposeAuth_eq]
  unfold splitAuth
  have happ := spanP_append (notIn [cAt]) a
  have hhead := spanP_snd_head (notIn [cAt]) a
  generalize hsp : spanP (notIn [cAt]) a = sp at happ hhead
  obtain ⟨u, rest⟩ := sp
  simp only at happ hhead ⊢
  cases rest with
  | nil =>
    simp only
    have := splitHostPort_recompose a
    simpa [List.append_assoc] using this
  | cons d hp =>
    have hd := notIn_single_false (hhead d hp rfl)
    subst hd
    simp only
    have := splitHostPort_recompose hp
    rw [← happ, List.append_assoc, this]
    simp [List.append_assoc]

/-- well-formed sub-components -/
structure WFA (A : AuthParts) : Prop where
  userinfo : ∀ u, A.userinfo = some u → cAt ∉ u
  hostAt : cAt ∉ A.host
  port : ∀ p, A.port = some p → cAt ∉ p
  /-- an IP-literal is bracketed and has no `]` inside; any other host has no `:` -/
  host : (∃ inner, A.host = cLBr :: inner ++ [cRBr] ∧ cRBr ∉ inner) ∨
         (A.host.head? ≠ some cLBr ∧ cColon ∉ A.host)

theorem all_notIn_of_not_mem {d : Nat} {l : Text} (h : d ∉ l) : ∀ c ∈ l, notIn [d] c = true := by
  intro c hc
  apply notIn_single_true.mpr
  intro hcd; subst hcd; exact h hc

theorem splitHostPort_of_wf (h : Text) (p : Option Text)
    (hh : (∃ inner, h = cLBr :: inner ++ [cRBr] ∧ cRBr ∉ inner) ∨ (h.head? ≠ some cLBr ∧ cColon ∉ h)) :
    splitHostPort (h ++ portText p) = (h, p) := by
  rcases hh with ⟨inner, rfl, hin⟩ | ⟨hhd, hnc⟩
  · -- IP-literal
    unfold splitHostPort
    simp only [List.cons_append, beq_self_eq_true, if_true]
    have hall : ∀ c ∈ cLBr :: inner, notIn [cRBr] c = true := by
      intro c hc
      rcases List.mem_cons.mp hc with rfl | hc
      · simp [notIn, List.contains, List.elem, cLBr, cRBr]
      · exact all_notIn_of_not_mem hin c hc
    have hsp : spanP (notIn [cRBr]) (cLBr :: (inner ++ [cRBr] ++ portText p))
        = (cLBr :: inner, cRBr :: portText p) := by
      have := spanP_append_of_all (p := notIn [cRBr]) (u := cLBr :: inner)
        (v := cRBr :: portText p) hall
        (by intro c r h; injection h with h _; subst h; simp [notIn, List.contains, List.elem])
      simpa [List.append_assoc] using this
    rw [hsp]
    cases p with
    | some q => simp
    | none => simp
  · -- reg-name / IPv4
    unfold splitHostPort
    have hall := all_notIn_of_not_mem hnc
    cases h with
    | nil =>
      cases p with
      | some q => simp [spanP, notIn, List.contains, List.elem, cColon, cLBr]
      | none => rfl
    | cons c l =>
      have hc : (c == cLBr) = false := by
        simp only [List.head?_cons, ne_eq, Option.some.injEq] at hhd
        simpa using hhd
      simp only [List.cons_append, hc, Bool.false_eq_true, if_false]
      have hsp : spanP (notIn [cColon]) (c :: (l ++ portText p))
          = (c :: l, portText p) := by
        have := spanP_append_of_all (p := notIn [cColon]) (u := c :: l)
          (v := portText p) hall
          (by
            intro d r h
            cases p with
            | some q => simp at h; obtain ⟨rfl, _⟩ := h; simp [notIn, List.contains, List.elem]
            | none => simp at h)
        simpa using this
      rw [hsp]
      cases p with
      | some q => simp
      | none => simp

/-- **uniqueness**: user info, host and port are determined by the text -/
theorem splitAuth_recompose (A : AuthParts) (wf : WFA A) : splitAuth (recomposeAuth A) = A := by
  obtain ⟨ui, h, p⟩ := A
  rw [recomposeAuth_eq]
  unfold splitAuth
  simp only
  have hhp := splitHostPort_of_wf h p wf.host
  cases ui with
  | some u =>
    have hu := all_notIn_of_not_mem (wf.userinfo u rfl)
    have hsp : spanP (notIn [cAt]) (u ++ [cAt] ++ h ++ portText p)
        = (u, cAt :: (h ++ portText p)) := by
      have := spanP_append_of_all (p := notIn [cAt]) (u := u)
        (v := cAt :: (h ++ portText p)) hu
        (by intro c r hh; injection hh with hh _; subst hh; simp [notIn, List.contains, List.elem])
      simpa [List.append_assoc] using this
    simp only [uiText_some, hsp, hhp]
  | none =>
    have hall : ∀ c ∈ h ++ portText p, notIn [cAt] c = true := by
      intro c hc
      apply notIn_single_true.mpr
      intro hcd; subst hcd
      rcases List.mem_append.mp hc with hc | hc
      · exact wf.hostAt hc
      · cases p with
        | some q =>
          simp only [portText_some, List.mem_cons] at hc
          rcases hc with hc | hc
          · simp [cAt, cColon] at hc
          · exact wf.port q rfl hc
        | none => simp at hc
    have hsp := spanP_of_all hall
    simp only [uiText_none, List.nil_append, hsp, hhp]

end IrefVerif.Lemmas
