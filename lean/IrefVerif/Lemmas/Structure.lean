import IrefVerif.Spec.Grammar
import IrefVerif.Spec.Decompose
import IrefVerif.Lemmas.Split

/-!
# A reference is its five components

`Matches G.reference w ↔ ∃ P, recompose P = w ∧ ValidParts G P`: a text is a URI/IRI reference
exactly when it is the recomposition of component values of the right productions (with the
path production chosen by the presence of scheme and authority, as in RFC 3986 §3).
-/

set_option linter.unusedSimpArgs false

namespace IrefVerif.Lemmas
open IrefVerif IrefVerif.RE IrefVerif.Spec

/-- component-wise validity, with the RFC's context-dependent choice of the path production -/
structure ValidParts (G : Grammar) (P : Spec.Parts) : Prop where
  scheme : ∀ s, P.scheme = some s → Matches Rfc3986.scheme s
  authority : ∀ a, P.authority = some a → Matches G.authority a
  pathAuth : P.authority.isSome → Matches G.pathAbempty P.path
  pathScheme : P.authority = none → P.scheme.isSome →
    Matches G.pathAbsolute P.path ∨ Matches G.pathRootless P.path ∨ P.path = []
  pathRel : P.authority = none → P.scheme = none →
    Matches G.pathAbsolute P.path ∨ Matches G.pathNoscheme P.path ∨ P.path = []
  query : ∀ q, P.query = some q → Matches G.query q
  fragment : ∀ f, P.fragment = some f → Matches G.fragment f

theorem matches_lit2 {a b : Nat} {w : Text} : Matches (lit [a, b]) w ↔ w = [a, b] := by
  simp only [lit, matches_seq, matches_ch]
  constructor
  · rintro ⟨u, v, rfl, rfl, rfl⟩; rfl
  · rintro rfl; exact ⟨[a], [b], rfl, rfl, rfl⟩

/-- `[ "?" query ] [ "#" fragment ]` -/
theorem queryFragment_inv (G : Grammar) (w : Text) :
    Matches G.queryFragment w ↔
      ∃ q f : Option Text, w = queryText q ++ fragText f ∧
        (∀ x, q = some x → Matches G.query x) ∧ (∀ x, f = some x → Matches G.fragment x) := by
  simp only [Grammar.queryFragment, matches_seq, matches_opt, matches_ch]
  constructor
  · rintro ⟨u, v, rfl, hu, hv⟩
    rcases hu with rfl | ⟨a, b, rfl, rfl, hq⟩
    · rcases hv with rfl | ⟨c, d, rfl, rfl, hf⟩
      · exact ⟨none, none, rfl, by simp, by simp⟩
      · exact ⟨none, some d, rfl, by simp, by simpa using hf⟩
    · rcases hv with rfl | ⟨c, d, rfl, rfl, hf⟩
      · exact ⟨some b, none, by simp [queryText, fragText, cQuest], by simpa using hq, by simp⟩
      · exact ⟨some b, some d, by simp [queryText, fragText, cQuest, cHash], by simpa using hq, by simpa using hf⟩
  · rintro ⟨q, f, rfl, hq, hf⟩
    refine ⟨queryText q, fragText f, rfl, ?_, ?_⟩
    · cases q with
      | none => exact .inl rfl
      | some x => exact .inr ⟨[cQuest], x, rfl, rfl, hq x rfl⟩
    · cases f with
      | none => exact .inl rfl
      | some x => exact .inr ⟨[cHash], x, rfl, rfl, hf x rfl⟩

/-- `"//" authority path-abempty` -/
theorem authPath_inv (G : Grammar) (w : Text) :
    Matches G.authPath w ↔ ∃ a p, w = [cSlash, cSlash] ++ a ++ p ∧ Matches G.authority a ∧ Matches G.pathAbempty p := by
  simp only [Grammar.authPath, seqs, matches_seq, matches_lit2]
  constructor
  · rintro ⟨u, v, rfl, rfl, a, p, rfl, ha, hp⟩
    exact ⟨a, p, by simp [cSlash], ha, hp⟩
  · rintro ⟨a, p, rfl, ha, hp⟩
    exact ⟨[0x2F, 0x2F], a ++ p, by simp [cSlash], rfl, a, p, rfl, ha, hp⟩

theorem matches_pathEmpty (G : Grammar) (w : Text) : Matches G.pathEmpty w ↔ w = [] := by
  simp [Grammar.pathEmpty, matches_eps]

/-- the full form: `scheme ":" hier-part [ "?" query ] [ "#" fragment ]` -/
theorem full_iff (G : Grammar) (w : Text) :
    Matches G.full w ↔ ∃ P : Spec.Parts, P.scheme.isSome ∧ recompose P = w ∧ ValidParts G P := by
  simp only [Grammar.full, seqs, matches_seq, matches_ch, Grammar.hierPart, alts, matches_alt,
    authPath_inv, queryFragment_inv, matches_pathEmpty]
  constructor
  · rintro ⟨s, r1, rfl, hs, c, r2, rfl, rfl, h, qf, rfl, hh, q, f, rfl, hq, hf⟩
    rcases hh with ⟨a, p, rfl, ha, hp⟩ | hp | hp | rfl
    · refine ⟨⟨some s, some a, p, q, f⟩, rfl, ?_, ?_⟩
      · rw [recompose_eq]; simp [schemeText, authText, cColon, cSlash, List.append_assoc]
      · exact ⟨by simpa using hs, by simpa using ha, fun _ => hp, by simp, by simp, hq, hf⟩
    · refine ⟨⟨some s, none, h, q, f⟩, rfl, ?_, ?_⟩
      · rw [recompose_eq]; simp [schemeText, authText, cColon, List.append_assoc]
      · exact ⟨by simpa using hs, by simp, by simp, fun _ _ => .inl hp, by simp, hq, hf⟩
    · refine ⟨⟨some s, none, h, q, f⟩, rfl, ?_, ?_⟩
      · rw [recompose_eq]; simp [schemeText, authText, cColon, List.append_assoc]
      · exact ⟨by simpa using hs, by simp, by simp, fun _ _ => .inr (.inl hp), by simp, hq, hf⟩
    · refine ⟨⟨some s, none, [], q, f⟩, rfl, ?_, ?_⟩
      · rw [recompose_eq]; simp [schemeText, authText, cColon, List.append_assoc]
      · exact ⟨by simpa using hs, by simp, by simp, fun _ _ => .inr (.inr rfl), by simp, hq, hf⟩
  · rintro ⟨⟨sch, au, pa, qu, fr⟩, hsome, rfl, hv⟩
    cases sch with
    | none => simp at hsome
    | some s =>
      rw [recompose_eq]
      refine ⟨s, [0x3A] ++ (authText au ++ pa ++ (queryText qu ++ fragText fr)), ?_, hv.scheme s rfl,
        [0x3A], authText au ++ pa ++ (queryText qu ++ fragText fr), rfl, rfl,
        authText au ++ pa, queryText qu ++ fragText fr, rfl, ?_, qu, fr, rfl, hv.query, hv.fragment⟩
      · simp [schemeText, cColon, List.append_assoc]
      · cases au with
        | some a => exact .inl ⟨a, pa, by simp [authText], hv.authority a rfl, hv.pathAuth rfl⟩
        | none =>
          rcases hv.pathScheme rfl rfl with h | h | h
          · exact .inr (.inl (by simpa [authText] using h))
          · exact .inr (.inr (.inl (by simpa [authText] using h)))
          · exact .inr (.inr (.inr (by simpa [authText] using h)))

/-- the relative form -/
theorem relativeRef_iff (G : Grammar) (w : Text) :
    Matches G.relativeRef w ↔ ∃ P : Spec.Parts, P.scheme = none ∧ recompose P = w ∧ ValidParts G P := by
  simp only [Grammar.relativeRef, matches_seq, Grammar.relativePart, alts, matches_alt,
    authPath_inv, queryFragment_inv, matches_pathEmpty]
  constructor
  · rintro ⟨h, qf, rfl, hh, q, f, rfl, hq, hf⟩
    rcases hh with ⟨a, p, rfl, ha, hp⟩ | hp | hp | rfl
    · refine ⟨⟨none, some a, p, q, f⟩, rfl, ?_, ?_⟩
      · rw [recompose_eq]; simp [schemeText, authText, cSlash, List.append_assoc]
      · exact ⟨by simp, by simpa using ha, fun _ => hp, by simp, by simp, hq, hf⟩
    · refine ⟨⟨none, none, h, q, f⟩, rfl, ?_, ?_⟩
      · rw [recompose_eq]; simp [schemeText, authText, List.append_assoc]
      · exact ⟨by simp, by simp, by simp, by simp, fun _ _ => .inl hp, hq, hf⟩
    · refine ⟨⟨none, none, h, q, f⟩, rfl, ?_, ?_⟩
      · rw [recompose_eq]; simp [schemeText, authText, List.append_assoc]
      · exact ⟨by simp, by simp, by simp, by simp, fun _ _ => .inr (.inl hp), hq, hf⟩
    · refine ⟨⟨none, none, [], q, f⟩, rfl, ?_, ?_⟩
      · rw [recompose_eq]; simp [schemeText, authText, List.append_assoc]
      · exact ⟨by simp, by simp, by simp, by simp, fun _ _ => .inr (.inr rfl), hq, hf⟩
  · rintro ⟨⟨sch, au, pa, qu, fr⟩, hnone, rfl, hv⟩
    simp only at hnone
    subst hnone
    rw [recompose_eq]
    refine ⟨authText au ++ pa, queryText qu ++ fragText fr, by simp [schemeText, List.append_assoc], ?_,
      qu, fr, rfl, hv.query, hv.fragment⟩
    cases au with
    | some a => exact .inl ⟨a, pa, by simp [authText], hv.authority a rfl, hv.pathAuth rfl⟩
    | none =>
      rcases hv.pathRel rfl rfl with h | h | h
      · exact .inr (.inl (by simpa [authText] using h))
      · exact .inr (.inr (.inl (by simpa [authText] using h)))
      · exact .inr (.inr (.inr (by simpa [authText] using h)))

/-- **a reference is the recomposition of valid components** -/
theorem reference_iff (G : Grammar) (w : Text) :
    Matches G.reference w ↔ ∃ P : Spec.Parts, recompose P = w ∧ ValidParts G P := by
  simp only [Grammar.reference, matches_alt, full_iff, relativeRef_iff]
  constructor
  · rintro (⟨P, _, h1, h2⟩ | ⟨P, _, h1, h2⟩) <;> exact ⟨P, h1, h2⟩
  · rintro ⟨P, h1, h2⟩
    cases hs : P.scheme with
    | some s => exact .inl ⟨P, by simp [hs], h1, h2⟩
    | none => exact .inr ⟨P, hs, h1, h2⟩

end IrefVerif.Lemmas
