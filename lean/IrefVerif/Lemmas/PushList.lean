import IrefVerif.Lemmas.PathMutView
import IrefVerif.Lemmas.Segs

/-!
# `push` appends exactly that segment (list semantics of `pushView`)

For every path view `v` and every `/`-free segment `s`, in every context (anchored or not, after
an authority or not, at the start of the buffer or not): the view after `push` realises the list
`segs v ++ [s]` — literally, behind one legitimate `.` shield, or, when `v` is the shield form
`/./` after an authority, as `alist v ++ [s]` (DESIGN §7.0 readings).
-/

set_option linter.unusedSimpArgs false

namespace IrefVerif.Lemmas
open IrefVerif.Spec IrefVerif.Model

theorem segs_nil : segs ([] : Text) = [] := rfl
theorem segs_root : segs [cSlash] = [] := by simp [segs, stripRoot]

theorem fsc_contains (s : Text) (h : fsc s = true) : containsColon s = true := by
  induction s with
  | nil => simp [fsc] at h
  | cons c s ih =>
    simp only [fsc] at h
    by_cases hc : (c == cColon) = true
    · have : c = cColon := by simpa using hc
      subst this; simp [containsColon]
    · have hc' : (c == cColon) = false := by simpa using hc
      simp only [hc', Bool.false_eq_true, if_false] at h
      split at h
      · cases h
      · have := ih h
        simp only [containsColon] at this ⊢
        simp only [List.contains_cons, this, Bool.or_true]

theorem segs_shielded (abs : Bool) (s : Text) (hs : cSlash ∉ s) :
    segs ((if abs then [cSlash] else []) ++ [cDot, cSlash] ++ s) = [segDot, s] := by
  have h1 : splitSlash ([cDot] ++ cSlash :: s) = splitSlash [cDot] ++ [s] := splitSlash_append [cDot] s hs
  have h2 : splitSlash [cDot] = [[cDot]] := by simp [splitSlash, cDot, cSlash]
  cases abs
  · simp only [Bool.false_eq_true, if_false, List.nil_append, segs, stripRoot]
    have : (cDot == cSlash) = false := by decide
    simp only [List.cons_append, this, Bool.false_eq_true, if_false]
    have := h1
    simp only [List.cons_append, List.nil_append, h2] at this
    simpa [segDot] using this
  · simp only [if_true, segs, stripRoot, List.cons_append, List.nil_append, beq_self_eq_true]
    have := h1
    simp only [List.cons_append, List.nil_append, h2] at this
    simpa [segDot] using this

theorem pushView_realises (anch fa atStart : Bool) (v s : Text) (hs : cSlash ∉ s) :
    realises (pushView anch fa atStart v s) (segs v ++ [s]) = true ∨
    realises (pushView anch fa atStart v s) (alist v ++ [s]) = true := by
  unfold pushView
  simp only []
  generalize hv1 : (if anch && v.isEmpty then [cSlash] else v) = v1
  by_cases hem : Path.is_empty v1 = true
  · -- the path has no segment yet
    have hsv : segs v = [] := by
      by_cases hc : (anch && v.isEmpty) = true
      · have : v = [] := by
          simp only [Bool.and_eq_true] at hc
          simpa using hc.2
        subst this; rfl
      · have hc' : (anch && v.isEmpty) = false := by simpa using hc
        simp only [hc', Bool.false_eq_true, if_false] at hv1
        subst hv1
        rcases is_empty_cases hem with e | e <;> rw [e]
        · rfl
        · exact segs_root
    have hv1c : v1 = (if isAbs v1 then [cSlash] else []) := by
      rcases is_empty_cases hem with e | e <;> subst e <;> rfl
    simp only [hem, if_true, hsv, List.nil_append]
    left
    by_cases hd : ((atStart && fsc s) || s.isEmpty) = true
    · simp only [hd, if_true]
      rw [hv1c]
      have hsg := segs_shielded (isAbs v1) s hs
      have hns : needsShieldHead [s] = true := by
        simp only [needsShieldHead]
        rcases Bool.or_eq_true _ _ |>.mp hd with h | h
        · simp only [Bool.and_eq_true] at h
          simp [fsc_contains s h.2]
        · simp [h]
      simp only [realises, hns, Bool.true_and, Bool.or_eq_true, decide_eq_true_eq]
      right
      simpa [List.append_assoc] using hsg
    · have hd' : ((atStart && fsc s) || s.isEmpty) = false := by simpa using hd
      simp only [hd', Bool.false_eq_true, if_false]
      have hne : s ≠ [] := by
        intro e; subst e; simp at hd'
      rw [hv1c]
      simp [realises, segs_push_empty (isAbs v1) s hs hne]
  · have hem' : Path.is_empty v1 = false := by simpa using hem
    have hvv : v1 = v := by
      by_cases hc : (anch && v.isEmpty) = true
      · simp only [hc, if_true] at hv1
        subst hv1; simp [Path.is_empty] at hem'
      · have hc' : (anch && v.isEmpty) = false := by simpa using hc
        simpa [hc'] using hv1.symm
    subst hvv
    simp only [hem', Bool.false_eq_true, if_false]
    by_cases h3 : (fa && v1 == [cSlash, cDot, cSlash]) = true
    · simp only [h3, if_true]
      have hv3 : v1 = [cSlash, cDot, cSlash] := by
        simp only [Bool.and_eq_true] at h3
        simpa using h3.2
      subst hv3
      right
      -- `/./` read as the shield of an empty first segment
      have ha : alist [cSlash, cDot, cSlash] = [[]] := by decide
      have hq : segs ([cSlash, cSlash] ++ s) = [[], s] := by
        have := splitSlash_append [] s hs
        simp only [List.nil_append] at this
        simp only [segs, stripRoot, List.cons_append, List.nil_append, beq_self_eq_true, if_true]
        simpa [splitSlash] using this
      simp only [realises, ha, Bool.or_eq_true, decide_eq_true_eq]
      left
      simpa using hq
    · have h3' : (fa && v1 == [cSlash, cDot, cSlash]) = false := by simpa using h3
      simp only [h3', Bool.false_eq_true, if_false]
      left
      have hsr : stripRoot v1 ≠ [] := by
        intro e
        cases v1 with
        | nil => simp [Path.is_empty] at hem'
        | cons c r =>
          simp only [stripRoot] at e
          split at e
          · rename_i hc
            have : c = cSlash := by simpa using hc
            subst this; subst e
            simp [Path.is_empty] at hem'
          · cases e
      simp [realises, (segs_push v1 s hsr hs).1]

end IrefVerif.Lemmas
