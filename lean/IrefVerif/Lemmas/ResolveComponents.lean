import IrefVerif.Lemmas.ResolveTotal

/-!
# Component selection of `resolve` is RFC 3986 §5.2.2 in every branch

With no side condition: for every valid base and reference the model of `resolve` returns a valid
full URI/IRI whose scheme, authority, query and fragment are exactly those of the RFC target
`transform (split base) (split ref)`.  (The path is the RFC's under the conditions of C06's
branch theorems; otherwise it is a shielded rendering.)
-/

set_option linter.unusedSimpArgs false

namespace IrefVerif.Lemmas
open IrefVerif IrefVerif.RE IrefVerif.Spec IrefVerif.Model IrefVerif.Props

/-- the four components that never need a shield -/
def SameFrame (P T : Spec.Parts) : Prop :=
  P.scheme = T.scheme ∧ P.authority = T.authority ∧ P.query = T.query ∧ P.fragment = T.fragment

section
variable (G : Grammar) (ok : Grammar.Ok G) (okp : Grammar.OkPath G)
include ok okp

/-- one setter call, with the decomposition of its result -/
theorem setter_split (w : Text) (hw : Matches G.reference w) (op : C04.SetOp) (hop : op.Valid G) :
    ∃ w', C04.setStep w op = some w' ∧ Matches G.reference w' ∧ split w' = C04.applyOp (split w) op := by
  obtain ⟨e, v, sp⟩ := C04.setter_step_spec G ok okp w hw op hop
  exact ⟨_, e, (reference_iff G _).mpr ⟨_, rfl, v⟩, sp⟩

theorem resolve_components (base r : Text) (hb : Matches G.full base) (hr : Matches G.reference r) :
    ∃ t, Ref.resolve r base = some t ∧ Matches G.full t ∧ SameFrame (split t) (resolveSpec base r) := by
  have hbF : FullV G base := (C02.full_iff_scheme G ok base).mp hb
  obtain ⟨vB, wB⟩ := split_valid G ok base hbF.1
  obtain ⟨vR, wR⟩ := split_valid G ok r hr
  obtain ⟨sb, hsb⟩ := Option.isSome_iff_exists.mp hbF.2
  have hsch : Ref.scheme base = sb := by
    have := ref_scheme_full (split base) wB sb hsb
    rwa [Lemmas.recompose_split] at this
  have hauth : Ref.authority base = (split base).authority := by
    have := ref_authority_recompose (split base) wB
    rwa [Lemmas.recompose_split] at this
  have hpathB : Ref.path base = (split base).path := by
    have := ref_path_recompose (split base) wB
    rwa [Lemmas.recompose_split] at this
  have hqB : Ref.query base = (split base).query := by
    have := ref_query_recompose (split base) wB
    rwa [Lemmas.recompose_split] at this
  have hrp := reference_parts_recompose (split r) wR
  rw [Lemmas.recompose_split] at hrp
  unfold Ref.resolve resolveSpec transform
  simp only [hrp, rangesOf, Option.isSome_map, hsch, hauth, hpathB, hqB]
  cases hs : (split r).scheme with
  | some s =>
    -- the reference has a scheme
    simp only [Option.isSome_some, if_true]
    obtain ⟨t, e, v, sc, st⟩ := rds_total G ok okp r hr
    refine ⟨t, e, fullV_of G ok t v (by rw [sc, hs]; rfl), ?_⟩
    rw [st]
    exact ⟨hs, rfl, rfl, rfl⟩
  | none =>
    simp only [Option.isSome_none, Bool.false_eq_true, if_false]
    obtain ⟨b1, e1, v1, s1⟩ := setter_split G ok okp r hr (.scheme (some sb)) (by
      intro s hss; simp only [Option.some.injEq] at hss; subst hss; exact vB.scheme sb hsb)
    simp only [C04.setStep] at e1
    simp only [C04.applyOp] at s1
    simp only [Option.bind_eq_bind, e1, Option.bind_some]
    cases ha : (split r).authority with
    | some a =>
      simp only [Option.isSome_some, if_true]
      obtain ⟨t, e, v, sc, st⟩ := rds_total G ok okp b1 v1
      refine ⟨t, e, fullV_of G ok t v (by rw [sc, s1]; rfl), ?_⟩
      rw [st, s1]
      exact ⟨hsb.symm, ha, rfl, rfl⟩
    | none =>
      simp only [Option.isSome_none, Bool.false_eq_true, if_false]
      obtain ⟨b2, e2, v2, s2⟩ := setter_split G ok okp b1 v1 (.authority (split base).authority) vB.authority
      simp only [C04.setStep] at e2
      have hb2 : (split b2).scheme = some sb ∧ (split b2).authority = (split base).authority ∧
          (split b2).query = (split r).query ∧ (split b2).fragment = (split r).fragment := by
        rw [s2, s1]
        cases hba : (split base).authority <;> simp [C04.applyOp]
      have hpath1 : Ref.path b1 = (split r).path := by
        obtain ⟨_, w1⟩ := split_valid G ok b1 v1
        have := ref_path_recompose (split b1) w1
        rw [Lemmas.recompose_split] at this
        rw [this, s1]
      rw [hpath1]
      by_cases hemp : (split r).path = []
      · -- empty path: the base's path, and its query unless the reference has one
        have hc : (Path.is_relative (split r).path && Path.is_empty (split r).path) = true := by
          rw [hemp]; decide
        simp only [hc, if_true, e2, Option.bind_some, hemp, List.isEmpty_nil]
        obtain ⟨b3, e3, v3, s3⟩ := setter_split G ok okp b2 v2 (.path (split base).path) (path_of_valid G ok okp _ vB)
        simp only [C04.setStep] at e3
        simp only [e3, Option.bind_some]
        have hb3 : (split b3).scheme = some sb ∧ (split b3).authority = (split base).authority ∧
            (split b3).query = (split r).query ∧ (split b3).fragment = (split r).fragment := by
          rw [s3]; simp only [C04.applyOp]; exact hb2
        have hq3 : Ref.query b3 = (split r).query := by
          obtain ⟨_, w3⟩ := split_valid G ok b3 v3
          have := ref_query_recompose (split b3) w3
          rw [Lemmas.recompose_split] at this
          rw [this, hb3.2.2.1]
        rw [hq3]
        cases hq : (split r).query with
        | none =>
          simp only [Option.isNone_none, if_true]
          obtain ⟨b4, e4, v4, s4⟩ := setter_split G ok okp b3 v3 (.query (split base).query) vB.query
          simp only [C04.setStep] at e4
          refine ⟨b4, e4, fullV_of G ok b4 v4 (by rw [s4]; simp only [C04.applyOp]; rw [hb3.1]; rfl), ?_⟩
          rw [s4]
          simp only [C04.applyOp]
          exact ⟨by rw [hb3.1, hsb], hb3.2.1, rfl, hb3.2.2.2⟩
        | some q =>
          simp only [Option.isNone_some, Bool.false_eq_true, if_false]
          refine ⟨b3, rfl, fullV_of G ok b3 v3 (by rw [hb3.1]; rfl), ?_⟩
          exact ⟨by rw [hb3.1, hsb], hb3.2.1, by rw [hb3.2.2.1, hq], hb3.2.2.2⟩
      · have hne : (split r).path.isEmpty = false := by
          cases hpp : (split r).path with
          | nil => exact absurd hpp hemp
          | cons c t => rfl
        have hc : (Path.is_relative (split r).path && Path.is_empty (split r).path) = false := by
          cases hpp : (split r).path with
          | nil => exact absurd hpp hemp
          | cons c t =>
            by_cases hcs : c = cSlash
            · subst hcs; simp [Path.is_relative, Path.is_absolute]
            · cases t <;> simp [Path.is_empty, hcs]
        simp only [hc, Bool.false_eq_true, if_false, hne]
        rw [is_absolute_eq]
        by_cases habs : isAbs (split r).path = true
        · simp only [habs, if_true, e2, Option.bind_some]
          obtain ⟨t, e, v, sc, st⟩ := rds_total G ok okp b2 v2
          refine ⟨t, e, fullV_of G ok t v (by rw [sc, hb2.1]; rfl), ?_⟩
          rw [st]
          exact ⟨by rw [hb2.1, hsb], hb2.2.1, hb2.2.2.1, hb2.2.2.2⟩
        · have habs' : isAbs (split r).path = false := by simpa using habs
          simp only [habs', Bool.false_eq_true, if_false, e2, Option.bind_some]
          obtain ⟨p, em, vp⟩ := mergedPath_total G ok okp base hbF (Ref.path b2) (ref_path_valid G ok okp b2 v2)
          rw [em]
          simp only [Option.bind_some]
          obtain ⟨b3, e3, v3, s3⟩ := setter_split G ok okp b2 v2 (.path p) vp
          simp only [C04.setStep] at e3
          refine ⟨b3, e3, fullV_of G ok b3 v3 (by rw [s3]; simp only [C04.applyOp]; rw [hb2.1]; rfl), ?_⟩
          rw [s3]
          simp only [C04.applyOp]
          exact ⟨by rw [hb2.1, hsb], hb2.2.1, hb2.2.2.1, hb2.2.2.2⟩

end

end IrefVerif.Lemmas
