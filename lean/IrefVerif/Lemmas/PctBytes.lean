import IrefVerif.Model.Cmp

/-!
# The decoded octets

`wellEscaped t`: every `%` in `t` is followed by two hexadecimal digits (true of every valid
component: `pct-encoded = "%" HEXDIG HEXDIG` is the only production containing `%`).
For such texts the implementation's `PctStr::bytes()` (modelled by `pctBytes`, `none` = the
`unwrap` in `Bytes::next` panics) is total and equals the specification's `pctDecode`.
-/

namespace IrefVerif.Lemmas
open IrefVerif.Spec IrefVerif.Model.Cmp

def wellEscaped : Text → Bool
  | [] => true
  | [c] => !(c == cPct)
  | [c, a] => !(c == cPct) && wellEscaped [a]
  | c :: a :: b :: rest =>
    if c == cPct then (hexVal a).isSome && (hexVal b).isSome && wellEscaped rest
    else wellEscaped (a :: b :: rest)

theorem pctBytesFuel_eq (t : Text) : ∀ fuel, t.length < fuel → wellEscaped t = true →
    pctBytesFuel fuel t = some (pctDecode t) := by
  fun_induction pctDecode t with
  | case1 =>
    intro fuel hf _
    cases fuel with
    | zero => omega
    | succ n => simp [pctBytesFuel, nextByte]
  | case2 c =>
    intro fuel hf hw
    simp only [wellEscaped, Bool.not_eq_true'] at hw
    match fuel, hf with
    | n + 2, _ => simp [pctBytesFuel, nextByte, hw]
  | case3 c a ih =>
    intro fuel hf hw
    simp only [wellEscaped, Bool.and_eq_true, Bool.not_eq_true'] at hw
    match fuel, hf with
    | n + 1, hf =>
      have := ih n (by simp at hf ⊢; omega) (by simpa [wellEscaped] using hw.2)
      simp [pctBytesFuel, nextByte, hw.1, this]
  | case4 c a b rest hc x y hx hy ih =>
    intro fuel hf hw
    simp only [wellEscaped, hc, if_true, Bool.and_eq_true] at hw
    match fuel, hf with
    | n + 1, hf =>
      have := ih n (by simp at hf ⊢; omega) hw.2
      simp [pctBytesFuel, nextByte, hc, hx, hy, this]
  | case5 c a b rest hc hxy ih =>
    intro fuel hf hw
    simp only [wellEscaped, hc, if_true, Bool.and_eq_true] at hw
    exfalso
    cases hx : hexVal a with
    | none => simp [hx] at hw
    | some x =>
      cases hy : hexVal b with
      | none => simp [hy] at hw
      | some y => exact hxy x y hx hy
  | case6 c a b rest hc ih =>
    intro fuel hf hw
    have hc' : (c == cPct) = false := by simpa using hc
    simp only [wellEscaped, hc', Bool.false_eq_true, if_false] at hw
    match fuel, hf with
    | n + 1, hf =>
      have := ih n (by simp at hf ⊢; omega) hw
      simp [pctBytesFuel, nextByte, hc', this]

/-- **C19, octets**: the decoded octets are the component's bytes with each `%XX` replaced -/
theorem pctBytes_eq_decode (t : Text) (hw : wellEscaped t = true) : pctBytes t = some (pctDecode t) :=
  pctBytesFuel_eq t _ (Nat.lt_succ_self _) hw

/-- **C07, components**: equality of `Segment`/`UserInfo`/`Host`/`Query`/`Fragment` is equality
of the decoded octets, and never panics -/
theorem pctEq_eq (a b : Text) (ha : wellEscaped a = true) (hb : wellEscaped b = true) :
    pctEq a b = some (pctDecode a == pctDecode b) := by
  simp [pctEq, pctBytes_eq_decode a ha, pctBytes_eq_decode b hb]

theorem pctCmp_eq (a b : Text) (ha : wellEscaped a = true) (hb : wellEscaped b = true) :
    pctCmp a b = some (bytesCmp (pctDecode a) (pctDecode b)) := by
  simp [pctCmp, pctBytes_eq_decode a ha, pctBytes_eq_decode b hb]

theorem pctHash_eq (a : Text) (ha : wellEscaped a = true) :
    pctHash a = some (String.join ((pctDecode a).map fun b => s!"u8:{b},")) := by
  simp [pctHash, pctBytes_eq_decode a ha]

end IrefVerif.Lemmas
