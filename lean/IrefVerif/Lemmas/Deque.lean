import IrefVerif.Oracle

/-!
# Double-ended iteration over a segment list

`Oracle.scheduleRem l σ` replays a schedule `σ` of front (`true`) and back (`false`) steps on
the list `l` as a double-ended iterator must.  Whatever the interleaving, the front outputs,
then what is left, then the back outputs reversed, are exactly `l` — each segment once, in
order — and after exhaustion every step yields `none`.
-/

namespace IrefVerif.Lemmas
open IrefVerif.Spec IrefVerif.Oracle

/-- front outputs of a replay, in order -/
def fronts : List Bool → List (Option Text) → List Text
  | true :: σ, some s :: os => s :: fronts σ os
  | _ :: σ, _ :: os => fronts σ os
  | _, _ => []

/-- back outputs of a replay, in order of emission -/
def backs : List Bool → List (Option Text) → List Text
  | false :: σ, some s :: os => s :: backs σ os
  | _ :: σ, _ :: os => backs σ os
  | _, _ => []

theorem dropLast_append_getLast? (s : Text) (r : List Text) :
    ∃ x, (s :: r).getLast? = some x ∧ (s :: r).dropLast ++ [x] = s :: r := by
  induction r generalizing s with
  | nil => exact ⟨s, rfl, rfl⟩
  | cons t r ih =>
    obtain ⟨x, h1, h2⟩ := ih t
    refine ⟨x, ?_, ?_⟩
    · simpa [List.getLast?_cons_cons] using h1
    · simp only [List.dropLast_cons₂, List.cons_append]
      rw [h2]

/-- **C12, interleaving**: fronts ++ remaining ++ reverse backs = the segment list -/
theorem schedule_partition (l : List Text) (σ : List Bool) :
    fronts σ (scheduleRem l σ).1 ++ (scheduleRem l σ).2 ++ (backs σ (scheduleRem l σ).1).reverse = l := by
  induction σ generalizing l with
  | nil => simp [scheduleRem, fronts, backs]
  | cons b σ ih =>
    cases l with
    | nil =>
      have := ih []
      cases b <;> simpa [scheduleRem, fronts, backs] using this
    | cons s r =>
      cases b with
      | true =>
        have := ih r
        simp only [scheduleRem, fronts, backs, List.cons_append]
        rw [this]
      | false =>
        obtain ⟨x, hx1, hx2⟩ := dropLast_append_getLast? s r
        have := ih (s :: r).dropLast
        simp only [scheduleRem, hx1, fronts, backs, List.reverse_cons]
        rw [← List.append_assoc, this, hx2]

/-- every output is a segment of the list or `none`, and an exhausted iterator stays exhausted -/
theorem schedule_exhausted (σ : List Bool) : ∀ o ∈ (scheduleRem [] σ).1, o = none := by
  induction σ with
  | nil => simp [scheduleRem]
  | cons b σ ih =>
    intro o ho
    simp only [scheduleRem, List.mem_cons] at ho
    rcases ho with rfl | ho
    · rfl
    · exact ih o ho

/-- draining from the front yields the list in order -/
theorem schedule_all_front (l : List Text) :
    (scheduleRem l (List.replicate l.length true)).1 = l.map some := by
  induction l with
  | nil => rfl
  | cons s r ih => simp [scheduleRem, List.replicate, ih]

end IrefVerif.Lemmas
