import IrefVerif.Lemmas.PathMutView
import IrefVerif.Lemmas.ValidWF
import IrefVerif.Lemmas.Accessors

/-! The path handle of a valid reference satisfies `PInv`. -/

set_option linter.unusedSimpArgs false

namespace IrefVerif.Lemmas
open IrefVerif IrefVerif.Spec IrefVerif.Model

/-- the handle of a valid reference: the window found by `path_mut()` is the path, between
`scheme:` `//authority` and `?query` `#fragment` -/
theorem path_handle_of_reference (G : Grammar) (ok : Grammar.Ok G) (w : Text) (h : RE.Matches G.reference w) :
    PInv (Ref.path_mut w) (schemeText (split w).scheme ++ authText (split w).authority) (split w).path
      (queryText (split w).query ++ fragText (split w).fragment) := by
  obtain ⟨_, wf⟩ := split_valid G ok w h
  have hp := find_path_recompose (split w) wf
  rw [Lemmas.recompose_split] at hp
  have hw := (Lemmas.recompose_split w).symm
  rw [recompose_eq] at hw
  refine ⟨?_, ?_, ?_⟩
  · simp only [Ref.path_mut, PathMut.new]
    conv => lhs; rw [hw]
    simp [List.append_assoc]
  · simp [Ref.path_mut, PathMut.new, hp]
  · simp [Ref.path_mut, PathMut.new, hp]


end IrefVerif.Lemmas
