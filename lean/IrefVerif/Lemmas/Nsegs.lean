import IrefVerif.Spec.Path
import IrefVerif.Model.Path

/-!
# Dot-segment normalisation on segment lists

* the stack of `NormalizedSegmentsImpl::new` (bottom first, `push`/`pop` at the end) is the
  specification walk `nsegsOf` (top first);
* `nsegsOf` is idempotent, and its result contains no `.` and `..` only as a leading run of a
  relative path.
-/

namespace IrefVerif.Lemmas
open IrefVerif.Spec IrefVerif.Model

/-- in an absolute path no `..` is ever kept -/
theorem nstep_noDotDot (st : List Text) (s : Text) (h : ∀ t ∈ st, t ≠ segDotDot) :
    ∀ t ∈ nstep true st s, t ≠ segDotDot := by
  unfold nstep
  split
  · exact h
  · split
    · rename_i hs
      cases st with
      | nil => simp
      | cons t rest =>
        simp only
        split
        · exact h
        · exact fun x hx => h x (List.mem_cons_of_mem _ hx)
    · rename_i hs1 hs2
      intro t ht
      rcases List.mem_cons.mp ht with rfl | ht
      · exact hs2
      · exact h t ht

theorem foldl_nstep_noDotDot (ss : List Text) (st : List Text) (h : ∀ t ∈ st, t ≠ segDotDot) :
    ∀ t ∈ ss.foldl (nstep true) st, t ≠ segDotDot := by
  induction ss generalizing st with
  | nil => exact h
  | cons s ss ih => exact ih _ (nstep_noDotDot st s h)

theorem getLast?_reverse_cons (t : Text) (rest : List Text) : (t :: rest).reverse.getLast? = some t := by
  simp

/-- one step of the implementation's stack = one step of the specification's, on reversed stacks -/
theorem normalizedStep_eq (rel : Bool) (st : List Text) (s : Text)
    (hinv : rel = false → ∀ t ∈ st, t ≠ segDotDot) :
    Path.normalizedStep rel st.reverse s = (nstep (!rel) st s).reverse := by
  unfold Path.normalizedStep nstep
  have e1 : (s == [cDot]) = decide (s = segDot) := by
    simp [segDot, beq_iff_eq]
    by_cases h : s = [cDot] <;> simp [h]
  have e2 : (s == [cDot, cDot]) = decide (s = segDotDot) := by
    by_cases h : s = [cDot, cDot] <;> simp [h, segDotDot]
  rw [e1, e2]
  by_cases h1 : s = segDot
  · simp [h1]
  · simp only [h1, decide_false, Bool.false_eq_true, if_false]
    by_cases h2 : s = segDotDot
    · simp only [h2, decide_true, if_true]
      cases st with
      | nil => cases rel <;> simp
      | cons t rest =>
        rw [getLast?_reverse_cons]
        simp only
        by_cases ht : t = segDotDot
        · have hrel : rel = true := by
            cases rel with
            | true => rfl
            | false => exact absurd ht (hinv rfl t List.mem_cons_self)
          subst hrel
          simp [ht, segDotDot]
        · have : (t == [cDot, cDot]) = false := by
            simpa [segDotDot] using ht
          simp [this, ht, List.dropLast_concat]
    · simp [h2]

theorem foldl_normalizedStep_eq (rel : Bool) (ss : List Text) (st : List Text)
    (hinv : rel = false → ∀ t ∈ st, t ≠ segDotDot) :
    ss.foldl (Path.normalizedStep rel) st.reverse = (ss.foldl (nstep (!rel)) st).reverse := by
  induction ss generalizing st with
  | nil => rfl
  | cons s ss ih =>
    simp only [List.foldl_cons]
    rw [normalizedStep_eq rel st s hinv]
    apply ih
    intro hr
    subst hr
    exact nstep_noDotDot st s (hinv rfl)

/-- **C09, first sentence (stack = specification walk)** -/
theorem normalized_stack_eq_nsegsOf (rel : Bool) (ss : List Text) :
    ss.foldl (Path.normalizedStep rel) [] = nsegsOf (!rel) ss := by
  have := foldl_normalizedStep_eq rel ss [] (by simp)
  simpa [nsegsOf] using this

/-! ## normal forms and idempotence -/

/-- a normalised stack (top first): no `.`, and every `..` sits below only other `..`
(i.e. at the *front* of the path), and only in a relative path -/
def NormalStack (abs : Bool) : List Text → Prop
  | [] => True
  | t :: rest =>
    t ≠ segDot ∧ NormalStack abs rest ∧
      (t = segDotDot → abs = false ∧ ∀ u ∈ rest, u = segDotDot)

theorem nstep_normal (abs : Bool) (st : List Text) (s : Text) (h : NormalStack abs st) :
    NormalStack abs (nstep abs st s) := by
  unfold nstep
  split
  · exact h
  · split
    · rename_i hs
      cases st with
      | nil =>
        cases abs with
        | true => simp [NormalStack]
        | false => simp [NormalStack, hs, segDot, segDotDot]
      | cons t rest =>
        simp only
        split
        · rename_i ht
          cases abs with
          | true => exact h
          | false =>
            simp only [Bool.false_eq_true, if_false]
            obtain ⟨h1, h2, h3⟩ := h
            refine ⟨by simp [hs, segDot, segDotDot], ⟨h1, h2, h3⟩, fun _ => ⟨rfl, ?_⟩⟩
            intro u hu
            rcases List.mem_cons.mp hu with rfl | hu
            · exact ht
            · exact (h3 ht).2 u hu
        · exact h.2.1
    · rename_i hs1 hs2
      exact ⟨hs1, h, fun hh => absurd hh hs2⟩

theorem foldl_nstep_normal (abs : Bool) (ss st : List Text) (h : NormalStack abs st) :
    NormalStack abs (ss.foldl (nstep abs) st) := by
  induction ss generalizing st with
  | nil => exact h
  | cons s ss ih => exact ih _ (nstep_normal abs st s h)

/-- pushing the segments of a normal list (bottom first) onto the empty stack gives it back -/
theorem nsegsOf_of_normal (abs : Bool) (l : List Text) (h : NormalStack abs l) :
    l.reverse.foldl (nstep abs) [] = l := by
  induction l with
  | nil => rfl
  | cons t rest ih =>
    obtain ⟨h1, h2, h3⟩ := h
    simp only [List.reverse_cons, List.foldl_append, List.foldl_cons, List.foldl_nil]
    rw [ih h2]
    unfold nstep
    simp only [h1, if_false]
    by_cases ht : t = segDotDot
    · obtain ⟨habs, hall⟩ := h3 ht
      subst habs
      simp only [ht, if_true]
      cases rest with
      | nil => simp
      | cons u rest' =>
        have := hall u List.mem_cons_self
        simp [this]
    · simp [ht]

/-- **idempotence of the normalised segment sequence** -/
theorem nsegsOf_idem (abs : Bool) (ss : List Text) : nsegsOf abs (nsegsOf abs ss) = nsegsOf abs ss := by
  unfold nsegsOf
  have hn := foldl_nstep_normal abs ss [] (by simp [NormalStack])
  generalize ss.foldl (nstep abs) [] = l at hn
  rw [nsegsOf_of_normal abs l hn]

/-- the normalised sequence contains no `.` segment -/
theorem nsegsOf_noDot (abs : Bool) (ss : List Text) : segDot ∉ nsegsOf abs ss := by
  unfold nsegsOf
  have hn := foldl_nstep_normal abs ss [] (by simp [NormalStack])
  generalize ss.foldl (nstep abs) [] = l at hn
  intro hm
  have hm' : segDot ∈ l := by simpa using hm
  clear hm
  induction l with
  | nil => simp at hm'
  | cons t rest ih =>
    obtain ⟨h1, h2, _⟩ := hn
    rcases List.mem_cons.mp hm' with h | h
    · exact h1 h.symm
    · exact ih h2 h

/-- an absolute path's normalised sequence contains no `..` either (RFC 3986 §5.2.4: dropped at the root) -/
theorem nsegsOf_abs_noDotDot (ss : List Text) : segDotDot ∉ nsegsOf true ss := by
  unfold nsegsOf
  intro hm
  have := foldl_nstep_noDotDot ss [] (by simp) segDotDot (by simpa using hm)
  exact this rfl

end IrefVerif.Lemmas
