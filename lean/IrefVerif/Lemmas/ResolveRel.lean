import IrefVerif.Lemmas.ParentSegs
import IrefVerif.Lemmas.ResolveAuth

/-!
# The relative-path branch of `resolve`, base with an authority

`mergedPath` — the `merged` buffer of `reference.rs`: `from_scheme`, `set_authority`, the
normalised directory of the base path, `symbolic_append`, `normalize`, the conditional `clear` —
computes `remove_dot_segments(merge(base.path, ref.path))` of RFC 3986 §5.2.3/§5.2.4 whenever
`symbolic_append` does not skip an empty segment (outside the F15 class).
-/

set_option linter.unusedSimpArgs false

namespace IrefVerif.Lemmas
open IrefVerif IrefVerif.Spec IrefVerif.Model IrefVerif.Oracle IrefVerif.Findings RE

/-- the handle of a well-formed component list -/
theorem path_handle_of_wf (P : Spec.Parts) (wf : WF P) :
    PInv (Ref.path_mut (recompose P)) (schemeText P.scheme ++ authText P.authority) P.path
      (queryText P.query ++ fragText P.fragment) := by
  have hp := find_path_recompose P wf
  refine ⟨?_, ?_, ?_⟩
  · simp only [Ref.path_mut, PathMut.new]
    rw [recompose_eq]
    simp [List.append_assoc]
  · simp [Ref.path_mut, PathMut.new, hp]
  · simp [Ref.path_mut, PathMut.new, hp]

/-- scheme, authority, an absolute (or empty) path and nothing else -/
def sap (sb ab p : Text) : Spec.Parts :=
  { scheme := some sb, authority := some ab, path := p, query := none, fragment := none }

structure SAOk (sb ab : Text) : Prop where
  scheme : sb ≠ [] ∧ ∀ c ∈ sb, nCSQH c = true
  authority : ∀ c ∈ ab, nSQH c = true

theorem wf_sap (sb ab p : Text) (h : SAOk sb ab) (hp : PathText p) (hab : p = [] ∨ ∃ r, p = cSlash :: r) :
    WF (sap sb ab p) :=
  { scheme := fun s hs => by simp only [sap, Option.some.injEq] at hs; subst hs; exact h.scheme
    authority := fun a ha => by simp only [sap, Option.some.injEq] at ha; subst ha; exact h.authority
    path := fun c hc => by
      have := hp c hc
      simp [nQH, this.1, this.2]
    query := fun q hq => by simp [sap] at hq
    abempty := fun _ => hab
    noSS := fun hn => by simp [sap] at hn
    noColon := fun _ hn => by simp [sap] at hn }

theorem sap_text (sb ab p : Text) : recompose (sap sb ab p) = (sb ++ [cColon] ++ ([cSlash, cSlash] ++ ab)) ++ p := by
  rw [recompose_eq]; simp [sap, schemeText, authText, queryText, fragText]

/-- the window of a handle on `scheme://authority` ++ path is that path -/
theorem handle_sap (sb ab p : Text) (h : SAOk sb ab) (hp : PathText p) (hab : p = [] ∨ ∃ r, p = cSlash :: r) :
    PInv (Ref.path_mut (recompose (sap sb ab p))) (sb ++ [cColon] ++ ([cSlash, cSlash] ++ ab)) p [] ∧
      (Ref.path_mut (recompose (sap sb ab p))).follows_authority = true ∧
      (Ref.path_mut (recompose (sap sb ab p))).anchored = true := by
  have wf := wf_sap sb ab p h hp hab
  have i := path_handle_of_wf _ wf
  have f := follows_authority_recompose _ wf
  refine ⟨by simpa [sap, schemeText, authText, queryText, fragText] using i, by simpa [sap] using f, ?_⟩
  have : (Ref.path_mut (recompose (sap sb ab p))).anchored = (Ref.path_mut (recompose (sap sb ab p))).follows_authority := by
    simp [Ref.path_mut, PathMut.new]
  rw [this]; simpa [sap] using f

theorem buffer_sap {h : PathMut} {sb ab v : Text} (i : PInv h (sb ++ [cColon] ++ ([cSlash, cSlash] ++ ab)) v []) :
    h.buffer = recompose (sap sb ab v) := by
  rw [i.data, sap_text]; simp

theorem pre_ne (sb ab : Text) : ((sb ++ [cColon] ++ ([cSlash, cSlash] ++ ab)).length == 0) = false := by
  simp

theorem ainv_abempty {v : Text} {e : List Text} (i : AInv v e) : v = [] ∨ ∃ r, v = cSlash :: r := by
  right
  have := i.abs
  cases v with
  | nil => simp [isAbs] at this
  | cons c r =>
    simp only [isAbs, beq_iff_eq] at this
    exact ⟨r, by rw [this]⟩

/-- the tail of `mergedPath`: on the merged buffer, `symbolic_append`, `normalize`, conditional
`clear`, and the path of the result -/
theorem merged_tail (sb ab v0 : Text) (hok : SAOk sb ab) (e0 : List Text) (inv0 : AInv v0 e0) (ss : List Text)
    (hall : ∀ s ∈ ss, cSlash ∉ s ∧ PathText s) (hsk : symSkipsGo true e0 ss = false) :
    (((Ref.path_mut (recompose (sap sb ab v0))).symbolic_append ss).bind fun h =>
      h.normalize.bind fun h =>
        if (h.view == [cSlash, cDot, cSlash] || h.view == [cDot, cSlash]) = true then
          h.clear.bind fun h => some (Ref.path h.buffer)
        else some (Ref.path h.buffer)) =
    some (cSlash :: joinSlash (walk e0 ss ++ (if lastDot ss && !(walk e0 ss).isEmpty then [[]] else []))) := by
  obtain ⟨i0, f0, a0⟩ := handle_sap sb ab v0 hok inv0.pt (ainv_abempty inv0)
  obtain ⟨h1, e1', i1, f1, a1⟩ := symbolic_append_view _ _ _ _ i0 ss
  rw [f0, a0, pre_ne] at i1
  rw [e1']
  simp only [Option.bind_some]
  obtain ⟨h2, e2, i2, f2, a2⟩ := normalize_view _ _ _ _ i1
  rw [f1, f0, pre_ne] at i2
  rw [e2]
  simp only [Option.bind_some, i2.view]
  have hfin := relative_view true v0 _ ss inv0 hall hsk
  unfold finalize at hfin
  simp only [] at hfin
  obtain ⟨E2, iE2⟩ := symAppendView_ainv true true v0 e0 ss inv0 hall hsk
  have hpt3 : PathText (normView true false (symAppendView true true false v0 ss)) :=
    pathText_normView _ _ _ iE2.pt
  generalize normView true false (symAppendView true true false v0 ss) = v3 at hfin i2 hpt3
  generalize hW : walk e0 ss ++ (if lastDot ss && !(walk e0 ss).isEmpty then [[]] else []) = X at hfin
  -- the final text is `/…`: a well-formed path behind the authority
  have hfinal_ok : ∀ h : PathMut, PInv h (sb ++ [cColon] ++ ([cSlash, cSlash] ++ ab)) (cSlash :: joinSlash X) [] →
      PathText (cSlash :: joinSlash X) → Ref.path h.buffer = cSlash :: joinSlash X := by
    intro h i hpt
    rw [buffer_sap i]
    exact ref_path_recompose _ (wf_sap sb ab _ hok hpt (.inr ⟨_, rfl⟩))
  by_cases hc : (v3 == [cSlash, cDot, cSlash] || v3 == [cDot, cSlash]) = true
  · simp only [hc, if_true] at hfin ⊢
    obtain ⟨h3, e3, i3, _, _⟩ := clear_view _ _ _ _ i2
    rw [e3]
    simp only [Option.bind_some]
    rw [hfin] at i3
    have hptc : PathText (clearView v3) := by
      unfold clearView
      split
      · exact pathText_lit_slash
      · intro c hc; cases hc
    rw [hfin] at hptc
    rw [hfinal_ok h3 i3 hptc]
  · have hc' : (v3 == [cSlash, cDot, cSlash] || v3 == [cDot, cSlash]) = false := by simpa using hc
    simp only [hc', Bool.false_eq_true, if_false] at hfin ⊢
    rw [hfin] at i2 hpt3
    rw [hfinal_ok h2 i2 hpt3]

/-- **the merged path** -/
theorem mergedPath_authority (PB : Spec.Parts) (wB : WF PB) (sb ab : Text)
    (hsb : PB.scheme = some sb) (hab : PB.authority = some ab) (ss : List Text)
    (hall : ∀ s ∈ ss, cSlash ∉ s ∧ PathText s)
    (hsk : symSkipsGo true (nsegsOf true (segs PB.path).dropLast) ss = false) :
    Ref.mergedPath (recompose PB) ss = some (cSlash :: joinSlash
      (walk (nsegsOf true (segs PB.path).dropLast) ss ++
        (if lastDot ss && !(walk (nsegsOf true (segs PB.path).dropLast) ss).isEmpty then [[]] else []))) := by
  have hok : SAOk sb ab := ⟨wB.scheme sb hsb, wB.authority ab hab⟩
  have hBpt : PathText PB.path := pathText_of_wf _ wB
  have hBab : PB.path = [] ∨ ∃ r, PB.path = cSlash :: r := wB.abempty (by simp [hab])
  unfold Ref.mergedPath
  rw [ref_scheme_full PB wB sb hsb, ref_authority_recompose PB wB, ref_path_recompose PB wB, hab]
  -- `from_scheme`, `set_authority`
  have hQ0 : Ref.from_scheme sb = recompose { scheme := some sb, authority := none, path := [], query := none, fragment := none } := by
    rw [recompose_eq]; simp [Ref.from_scheme, schemeText, authText, queryText, fragText]
  have wQ0 : WF { scheme := some sb, authority := none, path := [], query := none, fragment := none } :=
    { scheme := fun s hs => by simp only [Option.some.injEq] at hs; subst hs; exact hok.scheme
      authority := fun a ha => by simp at ha
      path := fun c hc => by simp at hc
      query := fun q hq => by simp at hq
      abempty := fun _ => .inl rfl
      noSS := fun _ => rfl
      noColon := fun hn => by simp at hn }
  have e1 := set_authority_some_recompose _ wQ0 ab
  have hQ1 : ({ ({ scheme := some sb, authority := none, path := [], query := none, fragment := none } : Spec.Parts) with
      authority := some ab, path := pathWithAuth { scheme := some sb, authority := none, path := [], query := none, fragment := none } })
      = sap sb ab [] := by simp [sap, pathWithAuth]
  rw [hQ1] at e1
  rw [hQ0]
  simp only [Option.bind_eq_bind, e1, Option.bind_some, Option.isSome_some, Bool.true_and]
  have wQ1 := wf_sap sb ab [] hok (by intro c hc; cases hc) (.inl rfl)
  by_cases hem : Path.is_empty PB.path = true
  · simp only [hem, if_true]
    rw [set_path_recompose _ wQ1]
    have : ({ sap sb ab [] with path := setPathSpec (sap sb ab []) [cSlash] } : Spec.Parts) = sap sb ab [cSlash] := by
      simp [sap, setPathSpec, isAbs, startsSS]
    rw [this]
    simp only [Option.bind_some]
    have inv0 : AInv [cSlash] (nsegsOf true (segs PB.path).dropLast) := by
      rcases is_empty_cases hem with e | e <;> rw [e]
      · exact ainv_root
      · rw [segs_root]; exact ainv_root
    exact merged_tail sb ab [cSlash] hok _ inv0 ss hall hsk
  · have hem' : Path.is_empty PB.path = false := by simpa using hem
    obtain ⟨q, hq⟩ : ∃ q, PB.path = cSlash :: q := by
      rcases hBab with e | e
      · rw [e] at hem'; simp [Path.is_empty] at hem'
      · exact e
    simp only [hem', Bool.false_eq_true, if_false]
    rw [set_path_recompose _ wQ1]
    obtain ⟨_, hpabs, hppt⟩ := parent_segs q
    rw [hq] at hBpt hsk ⊢
    have hpp := hppt hBpt
    have hsp : setPathSpec (sap sb ab []) (Path.parent_or_empty (cSlash :: q)) = Path.parent_or_empty (cSlash :: q) := by
      simp [setPathSpec, sap, hpabs]
    have hpe : ({ sap sb ab [] with path := setPathSpec (sap sb ab []) (Path.parent_or_empty (cSlash :: q)) } : Spec.Parts)
        = sap sb ab (Path.parent_or_empty (cSlash :: q)) := by rw [hsp]; rfl
    rw [hpe]
    simp only [Option.bind_some]
    have hpab : Path.parent_or_empty (cSlash :: q) = [] ∨ ∃ r, Path.parent_or_empty (cSlash :: q) = cSlash :: r := by
      right
      cases hpo : Path.parent_or_empty (cSlash :: q) with
      | nil => rw [hpo] at hpabs; simp [isAbs] at hpabs
      | cons c r =>
        rw [hpo] at hpabs
        simp only [isAbs, beq_iff_eq] at hpabs
        exact ⟨r, by rw [hpabs]⟩
    obtain ⟨i0, f0, a0⟩ := handle_sap sb ab _ hok hpp hpab
    obtain ⟨h1, e1', i1, f1, a1⟩ := normalize_view _ _ _ _ i0
    rw [f0, pre_ne] at i1
    rw [e1']
    simp only [Option.map_some, buffer_sap i1, Option.bind_some]
    exact merged_tail sb ab _ hok _ (ainv_normalized_parent q hBpt) ss hall hsk

/-- **§5.2.2, last branch** (relative-path reference: §5.2.3 merge, §5.2.4 dot-segment removal)
against a base with an authority, outside the F15 class -/
theorem resolve_relative_authority (G : Grammar) (ok : Grammar.Ok G) (okp : Grammar.OkPath G) (base r ab : Text)
    (hb : Matches G.full base) (hr : Matches G.reference r)
    (hs : (split r).scheme = none) (ha : (split r).authority = none)
    (hne : (split r).path ≠ []) (hrl : isAbs (split r).path = false)
    (hab : (split base).authority = some ab)
    (hsk : symSkipsGo true (nsegsOf true (segs (split base).path).dropLast) (splitSlash (split r).path) = false) :
    Ref.resolve r base = some (recompose (resolveSpec base r)) := by
  obtain ⟨vR, wR⟩ := split_valid G ok r hr
  obtain ⟨vB, wB⟩ := split_valid G ok base (Matches.altL hb)
  obtain ⟨PB, hsP, hP, hvB⟩ := (full_iff G base).mp hb
  have hspB : split base = PB := by rw [← hP]; exact Lemmas.split_recompose PB (wf_of_valid G ok PB hvB)
  obtain ⟨sb, hsb⟩ := Option.isSome_iff_exists.mp (hspB ▸ hsP)
  unfold Ref.resolve resolveSpec transform
  have hrp := reference_parts_recompose (split r) wR
  rw [Lemmas.recompose_split] at hrp
  simp only [hrp, rangesOf, hs, ha, Option.map_none, Option.isSome_none, Bool.false_eq_true, if_false]
  have hsch : Ref.scheme base = sb := by
    have := ref_scheme_full (split base) wB sb hsb
    rwa [Lemmas.recompose_split] at this
  rw [hsch]
  have e1 := set_scheme_some_recompose (split r) wR sb
  rw [Lemmas.recompose_split] at e1
  simp only [Option.bind_eq_bind, e1, Option.bind_some]
  have hsbv : Matches Rfc3986.scheme sb := vB.scheme sb hsb
  have v1 := valid_set_scheme_some G ok okp (split r) vR sb hsbv
  have w1 := wf_of_valid G ok _ v1
  have hpath1 : Ref.path (recompose { split r with scheme := some sb }) = (split r).path :=
    ref_path_recompose _ w1
  have hnab : Path.is_absolute (split r).path = false := by rw [is_absolute_eq]; exact hrl
  have hrel : (Path.is_relative (split r).path && Path.is_empty (split r).path) = false := by
    cases hpp : (split r).path with
    | nil => exact absurd hpp hne
    | cons c t =>
      rw [hpp] at hrl
      have hc : (c == cSlash) = false := by simpa [isAbs] using hrl
      have : c ≠ cSlash := by simpa using hc
      simp [Path.is_empty, this]
  simp only [hpath1, hrel, Bool.false_eq_true, if_false, hnab]
  have hauthB : Ref.authority base = some ab := by
    have := ref_authority_recompose (split base) wB
    rw [Lemmas.recompose_split] at this
    rw [this, hab]
  rw [hauthB]
  have e2 := set_authority_some_recompose _ w1 ab
  have hpe : (split r).path.isEmpty = false := by
    cases hpp : (split r).path with
    | nil => exact absurd hpp hne
    | cons c t => rfl
  have hpw : pathWithAuth { split r with scheme := some sb } = cSlash :: (split r).path := by
    simp [pathWithAuth, ha, hrl, hpe]
  rw [hpw] at e2
  simp only [e2, Option.bind_some]
  have habv : Matches G.authority ab := vB.authority ab hab
  have v2 := valid_set_authority_some G ok okp _ v1 ab habv
  rw [hpw] at v2
  have w2 := wf_of_valid G ok _ v2
  have hpath2 : Ref.path (recompose { split r with scheme := some sb, authority := some ab, path := cSlash :: (split r).path })
      = cSlash :: (split r).path := ref_path_recompose _ w2
  rw [hpath2]
  have hpt2 : PathText (cSlash :: (split r).path) := pathText_of_wf _ w2
  rw [segmentList_eq_segs _ hpt2, segs_abs, if_neg hne]
  -- the merged path
  have hRpt : PathText (split r).path := pathText_of_wf _ wR
  have hall : ∀ s ∈ splitSlash (split r).path, cSlash ∉ s ∧ PathText s := by
    intro s hs
    refine ⟨splitSlash_no_slash _ s hs, fun c hc => hRpt c (mem_of_mem_splitSlash' _ s hs c hc)⟩
  have hm := mergedPath_authority (split base) wB sb ab hsb hab _ hall hsk
  rw [Lemmas.recompose_split] at hm
  rw [hm]
  simp only [Option.bind_some]
  rw [set_path_recompose _ w2]
  have hBab : (split base).path = [] ∨ ∃ q, (split base).path = cSlash :: q := wB.abempty (by simp [hab])
  have hrd := removeDots_merge (split base).path (split r).path hBab hne hsk
  simp only [hab, Option.isSome_some, hpe, Bool.false_eq_true, if_false, hrl, hrd, hsb]
  have hsps : ∀ (P : Spec.Parts) (X : Text), P.authority = some ab → setPathSpec P (cSlash :: X) = cSlash :: X := by
    intro P X hP
    simp [setPathSpec, hP, isAbs]
  rw [hsps _ _ rfl]

/-! ## the hypothesis is "outside the F15 class" -/

theorem nsegs_parentOrEmpty_abs (q : Text) :
    nsegs (parentOrEmpty (cSlash :: q)) = nsegsOf true (segs (cSlash :: q)).dropLast := by
  unfold parentOrEmpty parentSpec
  simp only [isAbs, beq_self_eq_true, Bool.not_true, Bool.false_and, Bool.false_eq_true, if_false, Bool.true_and]
  by_cases hse : (segs (cSlash :: q)).isEmpty = true
  · simp only [hse, if_true]
    have : segs (cSlash :: q) = [] := by simpa using hse
    rw [this]; decide
  · have hse' : (segs (cSlash :: q)).isEmpty = false := by simpa using hse
    simp only [hse', Bool.false_eq_true, if_false]
    generalize hL : (segs (cSlash :: q)).dropLast = L
    have hns : ∀ s ∈ L, cSlash ∉ s := by
      intro s hs
      exact segs_no_slash _ s ((List.dropLast_sublist _).subset (hL ▸ hs))
    by_cases h1 : (L == [[]]) = true
    · simp only [h1, if_true]
      have : L = [[]] := by simpa using h1
      rw [this]; decide
    · have h1' : (L == [[]]) = false := by simpa using h1
      simp only [h1', Bool.false_eq_true, if_false]
      by_cases hLe : L = []
      · subst hLe; decide
      · have hne1 : L ≠ [[]] := by simpa using h1'
        obtain ⟨h2, h3⟩ := segs_render true L hLe hns (by simpa using hne1)
        unfold nsegs render
        simp only [if_true] at h2 h3 ⊢
        rw [h3, h2]

/-- outside the F15 class `symbolic_append` skips nothing (base with an authority) -/
theorem noSkip_of_not_f15 (base r ab : Text) (B : (split base).path = [] ∨ ∃ q, (split base).path = cSlash :: q)
    (hs : (split r).scheme = none) (ha : (split r).authority = none)
    (hne : (split r).path ≠ []) (hrl : isAbs (split r).path = false)
    (hab : (split base).authority = some ab) (hf : f15 base r = false) :
    symSkipsGo true (nsegsOf true (segs (split base).path).dropLast) (splitSlash (split r).path) = false := by
  unfold f15 at hf
  have hpe : (split r).path.isEmpty = false := by
    cases hpp : (split r).path with
    | nil => exact absurd hpp hne
    | cons c t => rfl
  have hsegs : segs (split r).path = splitSlash (split r).path := by
    cases hpp : (split r).path with
    | nil => exact absurd hpp hne
    | cons c t =>
      rw [hpp] at hrl
      have hc : (c == cSlash) = false := by simpa [isAbs] using hrl
      simp [segs, stripRoot, hc]
  simp only [hs, ha, hab, hpe, hrl, hsegs, Option.isNone_none, Option.isSome_some, Bool.not_false, Bool.true_and,
    Bool.or_true, Bool.and_true] at hf
  rcases B with e | ⟨q, e⟩
  · rw [e] at hf ⊢
    have : nsegsOf true (segs ([] : Text)).dropLast = [] := by decide
    rw [this]
    simpa using hf
  · rw [e] at hf ⊢
    simp only [List.isEmpty_cons, Bool.false_eq_true, if_false] at hf
    rw [nsegs_parentOrEmpty_abs] at hf
    exact hf

end IrefVerif.Lemmas
