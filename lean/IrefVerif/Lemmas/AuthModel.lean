import IrefVerif.Lemmas.Auth
import IrefVerif.Model.AuthorityMut

/-!
# `AuthorityImpl::parts` computes `[ userinfo "@" ] host [ ":" port ]`

For every authority assembled from well-formed sub-components (`WFA`, plus: no `[` in the
user info, none in a host that is not an IP-literal — both true of every valid authority), the
ranges computed by `user_info_or_host` / `host` / `port` slice out exactly those sub-components.
-/

set_option linter.unusedSimpArgs false

namespace IrefVerif.Lemmas
open IrefVerif.Spec IrefVerif.Model IrefVerif.Model.Parse

theorem findAt_append (u r : Text) (hu : cAt ∉ u) : findAt (u ++ cAt :: r) = some u.length := by
  induction u with
  | nil => simp [findAt]
  | cons c u ih =>
    have hc : (c == cAt) = false := by
      have : c ≠ cAt := fun h => hu (h ▸ List.mem_cons_self)
      simpa using this
    have := ih (fun h => hu (List.mem_cons_of_mem _ h))
    simp [findAt, hc, this]

theorem findAt_none (l : Text) (h : cAt ∉ l) : findAt l = none := by
  induction l with
  | nil => rfl
  | cons c l ih =>
    have hc : (c == cAt) = false := by
      have : c ≠ cAt := fun e => h (e ▸ List.mem_cons_self)
      simpa using this
    simp [findAt, hc, ih (fun e => h (List.mem_cons_of_mem _ e))]

/-- user info present -/
theorem uhGo_userinfo (u r : Text) (h1 : cAt ∉ u) (h2 : cLBr ∉ u) :
    uhGo (u ++ cAt :: r) = (.userInfo, u.length) := by
  induction u with
  | nil => simp [uhGo, cAt, cLBr]
  | cons c u ih =>
    have hb : (c == cLBr) = false := by
      have : c ≠ cLBr := fun e => h2 (e ▸ List.mem_cons_self)
      simpa using this
    have ha : (c == cAt) = false := by
      have : c ≠ cAt := fun e => h1 (e ▸ List.mem_cons_self)
      simpa using this
    simp only [List.cons_append, uhGo, hb, Bool.false_eq_true, if_false, ha]
    by_cases hc : (c == cColon) = true
    · have := findAt_append (c :: u) r h1
      simp only [List.cons_append] at this
      simp [hc, this]
    · have hc' : (c == cColon) = false := by simpa using hc
      have := ih (fun e => h1 (List.mem_cons_of_mem _ e)) (fun e => h2 (List.mem_cons_of_mem _ e))
      simp [hc', this]

/-- no user info, host that is not an IP-literal -/
theorem uhGo_regname (l : Text) (h1 : cAt ∉ l) (h2 : cLBr ∉ l) :
    uhGo l = (.host, spanLen (fun c => c != cColon) l) := by
  induction l with
  | nil => rfl
  | cons c l ih =>
    have hb : (c == cLBr) = false := by
      have : c ≠ cLBr := fun e => h2 (e ▸ List.mem_cons_self)
      simpa using this
    have ha : (c == cAt) = false := by
      have : c ≠ cAt := fun e => h1 (e ▸ List.mem_cons_self)
      simpa using this
    simp only [uhGo, hb, Bool.false_eq_true, if_false, ha]
    by_cases hc : (c == cColon) = true
    · have := findAt_none (c :: l) h1
      simp [hc, this, spanLen, bne]
    · have hc' : (c == cColon) = false := by simpa using hc
      have := ih (fun e => h1 (List.mem_cons_of_mem _ e)) (fun e => h2 (List.mem_cons_of_mem _ e))
      simp [hc', this, spanLen, bne]

/-- stricter well-formedness used by the scanners -/
structure WFA' (A : AuthParts) : Prop extends WFA A where
  uiBr : ∀ u, A.userinfo = some u → cLBr ∉ u
  hostBr : A.host.head? ≠ some cLBr → cLBr ∉ A.host
  portBr : ∀ p, A.port = some p → cLBr ∉ p

/-- the texts of `AuthorityImpl::parts` -/
def modelAuthParts (a : Text) : AuthParts :=
  let r := Authority.parts a
  { userinfo := r.user_info.map (slice a), host := slice a r.host, port := r.port.map (slice a) }

theorem spanLen_ne (d : Nat) (u v : Text) (hu : d ∉ u) (hv : v = [] ∨ ∃ r, v = d :: r) :
    spanLen (fun c => c != d) (u ++ v) = u.length := by
  apply spanLen_append_of_all
  · intro c hc
    have : c ≠ d := fun e => hu (e ▸ hc)
    simpa [bne] using this
  · intro c r h
    rcases hv with rfl | ⟨r', rfl⟩
    · cases h
    · injection h with h _; subst h; simp [bne]

theorem portText_head (p : Option Text) : portText p = [] ∨ ∃ r, portText p = cColon :: r := by
  cases p with
  | none => exact .inl rfl
  | some q => exact .inr ⟨q, rfl⟩

/-- `host()` from the start of the host text -/
theorem host_eq (pre h : Text) (p : Option Text)
    (hh : (∃ inner, h = cLBr :: inner ++ [cRBr] ∧ cRBr ∉ inner) ∨ (h.head? ≠ some cLBr ∧ cColon ∉ h)) :
    Parse.host (pre ++ h ++ portText p) pre.length = pre.length + h.length := by
  unfold Parse.host
  have hd : (pre ++ h ++ portText p).drop pre.length = h ++ portText p := by
    rw [List.append_assoc, List.drop_left]
  rw [hd]
  rcases hh with ⟨inner, rfl, hin⟩ | ⟨hhd, hnc⟩
  · simp only [List.cons_append, beq_self_eq_true, if_true]
    have h1 : spanLen (fun c => c != cRBr) (inner ++ [cRBr] ++ portText p) = inner.length := by
      rw [List.append_assoc]
      exact spanLen_ne cRBr inner ([cRBr] ++ portText p) hin (.inr ⟨portText p, rfl⟩)
    rw [h1]
    have hd2 : (pre ++ (cLBr :: (inner ++ [cRBr])) ++ portText p).drop (pre.length + 1 + inner.length)
        = cRBr :: portText p := by
      have : pre ++ (cLBr :: (inner ++ [cRBr])) ++ portText p
          = (pre ++ cLBr :: inner) ++ (cRBr :: portText p) := by simp [List.append_assoc]
      rw [this]
      have hl : pre.length + 1 + inner.length = (pre ++ cLBr :: inner).length := by simp; omega
      rw [hl, List.drop_left]
    rw [hd2]
    have h2 : spanLen (fun c => c != cColon) (cRBr :: portText p) = 1 := by
      have := spanLen_ne cColon [cRBr] (portText p) (by simp [cColon, cRBr]) (portText_head p)
      simpa using this
    rw [h2]
    simp; omega
  · cases h with
    | nil =>
      simp only [List.nil_append, List.append_nil, List.length_nil, Nat.add_zero]
      rcases portText_head p with hp | ⟨r, hp⟩
      · rw [hp]; simp [spanLen]
      · rw [hp]
        have hd3 : (pre ++ cColon :: r).drop pre.length = cColon :: r := List.drop_left
        simp [cColon, cLBr, spanLen, bne, hd3]
    | cons c l =>
      have hc : (c == cLBr) = false := by
        simp only [List.head?_cons, ne_eq, Option.some.injEq] at hhd
        simpa using hhd
      simp only [List.cons_append, hc, Bool.false_eq_true, if_false]
      have : (pre ++ c :: l ++ portText p).drop pre.length = (c :: l) ++ portText p := by
        rw [List.append_assoc, List.drop_left]
      rw [this, spanLen_ne cColon (c :: l) (portText p) hnc (portText_head p)]


theorem slice_drop_take (w : Text) (a n : Nat) : slice w (a, a + n) = (w.drop a).take n := by
  simp [slice, List.drop_take]

theorem slice_mid (pre m post : Text) (i j : Nat) (hi : i = pre.length) (hj : j = pre.length + m.length) :
    slice (pre ++ m ++ post) (i, j) = m := by
  subst hi; subst hj
  rw [slice_drop_take, List.append_assoc, List.drop_left, List.take_left]

theorem slice_to_end (pre post : Text) (i j : Nat) (hi : i = pre.length) (hj : j = (pre ++ post).length) :
    slice (pre ++ post) (i, j) = post := by
  subst hi; subst hj
  simp only [slice, List.take_length, List.drop_left]

/-- `port()` at the end of the host -/
theorem port_at (pre : Text) (p : Option Text) (i : Nat) (hi : i = pre.length) :
    Parse.port (pre ++ portText p) i = (p.isSome, if p.isSome then (pre ++ portText p).length else i) := by
  subst hi
  unfold Parse.port
  rw [List.drop_left]
  cases p with
  | none => simp
  | some q => simp

/-- **`parts()` = `[ userinfo "@" ] host [ ":" port ]`** on well-formed sub-components -/
theorem modelAuthParts_recompose (A : AuthParts) (wf : WFA' A) : modelAuthParts (recomposeAuth A) = A := by
  obtain ⟨ui, h, p⟩ := A
  rw [recomposeAuth_eq]
  unfold modelAuthParts Authority.parts
  simp only [user_info_or_host, List.drop_zero, Nat.zero_add]
  cases ui with
  | some u =>
    have hu1 := wf.userinfo u rfl
    have hu2 := wf.uiBr u rfl
    have huh : uhGo (uiText (some u) ++ h ++ portText p) = (.userInfo, u.length) := by
      have := uhGo_userinfo u (h ++ portText p) hu1 hu2
      simpa [List.append_assoc] using this
    have hhost : Parse.host (uiText (some u) ++ h ++ portText p) (u.length + 1) = u.length + 1 + h.length := by
      have := host_eq (u ++ [cAt]) h p wf.host
      simpa using this
    have hport := port_at (uiText (some u) ++ h) p (u.length + 1 + h.length) (by simp; omega)
    simp only [huh, hhost, hport]
    have e1 : slice (uiText (some u) ++ h ++ portText p) (0, u.length) = u := by
      have := slice_mid [] u ([cAt] ++ h ++ portText p) 0 u.length rfl (by simp)
      simpa [List.append_assoc] using this
    have e2 : slice (uiText (some u) ++ h ++ portText p) (u.length + 1, u.length + 1 + h.length) = h :=
      slice_mid (uiText (some u)) h (portText p) _ _ (by simp) (by simp)
    cases p with
    | none => simp only [Option.map, Option.isSome, Bool.false_eq_true, if_false, e1, e2]
    | some q =>
      have e3 : slice (uiText (some u) ++ h ++ portText (some q))
          (u.length + 1 + h.length + 1, (uiText (some u) ++ h ++ portText (some q)).length) = q := by
        have := slice_to_end (uiText (some u) ++ h ++ [cColon]) q (u.length + 1 + h.length + 1)
          ((uiText (some u) ++ h ++ portText (some q)).length) (by simp; omega) (by simp)
        simpa [List.append_assoc] using this
      simp only [Option.map, Option.isSome, if_true, e1, e2, e3]
  | none =>
    simp only [uiText_none, List.nil_append]
    have e2 : slice (h ++ portText p) (0, h.length) = h := by
      have := slice_mid [] h (portText p) 0 h.length rfl (by simp)
      simpa using this
    have huh : uhGo (h ++ portText p) = (.host, h.length) := by
      rcases wf.host with ⟨inner, rfl, hin⟩ | ⟨hhd, hnc⟩
      · have hk : spanLen (fun c => c != cRBr) (cLBr :: inner ++ [cRBr] ++ portText p) = 1 + inner.length := by
          have := spanLen_ne cRBr (cLBr :: inner) ([cRBr] ++ portText p)
            (by
              intro hm
              rcases List.mem_cons.mp hm with e | e
              · simp [cRBr, cLBr] at e
              · exact hin e)
            (.inr ⟨portText p, rfl⟩)
          simp only [List.cons_append, List.append_assoc, List.length_cons] at this ⊢
          rw [this]; omega
        simp only [List.cons_append] at hk ⊢
        simp only [uhGo, beq_self_eq_true, if_true, hk]
        simp only [List.length_append, List.length_cons, List.length_nil]
        congr 1
        omega
      · have h1 : cAt ∉ h ++ portText p := by
          intro hm
          rcases List.mem_append.mp hm with e | e
          · exact wf.hostAt e
          · cases p with
            | none => simp at e
            | some q =>
              simp only [portText_some, List.mem_cons] at e
              rcases e with e | e
              · simp [cAt, cColon] at e
              · exact wf.port q rfl e
        have h2 : cLBr ∉ h ++ portText p := by
          intro hm
          rcases List.mem_append.mp hm with e | e
          · exact wf.hostBr hhd e
          · cases p with
            | none => simp at e
            | some q =>
              simp only [portText_some, List.mem_cons] at e
              rcases e with e | e
              · simp [cLBr, cColon] at e
              · exact wf.portBr q rfl e
        rw [uhGo_regname _ h1 h2, spanLen_ne cColon h (portText p) hnc (portText_head p)]
    have hport := port_at h p h.length rfl
    simp only [huh, hport]
    cases p with
    | none => simp only [Option.map, Option.isSome, Bool.false_eq_true, if_false, e2]
    | some q =>
      have e3 : slice (h ++ portText (some q)) (h.length + 1, (h ++ portText (some q)).length) = q := by
        have := slice_to_end (h ++ [cColon]) q (h.length + 1) ((h ++ portText (some q)).length) (by simp) (by simp)
        simpa [List.append_assoc] using this
      simp only [Option.map, Option.isSome, if_true, e2, e3]

end IrefVerif.Lemmas
