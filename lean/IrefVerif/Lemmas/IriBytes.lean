import IrefVerif.Lemmas.Utf8Enc
import IrefVerif.Lemmas.OrdHashKey

/-! The octet-level IRI grammar has well-formed escapes too. -/

namespace IrefVerif.Lemmas
open IrefVerif IrefVerif.RE IrefVerif.Spec

theorem iriGB_okWE : Grammar.OkWE iriGB := by constructor <;> decide

end IrefVerif.Lemmas
