import IrefVerif.Spec.Pct
import IrefVerif.Model.Dfa

/-! Strict UTF-8 decoding yields Unicode scalar values only. -/

namespace IrefVerif.Lemmas
open IrefVerif IrefVerif.Spec

theorem utf8Decode_scalars (bytes w : List Nat) (h : utf8Decode? bytes = some w) :
    ∀ c ∈ w, IsScalar c := by
  fun_induction utf8Decode? bytes generalizing w <;> simp_all [IsScalar]
  case case2 b0 rest hb ih =>
    obtain ⟨a, ha, rfl⟩ := h
    intro c hc
    rcases List.mem_cons.mp hc with hc | hc
    · omega
    · exact ih a ha c hc
  case case3 b0 b1 rest h1 h2 h3 ih =>
    obtain ⟨a, ha, rfl⟩ := h
    intro c hc
    rcases List.mem_cons.mp hc with hc | hc
    · simp only [isCont, Bool.and_eq_true, decide_eq_true_eq] at h3; omega
    · exact ih a ha c hc
  case case6 b0 b1 b2 rest cp h1 h2 h3 h4 ih =>
    obtain ⟨a, ha, rfl⟩ := h
    intro c hc
    rcases List.mem_cons.mp hc with hc | hc
    · simp only [isCont, Bool.and_eq_true, decide_eq_true_eq] at h4
      have : cp = (b0 - 224) * 4096 + (b1 - 128) * 64 + (b2 - 128) := rfl
      omega
    · exact ih a ha c hc
  case case9 b0 b1 b2 b3 rest cp h1 h2 h3 h4 h5 ih =>
    obtain ⟨a, ha, rfl⟩ := h
    intro c hc
    rcases List.mem_cons.mp hc with hc | hc
    · omega
    · exact ih a ha c hc

end IrefVerif.Lemmas
