import IrefVerif.Lemmas.ScanBack
import IrefVerif.Lemmas.SetterEqs
import IrefVerif.Spec.Resolve
import IrefVerif.Oracle

/-!
# The model of `base` is the specification

`Path.directory p` (scan back to the last `/`) is `upToLastSlash p` (everything up to and including
the last `/`, empty when there is none), and `Ref.base x` — the text up to the end of that
directory — is `Oracle.baseSpec x`: the recomposition of `x`'s components with the path cut after
its last `/` and without query and fragment.
-/

set_option linter.unusedSimpArgs false

namespace IrefVerif.Lemmas
open IrefVerif IrefVerif.Spec IrefVerif.Model IrefVerif.Oracle

theorem lastSlashFrom_eq_scanBack (p : Text) : ∀ n, Path.lastSlashFrom p n = Path.scanBack p 0 n := by
  intro n
  induction n with
  | zero => rfl
  | succ n ih =>
    simp only [Path.lastSlashFrom, Path.scanBack, ih]
    have : (n + 1 > 0) = True := by simp
    simp [this]

theorem directory_eq (p : Text) : Path.directory p = upToLastSlash p := by
  unfold Path.directory
  by_cases hp : p.isEmpty = true
  · have : p = [] := by simpa using hp
    subst this; rfl
  · have hp' : p.isEmpty = false := by simpa using hp
    have hne : p ≠ [] := by intro e; subst e; simp at hp'
    have hlen : 0 < p.length := by
      cases p with
      | nil => exact absurd rfl hne
      | cons c r => simp
    simp only [hp', Bool.false_eq_true, if_false, lastSlashFrom_eq_scanBack]
    obtain ⟨_, h2, h3, h4⟩ := scanBack_spec p 0 (p.length - 1) (Nat.zero_le _)
    have hns := no_slash_after p 0 hne (Nat.zero_le _)
    generalize hk : Path.scanBack p 0 (p.length - 1) = k at h2 h3 h4 hns
    by_cases hsl : p.getD k 0 = cSlash
    · -- a last `/` at index `k`
      have hkl : k < p.length := by omega
      have hsplit := split_at_slash p k hkl hsl
      have hcond : (k == 0 && p.getD 0 0 != cSlash) = false := by
        by_cases hk0 : k = 0
        · subst hk0; simp at hsl ⊢; exact hsl
        · simp [hk0]
      simp only [hcond, Bool.false_eq_true, if_false]
      unfold upToLastSlash
      have hsp : splitSlash p = splitSlash (p.take k) ++ [p.drop (k + 1)] := by
        conv => lhs; rw [hsplit]
        exact splitSlash_append _ _ hns
      rw [hsp]
      simp only [List.reverse_append, List.reverse_cons, List.reverse_nil, List.nil_append, List.singleton_append,
        List.reverse_reverse]
      cases hss : splitSlash (p.take k) with
      | nil => exact absurd hss (splitSlash_ne_nil _)
      | cons a as =>
        simp only
        rw [← hss, joinSlash_splitSlash]
        have : p.take (k + 1) = p.take k ++ [cSlash] := by
          rw [List.take_succ]
          have : p[k]? = some cSlash := by
            have := hsl
            simp [List.getD] at this
            rw [List.getElem?_eq_getElem hkl] at this ⊢
            simpa using this
          rw [this]; rfl
        exact this
    · -- no `/` at all
      have hk0 : k = 0 := by
        rcases h3 with h | h
        · exact h
        · exact absurd h hsl
      subst hk0
      have h0 : (p.getD 0 0 != cSlash) = true := by simpa using hsl
      simp only [beq_self_eq_true, h0, Bool.and_self, if_true]
      unfold upToLastSlash
      have hnone : cSlash ∉ p := by
        intro hm
        cases hpp : p with
        | nil => exact absurd hpp hne
        | cons c r =>
          rw [hpp] at hm hsl hns
          rcases List.mem_cons.mp hm with e | e
          · simp at hsl; exact hsl e.symm
          · simp at hns; exact hns e
      rw [splitSlash_noslash p hnone]
      rfl

/-- **`base` on the model = the specification** -/
theorem base_recompose (P : Spec.Parts) (wf : WF P) :
    Ref.base (recompose P) = recompose { P with path := upToLastSlash P.path, query := none, fragment := none } := by
  unfold Ref.base
  have hpath : Parse.slice (recompose P) (Parse.find_path (recompose P) 0) = P.path := ref_path_recompose P wf
  simp only [hpath]
  simp only [find_path_recompose P wf, directory_eq]
  -- the directory is a prefix of the path
  have hpre : ∃ rest, P.path = upToLastSlash P.path ++ rest := by
    rw [← directory_eq]
    unfold Path.directory
    by_cases hp : P.path.isEmpty = true
    · exact ⟨[], by simp [hp]⟩
    · have hp' : P.path.isEmpty = false := by simpa using hp
      simp only [hp', Bool.false_eq_true, if_false]
      split
      · exact ⟨P.path, by simp⟩
      · exact ⟨P.path.drop (Path.lastSlashFrom P.path (P.path.length - 1) + 1), (List.take_append_drop _ _).symm⟩
  obtain ⟨rest, hrest⟩ := hpre
  rw [recompose_eq, recompose_eq]
  simp only [queryText, fragText, List.append_nil]
  generalize upToLastSlash P.path = d at hrest ⊢
  rw [hrest]
  have : (schemeText P.scheme).length + (authText P.authority).length + d.length
      = (schemeText P.scheme ++ authText P.authority ++ d).length := by simp; omega
  rw [this]
  have key : ∀ Q F : Text, List.take (schemeText P.scheme ++ authText P.authority ++ d).length
      (schemeText P.scheme ++ authText P.authority ++ (d ++ rest) ++ Q ++ F)
      = schemeText P.scheme ++ authText P.authority ++ d := by
    intro Q F
    have e : schemeText P.scheme ++ authText P.authority ++ (d ++ rest) ++ Q ++ F
        = (schemeText P.scheme ++ authText P.authority ++ d) ++ (rest ++ Q ++ F) := by
      simp [List.append_assoc]
    rw [e, List.take_left]
  exact key _ _

end IrefVerif.Lemmas
