import IrefVerif.Lemmas.ValidWF
import IrefVerif.Model.Reference

/-!
# The model of the query and fragment setters computes the specified recomposition

`Ref.set_query (recompose P) v = some (recompose { P with query := v })` and the same for
the fragment, for every well-formed component list `P` (`WF`), hence for `P = split w` of every
valid reference `w` of either family.  This connects the *model of the Rust setter*
(`find_query`/`find_fragment` scans + `Vec` splice) to the specification used by C04/C05.
-/

set_option linter.unusedSimpArgs false

namespace IrefVerif.Lemmas
open IrefVerif IrefVerif.Spec IrefVerif.Model IrefVerif.Model.Parse

theorem findQueryGo_hit (pre r : Text) (hp : ∀ c ∈ pre, nQH c = true) :
    findQueryGo (pre ++ cQuest :: r) = .inl pre.length := by
  induction pre with
  | nil => simp [findQueryGo, cQuest, cHash]
  | cons c pre ih =>
    have hc := hp c List.mem_cons_self
    simp only [nQH, Bool.not_eq_true', Bool.or_eq_false_iff] at hc
    simp only [List.cons_append, findQueryGo, hc.1, hc.2, Bool.false_eq_true, if_false,
      ih (fun x hx => hp x (List.mem_cons_of_mem _ hx)), List.length_cons]

theorem findQueryGo_miss (pre r : Text) (hp : ∀ c ∈ pre, nQH c = true) (hr : r = [] ∨ ∃ t, r = cHash :: t) :
    findQueryGo (pre ++ r) = .inr pre.length := by
  induction pre with
  | nil =>
    rcases hr with rfl | ⟨t, rfl⟩
    · rfl
    · simp [findQueryGo]
  | cons c pre ih =>
    have hc := hp c List.mem_cons_self
    simp only [nQH, Bool.not_eq_true', Bool.or_eq_false_iff] at hc
    simp only [List.cons_append, findQueryGo, hc.1, hc.2, Bool.false_eq_true, if_false,
      ih (fun x hx => hp x (List.mem_cons_of_mem _ hx)), List.length_cons]

theorem findHashGo_hit (pre r : Text) (hp : ∀ c ∈ pre, nH c = true) :
    findHashGo (pre ++ cHash :: r) = some pre.length := by
  induction pre with
  | nil => simp [findHashGo]
  | cons c pre ih =>
    have hc := hp c List.mem_cons_self
    simp only [nH, Bool.not_eq_true'] at hc
    simp only [List.cons_append, findHashGo, hc, Bool.false_eq_true, if_false,
      ih (fun x hx => hp x (List.mem_cons_of_mem _ hx)), List.length_cons, Option.map_some]

theorem findHashGo_miss (pre : Text) (hp : ∀ c ∈ pre, nH c = true) : findHashGo pre = none := by
  induction pre with
  | nil => rfl
  | cons c pre ih =>
    have hc := hp c List.mem_cons_self
    simp only [nH, Bool.not_eq_true'] at hc
    simp only [findHashGo, hc, Bool.false_eq_true, if_false,
      ih (fun x hx => hp x (List.mem_cons_of_mem _ hx)), Option.map_none]

theorem fragText_head (f : Option Text) : fragText f = [] ∨ ∃ t, fragText f = cHash :: t := by
  cases f with
  | none => exact .inl rfl
  | some x => exact .inr ⟨x, rfl⟩

/-- everything in front of the query: no `?`, no `#` -/
def preQ (P : Spec.Parts) : Text := schemeText P.scheme ++ authText P.authority ++ P.path

theorem nQH_of_nCSQH {c : Nat} (h : nCSQH c = true) : nQH c = true := by
  simp only [nCSQH, nQH, Bool.not_eq_true', Bool.or_eq_false_iff] at h ⊢
  exact ⟨h.1.2, h.2⟩

theorem nQH_of_nSQH {c : Nat} (h : nSQH c = true) : nQH c = true := by
  simp only [nSQH, nQH, Bool.not_eq_true', Bool.or_eq_false_iff] at h ⊢
  exact ⟨h.1.2, h.2⟩

theorem nH_of_nQH {c : Nat} (h : nQH c = true) : nH c = true := by
  simp only [nH, nQH, Bool.not_eq_true', Bool.or_eq_false_iff] at h ⊢
  exact h.2

theorem preQ_nQH (P : Spec.Parts) (wf : WF P) : ∀ c ∈ preQ P, nQH c = true := by
  intro c hc
  simp only [preQ, List.mem_append] at hc
  rcases hc with (hc | hc) | hc
  · cases hs : P.scheme with
    | none => rw [hs] at hc; simp [schemeText] at hc
    | some s =>
      rw [hs] at hc
      simp only [schemeText, List.mem_append, List.mem_cons, List.not_mem_nil, or_false] at hc
      rcases hc with hc | rfl
      · exact nQH_of_nCSQH ((wf.scheme s hs).2 c hc)
      · simp [nQH, cColon, cQuest, cHash]
  · cases ha : P.authority with
    | none => rw [ha] at hc; simp [authText] at hc
    | some a =>
      rw [ha] at hc
      simp only [authText, List.cons_append, List.nil_append, List.mem_cons] at hc
      rcases hc with rfl | rfl | hc
      · simp [nQH, cSlash, cQuest, cHash]
      · simp [nQH, cSlash, cQuest, cHash]
      · exact nQH_of_nSQH (wf.authority a ha c hc)
  · exact wf.path c hc

theorem recompose_preQ (P : Spec.Parts) : recompose P = preQ P ++ queryText P.query ++ fragText P.fragment := by
  rw [recompose_eq]; rfl

theorem take_append_left' (u v : Text) : (u ++ v).take u.length = u := by simp
theorem drop_append_left' (u v : Text) : (u ++ v).drop u.length = v := by simp

/-- **`set_query` on the model = replacing the query component** -/
theorem set_query_recompose (P : Spec.Parts) (wf : WF P) (v : Option Text) :
    Ref.set_query (recompose P) v = some (recompose { P with query := v }) := by
  have hpre := preQ_nQH P wf
  rw [recompose_preQ, recompose_preQ]
  simp only [show preQ { P with query := v } = preQ P from rfl]
  generalize preQ P = pre at hpre
  obtain hf := fragText_head P.fragment
  generalize fragText P.fragment = ft at hf
  cases hq : P.query with
  | some q =>
    have hqn : ∀ c ∈ q, (c != cHash) = true := by
      intro c hc
      have := wf.query q hq c hc
      simpa [nH, bne] using this
    have hfind : find_query (pre ++ queryText (some q) ++ ft) 0
        = .ok (pre.length + 1, pre.length + 1 + q.length) := by
      unfold find_query
      simp only [List.drop_zero, queryText, List.append_assoc, List.cons_append]
      rw [findQueryGo_hit pre (q ++ ft) hpre]
      simp only [Nat.zero_add]
      have hd : (pre ++ cQuest :: (q ++ ft)).drop (pre.length + 1) = q ++ ft := by
        rw [show pre ++ cQuest :: (q ++ ft) = (pre ++ [cQuest]) ++ (q ++ ft) by simp]
        have : (pre ++ [cQuest]).length = pre.length + 1 := by simp
        rw [← this, List.drop_left]
      rw [hd]
      have hsp : spanLen (fun c => c != cHash) (q ++ ft) = q.length := by
        apply spanLen_append_of_all hqn
        intro c r hcr
        rcases hf with rfl | ⟨t, rfl⟩
        · cases hcr
        · injection hcr with h1 _; subst h1; simp
      rw [hsp]
    cases v with
    | some nq =>
      simp only [Ref.set_query, hfind, splice]
      have hle : pre.length + 1 ≤ pre.length + 1 + q.length ∧
          pre.length + 1 + q.length ≤ (pre ++ queryText (some q) ++ ft).length := by
        simp [queryText]; omega
      simp only [hle, and_self, if_true, Option.some.injEq]
      simp only [queryText, List.append_assoc, List.cons_append]
      have e1 : (pre ++ cQuest :: (q ++ ft)).take (pre.length + 1) = pre ++ [cQuest] := by
        rw [show pre ++ cQuest :: (q ++ ft) = (pre ++ [cQuest]) ++ (q ++ ft) by simp]
        have : (pre ++ [cQuest]).length = pre.length + 1 := by simp
        rw [← this, List.take_left]
      have e2 : (pre ++ cQuest :: (q ++ ft)).drop (pre.length + 1 + q.length) = ft := by
        rw [show pre ++ cQuest :: (q ++ ft) = (pre ++ [cQuest] ++ q) ++ ft by simp]
        have : (pre ++ [cQuest] ++ q).length = pre.length + 1 + q.length := by simp; omega
        rw [← this, List.drop_left]
      rw [e1, e2]; simp
    | none =>
      simp only [Ref.set_query, hfind, splice]
      have hle : pre.length + 1 - 1 ≤ pre.length + 1 + q.length ∧
          pre.length + 1 + q.length ≤ (pre ++ queryText (some q) ++ ft).length := by
        simp [queryText]; omega
      have h1 : 1 ≤ pre.length + 1 := by omega
      simp only [h1, hle, and_self, if_true, Option.some.injEq, Nat.add_sub_cancel]
      simp only [queryText, List.append_assoc, List.cons_append, List.append_nil, List.nil_append]
      have e1 : (pre ++ cQuest :: (q ++ ft)).take pre.length = pre := by simp
      have e2 : (pre ++ cQuest :: (q ++ ft)).drop (pre.length + 1 + q.length) = ft := by
        rw [show pre ++ cQuest :: (q ++ ft) = (pre ++ [cQuest] ++ q) ++ ft by simp]
        have : (pre ++ [cQuest] ++ q).length = pre.length + 1 + q.length := by simp; omega
        rw [← this, List.drop_left]
      rw [e1, e2]
      have : pre.length ≤ pre.length + 1 + q.length := by omega
      simp [this]
  | none =>
    have hfind : find_query (pre ++ queryText none ++ ft) 0 = .err pre.length := by
      unfold find_query
      simp only [List.drop_zero, queryText, List.append_nil]
      rw [findQueryGo_miss pre ft hpre hf]
      simp
    cases v with
    | some nq =>
      simp only [Ref.set_query, hfind, splice]
      have hle : pre.length ≤ pre.length ∧ pre.length ≤ (pre ++ queryText none ++ ft).length := by
        simp [queryText]
      simp only [hle, and_self, if_true, Option.some.injEq]
      simp [queryText]
    | none =>
      simp only [Ref.set_query, hfind]

/-- everything in front of the fragment: no `#` -/
def preF (P : Spec.Parts) : Text := preQ P ++ queryText P.query

theorem preF_nH (P : Spec.Parts) (wf : WF P) : ∀ c ∈ preF P, nH c = true := by
  intro c hc
  simp only [preF, List.mem_append] at hc
  rcases hc with hc | hc
  · exact nH_of_nQH (preQ_nQH P wf c hc)
  · cases hq : P.query with
    | none => rw [hq] at hc; simp [queryText] at hc
    | some q =>
      rw [hq] at hc
      simp only [queryText, List.mem_cons] at hc
      rcases hc with rfl | hc
      · simp [nH, cQuest, cHash]
      · exact wf.query q hq c hc

/-- **`set_fragment` on the model = replacing the fragment component** -/
theorem set_fragment_recompose (P : Spec.Parts) (wf : WF P) (v : Option Text) :
    Ref.set_fragment (recompose P) v = some (recompose { P with fragment := v }) := by
  have hpre := preF_nH P wf
  rw [recompose_preQ, recompose_preQ]
  simp only [show preQ { P with fragment := v } ++ queryText ({ P with fragment := v } : Spec.Parts).query = preF P from rfl,
    show preQ P ++ queryText P.query = preF P from rfl]
  generalize preF P = pre at hpre
  cases hfr : P.fragment with
  | some f =>
    have hfind : find_fragment (pre ++ fragText (some f)) 0 = .ok (pre.length + 1, (pre ++ fragText (some f)).length) := by
      unfold find_fragment
      simp only [List.drop_zero, fragText]
      rw [findHashGo_hit pre f hpre]
      simp
    cases v with
    | some nf =>
      simp only [Ref.set_fragment, hfind, splice]
      have hle : pre.length + 1 ≤ (pre ++ fragText (some f)).length ∧
          (pre ++ fragText (some f)).length ≤ (pre ++ fragText (some f)).length := by
        simp [fragText]
      simp only [hle, and_self, if_true, Option.some.injEq]
      have e1 : (pre ++ fragText (some f)).take (pre.length + 1) = pre ++ [cHash] := by
        rw [show pre ++ fragText (some f) = (pre ++ [cHash]) ++ f by simp [fragText]]
        have : (pre ++ [cHash]).length = pre.length + 1 := by simp
        rw [← this, List.take_left]
      rw [e1]; simp [fragText]
    | none =>
      simp only [Ref.set_fragment, hfind, splice]
      have hle : pre.length + 1 - 1 ≤ (pre ++ fragText (some f)).length ∧
          (pre ++ fragText (some f)).length ≤ (pre ++ fragText (some f)).length := by
        simp [fragText]
      have h1 : 1 ≤ pre.length + 1 := by omega
      simp only [h1, hle, and_self, if_true, Option.some.injEq, Nat.add_sub_cancel]
      simp [fragText]
  | none =>
    have hfind : find_fragment (pre ++ fragText none) 0 = .err pre.length := by
      unfold find_fragment
      simp only [List.drop_zero, fragText, List.append_nil]
      rw [findHashGo_miss pre hpre]
      simp
    cases v with
    | some nf =>
      simp only [Ref.set_fragment, hfind, splice]
      have hle : pre.length ≤ pre.length ∧ pre.length ≤ (pre ++ fragText none).length := by
        simp [fragText]
      simp only [hle, and_self, if_true, Option.some.injEq]
      simp [fragText]
    | none =>
      simp only [Ref.set_fragment, hfind]

end IrefVerif.Lemmas
