import IrefVerif.Lemmas.WellEscaped
import IrefVerif.Lemmas.SegIter
import IrefVerif.Lemmas.Nsegs
import IrefVerif.Lemmas.AuthValid
import IrefVerif.Lemmas.ValidWF
import IrefVerif.Spec.Equiv

/-!
# Struct-level equality is equality of normal-form keys

For valid URI references `a`, `b`: `refEq a b = some (decide (key a = key b))` — the model of
`PartialEq for UriRef` (derived `==` on `UriRefParts`, i.e. a short-circuit `&&` over scheme,
authority, path, query, fragment) never panics and decides exactly the documented
equivalence.
-/

set_option linter.unusedSimpArgs false

namespace IrefVerif.Lemmas
open IrefVerif IrefVerif.RE IrefVerif.Spec IrefVerif.Model IrefVerif.Model.Cmp

/-! ## combinators -/

theorem optEq_lit (s1 s2 : Option Text) :
    optEq (fun x y => some (x == y)) s1 s2 = some (decide (s1 = s2)) := by
  cases s1 with
  | none => cases s2 <;> simp [optEq]
  | some a =>
    cases s2 with
    | none => simp [optEq]
    | some b =>
      simp only [optEq, Option.some.injEq]
      by_cases h : a = b
      · subst h; simp
      · have : (a == b) = false := by simpa using h
        simp [this, h]

theorem optEq_pct (q1 q2 : Option Text) (h1 : ∀ x, q1 = some x → wellEscaped x = true)
    (h2 : ∀ x, q2 = some x → wellEscaped x = true) :
    optEq pctEq q1 q2 = some (decide (q1.map pctDecode = q2.map pctDecode)) := by
  cases q1 with
  | none => cases q2 <;> simp [optEq]
  | some x =>
    cases q2 with
    | none => simp [optEq]
    | some y =>
      simp only [optEq, pctEq_eq x y (h1 x rfl) (h2 y rfl), Option.map_some, Option.some.injEq]
      congr 1
      by_cases h : pctDecode x = pctDecode y <;> simp [h]

theorem lbeq_decide (x y : Text) : (x == y) = decide (x = y) := by
  by_cases h : x = y
  · subst h; simp
  · have : (x == y) = false := by simpa using h
    simp [this, h]

theorem andThen_some (a b : Bool) : andThen (some a) (fun _ => some b) = some (a && b) := by
  cases a <;> rfl

/-! ## `/` never cuts an escape -/

theorem wellEscaped_append_slash (u v : Text) :
    wellEscaped (u ++ cSlash :: v) = (wellEscaped u && wellEscaped v) := by
  fun_induction wellEscaped u with
  | case1 => simp [wellEscaped_cons cSlash v (by decide), wellEscaped]
  | case2 c =>
    by_cases hc : (c == cPct) = true
    · have : c = cPct := by simpa using hc
      subst this
      -- `%/…` : the escape is malformed on both sides
      cases v with
      | nil => simp [wellEscaped, cSlash, cPct]
      | cons d v' =>
        have : hexVal cSlash = none := by decide
        simp [wellEscaped, this, cPct]
    · have hc' : c ≠ cPct := by simpa using hc
      have hb : (c == cPct) = false := by simpa using hc'
      simp only [List.cons_append, List.nil_append]
      rw [wellEscaped_cons c _ hc', wellEscaped_cons cSlash v (by decide)]
      simp [wellEscaped, hb]
  | case3 c a ih =>
    by_cases hc : (c == cPct) = true
    · have : c = cPct := by simpa using hc
      subst this
      have : hexVal cSlash = none := by decide
      simp [wellEscaped, this, cPct]
    · have hc' : c ≠ cPct := by simpa using hc
      have hb : (c == cPct) = false := by simpa using hc'
      simp only [List.cons_append, List.nil_append] at ih ⊢
      rw [wellEscaped_cons c _ hc', ih]
      simp [wellEscaped, hb]
  | case4 c a b rest hc ih =>
    simp only [List.cons_append]
    have : c = cPct := by simpa using hc
    subst this
    by_cases ha : (hexVal a).isSome = true
    · by_cases hb : (hexVal b).isSome = true
      · rw [wellEscaped_pct a b _ ha hb, ih]
        simp [wellEscaped, ha, hb]
      · have hb' : (hexVal b).isSome = false := by simpa using hb
        simp [wellEscaped, ha, hb']
    · have ha' : (hexVal a).isSome = false := by simpa using ha
      simp [wellEscaped, ha']
  | case5 c a b rest hc ih =>
    have hc' : c ≠ cPct := by simpa using hc
    have hb : (c == cPct) = false := by simpa using hc'
    simp only [List.cons_append] at ih ⊢
    rw [wellEscaped_cons c _ hc', ih]

theorem wellEscaped_splitSlash (p : Text) (h : wellEscaped p = true) : ∀ s ∈ splitSlash p, wellEscaped s = true := by
  induction p with
  | nil => simp [splitSlash, wellEscaped]
  | cons c l ih =>
    -- peel the first segment with `splitSlash_span`-free reasoning: use the append lemma on the first `/`
    intro s hs
    simp only [splitSlash] at hs
    by_cases hc : (c == cSlash) = true
    · have hcs : c = cSlash := by simpa using hc
      subst hcs
      simp only [hc, if_true, List.mem_cons] at hs
      have hl : wellEscaped l = true := by
        have := wellEscaped_append_slash [] l
        simp only [List.nil_append] at this
        rw [this] at h
        simpa [wellEscaped] using h
      rcases hs with rfl | hs
      · rfl
      · exact ih hl s hs
    · have hc' : (c == cSlash) = false := by simpa using hc
      simp only [hc', Bool.false_eq_true, if_false] at hs
      -- l = first ++ rest-with-slash; handled through the general decomposition below
      cases hsp : splitSlash l with
      | nil => exact absurd hsp (splitSlash_ne_nil l)
      | cons s0 ss =>
        rw [hsp] at hs
        simp only [List.mem_cons] at hs
        -- `c :: l = (c :: s0) ++ rest`, where rest is empty or `/ :: joinSlash ss`
        have hjoin := joinSlash_splitSlash l
        rw [hsp] at hjoin
        cases ss with
        | nil =>
          simp only [joinSlash] at hjoin
          subst hjoin
          rcases hs with rfl | hs
          · exact h
          · simp at hs
        | cons s1 ss' =>
          rw [joinSlash_cons_cons] at hjoin
          have hcl : c :: l = (c :: s0) ++ cSlash :: joinSlash (s1 :: ss') := by
            rw [← hjoin]; rfl
          rw [hcl, wellEscaped_append_slash] at h
          simp only [Bool.and_eq_true] at h
          rcases hs with rfl | hs
          · exact h.1
          · -- the remaining segments are those of `joinSlash (s1 :: ss')`, a suffix of `l`
            have hl : wellEscaped l = true := by
              rw [← hjoin, wellEscaped_append_slash]
              have h0 : wellEscaped s0 = true := by
                have := h.1
                by_cases hcp : c = cPct
                · subst hcp
                  -- `%` followed by s0: if it is well-escaped so is the tail of the escape…
                  -- fall back on the induction hypothesis through `l`
                  exact by
                    cases s0 with
                    | nil => rfl
                    | cons a t =>
                      cases t with
                      | nil => simp [wellEscaped, cPct] at this
                      | cons b t' =>
                        simp only [wellEscaped, beq_self_eq_true, if_true, Bool.and_eq_true] at this
                        -- s0 = a :: b :: t' with a, b hex digits and t' well-escaped
                        have ha : a ≠ cPct := by
                          intro e; subst e; simp [hexVal, cPct] at this
                        have hb : b ≠ cPct := by
                          intro e; subst e; simp [hexVal, cPct] at this
                        rw [wellEscaped_cons a _ ha, wellEscaped_cons b _ hb]
                        exact this.2
                · rw [wellEscaped_cons c _ hcp] at this; exact this
              simp [h0, h.2]
            exact ih hl s (by rw [hsp]; exact List.mem_cons_of_mem _ hs)

/-! ## what the theorem needs about the leaf productions: escapes are well formed -/

structure Grammar.OkWE (G : Grammar) : Prop where
  userinfo : sub G.userinfo WE = true
  host : sub G.host WE = true
  query : sub G.query WE = true
  fragment : sub G.fragment WE = true
  abempty : sub G.pathAbempty WE = true
  absolute : sub G.pathAbsolute WE = true
  noscheme : sub G.pathNoscheme WE = true
  rootless : sub G.pathRootless WE = true

theorem uriG_okWE : Grammar.OkWE uriG := by constructor <;> decide
theorem iriG_okWE : Grammar.OkWE iriG := by constructor <;> decide

theorem path_we (G : Grammar) (we : Grammar.OkWE G) (P : Spec.Parts) (hv : ValidParts G P) :
    wellEscaped P.path = true := by
  cases ha : P.authority with
  | some a => exact wellEscaped_of_sub we.abempty (hv.pathAuth (by simp [ha]))
  | none =>
    cases hs : P.scheme with
    | some s =>
      rcases hv.pathScheme ha (by simp [hs]) with h | h | h
      · exact wellEscaped_of_sub we.absolute h
      · exact wellEscaped_of_sub we.rootless h
      · rw [h]; rfl
    | none =>
      rcases hv.pathRel ha hs with h | h | h
      · exact wellEscaped_of_sub we.absolute h
      · exact wellEscaped_of_sub we.noscheme h
      · rw [h]; rfl

/-! ## generic option lemma -/

theorem optEq_map {α β : Type} [DecidableEq β] (eq : α → α → Option Bool) (f : α → β) (o1 o2 : Option α)
    (h : ∀ x y, o1 = some x → o2 = some y → eq x y = some (decide (f x = f y))) :
    optEq eq o1 o2 = some (decide (o1.map f = o2.map f)) := by
  cases o1 with
  | none => cases o2 <;> simp [optEq]
  | some x =>
    cases o2 with
    | none => simp [optEq]
    | some y => simp [optEq, h x y rfl rfl]

/-! ## authority -/

theorem authorityEq_key (G : Grammar) (ok : Grammar.OkAuth G) (we : Grammar.OkWE G) (a b : Text)
    (ha : Matches G.authority a) (hb : Matches G.authority b) :
    authorityEq a b = some (decide (authKey a = authKey b)) := by
  obtain ⟨ma, va, _⟩ := authority_parts G ok a ha
  obtain ⟨mb, vb, _⟩ := authority_parts G ok b hb
  have ea : authParts a = ((splitAuth a).userinfo, (splitAuth a).host, (splitAuth a).port) := by
    rw [← ma]; rfl
  have eb : authParts b = ((splitAuth b).userinfo, (splitAuth b).host, (splitAuth b).port) := by
    rw [← mb]; rfl
  unfold authorityEq
  rw [ea, eb]
  simp only []
  rw [optEq_pct _ _ (fun x hx => wellEscaped_of_sub we.userinfo (va.userinfo x hx))
        (fun x hx => wellEscaped_of_sub we.userinfo (vb.userinfo x hx)),
      pctEq_eq _ _ (wellEscaped_of_sub we.host va.host) (wellEscaped_of_sub we.host vb.host),
      optEq_lit]
  simp only [andThen_some]
  congr 1
  simp only [authKey, AuthKey.mk.injEq, Bool.decide_and, lbeq_decide]

/-! ## path -/

theorem is_absolute_eq (p : Text) : Path.is_absolute p = isAbs p := by
  cases p <;> rfl

theorem normalized_segments_eq (p : Text) (hp : PathText p) : Path.normalized_segments p = nsegs p := by
  unfold Path.normalized_segments nsegs
  rw [segmentList_eq_segs p hp, normalized_stack_eq_nsegsOf]
  simp [Path.is_relative, is_absolute_eq]

theorem nstep_subset (abs : Bool) (st : List Text) (s : Text) : ∀ t ∈ nstep abs st s, t ∈ st ∨ t = s := by
  intro t ht
  unfold nstep at ht
  split at ht
  · exact .inl ht
  · split at ht
    · cases st with
      | nil =>
        simp only at ht
        split at ht
        · simp at ht
        · simp only [List.mem_cons, List.not_mem_nil, or_false] at ht; exact .inr ht
      | cons u rest =>
        simp only at ht
        split at ht
        · split at ht
          · exact .inl ht
          · rcases List.mem_cons.mp ht with h | h
            · exact .inr h
            · exact .inl h
        · exact .inl (List.mem_cons_of_mem _ ht)
    · rcases List.mem_cons.mp ht with h | h
      · exact .inr h
      · exact .inl h

theorem foldl_nstep_subset (abs : Bool) (ss st : List Text) :
    ∀ t ∈ ss.foldl (nstep abs) st, t ∈ st ∨ t ∈ ss := by
  induction ss generalizing st with
  | nil => intro t ht; exact .inl ht
  | cons s ss ih =>
    intro t ht
    rcases ih (nstep abs st s) t ht with h | h
    · rcases nstep_subset abs st s t h with h | h
      · exact .inl h
      · exact .inr (by rw [h]; exact List.mem_cons_self)
    · exact .inr (List.mem_cons_of_mem _ h)

theorem nsegsOf_subset (abs : Bool) (ss : List Text) : ∀ t ∈ nsegsOf abs ss, t ∈ ss := by
  intro t ht
  unfold nsegsOf at ht
  rcases foldl_nstep_subset abs ss [] t (List.mem_reverse.mp ht) with h | h
  · cases h
  · exact h

theorem stripRoot_we (p : Text) (h : wellEscaped p = true) : wellEscaped (stripRoot p) = true := by
  cases p with
  | nil => rfl
  | cons c l =>
    simp only [stripRoot]
    split
    · rename_i hc
      have : c = cSlash := by simpa using hc
      subst this
      rwa [wellEscaped_cons cSlash l (by decide)] at h
    · exact h

theorem segs_we (p : Text) (h : wellEscaped p = true) : ∀ s ∈ segs p, wellEscaped s = true := by
  intro s hs
  unfold segs at hs
  split at hs
  · cases hs
  · exact wellEscaped_splitSlash _ (stripRoot_we p h) s hs

theorem nsegs_we (p : Text) (h : wellEscaped p = true) : ∀ s ∈ nsegs p, wellEscaped s = true :=
  fun s hs => segs_we p h s (nsegsOf_subset _ _ s hs)

theorem allEq_eq (sa sb : List Text) (ha : ∀ s ∈ sa, wellEscaped s = true)
    (hb : ∀ s ∈ sb, wellEscaped s = true) (hl : sa.length = sb.length) :
    allEq sa sb = some (decide (sa.map pctDecode = sb.map pctDecode)) := by
  induction sa generalizing sb with
  | nil =>
    cases sb with
    | nil => simp [allEq]
    | cons b bs => simp at hl
  | cons a as ih =>
    cases sb with
    | nil => simp at hl
    | cons b bs =>
      simp only [allEq]
      rw [pctEq_eq a b (ha a List.mem_cons_self) (hb b List.mem_cons_self),
          ih bs (fun s hs => ha s (List.mem_cons_of_mem _ hs)) (fun s hs => hb s (List.mem_cons_of_mem _ hs))
            (by simpa using hl)]
      rw [andThen_some]
      congr 1
      simp only [List.map_cons, List.cons.injEq, Bool.decide_and, lbeq_decide]

theorem pathEq_key (p q : Text) (hp : PathText p) (hq : PathText q)
    (wp : wellEscaped p = true) (wq : wellEscaped q = true) :
    pathEq p q = some (decide (pathKey p = pathKey q)) := by
  unfold pathEq
  rw [is_absolute_eq, is_absolute_eq, normalized_segments_eq p hp, normalized_segments_eq q hq]
  simp only [pathKey, PathKey.mk.injEq]
  by_cases habs : isAbs p = isAbs q
  · by_cases hl : (nsegs p).length = (nsegs q).length
    · have hbe : ((nsegs p).length == (nsegs q).length) = true := by simpa using hl
      simp only [habs, beq_self_eq_true, if_true, hbe]
      rw [allEq_eq _ _ (nsegs_we p wp) (nsegs_we q wq) hl]
      simp
    · have hbe : ((nsegs p).length == (nsegs q).length) = false := by simpa using hl
      have hne : ¬ ((nsegs p).map pctDecode = (nsegs q).map pctDecode) := by
        intro h; apply hl
        have := congrArg List.length h
        simpa using this
      simp [habs, hbe, hne]
  · have hbe : (isAbs p == isAbs q) = false := by simpa using habs
    simp [hbe, habs]

/-! ## the whole reference -/

/-- the key of a decomposition -/
def keyOf (P : Spec.Parts) : Key :=
  { scheme := P.scheme, authority := P.authority.map authKey, path := pathKey P.path,
    query := P.query.map pctDecode, fragment := P.fragment.map pctDecode }

theorem key_eq_keyOf (w : Text) : key w = keyOf (split w) := rfl

def toRefParts (P : Spec.Parts) : RefParts :=
  { scheme := P.scheme, authority := P.authority, path := P.path, query := P.query, fragment := P.fragment }

theorem refParts_eq_split (w : Text) (hw : w.head? ≠ some cColon) : refParts w = toRefParts (split w) := by
  rw [← modelRefParts_eq_split w hw]; rfl

theorem pathText_of_wf (P : Spec.Parts) (wf : WF P) : PathText P.path := by
  intro c hc
  have := wf.path c hc
  simp only [nQH, Bool.not_eq_true', Bool.or_eq_false_iff, beq_eq_false_iff_ne] at this
  exact this

theorem partsEq_key (G : Grammar) (oka : Grammar.OkAuth G) (we : Grammar.OkWE G) (A B : Spec.Parts)
    (vA : ValidParts G A) (wA : WF A) (vB : ValidParts G B) (wB : WF B) :
    partsEq (toRefParts A) (toRefParts B) = some (decide (keyOf A = keyOf B)) := by
  unfold partsEq toRefParts
  simp only []
  rw [optEq_lit,
      optEq_map authorityEq authKey A.authority B.authority
        (fun x y hx hy => authorityEq_key G oka we x y (vA.authority x hx) (vB.authority y hy)),
      pathEq_key A.path B.path (pathText_of_wf A wA) (pathText_of_wf B wB) (path_we G we A vA) (path_we G we B vB),
      optEq_pct A.query B.query (fun x hx => wellEscaped_of_sub we.query (vA.query x hx))
        (fun x hx => wellEscaped_of_sub we.query (vB.query x hx)),
      optEq_pct A.fragment B.fragment (fun x hx => wellEscaped_of_sub we.fragment (vA.fragment x hx))
        (fun x hx => wellEscaped_of_sub we.fragment (vB.fragment x hx))]
  simp only [andThen_some]
  congr 1
  simp only [keyOf, Key.mk.injEq, Bool.decide_and]

/-- **C07 at the level of whole references**: for valid references (of either family), the
model of `==` on `UriRef`/`IriRef` (derived `PartialEq` on the parts, short-circuit `&&`) never
panics and decides exactly equality of the documented normal-form keys. -/
theorem refEq_eq_key (G : Grammar) (ok : Grammar.Ok G) (oka : Grammar.OkAuth G) (we : Grammar.OkWE G) (a b : Text)
    (ha : Matches G.reference a) (hb : Matches G.reference b) :
    refEq a b = some (decide (key a = key b)) := by
  obtain ⟨vA, wA⟩ := split_valid G ok a ha
  obtain ⟨vB, wB⟩ := split_valid G ok b hb
  unfold refEq
  rw [refParts_eq_split a (valid_head G ok a ha), refParts_eq_split b (valid_head G ok b hb),
      key_eq_keyOf, key_eq_keyOf]
  exact partsEq_key G oka we _ _ vA wA vB wB

/-! ## full URIs / IRIs: `parts()` of the full type agrees with that of the reference type -/

theorem spanLen_colon_of_fdc {w : Text} (h : fdc w = true) :
    Parse.spanLen (fun c => c != cColon) w = Parse.spanLen nCSQH w := by
  induction w with
  | nil => simp [fdc] at h
  | cons c l ih =>
    unfold fdc at h
    by_cases hc : (c == cColon) = true
    · have : c = cColon := by simpa using hc
      subst this
      simp [Parse.spanLen, nCSQH]
    · have hc' : (c == cColon) = false := by simpa using hc
      simp only [hc', Bool.false_eq_true, if_false] at h
      split at h
      · cases h
      · rename_i h3
        have h3' : (c == cSlash || c == cQuest || c == cHash) = false := by simpa using h3
        have hn : nCSQH c = true := by
          simp only [Bool.or_eq_false_iff] at h3'
          simp [nCSQH, hc', h3'.1.1, h3'.1.2, h3'.2]
        have hne : (c != cColon) = true := by simp [bne, hc']
        simp only [Parse.spanLen, hn, hne, if_true, ih h]

theorem fullParts_eq_refParts (w : Text) (h : fdc w = true) : fullParts w = refParts w := by
  unfold fullParts refParts Parse.parts Parse.reference_parts
  rw [sap_eq, sapGo_start]
  simp only [h, if_true, Parse.scheme, List.drop_zero, Nat.zero_add, spanLen_colon_of_fdc h]
  split <;> simp_all

theorem fdc_of_full (G : Grammar) (ok : Grammar.Ok G) (w : Text) (h : Matches G.full w) : fdc w = true := by
  obtain ⟨P, hs, hP, hv⟩ := (full_iff G w).mp h
  have hwf := wf_of_valid G ok P hv
  have hsp : split w = P := by rw [← hP]; exact split_recompose P hwf
  cases hf : fdc w with
  | true => rfl
  | false =>
    have : (split w).scheme = none := by
      rw [split_eq_tail, splitScheme_of_fdc_false hf]
    rw [hsp] at this
    rw [this] at hs
    cases hs

/-- **C07 for `Uri` / `Iri`** -/
theorem fullEq_eq_key (G : Grammar) (ok : Grammar.Ok G) (oka : Grammar.OkAuth G) (we : Grammar.OkWE G)
    (a b : Text) (ha : Matches G.full a) (hb : Matches G.full b) :
    fullEq a b = some (decide (key a = key b)) := by
  unfold fullEq
  rw [fullParts_eq_refParts a (fdc_of_full G ok a ha), fullParts_eq_refParts b (fdc_of_full G ok b hb)]
  exact refEq_eq_key G ok oka we a b (.altL ha) (.altL hb)

end IrefVerif.Lemmas
