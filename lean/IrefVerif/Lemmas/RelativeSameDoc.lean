import IrefVerif.Lemmas.RelativeRoundTrip
import IrefVerif.Lemmas.ResolveEmpty
import IrefVerif.Lemmas.PopList
import IrefVerif.Lemmas.CopyNorm

/-!
# The "same document" shortcut of `relative_to` round-trips

When the target has a query or a fragment, its query would not be lost behind the base's, and the
relative path written so far is exactly the base's last segment, `relative_to` clears the path:
the result is `?query#fragment` alone.  Resolving that against the base copies the base's path
verbatim (§5.2.2, empty reference path) — not normalised, but `==` normalises, and the base's path
is then the common directory followed by that same last segment.
-/

set_option linter.unusedSimpArgs false
set_option linter.unusedSectionVars false

namespace IrefVerif.Lemmas
open IrefVerif IrefVerif.RE IrefVerif.Spec IrefVerif.Model IrefVerif.Oracle IrefVerif.Findings IrefVerif.Props

section
variable (G : Grammar) (ok : Grammar.Ok G) (okp : Grammar.OkPath G)
include ok okp

/-- schemes agree, authorities are absent on both sides or equal as keys: `relative_to` is its
path part -/
theorem relative_to_eq_body (oka : Grammar.OkAuth G) (we : Grammar.OkWE G) (a b : Text)
    (ha : Matches G.reference a) (hb : Matches G.reference b)
    (hsch : (split a).scheme = (split b).scheme)
    (hkey : (split a).authority.map authKey = (split b).authority.map authKey) :
    Ref.relative_to a b = Ref.relative_body a b := by
  obtain ⟨vA, wA⟩ := split_valid G ok a ha
  obtain ⟨vO, wO⟩ := split_valid G ok b hb
  have hsa := ref_scheme_opt_recompose (split a) wA
  have hso := ref_scheme_opt_recompose (split b) wO
  have hau := ref_authority_recompose (split a) wA
  have hbu := ref_authority_recompose (split b) wO
  rw [Lemmas.recompose_split] at hsa hso hau hbu
  unfold Ref.relative_to
  simp only [hsa, hso, hau, hbu, hsch]
  cases hA : (split a).authority with
  | none =>
    cases hB : (split b).authority with
    | none => cases (split b).scheme <;> simp
    | some ab => rw [hA, hB] at hkey; simp at hkey
  | some aa =>
    cases hB : (split b).authority with
    | none => rw [hA, hB] at hkey; simp at hkey
    | some ab =>
      rw [hA, hB] at hkey
      have hk : authKey aa = authKey ab := by simpa using hkey
      simp only [authorityEq_key G oka we aa ab (vA.authority aa hA) (vO.authority ab hB), hk, decide_true]
      cases (split b).scheme <;> simp

omit ok okp in
/-- a rendering without `/` is a single segment written as it is -/
theorem renderRel_noslash (L : List Text) (hne : L ≠ []) (hns : ∀ s ∈ L, cSlash ∉ s)
    (h : cSlash ∉ renderRel L) : L = [renderRel L] := by
  have h1 := splitSlash_noslash (renderRel L) h
  rcases splitSlash_renderRel L hne hns with e | e
  · rw [h1] at e; exact e.symm
  · rw [h1] at e
    cases L with
    | nil => exact absurd rfl hne
    | cons x xs => simp at e

omit ok okp in
/-- the normalised directory of an absolute (or empty) path -/
theorem nsegs_parent_abs (p : Text) (h : p = [] ∨ ∃ q, p = cSlash :: q) :
    nsegs (Path.parent_or_empty p) = nsegsOf true (segs p).dropLast := by
  rcases h with e | ⟨q, hq⟩
  · rw [e]; decide
  · rw [hq]
    obtain ⟨⟨k, hk⟩, habs, _⟩ := parent_segs q
    unfold nsegs
    rw [habs, hk, nsegsOf_dots]

/-- **the round trip through the shortcut**, stated with what the two kinds of pairs (absolute
paths, rootless paths) have in common -/
theorem relative_roundtrip_samedoc_core (oka : Grammar.OkAuth G) (we : Grammar.OkWE G) (a b : Text)
    (ha : Matches G.full a) (hb : Matches G.full b)
    (hsch : (split a).scheme = (split b).scheme)
    (hkey : (split a).authority.map authKey = (split b).authority.map authKey)
    (habs0 : (Path.is_absolute (split a).path !=
        (Path.is_absolute (split b).path || ((split b).authority.isSome && Path.is_empty (split b).path))) = false)
    (hhA : ((nsegs (split a).path).head? == some [cDot, cDot]) = false)
    (hhB : ((nsegs (Path.parent_or_empty (split b).path)).head? == some [cDot, cDot]) = false)
    (hdfA : DotFree (nsegs (split a).path))
    (hsame : (split b).path ≠ [] → isAbs (split b).path = isAbs (split a).path)
    (he0 : (split b).path ≠ [] →
      nsegs (Path.parent_or_empty (split b).path) = nsegsOf (isAbs (split b).path) (segs (split b).path).dropLast)
    (hne : nsegs (split a).path ≠ [])
    (hcls : (!(remainder a b).2.2 && (remainder a b).1.head? == some []) = false)
    (hsd : sdCond a b = true) :
    ∃ r t, Ref.relative_to a b = some r ∧ Ref.resolve r b = some t ∧ key t = key a := by
  have haR : Matches G.reference a := Matches.altL ha
  have hbR : Matches G.reference b := Matches.altL hb
  obtain ⟨vA, wA⟩ := split_valid G ok a haR
  obtain ⟨vB, wB⟩ := split_valid G ok b hbR
  have hLne0 := relSegs_ne_nil G ok okp we a b haR hbR hne
  have hbody := relative_body_explicit_core G ok okp we a b haR hbR habs0 hhA hhB hLne0 hcls
  rw [hsd] at hbody
  simp only [if_true] at hbody
  have hrel : Ref.relative_to a b = some (recompose (pathQF [] (split a).query (split a).fragment)) := by
    rw [relative_to_eq_body G ok okp oka we a b haR hbR hsch hkey]; exact hbody
  obtain ⟨r', er', vr'⟩ := relative_to_total G ok okp oka we a b haR hbR
  rw [hrel] at er'
  simp only [Option.some.injEq] at er'
  have wfr := wf_pathQF [] (split a).query (split a).fragment (fun c hc => by cases hc) rfl rfl wA.query
  obtain ⟨R, hRdef⟩ : ∃ R, R = recompose (pathQF [] (split a).query (split a).fragment) := ⟨_, rfl⟩
  rw [← hRdef] at hrel er'
  have hsplit : split R = pathQF [] (split a).query (split a).fragment := by
    rw [hRdef]; exact Lemmas.split_recompose _ wfr
  have hvr : Matches G.reference R := by rw [er']; exact vr'
  obtain ⟨sb, hsb⟩ : ∃ sb, (split b).scheme = some sb := by
    have := ((C02.full_iff_scheme G ok b).mp hb).2
    exact Option.isSome_iff_exists.mp this
  -- resolution copies the base's path
  have hres : Ref.resolve R b = some (recompose (resolveSpec b R)) := by
    have := Lemmas.resolve_empty_path (split R) (split b) (hsplit ▸ wfr) wB sb hsb
      (by rw [hsplit]; rfl) (by rw [hsplit]; rfl) (by rw [hsplit]; rfl)
    rwa [Lemmas.recompose_split, Lemmas.recompose_split] at this
  refine ⟨R, _, hrel, hres, ?_⟩
  -- the three conjuncts of the shortcut's condition
  unfold sdCond at hsd
  simp only [Bool.and_eq_true] at hsd
  obtain ⟨⟨_, hc2⟩, hc3⟩ := hsd
  have hT : resolveSpec b R = ({ (split b) with query := (split a).query, fragment := (split a).fragment } : Spec.Parts) := by
    simp only [resolveSpec, transform, hsplit, pathQF, List.isEmpty_nil, if_true]
    cases hqa : (split a).query with
    | some q => rfl
    | none =>
      rw [hqa] at hc2
      have hbq : (split b).query = none := by simpa using hc2
      simp [hbq]
  have wfT : WF ({ (split b) with query := (split a).query, fragment := (split a).fragment } : Spec.Parts) :=
    { scheme := wB.scheme, authority := wB.authority, path := wB.path, query := wA.query,
      abempty := wB.abempty, noSS := wB.noSS, noColon := wB.noColon }
  have hsT := Lemmas.split_recompose _ wfT
  rw [hT]
  unfold key
  rw [hsT]
  simp only [hsch, hkey]
  congr 1
  -- the paths: the base's is the common directory followed by its last segment, which is the
  -- only segment `relative_to` had written
  have hptA : PathText (split a).path := pathText_of_wf _ wA
  have hptB : PathText (split b).path := pathText_of_wf _ wB
  have hweA : wellEscaped (split a).path = true := path_we G we _ vA
  have hweB : wellEscaped (split b).path = true := path_we G we _ vB
  obtain ⟨hpw, hpp⟩ := parent_or_empty_props (split b).path
  have hlast : Path.last (split b).path = some (renderRel (relSegs a b)) := by
    have : (some (renderRel (relSegs a b)) == Path.last (split b).path) = true := hc3
    exact (beq_iff_eq.mp this).symm
  rw [last_eq_getLast _ hptB] at hlast
  have hBne : (split b).path ≠ [] := by
    intro e
    rw [e] at hlast
    simp [segs, stripRoot] at hlast
  have hBsame := hsame hBne
  have he0 := he0 hBne
  obtain ⟨ca, cb, hA, hB, hcab, _, hssne⟩ := dropCommon_spec (nsegs (split a).path) (nsegs (Path.parent_or_empty (split b).path))
    (nsegs_we _ hweA) (nsegs_we _ (hpw hweB))
  unfold relSegs remainder at hlast hLne0
  generalize hd : Ref.dropCommon (nsegs (split a).path) (nsegs (Path.parent_or_empty (split b).path)) = d at hlast hLne0 hA hB hssne
  obtain ⟨ss, bs, cm⟩ := d
  simp only [] at hlast hLne0 hA hB hssne
  have hrem1 : ss ≠ [] := hssne hne
  have hLns : ∀ s ∈ (bs.map fun _ => segDotDot) ++ ss, cSlash ∉ s := by
    intro s hs
    rcases List.mem_append.mp hs with h | h
    · simp only [List.mem_map] at h
      obtain ⟨_, _, rfl⟩ := h
      decide
    · have hm : s ∈ nsegs (split a).path := by rw [hA]; exact List.mem_append_right _ h
      exact segs_no_slash _ s (nsegsOf_subset _ _ s hm)
  obtain ⟨lb, hlb⟩ : ∃ lb, lb = renderRel ((bs.map fun _ => segDotDot) ++ ss) := ⟨_, rfl⟩
  rw [← hlb] at hlast
  have hlbns : cSlash ∉ lb := segs_no_slash _ lb (List.mem_of_getLast? hlast)
  have hone := renderRel_noslash _ hLne0 hLns (by rw [← hlb]; exact hlbns)
  rw [← hlb] at hone
  -- one segment: nothing is left of the base's directory
  have hbs : bs = [] ∧ ss = [lb] := by
    cases bs with
    | nil => exact ⟨rfl, by simpa using hone⟩
    | cons x xs =>
      exfalso
      simp only [List.map_cons, List.cons_append, List.cons.injEq, List.append_eq_nil_iff] at hone
      exact hrem1 hone.2.2
  obtain ⟨hbs0, hss1⟩ := hbs
  rw [hbs0, List.append_nil] at hB
  rw [hss1] at hA
  have hlbA : lb ∈ nsegs (split a).path := by rw [hA]; simp
  have hlb1 : lb ≠ segDot := fun e => hdfA.1 (e ▸ hlbA)
  have hlb2 : lb ≠ segDotDot := fun e => hdfA.2 (e ▸ hlbA)
  have hsegsB : segs (split b).path = (segs (split b).path).dropLast ++ [lb] := by
    have hne' : segs (split b).path ≠ [] := by intro e; rw [e] at hlast; simp at hlast
    have h1 := List.dropLast_concat_getLast hne'
    rw [List.getLast?_eq_some_getLast hne'] at hlast
    injection hlast with h2
    rw [← h2]; exact h1.symm
  have hnB : nsegs (split b).path = cb ++ [lb] := by
    have : nsegsOf (isAbs (split b).path) (segs (split b).path) = cb ++ [lb] := by
      rw [hsegsB, nsegsOf_snoc _ _ _ hlb1 hlb2, ← he0, hB]
    exact this
  unfold pathKey
  rw [hBsame, hnB, hA, List.map_append, List.map_append, hcab]


/-- **the round trip through the shortcut**, both paths absolute (the base's may be empty behind an
authority) -/
theorem relative_roundtrip_samedoc (oka : Grammar.OkAuth G) (we : Grammar.OkWE G) (a b : Text)
    (ha : Matches G.full a) (hb : Matches G.full b)
    (hsch : (split a).scheme = (split b).scheme)
    (hkey : (split a).authority.map authKey = (split b).authority.map authKey)
    (hpa : isAbs (split a).path = true)
    (hpb : isAbs (split b).path = true ∨ ((split b).path = [] ∧ (split b).authority.isSome = true))
    (hne : nsegs (split a).path ≠ [])
    (hcls : (!(remainder a b).2.2 && (remainder a b).1.head? == some []) = false)
    (hsd : sdCond a b = true) :
    ∃ r t, Ref.relative_to a b = some r ∧ Ref.resolve r b = some t ∧ key t = key a := by
  have hBab : (split b).path = [] ∨ ∃ q, (split b).path = cSlash :: q := by
    rcases hpb with hpb | hpb
    · right
      cases hpp' : (split b).path with
      | nil => rw [hpp'] at hpb; simp [isAbs] at hpb
      | cons c t =>
        rw [hpp'] at hpb
        have : c = cSlash := by simpa [isAbs] using hpb
        exact ⟨t, by rw [this]⟩
    · exact .inl hpb.1
  have hBabs : (split b).path ≠ [] → isAbs (split b).path = true := by
    intro h
    rcases hpb with h1 | ⟨h1, _⟩
    · exact h1
    · exact absurd h1 h
  have he0 := nsegs_parent_abs (split b).path hBab
  have hdfA : DotFree (nsegs (split a).path) := by
    unfold nsegs; rw [hpa]; exact nsegsOf_abs_dotFree _
  have hdfB : DotFree (nsegs (Path.parent_or_empty (split b).path)) := by rw [he0]; exact nsegsOf_abs_dotFree _
  have habs0 : (Path.is_absolute (split a).path !=
      (Path.is_absolute (split b).path || ((split b).authority.isSome && Path.is_empty (split b).path))) = false := by
    rw [is_absolute_eq, is_absolute_eq, hpa]
    rcases hpb with h | ⟨h, h2⟩
    · rw [h]; rfl
    · rw [h, h2]; rfl
  exact relative_roundtrip_samedoc_core G ok okp oka we a b ha hb hsch hkey habs0 (head_not_dotdot hdfA)
    (head_not_dotdot hdfB) hdfA (fun h => by rw [hBabs h, hpa]) (fun h => by rw [hBabs h]; exact he0) hne hcls hsd

end

end IrefVerif.Lemmas
