import IrefVerif.Lemmas.SegPos
import IrefVerif.Oracle
import IrefVerif.Lemmas.RemoveDots

/-!
# The two-offset segment iterator under any interleaving

`runSched p s σ` replays a schedule of `next` (`true`) / `next_back` (`false`) calls on the model
of `SegmentsImpl`.  For every path text and every schedule it yields exactly what the
specification `Oracle.scheduleRem` yields on the `/`-split of the path: every segment once, in
order from both ends, then `none` for ever.
-/

set_option linter.unusedSimpArgs false

namespace IrefVerif.Lemmas
open IrefVerif.Spec IrefVerif.Model IrefVerif.Model.Parse IrefVerif.Oracle

def runSched (p : Text) : Path.Segments → List Bool → List (Option Text)
  | _, [] => []
  | s, true :: σ => (Path.Segments.next p s).1 :: runSched p (Path.Segments.next p s).2 σ
  | s, false :: σ => (Path.Segments.next_back p s).1 :: runSched p (Path.Segments.next_back p s).2 σ

theorem posOf_lt (ss : List Text) (fso j k : Nat) (hjk : j < k) (hk : k ≤ ss.length) :
    posOf fso ss j < posOf fso ss k := by
  have h1 := posOf_le ss fso (j + 1) k (by omega) hk
  have h2 := posOf_succ ss fso j (by omega)
  omega

theorem posOf_lt_iff (ss : List Text) (fso j k : Nat) (hj : j ≤ ss.length) (hk : k ≤ ss.length) :
    posOf fso ss j < posOf fso ss k ↔ j < k := by
  constructor
  · intro h
    by_cases hjk : j < k
    · exact hjk
    · have := posOf_le ss fso k j (by omega) hj
      omega
  · intro h; exact posOf_lt ss fso j k h hk

theorem take_getLast (l : List Text) (m : Nat) (hm1 : 1 ≤ m) (hm : m ≤ l.length) :
    (l.take m).getLast? = some (l[m - 1]'(by omega)) ∧ (l.take m).dropLast = l.take (m - 1) := by
  constructor
  · rw [List.getLast?_eq_getElem?]
    simp only [List.length_take]
    have : min m l.length - 1 = m - 1 := by omega
    rw [this, List.getElem?_take]
    have hlt : m - 1 < m := by omega
    simp [hlt, List.getElem?_eq_getElem (show m - 1 < l.length by omega)]
  · rw [List.dropLast_eq_take]
    simp only [List.length_take, List.take_take]
    congr 1
    omega

theorem scheduleRem_nil (σ : List Bool) : (scheduleRem [] σ).1 = σ.map fun _ => none := by
  induction σ with
  | nil => rfl
  | cons b σ ih => simp [scheduleRem, ih]

theorem scheduleRem_back (L : List Text) (hne : L ≠ []) (σ : List Bool) :
    (scheduleRem L (false :: σ)).1 = L.getLast? :: (scheduleRem L.dropLast σ).1 := by
  cases L with
  | nil => exact absurd rfl hne
  | cons s r => rfl

/-- **the iterator in any state, under any schedule** -/
theorem runSched_pos (abs : Bool) (ss : List Text) (hok : SegsOK ss)
    (hrel : abs = false → ∃ c r rest, ss = (c :: r) :: rest) (hne : ss ≠ []) (σ : List Bool) :
    ∀ c d, c + d ≤ ss.length →
      runSched (rootOf abs ++ joinSlash ss)
        (.nonEmpty (posOf (rootOf abs).length ss c) (posOf (rootOf abs).length ss (ss.length - d))) σ
      = (scheduleRem ((ss.drop c).take (ss.length - d - c)) σ).1 := by
  induction σ with
  | nil => intro c d _; rfl
  | cons b σ ih =>
    intro c d hcd
    by_cases hlt : c < ss.length - d
    · -- something is left
      have hplt : posOf (rootOf abs).length ss c < posOf (rootOf abs).length ss (ss.length - d) :=
        posOf_lt ss _ c (ss.length - d) hlt (by omega)
      have hck : c < ss.length := by omega
      have hrem : (ss.drop c).take (ss.length - d - c) = ss[c] :: (ss.drop (c + 1)).take (ss.length - d - (c + 1)) := by
        rw [List.drop_eq_getElem_cons hck]
        have : ss.length - d - c = (ss.length - d - (c + 1)) + 1 := by omega
        rw [this, List.take_succ_cons]
      cases b with
      | true =>
        have hseg := segment_at_pos ss (rootOf abs) hok c hck
        have hle : posOf (rootOf abs).length ss c ≤ (rootOf abs ++ joinSlash ss).length := by
          have h1 := posOf_le ss (rootOf abs).length (c + 1) ss.length (by omega) (Nat.le_refl _)
          have h2 := posOf_succ ss (rootOf abs).length c hck
          have h3 := posOf_length ss (rootOf abs) hne
          omega
        simp only [runSched, Path.Segments.next, hplt, if_true, Path.next_segment_from, hle, hseg.1, hseg.2]
        rw [hrem]
        simp only [scheduleRem]
        rw [ih (c + 1) d (by omega)]
      | false =>
        have hprev := previous_segment_from_pos abs ss hok hrel (ss.length - d) (by omega) (by omega)
        have hk' : ss.length - d - 1 < ss.length := by omega
        have hseg := segment_at_pos ss (rootOf abs) hok (ss.length - d - 1) hk'
        simp only [runSched, Path.Segments.next_back, hplt, if_true, hprev, hseg.2]
        have hl := take_getLast (ss.drop c) (ss.length - d - c) (by omega) (by simp; omega)
        have hidx : (ss.drop c)[ss.length - d - c - 1]'(by simp; omega) = ss[ss.length - d - 1] := by
          simp only [List.getElem_drop]
          congr 1
          omega
        have hLne : (ss.drop c).take (ss.length - d - c) ≠ [] := by rw [hrem]; simp
        rw [scheduleRem_back _ hLne, hl.1, hl.2, hidx]
        congr 1
        have e1 : ss.length - d - 1 = ss.length - (d + 1) := by omega
        have e2 : ss.length - d - c - 1 = ss.length - (d + 1) - c := by omega
        rw [e1, ih c (d + 1) (by omega), e2]
    · -- exhausted
      have hge : ¬ posOf (rootOf abs).length ss c < posOf (rootOf abs).length ss (ss.length - d) := by
        rw [posOf_lt_iff ss _ c (ss.length - d) (by omega) (by omega)]
        exact hlt
      have hrem : (ss.drop c).take (ss.length - d - c) = [] := by
        have : ss.length - d - c = 0 := by omega
        rw [this]; simp
      have hstep := ih c d hcd
      rw [hrem] at hstep ⊢
      cases b <;> simp only [runSched, Path.Segments.next, Path.Segments.next_back, hge, if_false, scheduleRem, hstep]

/-! ## from the path text -/

theorem render_segs' (p : Text) (h : stripRoot p ≠ []) : render (isAbs p) (segs p) = p := by
  unfold render segs
  cases p with
  | nil => simp [stripRoot] at h
  | cons c l =>
    by_cases hc : (c == cSlash) = true
    · have hcs : c = cSlash := by simpa using hc
      subst hcs
      have hl : l ≠ [] := by simpa [stripRoot] using h
      cases l with
      | nil => exact absurd rfl hl
      | cons d l' =>
        simp only [isAbs, stripRoot, beq_self_eq_true, if_true, joinSlash_splitSlash]
        rfl
    · have hc' : (c == cSlash) = false := by simpa using hc
      simp only [isAbs, hc', stripRoot, Bool.false_eq_true, if_false, joinSlash_splitSlash]
      rfl



theorem mem_of_mem_splitSlash (t : Text) : ∀ s ∈ splitSlash t, ∀ c ∈ s, c ∈ t := by
  induction t with
  | nil => intro s hs c hc; simp [splitSlash] at hs; subst hs; cases hc
  | cons x t ih =>
    intro s hs c hc
    simp only [splitSlash] at hs
    by_cases hx : (x == cSlash) = true
    · simp only [hx, if_true, List.mem_cons] at hs
      rcases hs with rfl | hs
      · cases hc
      · exact List.mem_cons_of_mem _ (ih s hs c hc)
    · have hx' : (x == cSlash) = false := by simpa using hx
      simp only [hx', Bool.false_eq_true, if_false] at hs
      cases hsp : splitSlash t with
      | nil => exact absurd hsp (splitSlash_ne_nil t)
      | cons a as =>
        rw [hsp] at hs ih
        simp only [List.mem_cons] at hs
        rcases hs with rfl | hs
        · rcases List.mem_cons.mp hc with rfl | hc
          · exact List.mem_cons_self
          · exact List.mem_cons_of_mem _ (ih a List.mem_cons_self c hc)
        · exact List.mem_cons_of_mem _ (ih s (List.mem_cons_of_mem _ hs) c hc)

theorem segsOK_of_pathText (p : Text) (hp : PathText p) : SegsOK (segs p) := by
  intro s hs c hc
  have hns := segs_no_slash p s hs
  have hcp : c ∈ p := by
    unfold segs at hs
    split at hs
    · cases hs
    · rename_i hsr
      have := mem_of_mem_splitSlash _ s hs c hc
      cases p with
      | nil => simp [stripRoot] at this
      | cons x l =>
        simp only [stripRoot] at this
        split at this
        · exact List.mem_cons_of_mem _ this
        · exact this
  have := hp c hcp
  have hcs : c ≠ cSlash := fun e => hns (e ▸ hc)
  simp [nSl, hcs, this.1, this.2]

theorem runSched_empty (p : Text) (σ : List Bool) : runSched p .empty σ = σ.map fun _ => none := by
  induction σ with
  | nil => rfl
  | cons b σ ih => cases b <;> simp [runSched, Path.Segments.next, Path.Segments.next_back, ih]

/-- **C12, the iterator of a path under any interleaving of `next` and `next_back`** -/
theorem iterator_schedule (p : Text) (hp : PathText p) (σ : List Bool) :
    runSched p (Path.segments p) σ = (scheduleRem (segs p) σ).1 := by
  unfold Path.segments
  by_cases hne : Path.is_empty p = true
  · simp only [hne, if_true]
    have hs : segs p = [] := by
      rcases is_empty_cases hne with e | e <;> subst e
      · rfl
      · simp [segs, stripRoot]
    rw [hs, runSched_empty, scheduleRem_nil]
  · have hne' : Path.is_empty p = false := by simpa using hne
    simp only [hne', Bool.false_eq_true, if_false]
    have hsr : stripRoot p ≠ [] := by
      intro e
      cases p with
      | nil => simp [Path.is_empty] at hne'
      | cons c r =>
        simp only [stripRoot] at e
        split at e
        · rename_i hc
          have : c = cSlash := by simpa using hc
          subst this; subst e
          simp [Path.is_empty] at hne'
        · cases e
    have hrend : p = rootOf (isAbs p) ++ joinSlash (segs p) := by
      have := render_segs' p hsr
      unfold render at this
      exact this.symm
    have hok := segsOK_of_pathText p hp
    have hsne : segs p ≠ [] := by
      unfold segs
      cases hsr' : stripRoot p with
      | nil => exact absurd hsr' hsr
      | cons c r => exact splitSlash_ne_nil _
    have hrel : isAbs p = false → ∃ c r rest, segs p = (c :: r) :: rest := by
      intro ha
      cases p with
      | nil => simp [Path.is_empty] at hne'
      | cons c l =>
        have hc : (c == cSlash) = false := by simpa [isAbs] using ha
        simp only [segs, stripRoot, hc, Bool.false_eq_true, if_false, splitSlash]
        cases hsp : splitSlash l with
        | nil => exact absurd hsp (splitSlash_ne_nil l)
        | cons a as => exact ⟨c, a, as, rfl⟩
    have hfo : Path.first_segment_offset p = (rootOf (isAbs p)).length := by
      unfold Path.first_segment_offset rootOf
      rw [is_absolute_eq']
      cases isAbs p <;> rfl
    have hlen : p.length + 1 = posOf (rootOf (isAbs p)).length (segs p) (segs p).length := by
      have := posOf_length (segs p) (rootOf (isAbs p)) hsne
      rw [← hrend] at this
      exact this.symm
    have hmain := runSched_pos (isAbs p) (segs p) hok hrel hsne σ 0 0 (by omega)
    rw [← hrend] at hmain
    simp only [posOf_zero, Nat.sub_zero, List.drop_zero, List.take_length] at hmain
    rw [hfo, hlen]
    exact hmain

end IrefVerif.Lemmas
