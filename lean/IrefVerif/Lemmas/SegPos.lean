import IrefVerif.Lemmas.ScanBack
import IrefVerif.Lemmas.SegIter

/-!
# Segment positions

For a text `v = pre ++ joinSlash ss` whose segments `ss` are free of `/` (and of `?`, `#`), the
`k`-th segment starts at `posOf pre.length ss k`.  The forward scan `segment_at` from that offset
returns the segment and the next position; the backward scan `previous_segment_from` from
position `k` returns segment `k-1` and its position.  These are the two moves of the
double-ended segment iterator.
-/

set_option linter.unusedSimpArgs false

namespace IrefVerif.Lemmas
open IrefVerif.Spec IrefVerif.Model IrefVerif.Model.Parse

/-- start offset of segment `k` (for `k = ss.length`: one past the end, plus one) -/
def posOf (fso : Nat) : List Text → Nat → Nat
  | [], _ => fso
  | _ :: _, 0 => fso
  | s :: ss, k + 1 => posOf (fso + s.length + 1) ss k

theorem posOf_zero (fso : Nat) (ss : List Text) : posOf fso ss 0 = fso := by
  cases ss <;> rfl

theorem posOf_mono (ss : List Text) : ∀ fso k, fso ≤ posOf fso ss k := by
  induction ss with
  | nil => intro fso k; simp [posOf]
  | cons s ss ih =>
    intro fso k
    cases k with
    | zero => simp [posOf]
    | succ k => simp only [posOf]; have := ih (fso + s.length + 1) k; omega

/-- consecutive positions: `pos (k+1) = pos k + |s_k| + 1` -/
theorem posOf_succ (ss : List Text) : ∀ fso k, (hk : k < ss.length) →
    posOf fso ss (k + 1) = posOf fso ss k + (ss[k]).length + 1 := by
  induction ss with
  | nil => intro fso k hk; simp at hk
  | cons s ss ih =>
    intro fso k hk
    cases k with
    | zero => simp [posOf, posOf_zero]
    | succ k =>
      simp only [posOf, List.getElem_cons_succ]
      exact ih _ k (by simpa using hk)

theorem posOf_le (ss : List Text) (fso j : Nat) : ∀ k, j ≤ k → k ≤ ss.length → posOf fso ss j ≤ posOf fso ss k := by
  intro k
  induction k with
  | zero => intro h _; have : j = 0 := by omega
            subst this; exact Nat.le_refl _
  | succ k ih =>
    intro h1 h2
    by_cases hj : j = k + 1
    · subst hj; exact Nat.le_refl _
    · have := ih (by omega) (by omega)
      have hs := posOf_succ ss fso k (by omega)
      omega

/-- the text from position `k` on is the join of the remaining segments -/
theorem drop_pos (ss : List Text) : ∀ (pre : Text) (k : Nat), k < ss.length →
    (pre ++ joinSlash ss).drop (posOf pre.length ss k) = joinSlash (ss.drop k) := by
  induction ss with
  | nil => intro pre k hk; simp at hk
  | cons s ss ih =>
    intro pre k hk
    cases k with
    | zero => simp [posOf]
    | succ k =>
      cases ss with
      | nil => simp at hk
      | cons t r =>
        have hk' : k < (t :: r).length := by simpa using hk
        have := ih (pre ++ s ++ [cSlash]) k hk'
        simp only [posOf, List.drop_succ_cons]
        have e : pre ++ joinSlash (s :: t :: r) = (pre ++ s ++ [cSlash]) ++ joinSlash (t :: r) := by
          simp [joinSlash, List.append_assoc]
        have el : (pre ++ s ++ [cSlash]).length = pre.length + s.length + 1 := by simp; omega
        rw [e, ← el]
        exact this

/-- total length: `pos n = |v| + 1` -/
theorem posOf_length (ss : List Text) : ∀ (pre : Text), ss ≠ [] →
    posOf pre.length ss ss.length = (pre ++ joinSlash ss).length + 1 := by
  induction ss with
  | nil => intro pre h; exact absurd rfl h
  | cons s ss ih =>
    intro pre _
    cases ss with
    | nil => simp [posOf, joinSlash]
    | cons t r =>
      have := ih (pre ++ s ++ [cSlash]) (by simp)
      simp only [List.length_cons, posOf] at this ⊢
      have e : pre ++ joinSlash (s :: t :: r) = (pre ++ s ++ [cSlash]) ++ joinSlash (t :: r) := by
        simp [joinSlash, List.append_assoc]
      have el : (pre ++ s ++ [cSlash]).length = pre.length + s.length + 1 := by simp; omega
      rw [e, ← el]
      exact this

theorem joinSlash_drop_cons (ss : List Text) (k : Nat) (hk : k < ss.length) :
    joinSlash (ss.drop k) = ss[k] ++ (if k + 1 < ss.length then cSlash :: joinSlash (ss.drop (k + 1)) else []) := by
  have hd : ss.drop k = ss[k] :: ss.drop (k + 1) := List.drop_eq_getElem_cons hk
  rw [hd]
  by_cases h : k + 1 < ss.length
  · have hd2 : ss.drop (k + 1) = ss[k + 1] :: ss.drop (k + 2) := List.drop_eq_getElem_cons h
    simp only [h, if_true]
    rw [hd2]
    rfl
  · have : ss.drop (k + 1) = [] := by
      apply List.drop_eq_nil_of_le; omega
    simp [h, this, joinSlash]

/-- the character at a position inside segment `k` -/
theorem getD_in_segment (ss : List Text) (pre : Text) (k j : Nat) (hk : k < ss.length) (hj : j < (ss[k]).length) :
    (pre ++ joinSlash ss).getD (posOf pre.length ss k + j) 0 = (ss[k]).getD j 0 := by
  have hd := drop_pos ss pre k hk
  have : (pre ++ joinSlash ss).getD (posOf pre.length ss k + j) 0
      = ((pre ++ joinSlash ss).drop (posOf pre.length ss k)).getD j 0 := by
    simp [List.getD_eq_getElem?_getD, List.getElem?_drop]
  rw [this, hd, joinSlash_drop_cons ss k hk]
  simp only [List.getD_eq_getElem?_getD]
  rw [List.getElem?_append_left hj]

/-- the `/` in front of segment `k ≥ 1` -/
theorem getD_slash_before (ss : List Text) (pre : Text) (k : Nat) (hk1 : 1 ≤ k) (hk : k < ss.length) :
    (pre ++ joinSlash ss).getD (posOf pre.length ss k - 1) 0 = cSlash := by
  obtain ⟨k', rfl⟩ : ∃ k', k = k' + 1 := ⟨k - 1, by omega⟩
  have hk' : k' < ss.length := by omega
  have hp := posOf_succ ss pre.length k' hk'
  have hd := drop_pos ss pre k' hk'
  have e : posOf pre.length ss (k' + 1) - 1 = posOf pre.length ss k' + (ss[k']).length := by omega
  rw [e]
  have : (pre ++ joinSlash ss).getD (posOf pre.length ss k' + (ss[k']).length) 0
      = ((pre ++ joinSlash ss).drop (posOf pre.length ss k')).getD (ss[k']).length 0 := by
    simp [List.getD_eq_getElem?_getD, List.getElem?_drop]
  rw [this, hd, joinSlash_drop_cons ss k' hk']
  simp only [hk, if_true, List.getD_eq_getElem?_getD]
  rw [List.getElem?_append_right (Nat.le_refl _)]
  simp

/-! ## the forward move -/

/-- segments free of `/`, `?`, `#` -/
def SegsOK (ss : List Text) : Prop := ∀ s ∈ ss, ∀ c ∈ s, nSl c = true

theorem segment_at_pos (ss : List Text) (pre : Text) (hok : SegsOK ss) (k : Nat) (hk : k < ss.length) :
    Path.segment_at (pre ++ joinSlash ss) (posOf pre.length ss k)
      = ((posOf pre.length ss k, posOf pre.length ss k + (ss[k]).length), posOf pre.length ss (k + 1)) ∧
    slice (pre ++ joinSlash ss) (posOf pre.length ss k, posOf pre.length ss k + (ss[k]).length) = ss[k] := by
  have hd := drop_pos ss pre k hk
  have hj := joinSlash_drop_cons ss k hk
  have hall : ∀ c ∈ ss[k], nSl c = true := hok _ (List.getElem_mem hk)
  have hsp : spanLen nSl (joinSlash (ss.drop k)) = (ss[k]).length := by
    rw [hj]
    apply spanLen_append_of_all hall
    intro c r hcr
    split at hcr
    · injection hcr with h1 _; subst h1; simp [nSl]
    · cases hcr
  constructor
  · unfold Path.segment_at
    have hnq : (fun c => !(c == cSlash || c == cQuest || c == cHash)) = nSl := rfl
    simp only [hnq, hd, hsp, posOf_succ ss pre.length k hk]
  · rw [slice_drop_take, hd, hj, List.take_left]

/-! ## the backward move -/

/-- the value of the backward scan is determined by its specification -/
theorem scanBack_unique (p : Text) (first n t : Nat) (hfn : first ≤ n) (h1 : first ≤ t) (h2 : t ≤ n)
    (h3 : t = first ∨ p.getD t 0 = cSlash) (h4 : ∀ j, t < j → j ≤ n → p.getD j 0 ≠ cSlash) :
    Path.scanBack p first n = t := by
  obtain ⟨k1, k2, k3, k4⟩ := scanBack_spec p first n hfn
  generalize Path.scanBack p first n = k at k1 k2 k3 k4
  by_cases hlt : k < t
  · rcases h3 with h | h
    · omega
    · exact absurd h (k4 t hlt h2)
  · by_cases hgt : t < k
    · rcases k3 with h | h
      · omega
      · exact absurd h (h4 k hgt k2)
    · omega

theorem scanBack_below (p : Text) (first n : Nat) (h : n < first) : Path.scanBack p first n = n := by
  cases n with
  | zero => rfl
  | succ n =>
    simp only [Path.scanBack]
    have : ¬ (n + 1 > first) := by omega
    simp [this]

/-- the root in front of the segments: `/` for an absolute path, nothing for a relative one whose
first segment is then not empty -/
def rootOf (abs : Bool) : Text := if abs then [cSlash] else []

theorem nSl_ne_slash {c : Nat} (h : nSl c = true) : c ≠ cSlash := by
  intro e; subst e; simp [nSl] at h

theorem first_segment_offset_root (abs : Bool) (ss : List Text) (hok : SegsOK ss)
    (hrel : abs = false → ∃ c r rest, ss = (c :: r) :: rest) :
    Path.first_segment_offset (rootOf abs ++ joinSlash ss) = (rootOf abs).length := by
  unfold Path.first_segment_offset rootOf
  cases abs with
  | true => simp [Path.is_absolute]
  | false =>
    obtain ⟨c, r, rest, rfl⟩ := hrel rfl
    have hc : c ≠ cSlash := nSl_ne_slash (hok _ List.mem_cons_self c List.mem_cons_self)
    have hc' : (c == cSlash) = false := by simpa using hc
    cases rest with
    | nil => simp [joinSlash, Path.is_absolute, hc']
    | cons t ts => simp [joinSlash, Path.is_absolute, hc']

theorem previous_segment_from_pos (abs : Bool) (ss : List Text) (hok : SegsOK ss)
    (hrel : abs = false → ∃ c r rest, ss = (c :: r) :: rest) (k : Nat) (hk1 : 1 ≤ k) (hk : k ≤ ss.length) :
    Path.previous_segment_from (rootOf abs ++ joinSlash ss) (posOf (rootOf abs).length ss k)
      = some ((posOf (rootOf abs).length ss (k - 1),
               posOf (rootOf abs).length ss (k - 1) + (ss[k - 1]'(by omega)).length),
              posOf (rootOf abs).length ss (k - 1)) := by
  obtain ⟨k', rfl⟩ : ∃ k', k = k' + 1 := ⟨k - 1, by omega⟩
  have hk' : k' < ss.length := by omega
  simp only [Nat.add_sub_cancel]
  generalize hpre : rootOf abs = pre at *
  have hfo : Path.first_segment_offset (pre ++ joinSlash ss) = pre.length := by
    rw [← hpre]; exact first_segment_offset_root abs ss hok hrel
  have hsucc := posOf_succ ss pre.length k' hk'
  have hseg := segment_at_pos ss pre hok k' hk'
  have hmono := posOf_mono ss pre.length k'
  unfold Path.previous_segment_from
  rw [hfo]
  by_cases hge : posOf pre.length ss (k' + 1) ≥ 2
  · simp only [hge, if_true]
    by_cases hk0 : 1 ≤ k'
    · -- a `/` precedes segment `k'`
      have hslash := getD_slash_before ss pre k' hk0 hk'
      obtain ⟨k'', rfl⟩ : ∃ k'', k' = k'' + 1 := ⟨k' - 1, by omega⟩
      have hprev := posOf_succ ss pre.length k'' (by omega)
      have hm2 := posOf_mono ss pre.length k''
      have ht : Path.scanBack (pre ++ joinSlash ss) pre.length (posOf pre.length ss (k'' + 1 + 1) - 2)
          = posOf pre.length ss (k'' + 1) - 1 := by
        apply scanBack_unique
        · omega
        · omega
        · omega
        · exact .inr hslash
        · intro j hj1 hj2
          have hjj : j = posOf pre.length ss (k'' + 1) + (j - posOf pre.length ss (k'' + 1)) := by omega
          rw [hjj, getD_in_segment ss pre (k'' + 1) _ hk' (by omega)]
          have hmem : (ss[k'' + 1]).getD (j - posOf pre.length ss (k'' + 1)) 0 ∈ ss[k'' + 1] := by
            have hlt : j - posOf pre.length ss (k'' + 1) < (ss[k'' + 1]).length := by omega
            simp [List.getD_eq_getElem?_getD, List.getElem?_eq_getElem hlt]
          exact nSl_ne_slash (hok _ (List.getElem_mem hk') _ hmem)
      rw [ht, hslash]
      simp only [beq_self_eq_true, if_true]
      have e : posOf pre.length ss (k'' + 1) - 1 + 1 = posOf pre.length ss (k'' + 1) := by omega
      rw [e, hseg.1]
    · -- the first segment
      have hk00 : k' = 0 := by omega
      subst hk00
      simp only [posOf_zero, Nat.zero_add] at hsucc hseg hmono hge ⊢
      by_cases hne : (ss[0]).length = 0
      · -- empty first segment: only after the root `/`
        have habs : abs = true := by
          cases abs with
          | true => rfl
          | false =>
            obtain ⟨c, r, rest, hss⟩ := hrel rfl
            subst hss
            simp at hne
        subst habs
        subst hpre
        simp only [rootOf, if_true, List.length_cons, List.length_nil] at hsucc hseg ⊢
        rw [hsucc, hne]
        simp only [Nat.add_zero, Nat.reduceAdd, Nat.reduceSub]
        rw [scanBack_below _ _ _ (by omega)]
        simp only [List.cons_append, List.nil_append, List.getD_cons_zero, beq_self_eq_true, if_true]
        have := hseg.1
        simp only [List.cons_append, List.nil_append] at this
        rw [this, hne]
      · have hpos : 0 < (ss[0]).length := by omega
        have ht : Path.scanBack (pre ++ joinSlash ss) pre.length (posOf pre.length ss 1 - 2) = pre.length := by
          apply scanBack_unique
          · omega
          · omega
          · omega
          · exact .inl rfl
          · intro j hj1 hj2
            have hjj : j = posOf pre.length ss 0 + (j - pre.length) := by rw [posOf_zero]; omega
            rw [hjj, getD_in_segment ss pre 0 _ hk' (by omega)]
            have hmem : (ss[0]).getD (j - pre.length) 0 ∈ ss[0] := by
              have hlt : j - pre.length < (ss[0]).length := by omega
              simp [List.getD_eq_getElem?_getD, List.getElem?_eq_getElem hlt]
            exact nSl_ne_slash (hok _ (List.getElem_mem hk') _ hmem)
        rw [ht]
        have hfirst : (pre ++ joinSlash ss).getD pre.length 0 ≠ cSlash := by
          have := getD_in_segment ss pre 0 0 hk' hpos
          rw [posOf_zero, Nat.add_zero] at this
          rw [this]
          have hmem : (ss[0]).getD 0 0 ∈ ss[0] := by
            simp [List.getD_eq_getElem?_getD, List.getElem?_eq_getElem hpos]
          exact nSl_ne_slash (hok _ (List.getElem_mem hk') _ hmem)
        have hb : ((pre ++ joinSlash ss).getD pre.length 0 == cSlash) = false := by simpa using hfirst
        simp only [hb, Bool.false_eq_true, if_false]
        rw [hseg.1]
  · -- impossible: position `k ≥ 1` is at least 2 unless the path is relative with an empty first segment
    exfalso
    have : posOf pre.length ss (k' + 1) ≥ pre.length + 1 := by omega
    cases abs with
    | true =>
      subst hpre
      simp only [rootOf, if_true, List.length_cons, List.length_nil] at this hge
      omega
    | false =>
      obtain ⟨c, r, rest, hss⟩ := hrel rfl
      subst hss
      cases k' with
      | zero =>
        simp only [posOf_zero, Nat.zero_add] at hsucc hge
        simp at hsucc
        omega
      | succ k'' =>
        have h0 := posOf_succ ((c :: r) :: rest) pre.length 0 (by simp)
        have hm := posOf_mono ((c :: r) :: rest) pre.length (k'' + 1)
        simp only [posOf_zero, Nat.zero_add] at h0
        have hmono2 : posOf pre.length ((c :: r) :: rest) 1 ≤ posOf pre.length ((c :: r) :: rest) (k'' + 1) :=
          posOf_le _ _ 1 (k'' + 1) (by omega) (by omega)
        simp at h0
        omega

end IrefVerif.Lemmas
