import IrefVerif.Lemmas.Span
import IrefVerif.Model.RelClass

/-!
The two state machines of `parse.rs` (`scheme_authority_or_path`, `authority_or_path`)
characterised by spans: what they return depends only on which delimiter comes first.
-/

set_option linter.unusedSimpArgs false

namespace IrefVerif.Lemmas
open IrefVerif.Spec IrefVerif.Model.Parse

/-- not `?`, not `#` -/
def nQH (c : Nat) : Bool := !(c == cQuest || c == cHash)
/-- not `/`, `?`, `#` -/
def nSQH (c : Nat) : Bool := !(c == cSlash || c == cQuest || c == cHash)
/-- not `:`, `/`, `?`, `#` -/
def nCSQH (c : Nat) : Bool := !(c == cColon || c == cSlash || c == cQuest || c == cHash)

theorem apGo_path (l : Text) : apGo .path l = (.path, spanLen nQH l) := by
  induction l with
  | nil => rfl
  | cons c l ih =>
    simp only [apGo, spanLen, nQH]
    by_cases h : (c == cQuest || c == cHash) = true
    · simp [h]
    · simp [h, ih, nQH]

theorem apGo_authority (l : Text) : apGo .authority l = (.authority, spanLen nSQH l) := by
  induction l with
  | nil => rfl
  | cons c l ih =>
    simp only [apGo, spanLen, nSQH]
    by_cases h : (c == cSlash || c == cQuest || c == cHash) = true
    · simp [h]
    · simp [h, ih, nSQH]

/-- `authority_or_path` from its start state -/
theorem apGo_start (l : Text) :
    apGo .start l = if startsSS l then (.authority, 2 + spanLen nSQH (l.drop 2))
                    else (.path, spanLen nQH l) := by
  cases l with
  | nil => rfl
  | cons c l =>
    by_cases hq : (c == cQuest || c == cHash) = true
    · have : startsSS (c :: l) = false := by
        cases l with
        | nil => rfl
        | cons d l =>
          simp only [startsSS, Bool.and_eq_false_imp, beq_iff_eq]
          intro hc; subst hc; simp [cSlash, cQuest, cHash] at hq
      simp [apGo, hq, this, spanLen, nQH]
    · by_cases hs : (c == cSlash) = true
      · have hc : c = cSlash := by simpa using hs
        subst hc
        cases l with
        | nil => simp [apGo, startsSS, spanLen, nQH, cSlash, cQuest, cHash]
        | cons d l =>
          by_cases hd : (d == cSlash) = true
          · have : d = cSlash := by simpa using hd
            subst this
            simp [apGo, startsSS, apGo_authority, cSlash, cQuest, cHash]
            omega
          · by_cases hdq : (d == cQuest || d == cHash) = true
            · simp [apGo, startsSS, hd, hdq, spanLen, nQH, cSlash, cQuest, cHash] at *
              rcases hdq with rfl | rfl <;> simp
            · have hp := apGo_path l
              simp only [apGo, hq, hs, hd, hdq, startsSS, Bool.false_eq_true, if_false,
                Bool.and_false, spanLen, nQH, hp]
              simp [cSlash, cQuest, cHash, hdq, hp]
      · have : startsSS (c :: l) = false := by
          cases l with
          | nil => rfl
          | cons d l => simp [startsSS, hs]
        have hp := apGo_path l
        simp only [apGo, hq, hs, this, Bool.false_eq_true, if_false, hp, spanLen, nQH]
        simp [hq]

end IrefVerif.Lemmas

namespace IrefVerif.Lemmas
open IrefVerif.Spec IrefVerif.Model.Parse

theorem sapGo_path (l : Text) : sapGo .path l = (.path, spanLen nQH l) := by
  induction l with
  | nil => rfl
  | cons c l ih =>
    simp only [sapGo, spanLen, nQH]
    by_cases h : (c == cQuest || c == cHash) = true
    · simp [h]
    · simp [h, ih, nQH]

theorem sapGo_authority (l : Text) : sapGo .authority l = (.authority, spanLen nSQH l) := by
  induction l with
  | nil => rfl
  | cons c l ih =>
    simp only [sapGo, spanLen, nSQH]
    by_cases h : (c == cSlash || c == cQuest || c == cHash) = true
    · simp [h]
    · simp [h, ih, nSQH]

/-- the first of `: / ? #` in `l` is a `:` -/
def fdc : Text → Bool
  | [] => false
  | c :: l =>
    if c == cColon then true
    else if c == cSlash || c == cQuest || c == cHash then false
    else fdc l

theorem sapGo_schemeOrPath (l : Text) :
    sapGo .schemeOrPath l = if fdc l then (.scheme, spanLen nCSQH l) else (.path, spanLen nQH l) := by
  induction l with
  | nil => rfl
  | cons c l ih =>
    by_cases hc : (c == cColon) = true
    · have : c = cColon := by simpa using hc
      subst this
      simp [sapGo, fdc, spanLen, nCSQH]
    · by_cases hq : (c == cQuest || c == cHash) = true
      · simp [sapGo, fdc, hc, hq, spanLen, nQH]
        rcases (by simpa using hq : c = cQuest ∨ c = cHash) with rfl | rfl <;> simp [cQuest, cHash, cSlash]
      · by_cases hs : (c == cSlash) = true
        · have : c = cSlash := by simpa using hs
          subst this
          have hp := sapGo_path l
          simp [sapGo, fdc, hp, spanLen, nQH, cSlash, cColon, cQuest, cHash]
        · have hq' : (c == cQuest) = false ∧ (c == cHash) = false := by
            simpa [Bool.or_eq_true, not_or] using hq
          have hs' : (c == cSlash) = false := by simpa using hs
          have hc' : (c == cColon) = false := by simpa using hc
          simp only [sapGo, fdc, hc', hq'.1, hq'.2, hs', Bool.or_false, Bool.false_eq_true, if_false,
            spanLen, nQH, nCSQH, Bool.not_false, if_true, ih]
          split <;> simp

theorem sapGo_secondSlash (l : Text) :
    sapGo .secondSlash l =
      match l with
      | [] => (.path, 0)
      | c :: l' =>
        if c == cSlash then (.authority, 1 + spanLen nSQH l')
        else if c == cQuest || c == cHash then (.path, 0)
        else (.path, 1 + spanLen nQH l') := by
  cases l with
  | nil => rfl
  | cons c l =>
    have ha := sapGo_authority l
    have hp := sapGo_path l
    by_cases hs : (c == cSlash) = true
    · simp [sapGo, hs, ha]; omega
    · by_cases hq : (c == cQuest || c == cHash) = true
      · simp [sapGo, hs, hq]
      · simp [sapGo, hs, hq, hp]; omega

/-- `scheme_authority_or_path` from its start state -/
theorem sapGo_start (l : Text) :
    sapGo .start l =
      if fdc l then (.scheme, spanLen nCSQH l)
      else if startsSS l then (.authority, 2 + spanLen nSQH (l.drop 2))
      else (.path, spanLen nQH l) := by
  cases l with
  | nil => rfl
  | cons c l =>
    by_cases hc : (c == cColon) = true
    · have : c = cColon := by simpa using hc
      subst this
      simp [sapGo, fdc, spanLen, nCSQH]
    · by_cases hq : (c == cQuest || c == cHash) = true
      · have hns : startsSS (c :: l) = false := by
          cases l with
          | nil => rfl
          | cons d l =>
            simp only [startsSS, Bool.and_eq_false_imp, beq_iff_eq]
            intro h; subst h; simp [cSlash, cQuest, cHash] at hq
        have hcs : (c == cSlash) = false := by
          rcases (by simpa using hq : c = cQuest ∨ c = cHash) with rfl | rfl <;> simp [cQuest, cHash, cSlash]
        simp [sapGo, fdc, hc, hq, hns, spanLen, nQH, hcs]
      · by_cases hs : (c == cSlash) = true
        · have : c = cSlash := by simpa using hs
          subst this
          have hf : fdc (cSlash :: l) = false := by
            simp only [fdc]; rfl
          have hstep : sapGo .start (cSlash :: l) =
              ((sapGo .secondSlash l).1, (sapGo .secondSlash l).2 + 1) := by
            simp only [sapGo]; rfl
          have hnq : nQH cSlash = true := rfl
          rw [hstep, hf, sapGo_secondSlash]
          cases l with
          | nil => simp [startsSS, spanLen, hnq]
          | cons d l =>
            by_cases hd : (d == cSlash) = true
            · have : d = cSlash := by simpa using hd
              subst this
              simp [startsSS]; omega
            · have hd' : (d == cSlash) = false := by simpa using hd
              by_cases hdq : (d == cQuest || d == cHash) = true
              · have hcq : ¬cSlash = cQuest ∧ ¬cSlash = cHash := by decide
                simp [startsSS, hd', hdq, spanLen, hnq, nQH, hcq]
              · have hdq' : (d == cQuest || d == cHash) = false := by simpa using hdq
                have hcq : ¬cSlash = cQuest ∧ ¬cSlash = cHash := by decide
                simp [startsSS, hd', hdq', spanLen, hnq, nQH, hcq]; omega
        · have hq' : (c == cQuest) = false ∧ (c == cHash) = false := by
            simpa [Bool.or_eq_true, not_or] using hq
          have hs' : (c == cSlash) = false := by simpa using hs
          have hc' : (c == cColon) = false := by simpa using hc
          have hns : startsSS (c :: l) = false := by
            cases l with
            | nil => rfl
            | cons d l => simp [startsSS, hs']
          have h1 := sapGo_schemeOrPath l
          simp only [sapGo, fdc, hc', hq'.1, hq'.2, hs', Bool.or_false, Bool.false_eq_true, if_false,
            spanLen, nQH, nCSQH, Bool.not_false, if_true, h1, hns]
          split <;> simp

end IrefVerif.Lemmas
