import IrefVerif.Lemmas.EqKey
import IrefVerif.Lemmas.Lex
import IrefVerif.Lemmas.Order

/-!
# Struct-level `Ord` and `Hash` are functions of the normal-form key

For valid references `a`, `b` (either family):

* `refCmp a b = some (keyC (key a) (key b))` where `keyC` is a lawful total order on keys
  (`lawful_keyC`), so the order never panics, is total, antisymmetric and transitive, and its
  `equal` outcome is `key a = key b`, i.e. (by `refEq_eq_key`) exactly `==`;
* `refHash a = some (keyH (key a))`: the hash trace is a function of the key, so equal values
  hash identically.
-/

set_option linter.unusedSimpArgs false

namespace IrefVerif.Lemmas
open IrefVerif IrefVerif.RE IrefVerif.Spec IrefVerif.Model IrefVerif.Model.Cmp IrefVerif.Lex

/-! ## the order on keys -/

theorem lawful_bytesCmp : LawfulCmp bytesCmp where
  eq_iff := bytesCmp_eq_iff
  swap := bytesCmp_swap
  lt_trans := bytesCmp_lt_trans

def authKeyC (a b : AuthKey) : Ordering :=
  thenC (optC bytesCmp a.userinfo b.userinfo) (thenC (bytesCmp a.host b.host) (optC bytesCmp a.port b.port))

def pathKeyC (a b : PathKey) : Ordering :=
  thenC (boolC a.abs b.abs) (listC bytesCmp a.segs b.segs)

def keyC (a b : Key) : Ordering :=
  thenC (optC bytesCmp a.scheme b.scheme)
    (thenC (optC authKeyC a.authority b.authority)
      (thenC (pathKeyC a.path b.path)
        (thenC (optC bytesCmp a.query b.query) (optC bytesCmp a.fragment b.fragment))))

theorem lawful_authKeyC : LawfulCmp authKeyC := by
  have h2 : LawfulCmp (fun p q : Text × Option Text => thenC (bytesCmp p.1 q.1) (optC bytesCmp p.2 q.2)) :=
    lawful_lex Prod.fst Prod.snd (fun a b e1 e2 => Prod.ext e1 e2) lawful_bytesCmp (lawful_opt lawful_bytesCmp)
  exact lawful_lex (fun a : AuthKey => a.userinfo) (fun a : AuthKey => (a.host, a.port))
    (fun a b e1 e2 => by
      cases a; cases b
      simp only [Prod.mk.injEq] at e2
      simp_all)
    (lawful_opt lawful_bytesCmp) h2

theorem lawful_pathKeyC : LawfulCmp pathKeyC :=
  lawful_lex (fun a : PathKey => a.abs) (fun a : PathKey => a.segs)
    (fun a b e1 e2 => by cases a; cases b; simp_all)
    lawful_bool (lawful_list lawful_bytesCmp)

theorem lawful_keyC : LawfulCmp keyC := by
  have h5 : LawfulCmp (fun p q : Option Text × Option Text => thenC (optC bytesCmp p.1 q.1) (optC bytesCmp p.2 q.2)) :=
    lawful_lex Prod.fst Prod.snd (fun a b e1 e2 => Prod.ext e1 e2) (lawful_opt lawful_bytesCmp) (lawful_opt lawful_bytesCmp)
  have h4 : LawfulCmp (fun p q : PathKey × (Option Text × Option Text) =>
      thenC (pathKeyC p.1 q.1) (thenC (optC bytesCmp p.2.1 q.2.1) (optC bytesCmp p.2.2 q.2.2))) :=
    lawful_lex Prod.fst Prod.snd (fun a b e1 e2 => Prod.ext e1 e2) lawful_pathKeyC h5
  have h3 : LawfulCmp (fun p q : Option AuthKey × (PathKey × (Option Text × Option Text)) =>
      thenC (optC authKeyC p.1 q.1)
        (thenC (pathKeyC p.2.1 q.2.1) (thenC (optC bytesCmp p.2.2.1 q.2.2.1) (optC bytesCmp p.2.2.2 q.2.2.2)))) :=
    lawful_lex Prod.fst Prod.snd (fun a b e1 e2 => Prod.ext e1 e2) (lawful_opt lawful_authKeyC) h4
  exact lawful_lex (fun a : Key => a.scheme) (fun a : Key => (a.authority, (a.path, (a.query, a.fragment))))
    (fun a b e1 e2 => by
      cases a; cases b
      simp only [Prod.mk.injEq] at e2
      simp_all)
    (lawful_opt lawful_bytesCmp) h3

/-! ## combinators -/

theorem thenCmp_some (a b : Ordering) : thenCmp (some a) (fun _ => some b) = some (thenC a b) := by
  cases a <;> rfl

theorem optCmp_map {α β : Type} (cmp : α → α → Option Ordering) (c : β → β → Ordering) (f : α → β)
    (o1 o2 : Option α)
    (h : ∀ x y, o1 = some x → o2 = some y → cmp x y = some (c (f x) (f y))) :
    optCmp cmp o1 o2 = some (optC c (o1.map f) (o2.map f)) := by
  cases o1 with
  | none => cases o2 <;> simp [optCmp, optC]
  | some x =>
    cases o2 with
    | none => simp [optCmp, optC]
    | some y => simp [optCmp, optC, h x y rfl rfl]

theorem optCmp_lit (o1 o2 : Option Text) :
    optCmp (fun x y => some (bytesCmp x y)) o1 o2 = some (optC bytesCmp o1 o2) := by
  have := optCmp_map (fun x y => some (bytesCmp x y)) bytesCmp id o1 o2 (fun _ _ _ _ => rfl)
  simpa using this

theorem optCmp_pct (o1 o2 : Option Text) (h1 : ∀ x, o1 = some x → wellEscaped x = true)
    (h2 : ∀ x, o2 = some x → wellEscaped x = true) :
    optCmp pctCmp o1 o2 = some (optC bytesCmp (o1.map pctDecode) (o2.map pctDecode)) :=
  optCmp_map pctCmp bytesCmp pctDecode o1 o2 (fun x y hx hy => pctCmp_eq x y (h1 x hx) (h2 y hy))

/-! ## authority -/

theorem authorityCmp_key (G : Grammar) (ok : Grammar.OkAuth G) (we : Grammar.OkWE G) (a b : Text)
    (ha : Matches G.authority a) (hb : Matches G.authority b) :
    authorityCmp a b = some (authKeyC (authKey a) (authKey b)) := by
  obtain ⟨ma, va, _⟩ := authority_parts G ok a ha
  obtain ⟨mb, vb, _⟩ := authority_parts G ok b hb
  have ea : authParts a = ((splitAuth a).userinfo, (splitAuth a).host, (splitAuth a).port) := by
    rw [← ma]; rfl
  have eb : authParts b = ((splitAuth b).userinfo, (splitAuth b).host, (splitAuth b).port) := by
    rw [← mb]; rfl
  unfold authorityCmp
  rw [ea, eb]
  simp only []
  rw [optCmp_pct _ _ (fun x hx => wellEscaped_of_sub we.userinfo (va.userinfo x hx))
        (fun x hx => wellEscaped_of_sub we.userinfo (vb.userinfo x hx)),
      pctCmp_eq _ _ (wellEscaped_of_sub we.host va.host) (wellEscaped_of_sub we.host vb.host),
      optCmp_lit]
  simp only [thenCmp_some]
  rfl

/-! ## path -/

theorem segsCmp_eq (sa sb : List Text) (ha : ∀ s ∈ sa, wellEscaped s = true)
    (hb : ∀ s ∈ sb, wellEscaped s = true) :
    segsCmp sa sb = some (listC bytesCmp (sa.map pctDecode) (sb.map pctDecode)) := by
  induction sa generalizing sb with
  | nil => cases sb <;> simp [segsCmp, listC]
  | cons a as ih =>
    cases sb with
    | nil => simp [segsCmp, listC]
    | cons b bs =>
      simp only [segsCmp, List.map_cons, listC]
      rw [pctCmp_eq a b (ha a List.mem_cons_self) (hb b List.mem_cons_self),
          ih bs (fun s hs => ha s (List.mem_cons_of_mem _ hs)) (fun s hs => hb s (List.mem_cons_of_mem _ hs)),
          thenCmp_some]

theorem pathCmp_key (p q : Text) (hp : PathText p) (hq : PathText q)
    (wp : wellEscaped p = true) (wq : wellEscaped q = true) :
    pathCmp p q = some (pathKeyC (pathKey p) (pathKey q)) := by
  unfold pathCmp
  rw [is_absolute_eq, is_absolute_eq, normalized_segments_eq p hp, normalized_segments_eq q hq,
      segsCmp_eq _ _ (nsegs_we p wp) (nsegs_we q wq)]
  simp only [pathKey, pathKeyC, boolC]
  generalize listC bytesCmp (List.map pctDecode (nsegs p)) (List.map pctDecode (nsegs q)) = L
  by_cases h : isAbs p = isAbs q
  · simp [h]
  · have hb : (isAbs p == isAbs q) = false := by simpa using h
    by_cases hp' : isAbs p = true <;> by_cases hq' : isAbs q = true <;> simp [hb, hp', hq']

/-! ## the whole reference -/

theorem partsCmp_key (G : Grammar) (oka : Grammar.OkAuth G) (we : Grammar.OkWE G) (A B : Spec.Parts)
    (vA : ValidParts G A) (wA : WF A) (vB : ValidParts G B) (wB : WF B) :
    partsCmp (toRefParts A) (toRefParts B) = some (keyC (keyOf A) (keyOf B)) := by
  unfold partsCmp toRefParts
  simp only []
  rw [optCmp_lit,
      optCmp_map authorityCmp authKeyC authKey A.authority B.authority
        (fun x y hx hy => authorityCmp_key G oka we x y (vA.authority x hx) (vB.authority y hy)),
      pathCmp_key A.path B.path (pathText_of_wf A wA) (pathText_of_wf B wB) (path_we G we A vA) (path_we G we B vB),
      optCmp_pct A.query B.query (fun x hx => wellEscaped_of_sub we.query (vA.query x hx))
        (fun x hx => wellEscaped_of_sub we.query (vB.query x hx)),
      optCmp_pct A.fragment B.fragment (fun x hx => wellEscaped_of_sub we.fragment (vA.fragment x hx))
        (fun x hx => wellEscaped_of_sub we.fragment (vB.fragment x hx))]
  simp only [thenCmp_some]
  rfl

/-- **the order of references is the lawful order on keys** -/
theorem refCmp_eq_key (G : Grammar) (ok : Grammar.Ok G) (oka : Grammar.OkAuth G) (we : Grammar.OkWE G)
    (a b : Text) (ha : Matches G.reference a) (hb : Matches G.reference b) :
    refCmp a b = some (keyC (key a) (key b)) := by
  obtain ⟨vA, wA⟩ := split_valid G ok a ha
  obtain ⟨vB, wB⟩ := split_valid G ok b hb
  unfold refCmp
  rw [refParts_eq_split a (valid_head G ok a ha), refParts_eq_split b (valid_head G ok b hb),
      key_eq_keyOf, key_eq_keyOf]
  exact partsCmp_key G oka we _ _ vA wA vB wB

theorem fullCmp_eq_key (G : Grammar) (ok : Grammar.Ok G) (oka : Grammar.OkAuth G) (we : Grammar.OkWE G)
    (a b : Text) (ha : Matches G.full a) (hb : Matches G.full b) :
    fullCmp a b = some (keyC (key a) (key b)) := by
  unfold fullCmp
  rw [fullParts_eq_refParts a (fdc_of_full G ok a ha), fullParts_eq_refParts b (fdc_of_full G ok b hb)]
  exact refCmp_eq_key G ok oka we a b (.altL ha) (.altL hb)

/-! ## hash -/

def octH (bs : Text) : String := String.join (bs.map fun b => s!"u8:{b},")

def optH {α : Type} (h : α → String) : Option α → String
  | none => "is:0,"
  | some a => "is:1," ++ h a

def authKeyH (k : AuthKey) : String :=
  optH octH k.userinfo ++ (octH k.host ++ optH bytesHash k.port)

def pathKeyH (k : PathKey) : String :=
  k.segs.foldl (fun acc s => acc ++ octH s) (if k.abs then "u8:1," else "u8:0,")

def keyH (k : Key) : String :=
  optH bytesHash k.scheme ++ (optH authKeyH k.authority ++ (pathKeyH k.path ++
    (optH octH k.query ++ optH octH k.fragment)))

theorem catHash_some (a b : String) : catHash (some a) (fun _ => some b) = some (a ++ b) := rfl

theorem optHash_map {α β : Type} (h : α → Option String) (hk : β → String) (f : α → β) (o : Option α)
    (hh : ∀ x, o = some x → h x = some (hk (f x))) :
    optHash h o = some (optH hk (o.map f)) := by
  cases o with
  | none => rfl
  | some x => simp [optHash, optH, hh x rfl]

theorem optHash_lit (o : Option Text) :
    optHash (fun x => some (bytesHash x)) o = some (optH bytesHash o) := by
  have := optHash_map (fun x => some (bytesHash x)) bytesHash id o (fun _ _ => rfl)
  simpa using this

theorem optHash_pct (o : Option Text) (h1 : ∀ x, o = some x → wellEscaped x = true) :
    optHash pctHash o = some (optH octH (o.map pctDecode)) :=
  optHash_map pctHash octH pctDecode o (fun x hx => pctHash_eq x (h1 x hx))

theorem authorityHash_key (G : Grammar) (ok : Grammar.OkAuth G) (we : Grammar.OkWE G) (a : Text)
    (ha : Matches G.authority a) : authorityHash a = some (authKeyH (authKey a)) := by
  obtain ⟨ma, va, _⟩ := authority_parts G ok a ha
  have ea : authParts a = ((splitAuth a).userinfo, (splitAuth a).host, (splitAuth a).port) := by
    rw [← ma]; rfl
  unfold authorityHash
  rw [ea]
  simp only []
  rw [optHash_pct _ (fun x hx => wellEscaped_of_sub we.userinfo (va.userinfo x hx)),
      pctHash_eq _ (wellEscaped_of_sub we.host va.host), optHash_lit]
  rfl

theorem segsHash_eq (sa : List Text) (ha : ∀ s ∈ sa, wellEscaped s = true) (init : String) :
    sa.foldl (fun acc s => catHash acc fun _ => pctHash s) (some init)
      = some ((sa.map pctDecode).foldl (fun acc s => acc ++ octH s) init) := by
  induction sa generalizing init with
  | nil => rfl
  | cons a as ih =>
    simp only [List.foldl_cons, List.map_cons]
    rw [pctHash_eq a (ha a List.mem_cons_self)]
    exact ih (fun s hs => ha s (List.mem_cons_of_mem _ hs)) _

theorem pathHash_key (p : Text) (hp : PathText p) (wp : wellEscaped p = true) :
    pathHash p = some (pathKeyH (pathKey p)) := by
  unfold pathHash
  rw [is_absolute_eq, normalized_segments_eq p hp, segsHash_eq _ (nsegs_we p wp)]
  rfl

theorem partsHash_key (G : Grammar) (oka : Grammar.OkAuth G) (we : Grammar.OkWE G) (A : Spec.Parts)
    (vA : ValidParts G A) (wA : WF A) :
    partsHash (toRefParts A) = some (keyH (keyOf A)) := by
  unfold partsHash toRefParts
  simp only []
  rw [optHash_lit,
      optHash_map authorityHash authKeyH authKey A.authority
        (fun x hx => authorityHash_key G oka we x (vA.authority x hx)),
      pathHash_key A.path (pathText_of_wf A wA) (path_we G we A vA),
      optHash_pct A.query (fun x hx => wellEscaped_of_sub we.query (vA.query x hx)),
      optHash_pct A.fragment (fun x hx => wellEscaped_of_sub we.fragment (vA.fragment x hx))]
  rfl

/-- **the hash trace of a reference is a function of its key** -/
theorem refHash_eq_key (G : Grammar) (ok : Grammar.Ok G) (oka : Grammar.OkAuth G) (we : Grammar.OkWE G)
    (a : Text) (ha : Matches G.reference a) : refHash a = some (keyH (key a)) := by
  obtain ⟨vA, wA⟩ := split_valid G ok a ha
  unfold refHash
  rw [refParts_eq_split a (valid_head G ok a ha), key_eq_keyOf]
  exact partsHash_key G oka we _ vA wA

end IrefVerif.Lemmas
