import IrefVerif.Lemmas.MergeSegs
import IrefVerif.Lemmas.BaseModel

/-!
# `parent_or_empty` of an absolute path, and the normalised directory as the start of the walk
-/

set_option linter.unusedSimpArgs false

namespace IrefVerif.Lemmas
open IrefVerif IrefVerif.Spec IrefVerif.Model IrefVerif.Oracle IrefVerif.Findings

theorem lastSlashFrom_le (p : Text) (n : Nat) : Path.lastSlashFrom p n ≤ n := by
  rw [lastSlashFrom_eq_scanBack]; exact scanBack_le p 0 n

/-- `parent_or_empty` of `/q` -/
theorem parent_or_empty_abs (q : Text) :
    (cSlash ∉ q → Path.parent_or_empty (cSlash :: q) = [cSlash]) ∧
    (∀ x s, q = x ++ cSlash :: s → cSlash ∉ s →
      Path.parent_or_empty (cSlash :: q) = if x = [] then [cSlash, cDot, cSlash] else cSlash :: x) := by
  by_cases hq : q = []
  · subst hq
    refine ⟨fun _ => by decide, ?_⟩
    intro x s h _
    cases x <;> simp at h
  · have hem : Path.is_empty (cSlash :: q) = false := by
      cases q with
      | nil => exact absurd rfl hq
      | cons c r => simp [Path.is_empty]
    have hdir := directory_eq (cSlash :: q)
    unfold Path.directory at hdir
    have h0 : ((cSlash :: q).getD 0 0 != cSlash) = false := by simp
    simp only [List.isEmpty_cons, Bool.false_eq_true, if_false, h0, Bool.and_false] at hdir
    have hle := lastSlashFrom_le (cSlash :: q) ((cSlash :: q).length - 1)
    generalize he : Path.lastSlashFrom (cSlash :: q) ((cSlash :: q).length - 1) = e at hdir hle
    have hlen : ((cSlash :: q).take (e + 1)).length = e + 1 := by
      simp only [List.length_take, List.length_cons] at hle ⊢
      omega
    unfold Path.parent_or_empty Path.parent
    simp only [hem, Bool.false_eq_true, if_false, he]
    constructor
    · intro hns
      rw [upToLastSlash_single q hns] at hdir
      rw [hdir] at hlen
      have he0 : e = 0 := by simpa using hlen.symm
      subst he0
      simp
    · intro x s hxs hs
      subst hxs
      rw [upToLastSlash_multi x s hs] at hdir
      rw [hdir] at hlen
      have hex : e = x.length + 1 := by
        simp at hlen; omega
      subst hex
      have hget : (cSlash :: (x ++ cSlash :: s)).getD (x.length + 1) 0 = cSlash := by
        simp [List.getD_eq_getElem?_getD, List.getElem?_append_right]
      simp only [hget, beq_self_eq_true, if_true]
      have hne0 : (x.length + 1 == 0) = false := by simp
      simp only [hne0, Bool.false_eq_true, if_false]
      cases x with
      | nil => simp
      | cons c x' =>
        simp only [List.length_cons]
        have : (x'.length + 1 + 1 == 1) = false := by simp
        simp only [this, Bool.false_and, Bool.false_eq_true, if_false]
        simp

/-- the literal segments of `parent_or_empty` are the base's without the last, behind at most one
`.` shield -/
theorem parent_segs (q : Text) :
    (∃ k, segs (Path.parent_or_empty (cSlash :: q)) = List.replicate k segDot ++ (segs (cSlash :: q)).dropLast) ∧
      isAbs (Path.parent_or_empty (cSlash :: q)) = true ∧
      (PathText (cSlash :: q) → PathText (Path.parent_or_empty (cSlash :: q))) := by
  obtain ⟨h1, h2⟩ := parent_or_empty_abs q
  rcases last_slash_decomp q with h | ⟨x, s, hq, hs⟩
  · rw [h1 h]
    refine ⟨⟨0, ?_⟩, rfl, fun _ => pathText_lit_slash⟩
    rw [segs_root, segs_abs]
    split
    · rfl
    · rw [splitSlash_noslash q h]; rfl
  · rw [h2 x s hq hs]
    have hsb : segs (cSlash :: q) = splitSlash x ++ [s] := by
      rw [segs_abs, if_neg (by rw [hq]; simp), hq, splitSlash_append x s hs]
    rw [hsb, List.dropLast_concat]
    by_cases hx : x = []
    · subst hx
      simp only [if_true]
      refine ⟨⟨1, by decide⟩, rfl, fun _ => ?_⟩
      intro c hc; simp at hc; rcases hc with rfl | rfl | rfl <;> decide
    · simp only [hx, if_false]
      refine ⟨⟨0, ?_⟩, rfl, fun hp => ?_⟩
      · rw [segs_abs, if_neg hx]; rfl
      · intro c hc
        apply hp c
        rw [hq]
        rcases List.mem_cons.mp hc with e | e
        · simp [e]
        · simp [e]

/-- the handle on the normalised directory of an absolute base path starts the walk -/
theorem ainv_normalized_parent (q : Text) (hp : PathText (cSlash :: q)) :
    AInv (normView true false (Path.parent_or_empty (cSlash :: q)))
      (nsegsOf true (segs (cSlash :: q)).dropLast) := by
  obtain ⟨⟨k, hk⟩, habs, hpt⟩ := parent_segs q
  have hpp := hpt hp
  obtain ⟨hr, ha⟩ := normView_realises true false _ hpp
  have hn : nsegs (Path.parent_or_empty (cSlash :: q)) = nsegsOf true (segs (cSlash :: q)).dropLast := by
    unfold nsegs
    rw [habs, hk, nsegsOf_dots]
  rw [hn] at hr
  refine ⟨by rw [ha, habs], pathText_normView _ _ _ hpp, nsegsOf_abs_dotFree _, ?_⟩
  rcases realises_cases hr with h | h
  · exact ⟨0, by rw [h]; rfl⟩
  · exact ⟨1, by rw [h]; rfl⟩

/-- the same for a handle that follows no authority -/
theorem ainv_normalized_parent_fa (fa : Bool) (q : Text) (hp : PathText (cSlash :: q)) :
    AInv (normView fa false (Path.parent_or_empty (cSlash :: q)))
      (nsegsOf true (segs (cSlash :: q)).dropLast) := by
  obtain ⟨⟨k, hk⟩, habs, hpt⟩ := parent_segs q
  have hpp := hpt hp
  obtain ⟨hr, ha⟩ := normView_realises fa false _ hpp
  have hn : nsegs (Path.parent_or_empty (cSlash :: q)) = nsegsOf true (segs (cSlash :: q)).dropLast := by
    unfold nsegs
    rw [habs, hk, nsegsOf_dots]
  rw [hn] at hr
  refine ⟨by rw [ha, habs], pathText_normView _ _ _ hpp, nsegsOf_abs_dotFree _, ?_⟩
  rcases realises_cases hr with h | h
  · exact ⟨0, by rw [h]; rfl⟩
  · exact ⟨1, by rw [h]; rfl⟩

/-- … and so does the handle on `/` (base path empty behind an authority) -/
theorem ainv_root : AInv [cSlash] [] :=
  ⟨rfl, pathText_lit_slash, ⟨by simp, by simp⟩, ⟨0, by rw [segs_root]; rfl⟩⟩

end IrefVerif.Lemmas
