import IrefVerif.Spec.Decompose
import IrefVerif.Model.Parse

/-! Basic facts about `spanP` (specification side) and `spanLen` (model side). -/

namespace IrefVerif.Lemmas
open IrefVerif.Spec IrefVerif.Model.Parse

theorem spanP_fst_all (p : Nat → Bool) (l : Text) : ∀ c ∈ (spanP p l).1, p c = true := by
  induction l with
  | nil => simp [spanP]
  | cons c l ih =>
    simp only [spanP]; split
    · rename_i h; intro x hx
      rcases List.mem_cons.mp hx with rfl | hx
      · exact h
      · exact ih x hx
    · simp

theorem spanP_snd_head (p : Nat → Bool) (l : Text) :
    ∀ c r, (spanP p l).2 = c :: r → p c = false := by
  induction l with
  | nil => simp [spanP]
  | cons d l ih =>
    simp only [spanP]; split
    · exact ih
    · rename_i h; intro c r hcr
      simp at hcr; obtain ⟨rfl, _⟩ := hcr
      simpa using h

/-- `spanP` splits exactly at the first symbol violating `p` -/
theorem spanP_append_of_all {p : Nat → Bool} {u v : Text} (hu : ∀ c ∈ u, p c = true)
    (hv : ∀ c r, v = c :: r → p c = false) : spanP p (u ++ v) = (u, v) := by
  induction u with
  | nil =>
    cases v with
    | nil => rfl
    | cons c r => simp [spanP, hv c r rfl]
  | cons c u ih =>
    have hc : p c = true := hu c (List.mem_cons_self)
    have := ih (fun x hx => hu x (List.mem_cons_of_mem _ hx))
    simp [spanP, hc, this]

theorem spanP_of_all {p : Nat → Bool} {u : Text} (hu : ∀ c ∈ u, p c = true) : spanP p u = (u, []) := by
  simpa using spanP_append_of_all (v := []) hu (by simp)

theorem spanLen_eq (p : Nat → Bool) (l : Text) : spanLen p l = (spanP p l).1.length := by
  induction l with
  | nil => rfl
  | cons c l ih => simp only [spanLen, spanP]; split <;> simp [ih]

theorem spanP_fst_eq_take (p : Nat → Bool) (l : Text) : (spanP p l).1 = l.take (spanLen p l) := by
  induction l with
  | nil => rfl
  | cons c l ih => simp only [spanLen, spanP]; split <;> simp [ih]

theorem spanP_snd_eq_drop (p : Nat → Bool) (l : Text) : (spanP p l).2 = l.drop (spanLen p l) := by
  induction l with
  | nil => rfl
  | cons c l ih => simp only [spanLen, spanP]; split <;> simp [ih]

theorem spanLen_le (p : Nat → Bool) (l : Text) : spanLen p l ≤ l.length := by
  induction l with
  | nil => simp [spanLen]
  | cons c l ih => simp only [spanLen]; split <;> simp <;> omega

theorem spanLen_append_of_all {p : Nat → Bool} {u v : Text} (hu : ∀ c ∈ u, p c = true)
    (hv : ∀ c r, v = c :: r → p c = false) : spanLen p (u ++ v) = u.length := by
  rw [spanLen_eq, spanP_append_of_all hu hv]

end IrefVerif.Lemmas
