import IrefVerif.Lemmas.Utf8
import IrefVerif.Lemmas.Sub
import IrefVerif.Lemmas.AuthValid
import IrefVerif.Lemmas.ValidWF

/-!
# IRIs at the octet level: UTF-8 is transparent to the structure

The crate validates an IRI by decoding its octets as UTF-8 and running the (code-point)
automaton, but every scanner, setter and comparison works on the octets.  This file transports
the code-point grammar to octets:

* `utf8Encode_decode`: a successful strict decode is inverted by `utf8Encode`;
* `encRE r`: `r` with every class cut down to its ASCII part plus, if it had anything above,
  "one or more octets ≥ 0x80" (an over-approximation, which is all the structure lemmas need);
* `matches_enc`: `Matches r w → Matches (encRE r) (utf8Encode w)`;
* `iriGB = encG iriG` satisfies the same side conditions (`Ok`, `OkAuth`) as `uriG`/`iriG`, so
  every generic structure theorem (`split_valid`, `authority_parts`, …) applies to the *octets*
  of a valid IRI (`iri_octets_valid`).
-/

set_option linter.unusedSimpArgs false

namespace IrefVerif.Lemmas
open IrefVerif IrefVerif.RE IrefVerif.Spec

/-! ## decode then encode -/

theorem utf8Encode_cons (c : Nat) (w : List Nat) : utf8Encode (c :: w) = utf8EncodeOne c ++ utf8Encode w := by
  simp [utf8Encode]

theorem utf8Encode_append (u v : List Nat) : utf8Encode (u ++ v) = utf8Encode u ++ utf8Encode v := by
  simp [utf8Encode]

theorem utf8Encode_decode (bytes w : List Nat) (h : utf8Decode? bytes = some w) : utf8Encode w = bytes := by
  fun_induction utf8Decode? bytes generalizing w <;> simp_all
  case case1 => rfl
  case case2 b0 rest hb ih =>
    obtain ⟨a, ha, rfl⟩ := h
    rw [utf8Encode_cons, ih a ha]
    simp [utf8EncodeOne, hb]
  case case3 b0 b1 rest h1 h2 h3 ih =>
    obtain ⟨a, ha, rfl⟩ := h
    rw [utf8Encode_cons, ih a ha]
    simp only [isCont, Bool.and_eq_true, decide_eq_true_eq] at h3
    have e1 : ¬ ((b0 - 192) * 64 + (b1 - 128) < 128) := by omega
    have e2 : (b0 - 192) * 64 + (b1 - 128) < 2048 := by omega
    simp only [utf8EncodeOne, e1, e2, if_true, if_false, List.cons_append, List.nil_append,
      List.cons.injEq, and_true]
    exact ⟨by omega, by omega⟩
  case case6 b0 b1 b2 rest cp h1 h2 h3 h4 ih =>
    obtain ⟨a, ha, rfl⟩ := h
    rw [utf8Encode_cons, ih a ha]
    simp only [isCont, Bool.and_eq_true, decide_eq_true_eq] at h4
    have hcp : cp = (b0 - 224) * 4096 + (b1 - 128) * 64 + (b2 - 128) := rfl
    have e1 : ¬ (cp < 128) := by omega
    have e2 : ¬ (cp < 2048) := by omega
    have e3 : cp < 65536 := by omega
    simp only [utf8EncodeOne, e1, e2, e3, if_true, if_false, List.cons_append, List.nil_append,
      List.cons.injEq, and_true]
    exact ⟨by omega, by omega, by omega⟩
  case case9 b0 b1 b2 b3 rest cp h1 h2 h3 h4 h5 ih =>
    obtain ⟨a, ha, rfl⟩ := h
    rw [utf8Encode_cons, ih a ha]
    simp only [isCont, Bool.and_eq_true, decide_eq_true_eq] at h5
    have hcp : cp = (b0 - 240) * 262144 + (b1 - 128) * 4096 + (b2 - 128) * 64 + (b3 - 128) := rfl
    have e1 : ¬ (cp < 128) := by omega
    have e2 : ¬ (cp < 2048) := by omega
    have e3 : ¬ (cp < 65536) := by omega
    simp only [utf8EncodeOne, e1, e2, e3, if_true, if_false, List.cons_append, List.nil_append,
      List.cons.injEq, and_true]
    exact ⟨by omega, by omega, by omega, by omega⟩

/-! ## the octets of a non-ASCII scalar are all ≥ 0x80 -/

def hiB : RE := cls [(0x80, 0xFF)]
def hiSeq : RE := seq hiB (star hiB)

theorem matches_hiB {b : Nat} (h1 : 0x80 ≤ b) (h2 : b ≤ 0xFF) : Matches hiB [b] := by
  apply Matches.cls
  simp [inCls, Nat.ble_eq, h1, h2]

theorem hiSeq_of_all (l : List Nat) (hne : l ≠ []) (h : ∀ b ∈ l, 0x80 ≤ b ∧ b ≤ 0xFF) : Matches hiSeq l := by
  cases l with
  | nil => exact absurd rfl hne
  | cons b l =>
    have hb := h b List.mem_cons_self
    have hstar : ∀ m : List Nat, (∀ x ∈ m, 0x80 ≤ x ∧ x ≤ 0xFF) → Matches (star hiB) m := by
      intro m
      induction m with
      | nil => intro _; exact .starNil
      | cons x m ih =>
        intro hm
        have hx := hm x List.mem_cons_self
        exact Matches.starCons (u := [x]) (matches_hiB hx.1 hx.2) (ih (fun y hy => hm y (List.mem_cons_of_mem _ hy)))
    exact Matches.seq (u := [b]) (matches_hiB hb.1 hb.2) (hstar l (fun y hy => h y (List.mem_cons_of_mem _ hy)))

theorem encodeOne_hi (c : Nat) (h1 : 0x80 ≤ c) (h2 : c < 0x110000) :
    utf8EncodeOne c ≠ [] ∧ ∀ b ∈ utf8EncodeOne c, 0x80 ≤ b ∧ b ≤ 0xFF := by
  unfold utf8EncodeOne
  have e1 : ¬ (c < 128) := by omega
  simp only [e1, if_false]
  split
  · refine ⟨by simp, ?_⟩
    intro b hb
    simp only [List.mem_cons, List.not_mem_nil, or_false] at hb
    rcases hb with rfl | rfl <;> omega
  · split
    · refine ⟨by simp, ?_⟩
      intro b hb
      simp only [List.mem_cons, List.not_mem_nil, or_false] at hb
      rcases hb with rfl | rfl | rfl <;> omega
    · refine ⟨by simp, ?_⟩
      intro b hb
      simp only [List.mem_cons, List.not_mem_nil, or_false] at hb
      rcases hb with rfl | rfl | rfl | rfl <;> omega

/-! ## transporting an expression -/

def clip : Ranges → Ranges
  | [] => []
  | p :: rs => if p.1 < 0x80 then (p.1, min p.2 0x7F) :: clip rs else clip rs

theorem inCls_clip {rs : Ranges} {c : Nat} (h : inCls rs c = true) (hc : c < 0x80) : inCls (clip rs) c = true := by
  induction rs with
  | nil => simp [inCls] at h
  | cons p rs ih =>
    simp only [inCls, Bool.or_eq_true, Bool.and_eq_true, Nat.ble_eq] at h
    simp only [clip]
    rcases h with ⟨h1, h2⟩ | h
    · have : p.1 < 0x80 := by omega
      simp only [this, if_true, inCls, Bool.or_eq_true, Bool.and_eq_true, Nat.ble_eq]
      left; omega
    · split
      · simp only [inCls, Bool.or_eq_true, Bool.and_eq_true, Nat.ble_eq]
        right; exact ih h
      · exact ih h

def encRE : RE → RE
  | empty => empty
  | eps => eps
  | cls rs => if maxR rs < 0x80 then cls rs else alt (cls (clip rs)) hiSeq
  | seq a b => seq (encRE a) (encRE b)
  | alt a b => alt (encRE a) (encRE b)
  | star a => star (encRE a)

theorem encRE_ascii (r : RE) (h : maxSym r < 0x80) : encRE r = r := by
  induction r with
  | empty => rfl
  | eps => rfl
  | cls rs => simp only [maxSym] at h; simp [encRE, h]
  | seq a b iha ihb =>
    simp only [maxSym] at h
    simp only [encRE, iha (by omega), ihb (by omega)]
  | alt a b iha ihb =>
    simp only [maxSym] at h
    simp only [encRE, iha (by omega), ihb (by omega)]
  | star a ih => simp only [maxSym] at h; simp only [encRE, ih h]

theorem matches_enc {r : RE} {w : List Nat} (h : Matches r w) (hs : ∀ c ∈ w, c < 0x110000) :
    Matches (encRE r) (utf8Encode w) := by
  induction h with
  | eps => exact .eps
  | @cls rs c hc =>
    have hc2 := hs c List.mem_cons_self
    have he : utf8Encode [c] = utf8EncodeOne c := by simp [utf8Encode]
    rw [he]
    simp only [encRE]
    split
    · rename_i hm
      have : c < 0x80 := by have := inCls_le_maxR hc; omega
      simp only [utf8EncodeOne, this, if_true]
      exact .cls hc
    · by_cases hlt : c < 0x80
      · simp only [utf8EncodeOne, hlt, if_true]
        exact .altL (.cls (inCls_clip hc hlt))
      · have := encodeOne_hi c (by omega) hc2
        exact .altR (hiSeq_of_all _ this.1 this.2)
  | seq _ _ ih1 ih2 =>
    rw [utf8Encode_append]
    exact .seq (ih1 (fun c hc => hs c (List.mem_append_left _ hc))) (ih2 (fun c hc => hs c (List.mem_append_right _ hc)))
  | altL _ ih => exact .altL (ih hs)
  | altR _ ih => exact .altR (ih hs)
  | starNil => exact .starNil
  | starCons _ _ ih1 ih2 =>
    rw [utf8Encode_append]
    exact .starCons (ih1 (fun c hc => hs c (List.mem_append_left _ hc))) (ih2 (fun c hc => hs c (List.mem_append_right _ hc)))

/-! ## the octet-level IRI grammar -/

def encG (G : Grammar) : Grammar :=
  { userinfo := encRE G.userinfo, host := encRE G.host, segment := encRE G.segment,
    segmentNz := encRE G.segmentNz, segmentNzNc := encRE G.segmentNzNc,
    query := encRE G.query, fragment := encRE G.fragment }

theorem encG_reference (G : Grammar) : (encG G).reference = encRE G.reference := by
  have hs : encRE Rfc3986.scheme = Rfc3986.scheme := encRE_ascii _ (by decide)
  have hp : encRE Rfc3986.port = Rfc3986.port := encRE_ascii _ (by decide)
  simp only [Grammar.reference, Grammar.full, Grammar.relativeRef, Grammar.relativePart, Grammar.hierPart,
    Grammar.authPath, Grammar.queryFragment, Grammar.authority, Grammar.pathAbempty, Grammar.pathAbsolute,
    Grammar.pathNoscheme, Grammar.pathRootless, Grammar.pathEmpty, encG, seqs, alts, opt, lit, encRE, hs, hp]
  rfl

theorem encG_full (G : Grammar) : (encG G).full = encRE G.full := by
  have hs : encRE Rfc3986.scheme = Rfc3986.scheme := encRE_ascii _ (by decide)
  have hp : encRE Rfc3986.port = Rfc3986.port := encRE_ascii _ (by decide)
  simp only [Grammar.full, Grammar.hierPart,
    Grammar.authPath, Grammar.queryFragment, Grammar.authority, Grammar.pathAbempty, Grammar.pathAbsolute,
    Grammar.pathRootless, Grammar.pathEmpty, encG, seqs, alts, opt, lit, encRE, hs, hp]
  rfl

/-- the grammar satisfied by the octets of an IRI -/
def iriGB : Grammar := encG iriG

theorem iriGB_ok : Grammar.Ok iriGB := by
  constructor <;> decide

theorem iriGB_okAuth : Grammar.OkAuth iriGB where
  userinfo := by decide
  hostShape := by
    intro h hm
    have hl : encRE Rfc3986.IPliteral = Rfc3986.IPliteral := encRE_ascii _ (by decide)
    apply hostShape_of (encRE (alt Rfc3986.IPv4address Rfc3987.iregName)) (by decide) h
    have : iriGB.host = alt Rfc3986.IPliteral (encRE (alt Rfc3986.IPv4address Rfc3987.iregName)) := by
      simp only [iriGB, encG, iriG, Rfc3987.ihost, alts, encRE, hl]
    rw [← this]; exact hm

/-- **the octets of a valid IRI reference match the octet-level grammar** -/
theorem iri_octets_valid (bytes w : List Nat) (hd : utf8Decode? bytes = some w)
    (hm : Matches iriG.reference w) : Matches iriGB.reference bytes := by
  have hsc := utf8Decode_scalars bytes w hd
  have := matches_enc hm (fun c hc => by have := hsc c hc; unfold IsScalar at this; omega)
  rw [utf8Encode_decode bytes w hd] at this
  rw [iriGB, encG_reference]; exact this

theorem iri_octets_valid_full (bytes w : List Nat) (hd : utf8Decode? bytes = some w)
    (hm : Matches iriG.full w) : Matches iriGB.full bytes := by
  have hsc := utf8Decode_scalars bytes w hd
  have := matches_enc hm (fun c hc => by have := hsc c hc; unfold IsScalar at this; omega)
  rw [utf8Encode_decode bytes w hd] at this
  rw [iriGB, encG_full]; exact this

end IrefVerif.Lemmas
