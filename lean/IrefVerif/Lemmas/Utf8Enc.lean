import IrefVerif.Lemmas.Utf8
import IrefVerif.Lemmas.Sub
import IrefVerif.Lemmas.AuthValid
import IrefVerif.Lemmas.ValidWF
import IrefVerif.Lemmas.Utf8Ranges

/-!
# IRIs at the octet level: UTF-8 is transparent to the structure

The crate validates an IRI by decoding its octets as UTF-8 and running the (code-point)
automaton, but every scanner, setter and comparison works on the octets.  This file transports
the code-point grammar to octets:

* `utf8Encode_decode`: a successful strict decode is inverted by `utf8Encode`;
* `encRE r`: `r` with every class replaced by its ASCII part plus the exact UTF-8 encodings of
  the scalars above (`Lemmas/Utf8Ranges.lean`: `encHi`);
* `matches_enc`: `Matches r w → Matches (encRE r) (utf8Encode w)`, and conversely `enc_complete`:
  every octet string matching `encRE r` is the UTF-8 encoding of a scalar word matching `r`
  (`utf8Decode_encode`: which the strict decoder reads back), so `iri_octets_exact`: the octet
  grammar `iriGB` is *exactly* the valid IRI references as the crate stores them;
* `iriGB = encG iriG` satisfies the same side conditions (`Ok`, `OkAuth`) as `uriG`/`iriG`, so
  every generic structure theorem (`split_valid`, `authority_parts`, …) applies to the *octets*
  of a valid IRI (`iri_octets_valid`).
-/

set_option linter.unusedSimpArgs false

namespace IrefVerif.Lemmas
open IrefVerif IrefVerif.RE IrefVerif.Spec

/-! ## decode then encode -/

theorem utf8Encode_cons (c : Nat) (w : List Nat) : utf8Encode (c :: w) = utf8EncodeOne c ++ utf8Encode w := by
  simp [utf8Encode]

theorem utf8Encode_append (u v : List Nat) : utf8Encode (u ++ v) = utf8Encode u ++ utf8Encode v := by
  simp [utf8Encode]

theorem utf8Encode_decode (bytes w : List Nat) (h : utf8Decode? bytes = some w) : utf8Encode w = bytes := by
  fun_induction utf8Decode? bytes generalizing w <;> simp_all
  case case1 => rfl
  case case2 b0 rest hb ih =>
    obtain ⟨a, ha, rfl⟩ := h
    rw [utf8Encode_cons, ih a ha]
    simp [utf8EncodeOne, hb]
  case case3 b0 b1 rest h1 h2 h3 ih =>
    obtain ⟨a, ha, rfl⟩ := h
    rw [utf8Encode_cons, ih a ha]
    simp only [isCont, Bool.and_eq_true, decide_eq_true_eq] at h3
    have e1 : ¬ ((b0 - 192) * 64 + (b1 - 128) < 128) := by omega
    have e2 : (b0 - 192) * 64 + (b1 - 128) < 2048 := by omega
    simp only [utf8EncodeOne, e1, e2, if_true, if_false, List.cons_append, List.nil_append,
      List.cons.injEq, and_true]
    exact ⟨by omega, by omega⟩
  case case6 b0 b1 b2 rest cp h1 h2 h3 h4 ih =>
    obtain ⟨a, ha, rfl⟩ := h
    rw [utf8Encode_cons, ih a ha]
    simp only [isCont, Bool.and_eq_true, decide_eq_true_eq] at h4
    have hcp : cp = (b0 - 224) * 4096 + (b1 - 128) * 64 + (b2 - 128) := rfl
    have e1 : ¬ (cp < 128) := by omega
    have e2 : ¬ (cp < 2048) := by omega
    have e3 : cp < 65536 := by omega
    simp only [utf8EncodeOne, e1, e2, e3, if_true, if_false, List.cons_append, List.nil_append,
      List.cons.injEq, and_true]
    exact ⟨by omega, by omega, by omega⟩
  case case9 b0 b1 b2 b3 rest cp h1 h2 h3 h4 h5 ih =>
    obtain ⟨a, ha, rfl⟩ := h
    rw [utf8Encode_cons, ih a ha]
    simp only [isCont, Bool.and_eq_true, decide_eq_true_eq] at h5
    have hcp : cp = (b0 - 240) * 262144 + (b1 - 128) * 4096 + (b2 - 128) * 64 + (b3 - 128) := rfl
    have e1 : ¬ (cp < 128) := by omega
    have e2 : ¬ (cp < 2048) := by omega
    have e3 : ¬ (cp < 65536) := by omega
    simp only [utf8EncodeOne, e1, e2, e3, if_true, if_false, List.cons_append, List.nil_append,
      List.cons.injEq, and_true]
    exact ⟨by omega, by omega, by omega, by omega⟩

/-! ## transporting an expression -/

def clip : Ranges → Ranges
  | [] => []
  | p :: rs => if p.1 < 0x80 then (p.1, min p.2 0x7F) :: clip rs else clip rs

theorem inCls_clip {rs : Ranges} {c : Nat} (h : inCls rs c = true) (hc : c < 0x80) : inCls (clip rs) c = true := by
  induction rs with
  | nil => simp [inCls] at h
  | cons p rs ih =>
    simp only [inCls, Bool.or_eq_true, Bool.and_eq_true, Nat.ble_eq] at h
    simp only [clip]
    rcases h with ⟨h1, h2⟩ | h
    · have : p.1 < 0x80 := by omega
      simp only [this, if_true, inCls, Bool.or_eq_true, Bool.and_eq_true, Nat.ble_eq]
      left; omega
    · split
      · simp only [inCls, Bool.or_eq_true, Bool.and_eq_true, Nat.ble_eq]
        right; exact ih h
      · exact ih h

def encRE : RE → RE
  | empty => empty
  | eps => eps
  | cls rs => if maxR rs < 0x80 then cls rs else alt (cls (clip rs)) (encHi rs)
  | seq a b => seq (encRE a) (encRE b)
  | alt a b => alt (encRE a) (encRE b)
  | star a => star (encRE a)

theorem encRE_ascii (r : RE) (h : maxSym r < 0x80) : encRE r = r := by
  induction r with
  | empty => rfl
  | eps => rfl
  | cls rs => simp only [maxSym] at h; simp [encRE, h]
  | seq a b iha ihb =>
    simp only [maxSym] at h
    simp only [encRE, iha (by omega), ihb (by omega)]
  | alt a b iha ihb =>
    simp only [maxSym] at h
    simp only [encRE, iha (by omega), ihb (by omega)]
  | star a ih => simp only [maxSym] at h; simp only [encRE, ih h]

theorem matches_enc {r : RE} {w : List Nat} (h : Matches r w) (hs : ∀ c ∈ w, c < 0x110000) :
    Matches (encRE r) (utf8Encode w) := by
  induction h with
  | eps => exact .eps
  | @cls rs c hc =>
    have hc2 := hs c List.mem_cons_self
    have he : utf8Encode [c] = utf8EncodeOne c := by simp [utf8Encode]
    rw [he]
    simp only [encRE]
    split
    · rename_i hm
      have : c < 0x80 := by have := inCls_le_maxR hc; omega
      simp only [utf8EncodeOne, this, if_true]
      exact .cls hc
    · by_cases hlt : c < 0x80
      · simp only [utf8EncodeOne, hlt, if_true]
        exact .altL (.cls (inCls_clip hc hlt))
      · exact .altR ((encHi_sem rs _).mpr ⟨c, hc, by omega, by omega, rfl⟩)
  | seq _ _ ih1 ih2 =>
    rw [utf8Encode_append]
    exact .seq (ih1 (fun c hc => hs c (List.mem_append_left _ hc))) (ih2 (fun c hc => hs c (List.mem_append_right _ hc)))
  | altL _ ih => exact .altL (ih hs)
  | altR _ ih => exact .altR (ih hs)
  | starNil => exact .starNil
  | starCons _ _ ih1 ih2 =>
    rw [utf8Encode_append]
    exact .starCons (ih1 (fun c hc => hs c (List.mem_append_left _ hc))) (ih2 (fun c hc => hs c (List.mem_append_right _ hc)))

/-! ## the converse: every match of `encRE r` is the encoding of a match of `r` -/

theorem clip_sound {rs : Ranges} {c : Nat} (h : inCls (clip rs) c = true) : inCls rs c = true ∧ c < 0x80 := by
  induction rs with
  | nil => simp [clip, inCls] at h
  | cons p rs ih =>
    simp only [clip] at h
    split at h
    · simp only [inCls, Bool.or_eq_true, Bool.and_eq_true, Nat.ble_eq] at h ⊢
      rcases h with ⟨h1, h2⟩ | h
      · exact ⟨.inl ⟨h1, by omega⟩, by omega⟩
      · exact ⟨.inr (ih h).1, (ih h).2⟩
    · simp only [inCls, Bool.or_eq_true]
      exact ⟨.inr (ih h).1, (ih h).2⟩

/-- every range of the class holds scalar values only -/
def scalarRanges (rs : Ranges) : Bool :=
  rs.all fun p => decide (p.2 < 0xD800) || (decide (0xE000 ≤ p.1) && decide (p.2 < 0x110000))

def scalarRE : RE → Bool
  | empty => true
  | eps => true
  | cls rs => scalarRanges rs
  | seq a b => scalarRE a && scalarRE b
  | alt a b => scalarRE a && scalarRE b
  | star a => scalarRE a

theorem inCls_scalar {rs : Ranges} {c : Nat} (hr : scalarRanges rs = true) (h : inCls rs c = true) : IsScalar c := by
  induction rs with
  | nil => simp [inCls] at h
  | cons p rs ih =>
    simp only [scalarRanges, List.all_cons, Bool.and_eq_true, Bool.or_eq_true, decide_eq_true_eq] at hr
    simp only [inCls, Bool.or_eq_true, Bool.and_eq_true, Nat.ble_eq] at h
    rcases h with ⟨h1, h2⟩ | h
    · unfold IsScalar
      rcases hr.1 with h3 | ⟨h3, h4⟩
      · left; omega
      · right; omega
    · exact ih (by simpa [scalarRanges] using hr.2) h

theorem utf8Encode_singleton (c : Nat) : utf8Encode [c] = utf8EncodeOne c := by simp [utf8Encode]

theorem enc_complete_star {a : RE}
    (ih : ∀ bs, Matches (encRE a) bs → ∃ w, Matches a w ∧ utf8Encode w = bs ∧ ∀ c ∈ w, IsScalar c)
    {bs : List Nat} (h : Matches (star (encRE a)) bs) :
    ∃ w, Matches (star a) w ∧ utf8Encode w = bs ∧ ∀ c ∈ w, IsScalar c := by
  generalize hr : star (encRE a) = r at h
  induction h with
  | eps => cases hr
  | cls _ => cases hr
  | seq _ _ => cases hr
  | altL _ => cases hr
  | altR _ => cases hr
  | starNil => exact ⟨[], .starNil, rfl, fun c hc => by cases hc⟩
  | starCons h1 _ _ ih2 =>
    cases hr
    obtain ⟨w1, m1, e1, s1⟩ := ih _ h1
    obtain ⟨w2, m2, e2, s2⟩ := ih2 rfl
    refine ⟨w1 ++ w2, .starCons m1 m2, by rw [utf8Encode_append, e1, e2], ?_⟩
    intro c hc
    rcases List.mem_append.mp hc with h | h
    · exact s1 c h
    · exact s2 c h

/-- **completeness of the transport** -/
theorem enc_complete (r : RE) (hr : scalarRE r = true) : ∀ bs, Matches (encRE r) bs →
    ∃ w, Matches r w ∧ utf8Encode w = bs ∧ ∀ c ∈ w, IsScalar c := by
  induction r with
  | empty => intro bs h; exact absurd h matches_empty
  | eps =>
    intro bs h
    have := matches_eps.mp h
    subst this
    exact ⟨[], .eps, rfl, fun c hc => by cases hc⟩
  | cls rs =>
    intro bs h
    simp only [scalarRE] at hr
    simp only [encRE] at h
    split at h
    · rename_i hm
      obtain ⟨c, rfl, hc⟩ := matches_cls.mp h
      have hlt : c < 0x80 := by have := inCls_le_maxR hc; omega
      refine ⟨[c], .cls hc, by simp [utf8Encode_singleton, utf8EncodeOne, hlt], ?_⟩
      intro x hx; simp at hx; subst hx; exact inCls_scalar hr hc
    · rcases matches_alt.mp h with h | h
      · obtain ⟨c, rfl, hc⟩ := matches_cls.mp h
        obtain ⟨hc1, hlt⟩ := clip_sound hc
        refine ⟨[c], .cls hc1, by simp [utf8Encode_singleton, utf8EncodeOne, hlt], ?_⟩
        intro x hx; simp at hx; subst hx; exact inCls_scalar hr hc1
      · obtain ⟨v, hv, _, _, rfl⟩ := (encHi_sem rs bs).mp h
        refine ⟨[v], .cls hv, utf8Encode_singleton v, ?_⟩
        intro x hx; simp at hx; subst hx; exact inCls_scalar hr hv
  | seq a b iha ihb =>
    intro bs h
    simp only [scalarRE, Bool.and_eq_true] at hr
    obtain ⟨u, v, rfl, hu, hv⟩ := matches_seq.mp h
    obtain ⟨w1, m1, e1, s1⟩ := iha hr.1 u hu
    obtain ⟨w2, m2, e2, s2⟩ := ihb hr.2 v hv
    refine ⟨w1 ++ w2, .seq m1 m2, by rw [utf8Encode_append, e1, e2], ?_⟩
    intro c hc
    rcases List.mem_append.mp hc with h | h
    · exact s1 c h
    · exact s2 c h
  | alt a b iha ihb =>
    intro bs h
    simp only [scalarRE, Bool.and_eq_true] at hr
    rcases matches_alt.mp h with h | h
    · obtain ⟨w, m, e, s⟩ := iha hr.1 bs h
      exact ⟨w, .altL m, e, s⟩
    · obtain ⟨w, m, e, s⟩ := ihb hr.2 bs h
      exact ⟨w, .altR m, e, s⟩
  | star a ih =>
    intro bs h
    simp only [scalarRE] at hr
    exact enc_complete_star (ih hr) h

/-- the strict decoder reads back what `utf8Encode` writes for scalar values -/
theorem utf8Decode_encode (w : List Nat) (hs : ∀ c ∈ w, IsScalar c) : utf8Decode? (utf8Encode w) = some w := by
  induction w with
  | nil => rfl
  | cons c w ih =>
    have hc := hs c List.mem_cons_self
    have ihw := ih (fun x hx => hs x (List.mem_cons_of_mem _ hx))
    rw [utf8Encode_cons]
    unfold IsScalar at hc
    unfold utf8EncodeOne
    by_cases h1 : c < 0x80
    · simp only [h1, if_true, List.singleton_append]
      unfold utf8Decode?
      simp only [h1, if_true, ihw, Option.map_some]
    · by_cases h2 : c < 0x800
      · simp only [h1, h2, if_true, if_false, List.cons_append, List.nil_append]
        have a1 : ¬ (0xC0 + c / 64 < 0x80) := by omega
        have a2 : (decide (0xC2 ≤ 0xC0 + c / 64) && decide (0xC0 + c / 64 ≤ 0xDF)) = true := by
          simp only [Bool.and_eq_true, decide_eq_true_eq]; omega
        have a3 : isCont (0x80 + c % 64) = true := by
          simp only [isCont, Bool.and_eq_true, decide_eq_true_eq]; omega
        have a4 : (0xC0 + c / 64 - 0xC0) * 64 + (0x80 + c % 64 - 0x80) = c := by omega
        unfold utf8Decode?
        simp only [a1, if_false, a2, if_true, a3, ihw, Option.map_some, a4]
      · by_cases h3 : c < 0x10000
        · simp only [h1, h2, h3, if_true, if_false, List.cons_append, List.nil_append]
          have a1 : ¬ (0xE0 + c / 4096 < 0x80) := by omega
          have a2 : (decide (0xC2 ≤ 0xE0 + c / 4096) && decide (0xE0 + c / 4096 ≤ 0xDF)) = false := by
            simp only [Bool.and_eq_false_iff, decide_eq_false_iff_not]; omega
          have a3 : (decide (0xE0 ≤ 0xE0 + c / 4096) && decide (0xE0 + c / 4096 ≤ 0xEF)) = true := by
            simp only [Bool.and_eq_true, decide_eq_true_eq]; omega
          have a4 : isCont (0x80 + c / 64 % 64) = true := by
            simp only [isCont, Bool.and_eq_true, decide_eq_true_eq]; omega
          have a5 : isCont (0x80 + c % 64) = true := by
            simp only [isCont, Bool.and_eq_true, decide_eq_true_eq]; omega
          have a6 : (0xE0 + c / 4096 - 0xE0) * 4096 + (0x80 + c / 64 % 64 - 0x80) * 64 + (0x80 + c % 64 - 0x80) = c := by
            omega
          have a7 : (decide (0x800 ≤ c) && !(decide (0xD800 ≤ c) && decide (c ≤ 0xDFFF))) = true := by
            simp only [Bool.and_eq_true, decide_eq_true_eq, Bool.not_eq_true', Bool.and_eq_false_iff,
              decide_eq_false_iff_not]
            omega
          unfold utf8Decode?
          simp only [a1, if_false, a2, Bool.false_eq_true, a3, if_true, a4, a5, a6, Bool.true_and, a7,
            ihw, Option.map_some]
        · simp only [h1, h2, h3, if_false, List.cons_append, List.nil_append]
          have a1 : ¬ (0xF0 + c / 262144 < 0x80) := by omega
          have a2 : (decide (0xC2 ≤ 0xF0 + c / 262144) && decide (0xF0 + c / 262144 ≤ 0xDF)) = false := by
            simp only [Bool.and_eq_false_iff, decide_eq_false_iff_not]; omega
          have a3 : (decide (0xE0 ≤ 0xF0 + c / 262144) && decide (0xF0 + c / 262144 ≤ 0xEF)) = false := by
            simp only [Bool.and_eq_false_iff, decide_eq_false_iff_not]; omega
          have a3' : (decide (0xF0 ≤ 0xF0 + c / 262144) && decide (0xF0 + c / 262144 ≤ 0xF4)) = true := by
            simp only [Bool.and_eq_true, decide_eq_true_eq]; omega
          have a4 : isCont (0x80 + c / 4096 % 64) = true := by
            simp only [isCont, Bool.and_eq_true, decide_eq_true_eq]; omega
          have a5 : isCont (0x80 + c / 64 % 64) = true := by
            simp only [isCont, Bool.and_eq_true, decide_eq_true_eq]; omega
          have a5' : isCont (0x80 + c % 64) = true := by
            simp only [isCont, Bool.and_eq_true, decide_eq_true_eq]; omega
          have a6 : (0xF0 + c / 262144 - 0xF0) * 262144 + (0x80 + c / 4096 % 64 - 0x80) * 4096 +
              (0x80 + c / 64 % 64 - 0x80) * 64 + (0x80 + c % 64 - 0x80) = c := by omega
          have a7 : (decide (0x10000 ≤ c) && decide (c ≤ 0x10FFFF)) = true := by
            simp only [Bool.and_eq_true, decide_eq_true_eq]; omega
          unfold utf8Decode?
          simp only [a1, if_false, a2, Bool.false_eq_true, a3, a3', if_true, a4, a5, a5', a6,
            Bool.true_and, a7, ihw, Option.map_some]

/-! ## the octet-level IRI grammar -/

def encG (G : Grammar) : Grammar :=
  { userinfo := encRE G.userinfo, host := encRE G.host, segment := encRE G.segment,
    segmentNz := encRE G.segmentNz, segmentNzNc := encRE G.segmentNzNc,
    query := encRE G.query, fragment := encRE G.fragment }

theorem encG_reference (G : Grammar) : (encG G).reference = encRE G.reference := by
  have hs : encRE Rfc3986.scheme = Rfc3986.scheme := encRE_ascii _ (by decide)
  have hp : encRE Rfc3986.port = Rfc3986.port := encRE_ascii _ (by decide)
  simp only [Grammar.reference, Grammar.full, Grammar.relativeRef, Grammar.relativePart, Grammar.hierPart,
    Grammar.authPath, Grammar.queryFragment, Grammar.authority, Grammar.pathAbempty, Grammar.pathAbsolute,
    Grammar.pathNoscheme, Grammar.pathRootless, Grammar.pathEmpty, encG, seqs, alts, opt, lit, encRE, hs, hp]
  rfl

theorem encG_full (G : Grammar) : (encG G).full = encRE G.full := by
  have hs : encRE Rfc3986.scheme = Rfc3986.scheme := encRE_ascii _ (by decide)
  have hp : encRE Rfc3986.port = Rfc3986.port := encRE_ascii _ (by decide)
  simp only [Grammar.full, Grammar.hierPart,
    Grammar.authPath, Grammar.queryFragment, Grammar.authority, Grammar.pathAbempty, Grammar.pathAbsolute,
    Grammar.pathRootless, Grammar.pathEmpty, encG, seqs, alts, opt, lit, encRE, hs, hp]
  rfl

/-- the grammar satisfied by the octets of an IRI -/
def iriGB : Grammar := encG iriG

theorem iriGB_ok : Grammar.Ok iriGB := by
  constructor <;> decide

theorem iriGB_okAuth : Grammar.OkAuth iriGB where
  userinfo := by decide
  hostShape := by
    intro h hm
    have hl : encRE Rfc3986.IPliteral = Rfc3986.IPliteral := encRE_ascii _ (by decide)
    apply hostShape_of (encRE (alt Rfc3986.IPv4address Rfc3987.iregName)) (by decide) h
    have : iriGB.host = alt Rfc3986.IPliteral (encRE (alt Rfc3986.IPv4address Rfc3987.iregName)) := by
      simp only [iriGB, encG, iriG, Rfc3987.ihost, alts, encRE, hl]
    rw [← this]; exact hm

/-- **the octets of a valid IRI reference match the octet-level grammar** -/
theorem iri_octets_valid (bytes w : List Nat) (hd : utf8Decode? bytes = some w)
    (hm : Matches iriG.reference w) : Matches iriGB.reference bytes := by
  have hsc := utf8Decode_scalars bytes w hd
  have := matches_enc hm (fun c hc => by have := hsc c hc; unfold IsScalar at this; omega)
  rw [utf8Encode_decode bytes w hd] at this
  rw [iriGB, encG_reference]; exact this

theorem iri_octets_valid_full (bytes w : List Nat) (hd : utf8Decode? bytes = some w)
    (hm : Matches iriG.full w) : Matches iriGB.full bytes := by
  have hsc := utf8Decode_scalars bytes w hd
  have := matches_enc hm (fun c hc => by have := hsc c hc; unfold IsScalar at this; omega)
  rw [utf8Encode_decode bytes w hd] at this
  rw [iriGB, encG_full]; exact this

/-! ## exactness -/

/-- **the transported expression matches exactly the UTF-8 encodings of the words of `r`** -/
theorem enc_exact (r : RE) (hr : scalarRE r = true) (bytes : List Nat) :
    Matches (encRE r) bytes ↔ ∃ w, utf8Decode? bytes = some w ∧ Matches r w := by
  constructor
  · intro h
    obtain ⟨w, hm, he, hs⟩ := enc_complete r hr bytes h
    exact ⟨w, by rw [← he]; exact utf8Decode_encode w hs, hm⟩
  · rintro ⟨w, hd, hm⟩
    have hsc := utf8Decode_scalars bytes w hd
    have := matches_enc hm (fun c hc => by have := hsc c hc; unfold IsScalar at this; omega)
    rwa [utf8Encode_decode bytes w hd] at this

/-- **`iriGB` is exactly the valid IRI references as octets**: well-formed UTF-8 whose scalar
values form a word of RFC 3987 `IRI-reference` -/
theorem iri_octets_exact (bytes : List Nat) :
    Matches iriGB.reference bytes ↔ ∃ w, utf8Decode? bytes = some w ∧ Matches iriG.reference w := by
  rw [iriGB, encG_reference]
  exact enc_exact _ (by decide) bytes

theorem iri_octets_exact_full (bytes : List Nat) :
    Matches iriGB.full bytes ↔ ∃ w, utf8Decode? bytes = some w ∧ Matches iriG.full w := by
  rw [iriGB, encG_full]
  exact enc_exact _ (by decide) bytes

/-- the octets of an encoded word are octets -/
theorem utf8Encode_bytes (w : List Nat) (hs : ∀ c ∈ w, c < 0x110000) : ∀ b ∈ utf8Encode w, b < 256 := by
  induction w with
  | nil => intro b hb; cases hb
  | cons c w ih =>
    intro b hb
    rw [utf8Encode_cons] at hb
    rcases List.mem_append.mp hb with h | h
    · have hc := hs c List.mem_cons_self
      unfold utf8EncodeOne at h
      split at h
      · simp at h; omega
      · split at h
        · simp at h; rcases h with rfl | rfl <;> omega
        · split at h
          · simp at h; rcases h with rfl | rfl | rfl <;> omega
          · simp at h; rcases h with rfl | rfl | rfl | rfl <;> omega
    · exact ih (fun x hx => hs x (List.mem_cons_of_mem _ hx)) b h

end IrefVerif.Lemmas
