import IrefVerif.Lemmas.PctBytes
import IrefVerif.Lemmas.Sub
import IrefVerif.Spec.Grammar

/-!
# Valid components are well-escaped

Every `%` in a valid user info, host, segment, query or fragment is followed by two hex digits.
Route: the component's production is included (`RE.sub`, evaluated by `decide`) in
`WE = *( non-% / "%" HEXDIG HEXDIG )`, and every word of `WE` is well-escaped.
-/

set_option linter.unusedSimpArgs false

namespace IrefVerif.Lemmas
open IrefVerif IrefVerif.RE IrefVerif.Spec

/-- any symbol but `%` -/
def nonPct : RE := cls [(0, 0x24), (0x26, 0x10FFFF)]

/-- one block: a non-`%` symbol, or an escape -/
def weBlock : RE := alt nonPct Rfc3986.pctEncoded

def WE : RE := star weBlock

theorem wellEscaped_cons (c : Nat) (v : Text) (hc : c ≠ cPct) : wellEscaped (c :: v) = wellEscaped v := by
  have hc' : (c == cPct) = false := by simpa using hc
  match v with
  | [] => simp [wellEscaped, hc']
  | [a] => simp [wellEscaped, hc']
  | a :: b :: rest => simp [wellEscaped, hc']

theorem wellEscaped_pct (a b : Nat) (v : Text) (ha : (hexVal a).isSome) (hb : (hexVal b).isSome) :
    wellEscaped (cPct :: a :: b :: v) = wellEscaped v := by
  simp [wellEscaped, ha, hb]

theorem hexdig_hexVal {w : Text} (h : Matches Rfc3986.HEXDIG w) : ∃ a, w = [a] ∧ (hexVal a).isSome = true := by
  obtain ⟨c, rfl, hc⟩ := matches_cls.mp h
  refine ⟨c, rfl, ?_⟩
  simp only [inCls, Bool.or_eq_true, Bool.and_eq_true, Nat.ble_eq, Bool.or_false] at hc
  unfold hexVal
  rcases hc with ⟨h1, h2⟩ | ⟨h1, h2⟩ | ⟨h1, h2⟩
  · have : (0x30 ≤ c && c ≤ 0x39) = true := by simp; omega
    simp [this]
  · have h0 : (0x30 ≤ c && c ≤ 0x39) = false := by
      simp only [Bool.and_eq_false_imp, decide_eq_true_eq, decide_eq_false_iff_not]; omega
    have : (0x41 ≤ c && c ≤ 0x46) = true := by simp; omega
    simp [h0, this]
  · have h0 : (0x30 ≤ c && c ≤ 0x39) = false := by
      simp only [Bool.and_eq_false_imp, decide_eq_true_eq, decide_eq_false_iff_not]; omega
    have h1' : (0x41 ≤ c && c ≤ 0x46) = false := by
      simp only [Bool.and_eq_false_imp, decide_eq_true_eq, decide_eq_false_iff_not]; omega
    have : (0x61 ≤ c && c ≤ 0x66) = true := by simp; omega
    simp [h0, h1', this]

theorem weBlock_cases {u : Text} (h : Matches weBlock u) :
    (∃ c, u = [c] ∧ c ≠ cPct) ∨ (∃ a b, u = [cPct, a, b] ∧ (hexVal a).isSome = true ∧ (hexVal b).isSome = true) := by
  rcases matches_alt.mp h with h | h
  · left
    obtain ⟨c, rfl, hc⟩ := matches_cls.mp h
    refine ⟨c, rfl, ?_⟩
    intro e; subst e
    simp [inCls, cPct] at hc
  · right
    simp only [Rfc3986.pctEncoded, seqs, matches_seq, matches_ch] at h
    obtain ⟨p, r, rfl, rfl, x, y, rfl, hx, hy⟩ := h
    obtain ⟨a, rfl, ha⟩ := hexdig_hexVal hx
    obtain ⟨b, rfl, hb⟩ := hexdig_hexVal hy
    exact ⟨a, b, rfl, ha, hb⟩

theorem matches_WE_wellEscaped {w : Text} (h : Matches WE w) : wellEscaped w = true := by
  unfold WE at h
  generalize hr : star weBlock = r at h
  induction h with
  | eps => cases hr
  | cls _ => cases hr
  | seq _ _ => cases hr
  | altL _ => cases hr
  | altR _ => cases hr
  | starNil => rfl
  | starCons h1 _ _ ih2 =>
    cases hr
    have ih := ih2 rfl
    rcases weBlock_cases h1 with ⟨c, rfl, hc⟩ | ⟨a, b, rfl, ha, hb⟩
    · simp only [List.singleton_append]
      rw [wellEscaped_cons c _ hc]; exact ih
    · simp only [List.cons_append, List.nil_append]
      rw [wellEscaped_pct a b _ ha hb]; exact ih

/-- a production included in `WE` has only well-escaped words -/
theorem wellEscaped_of_sub {r : RE} (hs : sub r WE = true) {w : Text} (h : Matches r w) :
    wellEscaped w = true :=
  matches_WE_wellEscaped (sub_sound hs h)

theorem uri_segment_we : sub Rfc3986.segment WE = true := by decide
theorem uri_userinfo_we : sub Rfc3986.userinfo WE = true := by decide
theorem uri_host_we : sub Rfc3986.host WE = true := by decide
theorem uri_query_we : sub Rfc3986.query WE = true := by decide
theorem uri_fragment_we : sub Rfc3986.fragment WE = true := by decide
theorem iri_segment_we : sub Rfc3987.isegment WE = true := by decide
theorem iri_userinfo_we : sub Rfc3987.iuserinfo WE = true := by decide
theorem iri_host_we : sub Rfc3987.ihost WE = true := by decide
theorem iri_query_we : sub Rfc3987.iquery WE = true := by decide
theorem iri_fragment_we : sub Rfc3987.ifragment WE = true := by decide

end IrefVerif.Lemmas
