import IrefVerif.Lemmas.SplitModel
import IrefVerif.Model.RelClass

/-!
# Uniqueness of the decomposition

`WF P`: the five components have the right alphabets (a scheme has none of `: / ? #`, an
authority none of `/ ? #`, a path none of `? #`, a query no `#`) and the three context rules of
RFC 3986 §3 hold.  Then `split (recompose P) = P`: the text determines the components.
-/

set_option linter.unusedSimpArgs false

namespace IrefVerif.Lemmas
open IrefVerif.Spec IrefVerif.Model.Parse

structure WF (P : Spec.Parts) : Prop where
  scheme : ∀ s, P.scheme = some s → s ≠ [] ∧ ∀ c ∈ s, nCSQH c = true
  authority : ∀ a, P.authority = some a → ∀ c ∈ a, nSQH c = true
  path : ∀ c ∈ P.path, nQH c = true
  query : ∀ q, P.query = some q → ∀ c ∈ q, nH c = true
  /-- authority present ⇒ path empty or absolute -/
  abempty : P.authority.isSome → P.path = [] ∨ ∃ r, P.path = cSlash :: r
  /-- no authority ⇒ the path does not begin with `//` -/
  noSS : P.authority = none → startsSS P.path = false
  /-- no scheme, no authority ⇒ no `:` in the first segment -/
  noColon : P.scheme = none → P.authority = none → fsc P.path = false

theorem startsSS_append (p t : Text) (ht : ∀ c r, t = c :: r → c ≠ cSlash) (hp : startsSS p = false) :
    startsSS (p ++ t) = false := by
  match p, hp with
  | [], _ =>
    match t, ht with
    | [], _ => rfl
    | [_], _ => rfl
    | a :: b :: r, ht =>
      have := ht a (b :: r) rfl
      simp [startsSS, this]
  | [a], _ =>
    match t, ht with
    | [], _ => rfl
    | b :: r, ht =>
      have := ht b r rfl
      simp [startsSS, this]
  | a :: b :: r, hp => simpa [startsSS] using hp

/-- the text after the path: empty, or starts with `?` or `#` -/
def TailStart (t : Text) : Prop := ∀ c r, t = c :: r → c = cQuest ∨ c = cHash

theorem tailStart_qf (q f : Option Text) : TailStart (queryText q ++ fragText f) := by
  intro c r h
  cases q with
  | some q => simp [queryText] at h; exact .inl h.1.symm
  | none =>
    cases f with
    | some f => simp [queryText, fragText] at h; exact .inr h.1.symm
    | none => simp [queryText, fragText] at h

theorem fdc_append_false (p t : Text) (hp : fsc p = false) (ht : TailStart t) :
    fdc (p ++ t) = false := by
  induction p with
  | nil =>
    cases t with
    | nil => rfl
    | cons c r =>
      rcases ht c r rfl with rfl | rfl <;> simp [fdc, cQuest, cHash, cColon, cSlash]
  | cons c p ih =>
    simp only [fsc] at hp
    by_cases hc : (c == cColon) = true
    · simp [hc] at hp
    · have hc' : (c == cColon) = false := by simpa using hc
      simp only [hc', Bool.false_eq_true, if_false] at hp
      by_cases hs : (c == cSlash) = true
      · simp [fdc, hc', hs]
      · have hs' : (c == cSlash) = false := by simpa using hs
        simp only [hs', Bool.false_eq_true, if_false] at hp
        simp only [List.cons_append, fdc, hc', Bool.false_eq_true, if_false, hs', Bool.false_or]
        split
        · rfl
        · exact ih hp

theorem fdc_scheme (s rest : Text) (hs : ∀ c ∈ s, nCSQH c = true) : fdc (s ++ cColon :: rest) = true := by
  induction s with
  | nil => simp [fdc]
  | cons c s ih =>
    have hc := hs c List.mem_cons_self
    simp only [nCSQH, Bool.not_eq_true', Bool.or_eq_false_iff] at hc
    simp only [List.cons_append, fdc, hc.1.1.1, Bool.false_eq_true, if_false, hc.1.1.2, hc.1.2, hc.2,
      Bool.or_self]
    exact ih (fun x hx => hs x (List.mem_cons_of_mem _ hx))

theorem spanLen_scheme (s rest : Text) (hs : ∀ c ∈ s, nCSQH c = true) :
    spanLen nCSQH (s ++ cColon :: rest) = s.length :=
  spanLen_append_of_all hs (by intro c r h; injection h with h _; subst h; rfl)

/-- **uniqueness of the decomposition** -/
theorem split_recompose (P : Spec.Parts) (wf : WF P) : split (recompose P) = P := by
  obtain ⟨sch, au, pa, qu, fr⟩ := P
  rw [recompose_eq, split_eq_tail]
  simp only
  -- the text after scheme and authority
  generalize hT : queryText qu ++ fragText fr = T
  have hTs : TailStart T := hT ▸ tailStart_qf qu fr
  have hassoc : schemeText sch ++ authText au ++ pa ++ queryText qu ++ fragText fr
      = schemeText sch ++ (authText au ++ (pa ++ T)) := by simp [← hT, List.append_assoc]
  rw [hassoc]
  -- 1. scheme
  have h1 : splitScheme (schemeText sch ++ (authText au ++ (pa ++ T))) = (sch, authText au ++ (pa ++ T)) := by
    cases sch with
    | some s =>
      obtain ⟨hne, hs⟩ := wf.scheme s rfl
      have hf : fdc (s ++ cColon :: (authText au ++ (pa ++ T))) = true := fdc_scheme _ _ hs
      have hhead : (s ++ cColon :: (authText au ++ (pa ++ T))).head? ≠ some cColon := by
        cases s with
        | nil => exact absurd rfl hne
        | cons c s =>
          have := hs c List.mem_cons_self
          simp only [List.cons_append, List.head?_cons, ne_eq, Option.some.injEq]
          intro h; subst h; simp [nCSQH] at this
      have := splitScheme_of_fdc_true hhead hf
      simp only [schemeText, List.append_assoc, List.singleton_append]
      rw [this, spanLen_scheme _ _ hs]
      simp
    | none =>
      simp only [schemeText, List.nil_append]
      apply splitScheme_of_fdc_false
      cases au with
      | some a => simp [authText, fdc, cSlash, cColon]
      | none =>
        simp only [authText, List.nil_append]
        exact fdc_append_false pa T (wf.noColon rfl rfl) hTs
  rw [h1]
  simp only
  -- 2. authority
  have h2 : splitAuthority (authText au ++ (pa ++ T)) = (au, pa ++ T) := by
    cases au with
    | some a =>
      have ha := wf.authority a rfl
      have hss : startsSS (authText (some a) ++ (pa ++ T)) = true := by simp [authText, startsSS]
      rw [splitAuthority_of_startsSS hss]
      have hd : (authText (some a) ++ (pa ++ T)).drop 2 = a ++ (pa ++ T) := by simp [authText]
      have hstop : ∀ c r, pa ++ T = c :: r → nSQH c = false := by
        intro c r h
        rcases wf.abempty rfl with hp | ⟨r', hp⟩
        · subst hp
          rcases hTs c r (by simpa using h) with rfl | rfl <;> simp [nSQH, cQuest, cHash, cSlash]
        · subst hp
          simp at h; obtain ⟨rfl, _⟩ := h
          simp [nSQH]
      rw [hd, spanLen_append_of_all ha hstop]
      have hdrop : List.drop (2 + a.length) (authText (some a) ++ (pa ++ T)) = pa ++ T := by
        have e1 : authText (some a) ++ (pa ++ T) = ([cSlash, cSlash] ++ a) ++ (pa ++ T) := by
          simp [authText]
        have e2 : 2 + a.length = ([cSlash, cSlash] ++ a).length := by
          simp only [List.length_append, List.length_cons, List.length_nil]
        rw [e1, e2, List.drop_left]
      simp [hdrop]
    | none =>
      simp only [authText, List.nil_append]
      apply splitAuthority_of_not
      apply startsSS_append _ _ _ (wf.noSS rfl)
      intro c r h
      rcases hTs c r h with rfl | rfl <;> simp [cQuest, cHash, cSlash]
  rw [h2]
  simp only
  -- 3. path, query, fragment
  have hstopP : ∀ c r, T = c :: r → nQH c = false := by
    intro c r h
    rcases hTs c r h with rfl | rfl <;> simp [nQH]
  have h3 : spanP (notIn [cQuest, cHash]) (pa ++ T) = (pa, T) := by
    rw [notIn_nQH]; exact spanP_append_of_all wf.path hstopP
  simp only [tailSplit, h3]
  subst hT
  cases qu with
  | some q =>
    have hq := wf.query q rfl
    have hstopQ : ∀ c r, fragText fr = c :: r → nH c = false := by
      intro c r h
      cases fr with
      | some f => simp [fragText] at h; obtain ⟨rfl, _⟩ := h; simp [nH]
      | none => simp [fragText] at h
    have h4 : spanP (notIn [cHash]) (q ++ fragText fr) = (q, fragText fr) := by
      rw [notIn_nH]; exact spanP_append_of_all hq hstopQ
    simp only [queryText, List.cons_append, splitQuery, beq_self_eq_true, if_true, h4]
    cases fr with
    | some f => simp [fragText, splitFragment]
    | none => simp [fragText, splitFragment]
  | none =>
    cases fr with
    | some f => simp [queryText, fragText, splitQuery, splitFragment, cHash, cQuest]
    | none => simp [queryText, fragText, splitQuery, splitFragment]

end IrefVerif.Lemmas
