import IrefVerif.Lemmas.AuthModel
import IrefVerif.Lemmas.ValidWF

/-!
# A valid authority is `[ userinfo "@" ] host [ ":" port ]` of valid sub-components

`Matches G.authority a ↔ ∃ A, recomposeAuth A = a ∧ ValidAuth G A`, and valid sub-components
are well-formed (`WFA'`), so `splitAuth a` and the model's `parts()` both return *the* valid
sub-components of a valid authority.
-/

set_option linter.unusedSimpArgs false

namespace IrefVerif.Lemmas
open IrefVerif IrefVerif.RE IrefVerif.Spec IrefVerif.Model

structure ValidAuth (G : Grammar) (A : AuthParts) : Prop where
  userinfo : ∀ u, A.userinfo = some u → Matches G.userinfo u
  host : Matches G.host A.host
  port : ∀ p, A.port = some p → Matches Rfc3986.port p

theorem authority_iff (G : Grammar) (a : Text) :
    Matches G.authority a ↔ ∃ A : AuthParts, recomposeAuth A = a ∧ ValidAuth G A := by
  simp only [Grammar.authority, seqs, matches_seq, matches_opt, matches_ch]
  constructor
  · rintro ⟨u', r, rfl, hu, h, p', rfl, hh, hp⟩
    rcases hu with rfl | ⟨u, at_, rfl, hu, rfl⟩
    · rcases hp with rfl | ⟨c, p, rfl, rfl, hp⟩
      · exact ⟨⟨none, h, none⟩, by simp [recomposeAuth], by simp, hh, by simp⟩
      · exact ⟨⟨none, h, some p⟩, by simp [recomposeAuth, cColon], by simp, hh, by simpa using hp⟩
    · rcases hp with rfl | ⟨c, p, rfl, rfl, hp⟩
      · exact ⟨⟨some u, h, none⟩, by simp [recomposeAuth, cAt], by simpa using hu, hh, by simp⟩
      · exact ⟨⟨some u, h, some p⟩, by simp [recomposeAuth, cAt, cColon], by simpa using hu, hh,
          by simpa using hp⟩
  · rintro ⟨⟨ui, h, p⟩, rfl, hv⟩
    rw [recomposeAuth_eq]
    refine ⟨uiText ui, h ++ portText p, by simp [List.append_assoc], ?_, h, portText p, rfl, hv.host, ?_⟩
    · cases ui with
      | none => exact .inl rfl
      | some u => exact .inr ⟨u, [0x40], rfl, hv.userinfo u rfl, rfl⟩
    · cases p with
      | none => exact .inl rfl
      | some q => exact .inr ⟨[0x3A], q, rfl, rfl, hv.port q rfl⟩

/-- what is needed about the leaf classes of the authority productions -/
structure Grammar.OkAuth (G : Grammar) : Prop where
  userinfo : ([0x40, 0x5B] : List Nat).all (fun d => !inAlphabet G.userinfo d) = true
  hostShape : ∀ h, Matches G.host h →
    (∃ inner, h = cLBr :: inner ++ [cRBr] ∧ cRBr ∉ inner ∧ cAt ∉ inner) ∨
    (cLBr ∉ h ∧ cColon ∉ h ∧ cAt ∉ h)

theorem port_alpha : ([0x40, 0x5B] : List Nat).all (fun d => !inAlphabet Rfc3986.port d) = true := by decide

theorem ipInner_alpha :
    ([0x5D, 0x40] : List Nat).all (fun d => !inAlphabet (alt Rfc3986.IPv6address Rfc3986.IPvFuture) d) = true := by
  decide

theorem hostShape_of (rest : RE)
    (hrest : ([0x5B, 0x3A, 0x40] : List Nat).all (fun d => !inAlphabet rest d) = true)
    (h : Text) (hm : Matches (alt Rfc3986.IPliteral rest) h) :
    (∃ inner, h = cLBr :: inner ++ [cRBr] ∧ cRBr ∉ inner ∧ cAt ∉ inner) ∨
    (cLBr ∉ h ∧ cColon ∉ h ∧ cAt ∉ h) := by
  rcases matches_alt.mp hm with hm | hm
  · left
    simp only [Rfc3986.IPliteral, seqs, matches_seq, matches_ch] at hm
    obtain ⟨u, v, rfl, rfl, inner, w, rfl, hin, rfl⟩ := hm
    have hex := matches_excl ipInner_alpha hin
    refine ⟨inner, by simp [cLBr, cRBr], ?_, ?_⟩
    · intro hc; exact hex _ hc (by simp [cRBr])
    · intro hc; exact hex _ hc (by simp [cAt])
  · right
    have hex := matches_excl hrest hm
    exact ⟨fun hc => hex _ hc (by simp [cLBr]), fun hc => hex _ hc (by simp [cColon]),
      fun hc => hex _ hc (by simp [cAt])⟩

theorem uriG_okAuth : Grammar.OkAuth uriG where
  userinfo := by decide
  hostShape := by
    intro h hm
    apply hostShape_of (alt Rfc3986.IPv4address Rfc3986.regName) (by decide) h
    simpa [uriG, Rfc3986.host, alts] using hm

theorem iriG_okAuth : Grammar.OkAuth iriG where
  userinfo := by decide
  hostShape := by
    intro h hm
    apply hostShape_of (alt Rfc3986.IPv4address Rfc3987.iregName) (by decide) h
    simpa [iriG, Rfc3987.ihost, alts] using hm

/-- **valid sub-components are well-formed sub-components** -/
theorem wfa_of_valid (G : Grammar) (ok : Grammar.OkAuth G) (A : AuthParts) (hv : ValidAuth G A) : WFA' A := by
  have hsh := ok.hostShape A.host hv.host
  refine { userinfo := ?_, hostAt := ?_, port := ?_, host := ?_, uiBr := ?_, hostBr := ?_, portBr := ?_ }
  · intro u hu hc
    exact matches_excl ok.userinfo (hv.userinfo u hu) _ hc (by simp [cAt])
  · rcases hsh with ⟨inner, hh, _, hat⟩ | ⟨_, _, hat⟩
    · rw [hh]; intro hc
      simp only [List.cons_append, List.mem_cons, List.mem_append, List.mem_nil_iff, or_false] at hc
      rcases hc with hc | hc | hc
      · simp [cAt, cLBr] at hc
      · exact hat hc
      · simp [cAt, cRBr] at hc
    · exact hat
  · intro p hp hc
    exact matches_excl port_alpha (hv.port p hp) _ hc (by simp [cAt])
  · rcases hsh with ⟨inner, hh, hbr, _⟩ | ⟨hbr, hcol, _⟩
    · exact .inl ⟨inner, hh, hbr⟩
    · right
      refine ⟨?_, hcol⟩
      intro hhd
      cases hA : A.host with
      | nil => rw [hA] at hhd; simp at hhd
      | cons c l =>
        rw [hA] at hhd hbr
        simp only [List.head?_cons, Option.some.injEq] at hhd
        subst hhd
        exact hbr List.mem_cons_self
  · intro u hu hc
    exact matches_excl ok.userinfo (hv.userinfo u hu) _ hc (by simp [cLBr])
  · intro hhd
    rcases hsh with ⟨inner, hh, _, _⟩ | ⟨hbr, _, _⟩
    · rw [hh] at hhd; simp at hhd
    · exact hbr
  · intro p hp hc
    exact matches_excl port_alpha (hv.port p hp) _ hc (by simp [cLBr])

/-- **C03**: for a valid authority, `splitAuth`, and the model of `parts()`, return the valid
sub-components whose reassembly is the text -/
theorem authority_parts (G : Grammar) (ok : Grammar.OkAuth G) (a : Text) (h : Matches G.authority a) :
    modelAuthParts a = splitAuth a ∧ ValidAuth G (splitAuth a) ∧ recomposeAuth (splitAuth a) = a := by
  obtain ⟨A, hA, hv⟩ := (authority_iff G a).mp h
  have hwf := wfa_of_valid G ok A hv
  have h1 : splitAuth a = A := by rw [← hA]; exact splitAuth_recompose A hwf.toWFA
  have h2 : modelAuthParts a = A := by rw [← hA]; exact modelAuthParts_recompose A hwf
  rw [h1, h2]
  exact ⟨rfl, hv, hA⟩

end IrefVerif.Lemmas
