import IrefVerif.Lemmas.PathMutView
import IrefVerif.Lemmas.Segs

/-!
# The backward scan finds the last `/`

`scanBack p first n` (the loop `while i > first && p[i] != '/' { i -= 1 }` started at `n`) returns
the index of the last `/` in `p[first+1 ..= n]`, or `first` when there is none.  Consequences at
the level of texts: the path splits as `p.take k ++ '/' :: last` with `last` free of `/`, or its
body has no `/` at all.
-/

set_option linter.unusedSimpArgs false

namespace IrefVerif.Lemmas
open IrefVerif.Spec IrefVerif.Model

theorem scanBack_spec (p : Text) (first : Nat) : ∀ n, first ≤ n →
    let k := Path.scanBack p first n
    first ≤ k ∧ k ≤ n ∧ (k = first ∨ p.getD k 0 = cSlash) ∧ ∀ j, k < j → j ≤ n → p.getD j 0 ≠ cSlash := by
  intro n
  induction n with
  | zero =>
    intro h
    have : first = 0 := by omega
    subst this
    simp only [Path.scanBack]
    exact ⟨Nat.le_refl _, Nat.le_refl _, .inl trivial, fun j h1 h2 => by omega⟩
  | succ n ih =>
    intro h
    simp only [Path.scanBack]
    by_cases hc : (decide (n + 1 > first) && p.getD (n + 1) 0 != cSlash) = true
    · simp only [hc, if_true]
      simp only [Bool.and_eq_true, decide_eq_true_eq, bne_iff_ne, ne_eq] at hc
      obtain ⟨h1, h2, h3, h4⟩ := ih (by omega)
      refine ⟨h1, by omega, h3, ?_⟩
      intro j hj1 hj2
      by_cases hj : j = n + 1
      · subst hj; exact hc.2
      · exact h4 j hj1 (by omega)
    · have hc' : (decide (n + 1 > first) && p.getD (n + 1) 0 != cSlash) = false := by simpa using hc
      simp only [hc', Bool.false_eq_true, if_false]
      refine ⟨h, Nat.le_refl _, ?_, fun j h1 h2 => by omega⟩
      simp only [Bool.and_eq_false_iff, decide_eq_false_iff_not, bne_eq_false_iff_eq] at hc'
      rcases hc' with hc' | hc'
      · left; omega
      · right; exact hc'

theorem getD_of_mem_drop {p : Text} {k : Nat} {c : Nat} (h : c ∈ p.drop k) :
    ∃ j, k ≤ j ∧ j < p.length ∧ p.getD j 0 = c := by
  obtain ⟨i, hi, rfl⟩ := List.getElem_of_mem h
  simp only [List.length_drop] at hi
  refine ⟨k + i, by omega, by omega, ?_⟩
  simp [List.getD_eq_getElem?_getD, List.getElem?_eq_getElem (show k + i < p.length by omega)]

/-- the text after the found position has no `/` -/
theorem no_slash_after (p : Text) (first : Nat) (hne : p ≠ []) (hf : first ≤ p.length - 1) :
    cSlash ∉ p.drop (Path.scanBack p first (p.length - 1) + 1) := by
  intro hm
  obtain ⟨j, hj1, hj2, hj3⟩ := getD_of_mem_drop hm
  obtain ⟨_, _, _, h4⟩ := scanBack_spec p first (p.length - 1) hf
  exact h4 j (by omega) (by omega) hj3

/-- splitting at a `/` found at index `k` -/
theorem split_at_slash (p : Text) (k : Nat) (hk : k < p.length) (h : p.getD k 0 = cSlash) :
    p = p.take k ++ cSlash :: p.drop (k + 1) := by
  have h1 : p = p.take k ++ p.drop k := (List.take_append_drop k p).symm
  have h2 : p.drop k = p[k] :: p.drop (k + 1) := by
    rw [List.drop_eq_getElem_cons hk]
  have h3 : p[k] = cSlash := by
    have : p.getD k 0 = p[k] := by
      simp [List.getD_eq_getElem?_getD, List.getElem?_eq_getElem hk]
    rw [← this]; exact h
  rw [h2, h3] at h1
  exact h1

end IrefVerif.Lemmas
