import IrefVerif.Lemmas.ValidWF
import IrefVerif.Lemmas.Sub
import IrefVerif.Lemmas.Utf8Enc

/-!
# Moving a path between the five path productions

What the setters' disambiguation rules rely on: a relative path put behind `/` is a
`path-abempty`; a `path-abempty` put behind `/.` is a `path-absolute`; a rootless path put behind
`./` is a `path-noscheme`; a `path-abempty` that is non-empty and does not begin with `//` is a
`path-absolute`; a rootless path without `:` in its first segment is a `path-noscheme`.
Generic in the grammar, given `Grammar.OkPath` (proved for `uriG`, `iriG`, `iriGB`).
-/

set_option linter.unusedSimpArgs false

namespace IrefVerif.Lemmas
open IrefVerif IrefVerif.RE IrefVerif.Spec

structure Grammar.OkPath (G : Grammar) : Prop where
  segNz_seg : ∀ u, Matches G.segmentNz u → Matches G.segment u
  segNzNc_segNz : ∀ u, Matches G.segmentNzNc u → Matches G.segmentNz u
  seg_nil : Matches G.segment []
  segNz_of_seg : ∀ u, Matches G.segment u → u ≠ [] → Matches G.segmentNz u
  dot : Matches G.segmentNzNc [cDot]
  noColon : ∀ u, Matches G.segmentNz u → cColon ∉ u → Matches G.segmentNzNc u
  segNz_noSlash : ∀ u, Matches G.segmentNz u → cSlash ∉ u
  segNz_ne : ∀ u, Matches G.segmentNz u → u ≠ []
  seg_append : ∀ u v, Matches G.segment u → Matches G.segment v → Matches G.segment (u ++ v)

/-! ## generic regex facts -/

theorem star_nonempty {a : RE} {u : Text} (h : Matches (star a) u) (hne : u ≠ []) :
    Matches (seq a (star a)) u := by
  generalize hr : star a = r at h
  induction h with
  | eps => cases hr
  | cls _ => cases hr
  | seq _ _ => cases hr
  | altL _ => cases hr
  | altR _ => cases hr
  | starNil => exact absurd rfl hne
  | @starCons a' u1 u2 h1 h2 _ ih2 =>
    cases hr
    cases u1 with
    | nil => simpa using ih2 (by simpa using hne) rfl
    | cons c r => exact .seq h1 h2

theorem star_filter {a b : RE} {P : Text → Prop} (hP : ∀ u v, P (u ++ v) → P u ∧ P v)
    (hab : ∀ u, Matches a u → P u → Matches b u) {w : Text} (h : Matches (star a) w) (hw : P w) :
    Matches (star b) w := by
  generalize hr : star a = r at h
  induction h with
  | eps => cases hr
  | cls _ => cases hr
  | seq _ _ => cases hr
  | altL _ => cases hr
  | altR _ => cases hr
  | starNil => exact .starNil
  | starCons h1 _ _ ih2 =>
    cases hr
    obtain ⟨p1, p2⟩ := hP _ _ hw
    exact .starCons (hab _ h1 p1) (ih2 p2 rfl)

theorem plus_filter {a b : RE} {P : Text → Prop} (hP : ∀ u v, P (u ++ v) → P u ∧ P v)
    (hab : ∀ u, Matches a u → P u → Matches b u) {w : Text} (h : Matches (plus a) w) (hw : P w) :
    Matches (plus b) w := by
  obtain ⟨u, v, rfl, hu, hv⟩ := matches_seq.mp h
  obtain ⟨p1, p2⟩ := hP _ _ hw
  exact .seq (hab _ hu p1) (star_filter hP hab hv p2)

theorem noColon_split (u v : Text) (h : cColon ∉ u ++ v) : cColon ∉ u ∧ cColon ∉ v :=
  ⟨fun hu => h (List.mem_append_left _ hu), fun hv => h (List.mem_append_right _ hv)⟩

/-- dropping the `":"` alternative of `pchar` -/
theorem pchar_noColon {A B C : RE} {u : Text}
    (h : Matches (alts [A, B, C, ch 0x3A, ch 0x40]) u) (hc : cColon ∉ u) :
    Matches (alts [A, B, C, ch 0x40]) u := by
  simp only [alts, matches_alt] at h ⊢
  rcases h with h | h | h | h | h
  · exact .inl h
  · exact .inr (.inl h)
  · exact .inr (.inr (.inl h))
  · have := matches_ch.mp h
    subst this
    exact absurd (by simp [cColon]) hc
  · exact .inr (.inr (.inr h))

theorem fsc_of_colon (a b : Text) (hc : cColon ∈ a) (hns : cSlash ∉ a) : fsc (a ++ b) = true := by
  induction a with
  | nil => cases hc
  | cons x a ih =>
    simp only [List.cons_append, fsc]
    by_cases hx : (x == cColon) = true
    · simp [hx]
    · have hx' : (x == cColon) = false := by simpa using hx
      have hxs : (x == cSlash) = false := by
        have : x ≠ cSlash := fun e => hns (e ▸ List.mem_cons_self)
        simpa using this
      simp only [hx', Bool.false_eq_true, if_false, hxs]
      apply ih
      · rcases List.mem_cons.mp hc with e | hc
        · subst e; simp at hx'
        · exact hc
      · exact fun hm => hns (List.mem_cons_of_mem _ hm)

/-! ## the path productions -/

section
variable (G : Grammar) (okp : Grammar.OkPath G)
include okp

/-- one more `"/" segment` in front -/
theorem abempty_cons_seg {u v : Text} (hu : Matches G.segment u) (hv : Matches G.pathAbempty v) :
    Matches G.pathAbempty (cSlash :: u ++ v) := by
  have h1 : Matches (seq (ch 0x2F) G.segment) ([cSlash] ++ u) := .seq (matches_ch.mpr rfl) hu
  have := Matches.starCons h1 hv
  simpa [Grammar.pathAbempty] using this

theorem abempty_of_absolute {p : Text} (h : Matches G.pathAbsolute p) : Matches G.pathAbempty p := by
  obtain ⟨u, v, rfl, hu, hv⟩ := matches_seq.mp h
  have hu' := matches_ch.mp hu
  subst hu'
  rcases matches_opt.mp hv with rfl | hv
  · have := abempty_cons_seg G okp okp.seg_nil (Matches.starNil (a := seq (ch 0x2F) G.segment))
    simpa [cSlash] using this
  · obtain ⟨a, b, rfl, ha, hb⟩ := matches_seq.mp hv
    have := abempty_cons_seg G okp (okp.segNz_seg a ha) hb
    simpa [cSlash] using this

/-- a rootless (or noscheme) path behind `/` -/
theorem abempty_slash_rootless {p : Text} (h : Matches G.pathRootless p) :
    Matches G.pathAbempty (cSlash :: p) := by
  obtain ⟨a, b, rfl, ha, hb⟩ := matches_seq.mp h
  have := abempty_cons_seg G okp (okp.segNz_seg a ha) hb
  simpa using this

theorem rootless_of_noscheme {p : Text} (h : Matches G.pathNoscheme p) : Matches G.pathRootless p := by
  obtain ⟨a, b, rfl, ha, hb⟩ := matches_seq.mp h
  exact .seq (okp.segNzNc_segNz a ha) hb

/-- a `path-abempty` behind `/.` is a `path-absolute` -/
theorem absolute_dot_abempty {p : Text} (h : Matches G.pathAbempty p) :
    Matches G.pathAbsolute ([cSlash, cDot] ++ p) := by
  have hdot : Matches G.segmentNz [cDot] := okp.segNzNc_segNz _ okp.dot
  have h2 : Matches (opt (seq G.segmentNz G.pathAbempty)) ([cDot] ++ p) :=
    matches_opt.mpr (.inr (.seq hdot h))
  have := Matches.seq (a := ch 0x2F) (matches_ch.mpr rfl) h2
  simpa [Grammar.pathAbsolute, cSlash] using this

/-- a non-empty `path-abempty` that does not begin with `//` is a `path-absolute` -/
theorem absolute_of_abempty {p : Text} (h : Matches G.pathAbempty p) (hne : p ≠ [])
    (hss : startsSS p = false) : Matches G.pathAbsolute p := by
  cases p with
  | nil => exact absurd rfl hne
  | cons c w =>
    obtain ⟨u, v, rfl, h1, hv⟩ := matches_star_cons.mp h
    obtain ⟨a, b, hab, ha, hb⟩ := matches_seq.mp h1
    have ha' := matches_ch.mp ha
    subst ha'
    simp only [List.singleton_append, List.cons.injEq] at hab
    obtain ⟨rfl, rfl⟩ := hab
    -- `u` is the first segment
    cases u with
    | nil =>
      -- then the rest is empty (otherwise the path would begin with `//`)
      rcases abempty_head G hv with rfl | ⟨r, rfl⟩
      · have : Matches (opt (seq G.segmentNz G.pathAbempty)) [] := matches_opt.mpr (.inl rfl)
        have := Matches.seq (a := ch 0x2F) (matches_ch.mpr rfl) this
        simpa [Grammar.pathAbsolute] using this
      · simp [startsSS, cSlash] at hss
    | cons d u =>
      have hnz := okp.segNz_of_seg _ hb (by simp)
      have h2 : Matches (opt (seq G.segmentNz G.pathAbempty)) ((d :: u) ++ v) :=
        matches_opt.mpr (.inr (.seq hnz hv))
      have := Matches.seq (a := ch 0x2F) (matches_ch.mpr rfl) h2
      simpa [Grammar.pathAbsolute] using this

/-- a rootless path behind `./` is a `path-noscheme` -/
theorem noscheme_dot_slash {p : Text} (h : Matches G.pathRootless p) :
    Matches G.pathNoscheme ([cDot, cSlash] ++ p) := by
  have := Matches.seq okp.dot (abempty_slash_rootless G okp h)
  simpa [Grammar.pathNoscheme] using this

/-- the first segment of a rootless path, and `fsc` -/
theorem noscheme_of_rootless {p : Text} (h : Matches G.pathRootless p) (hf : fsc p = false) :
    Matches G.pathNoscheme p := by
  obtain ⟨a, b, rfl, ha, hb⟩ := matches_seq.mp h
  refine .seq (okp.noColon a ha ?_) hb
  -- `fsc (a ++ b) = false` with `a` free of `/` and `b` empty or starting with `/`
  intro hc
  rw [fsc_of_colon a b hc (okp.segNz_noSlash a ha)] at hf
  cases hf

end

/-! ## the three grammars have the shape the lemmas need -/

theorem okPath_of_shape (G : Grammar) (ok : Grammar.Ok G) (A B C : RE)
    (hseg : G.segment = star (alts [A, B, C, ch 0x3A, ch 0x40]))
    (hnz : G.segmentNz = plus (alts [A, B, C, ch 0x3A, ch 0x40]))
    (hnc : G.segmentNzNc = plus (alts [A, B, C, ch 0x40]))
    (hdot : Matches (alts [A, B, C, ch 0x40]) [cDot]) : Grammar.OkPath G where
  segNz_seg u h := by
    rw [hnz] at h; rw [hseg]
    obtain ⟨a, b, rfl, ha, hb⟩ := matches_seq.mp h
    exact .starCons ha hb
  segNzNc_segNz u h := by
    rw [hnc] at h; rw [hnz]
    have hmono : ∀ w, Matches (alts [A, B, C, ch 0x40]) w → Matches (alts [A, B, C, ch 0x3A, ch 0x40]) w := by
      intro w hw
      simp only [alts, matches_alt] at hw ⊢
      rcases hw with hw | hw | hw | hw
      · exact .inl hw
      · exact .inr (.inl hw)
      · exact .inr (.inr (.inl hw))
      · exact .inr (.inr (.inr (.inr hw)))
    exact plus_filter (P := fun _ => True) (fun _ _ _ => ⟨trivial, trivial⟩) (fun w hw _ => hmono w hw) h trivial
  seg_nil := by rw [hseg]; exact .starNil
  segNz_of_seg u h hne := by
    rw [hseg] at h; rw [hnz]
    exact star_nonempty h hne
  dot := by
    rw [hnc]
    have := Matches.seq hdot (Matches.starNil (a := alts [A, B, C, ch 0x40]))
    simpa [plus] using this
  noColon u h hc := by
    rw [hnz] at h; rw [hnc]
    exact plus_filter (P := fun w => cColon ∉ w) noColon_split (fun w hw hcw => pchar_noColon hw hcw) h hc
  segNz_noSlash u h hs := by
    have := matches_excl ok.segNz h _ hs
    exact this (by simp [cSlash])
  segNz_ne u h hne := by
    subst hne
    have := matches_nil_iff.mp h
    rw [ok.segNz_ne] at this; cases this
  seg_append u v hu hv := by
    rw [hseg] at hu hv ⊢
    exact star_append hu hv

theorem uriG_okPath : Grammar.OkPath uriG :=
  okPath_of_shape uriG uriG_ok Rfc3986.unreserved Rfc3986.pctEncoded Rfc3986.subDelims rfl rfl rfl
    (matchesB_iff.mp (by decide))

theorem iriG_okPath : Grammar.OkPath iriG :=
  okPath_of_shape iriG iriG_ok Rfc3987.iunreserved Rfc3986.pctEncoded Rfc3986.subDelims rfl rfl rfl
    (matchesB_iff.mp (by decide))

theorem iriGB_okPath : Grammar.OkPath iriGB :=
  okPath_of_shape iriGB iriGB_ok (encRE Rfc3987.iunreserved) (encRE Rfc3986.pctEncoded) (encRE Rfc3986.subDelims)
    rfl rfl rfl (matchesB_iff.mp (by decide))

end IrefVerif.Lemmas
