import IrefVerif.Lemmas.ScanBack
import IrefVerif.Lemmas.PushList
import IrefVerif.Lemmas.SegIter
import IrefVerif.Oracle

/-!
# `pop` removes exactly the last segment (list semantics of `popView`), and `last`

The three shapes of a non-empty path seen from the back (`pop_cases`), the last segment as the
model computes it (`last_eq_getLast`), and: the view after `pop` realises
`Oracle`'s `listPop` of the segment list — `e ++ [".."]` on an empty relative path or after a
`..`, `e.dropLast` otherwise — literally or behind one legitimate shield.
-/

set_option linter.unusedSimpArgs false

namespace IrefVerif.Lemmas
open IrefVerif.Spec IrefVerif.Model

def fsoOf (v : Text) : Nat := if isAbs v then 1 else 0

theorem fso_le (v : Text) (hne : Path.is_empty v = false) : fsoOf v ≤ v.length - 1 := by
  unfold fsoOf
  cases v with
  | nil => simp [Path.is_empty] at hne
  | cons c r =>
    cases r with
    | nil =>
      by_cases hc : (c == cSlash) = true
      · have : c = cSlash := by simpa using hc
        subst this; simp [Path.is_empty] at hne
      · have hc' : (c == cSlash) = false := by simpa using hc
        simp [isAbs, hc']
    | cons d r' => split <;> simp

theorem stripRoot_take_ne (v : Text) (k : Nat) (hk : fsoOf v < k) (hkl : k ≤ v.length) :
    stripRoot (v.take k) ≠ [] := by
  unfold fsoOf at hk
  cases v with
  | nil => simp at hkl; omega
  | cons c r =>
    cases k with
    | zero => omega
    | succ k' =>
      simp only [List.take_succ_cons, stripRoot]
      by_cases hc : (c == cSlash) = true
      · have : c = cSlash := by simpa using hc
        subst this
        simp only [isAbs, beq_self_eq_true, if_true] at hk ⊢
        have hl : (r.take k').length = k' := by
          simp only [List.length_cons] at hkl
          simp; omega
        intro he
        rw [he] at hl
        simp at hl; omega
      · have hc' : (c == cSlash) = false := by simpa using hc
        simp [hc']

theorem pop_cases (v : Text) (hne : Path.is_empty v = false) :
    let k := Path.scanBack v (fsoOf v) (v.length - 1)
    let s := v.drop (k + 1)
    (fsoOf v < k ∧ v = v.take k ++ cSlash :: s ∧ cSlash ∉ s ∧ stripRoot (v.take k) ≠ []) ∨
    (k = fsoOf v ∧ isAbs v = true ∧ v = [cSlash] ++ cSlash :: s ∧ cSlash ∉ s) ∨
    (k = fsoOf v ∧ v.getD (fsoOf v) 0 ≠ cSlash ∧ cSlash ∉ v.drop (fsoOf v)) := by
  intro k s
  have hfl := fso_le v hne
  have hvne : v ≠ [] := by intro e; subst e; simp [Path.is_empty] at hne
  have hlen : 0 < v.length := by
    cases v with
    | nil => exact absurd rfl hvne
    | cons c r => simp
  obtain ⟨h1, h2, h3, h4⟩ := scanBack_spec v (fsoOf v) (v.length - 1) hfl
  have hns : cSlash ∉ s := no_slash_after v (fsoOf v) hvne hfl
  by_cases hsl : v.getD k 0 = cSlash
  · have hkl : k < v.length := by show Path.scanBack v (fsoOf v) (v.length - 1) < v.length; omega
    have hsplit := split_at_slash v k hkl hsl
    by_cases hk : fsoOf v < k
    · left
      refine ⟨hk, hsplit, hns, ?_⟩
      exact stripRoot_take_ne v k hk (by omega)
    · right; left
      have hkeq : k = fsoOf v := by show Path.scanBack v (fsoOf v) (v.length - 1) = fsoOf v; omega
      -- the `/` found at `fso` can only be there in an absolute path
      have habs : isAbs v = true := by
        unfold fsoOf at hkeq
        by_cases ha : isAbs v = true
        · exact ha
        · have ha' : isAbs v = false := by simpa using ha
          simp only [ha', Bool.false_eq_true, if_false] at hkeq
          rw [hkeq] at hsl
          cases hv : v with
          | nil => exact absurd hv hvne
          | cons c r =>
            rw [hv] at hsl ha'
            simp only [List.getD_eq_getElem?_getD, List.getElem?_cons_zero, Option.getD_some] at hsl
            subst hsl
            simp [isAbs] at ha'
      refine ⟨hkeq, habs, ?_, hns⟩
      have h1' : k = 1 := by rw [hkeq]; simp [fsoOf, habs]
      have htk : v.take k = [cSlash] := by
        cases hv : v with
        | nil => exact absurd hv hvne
        | cons c r =>
          rw [hv] at habs
          have : c = cSlash := by simpa [isAbs] using habs
          subst this
          rw [h1']; simp
      rw [htk] at hsplit
      exact hsplit
  · right; right
    have hkeq : k = fsoOf v := by
      rcases h3 with h | h
      · exact h
      · exact absurd h hsl
    refine ⟨hkeq, by rw [← hkeq]; exact hsl, ?_⟩
    intro hm
    have hd : v.drop (fsoOf v) = v.getD (fsoOf v) 0 :: v.drop (fsoOf v + 1) := by
      have hlt : fsoOf v < v.length := by omega
      rw [List.drop_eq_getElem_cons hlt]
      simp [List.getD_eq_getElem?_getD, List.getElem?_eq_getElem hlt]
    rw [hd] at hm
    rcases List.mem_cons.mp hm with e | e
    · rw [← hkeq] at e; exact hsl e.symm
    · rw [← hkeq] at e; exact hns e

/-! ## the segment list seen from the back -/

theorem splitSlash_slash_noslash (s : Text) (hs : cSlash ∉ s) : splitSlash (cSlash :: s) = [[], s] := by
  simp [splitSlash, splitSlash_noslash s hs]

/-- the segment list in the three shapes -/
theorem segs_cases (v : Text) (hne : Path.is_empty v = false) :
    let k := Path.scanBack v (fsoOf v) (v.length - 1)
    let s := v.drop (k + 1)
    (fsoOf v < k ∧ segs v = segs (v.take k) ++ [s] ∧ isAbs (v.take k) = isAbs v) ∨
    (k = fsoOf v ∧ isAbs v = true ∧ v.take k = [cSlash] ∧ v.getD k 0 = cSlash ∧ segs v = [[], s]) ∨
    (k = fsoOf v ∧ v.getD k 0 ≠ cSlash ∧ segs v = [v.drop (fsoOf v)] ∧ v.take k = (if isAbs v then [cSlash] else [])) := by
  intro k s
  rcases pop_cases v hne with ⟨h1, h2, h3, h4⟩ | ⟨h1, h2, h3, h4⟩ | ⟨h1, h2, h3⟩
  · left
    refine ⟨h1, ?_, ?_⟩
    · have := (segs_push (v.take k) s h4 h3).1
      rw [← h2] at this
      exact this
    · have := (segs_push (v.take k) s h4 h3).2
      rw [← h2] at this
      exact this.symm
  · right; left
    have hk1 : k = 1 := by
      have hk : k = fsoOf v := h1
      rw [hk]; simp [fsoOf, h2]
    have htk : v.take k = [cSlash] := by
      rw [h3, hk1]; simp
    have hg : v.getD k 0 = cSlash := by
      rw [h3, hk1]; simp
    refine ⟨h1, h2, htk, hg, ?_⟩
    rw [h3]
    simp only [segs, stripRoot, List.cons_append, List.nil_append, beq_self_eq_true, if_true]
    exact splitSlash_slash_noslash s h4
  · right; right
    have hk : k = fsoOf v := h1
    refine ⟨h1, by rw [hk]; exact h2, ?_, ?_⟩
    · -- the body has no `/`
      have hbody : stripRoot v = v.drop (fsoOf v) := by
        unfold fsoOf
        cases v with
        | nil => rfl
        | cons c r =>
          by_cases hc : (c == cSlash) = true
          · simp [stripRoot, isAbs, hc]
          · have hc' : (c == cSlash) = false := by simpa using hc
            simp [stripRoot, isAbs, hc']
      have hbne : v.drop (fsoOf v) ≠ [] := by
        have := fso_le v hne
        intro he
        have hl := congrArg List.length he
        simp at hl
        have hvne : v ≠ [] := by intro e; subst e; simp [Path.is_empty] at hne
        have : 0 < v.length := by
          cases v with
          | nil => exact absurd rfl hvne
          | cons c r => simp
        omega
      unfold segs
      rw [hbody]
      cases hb : v.drop (fsoOf v) with
      | nil => exact absurd hb hbne
      | cons c r =>
        simp only
        rw [hb] at h3
        exact splitSlash_noslash _ h3
    · rw [hk]
      unfold fsoOf
      cases v with
      | nil => simp [isAbs]
      | cons c r =>
        by_cases hc : (c == cSlash) = true
        · have : c = cSlash := by simpa using hc
          subst this; simp [isAbs]
        · have hc' : (c == cSlash) = false := by simpa using hc
          simp [isAbs, hc']

/-! ## `pop` on a non-empty path whose last segment is not `..` -/

/-- the text `pop` leaves in that case -/
def popBody (v : Text) : Text :=
  let k := Path.scanBack v (fsoOf v) (v.length - 1)
  if k == fsoOf v && v.getD k 0 == cSlash then v.take k ++ [cDot, cSlash] else v.take k

theorem popView_eq_popBody (anch fa atStart : Bool) (v : Text)
    (h1 : ((Path.is_empty v && Path.is_relative v && !anch) || Path.last v == some [cDot, cDot]) = false)
    (hne : Path.is_empty v = false) : popView anch fa atStart v = popBody v := by
  unfold popView popBody fsoOf
  rw [h1]
  simp only [Bool.false_eq_true, if_false, hne, Bool.not_false, if_true]

/-- **`pop` removes exactly the last segment** (the kept empty first segment goes behind `/./`) -/
theorem popBody_realises (v : Text) (hne : Path.is_empty v = false) :
    realises (popBody v) (segs v).dropLast = true ∧ isAbs (popBody v) = isAbs v := by
  unfold popBody
  rcases segs_cases v hne with ⟨h1, h2, h3⟩ | ⟨h1, h2, h3, h4, h5⟩ | ⟨h1, h2, h3, h4⟩
  · have hk : (Path.scanBack v (fsoOf v) (v.length - 1) == fsoOf v) = false := by
      have : Path.scanBack v (fsoOf v) (v.length - 1) ≠ fsoOf v := by omega
      simpa using this
    simp only [hk, Bool.false_and, Bool.false_eq_true, if_false]
    refine ⟨?_, h3⟩
    rw [h2]
    simp [realises]
  · simp only [h1, beq_self_eq_true, Bool.true_and]
    rw [h1] at h3 h4
    simp only [h4, beq_self_eq_true, if_true, h3, h5]
    refine ⟨?_, ?_⟩
    · simp only [List.dropLast]
      decide
    · rw [h2]; rfl
  · simp only [h1, beq_self_eq_true, Bool.true_and]
    rw [h1] at h2 h4
    have hg : (v.getD (fsoOf v) 0 == cSlash) = false := by simpa using h2
    simp only [hg, Bool.false_eq_true, if_false, h4, h3]
    by_cases ha : isAbs v = true
    · simp only [ha, if_true]
      refine ⟨?_, rfl⟩
      simp only [List.dropLast]
      decide
    · have ha' : isAbs v = false := by simpa using ha
      simp only [ha', Bool.false_eq_true, if_false]
      refine ⟨?_, rfl⟩
      simp only [List.dropLast]
      decide

/-! ## the last segment, as the model computes it -/

theorem spanLen_all {q : Nat → Bool} {l : Text} (h : ∀ c ∈ l, q c = true) : Parse.spanLen q l = l.length := by
  induction l with
  | nil => rfl
  | cons c l ih =>
    simp only [Parse.spanLen, h c List.mem_cons_self, if_true, List.length_cons]
    rw [ih (fun x hx => h x (List.mem_cons_of_mem _ hx))]

/-- a slash-free tail of a path text is one whole segment -/
theorem segment_at_tail (p : Text) (hp : PathText p) (j : Nat) (hj : j ≤ p.length) (hns : cSlash ∉ p.drop j) :
    Parse.slice p (Path.segment_at p j).1 = p.drop j := by
  unfold Path.segment_at
  have hall : ∀ c ∈ p.drop j, (fun c => !(c == cSlash || c == cQuest || c == cHash)) c = true := by
    intro c hc
    have hm : c ∈ p := List.mem_of_mem_drop hc
    have := hp c hm
    have hcs : c ≠ cSlash := fun e => hns (e ▸ hc)
    simp [hcs, this.1, this.2]
  rw [spanLen_all hall]
  simp only [Parse.slice, List.length_drop]
  have : j + (p.length - j) = p.length := by omega
  rw [this, List.take_length]

/-- **`last()` is the last element of the segment list** -/
theorem last_eq_getLast (v : Text) (hp : PathText v) : Path.last v = (segs v).getLast? := by
  unfold Path.last
  by_cases hne : Path.is_empty v = true
  · simp only [hne, if_true]
    rcases is_empty_cases hne with e | e <;> subst e
    · rfl
    · simp [segs, stripRoot]
  · have hne' : Path.is_empty v = false := by simpa using hne
    simp only [hne', Bool.false_eq_true, if_false]
    have hvne : v ≠ [] := by intro e; subst e; simp [Path.is_empty] at hne'
    have hlen : 0 < v.length := by
      cases v with
      | nil => exact absurd rfl hvne
      | cons c r => simp
    unfold Path.previous_segment_from
    have h2 : v.length + 1 ≥ 2 := by omega
    have hfo : Path.first_segment_offset v = fsoOf v := by
      unfold Path.first_segment_offset fsoOf
      rw [is_absolute_eq']
    simp only [h2, if_true, hfo, Nat.add_sub_cancel]
    have hoff : v.length + 1 - 2 = v.length - 1 := by omega
    rw [hoff]
    have hfl := fso_le v hne'
    have hns := no_slash_after v (fsoOf v) hvne hfl
    obtain ⟨_, hk2, _, _⟩ := scanBack_spec v (fsoOf v) (v.length - 1) hfl
    rcases segs_cases v hne' with ⟨h1, h2', _⟩ | ⟨h1, _, _, h4, h5⟩ | ⟨h1, h2', h3, _⟩
    · -- a `/` strictly after the first segment's start
      have hsl : v.getD (Path.scanBack v (fsoOf v) (v.length - 1)) 0 = cSlash := by
        rcases pop_cases v hne' with ⟨_, hsplit, _, _⟩ | ⟨e, _, _, _⟩ | ⟨e, _, _⟩
        · have hkl : Path.scanBack v (fsoOf v) (v.length - 1) < v.length := by omega
          obtain ⟨_, _, h3, _⟩ := scanBack_spec v (fsoOf v) (v.length - 1) hfl
          rcases h3 with h | h
          · omega
          · exact h
        · omega
        · omega
      simp only [hsl, beq_self_eq_true, if_true, Option.map_some]
      rw [segment_at_tail v hp _ (by omega) hns, h2']
      simp
    · simp only [h4, beq_self_eq_true, if_true, Option.map_some]
      rw [segment_at_tail v hp _ (by omega) hns, h5]
      simp
    · have hg : (v.getD (Path.scanBack v (fsoOf v) (v.length - 1)) 0 == cSlash) = false := by simpa using h2'
      simp only [hg, Bool.false_eq_true, if_false, Option.map_some]
      have hnb : cSlash ∉ v.drop (fsoOf v) := by
        rcases pop_cases v hne' with ⟨hlt, _, _, _⟩ | ⟨_, _, hsplit, _⟩ | ⟨_, _, h⟩
        · omega
        · -- excluded: here `v[k] = '/'`
          rename_i habs _
          exfalso
          have hv1 : v.getD 1 0 = cSlash := by
            have := congrArg (fun l => l.getD 1 0) hsplit
            simpa using this
          have hf1 : fsoOf v = 1 := by simp [fsoOf, habs]
          rw [h1, hf1] at h2'
          exact h2' hv1
        · exact h
      rw [segment_at_tail v hp _ (by omega) hnb, h3]
      simp

/-! ## `pop`, all cases -/

theorem alist_getLast (v : Text) : (alist v).getLast? = (segs v).getLast? ∧ (alist v).isEmpty = (segs v).isEmpty := by
  unfold alist
  cases hs : segs v with
  | nil => exact ⟨rfl, rfl⟩
  | cons d e =>
    simp only
    split
    · rename_i hc
      simp only [Bool.and_eq_true, decide_eq_true_eq] at hc
      cases e with
      | nil => simp [needsShieldHead] at hc
      | cons x e' => simp
    · exact ⟨rfl, rfl⟩

/-- **`pop` has the list semantics of `Oracle.listPop`**, in every context -/
theorem popView_realises (anch fa atStart : Bool) (v : Text) (hp : PathText v) :
    realises (popView anch fa atStart v) (Oracle.listPop (isAbs v || anch) (segs v)) = true ∨
    realises (popView anch fa atStart v) (Oracle.listPop (isAbs v || anch) (alist v)) = true := by
  have hlast := last_eq_getLast v hp
  have hemp : (segs v).isEmpty = Path.is_empty v := by
    by_cases hne : Path.is_empty v = true
    · rcases is_empty_cases hne with e | e <;> subst e
      · rfl
      · simp [segs, stripRoot, Path.is_empty]
    · have hne' : Path.is_empty v = false := by simpa using hne
      rw [hne']
      rcases segs_cases v hne' with ⟨_, h, _⟩ | ⟨_, _, _, _, h⟩ | ⟨_, _, h, _⟩ <;> rw [h] <;> simp
  -- the two guards coincide
  have hcond : ((Path.is_empty v && Path.is_relative v && !anch) || Path.last v == some [cDot, cDot]) =
      (((segs v).isEmpty && !(isAbs v || anch)) || (segs v).getLast? == some segDotDot) := by
    rw [hlast, hemp]
    have : Path.is_relative v = !isAbs v := by unfold Path.is_relative; rw [is_absolute_eq']
    rw [this]
    cases Path.is_empty v <;> cases isAbs v <;> cases anch <;> rfl
  by_cases hc : ((Path.is_empty v && Path.is_relative v && !anch) || Path.last v == some [cDot, cDot]) = true
  · -- `..` is appended
    have hpv : popView anch fa atStart v = pushView anch fa atStart v [cDot, cDot] := by
      unfold popView; simp only [hc, if_true]
    rw [hpv]
    have hl1 : Oracle.listPop (isAbs v || anch) (segs v) = segs v ++ [segDotDot] := by
      unfold Oracle.listPop; rw [← hcond, hc]; rfl
    have hl2 : Oracle.listPop (isAbs v || anch) (alist v) = alist v ++ [segDotDot] := by
      unfold Oracle.listPop
      rw [(alist_getLast v).1, (alist_getLast v).2, ← hcond, hc]; rfl
    rw [hl1, hl2]
    exact pushView_realises anch fa atStart v [cDot, cDot] (by decide)
  · have hc' : ((Path.is_empty v && Path.is_relative v && !anch) || Path.last v == some [cDot, cDot]) = false := by
      simpa using hc
    left
    have hl1 : Oracle.listPop (isAbs v || anch) (segs v) = (segs v).dropLast := by
      unfold Oracle.listPop; rw [← hcond, hc']; rfl
    rw [hl1]
    by_cases hne : Path.is_empty v = true
    · have hpv : popView anch fa atStart v = v := by
        unfold popView
        rw [hc']
        simp only [Bool.false_eq_true, if_false, hne, Bool.not_true]
      rw [hpv]
      rcases is_empty_cases hne with e | e <;> subst e <;> decide
    · have hne' : Path.is_empty v = false := by simpa using hne
      rw [popView_eq_popBody anch fa atStart v hc' hne']
      exact (popBody_realises v hne').1

end IrefVerif.Lemmas
