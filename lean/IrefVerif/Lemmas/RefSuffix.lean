import IrefVerif.Lemmas.SuffixModel
import IrefVerif.Lemmas.ResolveEmpty

/-!
# The model of `RiRefImpl::suffix` is the specification

For valid references `a` and `prefix`: the model never panics; a suffix exists exactly when the
schemes are identical, the authorities are both absent or equal after percent-decoding of user
info and host (`authKey`), and `Oracle.pathSuffixSpec` gives a remaining segment list; it is then
that list pushed onto an empty path, with `a`'s own query and fragment.
-/

set_option linter.unusedSimpArgs false

namespace IrefVerif.Lemmas
open IrefVerif IrefVerif.RE IrefVerif.Spec IrefVerif.Model IrefVerif.Model.Cmp IrefVerif.Oracle

theorem ref_fragment_recompose (P : Spec.Parts) (wf : WF P) : Ref.fragment (recompose P) = P.fragment := by
  unfold Ref.fragment
  have h := find_fragment_recompose P wf
  have hm := congrArg Spec.Parts.fragment (modelRefParts_recompose P wf)
  simp only [modelRefParts] at hm
  have hr : (Parse.find_fragment (recompose P) 0).toOption = (Parse.reference_parts (recompose P) 0).fragment := by
    rw [h, reference_parts_recompose P wf]
  rw [hr]
  simpa [Parse.sliceO] using hm

theorem ref_scheme_opt_recompose (P : Spec.Parts) (wf : WF P) : Ref.scheme_opt (recompose P) = P.scheme := by
  unfold Ref.scheme_opt
  rw [find_scheme_eq]
  have hm := congrArg Spec.Parts.scheme (modelRefParts_recompose P wf)
  simpa [modelRefParts, Parse.sliceO] using hm

/-- the specification of `suffix` on references -/
def refSuffixSpec (a p : Text) : Option (Text × Option Text × Option Text) :=
  let A := split a
  let P := split p
  if A.scheme = P.scheme ∧ A.authority.map authKey = P.authority.map authKey then
    (pathSuffixSpec A.path P.path).map fun l => (pushAllText [] l, A.query, A.fragment)
  else none

theorem ref_suffix_spec (G : Grammar) (ok : Grammar.Ok G) (oka : Grammar.OkAuth G) (we : Grammar.OkWE G)
    (a p : Text) (ha : Matches G.reference a) (hp : Matches G.reference p) :
    Ref.suffix a p = some (refSuffixSpec a p) := by
  obtain ⟨vA, wA⟩ := split_valid G ok a ha
  obtain ⟨vP, wP⟩ := split_valid G ok p hp
  have sa := ref_scheme_opt_recompose (split a) wA
  have sp := ref_scheme_opt_recompose (split p) wP
  have aa := ref_authority_recompose (split a) wA
  have ap := ref_authority_recompose (split p) wP
  have pa := ref_path_recompose (split a) wA
  have pp := ref_path_recompose (split p) wP
  have qa := ref_query_recompose (split a) wA
  have fa := ref_fragment_recompose (split a) wA
  rw [Lemmas.recompose_split] at sa sp aa ap pa pp qa fa
  unfold Ref.suffix refSuffixSpec
  simp only [sa, sp, aa, ap, pa, pp, qa, fa]
  by_cases hs : (split a).scheme = (split p).scheme
  · have hsb : ((split a).scheme == (split p).scheme) = true := by simpa using hs
    simp only [hsb, Bool.not_true, Bool.false_eq_true, if_false, hs, true_and]
    have hpath := pathSuffix_spec (split a).path (split p).path (pathText_of_wf _ wA) (pathText_of_wf _ wP)
      (path_we G we _ vA) (path_we G we _ vP)
    cases haa : (split a).authority with
    | none =>
      cases hap : (split p).authority with
      | none =>
        simp only [Option.map_none, if_true, hpath]
        cases pathSuffixSpec (split a).path (split p).path <;> simp
      | some y => simp
    | some x =>
      cases hap : (split p).authority with
      | none => simp
      | some y =>
        simp only [Option.map_some, Option.some.injEq]
        rw [authorityEq_key G oka we x y (vA.authority x haa) (vP.authority y hap)]
        by_cases hk : authKey x = authKey y
        · simp only [hk, decide_true, if_true, hpath]
          cases pathSuffixSpec (split a).path (split p).path <;> simp
        · simp [hk]
  · have hsb : ((split a).scheme == (split p).scheme) = false := by simpa using hs
    simp [hsb, hs]

end IrefVerif.Lemmas
