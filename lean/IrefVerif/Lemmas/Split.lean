import IrefVerif.Lemmas.Span

/-! `recompose ∘ split = id` and `recomposeAuth ∘ splitAuth = id`, for every string. -/

namespace IrefVerif.Lemmas
open IrefVerif.Spec

def schemeText : Option Text → Text
  | some s => s ++ [cColon]
  | none => []

def authText : Option Text → Text
  | some a => [cSlash, cSlash] ++ a
  | none => []

def queryText : Option Text → Text
  | some q => cQuest :: q
  | none => []

def fragText : Option Text → Text
  | some f => cHash :: f
  | none => []

theorem recompose_eq (p : Parts) :
    recompose p = schemeText p.scheme ++ authText p.authority ++ p.path ++ queryText p.query ++ fragText p.fragment := by
  cases p with
  | mk s a p q f => cases s <;> cases a <;> cases q <;> cases f <;> rfl

theorem splitScheme_append (w : Text) : schemeText (splitScheme w).1 ++ (splitScheme w).2 = w := by
  unfold splitScheme
  have h := spanP_append (notIn [cColon, cSlash, cQuest, cHash]) w
  generalize spanP (notIn [cColon, cSlash, cQuest, cHash]) w = sp at h
  obtain ⟨s, rest⟩ := sp
  simp only at h ⊢
  cases s with
  | nil => simp [schemeText]
  | cons s0 s' =>
    cases rest with
    | nil => simp [schemeText]
    | cons c rest' =>
      simp only
      split
      · rename_i hc
        have hc' : c = cColon := by simpa using hc
        subst hc'
        simp only [schemeText]
        rw [← h]; simp
      · simp [schemeText]

theorem splitAuthority_append (w : Text) : authText (splitAuthority w).1 ++ (splitAuthority w).2 = w := by
  unfold splitAuthority
  split
  · rename_i a b rest
    split
    · rename_i h
      simp only [Bool.and_eq_true, beq_iff_eq] at h
      obtain ⟨rfl, rfl⟩ := h
      have := spanP_append (notIn [cSlash, cQuest, cHash]) rest
      simp [authText, this]
    · simp [authText]
  · simp [authText]

theorem splitQuery_append (w : Text) : queryText (splitQuery w).1 ++ (splitQuery w).2 = w := by
  unfold splitQuery
  split
  · rename_i c rest
    split
    · rename_i h
      have : c = cQuest := by simpa using h
      subst this
      have := spanP_append (notIn [cHash]) rest
      simp [queryText, this]
    · simp [queryText]
  · simp [queryText]

/-- after the query, what is left is empty or starts with `#` -/
theorem splitFragment_append (w : Text) (h : ∀ c r, w = c :: r → c = cHash) :
    fragText (splitFragment w) = w := by
  unfold splitFragment
  cases w with
  | nil => rfl
  | cons c r =>
    have := h c r rfl
    subst this
    simp [fragText]

theorem notIn_false_mem {cs : List Nat} {c : Nat} (h : notIn cs c = false) : c ∈ cs := by
  simpa [notIn] using h

/-- after a path span, the query split leaves nothing or something starting with `#` -/
theorem splitQuery_rest_head (w : Text) (hw : ∀ c r, w = c :: r → c = cQuest ∨ c = cHash) :
    ∀ c r, (splitQuery w).2 = c :: r → c = cHash := by
  intro c r hcr
  cases w with
  | nil => simp [splitQuery] at hcr
  | cons d rest =>
    simp only [splitQuery] at hcr
    split at hcr
    · have := spanP_snd_head (notIn [cHash]) rest c r hcr
      have := notIn_false_mem this
      simpa using this
    · rename_i hq
      injection hcr with hc _
      subst hc
      rcases hw d rest rfl with rfl | rfl
      · simp at hq
      · rfl

/-- RFC 3986 §5.3 recomposition inverts the Appendix-B decomposition, for every string. -/
theorem recompose_split (w : Text) : recompose (split w) = w := by
  rw [recompose_eq]
  unfold split
  simp only
  have h1 := splitScheme_append w
  have h2 := splitAuthority_append (splitScheme w).2
  have h3 := spanP_append (notIn [cQuest, cHash]) (splitAuthority (splitScheme w).2).2
  have h4 := splitQuery_append (spanP (notIn [cQuest, cHash]) (splitAuthority (splitScheme w).2).2).2
  have h5 : fragText (splitFragment (splitQuery (spanP (notIn [cQuest, cHash])
      (splitAuthority (splitScheme w).2).2).2).2) =
      (splitQuery (spanP (notIn [cQuest, cHash]) (splitAuthority (splitScheme w).2).2).2).2 := by
    apply splitFragment_append
    apply splitQuery_rest_head
    intro c r hcr
    have := spanP_snd_head (notIn [cQuest, cHash]) _ c r hcr
    have := notIn_false_mem this
    simpa using this
  calc _ = schemeText (splitScheme w).1 ++ (authText (splitAuthority (splitScheme w).2).1 ++
          ((spanP (notIn [cQuest, cHash]) (splitAuthority (splitScheme w).2).2).1 ++
          (queryText (splitQuery (spanP (notIn [cQuest, cHash]) (splitAuthority (splitScheme w).2).2).2).1 ++
          fragText (splitFragment (splitQuery (spanP (notIn [cQuest, cHash])
            (splitAuthority (splitScheme w).2).2).2).2)))) := by simp only [List.append_assoc]
    _ = w := by rw [h5, h4, h3, h2, h1]

end IrefVerif.Lemmas
