import IrefVerif.Lemmas.ResolveRel
import IrefVerif.Lemmas.GoodOps

/-!
# The relative-path branch of `resolve`, base without authority but with an absolute path

Same argument as `Lemmas/ResolveRel.lean` with `follows_authority = false`: the only difference
is the last `normalize`, which now shields a first empty segment (`/.//a`).  The RFC target has
no such shield — its path would begin with `//` and be read as an authority — so the equation is
stated where the target path does not begin with `//`.
-/

set_option linter.unusedSimpArgs false

namespace IrefVerif.Lemmas
open IrefVerif IrefVerif.Spec IrefVerif.Model IrefVerif.Oracle IrefVerif.Findings RE

/-- **§5.2.3 + §5.2.4 as a walk**, base without authority, absolute base path -/
theorem removeDots_merge_noauth (q R : Text) (hR : R ≠ [])
    (hsk : symSkipsGo true (nsegsOf true (segs (cSlash :: q)).dropLast) (splitSlash R) = false) :
    removeDots (merge false (cSlash :: q) R) =
      cSlash :: joinSlash (walk (nsegsOf true (segs (cSlash :: q)).dropLast) (splitSlash R) ++
        (if lastDot (splitSlash R) && !(walk (nsegsOf true (segs (cSlash :: q)).dropLast) (splitSlash R)).isEmpty
          then [[]] else [])) := by
  have hM := segs_merge_abs q R hR
  have hm : merge false (cSlash :: q) R = upToLastSlash (cSlash :: q) ++ R := by simp [merge]
  rw [hm]
  unfold removeDots normTarget render nsegs
  rw [dotEnd_of_segs _ _ _ hM.1 (splitSlash_ne_nil R), hM.2, hM.1, nsegsOf_append_walk _ _ hsk]
  simp only [if_true, List.singleton_append]

/-- the last two statements of the relative branch when the path follows no authority -/
def finalizeN (v : Text) : Text :=
  let v3 := normView false false v
  if v3 == [cSlash, cDot, cSlash] || v3 == [cDot, cSlash] then clearView v3 else v3

theorem finalizeN_ainv {v : Text} {E : List Text} (inv : AInv v E)
    (hE : ∀ first rest, E = first :: rest → first ≠ [] ∨ rest = []) : finalizeN v = cSlash :: joinSlash E := by
  unfold finalizeN normView
  have hrel : Path.is_relative v = false := by simp [Path.is_relative, is_absolute_eq, inv.abs]
  simp only [normalized_segments_eq v inv.pt, joinSegs_eq, ainv_nsegs inv, hrel, inv.abs, if_true,
    Bool.false_or, Bool.not_true, Bool.false_and, Bool.or_false, Bool.not_false, Bool.true_or, Bool.and_true]
  have hns := ainv_noSlash inv
  have hnd := inv.df.1
  cases E with
  | nil => simp [joinSlash, clearView, isAbs, cSlash, cDot]
  | cons first rest =>
    rcases hE first rest rfl with h | h
    · have hfe : first.isEmpty = false := by cases first <;> simp_all
      simp only [hfe, Bool.false_eq_true, if_false, List.nil_append]
      have hnds : ([cSlash] ++ joinSlash (first :: rest) == [cSlash, cDot, cSlash]) = false := by
        have := joinSlash_ne_dotSlash (first :: rest) hns hnd
        simp only [List.singleton_append, beq_eq_false_iff_ne, ne_eq, List.cons.injEq, true_and]
        exact this
      have hnds2 : ([cSlash] ++ joinSlash (first :: rest) == [cDot, cSlash]) = false := by
        simp [cSlash, cDot]
      simp only [List.singleton_append] at hnds hnds2
      simp only [hnds, hnds2, Bool.or_self, Bool.false_eq_true, if_false, List.singleton_append]
    · subst h
      by_cases hfe : first.isEmpty = true
      · have : first = [] := by simpa using hfe
        subst this
        simp [joinSlash, clearView, isAbs, cSlash, cDot]
      · have hfe' : first.isEmpty = false := by simpa using hfe
        simp only [hfe', Bool.false_eq_true, if_false, List.nil_append, joinSlash]
        have h1 : ([cSlash] ++ first == [cSlash, cDot, cSlash]) = false := by
          have := joinSlash_ne_dotSlash [first] hns hnd
          simp only [joinSlash] at this
          simp only [List.singleton_append, beq_eq_false_iff_ne, ne_eq, List.cons.injEq, true_and]
          exact this
        have h2 : ([cSlash] ++ first == [cDot, cSlash]) = false := by simp [cSlash, cDot]
        simp only [List.singleton_append] at h1 h2
        simp only [h1, h2, Bool.or_self, Bool.false_eq_true, if_false, List.singleton_append]

/-- the relative branch on views, no authority in front -/
theorem relative_view_noauth (v0 : Text) (e0 : List Text) (ss : List Text) (inv : AInv v0 e0)
    (hall : ∀ s ∈ ss, cSlash ∉ s ∧ PathText s) (hsk : symSkipsGo true e0 ss = false)
    (hX : ∀ first rest, walk e0 ss ++ (if lastDot ss && !(walk e0 ss).isEmpty then [[]] else []) = first :: rest →
      first ≠ [] ∨ rest = []) :
    finalizeN (symAppendView false false false v0 ss) =
      cSlash :: joinSlash (walk e0 ss ++ (if lastDot ss && !(walk e0 ss).isEmpty then [[]] else [])) := by
  obtain ⟨i1, f1⟩ := ainv_loop false false ss v0 false e0 inv hall hsk
  have ho : (symAppendGoView false false false v0 false ss).2 = lastDot ss := by
    rw [f1]
    split
    · rename_i h; subst h; rfl
    · rfl
  unfold symAppendView closeView
  rw [ho]
  generalize (symAppendGoView false false false v0 false ss).1 = v' at i1
  generalize walk e0 ss = E at i1 hX
  by_cases hc : (lastDot ss && !Path.is_empty v') = true
  · simp only [hc, if_true]
    have i2 := ainv_push false false v' [] E i1 (by simp) (by intro c hc; cases hc) (by decide) (by decide)
    simp only [Bool.and_eq_true] at hc
    rw [hc.1] at hX ⊢
    cases E with
    | nil =>
      rw [finalizeN_ainv i2 (by intro f r h; simp at h; exact .inr h.2)]
      simp [joinSlash]
    | cons a b =>
      simp only [Bool.true_and, List.isEmpty_cons, Bool.not_false, if_true] at hX ⊢
      exact finalizeN_ainv i2 hX
  · have hc' : (lastDot ss && !Path.is_empty v') = false := by simpa using hc
    simp only [hc', Bool.false_eq_true, if_false]
    by_cases ho' : lastDot ss = true
    · rw [ho'] at hc'
      have hem : Path.is_empty v' = true := by simpa using hc'
      obtain ⟨k, hk⟩ := i1.shape
      rw [is_empty_segs hem] at hk
      have he : E = [] := by
        have := congrArg List.length hk
        simp at this
        exact List.eq_nil_of_length_eq_zero (by omega)
      subst he
      rw [finalizeN_ainv i1 (by intro f r h; cases h)]
      simp
    · have hof : lastDot ss = false := by simpa using ho'
      rw [hof] at hX ⊢
      simp only [Bool.false_and, Bool.false_eq_true, if_false, List.append_nil] at hX ⊢
      exact finalizeN_ainv i1 hX

/-! ## the handle on `scheme:` ++ path -/

/-- a scheme, no authority, a path that does not begin with `//`, nothing else -/
def snp (sb p : Text) : Spec.Parts :=
  { scheme := some sb, authority := none, path := p, query := none, fragment := none }

theorem wf_snp (sb p : Text) (hs : sb ≠ [] ∧ ∀ c ∈ sb, nCSQH c = true) (hp : PathText p)
    (hss : startsSS p = false) : WF (snp sb p) :=
  { scheme := fun s h => by simp only [snp, Option.some.injEq] at h; subst h; exact hs
    authority := fun a ha => by simp [snp] at ha
    path := fun c hc => by
      have := hp c hc
      simp [nQH, this.1, this.2]
    query := fun q hq => by simp [snp] at hq
    abempty := fun h => by simp [snp] at h
    noSS := fun _ => hss
    noColon := fun h => by simp [snp] at h }

theorem handle_snp (sb p : Text) (hs : sb ≠ [] ∧ ∀ c ∈ sb, nCSQH c = true) (hp : PathText p)
    (hss : startsSS p = false) :
    PInv (Ref.path_mut (recompose (snp sb p))) (sb ++ [cColon]) p [] ∧
      (Ref.path_mut (recompose (snp sb p))).follows_authority = false ∧
      (Ref.path_mut (recompose (snp sb p))).anchored = false := by
  have wf := wf_snp sb p hs hp hss
  have i := path_handle_of_wf _ wf
  have f := follows_authority_recompose _ wf
  refine ⟨by simpa [snp, schemeText, authText, queryText, fragText] using i, by simpa [snp] using f, ?_⟩
  have : (Ref.path_mut (recompose (snp sb p))).anchored = (Ref.path_mut (recompose (snp sb p))).follows_authority := by
    simp [Ref.path_mut, PathMut.new]
  rw [this]; simpa [snp] using f

theorem buffer_snp {h : PathMut} {sb v : Text} (i : PInv h (sb ++ [cColon]) v []) :
    h.buffer = recompose (snp sb v) := by
  rw [i.data, recompose_eq]; simp [snp, schemeText, authText, queryText, fragText]

theorem pre_ne' (sb : Text) : ((sb ++ [cColon]).length == 0) = false := by simp

/-- the normalised path never begins with `//` when no authority precedes it -/
theorem normView_false_noSS (v : Text) (hp : PathText v) : startsSS (normView false false v) = false := by
  unfold normView
  simp only [normalized_segments_eq v hp, joinSegs_eq, Bool.not_false, Bool.true_or, Bool.or_true, Bool.and_true,
    Bool.and_false, Bool.or_false]
  have hns : ∀ s ∈ nsegs v, cSlash ∉ s := fun s hs => segs_no_slash _ s (nsegsOf_subset _ _ s hs)
  cases hN : nsegs v with
  | nil => split <;> rfl
  | cons first rest =>
    rw [hN] at hns
    have hfs := hns first List.mem_cons_self
    simp only []
    by_cases hfe : first.isEmpty = true
    · simp only [hfe, if_true]
      split <;> simp [startsSS, cDot, cSlash]
    · have hfe' : first.isEmpty = false := by simpa using hfe
      simp only [hfe', Bool.false_eq_true, if_false, List.nil_append]
      cases first with
      | nil => simp at hfe'
      | cons c r =>
        have hc : c ≠ cSlash := fun e => hfs (e ▸ List.mem_cons_self)
        split
        · cases rest with
          | nil => simp [joinSlash, startsSS, hc]
          | cons t ts => simp [joinSlash, startsSS, hc]
        · cases rest with
          | nil => simp only [joinSlash, List.nil_append]; exact startsSS_noslash hfs
          | cons t ts =>
            simp only [joinSlash, List.nil_append, List.cons_append]
            cases r with
            | nil => simp [startsSS, hc]
            | cons d r' => simp [startsSS, hc]

theorem startsSS_parent (q : Text) (h : startsSS (cSlash :: q) = false) :
    startsSS (Path.parent_or_empty (cSlash :: q)) = false := by
  obtain ⟨h1, h2⟩ := parent_or_empty_abs q
  rcases last_slash_decomp q with hn | ⟨x, s, hq, hs⟩
  · rw [h1 hn]; rfl
  · rw [h2 x s hq hs]
    by_cases hx : x = []
    · subst hx
      rw [hq] at h
      simp [startsSS] at h
    · simp only [hx, if_false]
      cases x with
      | nil => exact absurd rfl hx
      | cons c x' =>
        rw [hq] at h
        simpa [startsSS] using h

/-- the tail of `mergedPath`, no authority -/
theorem merged_tail_noauth (sb v0 : Text) (hs : sb ≠ [] ∧ ∀ c ∈ sb, nCSQH c = true) (e0 : List Text)
    (inv0 : AInv v0 e0) (hss0 : startsSS v0 = false) (ss : List Text)
    (hall : ∀ s ∈ ss, cSlash ∉ s ∧ PathText s) (hsk : symSkipsGo true e0 ss = false)
    (hX : ∀ first rest, walk e0 ss ++ (if lastDot ss && !(walk e0 ss).isEmpty then [[]] else []) = first :: rest →
      first ≠ [] ∨ rest = []) :
    (((Ref.path_mut (recompose (snp sb v0))).symbolic_append ss).bind fun h =>
      h.normalize.bind fun h =>
        if (h.view == [cSlash, cDot, cSlash] || h.view == [cDot, cSlash]) = true then
          h.clear.bind fun h => some (Ref.path h.buffer)
        else some (Ref.path h.buffer)) =
    some (cSlash :: joinSlash (walk e0 ss ++ (if lastDot ss && !(walk e0 ss).isEmpty then [[]] else []))) := by
  obtain ⟨i0, f0, a0⟩ := handle_snp sb v0 hs inv0.pt hss0
  obtain ⟨h1, e1', i1, f1, a1⟩ := symbolic_append_view _ _ _ _ i0 ss
  rw [f0, a0, pre_ne'] at i1
  rw [e1']
  simp only [Option.bind_some]
  obtain ⟨h2, e2, i2, f2, a2⟩ := normalize_view _ _ _ _ i1
  rw [f1, f0, pre_ne'] at i2
  rw [e2]
  simp only [Option.bind_some, i2.view]
  have hfin := relative_view_noauth v0 _ ss inv0 hall hsk hX
  unfold finalizeN at hfin
  simp only [] at hfin
  obtain ⟨E2, iE2⟩ := symAppendView_ainv false false v0 e0 ss inv0 hall hsk
  have hpt3 : PathText (normView false false (symAppendView false false false v0 ss)) :=
    pathText_normView _ _ _ iE2.pt
  generalize normView false false (symAppendView false false false v0 ss) = v3 at hfin i2 hpt3
  generalize hW : walk e0 ss ++ (if lastDot ss && !(walk e0 ss).isEmpty then [[]] else []) = X at hfin hX
  have hssW : startsSS (cSlash :: joinSlash X) = false := by
    cases X with
    | nil => rfl
    | cons first rest =>
      rcases hX first rest rfl with h | h
      · cases first with
        | nil => exact absurd rfl h
        | cons c r =>
          have hc : c ≠ cSlash := by
            intro e
            -- the segments of the final view have no `/`
            have hv3 : v3 = cSlash :: joinSlash ((c :: r) :: rest) ∨ clearView v3 = cSlash :: joinSlash ((c :: r) :: rest) := by
              split at hfin
              · exact .inr hfin
              · exact .inl hfin
            have hmem : ∀ s ∈ ((c :: r) :: rest), cSlash ∉ s := by
              intro s hsm
              have hws : ∀ t ∈ walk e0 ss ++ (if lastDot ss && !(walk e0 ss).isEmpty then [[]] else []), cSlash ∉ t := by
                intro t ht
                rcases List.mem_append.mp ht with h1 | h1
                · obtain ⟨iw, _⟩ := ainv_loop false false ss v0 false e0 inv0 hall hsk
                  exact ainv_noSlash iw t h1
                · split at h1
                  · simp at h1; subst h1; simp
                  · cases h1
              rw [hW] at hws
              exact hws s hsm
            exact hmem (c :: r) List.mem_cons_self (e ▸ List.mem_cons_self)
          cases rest with
          | nil => simp [joinSlash, startsSS, hc]
          | cons t ts => simp [joinSlash, startsSS, hc]
      · subst h
        cases first with
        | nil => rfl
        | cons c r =>
          have hc : c ≠ cSlash := by
            intro e
            have hws : ∀ t ∈ walk e0 ss ++ (if lastDot ss && !(walk e0 ss).isEmpty then [[]] else []), cSlash ∉ t := by
              intro t ht
              rcases List.mem_append.mp ht with h1 | h1
              · obtain ⟨iw, _⟩ := ainv_loop false false ss v0 false e0 inv0 hall hsk
                exact ainv_noSlash iw t h1
              · split at h1
                · simp at h1; subst h1; simp
                · cases h1
            rw [hW] at hws
            exact hws (c :: r) List.mem_cons_self (e ▸ List.mem_cons_self)
          simp [joinSlash, startsSS, hc]
  have hfinal_ok : ∀ h : PathMut, PInv h (sb ++ [cColon]) (cSlash :: joinSlash X) [] →
      PathText (cSlash :: joinSlash X) → Ref.path h.buffer = cSlash :: joinSlash X := by
    intro h i hpt
    rw [buffer_snp i]
    exact ref_path_recompose _ (wf_snp sb _ hs hpt hssW)
  by_cases hc : (v3 == [cSlash, cDot, cSlash] || v3 == [cDot, cSlash]) = true
  · simp only [hc, if_true] at hfin ⊢
    obtain ⟨h3, e3, i3, _, _⟩ := clear_view _ _ _ _ i2
    rw [e3]
    simp only [Option.bind_some]
    rw [hfin] at i3
    have hptc : PathText (clearView v3) := by
      unfold clearView
      split
      · exact pathText_lit_slash
      · intro c hc; cases hc
    rw [hfin] at hptc
    rw [hfinal_ok h3 i3 hptc]
  · have hc' : (v3 == [cSlash, cDot, cSlash] || v3 == [cDot, cSlash]) = false := by simpa using hc
    simp only [hc', Bool.false_eq_true, if_false] at hfin ⊢
    rw [hfin] at i2 hpt3
    rw [hfinal_ok h2 i2 hpt3]

/-- **the merged path**, base without authority and with an absolute path -/
theorem mergedPath_noauth (PB : Spec.Parts) (wB : WF PB) (sb q : Text)
    (hsb : PB.scheme = some sb) (hab : PB.authority = none) (hq : PB.path = cSlash :: q) (ss : List Text)
    (hall : ∀ s ∈ ss, cSlash ∉ s ∧ PathText s)
    (hsk : symSkipsGo true (nsegsOf true (segs PB.path).dropLast) ss = false)
    (hX : ∀ first rest, walk (nsegsOf true (segs PB.path).dropLast) ss ++
        (if lastDot ss && !(walk (nsegsOf true (segs PB.path).dropLast) ss).isEmpty then [[]] else []) = first :: rest →
      first ≠ [] ∨ rest = []) :
    Ref.mergedPath (recompose PB) ss = some (cSlash :: joinSlash
      (walk (nsegsOf true (segs PB.path).dropLast) ss ++
        (if lastDot ss && !(walk (nsegsOf true (segs PB.path).dropLast) ss).isEmpty then [[]] else []))) := by
  have hs : sb ≠ [] ∧ ∀ c ∈ sb, nCSQH c = true := wB.scheme sb hsb
  have hBpt : PathText PB.path := pathText_of_wf _ wB
  have hBss : startsSS PB.path = false := wB.noSS hab
  unfold Ref.mergedPath
  rw [ref_scheme_full PB wB sb hsb, ref_authority_recompose PB wB, ref_path_recompose PB wB, hab]
  have hQ0 : Ref.from_scheme sb = recompose (snp sb []) := by
    rw [recompose_eq]; simp [Ref.from_scheme, snp, schemeText, authText, queryText, fragText]
  have wQ0 := wf_snp sb [] hs (by intro c hc; cases hc) rfl
  have e1 := set_authority_none_recompose _ wQ0
  have hQ1 : ({ snp sb [] with authority := none, path := pathNoAuth (snp sb []) } : Spec.Parts) = snp sb [] := by
    simp [snp, pathNoAuth]
  rw [hQ1] at e1
  rw [hQ0]
  simp only [Option.bind_eq_bind, e1, Option.bind_some, Option.isSome_none, Bool.false_and, Bool.false_eq_true,
    if_false]
  rw [set_path_recompose _ wQ0]
  rw [hq] at hBpt hBss hsk hX ⊢
  have hpss := startsSS_parent q hBss
  obtain ⟨_, hpabs, hppt⟩ := parent_segs q
  have hpp := hppt hBpt
  have hsp : setPathSpec (snp sb []) (Path.parent_or_empty (cSlash :: q)) = Path.parent_or_empty (cSlash :: q) := by
    simp [setPathSpec, snp, hpss]
  have hpe : ({ snp sb [] with path := setPathSpec (snp sb []) (Path.parent_or_empty (cSlash :: q)) } : Spec.Parts)
      = snp sb (Path.parent_or_empty (cSlash :: q)) := by rw [hsp]; rfl
  rw [hpe]
  simp only [Option.bind_some]
  obtain ⟨i0, f0, a0⟩ := handle_snp sb _ hs hpp hpss
  obtain ⟨h1, e1', i1, f1, a1⟩ := normalize_view _ _ _ _ i0
  rw [f0, pre_ne'] at i1
  rw [e1']
  simp only [Option.map_some, buffer_snp i1, Option.bind_some]
  exact merged_tail_noauth sb _ hs _ (ainv_normalized_parent_fa false q hBpt) (normView_false_noSS _ hpp) ss hall hsk hX

/-- **§5.2.2, last branch**, base without authority and with an absolute path, outside the F15
class, where the RFC target path does not begin with `//` -/
theorem resolve_relative_noauthority (G : Grammar) (ok : Grammar.Ok G) (okp : Grammar.OkPath G) (base r : Text)
    (hb : Matches G.full base) (hr : Matches G.reference r)
    (hs : (split r).scheme = none) (ha : (split r).authority = none)
    (hne : (split r).path ≠ []) (hrl : isAbs (split r).path = false)
    (hab : (split base).authority = none) (hBabs : isAbs (split base).path = true)
    (hsk : symSkipsGo true (nsegsOf true (segs (split base).path).dropLast) (splitSlash (split r).path) = false)
    (hamb : startsSS (resolveSpec base r).path = false) :
    Ref.resolve r base = some (recompose (resolveSpec base r)) := by
  obtain ⟨vR, wR⟩ := split_valid G ok r hr
  obtain ⟨vB, wB⟩ := split_valid G ok base (Matches.altL hb)
  obtain ⟨PB, hsP, hP, hvB⟩ := (full_iff G base).mp hb
  have hspB : split base = PB := by rw [← hP]; exact Lemmas.split_recompose PB (wf_of_valid G ok PB hvB)
  obtain ⟨sb, hsb⟩ := Option.isSome_iff_exists.mp (hspB ▸ hsP)
  obtain ⟨q, hq⟩ : ∃ q, (split base).path = cSlash :: q := by
    cases hpp : (split base).path with
    | nil => rw [hpp] at hBabs; simp [isAbs] at hBabs
    | cons c t =>
      rw [hpp] at hBabs
      have : c = cSlash := by simpa [isAbs] using hBabs
      exact ⟨t, by rw [this]⟩
  have hpe : (split r).path.isEmpty = false := by
    cases hpp : (split r).path with
    | nil => exact absurd hpp hne
    | cons c t => rfl
  -- the RFC target
  have hrd := removeDots_merge_noauth q (split r).path hne (by rw [hq] at hsk; exact hsk)
  rw [← hq] at hrd
  have hT : (resolveSpec base r).path = removeDots (merge false (split base).path (split r).path) := by
    simp [resolveSpec, transform, hs, ha, hpe, hrl, hab]
  rw [hT, hrd] at hamb
  have hX : ∀ first rest, walk (nsegsOf true (segs (split base).path).dropLast) (splitSlash (split r).path) ++
        (if lastDot (splitSlash (split r).path) &&
          !(walk (nsegsOf true (segs (split base).path).dropLast) (splitSlash (split r).path)).isEmpty then [[]] else [])
        = first :: rest → first ≠ [] ∨ rest = [] := by
    intro first rest hfr
    rw [hfr] at hamb
    by_cases hf : first = []
    · right
      subst hf
      cases rest with
      | nil => rfl
      | cons t ts => simp [joinSlash, startsSS] at hamb
    · exact .inl hf
  unfold Ref.resolve resolveSpec transform
  have hrp := reference_parts_recompose (split r) wR
  rw [Lemmas.recompose_split] at hrp
  simp only [hrp, rangesOf, hs, ha, Option.map_none, Option.isSome_none, Bool.false_eq_true, if_false]
  have hsch : Ref.scheme base = sb := by
    have := ref_scheme_full (split base) wB sb hsb
    rwa [Lemmas.recompose_split] at this
  rw [hsch]
  have e1 := set_scheme_some_recompose (split r) wR sb
  rw [Lemmas.recompose_split] at e1
  simp only [Option.bind_eq_bind, e1, Option.bind_some]
  have hsbv : Matches Rfc3986.scheme sb := vB.scheme sb hsb
  have v1 := valid_set_scheme_some G ok okp (split r) vR sb hsbv
  have w1 := wf_of_valid G ok _ v1
  have hpath1 : Ref.path (recompose { split r with scheme := some sb }) = (split r).path :=
    ref_path_recompose _ w1
  have hnab : Path.is_absolute (split r).path = false := by rw [is_absolute_eq]; exact hrl
  have hrel : (Path.is_relative (split r).path && Path.is_empty (split r).path) = false := by
    cases hpp : (split r).path with
    | nil => exact absurd hpp hne
    | cons c t =>
      rw [hpp] at hrl
      have hc : (c == cSlash) = false := by simpa [isAbs] using hrl
      have : c ≠ cSlash := by simpa using hc
      simp [Path.is_empty, this]
  simp only [hpath1, hrel, Bool.false_eq_true, if_false, hnab]
  have hauthB : Ref.authority base = none := by
    have := ref_authority_recompose (split base) wB
    rw [Lemmas.recompose_split] at this
    rw [this, hab]
  rw [hauthB]
  have e2 := set_authority_none_recompose _ w1
  have hpw : pathNoAuth { split r with scheme := some sb } = (split r).path := by
    simp [pathNoAuth, ha]
  rw [hpw] at e2
  have hsame : ({ split r with scheme := some sb, authority := none, path := (split r).path } : Spec.Parts)
      = { split r with scheme := some sb } := by
    cases hsr : split r with
    | mk sc au pa qu fr =>
      rw [hsr] at ha
      simp at ha
      simp [ha]
  rw [show ({ split r with scheme := some sb, authority := none, path := (split r).path } : Spec.Parts)
      = { split r with scheme := some sb } from hsame] at e2
  simp only [e2, Option.bind_some, hpath1]
  have hRpt : PathText (split r).path := pathText_of_wf _ wR
  rw [segmentList_eq_segs _ hRpt]
  have hsegs : segs (split r).path = splitSlash (split r).path := by
    cases hpp : (split r).path with
    | nil => exact absurd hpp hne
    | cons c t =>
      rw [hpp] at hrl
      have hc : (c == cSlash) = false := by simpa [isAbs] using hrl
      simp [segs, stripRoot, hc]
  rw [hsegs]
  have hall : ∀ s ∈ splitSlash (split r).path, cSlash ∉ s ∧ PathText s := by
    intro s hs
    refine ⟨splitSlash_no_slash _ s hs, fun c hc => hRpt c (mem_of_mem_splitSlash' _ s hs c hc)⟩
  have hm := mergedPath_noauth (split base) wB sb q hsb hab hq _ hall hsk hX
  rw [Lemmas.recompose_split] at hm
  rw [hm]
  simp only [Option.bind_some]
  rw [set_path_recompose _ w1]
  simp only [hab, Option.isSome_none, hpe, Bool.false_eq_true, if_false, hrl, hrd, hsb, Bool.false_and]
  have hsps : ∀ X : List Text, startsSS (cSlash :: joinSlash X) = false →
      setPathSpec { split r with scheme := some sb } (cSlash :: joinSlash X) = cSlash :: joinSlash X := by
    intro X hx
    simp [setPathSpec, ha, hx, isAbs]
  rw [hsps _ hamb]
  simp [ha]

/-- outside the F15 class `symbolic_append` skips nothing (base without authority, absolute path) -/
theorem noSkip_of_not_f15_noauth (base r : Text) (q : Text) (hq : (split base).path = cSlash :: q)
    (hs : (split r).scheme = none) (ha : (split r).authority = none)
    (hne : (split r).path ≠ []) (hrl : isAbs (split r).path = false)
    (hab : (split base).authority = none) (hf : f15 base r = false) :
    symSkipsGo true (nsegsOf true (segs (split base).path).dropLast) (splitSlash (split r).path) = false := by
  unfold f15 at hf
  have hpe : (split r).path.isEmpty = false := by
    cases hpp : (split r).path with
    | nil => exact absurd hpp hne
    | cons c t => rfl
  have hsegs : segs (split r).path = splitSlash (split r).path := by
    cases hpp : (split r).path with
    | nil => exact absurd hpp hne
    | cons c t =>
      rw [hpp] at hrl
      have hc : (c == cSlash) = false := by simpa [isAbs] using hrl
      simp [segs, stripRoot, hc]
  have hbq : isAbs (cSlash :: q) = true := rfl
  simp only [hs, ha, hab, hpe, hrl, hsegs, hq, hbq, Option.isNone_none, Option.isSome_none, Bool.not_false,
    Bool.true_and, Bool.or_false, Bool.and_true, Bool.false_and, Bool.false_eq_true, if_false] at hf
  rw [nsegs_parentOrEmpty_abs] at hf
  rw [hq]
  exact hf

end IrefVerif.Lemmas
