import IrefVerif.Lemmas.GoodOps
import IrefVerif.Lemmas.ResolveAuth
import IrefVerif.Props.C10

/-!
# Editing through the path handle keeps the reference valid

For every valid reference and every finite sequence of `push`, `pop`, `clear`, `symbolic_push`,
`symbolic_append`, `normalize` with valid arguments, the model of `path_mut.rs` does not panic and
the buffer it leaves matches the grammar again.
-/

set_option linter.unusedSimpArgs false

namespace IrefVerif.Lemmas
open IrefVerif IrefVerif.RE IrefVerif.Spec IrefVerif.Model IrefVerif.Props.C10

/-- the arguments a caller can pass: a `Segment` for `push`/`symbolic_push`, a `Path` for
`symbolic_append` -/
def PathOp.Valid (G : Grammar) : PathOp → Prop
  | .push s => Matches G.segment s
  | .spush s => Matches G.segment s
  | .sapp p => Matches G.path p
  | _ => True

section
variable (G : Grammar) (ok : Grammar.Ok G) (okp : Grammar.OkPath G)
include ok okp

/-- the segments of a valid path are valid segments -/
theorem path_segments_valid (p : Text) (hp : Matches G.path p) :
    PathText p ∧ ∀ s ∈ segs p, Matches G.segment s := by
  have hso : SegOK G p ∧ PathText p := by
    rcases path_kinds G ok okp hp with h | ⟨h, _⟩ | h
    · subst h; exact ⟨segOK_nil G ok okp, fun c hc => by cases hc⟩
    · refine ⟨segOK_of_abempty G ok okp h, ?_⟩
      intro c hc
      have := matches_excl ok.abempty h c hc
      simp only [List.mem_cons, List.mem_nil_iff, or_false, not_or] at this
      exact ⟨by simpa [cQuest] using this.1, by simpa [cHash] using this.2⟩
    · refine ⟨segOK_of_rootless G ok okp h, ?_⟩
      obtain ⟨a, b, rfl, ha, hb⟩ := matches_seq.mp h
      apply pathText_append (seg_pathText G ok okp (okp.segNz_seg a ha))
      intro c hc
      have := matches_excl ok.abempty hb c hc
      simp only [List.mem_cons, List.mem_nil_iff, or_false, not_or] at this
      exact ⟨by simpa [cQuest] using this.1, by simpa [cHash] using this.2⟩
  exact ⟨hso.2, fun s hs => hso.1 s (segs_subset_splitSlash G ok okp p s hs)⟩

/-- one operation on the view -/
theorem good_opView (A atStart : Bool) (hctx : atStart = true → A = false) (v : Text)
    (hg : GoodPath G A atStart v) (op : PathOp) (hop : PathOp.Valid G op) :
    GoodPath G A atStart (opView A A atStart v op) := by
  cases op with
  | push s => exact good_push G ok okp A atStart hctx v s hg hop
  | pop => exact good_pop G ok okp A atStart hctx v hg
  | clear => exact good_clear G ok okp A atStart v
  | spush s => exact good_symPushPub G ok okp A atStart hctx v s hg hop
  | sapp p =>
    obtain ⟨hpt, hall⟩ := path_segments_valid G ok okp p hop
    simp only [opView]
    rw [segmentList_eq_segs p hpt]
    exact good_symAppend G ok okp A atStart hctx v _ hg hall
  | norm => exact good_norm G ok okp A atStart hctx v hg

theorem good_history (A atStart : Bool) (hctx : atStart = true → A = false) (ops : List PathOp) :
    ∀ v, GoodPath G A atStart v → (∀ op ∈ ops, PathOp.Valid G op) →
      GoodPath G A atStart (ops.foldl (opView A A atStart) v) := by
  induction ops with
  | nil => intro v hg _; exact hg
  | cons op ops ih =>
    intro v hg hall
    exact ih _ (good_opView G ok okp A atStart hctx v hg op (hall op List.mem_cons_self))
      (fun o ho => hall o (List.mem_cons_of_mem _ ho))

/-- **a session on the path handle**: any valid reference, any operations with valid arguments -/
theorem path_session_valid (w : Text) (h : Matches G.reference w) (ops : List PathOp)
    (hops : ∀ op ∈ ops, PathOp.Valid G op) :
    ∃ h', pathRun (Ref.path_mut w) ops = some h' ∧ Matches G.reference h'.buffer ∧
      split h'.buffer = { split w with path := h'.view } ∧
      h'.view = ops.foldl (opView (split w).authority.isSome (split w).authority.isSome
        ((split w).scheme.isNone && (split w).authority.isNone)) (split w).path := by
  obtain ⟨hv, wf⟩ := split_valid G ok w h
  have inv := path_handle_of_reference G ok w h
  have hfa := follows_authority_eq G ok w h
  have han : (Ref.path_mut w).anchored = (split w).authority.isSome := by
    rw [← hfa]; simp [Ref.path_mut, PathMut.new]
  obtain ⟨h', e, i⟩ := path_handle_history ops _ _ _ _ inv
  rw [hfa, han] at i
  have hst : ((schemeText (split w).scheme ++ authText (split w).authority).length == 0)
      = ((split w).scheme.isNone && (split w).authority.isNone) := by
    cases (split w).scheme <;> cases (split w).authority <;> simp [schemeText, authText]
  rw [hst] at i
  have hctx : ((split w).scheme.isNone && (split w).authority.isNone) = true → (split w).authority.isSome = false := by
    intro hc
    simp only [Bool.and_eq_true, Option.isNone_iff_eq_none] at hc
    simp [hc.2]
  have hg := good_history G ok okp _ _ hctx ops _ (good_of_valid G ok okp (split w) hv) hops
  have hv' := valid_of_good G ok okp (split w) hv _ hg
  have hbuf : h'.buffer = recompose { split w with path := h'.view } := by
    rw [i.data, i.view, recompose_eq]
    simp [List.append_assoc]
  refine ⟨h', e, ?_, ?_, i.view⟩
  · rw [hbuf, i.view]
    exact (reference_iff G _).mpr ⟨_, rfl, hv'⟩
  · rw [hbuf, i.view]
    exact Lemmas.split_recompose _ (wf_of_valid G ok _ hv')

end

end IrefVerif.Lemmas
