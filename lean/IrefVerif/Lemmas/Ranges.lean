import IrefVerif.Lemmas.WF

/-!
# The scanners compute exactly the component offsets

For every well-formed component list `P` (in particular `split w` of every valid reference of
either family), the model of `parse::reference_parts` run on `recompose P` returns the explicit
offsets `rangesOf P`: scheme at `0`, authority two octets after the scheme's `:`, the path right
after, the query one octet after the path, the fragment one octet after the query — consecutive,
in order, non-overlapping, inside the text.  Every setter / handle theorem reduces to list
arithmetic over these offsets.
-/

set_option linter.unusedSimpArgs false

namespace IrefVerif.Lemmas
open IrefVerif.Spec IrefVerif.Model.Parse

def rangesOf (P : Spec.Parts) : ReferenceParts :=
  let o1 := (schemeText P.scheme).length
  let o2 := o1 + (authText P.authority).length
  let o3 := o2 + P.path.length
  let o4 := o3 + (queryText P.query).length
  { scheme := P.scheme.map fun s => (0, s.length),
    authority := P.authority.map fun a => (o1 + 2, o1 + 2 + a.length),
    path := (o2, o3),
    query := P.query.map fun q => (o3 + 1, o3 + 1 + q.length),
    fragment := P.fragment.map fun f => (o4 + 1, o4 + 1 + f.length) }

theorem drop_of_eq {w pre x : Text} {n : Nat} (h : w = pre ++ x) (hn : n = pre.length) : w.drop n = x := by
  subst h; subst hn; simp

/-- the query/fragment part of the scan -/
theorem tail_ranges (w : Text) (o3 : Nat) (qu fr : Option Text)
    (wfq : ∀ q, qu = some q → ∀ c ∈ q, nH c = true)
    (hd : w.drop o3 = queryText qu ++ fragText fr)
    (hlen : w.length = o3 + (queryText qu).length + (fragText fr).length) :
    query w o3 = (qu.isSome, o3 + (queryText qu).length) ∧
    fragment w (o3 + (queryText qu).length) = (fr.isSome, w.length) := by
  have hd2 : w.drop (o3 + (queryText qu).length) = fragText fr := by
    rw [← List.drop_drop, hd]; simp
  constructor
  · unfold query
    rw [hd]
    cases qu with
    | some q =>
      have hq := wfq q rfl
      have hqn : ∀ c ∈ q, (c != cHash) = true := by
        intro c hc
        have := hq c hc
        simpa [nH, bne] using this
      have hsp : spanLen (fun c => c != cHash) (q ++ fragText fr) = q.length := by
        apply spanLen_append_of_all hqn
        intro c r hcr
        cases fr with
        | some f => simp [fragText] at hcr; obtain ⟨rfl, _⟩ := hcr; simp
        | none => simp [fragText] at hcr
      simp only [queryText, List.cons_append, beq_self_eq_true, if_true, hsp, Option.isSome_some,
        List.length_cons, Prod.mk.injEq, true_and]
      omega
    | none =>
      cases fr with
      | some f => simp [queryText, fragText, cHash, cQuest]
      | none => simp [queryText, fragText]
  · unfold fragment
    rw [hd2]
    cases fr with
    | some f => simp [fragText]
    | none => simp [fragText]

theorem reference_parts_recompose (P : Spec.Parts) (wf : WF P) :
    reference_parts (recompose P) 0 = rangesOf P := by
  obtain ⟨sch, au, pa, qu, fr⟩ := P
  rw [recompose_eq]
  simp only
  generalize hT : queryText qu ++ fragText fr = T
  have hTs : TailStart T := hT ▸ tailStart_qf qu fr
  have hassoc : schemeText sch ++ authText au ++ pa ++ queryText qu ++ fragText fr
      = schemeText sch ++ (authText au ++ (pa ++ T)) := by simp [← hT, List.append_assoc]
  rw [hassoc]
  generalize hw : schemeText sch ++ (authText au ++ (pa ++ T)) = w
  have hstopP : ∀ c r, T = c :: r → nQH c = false := by
    intro c r h
    rcases hTs c r h with rfl | rfl <;> simp [nQH]
  have hnq : (fun c => !(c == cQuest || c == cHash)) = nQH := rfl
  -- the path scan from the start of the path
  have hpath : ∀ o2, w.drop o2 = pa ++ T → IrefVerif.Model.Parse.path w o2 = o2 + pa.length := by
    intro o2 h
    unfold IrefVerif.Model.Parse.path
    rw [hnq, h, spanLen_append_of_all wf.path hstopP]
  -- the tail from the end of the path
  have htail : ∀ o3, w.drop o3 = T → w.length = o3 + T.length →
      query w o3 = (qu.isSome, o3 + (queryText qu).length) ∧
      fragment w (o3 + (queryText qu).length) = (fr.isSome, w.length) := by
    intro o3 h hl
    apply tail_ranges w o3 qu fr wf.query (by rw [h, hT])
    rw [hl, ← hT]; simp; omega
  have hlenw : w.length = (schemeText sch).length + (authText au).length + pa.length + T.length := by
    rw [← hw]; simp; omega
  have lS : ∀ s : Text, (schemeText (some s)).length = s.length + 1 := by intro s; simp [schemeText]
  have lS0 : (schemeText none).length = 0 := rfl
  have lA : ∀ a : Text, (authText (some a)).length = a.length + 2 := by intro a; simp [authText]
  have lA0 : (authText none).length = 0 := rfl
  have hTl : T.length = (queryText qu).length + (fragText fr).length := by rw [← hT]; simp
  unfold reference_parts
  rw [sap_eq, sapGo_start]
  cases sch with
  | some s =>
    obtain ⟨hne, hs⟩ := wf.scheme s rfl
    have hwS : w = s ++ cColon :: (authText au ++ (pa ++ T)) := by rw [← hw]; simp [schemeText]
    have hf : fdc w = true := by rw [hwS]; exact fdc_scheme _ _ hs
    have hk : spanLen nCSQH w = s.length := by rw [hwS]; exact spanLen_scheme _ _ hs
    simp only [hf, if_true, hk, ap_eq, apGo_start]
    have hdR : w.drop (s.length + 1) = authText au ++ (pa ++ T) := by
      apply drop_of_eq (pre := s ++ [cColon]) (by rw [hwS]; simp) (by simp)
    rw [hdR]
    cases au with
    | some a =>
      have ha := wf.authority a rfl
      have hss : startsSS (authText (some a) ++ (pa ++ T)) = true := by simp [authText, startsSS]
      have hd2 : (authText (some a) ++ (pa ++ T)).drop 2 = a ++ (pa ++ T) := by simp [authText]
      have hstop : ∀ c r, pa ++ T = c :: r → nSQH c = false := by
        intro c r h
        rcases wf.abempty rfl with hp | ⟨r', hp⟩
        · subst hp
          rcases hTs c r (by simpa using h) with rfl | rfl <;> simp [nSQH, cQuest, cHash, cSlash]
        · subst hp
          simp at h; obtain ⟨rfl, _⟩ := h
          simp [nSQH]
      simp only [hss, if_true, hd2, spanLen_append_of_all ha hstop]
      have hdP : w.drop (s.length + 1 + (2 + a.length)) = pa ++ T := by
        apply drop_of_eq (pre := s ++ [cColon] ++ [cSlash, cSlash] ++ a) (by rw [hwS]; simp [authText])
          (by simp only [List.length_append, List.length_cons, List.length_nil] <;> omega)
      have hp := hpath _ hdP
      have hdT : w.drop (s.length + 1 + (2 + a.length) + pa.length) = T := by
        apply drop_of_eq (pre := s ++ [cColon] ++ [cSlash, cSlash] ++ a ++ pa) (by rw [hwS]; simp [authText])
          (by simp only [List.length_append, List.length_cons, List.length_nil] <;> omega)
      obtain ⟨hq, hfr⟩ := htail _ hdT (by rw [hlenw]; simp only [lS, lS0, lA, lA0] <;> omega)
      cases qu <;> cases fr <;>
        simp only [queryText, fragText, List.length_cons, List.length_nil, Nat.add_zero, Option.isSome_some,
          Option.isSome_none] at hq hfr hTl <;>
        simp [hp, hq, hfr, rangesOf, schemeText, authText, queryText, fragText] <;>
        simp only [lS, lS0, lA, lA0] at hlenw <;> omega
    | none =>
      have hns : startsSS (pa ++ T) = false := by
        apply startsSS_append _ _ _ (wf.noSS rfl)
        intro c r h
        rcases hTs c r h with rfl | rfl <;> simp [cQuest, cHash, cSlash]
      simp only [authText, List.nil_append]
      simp only [hns, Bool.false_eq_true, if_false, spanLen_append_of_all wf.path hstopP]
      have hdT : w.drop (s.length + 1 + pa.length) = T := by
        apply drop_of_eq (pre := s ++ [cColon] ++ pa) (by rw [hwS]; simp [authText])
          (by simp only [List.length_append, List.length_cons, List.length_nil] <;> omega)
      obtain ⟨hq, hfr⟩ := htail _ hdT (by rw [hlenw]; simp only [lS, lS0, lA, lA0] <;> omega)
      cases qu <;> cases fr <;>
        simp only [queryText, fragText, List.length_cons, List.length_nil, Nat.add_zero, Option.isSome_some,
          Option.isSome_none] at hq hfr hTl <;>
        simp [hq, hfr, rangesOf, schemeText, authText, queryText, fragText] <;>
        simp only [lS, lS0, lA, lA0] at hlenw <;> omega
  | none =>
    have hwN : w = authText au ++ (pa ++ T) := by rw [← hw]; simp [schemeText]
    have hf : fdc w = false := by
      rw [hwN]
      cases au with
      | some a => simp [authText, fdc, cSlash, cColon]
      | none =>
        simp only [authText, List.nil_append]
        exact fdc_append_false pa T (wf.noColon rfl rfl) hTs
    simp only [hf, Bool.false_eq_true, if_false]
    cases au with
    | some a =>
      have ha := wf.authority a rfl
      have hss : startsSS w = true := by rw [hwN]; simp [authText, startsSS]
      have hd2 : w.drop 2 = a ++ (pa ++ T) := by rw [hwN]; simp [authText]
      have hstop : ∀ c r, pa ++ T = c :: r → nSQH c = false := by
        intro c r h
        rcases wf.abempty rfl with hp | ⟨r', hp⟩
        · subst hp
          rcases hTs c r (by simpa using h) with rfl | rfl <;> simp [nSQH, cQuest, cHash, cSlash]
        · subst hp
          simp at h; obtain ⟨rfl, _⟩ := h
          simp [nSQH]
      simp only [hss, if_true, hd2, spanLen_append_of_all ha hstop]
      have hdP : w.drop (2 + a.length) = pa ++ T := by
        apply drop_of_eq (pre := [cSlash, cSlash] ++ a) (by rw [hwN]; simp [authText]) (by simp only [List.length_append, List.length_cons, List.length_nil] <;> omega)
      have hp := hpath _ hdP
      have hdT : w.drop (2 + a.length + pa.length) = T := by
        apply drop_of_eq (pre := [cSlash, cSlash] ++ a ++ pa) (by rw [hwN]; simp [authText]) (by simp only [List.length_append, List.length_cons, List.length_nil] <;> omega)
      obtain ⟨hq, hfr⟩ := htail _ hdT (by rw [hlenw]; simp only [lS, lS0, lA, lA0] <;> omega)
      cases qu <;> cases fr <;>
        simp only [queryText, fragText, List.length_cons, List.length_nil, Nat.add_zero, Option.isSome_some,
          Option.isSome_none] at hq hfr hTl <;>
        simp [hp, hq, hfr, rangesOf, schemeText, authText, queryText, fragText] <;>
        simp only [lS, lS0, lA, lA0] at hlenw <;> omega
    | none =>
      have hwP : w = pa ++ T := by rw [hwN]; simp [authText]
      have hns : startsSS w = false := by
        rw [hwP]
        apply startsSS_append _ _ _ (wf.noSS rfl)
        intro c r h
        rcases hTs c r h with rfl | rfl <;> simp [cQuest, cHash, cSlash]
      have hsp : spanLen nQH w = pa.length := by rw [hwP]; exact spanLen_append_of_all wf.path hstopP
      simp only [hns, Bool.false_eq_true, if_false, hsp]
      have hdT : w.drop pa.length = T := by
        apply drop_of_eq (pre := pa) hwP rfl
      obtain ⟨hq, hfr⟩ := htail _ hdT (by rw [hlenw]; simp only [lS, lS0, lA, lA0] <;> omega)
      cases qu <;> cases fr <;>
        simp only [queryText, fragText, List.length_cons, List.length_nil, Nat.add_zero, Option.isSome_some,
          Option.isSome_none] at hq hfr hTl <;>
        simp [hq, hfr, rangesOf, schemeText, authText, queryText, fragText] <;>
        simp only [lS, lS0, lA, lA0] at hlenw <;> omega

end IrefVerif.Lemmas
