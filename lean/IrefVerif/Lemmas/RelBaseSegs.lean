import IrefVerif.Lemmas.ParentSegs
import IrefVerif.Lemmas.SymRel

/-!
# A relative base path: its directory, the merged path, and §5.2.4 as a walk

The counterparts of `MergeSegs` / `ParentSegs` for a base without authority whose path is relative
(or empty): `parent_or_empty` is the text before the last `/`, its segments are the base's without
the last; the merged path has those segments followed by the reference's; and Errata 4547's
`remove_dot_segments` on it is the walk `walkR` (unresolved `..`s stay in front).
-/

set_option linter.unusedSimpArgs false

namespace IrefVerif.Lemmas
open IrefVerif IrefVerif.Spec IrefVerif.Model IrefVerif.Oracle IrefVerif.Findings

theorem rel_head {B : Text} (hrel : isAbs B = false) : ∀ c r, B = c :: r → c ≠ cSlash := by
  intro c r h e
  subst h; subst e
  simp [isAbs] at hrel

theorem segs_rel {B : Text} (hrel : isAbs B = false) (hne : B ≠ []) : segs B = splitSlash B := by
  cases B with
  | nil => exact absurd rfl hne
  | cons c r =>
    have hc : (c == cSlash) = false := by simpa [isAbs] using hrel
    simp [segs, stripRoot, hc]

/-- the last `/` of a relative path splits it into a non-empty relative directory and a file -/
theorem rel_decomp {B : Text} (hrel : isAbs B = false) :
    cSlash ∉ B ∨ ∃ x s, B = x ++ cSlash :: s ∧ cSlash ∉ s ∧ x ≠ [] ∧ isAbs x = false := by
  rcases last_slash_decomp B with h | ⟨x, s, hq, hs⟩
  · exact .inl h
  · right
    refine ⟨x, s, hq, hs, ?_, ?_⟩
    · intro hx; subst hx
      exact rel_head hrel cSlash s hq rfl
    · cases x with
      | nil => rfl
      | cons c x' =>
        have := rel_head hrel c (x' ++ cSlash :: s) (by rw [hq]; rfl)
        simp [isAbs, this]

theorem upToLastSlash_rel_single (B : Text) (h : cSlash ∉ B) : upToLastSlash B = [] := by
  unfold upToLastSlash
  rw [splitSlash_noslash B h]
  rfl

theorem upToLastSlash_rel_multi (x s : Text) (hs : cSlash ∉ s) :
    upToLastSlash (x ++ cSlash :: s) = x ++ [cSlash] := by
  unfold upToLastSlash
  rw [splitSlash_append x s hs]
  have hne : splitSlash x ≠ [] := splitSlash_ne_nil x
  have hrev : (splitSlash x ++ [s]).reverse = s :: (splitSlash x).reverse := by simp
  rw [hrev]
  simp only [List.reverse_reverse]
  cases hsx : splitSlash x with
  | nil => exact absurd hsx hne
  | cons a l =>
    show joinSlash (a :: l) ++ [cSlash] = x ++ [cSlash]
    rw [← hsx, joinSlash_splitSlash]

/-- `parent_or_empty` of a relative path -/
theorem parent_or_empty_rel (B : Text) (hrel : isAbs B = false) :
    (cSlash ∉ B → Path.parent_or_empty B = []) ∧
    (∀ x s, B = x ++ cSlash :: s → cSlash ∉ s → Path.parent_or_empty B = x) := by
  cases B with
  | nil =>
    refine ⟨fun _ => by decide, ?_⟩
    intro x s h _
    cases x <;> simp at h
  | cons c r =>
    have hc : c ≠ cSlash := rel_head hrel c r rfl
    have hc' : (c == cSlash) = false := by simpa using hc
    have hem : Path.is_empty (c :: r) = false := by simp [Path.is_empty, hc]
    have hab : Path.is_absolute (c :: r) = false := by rw [is_absolute_eq]; exact hrel
    have hdir := directory_eq (c :: r)
    unfold Path.directory at hdir
    simp only [List.isEmpty_cons, Bool.false_eq_true, if_false] at hdir
    have hle := lastSlashFrom_le (c :: r) ((c :: r).length - 1)
    generalize he : Path.lastSlashFrom (c :: r) ((c :: r).length - 1) = e at hdir hle
    have h00 : (c :: r).getD 0 0 = c := rfl
    unfold Path.parent_or_empty Path.parent
    simp only [hem, Bool.false_eq_true, if_false, he, hab]
    constructor
    · intro hns
      rw [upToLastSlash_rel_single (c :: r) hns] at hdir
      have he0 : e = 0 := by
        by_cases h0 : e = 0
        · exact h0
        · exfalso
          have hb : (e == 0 && (c :: r).getD 0 0 != cSlash) = false := by
            have : (e == 0) = false := by simpa using h0
            simp [this]
          rw [hb] at hdir
          simp only [Bool.false_eq_true, if_false] at hdir
          have hl := congrArg List.length hdir
          simp only [List.length_take, List.length_nil, List.length_cons] at hl
          omega
      subst he0
      rw [h00, hc']
      rfl
    · intro x s hxs hs
      have hx : x ≠ [] := by
        intro hx; subst hx
        exact rel_head hrel cSlash s hxs rfl
      have hdir' := hdir
      rw [hxs, upToLastSlash_rel_multi x s hs] at hdir'
      have hex : e = x.length := by
        by_cases hb : (e == 0 && (x ++ cSlash :: s).getD 0 0 != cSlash) = true
        · rw [hb] at hdir'
          simp only [if_true] at hdir'
          have := congrArg List.length hdir'
          simp at this
        · have hb' : (e == 0 && (x ++ cSlash :: s).getD 0 0 != cSlash) = false := by simpa using hb
          rw [hb'] at hdir'
          simp only [Bool.false_eq_true, if_false] at hdir'
          have hl := congrArg List.length hdir'
          rw [hxs] at hle
          simp only [List.length_take, List.length_append, List.length_cons, List.length_nil] at hl hle
          omega
      subst hex
      have hget : (c :: r).getD x.length 0 = cSlash := by
        rw [hxs]
        simp [List.getD_eq_getElem?_getD, List.getElem?_append_right]
      have hne0 : (x.length == 0) = false := by
        cases x with
        | nil => exact absurd rfl hx
        | cons a l => simp
      have h1 : (x.length == 1 && (c :: r).getD 0 0 == cSlash && (c :: r).getD 1 0 == cSlash) = false := by
        rw [h00, hc']; simp
      rw [hget]
      simp only [beq_self_eq_true, if_true, hne0, Bool.false_eq_true, if_false, h1]
      rw [hxs]
      simp

/-- the literal segments of `parent_or_empty` are the base's without the last -/
theorem parent_segs_rel (B : Text) (hrel : isAbs B = false) :
    segs (Path.parent_or_empty B) = (segs B).dropLast ∧ isAbs (Path.parent_or_empty B) = false ∧
      (PathText B → PathText (Path.parent_or_empty B)) := by
  obtain ⟨h1, h2⟩ := parent_or_empty_rel B hrel
  rcases rel_decomp hrel with h | ⟨x, s, hq, hs, hx, hxr⟩
  · rw [h1 h]
    refine ⟨?_, rfl, fun _ => by intro c hc; cases hc⟩
    by_cases hB : B = []
    · subst hB; rfl
    · rw [segs_rel hrel hB, splitSlash_noslash B h]; rfl
  · rw [h2 x s hq hs]
    have hBne : B ≠ [] := by rw [hq]; simp
    refine ⟨?_, hxr, fun hp => ?_⟩
    · rw [segs_rel hrel hBne, segs_rel hxr hx, hq, splitSlash_append x s hs, List.dropLast_concat]
    · intro c hc
      apply hp c
      rw [hq]
      exact List.mem_append_left _ hc

/-- the segments of the merged path (base path relative or empty) -/
theorem segs_merge_rel (B R : Text) (hrel : isAbs B = false) (hR : R ≠ []) (hRrel : isAbs R = false) :
    segs (upToLastSlash B ++ R) = (segs B).dropLast ++ splitSlash R ∧
      isAbs (upToLastSlash B ++ R) = false := by
  rcases rel_decomp hrel with h | ⟨x, s, hq, hs, hx, hxr⟩
  · rw [upToLastSlash_rel_single B h]
    simp only [List.nil_append]
    refine ⟨?_, hRrel⟩
    rw [segs_rel hRrel hR]
    by_cases hB : B = []
    · subst hB; rfl
    · rw [segs_rel hrel hB, splitSlash_noslash B h]; rfl
  · have hBne : B ≠ [] := by rw [hq]; simp
    rw [hq, upToLastSlash_rel_multi x s hs]
    have e1 : x ++ [cSlash] ++ R = x ++ cSlash :: R := by simp
    have hrel' : isAbs (x ++ cSlash :: R) = false := by
      cases x with
      | nil => exact absurd rfl hx
      | cons a l => simpa [isAbs] using hxr
    rw [e1]
    refine ⟨?_, hrel'⟩
    rw [segs_rel hrel' (by simp), splitSlash_mid, ← hq, segs_rel hrel hBne, hq, splitSlash_append x s hs,
      List.dropLast_concat]

/-! ## §5.2.4 on a relative path is the walk -/

theorem reverse_snoc_eq {L : List Text} {t : Text} {rest : List Text} (h : L.reverse = t :: rest) :
    L = rest.reverse ++ [t] := by
  have := congrArg List.reverse h
  simpa using this

/-- one step of the stack is one step of `listSymPush`, unless the latter skips -/
theorem nstepR_listSymPush (L : List Text) (s : Text) (sn : SemiNormal L)
    (hskip : (s != segDot && s != segDotDot && s.isEmpty && L.isEmpty) = false) :
    (nstep false L.reverse s).reverse = (listSymPush false L s).1 ∧ SemiNormal (listSymPush false L s).1 := by
  have hnd := semiNormal_noDot sn
  unfold nstep listSymPush
  by_cases h1 : s = segDot
  · subst h1; simp [sn]
  · have h1' : (s == segDot) = false := by simpa using h1
    simp only [h1, h1', if_false, Bool.false_eq_true]
    by_cases h2 : s = segDotDot
    · subst h2
      have hL : (L == [segDot]) = false := by
        have : L ≠ [segDot] := fun h => hnd (h ▸ List.mem_cons_self)
        simpa using this
      simp only [if_true, beq_self_eq_true, hL, Bool.false_eq_true, if_false]
      cases hr : L.reverse with
      | nil =>
        have : L = [] := by simpa using hr
        subst this
        refine ⟨by decide, ?_⟩
        exact semiNormal_snoc_dd sn (.inl rfl)
      | cons t rest =>
        have he := reverse_snoc_eq hr
        simp only
        by_cases ht : t = segDotDot
        · subst ht
          have hlast : L.getLast? = some segDotDot := by rw [he]; simp
          have hlp : listPop false L = L ++ [segDotDot] := by unfold listPop; simp [hlast]
          rw [hlp]
          refine ⟨?_, semiNormal_snoc_dd sn (.inr hlast)⟩
          simp [he]
        · have hlast : L.getLast? ≠ some segDotDot := by rw [he]; simpa using ht
          have hne : L ≠ [] := by rw [he]; simp
          have hlp : listPop false L = L.dropLast := by
            unfold listPop
            have h1 : (L.getLast? == some segDotDot) = false := by simpa using hlast
            have h2 : L.isEmpty = false := by
              cases hL' : L with
              | nil => exact absurd hL' hne
              | cons a l => rfl
            simp [h1, h2]
          rw [hlp]
          refine ⟨?_, semiNormal_dropLast sn hne hlast⟩
          simp only [ht, if_false]
          rw [he, List.dropLast_concat]
    · have h2' : (s == segDotDot) = false := by simpa using h2
      have hsk : (s.isEmpty && L.isEmpty) = false := by simpa [h1, h2] using hskip
      simp only [h2, h2', if_false, Bool.false_eq_true, hsk, List.reverse_cons, List.reverse_reverse]
      exact ⟨trivial, semiNormal_snoc sn h1 h2⟩

theorem foldl_nstepR_walk (ss : List Text) : ∀ (L : List Text), SemiNormal L → symSkipsGo false L ss = false →
    (ss.foldl (nstep false) L.reverse).reverse = walkR L ss := by
  induction ss with
  | nil => intro L _ _; simp [walkR]
  | cons s ss ih =>
    intro L sn hsk
    simp only [symSkipsGo] at hsk
    have hskip : (s != segDot && s != segDotDot && s.isEmpty && L.isEmpty) = false := by
      by_cases hc : (s != segDot && s != segDotDot && s.isEmpty && L.isEmpty) = true
      · rw [hc] at hsk; simp at hsk
      · simpa using hc
    rw [hskip] at hsk
    simp only [Bool.false_eq_true, if_false] at hsk
    obtain ⟨e1, d1⟩ := nstepR_listSymPush L s sn hskip
    simp only [List.foldl_cons, walkR]
    have : nstep false L.reverse s = ((listSymPush false L s).1).reverse := by
      rw [← e1]; simp
    rw [this]
    exact ih _ d1 hsk

theorem nsegsOf_append_walkR (init S : List Text) (hsk : symSkipsGo false (nsegsOf false init) S = false) :
    nsegsOf false (init ++ S) = walkR (nsegsOf false init) S := by
  have := foldl_nstepR_walk S (nsegsOf false init) (semiNormal_nsegsOf init) hsk
  rw [← this]
  unfold nsegsOf
  simp [List.foldl_append]

/-- **§5.2.3 + §5.2.4 (Errata 4547) as a walk**, base without authority, relative or empty base path -/
theorem removeDots_merge_rel (B R : Text) (hrel : isAbs B = false) (hR : R ≠ []) (hRrel : isAbs R = false)
    (hsk : symSkipsGo false (nsegsOf false (segs B).dropLast) (splitSlash R) = false) :
    removeDots (merge false B R) =
      joinSlash (walkR (nsegsOf false (segs B).dropLast) (splitSlash R) ++
        (if lastDot (splitSlash R) && !(walkR (nsegsOf false (segs B).dropLast) (splitSlash R)).isEmpty
          then [[]] else [])) := by
  have hM := segs_merge_rel B R hrel hR hRrel
  have hm : merge false B R = upToLastSlash B ++ R := by simp [merge]
  rw [hm]
  unfold removeDots normTarget render nsegs
  rw [dotEnd_of_segs _ _ _ hM.1 (splitSlash_ne_nil R), hM.2, hM.1, nsegsOf_append_walkR _ _ hsk]
  simp only [Bool.false_eq_true, if_false, List.nil_append]

/-- the oracle's directory of a relative path has the same normalised segments -/
theorem nsegs_parentOrEmpty_rel (B : Text) (hrel : isAbs B = false) :
    nsegs (parentOrEmpty B) = nsegsOf false (segs B).dropLast := by
  unfold parentOrEmpty parentSpec
  simp only [hrel, Bool.not_false, Bool.true_and, Bool.false_and, Bool.false_eq_true, if_false]
  by_cases hse : (segs B).isEmpty = true
  · simp only [hse, if_true]
    have : segs B = [] := by simpa using hse
    rw [this]; rfl
  · have hse' : (segs B).isEmpty = false := by simpa using hse
    simp only [hse', Bool.false_eq_true, if_false]
    by_cases h1 : ((segs B).length == 1) = true
    · simp only [h1, if_true]
      have hl : (segs B).length = 1 := by simpa using h1
      have : (segs B).dropLast = [] := by
        apply List.eq_nil_of_length_eq_zero
        simp [hl]
      rw [this]; rfl
    · have h1' : ((segs B).length == 1) = false := by simpa using h1
      simp only [h1', Bool.false_eq_true, if_false, render, List.nil_append]
      -- the rendering of the dropped list reads back as that list
      have hne : (segs B).dropLast ≠ [] := by
        intro h
        have hl := congrArg List.length h
        simp only [List.length_dropLast, List.length_nil] at hl
        have hpos : (segs B).length ≠ 0 := by
          intro h0
          have := List.eq_nil_of_length_eq_zero h0
          rw [this] at hse'; simp at hse'
        have : (segs B).length ≠ 1 := by simpa using h1'
        omega
      have hns : ∀ t ∈ (segs B).dropLast, cSlash ∉ t := fun t ht =>
        segs_no_slash B t ((List.dropLast_sublist _).subset ht)
      have hBne : B ≠ [] := by intro e; subst e; simp [segs, stripRoot] at hse'
      obtain ⟨c, r, hcr⟩ : ∃ c r, B = c :: r := by
        cases B with
        | nil => exact absurd rfl hBne
        | cons c r => exact ⟨c, r, rfl⟩
      have hc : c ≠ cSlash := rel_head hrel c r hcr
      have hhead : ∃ r' rest, segs B = (c :: r') :: rest := by
        rw [segs_rel hrel hBne, hcr]
        have hc' : (c == cSlash) = false := by simpa using hc
        simp only [splitSlash, hc', Bool.false_eq_true, if_false]
        cases hsp : splitSlash r with
        | nil => exact ⟨[], [], rfl⟩
        | cons a l => exact ⟨a, l, rfl⟩
      obtain ⟨r', rest, hsg⟩ := hhead
      have hfaith : ∃ c0 r0 rest0, (segs B).dropLast = (c0 :: r0) :: rest0 := by
        rw [hsg] at hne ⊢
        cases rest with
        | nil => simp at hne
        | cons a l => exact ⟨c, r', (a :: l).dropLast, by simp [List.dropLast]⟩
      obtain ⟨h2, h3⟩ := segs_render false (segs B).dropLast hne hns hfaith
      unfold nsegs
      simp only [Bool.false_eq_true, if_false, List.nil_append] at h2 h3
      rw [h3, h2]

end IrefVerif.Lemmas
