import IrefVerif.Spec.Regex
import IrefVerif.Spec.Pct
import IrefVerif.Lemmas.Sub

/-!
# Exact UTF-8 encodings of scalar ranges, as expressions over octets

`encHi rs` matches exactly the UTF-8 encodings of the scalars `≥ 0x80` (and `≤ 0x10FFFF`) that
the class `rs` contains: for each range, split by encoded length, the lead octet and each
continuation octet are ranges determined by the base-64 digits of the bounds (`stepRE`).
-/

set_option linter.unusedSimpArgs false

namespace IrefVerif.Lemmas
open IrefVerif IrefVerif.RE IrefVerif.Spec

def byteRE (a b : Nat) : RE := cls [(a, b)]

theorem matches_byteRE {a b : Nat} {bs : List Nat} :
    Matches (byteRE a b) bs ↔ ∃ x, a ≤ x ∧ x ≤ b ∧ bs = [x] := by
  unfold byteRE
  rw [matches_cls]
  constructor
  · rintro ⟨c, rfl, h⟩
    simp only [inCls, Bool.or_false, Bool.and_eq_true, Nat.ble_eq] at h
    exact ⟨c, h.1, h.2, rfl⟩
  · rintro ⟨x, h1, h2, rfl⟩
    exact ⟨x, rfl, by simp [inCls, Nat.ble_eq, h1, h2]⟩

/-- one more octet in front: `off + d` where `d` is the leading base-`B` digit -/
def stepRE (off B : Nat) (inner : Nat → Nat → RE) (lo hi : Nat) : RE :=
  if hi < lo then empty
  else if lo / B = hi / B then seq (byteRE (off + lo / B) (off + lo / B)) (inner (lo % B) (hi % B))
  else alt (seq (byteRE (off + lo / B) (off + lo / B)) (inner (lo % B) (B - 1)))
    (alt (seq (byteRE (off + lo / B + 1) (off + hi / B - 1)) (inner 0 (B - 1)))
      (seq (byteRE (off + hi / B) (off + hi / B)) (inner 0 (hi % B))))

theorem step_sem_64 (inner : Nat → Nat → RE) (ib : Nat → List Nat)
    (hin : ∀ lo hi bs, Matches (inner lo hi) bs ↔ ∃ v, lo ≤ v ∧ v ≤ hi ∧ bs = ib v)
    (off lo hi : Nat) (bs : List Nat) :
    Matches (stepRE off 64 inner lo hi) bs ↔ ∃ v, lo ≤ v ∧ v ≤ hi ∧ bs = (off + v / 64) :: ib (v % 64) := by
  unfold stepRE
  by_cases hlt : hi < lo
  · simp only [hlt, if_true]
    constructor
    · intro h; exact absurd h matches_empty
    · rintro ⟨v, h1, h2, _⟩; omega
  · simp only [hlt, if_false]
    by_cases heq : lo / 64 = hi / 64
    · simp only [heq, if_true]
      rw [matches_seq]
      constructor
      · rintro ⟨u, w, rfl, hu, hw⟩
        obtain ⟨x, hx1, hx2, rfl⟩ := matches_byteRE.mp hu
        obtain ⟨r, hr1, hr2, rfl⟩ := (hin _ _ _).mp hw
        refine ⟨64 * (hi / 64) + r, by omega, by omega, ?_⟩
        have e1 : (64 * (hi / 64) + r) / 64 = hi / 64 := by omega
        have e2 : (64 * (hi / 64) + r) % 64 = r := by omega
        have e3 : x = off + hi / 64 := by omega
        rw [e1, e2, e3]; rfl
      · rintro ⟨v, h1, h2, rfl⟩
        refine ⟨[off + v / 64], ib (v % 64), rfl, ?_, ?_⟩
        · exact matches_byteRE.mpr ⟨_, by omega, by omega, rfl⟩
        · exact (hin _ _ _).mpr ⟨v % 64, by omega, by omega, rfl⟩
    · simp only [heq, if_false]
      simp only [matches_alt, matches_seq]
      constructor
      · rintro (⟨u, w, rfl, hu, hw⟩ | ⟨u, w, rfl, hu, hw⟩ | ⟨u, w, rfl, hu, hw⟩)
        · obtain ⟨x, hx1, hx2, rfl⟩ := matches_byteRE.mp hu
          obtain ⟨r, hr1, hr2, rfl⟩ := (hin _ _ _).mp hw
          refine ⟨64 * (lo / 64) + r, by omega, by omega, ?_⟩
          have e1 : (64 * (lo / 64) + r) / 64 = lo / 64 := by omega
          have e2 : (64 * (lo / 64) + r) % 64 = r := by omega
          have e3 : x = off + lo / 64 := by omega
          rw [e1, e2, e3]; rfl
        · obtain ⟨x, hx1, hx2, rfl⟩ := matches_byteRE.mp hu
          obtain ⟨r, hr1, hr2, rfl⟩ := (hin _ _ _).mp hw
          refine ⟨64 * (x - off) + r, by omega, by omega, ?_⟩
          have e1 : (64 * (x - off) + r) / 64 = x - off := by omega
          have e2 : (64 * (x - off) + r) % 64 = r := by omega
          have e3 : x = off + (x - off) := by omega
          rw [e1, e2]; conv => lhs; rw [e3]
          rfl
        · obtain ⟨x, hx1, hx2, rfl⟩ := matches_byteRE.mp hu
          obtain ⟨r, hr1, hr2, rfl⟩ := (hin _ _ _).mp hw
          refine ⟨64 * (hi / 64) + r, by omega, by omega, ?_⟩
          have e1 : (64 * (hi / 64) + r) / 64 = hi / 64 := by omega
          have e2 : (64 * (hi / 64) + r) % 64 = r := by omega
          have e3 : x = off + hi / 64 := by omega
          rw [e1, e2, e3]; rfl
      · rintro ⟨v, h1, h2, rfl⟩
        by_cases c1 : v / 64 = lo / 64
        · left
          refine ⟨[off + v / 64], ib (v % 64), rfl, ?_, ?_⟩
          · exact matches_byteRE.mpr ⟨_, by omega, by omega, rfl⟩
          · exact (hin _ _ _).mpr ⟨v % 64, by omega, by omega, rfl⟩
        · by_cases c2 : v / 64 = hi / 64
          · right; right
            refine ⟨[off + v / 64], ib (v % 64), rfl, ?_, ?_⟩
            · exact matches_byteRE.mpr ⟨_, by omega, by omega, rfl⟩
            · exact (hin _ _ _).mpr ⟨v % 64, by omega, by omega, rfl⟩
          · right; left
            refine ⟨[off + v / 64], ib (v % 64), rfl, ?_, ?_⟩
            · exact matches_byteRE.mpr ⟨_, by omega, by omega, rfl⟩
            · exact (hin _ _ _).mpr ⟨v % 64, by omega, by omega, rfl⟩

theorem step_sem_4096 (inner : Nat → Nat → RE) (ib : Nat → List Nat)
    (hin : ∀ lo hi bs, Matches (inner lo hi) bs ↔ ∃ v, lo ≤ v ∧ v ≤ hi ∧ bs = ib v)
    (off lo hi : Nat) (bs : List Nat) :
    Matches (stepRE off 4096 inner lo hi) bs ↔ ∃ v, lo ≤ v ∧ v ≤ hi ∧ bs = (off + v / 4096) :: ib (v % 4096) := by
  unfold stepRE
  by_cases hlt : hi < lo
  · simp only [hlt, if_true]
    constructor
    · intro h; exact absurd h matches_empty
    · rintro ⟨v, h1, h2, _⟩; omega
  · simp only [hlt, if_false]
    by_cases heq : lo / 4096 = hi / 4096
    · simp only [heq, if_true]
      rw [matches_seq]
      constructor
      · rintro ⟨u, w, rfl, hu, hw⟩
        obtain ⟨x, hx1, hx2, rfl⟩ := matches_byteRE.mp hu
        obtain ⟨r, hr1, hr2, rfl⟩ := (hin _ _ _).mp hw
        refine ⟨4096 * (hi / 4096) + r, by omega, by omega, ?_⟩
        have e1 : (4096 * (hi / 4096) + r) / 4096 = hi / 4096 := by omega
        have e2 : (4096 * (hi / 4096) + r) % 4096 = r := by omega
        have e3 : x = off + hi / 4096 := by omega
        rw [e1, e2, e3]; rfl
      · rintro ⟨v, h1, h2, rfl⟩
        refine ⟨[off + v / 4096], ib (v % 4096), rfl, ?_, ?_⟩
        · exact matches_byteRE.mpr ⟨_, by omega, by omega, rfl⟩
        · exact (hin _ _ _).mpr ⟨v % 4096, by omega, by omega, rfl⟩
    · simp only [heq, if_false]
      simp only [matches_alt, matches_seq]
      constructor
      · rintro (⟨u, w, rfl, hu, hw⟩ | ⟨u, w, rfl, hu, hw⟩ | ⟨u, w, rfl, hu, hw⟩)
        · obtain ⟨x, hx1, hx2, rfl⟩ := matches_byteRE.mp hu
          obtain ⟨r, hr1, hr2, rfl⟩ := (hin _ _ _).mp hw
          refine ⟨4096 * (lo / 4096) + r, by omega, by omega, ?_⟩
          have e1 : (4096 * (lo / 4096) + r) / 4096 = lo / 4096 := by omega
          have e2 : (4096 * (lo / 4096) + r) % 4096 = r := by omega
          have e3 : x = off + lo / 4096 := by omega
          rw [e1, e2, e3]; rfl
        · obtain ⟨x, hx1, hx2, rfl⟩ := matches_byteRE.mp hu
          obtain ⟨r, hr1, hr2, rfl⟩ := (hin _ _ _).mp hw
          refine ⟨4096 * (x - off) + r, by omega, by omega, ?_⟩
          have e1 : (4096 * (x - off) + r) / 4096 = x - off := by omega
          have e2 : (4096 * (x - off) + r) % 4096 = r := by omega
          have e3 : x = off + (x - off) := by omega
          rw [e1, e2]; conv => lhs; rw [e3]
          rfl
        · obtain ⟨x, hx1, hx2, rfl⟩ := matches_byteRE.mp hu
          obtain ⟨r, hr1, hr2, rfl⟩ := (hin _ _ _).mp hw
          refine ⟨4096 * (hi / 4096) + r, by omega, by omega, ?_⟩
          have e1 : (4096 * (hi / 4096) + r) / 4096 = hi / 4096 := by omega
          have e2 : (4096 * (hi / 4096) + r) % 4096 = r := by omega
          have e3 : x = off + hi / 4096 := by omega
          rw [e1, e2, e3]; rfl
      · rintro ⟨v, h1, h2, rfl⟩
        by_cases c1 : v / 4096 = lo / 4096
        · left
          refine ⟨[off + v / 4096], ib (v % 4096), rfl, ?_, ?_⟩
          · exact matches_byteRE.mpr ⟨_, by omega, by omega, rfl⟩
          · exact (hin _ _ _).mpr ⟨v % 4096, by omega, by omega, rfl⟩
        · by_cases c2 : v / 4096 = hi / 4096
          · right; right
            refine ⟨[off + v / 4096], ib (v % 4096), rfl, ?_, ?_⟩
            · exact matches_byteRE.mpr ⟨_, by omega, by omega, rfl⟩
            · exact (hin _ _ _).mpr ⟨v % 4096, by omega, by omega, rfl⟩
          · right; left
            refine ⟨[off + v / 4096], ib (v % 4096), rfl, ?_, ?_⟩
            · exact matches_byteRE.mpr ⟨_, by omega, by omega, rfl⟩
            · exact (hin _ _ _).mpr ⟨v % 4096, by omega, by omega, rfl⟩

theorem step_sem_262144 (inner : Nat → Nat → RE) (ib : Nat → List Nat)
    (hin : ∀ lo hi bs, Matches (inner lo hi) bs ↔ ∃ v, lo ≤ v ∧ v ≤ hi ∧ bs = ib v)
    (off lo hi : Nat) (bs : List Nat) :
    Matches (stepRE off 262144 inner lo hi) bs ↔ ∃ v, lo ≤ v ∧ v ≤ hi ∧ bs = (off + v / 262144) :: ib (v % 262144) := by
  unfold stepRE
  by_cases hlt : hi < lo
  · simp only [hlt, if_true]
    constructor
    · intro h; exact absurd h matches_empty
    · rintro ⟨v, h1, h2, _⟩; omega
  · simp only [hlt, if_false]
    by_cases heq : lo / 262144 = hi / 262144
    · simp only [heq, if_true]
      rw [matches_seq]
      constructor
      · rintro ⟨u, w, rfl, hu, hw⟩
        obtain ⟨x, hx1, hx2, rfl⟩ := matches_byteRE.mp hu
        obtain ⟨r, hr1, hr2, rfl⟩ := (hin _ _ _).mp hw
        refine ⟨262144 * (hi / 262144) + r, by omega, by omega, ?_⟩
        have e1 : (262144 * (hi / 262144) + r) / 262144 = hi / 262144 := by omega
        have e2 : (262144 * (hi / 262144) + r) % 262144 = r := by omega
        have e3 : x = off + hi / 262144 := by omega
        rw [e1, e2, e3]; rfl
      · rintro ⟨v, h1, h2, rfl⟩
        refine ⟨[off + v / 262144], ib (v % 262144), rfl, ?_, ?_⟩
        · exact matches_byteRE.mpr ⟨_, by omega, by omega, rfl⟩
        · exact (hin _ _ _).mpr ⟨v % 262144, by omega, by omega, rfl⟩
    · simp only [heq, if_false]
      simp only [matches_alt, matches_seq]
      constructor
      · rintro (⟨u, w, rfl, hu, hw⟩ | ⟨u, w, rfl, hu, hw⟩ | ⟨u, w, rfl, hu, hw⟩)
        · obtain ⟨x, hx1, hx2, rfl⟩ := matches_byteRE.mp hu
          obtain ⟨r, hr1, hr2, rfl⟩ := (hin _ _ _).mp hw
          refine ⟨262144 * (lo / 262144) + r, by omega, by omega, ?_⟩
          have e1 : (262144 * (lo / 262144) + r) / 262144 = lo / 262144 := by omega
          have e2 : (262144 * (lo / 262144) + r) % 262144 = r := by omega
          have e3 : x = off + lo / 262144 := by omega
          rw [e1, e2, e3]; rfl
        · obtain ⟨x, hx1, hx2, rfl⟩ := matches_byteRE.mp hu
          obtain ⟨r, hr1, hr2, rfl⟩ := (hin _ _ _).mp hw
          refine ⟨262144 * (x - off) + r, by omega, by omega, ?_⟩
          have e1 : (262144 * (x - off) + r) / 262144 = x - off := by omega
          have e2 : (262144 * (x - off) + r) % 262144 = r := by omega
          have e3 : x = off + (x - off) := by omega
          rw [e1, e2]; conv => lhs; rw [e3]
          rfl
        · obtain ⟨x, hx1, hx2, rfl⟩ := matches_byteRE.mp hu
          obtain ⟨r, hr1, hr2, rfl⟩ := (hin _ _ _).mp hw
          refine ⟨262144 * (hi / 262144) + r, by omega, by omega, ?_⟩
          have e1 : (262144 * (hi / 262144) + r) / 262144 = hi / 262144 := by omega
          have e2 : (262144 * (hi / 262144) + r) % 262144 = r := by omega
          have e3 : x = off + hi / 262144 := by omega
          rw [e1, e2, e3]; rfl
      · rintro ⟨v, h1, h2, rfl⟩
        by_cases c1 : v / 262144 = lo / 262144
        · left
          refine ⟨[off + v / 262144], ib (v % 262144), rfl, ?_, ?_⟩
          · exact matches_byteRE.mpr ⟨_, by omega, by omega, rfl⟩
          · exact (hin _ _ _).mpr ⟨v % 262144, by omega, by omega, rfl⟩
        · by_cases c2 : v / 262144 = hi / 262144
          · right; right
            refine ⟨[off + v / 262144], ib (v % 262144), rfl, ?_, ?_⟩
            · exact matches_byteRE.mpr ⟨_, by omega, by omega, rfl⟩
            · exact (hin _ _ _).mpr ⟨v % 262144, by omega, by omega, rfl⟩
          · right; left
            refine ⟨[off + v / 262144], ib (v % 262144), rfl, ?_, ?_⟩
            · exact matches_byteRE.mpr ⟨_, by omega, by omega, rfl⟩
            · exact (hin _ _ _).mpr ⟨v % 262144, by omega, by omega, rfl⟩

/-! ## continuation octets and lead octets -/

def c1 (lo hi : Nat) : RE := byteRE (0x80 + lo) (0x80 + hi)
def c2 : Nat → Nat → RE := stepRE 0x80 64 c1
def c3 : Nat → Nat → RE := stepRE 0x80 4096 c2
def l2 : Nat → Nat → RE := stepRE 0xC0 64 c1
def l3 : Nat → Nat → RE := stepRE 0xE0 4096 c2
def l4 : Nat → Nat → RE := stepRE 0xF0 262144 c3

theorem c1_sem (lo hi : Nat) (bs : List Nat) :
    Matches (c1 lo hi) bs ↔ ∃ v, lo ≤ v ∧ v ≤ hi ∧ bs = [0x80 + v] := by
  unfold c1
  rw [matches_byteRE]
  constructor
  · rintro ⟨x, h1, h2, rfl⟩
    refine ⟨x - 0x80, by omega, by omega, ?_⟩
    have : 0x80 + (x - 0x80) = x := by omega
    rw [this]
  · rintro ⟨v, h1, h2, rfl⟩
    exact ⟨0x80 + v, by omega, by omega, rfl⟩

theorem c2_sem (lo hi : Nat) (bs : List Nat) :
    Matches (c2 lo hi) bs ↔ ∃ v, lo ≤ v ∧ v ≤ hi ∧ bs = [0x80 + v / 64, 0x80 + v % 64] :=
  step_sem_64 c1 (fun v => [0x80 + v]) c1_sem 0x80 lo hi bs

theorem c3_sem (lo hi : Nat) (bs : List Nat) :
    Matches (c3 lo hi) bs ↔ ∃ v, lo ≤ v ∧ v ≤ hi ∧
      bs = [0x80 + v / 4096, 0x80 + (v % 4096) / 64, 0x80 + (v % 4096) % 64] :=
  step_sem_4096 c2 (fun v => [0x80 + v / 64, 0x80 + v % 64]) c2_sem 0x80 lo hi bs

theorem l2_sem (lo hi : Nat) (bs : List Nat) :
    Matches (l2 lo hi) bs ↔ ∃ v, lo ≤ v ∧ v ≤ hi ∧ bs = [0xC0 + v / 64, 0x80 + v % 64] :=
  step_sem_64 c1 (fun v => [0x80 + v]) c1_sem 0xC0 lo hi bs

theorem l3_sem (lo hi : Nat) (bs : List Nat) :
    Matches (l3 lo hi) bs ↔ ∃ v, lo ≤ v ∧ v ≤ hi ∧
      bs = [0xE0 + v / 4096, 0x80 + (v % 4096) / 64, 0x80 + (v % 4096) % 64] :=
  step_sem_4096 c2 (fun v => [0x80 + v / 64, 0x80 + v % 64]) c2_sem 0xE0 lo hi bs

theorem l4_sem (lo hi : Nat) (bs : List Nat) :
    Matches (l4 lo hi) bs ↔ ∃ v, lo ≤ v ∧ v ≤ hi ∧
      bs = [0xF0 + v / 262144, 0x80 + (v % 262144) / 4096, 0x80 + ((v % 262144) % 4096) / 64,
        0x80 + ((v % 262144) % 4096) % 64] :=
  step_sem_262144 c3 (fun v => [0x80 + v / 4096, 0x80 + (v % 4096) / 64, 0x80 + (v % 4096) % 64]) c3_sem 0xF0 lo hi bs

/-- the encodings of the scalars `≥ 0x80` of one range -/
def encHiRange (p : Nat × Nat) : RE :=
  alt (l2 (max p.1 0x80) (min p.2 0x7FF))
    (alt (l3 (max p.1 0x800) (min p.2 0xFFFF)) (l4 (max p.1 0x10000) (min p.2 0x10FFFF)))

theorem encHiRange_sem (p : Nat × Nat) (bs : List Nat) :
    Matches (encHiRange p) bs ↔
      ∃ v, p.1 ≤ v ∧ v ≤ p.2 ∧ 0x80 ≤ v ∧ v ≤ 0x10FFFF ∧ bs = utf8EncodeOne v := by
  unfold encHiRange
  simp only [matches_alt, l2_sem, l3_sem, l4_sem]
  constructor
  · rintro (⟨v, h1, h2, rfl⟩ | ⟨v, h1, h2, rfl⟩ | ⟨v, h1, h2, rfl⟩)
    · refine ⟨v, by omega, by omega, by omega, by omega, ?_⟩
      have e1 : ¬ v < 128 := by omega
      have e2 : v < 2048 := by omega
      simp [utf8EncodeOne, e1, e2]
    · refine ⟨v, by omega, by omega, by omega, by omega, ?_⟩
      have e1 : ¬ v < 128 := by omega
      have e2 : ¬ v < 2048 := by omega
      have e3 : v < 65536 := by omega
      simp only [utf8EncodeOne, e1, e2, e3, if_true, if_false]
      have a1 : (v % 4096) / 64 = (v / 64) % 64 := by omega
      have a2 : (v % 4096) % 64 = v % 64 := by omega
      rw [a1, a2]
    · refine ⟨v, by omega, by omega, by omega, by omega, ?_⟩
      have e1 : ¬ v < 128 := by omega
      have e2 : ¬ v < 2048 := by omega
      have e3 : ¬ v < 65536 := by omega
      simp only [utf8EncodeOne, e1, e2, e3, if_false]
      have a1 : (v % 262144) / 4096 = (v / 4096) % 64 := by omega
      have a2 : ((v % 262144) % 4096) / 64 = (v / 64) % 64 := by omega
      have a3 : ((v % 262144) % 4096) % 64 = v % 64 := by omega
      rw [a1, a2, a3]
  · rintro ⟨v, h1, h2, h3, h4, rfl⟩
    by_cases a : v < 2048
    · left
      refine ⟨v, by omega, by omega, ?_⟩
      have e1 : ¬ v < 128 := by omega
      simp [utf8EncodeOne, e1, a]
    · by_cases b : v < 65536
      · right; left
        refine ⟨v, by omega, by omega, ?_⟩
        have e1 : ¬ v < 128 := by omega
        simp only [utf8EncodeOne, e1, a, b, if_true, if_false]
        have a1 : (v % 4096) / 64 = (v / 64) % 64 := by omega
        have a2 : (v % 4096) % 64 = v % 64 := by omega
        rw [a1, a2]
      · right; right
        refine ⟨v, by omega, by omega, ?_⟩
        have e1 : ¬ v < 128 := by omega
        simp only [utf8EncodeOne, e1, a, b, if_false]
        have a1 : (v % 262144) / 4096 = (v / 4096) % 64 := by omega
        have a2 : ((v % 262144) % 4096) / 64 = (v / 64) % 64 := by omega
        have a3 : ((v % 262144) % 4096) % 64 = v % 64 := by omega
        rw [a1, a2, a3]

/-- the encodings of the scalars `≥ 0x80` of a class -/
def encHi : Ranges → RE
  | [] => empty
  | p :: rs => alt (encHiRange p) (encHi rs)

theorem encHi_sem (rs : Ranges) (bs : List Nat) :
    Matches (encHi rs) bs ↔ ∃ v, inCls rs v = true ∧ 0x80 ≤ v ∧ v ≤ 0x10FFFF ∧ bs = utf8EncodeOne v := by
  induction rs with
  | nil =>
    simp only [encHi, inCls]
    constructor
    · intro h; exact absurd h matches_empty
    · rintro ⟨_, h, _⟩; cases h
  | cons p rs ih =>
    simp only [encHi, matches_alt, encHiRange_sem, ih, inCls, Bool.or_eq_true, Bool.and_eq_true, Nat.ble_eq]
    constructor
    · rintro (⟨v, h1, h2, h3, h4, h5⟩ | ⟨v, h1, h3, h4, h5⟩)
      · exact ⟨v, .inl ⟨h1, h2⟩, h3, h4, h5⟩
      · exact ⟨v, .inr h1, h3, h4, h5⟩
    · rintro ⟨v, (⟨h1, h2⟩ | h1), h3, h4, h5⟩
      · exact .inl ⟨v, h1, h2, h3, h4, h5⟩
      · exact .inr ⟨v, h1, h3, h4, h5⟩

end IrefVerif.Lemmas
