/-!
# Lawful three-way comparisons and their lexicographic combinations

`LawfulCmp cmp`: the `equal` outcome is exactly equality, swapping the operands swaps the
outcome, and `<` is transitive — i.e. `cmp` is a total order.  Closed under `Option` (absent
first), lists (prefix first), lexicographic pairs, and pull-back along an injective function.
This is how `#[derive(PartialOrd, Ord)]` builds the order of a struct from those of its fields.
-/

namespace IrefVerif.Lex

structure LawfulCmp {α : Type} (cmp : α → α → Ordering) : Prop where
  eq_iff : ∀ a b, cmp a b = .eq ↔ a = b
  swap : ∀ a b, cmp b a = (cmp a b).swap
  lt_trans : ∀ a b c, cmp a b = .lt → cmp b c = .lt → cmp a c = .lt

theorem LawfulCmp.refl {α : Type} {cmp : α → α → Ordering} (h : LawfulCmp cmp) (a : α) : cmp a a = .eq :=
  (h.eq_iff a a).mpr rfl

theorem LawfulCmp.gt_iff {α : Type} {cmp : α → α → Ordering} (h : LawfulCmp cmp) (a b : α) :
    cmp a b = .gt ↔ cmp b a = .lt := by
  rw [h.swap a b]
  cases cmp a b <;> simp [Ordering.swap]

/-- the total-order law in the form collections rely on: exactly one of `<`, `=`, `>` -/
theorem LawfulCmp.trichotomy {α : Type} {cmp : α → α → Ordering} (h : LawfulCmp cmp) (a b : α) :
    (cmp a b = .lt ∧ a ≠ b ∧ cmp b a = .gt) ∨ (cmp a b = .eq ∧ a = b ∧ cmp b a = .eq) ∨
    (cmp a b = .gt ∧ a ≠ b ∧ cmp b a = .lt) := by
  have hs := h.swap a b
  cases hc : cmp a b with
  | lt =>
    refine .inl ⟨rfl, ?_, by rw [hs, hc]; rfl⟩
    intro e; have := (h.eq_iff a b).mpr e; rw [hc] at this; cases this
  | eq => exact .inr (.inl ⟨rfl, (h.eq_iff a b).mp hc, by rw [hs, hc]; rfl⟩)
  | gt =>
    refine .inr (.inr ⟨rfl, ?_, by rw [hs, hc]; rfl⟩)
    intro e; have := (h.eq_iff a b).mpr e; rw [hc] at this; cases this

/-! ## lexicographic chaining -/

def thenC (o : Ordering) (p : Ordering) : Ordering :=
  match o with
  | .eq => p
  | o => o

@[simp] theorem thenC_eq (p : Ordering) : thenC .eq p = p := rfl
@[simp] theorem thenC_lt (p : Ordering) : thenC .lt p = .lt := rfl
@[simp] theorem thenC_gt (p : Ordering) : thenC .gt p = .gt := rfl

theorem thenC_swap (o p : Ordering) : (thenC o p).swap = thenC o.swap p.swap := by
  cases o <;> rfl

theorem thenC_eq_iff (o p : Ordering) : thenC o p = .eq ↔ o = .eq ∧ p = .eq := by
  cases o <;> simp

theorem thenC_lt_iff (o p : Ordering) : thenC o p = .lt ↔ o = .lt ∨ (o = .eq ∧ p = .lt) := by
  cases o <;> simp

/-- lexicographic pair -/
theorem lawful_lex {α β γ : Type} {c1 : β → β → Ordering} {c2 : γ → γ → Ordering}
    (f : α → β) (g : α → γ) (inj : ∀ a b, f a = f b → g a = g b → a = b)
    (h1 : LawfulCmp c1) (h2 : LawfulCmp c2) :
    LawfulCmp (fun a b : α => thenC (c1 (f a) (f b)) (c2 (g a) (g b))) where
  eq_iff a b := by
    simp only [thenC_eq_iff, h1.eq_iff, h2.eq_iff]
    constructor
    · rintro ⟨e1, e2⟩; exact inj a b e1 e2
    · rintro rfl; exact ⟨rfl, rfl⟩
  swap a b := by
    simp only [thenC_swap, ← h1.swap, ← h2.swap]
  lt_trans a b c := by
    simp only [thenC_lt_iff, h1.eq_iff]
    rintro (hab | ⟨eab, hab⟩) (hbc | ⟨ebc, hbc⟩)
    · exact .inl (h1.lt_trans _ _ _ hab hbc)
    · rw [← ebc]; exact .inl hab
    · rw [eab]; exact .inl hbc
    · exact .inr ⟨eab.trans ebc, h2.lt_trans _ _ _ hab hbc⟩

/-- pull-back along an injective function -/
theorem lawful_map {α β : Type} {c : β → β → Ordering} (f : α → β) (inj : ∀ a b, f a = f b → a = b)
    (h : LawfulCmp c) : LawfulCmp (fun a b : α => c (f a) (f b)) where
  eq_iff a b := by
    rw [h.eq_iff]
    exact ⟨inj a b, fun e => by rw [e]⟩
  swap a b := h.swap _ _
  lt_trans a b c := h.lt_trans _ _ _

/-! ## `Option`: absent first -/

def optC {α : Type} (cmp : α → α → Ordering) : Option α → Option α → Ordering
  | none, none => .eq
  | none, some _ => .lt
  | some _, none => .gt
  | some a, some b => cmp a b

theorem lawful_opt {α : Type} {cmp : α → α → Ordering} (h : LawfulCmp cmp) : LawfulCmp (optC cmp) where
  eq_iff a b := by
    cases a <;> cases b <;> simp [optC, h.eq_iff]
  swap a b := by
    cases a with
    | none => cases b <;> simp [optC, Ordering.swap]
    | some x =>
      cases b with
      | none => simp [optC, Ordering.swap]
      | some y => exact h.swap x y
  lt_trans a b c := by
    cases a <;> cases b <;> cases c <;> simp [optC]
    exact h.lt_trans _ _ _

/-! ## lists: element-wise, a proper prefix first -/

def listC {α : Type} (cmp : α → α → Ordering) : List α → List α → Ordering
  | [], [] => .eq
  | _ :: _, [] => .gt
  | [], _ :: _ => .lt
  | a :: as, b :: bs => thenC (cmp a b) (listC cmp as bs)

theorem lawful_list {α : Type} {cmp : α → α → Ordering} (h : LawfulCmp cmp) : LawfulCmp (listC cmp) where
  eq_iff a := by
    induction a with
    | nil => intro b; cases b <;> simp [listC]
    | cons x a ih =>
      intro b
      cases b with
      | nil => simp [listC]
      | cons y b => simp [listC, thenC_eq_iff, h.eq_iff, ih]
  swap a := by
    induction a with
    | nil => intro b; cases b <;> simp [listC, Ordering.swap]
    | cons x a ih =>
      intro b
      cases b with
      | nil => simp [listC, Ordering.swap]
      | cons y b => simp only [listC, thenC_swap, ← h.swap, ← ih]
  lt_trans a := by
    induction a with
    | nil =>
      intro b c
      cases b <;> cases c <;> simp [listC]
    | cons x a ih =>
      intro b c
      cases b with
      | nil => simp [listC]
      | cons y b =>
        cases c with
        | nil => simp [listC]
        | cons z c =>
          simp only [listC, thenC_lt_iff, h.eq_iff]
          rintro (hab | ⟨eab, hab⟩) (hbc | ⟨ebc, hbc⟩)
          · exact .inl (h.lt_trans _ _ _ hab hbc)
          · rw [← ebc]; exact .inl hab
          · rw [eab]; exact .inl hbc
          · exact .inr ⟨eab.trans ebc, ih _ _ hab hbc⟩

/-! ## `bool`: `false < true` -/

def boolC (a b : Bool) : Ordering :=
  if a == b then .eq else if a then .gt else .lt

theorem lawful_bool : LawfulCmp boolC where
  eq_iff a b := by cases a <;> cases b <;> simp [boolC]
  swap a b := by cases a <;> cases b <;> simp [boolC, Ordering.swap]
  lt_trans a b c := by cases a <;> cases b <;> cases c <;> simp [boolC]

end IrefVerif.Lex
