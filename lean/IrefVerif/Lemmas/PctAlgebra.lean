import IrefVerif.Lemmas.PctBytes

/-!
# Algebra of percent-decoding

`pctDecode` reads "each `%XX` replaced by that octet, everything else kept": stated here as
equations (`pctDecode_plain`, `pctDecode_escape`), as a homomorphism for concatenation behind a
well-escaped text (`pctDecode_append`: components decode independently of what follows them), with
its length bound, and with a right inverse (`pctDecode_encodeAll`: every octet string is the
decoded view of a well-escaped text).
-/

namespace IrefVerif.Lemmas
open IrefVerif.Spec

theorem pctDecode_plain (c : Nat) (t : Text) (h : (c == cPct) = false) :
    pctDecode (c :: t) = c :: pctDecode t := by
  match t with
  | [] => rfl
  | [a] => rfl
  | a :: b :: rest => simp [pctDecode, h]

theorem pctDecode_escape (a b x y : Nat) (t : Text) (ha : hexVal a = some x) (hb : hexVal b = some y) :
    pctDecode (cPct :: a :: b :: t) = (16 * x + y) :: pctDecode t := by
  simp [pctDecode, ha, hb]

theorem wellEscaped_plain (c : Nat) (t : Text) (h : (c == cPct) = false) :
    wellEscaped (c :: t) = wellEscaped t := by
  match t with
  | [] => simp [wellEscaped, h]
  | [a] => simp [wellEscaped, h]
  | a :: b :: rest => simp [wellEscaped, h]

theorem wellEscaped_escape (a b : Nat) (t : Text) :
    wellEscaped (cPct :: a :: b :: t) = ((hexVal a).isSome && (hexVal b).isSome && wellEscaped t) := by
  simp [wellEscaped]

theorem pctDecode_length_le (x : Text) : (pctDecode x).length ≤ x.length := by
  fun_induction pctDecode x <;> simp_all <;> omega

/-- **decoding is a homomorphism behind a well-escaped text**: what follows a component never
changes how the component decodes -/
theorem pctDecode_append : ∀ (a b : Text), wellEscaped a = true →
    pctDecode (a ++ b) = pctDecode a ++ pctDecode b
  | [], b, _ => by simp [pctDecode]
  | c :: t, b, h => by
    by_cases hc : (c == cPct) = true
    · have hc' : c = cPct := by simpa using hc
      subst hc'
      match t, h with
      | [], h => simp [wellEscaped] at h
      | [a], h => simp [wellEscaped] at h
      | x :: y :: rest, h =>
        rw [wellEscaped_escape] at h
        simp only [Bool.and_eq_true] at h
        obtain ⟨⟨hx, hy⟩, hr⟩ := h
        obtain ⟨vx, hvx⟩ := Option.isSome_iff_exists.mp hx
        obtain ⟨vy, hvy⟩ := Option.isSome_iff_exists.mp hy
        have ih := pctDecode_append rest b hr
        simp only [List.cons_append]
        rw [pctDecode_escape x y vx vy _ hvx hvy, pctDecode_escape x y vx vy _ hvx hvy, ih]
        rfl
    · have hc' : (c == cPct) = false := by simpa using hc
      rw [wellEscaped_plain c t hc'] at h
      have ih := pctDecode_append t b h
      simp only [List.cons_append]
      rw [pctDecode_plain c _ hc', pctDecode_plain c _ hc', ih]
      rfl

/-! ## a right inverse -/

def hexDigit (n : Nat) : Nat := if n < 10 then n + 0x30 else n + 0x37

def pctEncodeAll : List Nat → Text
  | [] => []
  | b :: bs => cPct :: hexDigit (b / 16) :: hexDigit (b % 16) :: pctEncodeAll bs

theorem hexVal_digit (n : Nat) (h : n < 16) : hexVal (hexDigit n) = some n := by
  unfold hexDigit
  split
  · have a1 : 0x30 ≤ n + 0x30 ∧ n + 0x30 ≤ 0x39 := by omega
    simp only [hexVal, Bool.and_eq_true, decide_eq_true_eq]
    rw [if_pos a1]
    exact congrArg some (by omega)
  · have a1 : ¬ (0x30 ≤ n + 0x37 ∧ n + 0x37 ≤ 0x39) := by omega
    have a2 : 0x41 ≤ n + 0x37 ∧ n + 0x37 ≤ 0x46 := by omega
    simp only [hexVal, Bool.and_eq_true, decide_eq_true_eq]
    rw [if_neg a1, if_pos a2]
    exact congrArg some (by omega)

/-- every octet string is the decoded view of a well-escaped text -/
theorem pctDecode_encodeAll : ∀ (l : List Nat), (∀ b ∈ l, b < 256) →
    wellEscaped (pctEncodeAll l) = true ∧ pctDecode (pctEncodeAll l) = l
  | [], _ => by simp [pctEncodeAll, wellEscaped, pctDecode]
  | b :: bs, h => by
    have hb := h b (by simp)
    obtain ⟨w, d⟩ := pctDecode_encodeAll bs (fun x hx => h x (by simp [hx]))
    have v1 := hexVal_digit (b / 16) (by omega)
    have v2 := hexVal_digit (b % 16) (by omega)
    refine ⟨?_, ?_⟩
    · rw [pctEncodeAll, wellEscaped_escape, v1, v2, w]; rfl
    · rw [pctEncodeAll, pctDecode_escape _ _ _ _ _ v1 v2, d]
      exact congrArg (· :: bs) (by omega)

end IrefVerif.Lemmas
