import IrefVerif.Lemmas.NormList
import IrefVerif.Lemmas.SymAppend
import IrefVerif.Lemmas.RemoveDots

/-!
# The normalized copy realises the §5.2.4 target in every case, and is idempotent

`nrmCopy p` (the text `PathImpl::normalized` returns) realises `normTarget p` — the normalised
sequence plus the trailing empty segment of a final dot segment — literally or behind the one
legitimate `.` shield, keeps the path absolute or relative, and normalising it again changes
nothing.
-/

set_option linter.unusedSimpArgs false

namespace IrefVerif.Lemmas
open IrefVerif IrefVerif.Spec IrefVerif.Model

theorem needsShieldHead_snoc (N : List Text) (hne : N ≠ []) (s : Text) :
    needsShieldHead (N ++ [s]) = needsShieldHead N := by
  cases N with
  | nil => exact absurd rfl hne
  | cons a b => rfl

theorem is_empty_of_nsegs_nil {fa atStart : Bool} {p : Text} (hp : PathText p) (h : nsegs p = []) :
    Path.is_empty (normView fa atStart p) = true := by
  unfold normView
  simp only [normalized_segments_eq p hp, h, joinSegs_eq, joinSlash, List.append_nil]
  split <;> simp [Path.is_empty]

theorem isAbs_pushView_nonempty' (anch fa atStart : Bool) (v s : Text) (hne : Path.is_empty v = false) :
    isAbs (pushView anch fa atStart v s) = isAbs v := by
  unfold pushView
  have hve : v.isEmpty = false := by
    cases v with
    | nil => simp [Path.is_empty] at hne
    | cons c r => rfl
  simp only [hve, Bool.and_false, Bool.false_eq_true, if_false, hne]
  split
  · rename_i h
    simp only [Bool.and_eq_true, beq_iff_eq] at h
    rw [h.2]; rfl
  · cases v with
    | nil => simp [Path.is_empty] at hne
    | cons c r => rfl

theorem isAbs_pushView_nonempty (fa atStart : Bool) (v s : Text) (hne : Path.is_empty v = false) :
    isAbs (pushView false fa atStart v s) = isAbs v := by
  unfold pushView
  simp only [Bool.false_and, Bool.false_eq_true, if_false, hne]
  split
  · rename_i h
    simp only [Bool.and_eq_true, beq_iff_eq] at h
    rw [h.2]; rfl
  · cases v with
    | nil => simp [Path.is_empty] at hne
    | cons c r => rfl

/-- **the copy realises the target** -/
theorem nrmCopy_realises (p : Text) (hp : PathText p) :
    realises (nrmCopy p) (normTarget p) = true ∧ isAbs (nrmCopy p) = isAbs p := by
  obtain ⟨hr, ha⟩ := normView_realises true true p hp
  unfold nrmCopy normTarget
  simp only []
  by_cases hc : (dotEnd p && !Path.is_empty (normView true true p)) = true
  · simp only [hc, if_true]
    simp only [Bool.and_eq_true, Bool.not_eq_true'] at hc
    have hne : nsegs p ≠ [] := by
      intro e
      have := is_empty_of_nsegs_nil (fa := true) (atStart := true) hp e
      rw [this] at hc; exact absurd hc.2 (by simp)
    have hne' : (nsegs p).isEmpty = false := by cases h : nsegs p <;> simp_all
    simp only [hc.1, hne', Bool.not_false, Bool.and_self, if_true]
    refine ⟨?_, by rw [isAbs_pushView_nonempty _ _ _ _ hc.2, ha]⟩
    · have hnd : segDot ∉ nsegs p := nsegsOf_noDot _ _
      rcases pushView_realises false true true (normView true true p) [] (by simp) with h | h
      · -- the literal list of the normalised text is `N` or `. :: N`
        rcases realises_cases hr with e | e
        · rw [e] at h; exact h
        · rw [e] at h
          rcases realises_cases h with e2 | e2
          · simp only [realises, Bool.or_eq_true, decide_eq_true_eq, Bool.and_eq_true]
            right
            constructor
            · rw [needsShieldHead_snoc _ hne]
              simp only [realises, Bool.or_eq_true, decide_eq_true_eq, Bool.and_eq_true] at hr
              rcases hr with hr | hr
              · rw [hr] at e
                have := congrArg List.length e
                simp at this
              · exact hr.1
            · rw [e2]; rfl
          · -- a second shield in front of `.` is impossible
            simp only [realises, Bool.or_eq_true, decide_eq_true_eq, Bool.and_eq_true] at h
            rcases h with h | ⟨h, _⟩
            · rw [h] at e2
              have := congrArg List.length e2
              simp at this
            · simp [needsShieldHead, segDot, containsColon, cDot, cColon] at h
      · have hal : alist (normView true true p) = nsegs p := by
          rcases alist_cases (normView true true p) with e | ⟨r, e1, e2⟩
          · rcases realises_cases hr with e' | e'
            · rw [e, e']
            · -- `. :: N` with a shield-needing `N`: `alist` strips it, so this case is the other one
              rw [e']  at e
              unfold alist at e
              rw [e'] at e
              simp only [realises, Bool.or_eq_true, decide_eq_true_eq, Bool.and_eq_true] at hr
              rcases hr with hr | hr
              · rw [hr] at e'
                have := congrArg List.length e'
                simp at this
              · simp [hr.1] at e
          · rcases realises_cases hr with e' | e'
            · rw [e'] at e1
              cases hN : nsegs p with
              | nil => exact absurd hN hne
              | cons a b =>
                rw [hN] at e1
                simp only [List.cons.injEq] at e1
                exact absurd (e1.1 ▸ (hN ▸ List.mem_cons_self : a ∈ nsegs p)) hnd
            · rw [e'] at e1
              simp only [List.cons.injEq, true_and] at e1
              rw [e2, e1]
        rw [hal] at h
        exact h
  · have hc' : (dotEnd p && !Path.is_empty (normView true true p)) = false := by simpa using hc
    simp only [hc', Bool.false_eq_true, if_false]
    refine ⟨?_, ha⟩
    by_cases hd : dotEnd p = true
    · rw [hd] at hc'
      have hem : Path.is_empty (normView true true p) = true := by simpa using hc'
      have hN : nsegs p = [] := by
        have hs := is_empty_segs hem
        rcases realises_cases hr with e | e
        · rw [← e, hs]
        · rw [hs] at e; cases e
      simp only [hN, List.isEmpty_nil, Bool.not_true, Bool.and_false, Bool.false_eq_true, if_false, List.append_nil]
      rw [← hN]; exact hr
    · have hd' : dotEnd p = false := by simpa using hd
      simp only [hd', Bool.false_and, Bool.false_eq_true, if_false, List.append_nil]
      exact hr

/-- `normalize`, then the trailing empty segment of a final dot segment, in any context -/
theorem closeNorm_realises (anch fa atStart : Bool) (p : Text) (hp : PathText p) :
    realises (if dotEnd p && !Path.is_empty (normView fa atStart p) then pushView anch fa atStart (normView fa atStart p) []
      else normView fa atStart p) (normTarget p) = true ∧
    isAbs (if dotEnd p && !Path.is_empty (normView fa atStart p) then pushView anch fa atStart (normView fa atStart p) []
      else normView fa atStart p) = isAbs p := by
  obtain ⟨hr, ha⟩ := normView_realises fa atStart p hp
  unfold normTarget
  by_cases hc : (dotEnd p && !Path.is_empty (normView fa atStart p)) = true
  · simp only [hc, if_true]
    simp only [Bool.and_eq_true, Bool.not_eq_true'] at hc
    have hne : nsegs p ≠ [] := by
      intro e
      have := is_empty_of_nsegs_nil (fa := fa) (atStart := atStart) hp e
      rw [this] at hc; exact absurd hc.2 (by simp)
    have hne' : (nsegs p).isEmpty = false := by cases h : nsegs p <;> simp_all
    simp only [hc.1, hne', Bool.not_false, Bool.and_self, if_true]
    refine ⟨?_, by rw [isAbs_pushView_nonempty' _ _ _ _ _ hc.2, ha]⟩
    · have hnd : segDot ∉ nsegs p := nsegsOf_noDot _ _
      rcases pushView_realises anch fa atStart (normView fa atStart p) [] (by simp) with h | h
      · -- the literal list of the normalised text is `N` or `. :: N`
        rcases realises_cases hr with e | e
        · rw [e] at h; exact h
        · rw [e] at h
          rcases realises_cases h with e2 | e2
          · simp only [realises, Bool.or_eq_true, decide_eq_true_eq, Bool.and_eq_true]
            right
            constructor
            · rw [needsShieldHead_snoc _ hne]
              simp only [realises, Bool.or_eq_true, decide_eq_true_eq, Bool.and_eq_true] at hr
              rcases hr with hr | hr
              · rw [hr] at e
                have := congrArg List.length e
                simp at this
              · exact hr.1
            · rw [e2]; rfl
          · -- a second shield in front of `.` is impossible
            simp only [realises, Bool.or_eq_true, decide_eq_true_eq, Bool.and_eq_true] at h
            rcases h with h | ⟨h, _⟩
            · rw [h] at e2
              have := congrArg List.length e2
              simp at this
            · simp [needsShieldHead, segDot, containsColon, cDot, cColon] at h
      · have hal : alist (normView fa atStart p) = nsegs p := by
          rcases alist_cases (normView fa atStart p) with e | ⟨r, e1, e2⟩
          · rcases realises_cases hr with e' | e'
            · rw [e, e']
            · -- `. :: N` with a shield-needing `N`: `alist` strips it, so this case is the other one
              rw [e']  at e
              unfold alist at e
              rw [e'] at e
              simp only [realises, Bool.or_eq_true, decide_eq_true_eq, Bool.and_eq_true] at hr
              rcases hr with hr | hr
              · rw [hr] at e'
                have := congrArg List.length e'
                simp at this
              · simp [hr.1] at e
          · rcases realises_cases hr with e' | e'
            · rw [e'] at e1
              cases hN : nsegs p with
              | nil => exact absurd hN hne
              | cons a b =>
                rw [hN] at e1
                simp only [List.cons.injEq] at e1
                exact absurd (e1.1 ▸ (hN ▸ List.mem_cons_self : a ∈ nsegs p)) hnd
            · rw [e'] at e1
              simp only [List.cons.injEq, true_and] at e1
              rw [e2, e1]
        rw [hal] at h
        exact h
  · have hc' : (dotEnd p && !Path.is_empty (normView fa atStart p)) = false := by simpa using hc
    simp only [hc', Bool.false_eq_true, if_false]
    refine ⟨?_, ha⟩
    by_cases hd : dotEnd p = true
    · rw [hd] at hc'
      have hem : Path.is_empty (normView fa atStart p) = true := by simpa using hc'
      have hN : nsegs p = [] := by
        have hs := is_empty_segs hem
        rcases realises_cases hr with e | e
        · rw [← e, hs]
        · rw [hs] at e; cases e
      simp only [hN, List.isEmpty_nil, Bool.not_true, Bool.and_false, Bool.false_eq_true, if_false, List.append_nil]
      rw [← hN]; exact hr
    · have hd' : dotEnd p = false := by simpa using hd
      simp only [hd', Bool.false_and, Bool.false_eq_true, if_false, List.append_nil]
      exact hr


/-! ## idempotence of the copy -/

/-- does `normalize` write a `./` shield for this list (stand-alone path buffer)? -/
def canonShield (abs : Bool) (X : List Text) : Bool :=
  match X with
  | first :: _ => (first.isEmpty && (!abs || X.length == 1)) || (!abs && fsc first)
  | [] => false

/-- the text `normalize` writes for a segment list (stand-alone path buffer: `follows_authority`
and "at the start" both hold) -/
def canon (abs : Bool) (X : List Text) : Text :=
  (if abs then [cSlash] else []) ++ ((if canonShield abs X then [cDot, cSlash] else []) ++ joinSlash X)

theorem normView_eq_canon (p : Text) (hp : PathText p) : normView true true p = canon (isAbs p) (nsegs p) := by
  unfold normView canon canonShield
  have hrel : Path.is_relative p = !isAbs p := by unfold Path.is_relative; rw [is_absolute_eq]
  simp only [normalized_segments_eq p hp, joinSegs_eq, hrel, fsc_eq, Bool.not_true, Bool.or_false, Bool.and_true]
  cases nsegs p with
  | nil => simp
  | cons a b => rfl

theorem canon_is_empty (abs : Bool) (X : List Text) (hne : X ≠ []) (hns : ∀ s ∈ X, cSlash ∉ s) :
    Path.is_empty (canon abs X) = false := by
  unfold canon
  cases X with
  | nil => exact absurd rfl hne
  | cons first rest =>
    by_cases hsh : canonShield abs (first :: rest) = true
    · simp only [hsh, if_true]
      cases abs <;> simp [Path.is_empty, cDot, cSlash]
    · have hsh' : canonShield abs (first :: rest) = false := by simpa using hsh
      simp only [hsh', Bool.false_eq_true, if_false, List.nil_append]
      unfold canonShield at hsh'
      cases first with
      | nil =>
        cases rest with
        | nil => cases abs <;> simp at hsh'
        | cons t ts =>
          cases abs
          · simp at hsh'
          · simp [joinSlash, Path.is_empty]
      | cons c r =>
        have hc : c ≠ cSlash := fun e => hns (c :: r) List.mem_cons_self (e ▸ List.mem_cons_self)
        cases rest with
        | nil => cases abs <;> simp [joinSlash, Path.is_empty, hc]
        | cons t ts => cases abs <;> simp [joinSlash, Path.is_empty, hc]

/-- closing a canonical text with an empty segment gives the canonical text of the longer list -/
theorem push_canon (abs : Bool) (N : List Text) (hne : N ≠ []) (hns : ∀ s ∈ N, cSlash ∉ s) (hnd : segDot ∉ N) :
    pushView false true true (canon abs N) [] = canon abs (N ++ [[]]) := by
  have hem := canon_is_empty abs N hne hns
  unfold pushView
  simp only [Bool.false_and, Bool.false_eq_true, if_false, hem, Bool.true_and]
  cases N with
  | nil => exact absurd rfl hne
  | cons first rest =>
    by_cases hlone : abs = true ∧ first = [] ∧ rest = []
    · obtain ⟨rfl, rfl, rfl⟩ := hlone
      decide
    · -- the shield does not depend on the length here
      have hsh : canonShield abs ((first :: rest) ++ [[]]) = canonShield abs (first :: rest) := by
        unfold canonShield
        cases abs
        · simp
        · simp only [Bool.not_true, Bool.false_or, Bool.false_and, Bool.or_false, List.length_cons,
            List.length_append, List.length_nil, List.cons_append]
          cases hf : first.isEmpty
          · simp
          · have hfe : first = [] := by simpa using hf
            cases rest with
            | nil => exact absurd ⟨rfl, hfe, rfl⟩ hlone
            | cons t ts => simp
      have hcan : canon abs ((first :: rest) ++ [[]]) = canon abs (first :: rest) ++ [cSlash] := by
        unfold canon
        rw [hsh, joinSlash_snoc_nil _ (by simp)]
        simp [List.append_assoc]
      rw [hcan]
      have hnot : (canon abs (first :: rest) == [cSlash, cDot, cSlash]) = false := by
        unfold canon
        by_cases hs2 : canonShield abs (first :: rest) = true
        · simp only [hs2, if_true]
          cases abs
          · simp [cDot, cSlash]
          · -- absolute and shielded: only the lone empty segment, excluded
            unfold canonShield at hs2
            simp only [Bool.not_true, Bool.false_or, Bool.false_and, Bool.or_false, Bool.and_eq_true] at hs2
            have hf : first = [] := by simpa using hs2.1
            have hr : rest = [] := by
              have := hs2.2
              simp only [List.length_cons, beq_iff_eq] at this
              cases rest with
              | nil => rfl
              | cons x xs => simp at this
            exact absurd ⟨rfl, hf, hr⟩ hlone
        · have hs2' : canonShield abs (first :: rest) = false := by simpa using hs2
          simp only [hs2', Bool.false_eq_true, if_false, List.nil_append]
          cases abs
          · simp only [Bool.false_eq_true, if_false, List.nil_append]
            unfold canonShield at hs2'
            cases first with
            | nil => simp at hs2'
            | cons c r =>
              have hc : c ≠ cSlash := fun e => hns (c :: r) List.mem_cons_self (e ▸ List.mem_cons_self)
              cases rest with
              | nil => simp [joinSlash, hc]
              | cons t ts => simp [joinSlash, hc]
          · have := joinSlash_ne_dotSlash (first :: rest) hns hnd
            simp only [if_true, List.singleton_append, beq_eq_false_iff_ne, ne_eq, List.cons.injEq, true_and]
            exact this
      simp only [hnot, Bool.false_eq_true, if_false]

theorem nsegsOf_snoc (abs : Bool) (L : List Text) (s : Text) (h1 : s ≠ segDot) (h2 : s ≠ segDotDot) :
    nsegsOf abs (L ++ [s]) = nsegsOf abs L ++ [s] := by
  unfold nsegsOf
  simp only [List.foldl_append, List.foldl_cons, List.foldl_nil, nstep, h1, h2, if_false, List.reverse_cons]

theorem nsegsOf_normTarget (p : Text) : nsegsOf (isAbs p) (normTarget p) = normTarget p := by
  unfold normTarget nsegs
  split
  · rw [nsegsOf_snoc _ _ _ (by decide) (by decide), nsegsOf_idem]
  · rw [List.append_nil, nsegsOf_idem]

theorem canon_nil_is_empty (abs : Bool) : Path.is_empty (canon abs []) = true := by
  cases abs <;> decide

/-- the copy is the canonical text of the target -/
theorem nrmCopy_eq_canon (p : Text) (hp : PathText p) : nrmCopy p = canon (isAbs p) (normTarget p) := by
  unfold nrmCopy normTarget
  simp only [normView_eq_canon p hp]
  have hns : ∀ s ∈ nsegs p, cSlash ∉ s := fun s hs => segs_no_slash _ s (nsegsOf_subset _ _ s hs)
  have hnd : segDot ∉ nsegs p := nsegsOf_noDot _ _
  by_cases hN : nsegs p = []
  · rw [hN]
    simp [canon_nil_is_empty]
  · have hem := canon_is_empty (isAbs p) (nsegs p) hN hns
    have hie : (nsegs p).isEmpty = false := by cases h : nsegs p <;> simp_all
    simp only [hem, hie, Bool.not_false, Bool.and_true]
    split
    · exact push_canon _ _ hN hns hnd
    · simp

/-- the last raw segment of the copy is not a dot segment -/
theorem dotEnd_nrmCopy (p : Text) (hp : PathText p) : dotEnd (nrmCopy p) = false := by
  obtain ⟨hr, _⟩ := nrmCopy_realises p hp
  have key : ∀ s, (normTarget p).getLast? = some s → s ≠ segDot ∧ s ≠ segDotDot := by
    intro s hs
    unfold normTarget at hs
    split at hs
    · simp at hs; subst hs; exact ⟨by decide, by decide⟩
    · rename_i hc
      rw [List.append_nil] at hs
      have hc' : (dotEnd p && !(nsegs p).isEmpty) = false := by simpa using hc
      have hne : nsegs p ≠ [] := by intro e; rw [e] at hs; cases hs
      have hie : (nsegs p).isEmpty = false := by cases h : nsegs p <;> simp_all
      rw [hie] at hc'
      have hd : dotEnd p = false := by simpa using hc'
      -- the raw last segment is not a dot segment, so it is the last normalised one
      have hsp : segs p ≠ [] := by
        intro e; apply hne; unfold nsegs; rw [e]; rfl
      obtain ⟨L, t, hLt⟩ : ∃ L t, segs p = L ++ [t] := ⟨(segs p).dropLast, (segs p).getLast hsp,
        (List.dropLast_concat_getLast hsp).symm⟩
      unfold dotEnd at hd
      rw [hLt] at hd
      simp only [List.getLast?_append, List.getLast?_singleton, Option.some_or, Bool.or_eq_false_iff,
        decide_eq_false_iff_not] at hd
      unfold nsegs at hs
      rw [hLt, nsegsOf_snoc _ _ _ hd.1 hd.2] at hs
      simp at hs; subst hs; exact hd
  unfold dotEnd
  rcases realises_cases hr with e | e
  · rw [e]
    cases hl : (normTarget p).getLast? with
    | none => rfl
    | some s =>
      obtain ⟨h1, h2⟩ := key s hl
      simp [h1, h2]
  · rw [e]
    cases hT : normTarget p with
    | nil =>
      -- a shield in front of nothing is not a reading
      simp only [realises, Bool.or_eq_true, decide_eq_true_eq, Bool.and_eq_true] at hr
      rw [hT] at hr e
      rcases hr with h | ⟨h, _⟩
      · rw [h] at e; cases e
      · simp [needsShieldHead] at h
    | cons a b =>
      rw [List.getLast?_cons_cons]
      have := key
      rw [hT] at this
      cases hl : (a :: b).getLast? with
      | none => rfl
      | some s =>
        obtain ⟨h1, h2⟩ := this s hl
        simp [h1, h2]

/-- **the normalized copy is idempotent** -/
theorem nrmCopy_idem (p : Text) (hp : PathText p) (hpq : PathText (nrmCopy p)) :
    nrmCopy (nrmCopy p) = nrmCopy p := by
  obtain ⟨hr, ha⟩ := nrmCopy_realises p hp
  have hn : nsegs (nrmCopy p) = normTarget p := by
    unfold nsegs
    rw [ha]
    rcases realises_cases hr with e | e
    · rw [e, nsegsOf_normTarget]
    · rw [e, nsegsOf_cons_dot, nsegsOf_normTarget]
  have hv : normView true true (nrmCopy p) = nrmCopy p := by
    rw [normView_eq_canon _ hpq, ha, hn, ← nrmCopy_eq_canon p hp]
  have hd := dotEnd_nrmCopy p hp
  generalize nrmCopy p = q at hv hd
  unfold nrmCopy
  simp only [hv, hd, Bool.false_and, Bool.false_eq_true, if_false]

theorem pathText_nrmCopy (p : Text) (hp : PathText p) : PathText (nrmCopy p) := by
  unfold nrmCopy
  simp only []
  split
  · exact pathText_pushView _ _ _ _ _ (pathText_normView _ _ _ hp) (by intro c hc; cases hc)
  · exact pathText_normView _ _ _ hp

/-- **idempotence, self-contained** -/
theorem nrmCopy_idempotent (p : Text) (hp : PathText p) : nrmCopy (nrmCopy p) = nrmCopy p :=
  nrmCopy_idem p hp (pathText_nrmCopy p hp)

/-! ## `remove_dot_segments` when at least two segments remain -/

/-- with two or more normalised segments the collapse rule of `remove_dot_segments` cannot fire, so
the text it writes realises the §5.2.4 target — literally or behind the `.` shield — in every
context: in particular where the RFC's own text would begin with `//` and be read as an authority -/
theorem rdsView_long (anch fa atStart : Bool) (p : Text) (hp : PathText p) (hlen : 2 ≤ (nsegs p).length) :
    realises (rdsView anch fa atStart p) (normTarget p) = true ∧ isAbs (rdsView anch fa atStart p) = isAbs p := by
  have hcl := closeNorm_realises anch fa atStart p hp
  unfold rdsView
  simp only []
  by_cases hc : (dotEnd p && !Path.is_empty (normView fa atStart p)) = true
  · simp only [hc, if_true] at hcl ⊢
    exact hcl
  · have hc' : (dotEnd p && !Path.is_empty (normView fa atStart p)) = false := by simpa using hc
    simp only [hc', Bool.false_eq_true, if_false] at hcl ⊢
    have hnot : (normView fa atStart p == [cSlash, cDot, cSlash] || normView fa atStart p == [cDot, cSlash]) = false := by
      unfold normView
      simp only [normalized_segments_eq p hp, joinSegs_eq]
      have hns : ∀ s ∈ nsegs p, cSlash ∉ s := fun s hs => segs_no_slash _ s (nsegsOf_subset _ _ s hs)
      have hnd : segDot ∉ nsegs p := nsegsOf_noDot _ _
      generalize nsegs p = N at hlen hns hnd
      match N, hlen, hns, hnd with
      | a :: b :: rest, _, hns, hnd =>
        have hj : joinSlash (a :: b :: rest) = a ++ cSlash :: joinSlash (b :: rest) := rfl
        have hne : joinSlash (a :: b :: rest) ≠ [] := by rw [hj]; cases a <;> simp
        have hnds := joinSlash_ne_dotSlash (a :: b :: rest) hns hnd
        have hrel : Path.is_relative p = !isAbs p := by unfold Path.is_relative; rw [is_absolute_eq]
        simp only [hrel]
        generalize hJ : joinSlash (a :: b :: rest) = J at hne hnds
        by_cases hsh : (a.isEmpty && (!isAbs p || !fa || (a :: b :: rest).length == 1) ||
            !isAbs p && atStart && Parse.first_segment_contains_colon a) = true
        · simp only [hsh, if_true]
          cases habs : isAbs p
          · -- `./` ++ J
            simp only [Bool.false_eq_true, if_false, List.nil_append, Bool.or_eq_false_iff, beq_eq_false_iff_ne, ne_eq]
            constructor
            · simp [cDot, cSlash]
            · intro h
              simp only [List.cons_append, List.nil_append, List.cons.injEq, true_and] at h
              exact hne h
          · simp only [if_true, Bool.or_eq_false_iff, beq_eq_false_iff_ne, ne_eq]
            constructor
            · intro h
              simp only [List.cons_append, List.nil_append, List.singleton_append, List.cons.injEq, true_and] at h
              exact hne h
            · simp [cDot, cSlash]
        · have hsh' : (a.isEmpty && (!isAbs p || !fa || (a :: b :: rest).length == 1) ||
              !isAbs p && atStart && Parse.first_segment_contains_colon a) = false := by simpa using hsh
          simp only [hsh', Bool.false_eq_true, if_false, List.nil_append]
          cases habs : isAbs p
          · -- J alone; its first segment is not empty (else the shield would be there)
            simp only [Bool.false_eq_true, if_false, List.nil_append, Bool.or_eq_false_iff, beq_eq_false_iff_ne, ne_eq]
            rw [habs] at hsh'
            refine ⟨?_, hnds⟩
            intro h
            cases a with
            | nil => simp at hsh'
            | cons c r =>
              rw [← hJ, hj] at h
              simp only [List.cons_append, List.cons.injEq] at h
              have hc : c ≠ cSlash := fun e => hns (c :: r) List.mem_cons_self (e ▸ List.mem_cons_self)
              exact hc h.1
          · simp only [if_true, Bool.or_eq_false_iff, beq_eq_false_iff_ne, ne_eq]
            constructor
            · intro h
              simp only [List.singleton_append, List.cons.injEq, true_and] at h
              exact hnds h
            · simp [cDot, cSlash]
    simp only [hnot, Bool.false_eq_true, if_false]
    exact hcl

end IrefVerif.Lemmas
