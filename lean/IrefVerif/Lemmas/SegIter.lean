import IrefVerif.Lemmas.Span
import IrefVerif.Lemmas.Segs
import IrefVerif.Model.Path

/-!
# The forward segment iterator yields the `/`-split

`Model.Path.segmentList p` (draining the two-offset iterator `SegmentsImpl` from the front)
equals `Spec.segs p`, for every text without `?` and `#` (every path).
-/

set_option linter.unusedSimpArgs false

namespace IrefVerif.Lemmas
open IrefVerif.Spec IrefVerif.Model IrefVerif.Model.Parse

/-- no `?`, no `#` -/
def PathText (p : Text) : Prop := ∀ c ∈ p, c ≠ cQuest ∧ c ≠ cHash

def nSl (c : Nat) : Bool := !(c == cSlash || c == cQuest || c == cHash)

/-- `splitSlash` at the first `/` -/
theorem splitSlash_span (rest : Text) (hp : PathText rest) :
    splitSlash rest =
      match rest.drop (spanLen nSl rest) with
      | [] => [rest.take (spanLen nSl rest)]
      | _ :: rest' => rest.take (spanLen nSl rest) :: splitSlash rest' := by
  induction rest with
  | nil => rfl
  | cons c rest ih =>
    have hc := hp c List.mem_cons_self
    have hrest : PathText rest := fun x hx => hp x (List.mem_cons_of_mem _ hx)
    by_cases hs : (c == cSlash) = true
    · have : nSl c = false := by simp [nSl, hs]
      simp [spanLen, this, splitSlash, hs]
    · have hs' : (c == cSlash) = false := by simpa using hs
      have hn : nSl c = true := by simp [nSl, hs', hc.1, hc.2]
      simp only [spanLen, hn, if_true, List.drop_succ_cons, List.take_succ_cons, splitSlash, hs',
        Bool.false_eq_true, if_false]
      rw [ih hrest]
      cases rest.drop (spanLen nSl rest) with
      | nil => simp
      | cons d r => simp

/-- draining from offset `pre.length` of `pre ++ rest` yields `splitSlash rest` -/
theorem collect_eq (pre rest : Text) (hp : PathText rest) : ∀ fuel, rest.length < fuel →
    Path.Segments.collect (pre ++ rest) fuel (.nonEmpty pre.length ((pre ++ rest).length + 1)) = splitSlash rest := by
  intro fuel
  induction fuel generalizing pre rest with
  | zero => intro h; omega
  | succ fuel ih =>
    intro hf
    have hlt : pre.length < (pre ++ rest).length + 1 := by simp; omega
    have hle : pre.length ≤ (pre ++ rest).length := by simp
    have hdrop : (pre ++ rest).drop pre.length = rest := List.drop_left
    have hseg : Path.segment_at (pre ++ rest) pre.length =
        ((pre.length, pre.length + spanLen nSl rest), pre.length + spanLen nSl rest + 1) := by
      simp only [Path.segment_at, hdrop]; rfl
    have hslice : slice (pre ++ rest) (pre.length, pre.length + spanLen nSl rest) = rest.take (spanLen nSl rest) := by
      simp [slice, List.drop_take, hdrop]
    simp only [Path.Segments.collect, Path.Segments.next, hlt, if_true, Path.next_segment_from, hle, hseg, hslice]
    rw [splitSlash_span rest hp]
    have hk := spanLen_le nSl rest
    cases hd : rest.drop (spanLen nSl rest) with
    | nil =>
      -- the segment runs to the end: the iterator is exhausted
      have hkl : spanLen nSl rest = rest.length := by
        have := congrArg List.length hd
        simp at this; omega
      simp only
      congr 1
      cases fuel with
      | zero => rfl
      | succ f =>
        have hnlt : ¬ (pre.length + spanLen nSl rest + 1 < (pre ++ rest).length + 1) := by
          simp only [List.length_append]; omega
        simp only [Path.Segments.collect, Path.Segments.next, hnlt, if_false]
    | cons d rest' =>
      simp only
      congr 1
      -- continue after the `/`
      have hsplit : rest = rest.take (spanLen nSl rest) ++ d :: rest' := by
        have := List.take_append_drop (spanLen nSl rest) rest
        rw [hd] at this; exact this.symm
      have hpre' : pre ++ rest = (pre ++ rest.take (spanLen nSl rest) ++ [d]) ++ rest' := by
        conv => lhs; rw [hsplit]
        simp [List.append_assoc]
      have hlen' : (pre ++ rest.take (spanLen nSl rest) ++ [d]).length = pre.length + spanLen nSl rest + 1 := by
        simp [List.length_take]; omega
      have hrest' : PathText rest' := by
        intro x hx; apply hp; rw [hsplit]; simp [hx]
      have := ih (pre ++ rest.take (spanLen nSl rest) ++ [d]) rest' hrest' (by
        have : rest'.length < rest.length := by
          have := congrArg List.length hd
          simp at this; omega
        omega)
      rw [← hpre', hlen'] at this
      exact this

/-- **forward iteration = `/`-split** -/
theorem segmentList_eq_segs (p : Text) (hp : PathText p) : Path.segmentList p = segs p := by
  unfold Path.segmentList Path.segments segs
  cases p with
  | nil => simp [Path.is_empty, stripRoot, Path.Segments.collect, Path.Segments.next]
  | cons c l =>
    by_cases hc : (c == cSlash) = true
    · have hcs : c = cSlash := by simpa using hc
      subst hcs
      cases l with
      | nil => simp [Path.is_empty, stripRoot, Path.Segments.collect, Path.Segments.next]
      | cons d l' =>
        have hne : Path.is_empty (cSlash :: d :: l') = false := by simp [Path.is_empty]
        have habs : Path.first_segment_offset (cSlash :: d :: l') = 1 := by
          simp [Path.first_segment_offset, Path.is_absolute]
        simp only [hne, Bool.false_eq_true, if_false, habs, stripRoot, beq_self_eq_true, if_true]
        have := collect_eq [cSlash] (d :: l') (fun x hx => hp x (List.mem_cons_of_mem _ hx))
          ((cSlash :: d :: l').length + 2) (by simp)
        simpa using this
    · have hc' : (c == cSlash) = false := by simpa using hc
      have hne : Path.is_empty (c :: l) = false := by
        simp only [Path.is_empty, List.isEmpty_cons, Bool.false_or]
        have : c ≠ cSlash := by simpa using hc'
        simp [this]
      have hrel : Path.first_segment_offset (c :: l) = 0 := by
        simp [Path.first_segment_offset, Path.is_absolute, hc']
      simp only [hne, Bool.false_eq_true, if_false, hrel, stripRoot, hc']
      have := collect_eq [] (c :: l) hp ((c :: l).length + 2) (by simp)
      simpa using this

end IrefVerif.Lemmas
