import IrefVerif.Lemmas.SetterEqs
import IrefVerif.Lemmas.AuthModel
import IrefVerif.Model.PathMut

/-!
# The model of the path handle, as a function on the viewed path

`PInv h pre v post`: the handle's buffer is `pre ++ v ++ post` and its window `[start, end)` is
exactly the path `v`.  Each edit of the *model of the Rust handle* (`Model/PathMut.lean`: offsets,
`Vec` splices, the `end` bookkeeping) returns a handle with the same `pre`, `post` and flags,
whose view is an explicit function of the old view: `pushView`, `clearView`.  Hence path edits
touch nothing but the path, and their list semantics is a statement about these text functions.
-/

set_option linter.unusedSimpArgs false

namespace IrefVerif.Lemmas
open IrefVerif.Spec IrefVerif.Model IrefVerif.Model.Parse

structure PInv (h : PathMut) (pre v post : Text) : Prop where
  data : h.buffer = pre ++ v ++ post
  start : h.start = pre.length
  stop : h.«end» = pre.length + v.length

theorem PInv.view {h : PathMut} {pre v post : Text} (inv : PInv h pre v post) : h.view = v := by
  unfold PathMut.view
  rw [inv.data, inv.start, inv.stop]
  exact slice_mid pre v post _ _ rfl rfl

/-- a splice inside the window -/
theorem spliced_view (h : PathMut) (pre v post : Text) (inv : PInv h pre v post) (i j : Nat) (c : Text)
    (hij : i ≤ j) (hj : j ≤ v.length) (ne : Nat) (hne : ne = pre.length + (i + c.length + (v.length - j))) :
    ∃ h', h.spliced (pre.length + i, pre.length + j) c ne = some h' ∧
      PInv h' pre (v.take i ++ c ++ v.drop j) post ∧
      h'.follows_authority = h.follows_authority ∧ h'.anchored = h.anchored := by
  have hv : v = v.take i ++ (v.drop i).take (j - i) ++ v.drop j := by
    have h1 : v = v.take i ++ v.drop i := (List.take_append_drop i v).symm
    have h2 : v.drop i = (v.drop i).take (j - i) ++ (v.drop i).drop (j - i) := (List.take_append_drop _ _).symm
    have h3 : (v.drop i).drop (j - i) = v.drop j := by
      rw [List.drop_drop]; congr 1; omega
    rw [h3] at h2
    conv => lhs; rw [h1, h2]
    simp [List.append_assoc]
  have hdata : h.buffer = (pre ++ v.take i) ++ (v.drop i).take (j - i) ++ (v.drop j ++ post) := by
    rw [inv.data]
    conv => lhs; rw [hv]
    simp [List.append_assoc]
  have hl1 : (v.take i).length = i := by simp; omega
  have hl2 : ((v.drop i).take (j - i)).length = j - i := by simp; omega
  unfold PathMut.spliced
  rw [hdata, splice_mid (pre ++ v.take i) _ _ c _ _ (by simp [hl1]) (by simp [hl1, hl2]; omega)]
  refine ⟨_, rfl, ⟨?_, inv.start, ?_⟩, rfl, rfl⟩
  · simp [List.append_assoc]
  · simp only [hne, List.length_append, hl1, List.length_drop]

/-! ## clear -/

def clearView (v : Text) : Text := if isAbs v then [cSlash] else []

theorem is_absolute_eq' (p : Text) : Path.is_absolute p = isAbs p := by cases p <;> rfl

theorem clear_view (h : PathMut) (pre v post : Text) (inv : PInv h pre v post) :
    ∃ h', h.clear = some h' ∧ PInv h' pre (clearView v) post ∧
      h'.follows_authority = h.follows_authority ∧ h'.anchored = h.anchored := by
  unfold PathMut.clear PathMut.first_segment_offset
  rw [inv.view, is_absolute_eq', inv.start, inv.stop]
  cases v with
  | nil =>
    simp only [isAbs, Bool.false_eq_true, if_false]
    have := spliced_view h pre [] post inv 0 0 [] (Nat.le_refl _) (Nat.le_refl _) pre.length (by simp)
    simpa [clearView, isAbs] using this
  | cons c r =>
    by_cases hc : (c == cSlash) = true
    · have hcs : c = cSlash := by simpa using hc
      subst hcs
      simp only [isAbs, beq_self_eq_true, if_true]
      have := spliced_view h pre (cSlash :: r) post inv 1 (r.length + 1) [] (by omega) (by simp)
        (pre.length + 1) (by simp)
      simpa [clearView, isAbs] using this
    · have hc' : (c == cSlash) = false := by simpa using hc
      simp only [isAbs, hc', Bool.false_eq_true, if_false]
      have := spliced_view h pre (c :: r) post inv 0 (r.length + 1) [] (by omega) (by simp)
        pre.length (by simp)
      simpa [clearView, isAbs, hc'] using this

/-! ## push -/

/-- the view after `push segment` -/
def pushView (anch fa atStart : Bool) (v s : Text) : Text :=
  let v1 := if anch && v.isEmpty then [cSlash] else v
  if Path.is_empty v1 then
    if (atStart && fsc s) || s.isEmpty then v1 ++ [cDot, cSlash] ++ s else v1 ++ s
  else if fa && v1 == [cSlash, cDot, cSlash] then [cSlash, cSlash] ++ s
  else v1 ++ cSlash :: s

theorem is_empty_cases {v : Text} (h : Path.is_empty v = true) : v = [] ∨ v = [cSlash] := by
  unfold Path.is_empty at h
  rcases Bool.or_eq_true _ _ |>.mp h with h | h
  · left; simpa using h
  · right; simpa using h

/-- the part of `push` after the anchoring step -/
def pushBody (h : PathMut) (segment : Text) : Option PathMut :=
  let empty := Path.is_empty h.view
  let disambiguate := empty &&
    ((h.start == 0 && Parse.first_segment_contains_colon segment) || segment.isEmpty)
  if disambiguate then
    let start := h.first_segment_offset
    h.spliced (start, start) ([cDot, cSlash] ++ segment) (h.«end» + 2 + segment.length)
  else if empty then
    h.spliced (h.«end», h.«end») segment (h.«end» + segment.length)
  else
    let bytes := h.view
    let start_offset := if h.follows_authority && bytes == [cSlash, cDot, cSlash] then 2 else 0
    let start := h.«end» - start_offset
    h.spliced (start, h.«end») (cSlash :: segment) (h.«end» + (1 + segment.length) - start_offset)

theorem push_eq (h0 : PathMut) (s : Text) :
    h0.push s = (if h0.anchored && h0.start == h0.«end» then
        h0.spliced (h0.«end», h0.«end») [cSlash] (h0.«end» + 1) else some h0).bind (fun h => pushBody h s) := by
  unfold PathMut.push pushBody
  split <;> rfl

theorem pushBody_view (h1 : PathMut) (pre v1 post : Text) (i1 : PInv h1 pre v1 post) (s : Text) :
    ∃ h', pushBody h1 s = some h' ∧
      PInv h' pre
        (if Path.is_empty v1 then
          if (pre.length == 0 && fsc s) || s.isEmpty then v1 ++ [cDot, cSlash] ++ s else v1 ++ s
        else if h1.follows_authority && v1 == [cSlash, cDot, cSlash] then [cSlash, cSlash] ++ s
        else v1 ++ cSlash :: s) post ∧
      h'.follows_authority = h1.follows_authority ∧ h'.anchored = h1.anchored := by
  unfold pushBody
  simp only []
  rw [i1.view, i1.start, fsc_eq]
  by_cases hem : Path.is_empty v1 = true
  · simp only [hem, Bool.true_and, if_true]
    have hlen : v1.length = if isAbs v1 then 1 else 0 := by
      rcases is_empty_cases hem with e | e <;> subst e <;> rfl
    by_cases hd : ((pre.length == 0 && fsc s) || s.isEmpty) = true
    · simp only [hd, if_true]
      unfold PathMut.first_segment_offset
      rw [i1.view, is_absolute_eq', i1.start]
      have hoff : (if isAbs v1 = true then pre.length + 1 else pre.length) = pre.length + v1.length := by
        rw [hlen]; split <;> rfl
      rw [hoff]
      obtain ⟨h', e', i', f', a'⟩ := spliced_view h1 pre v1 post i1 v1.length v1.length ([cDot, cSlash] ++ s)
        (Nat.le_refl _) (Nat.le_refl _) (h1.«end» + 2 + s.length) (by rw [i1.stop]; simp; omega)
      refine ⟨h', e', ?_, f', a'⟩
      simpa [List.append_assoc] using i'
    · have hd' : ((pre.length == 0 && fsc s) || s.isEmpty) = false := by simpa using hd
      simp only [hd', Bool.false_eq_true, if_false]
      obtain ⟨h', e', i', f', a'⟩ := spliced_view h1 pre v1 post i1 v1.length v1.length s
        (Nat.le_refl _) (Nat.le_refl _) (h1.«end» + s.length) (by rw [i1.stop]; simp; omega)
      rw [i1.stop]
      rw [i1.stop] at e'
      refine ⟨h', e', ?_, f', a'⟩
      simpa [List.append_assoc] using i'
  · have hem' : Path.is_empty v1 = false := by simpa using hem
    simp only [hem', Bool.false_and, Bool.false_eq_true, if_false]
    by_cases hs3 : (h1.follows_authority && v1 == [cSlash, cDot, cSlash]) = true
    · simp only [hs3, if_true]
      have hv3 : v1 = [cSlash, cDot, cSlash] := by
        simp only [Bool.and_eq_true] at hs3
        simpa using hs3.2
      subst hv3
      obtain ⟨h', e', i', f', a'⟩ := spliced_view h1 pre [cSlash, cDot, cSlash] post i1 1 3 (cSlash :: s)
        (by omega) (by simp) (h1.«end» + (1 + s.length) - 2) (by rw [i1.stop]; simp; omega)
      have hst : h1.«end» - 2 = pre.length + 1 := by rw [i1.stop]; simp
      rw [hst]
      have hen : h1.«end» = pre.length + 3 := by rw [i1.stop]; simp
      rw [hen] at e' ⊢
      refine ⟨h', e', ?_, f', a'⟩
      simpa using i'
    · have hs3' : (h1.follows_authority && v1 == [cSlash, cDot, cSlash]) = false := by simpa using hs3
      simp only [hs3', Bool.false_eq_true, if_false, Nat.sub_zero]
      obtain ⟨h', e', i', f', a'⟩ := spliced_view h1 pre v1 post i1 v1.length v1.length (cSlash :: s)
        (Nat.le_refl _) (Nat.le_refl _) (h1.«end» + (1 + s.length)) (by rw [i1.stop]; simp; omega)
      rw [i1.stop]
      rw [i1.stop] at e'
      refine ⟨h', e', ?_, f', a'⟩
      simpa [List.append_assoc] using i'

theorem push_view (h : PathMut) (pre v post : Text) (inv : PInv h pre v post) (s : Text) :
    ∃ h', h.push s = some h' ∧
      PInv h' pre (pushView h.anchored h.follows_authority (pre.length == 0) v s) post ∧
      h'.follows_authority = h.follows_authority ∧ h'.anchored = h.anchored := by
  have hse : (h.start == h.«end») = v.isEmpty := by
    rw [inv.start, inv.stop]
    cases v with
    | nil => simp
    | cons c r => simp
  rw [push_eq, hse]
  unfold pushView
  by_cases hc : (h.anchored && v.isEmpty) = true
  · simp only [hc, if_true]
    have hv : v = [] := by
      simp only [Bool.and_eq_true] at hc
      simpa using hc.2
    subst hv
    obtain ⟨h1, e1, i1, f1, a1⟩ := spliced_view h pre [] post inv 0 0 [cSlash] (Nat.le_refl _) (Nat.le_refl _)
      (pre.length + 1) (by simp)
    have e1' : h.spliced (h.«end», h.«end») [cSlash] (h.«end» + 1) = some h1 := by
      rw [inv.stop]; simpa using e1
    have i1' : PInv h1 pre [cSlash] post := by simpa using i1
    rw [e1', Option.bind_some]
    obtain ⟨h', e', i', f', a'⟩ := pushBody_view h1 pre [cSlash] post i1' s
    rw [f1] at i'
    exact ⟨h', e', i', f'.trans f1, a'.trans a1⟩
  · have hc' : (h.anchored && v.isEmpty) = false := by simpa using hc
    simp only [hc', Bool.false_eq_true, if_false, Option.bind_some]
    exact pushBody_view h pre v post inv s

/-! ## pop -/

theorem getD_window (pre v post : Text) (k : Nat) (hk : k < v.length) :
    (pre ++ v ++ post).getD (pre.length + k) 0 = v.getD k 0 := by
  simp only [List.getD_eq_getElem?_getD]
  rw [List.append_assoc, List.getElem?_append_right (by omega), Nat.add_sub_cancel_left,
    List.getElem?_append_left hk]

/-- the backward scan is invariant under the position of the window in the buffer -/
theorem scanBack_window (pre v post : Text) (f : Nat) : ∀ n, n < v.length →
    Path.scanBack (pre ++ v ++ post) (pre.length + f) (pre.length + n) = pre.length + Path.scanBack v f n := by
  intro n
  induction n with
  | zero =>
    intro _
    cases hp : pre.length with
    | zero => simp [Path.scanBack]
    | succ m =>
      simp only [Nat.add_zero, Path.scanBack]
      have : ¬ (m + 1 > m + 1 + f) := by omega
      simp [this]
  | succ n ih =>
    intro hn
    have e : pre.length + (n + 1) = (pre.length + n) + 1 := by omega
    rw [e]
    simp only [Path.scanBack]
    rw [← e, getD_window pre v post (n + 1) hn]
    have hc : (pre.length + (n + 1) > pre.length + f) = (n + 1 > f) := by
      apply propext; constructor <;> intro h <;> omega
    simp only [hc]
    by_cases hcond : (decide (n + 1 > f) && v.getD (n + 1) 0 != cSlash) = true
    · simp only [hcond, if_true]
      exact ih (by omega)
    · have hcond' : (decide (n + 1 > f) && v.getD (n + 1) 0 != cSlash) = false := by simpa using hcond
      simp only [hcond', Bool.false_eq_true, if_false]

/-- the view after `pop` -/
def popView (anch fa atStart : Bool) (v : Text) : Text :=
  if (Path.is_empty v && Path.is_relative v && !anch) || Path.last v == some [cDot, cDot] then
    pushView anch fa atStart v [cDot, cDot]
  else if !Path.is_empty v then
    let fso := if isAbs v then 1 else 0
    let k := Path.scanBack v fso (v.length - 1)
    if k == fso && v.getD k 0 == cSlash then v.take k ++ [cDot, cSlash] else v.take k
  else v

theorem scanBack_le (p : Text) (f : Nat) : ∀ n, Path.scanBack p f n ≤ n := by
  intro n
  induction n with
  | zero => simp [Path.scanBack]
  | succ n ih =>
    simp only [Path.scanBack]
    split
    · omega
    · omega

theorem pop_view (h : PathMut) (pre v post : Text) (inv : PInv h pre v post) :
    ∃ h', h.pop = some h' ∧
      PInv h' pre (popView h.anchored h.follows_authority (pre.length == 0) v) post ∧
      h'.follows_authority = h.follows_authority ∧ h'.anchored = h.anchored := by
  unfold PathMut.pop popView
  simp only []
  rw [inv.view]
  by_cases h1 : ((Path.is_empty v && Path.is_relative v && !h.anchored) || Path.last v == some [cDot, cDot]) = true
  · simp only [h1, if_true]
    exact push_view h pre v post inv [cDot, cDot]
  · have h1' : ((Path.is_empty v && Path.is_relative v && !h.anchored) || Path.last v == some [cDot, cDot]) = false := by
      simpa using h1
    simp only [h1', Bool.false_eq_true, if_false]
    by_cases hem : Path.is_empty v = true
    · simp only [hem, Bool.not_true, Bool.false_eq_true, if_false]
      exact ⟨h, rfl, inv, rfl, rfl⟩
    · have hem' : Path.is_empty v = false := by simpa using hem
      simp only [hem', Bool.not_false, if_true]
      have hne : v ≠ [] := by
        intro e; subst e; simp [Path.is_empty] at hem'
      have hlen : 0 < v.length := by
        cases v with
        | nil => exact absurd rfl hne
        | cons c r => simp
      unfold PathMut.first_segment_offset
      rw [inv.view, is_absolute_eq', inv.start, inv.stop, inv.data]
      have hfso : (if isAbs v = true then pre.length + 1 else pre.length) = pre.length + (if isAbs v then 1 else 0) := by
        split <;> rfl
      rw [hfso]
      have hend : pre.length + v.length - 1 = pre.length + (v.length - 1) := by omega
      rw [hend, scanBack_window pre v post _ (v.length - 1) (by omega)]
      generalize hk : Path.scanBack v (if isAbs v then 1 else 0) (v.length - 1) = k
      have hkle : k ≤ v.length - 1 := hk ▸ scanBack_le v _ _
      rw [getD_window pre v post k (by omega)]
      have hbeq : ∀ c : Nat, (pre.length + k == pre.length + c) = (k == c) := by
        intro c; rw [Bool.eq_iff_iff]; simp
      rw [hbeq]
      have hd : v.drop v.length = [] := by simp
      by_cases hc : ((k == if isAbs v = true then 1 else 0) && v.getD k 0 == cSlash) = true
      · simp only [hc, if_true]
        obtain ⟨h', e', i', f', a'⟩ := spliced_view h pre v post inv k v.length [cDot, cSlash] (by omega)
          (Nat.le_refl _) (pre.length + k + 2) (by simp; omega)
        refine ⟨h', e', ?_, f', a'⟩
        simpa [hd] using i'
      · have hc' : ((k == if isAbs v = true then 1 else 0) && v.getD k 0 == cSlash) = false := by simpa using hc
        simp only [hc', Bool.false_eq_true, if_false]
        obtain ⟨h', e', i', f', a'⟩ := spliced_view h pre v post inv k v.length [] (by omega)
          (Nat.le_refl _) (pre.length + k) (by simp)
        refine ⟨h', e', ?_, f', a'⟩
        simpa [hd] using i'

/-! ## symbolic push / append -/

def symPushView (anch fa atStart : Bool) (v s : Text) : Text × Bool :=
  if s == [cDot] then (v, true)
  else if s == [cDot, cDot] then (popView anch fa atStart (if v == [cDot] then clearView v else v), true)
  else if !s.isEmpty || !Path.is_empty v then (pushView anch fa atStart v s, false)
  else (v, false)

theorem symbolic_push_view (h : PathMut) (pre v post : Text) (inv : PInv h pre v post) (s : Text) :
    ∃ h', h.symbolic_push s = some (h', (symPushView h.anchored h.follows_authority (pre.length == 0) v s).2) ∧
      PInv h' pre (symPushView h.anchored h.follows_authority (pre.length == 0) v s).1 post ∧
      h'.follows_authority = h.follows_authority ∧ h'.anchored = h.anchored := by
  unfold PathMut.symbolic_push symPushView
  rw [inv.view]
  by_cases h1 : (s == [cDot]) = true
  · simp only [h1, if_true]
    exact ⟨h, rfl, inv, rfl, rfl⟩
  · have h1' : (s == [cDot]) = false := by simpa using h1
    simp only [h1', Bool.false_eq_true, if_false]
    by_cases h2 : (s == [cDot, cDot]) = true
    · simp only [h2, if_true]
      by_cases hv : (v == [cDot]) = true
      · simp only [hv, if_true]
        obtain ⟨h0, e0, i0, f0, a0⟩ := clear_view h pre v post inv
        obtain ⟨h', e', i', f', a'⟩ := pop_view h0 pre _ post i0
        rw [f0, a0] at i'
        exact ⟨h', by simp [e0, e'], i', f'.trans f0, a'.trans a0⟩
      · have hv' : (v == [cDot]) = false := by simpa using hv
        simp only [hv', Bool.false_eq_true, if_false]
        obtain ⟨h', e', i', f', a'⟩ := pop_view h pre v post inv
        exact ⟨h', by simp [e'], i', f', a'⟩
    · have h2' : (s == [cDot, cDot]) = false := by simpa using h2
      simp only [h2', Bool.false_eq_true, if_false]
      by_cases h3 : (!s.isEmpty || !Path.is_empty v) = true
      · simp only [h3, if_true]
        obtain ⟨h', e', i', f', a'⟩ := push_view h pre v post inv s
        exact ⟨h', by simp [e'], i', f', a'⟩
      · have h3' : (!s.isEmpty || !Path.is_empty v) = false := by simpa using h3
        simp only [h3', Bool.false_eq_true, if_false]
        exact ⟨h, rfl, inv, rfl, rfl⟩

/-- the fold of `symbolic_append` on views -/
def symAppendGoView (anch fa atStart : Bool) : Text → Bool → List Text → Text × Bool
  | v, o, [] => (v, o)
  | v, _, s :: ss =>
    let r := symPushView anch fa atStart v s
    symAppendGoView anch fa atStart r.1 r.2 ss

theorem symbolicAppendGo_view (ss : List Text) : ∀ (h : PathMut) (pre v post : Text) (o : Bool),
    PInv h pre v post →
    ∃ h', PathMut.symbolicAppendGo h o ss =
        some (h', (symAppendGoView h.anchored h.follows_authority (pre.length == 0) v o ss).2) ∧
      PInv h' pre (symAppendGoView h.anchored h.follows_authority (pre.length == 0) v o ss).1 post ∧
      h'.follows_authority = h.follows_authority ∧ h'.anchored = h.anchored := by
  induction ss with
  | nil => intro h pre v post o inv; exact ⟨h, rfl, inv, rfl, rfl⟩
  | cons s ss ih =>
    intro h pre v post o inv
    obtain ⟨h1, e1, i1, f1, a1⟩ := symbolic_push_view h pre v post inv s
    obtain ⟨h2, e2, i2, f2, a2⟩ := ih h1 pre _ post
      (symPushView h.anchored h.follows_authority (pre.length == 0) v s).2 i1
    rw [f1, a1] at e2 i2
    refine ⟨h2, ?_, i2, f2.trans f1, a2.trans a1⟩
    simp only [PathMut.symbolicAppendGo, e1, symAppendGoView]
    exact e2

/-- the trailing empty segment left by a final dot segment -/
def closeView (anch fa atStart : Bool) (r : Text × Bool) : Text :=
  if r.2 && !Path.is_empty r.1 then pushView anch fa atStart r.1 [] else r.1

def symAppendView (anch fa atStart : Bool) (v : Text) (ss : List Text) : Text :=
  closeView anch fa atStart (symAppendGoView anch fa atStart v false ss)

theorem symbolic_append_view (h : PathMut) (pre v post : Text) (inv : PInv h pre v post) (ss : List Text) :
    ∃ h', h.symbolic_append ss = some h' ∧
      PInv h' pre (symAppendView h.anchored h.follows_authority (pre.length == 0) v ss) post ∧
      h'.follows_authority = h.follows_authority ∧ h'.anchored = h.anchored := by
  obtain ⟨h1, e1, i1, f1, a1⟩ := symbolicAppendGo_view ss h pre v post false inv
  unfold PathMut.symbolic_append symAppendView closeView
  simp only [e1]
  rw [i1.view]
  by_cases hc : ((symAppendGoView h.anchored h.follows_authority (pre.length == 0) v false ss).2 &&
      !Path.is_empty (symAppendGoView h.anchored h.follows_authority (pre.length == 0) v false ss).1) = true
  · simp only [hc, if_true]
    obtain ⟨h2, e2, i2, f2, a2⟩ := push_view h1 pre _ post i1 []
    rw [f1, a1] at i2
    exact ⟨h2, e2, i2, f2.trans f1, a2.trans a1⟩
  · have hc' : ((symAppendGoView h.anchored h.follows_authority (pre.length == 0) v false ss).2 &&
        !Path.is_empty (symAppendGoView h.anchored h.follows_authority (pre.length == 0) v false ss).1) = false := by
      simpa using hc
    simp only [hc', Bool.false_eq_true, if_false]
    exact ⟨h1, rfl, i1, f1, a1⟩

def symPushPubView (anch fa atStart : Bool) (v s : Text) : Text :=
  closeView anch fa atStart (symPushView anch fa atStart v s)

theorem symbolic_push_pub_view (h : PathMut) (pre v post : Text) (inv : PInv h pre v post) (s : Text) :
    ∃ h', h.symbolic_push_pub s = some h' ∧
      PInv h' pre (symPushPubView h.anchored h.follows_authority (pre.length == 0) v s) post ∧
      h'.follows_authority = h.follows_authority ∧ h'.anchored = h.anchored := by
  obtain ⟨h1, e1, i1, f1, a1⟩ := symbolic_push_view h pre v post inv s
  unfold PathMut.symbolic_push_pub symPushPubView closeView
  simp only [e1]
  rw [i1.view]
  by_cases hc : ((symPushView h.anchored h.follows_authority (pre.length == 0) v s).2 &&
      !Path.is_empty (symPushView h.anchored h.follows_authority (pre.length == 0) v s).1) = true
  · simp only [hc, if_true]
    obtain ⟨h2, e2, i2, f2, a2⟩ := push_view h1 pre _ post i1 []
    rw [f1, a1] at i2
    exact ⟨h2, e2, i2, f2.trans f1, a2.trans a1⟩
  · have hc' : ((symPushView h.anchored h.follows_authority (pre.length == 0) v s).2 &&
        !Path.is_empty (symPushView h.anchored h.follows_authority (pre.length == 0) v s).1) = false := by
      simpa using hc
    simp only [hc', Bool.false_eq_true, if_false]
    exact ⟨h1, rfl, i1, f1, a1⟩

/-! ## normalize -/

def normView (fa atStart : Bool) (v : Text) : Text :=
  let relative := Path.is_relative v
  let segs := Path.normalized_segments v
  let shield : Text :=
    match segs with
    | first :: _ =>
      if (first.isEmpty && (relative || !fa || segs.length == 1))
          || (relative && atStart && Parse.first_segment_contains_colon first)
      then [cDot, cSlash] else []
    | [] => []
  (if isAbs v then [cSlash] else []) ++ (shield ++ PathMut.joinSegs segs)

theorem normalize_view (h : PathMut) (pre v post : Text) (inv : PInv h pre v post) :
    ∃ h', h.normalize = some h' ∧
      PInv h' pre (normView h.follows_authority (pre.length == 0) v) post ∧
      h'.follows_authority = h.follows_authority ∧ h'.anchored = h.anchored := by
  unfold PathMut.normalize normView PathMut.first_segment_offset
  simp only []
  rw [inv.view, is_absolute_eq', inv.start, inv.stop]
  generalize hb : (match Path.normalized_segments v with
      | first :: _ =>
        if (first.isEmpty && (Path.is_relative v || !h.follows_authority || (Path.normalized_segments v).length == 1))
            || (Path.is_relative v && pre.length == 0 && Parse.first_segment_contains_colon first)
        then [cDot, cSlash] else []
      | [] => []) ++ PathMut.joinSegs (Path.normalized_segments v) = buf
  have hfso : (if isAbs v = true then pre.length + 1 else pre.length) = pre.length + (if isAbs v then 1 else 0) := by
    split <;> rfl
  rw [hfso]
  have hk : (if isAbs v then 1 else 0) ≤ v.length := by
    cases v with
    | nil => simp [isAbs]
    | cons c r => split <;> simp
  obtain ⟨h', e', i', f', a'⟩ := spliced_view h pre v post inv (if isAbs v then 1 else 0) v.length buf hk
    (Nat.le_refl _) (pre.length + (if isAbs v then 1 else 0) + buf.length) (by simp; omega)
  refine ⟨h', e', ?_, f', a'⟩
  have htake : v.take (if isAbs v then 1 else 0) = (if isAbs v then [cSlash] else []) := by
    cases v with
    | nil => simp [isAbs]
    | cons c r =>
      by_cases hc : (c == cSlash) = true
      · have : c = cSlash := by simpa using hc
        subst this; simp [isAbs]
      · have hc' : (c == cSlash) = false := by simpa using hc
        simp [isAbs, hc']
  simpa [htake] using i'

end IrefVerif.Lemmas
