import IrefVerif.Lemmas.PathProd
import IrefVerif.Lemmas.SetterEqs

/-!
# The component lists written by the setters are valid

For a valid component list `P` and valid arguments, each of the seven setter cases of
`SetterEqs.lean` yields a valid component list (`ValidParts`), hence (with
`reference_iff`) the text the model of the setter returns is a valid reference again.  This is
where the disambiguation rules are shown to be *sufficient*: `./`, `/` and `/.` always move the
path into a production that the new context allows.
-/

set_option linter.unusedSimpArgs false

namespace IrefVerif.Lemmas
open IrefVerif IrefVerif.RE IrefVerif.Spec

section
variable (G : Grammar) (ok : Grammar.Ok G) (okp : Grammar.OkPath G)
include ok okp

/-- what is known about a non-empty `path-abempty` -/
theorem abempty_shape {p : Text} (h : Matches G.pathAbempty p) (hne : p ≠ []) :
    isAbs p = true ∧ fsc p = false := by
  rcases abempty_head G h with rfl | ⟨r, rfl⟩
  · exact absurd rfl hne
  · exact ⟨by simp [isAbs], by simp [fsc, cSlash, cColon]⟩

/-- what is known about a `path-rootless` -/
theorem rootless_shape {p : Text} (h : Matches G.pathRootless p) :
    startsSS p = false ∧ isAbs p = false ∧ p ≠ [] := by
  obtain ⟨h1, _, c, r, rfl, hc⟩ := rootlessLike_props G ok G.segmentNz ok.segNz_ne ok.segNz h
  refine ⟨h1, ?_, by simp⟩
  simp only [isAbs]
  simpa using hc

/-- the three kinds of valid path: empty, non-empty abempty (incl. absolute), rootless (incl. noscheme) -/
theorem path_kinds {p : Text} (h : Matches G.path p) :
    p = [] ∨ (Matches G.pathAbempty p ∧ p ≠ []) ∨ Matches G.pathRootless p := by
  simp only [Grammar.path, alts, matches_alt] at h
  rcases h with h | h | h | h | h
  · by_cases hp : p = []
    · exact .inl hp
    · exact .inr (.inl ⟨h, hp⟩)
  · have := (absolute_props G ok h).1
    obtain ⟨r, rfl⟩ := this
    exact .inr (.inl ⟨abempty_of_absolute G okp h, by simp⟩)
  · exact .inr (.inr (rootless_of_noscheme G okp h))
  · exact .inr (.inr h)
  · exact .inl ((matches_pathEmpty G p).mp h)

theorem valid_set_scheme_some (P : Spec.Parts) (hv : ValidParts G P) (s' : Text)
    (hs : Matches Rfc3986.scheme s') : ValidParts G { P with scheme := some s' } where
  scheme x hx := by injection hx with hx; subst hx; exact hs
  authority := hv.authority
  pathAuth := hv.pathAuth
  pathScheme ha _ := by
    cases hsch : P.scheme with
    | some s => exact hv.pathScheme ha (by simp [hsch])
    | none =>
      rcases hv.pathRel ha hsch with h | h | h
      · exact .inl h
      · exact .inr (.inl (rootless_of_noscheme G okp h))
      · exact .inr (.inr h)
  pathRel _ hn := by cases hn
  query := hv.query
  fragment := hv.fragment

theorem valid_set_scheme_none (P : Spec.Parts) (hv : ValidParts G P) :
    ValidParts G { P with scheme := none, path := pathNoScheme P } where
  scheme x hx := by cases hx
  authority := hv.authority
  pathAuth ha := by
    have : pathNoScheme P = P.path := by
      unfold pathNoScheme
      cases hau : P.authority with
      | some a => simp
      | none => simp [hau] at ha
    simp only [this]; exact hv.pathAuth ha
  pathScheme _ hs := by cases hs
  pathRel ha _ := by
    simp only at ha ⊢
    have hwf := wf_of_valid G ok P hv
    unfold pathNoScheme
    simp only [ha, Option.isNone_none, Bool.true_and]
    cases hsch : P.scheme with
    | none =>
      have := hwf.noColon hsch ha
      simp only [this, Bool.false_eq_true, if_false]
      exact hv.pathRel ha hsch
    | some s =>
      rcases hv.pathScheme ha (by simp [hsch]) with h | h | h
      · obtain ⟨r, hr⟩ := (absolute_props G ok h).1
        have hf : fsc P.path = false := by rw [hr]; simp [fsc, cSlash, cColon]
        simp only [hf, Bool.false_eq_true, if_false]
        exact .inl h
      · by_cases hf : fsc P.path = true
        · simp only [hf, if_true]
          exact .inr (.inl (noscheme_dot_slash G okp h))
        · have hf' : fsc P.path = false := by simpa using hf
          simp only [hf', Bool.false_eq_true, if_false]
          exact .inr (.inl (noscheme_of_rootless G okp h hf'))
      · have hf : fsc P.path = false := by rw [h]; rfl
        simp only [hf, Bool.false_eq_true, if_false]
        exact .inr (.inr h)
  query := hv.query
  fragment := hv.fragment

theorem valid_set_authority_some (P : Spec.Parts) (hv : ValidParts G P) (a' : Text)
    (ha' : Matches G.authority a') :
    ValidParts G { P with authority := some a', path := pathWithAuth P } where
  scheme := hv.scheme
  authority x hx := by injection hx with hx; subst hx; exact ha'
  pathAuth _ := by
    simp only
    unfold pathWithAuth
    cases hau : P.authority with
    | some a =>
      simp only [Option.isNone_some, Bool.false_and, Bool.false_eq_true, if_false]
      exact hv.pathAuth (by simp [hau])
    | none =>
      simp only [Option.isNone_none, Bool.true_and]
      have hkinds : Matches G.pathAbsolute P.path ∨ Matches G.pathRootless P.path ∨ P.path = [] := by
        cases hsch : P.scheme with
        | some s => exact hv.pathScheme hau (by simp [hsch])
        | none =>
          rcases hv.pathRel hau hsch with h | h | h
          · exact .inl h
          · exact .inr (.inl (rootless_of_noscheme G okp h))
          · exact .inr (.inr h)
      rcases hkinds with h | h | h
      · obtain ⟨r, hr⟩ := (absolute_props G ok h).1
        have : isAbs P.path = true := by rw [hr]; simp [isAbs]
        simp only [this, Bool.not_true, Bool.and_false, Bool.false_eq_true, if_false]
        exact abempty_of_absolute G okp h
      · obtain ⟨_, h2, h3⟩ := rootless_shape G ok okp h
        have hne : P.path.isEmpty = false := by
          cases hp : P.path with
          | nil => exact absurd hp h3
          | cons c r => rfl
        simp only [h2, hne, Bool.not_false, Bool.and_self, if_true]
        exact abempty_slash_rootless G okp h
      · simp only [h, List.isEmpty_nil, Bool.not_true, Bool.false_and, Bool.false_eq_true, if_false]
        exact .starNil
  pathScheme hn := by cases hn
  pathRel hn := by cases hn
  query := hv.query
  fragment := hv.fragment

theorem valid_set_authority_none (P : Spec.Parts) (hv : ValidParts G P) :
    ValidParts G { P with authority := none, path := pathNoAuth P } := by
  have hcase : P.authority.isSome →
      Matches G.pathAbsolute (pathNoAuth P) ∨ pathNoAuth P = [] := by
    intro ha
    have hab := hv.pathAuth ha
    unfold pathNoAuth
    simp only [ha, Bool.true_and]
    by_cases hss : startsSS P.path = true
    · simp only [hss, if_true]
      exact .inl (absolute_dot_abempty G okp hab)
    · have hss' : startsSS P.path = false := by simpa using hss
      simp only [hss', Bool.false_eq_true, if_false]
      by_cases hp : P.path = []
      · exact .inr hp
      · exact .inl (absolute_of_abempty G okp hab hp hss')
  have hsame : P.authority = none → pathNoAuth P = P.path := by
    intro ha; simp [pathNoAuth, ha]
  exact {
    scheme := hv.scheme
    authority := fun x hx => by cases hx
    pathAuth := fun ha => by cases ha
    pathScheme := fun _ hs => by
      simp only at hs ⊢
      cases hau : P.authority with
      | some a =>
        rcases hcase (by simp [hau]) with h | h
        · exact .inl h
        · exact .inr (.inr h)
      | none => rw [hsame hau]; exact hv.pathScheme hau hs
    pathRel := fun _ hs => by
      simp only at hs ⊢
      cases hau : P.authority with
      | some a =>
        rcases hcase (by simp [hau]) with h | h
        · exact .inl h
        · exact .inr (.inr h)
      | none => rw [hsame hau]; exact hv.pathRel hau hs
    query := hv.query
    fragment := hv.fragment }

theorem valid_set_path (P : Spec.Parts) (hv : ValidParts G P) (p' : Text) (hp : Matches G.path p') :
    ValidParts G { P with path := setPathSpec P p' } where
  scheme := hv.scheme
  authority := hv.authority
  pathAuth ha := by
    simp only at ha ⊢
    unfold setPathSpec
    simp only [ha, Bool.not_true, Bool.false_and, Bool.false_eq_true, if_false, Bool.true_and]
    have hn : P.authority.isNone = false := by
      cases hau : P.authority with
      | some a => rfl
      | none => simp [hau] at ha
    simp only [hn, Bool.and_false, Bool.false_and, Bool.false_eq_true, if_false]
    rcases path_kinds G ok okp hp with h | ⟨h, hne⟩ | h
    · subst h; simp only [List.isEmpty_nil, Bool.not_true, Bool.and_false, Bool.false_eq_true, if_false]
      exact .starNil
    · have := (abempty_shape G ok okp h hne).1
      simp only [this, Bool.not_true, Bool.false_and, Bool.false_eq_true, if_false]
      exact h
    · obtain ⟨_, h2, h3⟩ := rootless_shape G ok okp h
      have hne : p'.isEmpty = false := by
        cases hpp : p' with
        | nil => exact absurd hpp h3
        | cons c r => rfl
      simp only [h2, hne, Bool.not_false, Bool.and_self, if_true]
      exact abempty_slash_rootless G okp h
  pathScheme ha hs := by
    simp only at ha hs ⊢
    unfold setPathSpec
    have hsn : P.scheme.isNone = false := by
      cases hsch : P.scheme with
      | some s => rfl
      | none => simp [hsch] at hs
    simp only [ha, Option.isSome_none, Bool.not_false, Bool.true_and, Bool.false_and, Bool.false_eq_true,
      if_false, hsn]
    rcases path_kinds G ok okp hp with h | ⟨h, hne⟩ | h
    · subst h; simp only [startsSS, Bool.false_eq_true, if_false]; exact .inr (.inr trivial)
    · by_cases hss : startsSS p' = true
      · simp only [hss, if_true]; exact .inl (absolute_dot_abempty G okp h)
      · have hss' : startsSS p' = false := by simpa using hss
        simp only [hss', Bool.false_eq_true, if_false]
        exact .inl (absolute_of_abempty G okp h hne hss')
    · obtain ⟨h1, _, _⟩ := rootless_shape G ok okp h
      simp only [h1, Bool.false_eq_true, if_false]
      exact .inr (.inl h)
  pathRel ha hs := by
    simp only at ha hs ⊢
    unfold setPathSpec
    simp only [ha, hs, Option.isSome_none, Bool.not_false, Bool.true_and, Bool.false_and, Bool.false_eq_true,
      if_false, Option.isNone_none]
    rcases path_kinds G ok okp hp with h | ⟨h, hne⟩ | h
    · subst h; simp only [startsSS, fsc, Bool.false_eq_true, if_false]; exact .inr (.inr trivial)
    · by_cases hss : startsSS p' = true
      · simp only [hss, if_true]; exact .inl (absolute_dot_abempty G okp h)
      · have hss' : startsSS p' = false := by simpa using hss
        have hf := (abempty_shape G ok okp h hne).2
        simp only [hss', hf, Bool.false_eq_true, if_false]
        exact .inl (absolute_of_abempty G okp h hne hss')
    · obtain ⟨h1, _, _⟩ := rootless_shape G ok okp h
      simp only [h1, Bool.false_eq_true, if_false]
      by_cases hf : fsc p' = true
      · simp only [hf, if_true]; exact .inr (.inl (noscheme_dot_slash G okp h))
      · have hf' : fsc p' = false := by simpa using hf
        simp only [hf', Bool.false_eq_true, if_false]
        exact .inr (.inl (noscheme_of_rootless G okp h hf'))
  query := hv.query
  fragment := hv.fragment

end

end IrefVerif.Lemmas
